package c06

import (
	"bytes"
	"encoding/json"
	"fmt"
	"sort"
	"strings"
	"sync"
	"time"

	"seehuhn.de/go/pdf"

	"verif/harness/core"
)

var Driver = core.Driver{ID: "C06", Level: "model_checking", Run: run, Replay: replay, SelfTest: selfTest}

// ---------------------------------------------------------------------------
// design models

func mcConstants(cfg string) string { return "see spec/filter/" + cfg }

func runModels(ctx *core.Ctx) error {
	type job struct {
		module, cfg string
		workers     int
	}
	jobs := []job{{"MC_FilterParams", "MC_FilterParams_q.cfg", 6}, {"MC_FilterPipe", "MC_FilterPipe_q1.cfg", 3},
		{"MC_FilterPipe", "MC_FilterPipe_q2.cfg", 3}, {"MC_FilterPipe", "MC_FilterPipe_q3.cfg", 3}}
	if ctx.Thorough() {
		jobs = []job{{"MC_FilterParams", "MC_FilterParams_t.cfg", 6}, {"MC_FilterPipe", "MC_FilterPipe_t1.cfg", 3},
			{"MC_FilterPipe", "MC_FilterPipe_t2.cfg", 3}, {"MC_FilterPipe", "MC_FilterPipe_t3.cfg", 3}}
	}
	var wg sync.WaitGroup
	errs := make([]error, len(jobs))
	for i, j := range jobs {
		wg.Add(1)
		go func(i int, j job) {
			defer wg.Done()
			_, errs[i] = ctx.MustHold(core.TLCOpts{Dir: "filter", Module: j.module, Cfg: j.cfg, Workers: j.workers,
				Constants: mcConstants(j.cfg), Timeout: ctx.Dur(5, 20)})
		}(i, j)
	}
	wg.Wait()
	for _, e := range errs {
		if e != nil {
			return e
		}
	}
	return nil
}

// ---------------------------------------------------------------------------
// parameter table

func genParamsCfg(tier string, ver int) string {
	return fmt.Sprintf(`INIT GInit
NEXT GNext
CONSTANTS
  PredSet <- Q_PredSet
  ColorSet <- Q_ColorSet
  BpcSet <- Q_BpcSet
  ColSet <- Q_ColSet
  VerSet <- Q_VerSet
  KSet <- Q_KSet
  CColSet <- Q_CColSet
  RowSet <- Q_RowSet
  DmgSet <- Q_DmgSet
  CVerSet = {10, 17}
  MaxAppends = 0
  BREAK = "none"
  TIER = "%s"
  Ver = %d
CHECK_DEADLOCK FALSE
`, tier, ver)
}

func genParams(ctx *core.Ctx) ([]GenLine, error) {
	vers := []int{10, 11, 12, 13, 15, 17, 20}
	tier := "q"
	if ctx.Thorough() {
		vers = []int{10, 11, 12, 13, 14, 15, 16, 17, 20}
		tier = "t"
	}
	var (
		mu    sync.Mutex
		all   []GenLine
		first error
		wg    sync.WaitGroup
	)
	for i, v := range vers {
		wg.Add(1)
		go func(i, v int) {
			defer wg.Done()
			ls, _, err := core.GenCases[GenLine](ctx, core.TLCOpts{Dir: "filter", Module: "Gen_FilterParams", CfgText: genParamsCfg(tier, v),
				Mode: "evaluate", XssMB: 512, Timeout: ctx.Dur(5, 20), Quiet: i > 0})
			mu.Lock()
			defer mu.Unlock()
			if err != nil && first == nil {
				first = err
			}
			all = append(all, ls...)
		}(i, v)
	}
	wg.Wait()
	if first != nil {
		return nil, first
	}
	if len(all) == 0 {
		return nil, core.Infra("Gen_FilterParams produced no lines")
	}
	sort.SliceStable(all, func(i, j int) bool {
		if all[i].V != all[j].V {
			return all[i].V < all[j].V
		}
		return all[i].P.String() < all[j].P.String()
	})
	return all, nil
}

// replayParams executes the table on the real code.  It returns the records
// to be judged (every accepted struct, every line the table disagrees with)
// and one data case per accepted encodable struct.
func replayParams(ctx *core.Ctx, lines []GenLine) (recs []InfoRec, suspect []bool, cases []*PipeCase, precs []*PipeRec, drift []string) {
	r := ctx.Rand("param-data")
	mism := map[string]int{}
	bigRows, skippedBig := map[string]int{}, 0
	// the data cases are executed in batches; a case whose record looks right
	// keeps neither its data nor its output
	var pending []*PipeCase
	flush := func() {
		rs, _ := runCases(ctx, pending)
		for i, c := range pending {
			if rs[i].OK || rs[i].Refused {
				c.data, c.DataHex = nil, ""
			} else {
				c.SetData(c.data)
			}
			cases = append(cases, c)
			precs = append(precs, rs[i])
		}
		pending = nil
	}
	for _, l := range lines {
		rec := ObserveInfo(l.P, l.V)
		ctx.Ev.Eval(1)
		res := CheckLine(l, rec)
		if res != "" {
			mism[res]++
		}
		if res == "validity" {
			drift = append(drift, fmt.Sprintf("%s at version %d: model valid=%v, Info error=%v (%s)", l.P, l.V, l.Valid, rec.InfoErr, rec.Note))
		}
		if rec.InfoErr && res == "" {
			continue // refused by both: nothing is claimed
		}
		recs = append(recs, rec)
		suspect = append(suspect, res != "" && res != "validity")
		if !rec.InfoErr {
			if len(rec.Dict) > 0 {
				ctx.Ev.Distinct(fmt.Sprintf("info/%s/v%d", l.P, l.V))
			}
			// data through the real codec for this parameter set
			p := l.P
			row := p.RowBytes()
			nrows := []int{1, 2, 3, 5}[r.Intn(4)]
			if row == 1 {
				nrows = []int{1, 5, 130, 300}[r.Intn(4)]
			}
			if row > 1<<16 {
				nrows = 1
			}
			if p.Kind == "CCITT" {
				if p.Rows > 0 && nrows > p.Rows {
					nrows = p.Rows // fewer rows than /Rows are admissible when EndOfBlock is true
				}
				if p.Ieob { // admissible shape: exactly /Rows rows (FilterPipe.tla)
					if p.Rows == 0 || p.Rows > 5 {
						continue
					}
					nrows = p.Rows
				}
			}
			if row > 1<<16 {
				// rows of 128 KiB and more (Columns at and around 2^20): a budget per filter family
				if bigRows[p.family()] >= map[string]int{"fl": 12, "cc": 40}[p.family()] {
					skippedBig++
					continue
				}
				bigRows[p.family()]++
			}
			kind := DataKinds[r.Intn(len(DataKinds))]
			d := GenFor(r, p, kind, nrows*row)
			c := &PipeCase{Filters: []P{p}, Ver: l.V, Via: "direct", Writes: []int{len(d)}, ReadPat: []int{1 + r.Intn(300)}, Origin: "param-table"}
			if len(d) > 3 && r.Intn(2) == 0 {
				k := 1 + r.Intn(len(d)-1)
				c.Writes = []int{k, len(d) - k}
			}
			if len(d) > 1<<16 {
				c.ReadPat = []int{1 << 15}
			}
			c.data = d
			pending = append(pending, c)
			if len(pending) >= 512 {
				flush()
			}
		}
	}
	flush()
	ctx.Ev.Set("param_table_big_rows_skipped", skippedBig)
	ctx.Ev.AddReplayed(len(lines))
	ctx.Ev.Set("param_table_lines", len(lines))
	ctx.Ev.Set("param_table_mismatches", mism)
	return recs, suspect, cases, precs, drift
}

// ---------------------------------------------------------------------------
// chunking schedules

type schedLine struct {
	Kind  string `json:"kind"`
	Sizes []int  `json:"sizes"`
}

type schedules struct {
	W1, W2 [][]int // write schedules in units: rows (RowUnits=1) / half rows (RowUnits=2)
	R      [][]int // read patterns in units
}

func genPipeCfg(maxUnits, rowUnits, maxRead int) string {
	return fmt.Sprintf("INIT Init0\nNEXT Next0\nCONSTANTS\n  MaxUnits = %d\n  RowUnits = %d\n  RowStage = 1\n  Stages = 1\n  MaxRead = %d\n  MaxZero = 1\n  BREAK = \"none\"\nCHECK_DEADLOCK FALSE\n",
		maxUnits, rowUnits, maxRead)
}

func genSchedules(ctx *core.Ctx) (*schedules, error) {
	s := &schedules{}
	mu := ctx.Pick(5, 6)
	for _, ru := range []int{1, 2} {
		ls, _, err := core.GenCases[schedLine](ctx, core.TLCOpts{Dir: "filter", Module: "Gen_FilterPipe", CfgText: genPipeCfg(mu, ru, 3),
			Mode: "evaluate", Timeout: ctx.Dur(3, 10)})
		if err != nil {
			return nil, err
		}
		for _, l := range ls {
			switch {
			case l.Kind == "w" && ru == 1:
				s.W1 = append(s.W1, l.Sizes)
			case l.Kind == "w":
				s.W2 = append(s.W2, l.Sizes)
			case ru == 1:
				s.R = append(s.R, l.Sizes)
			}
		}
	}
	if len(s.W1) == 0 || len(s.W2) == 0 || len(s.R) == 0 {
		return nil, core.Infra("Gen_FilterPipe produced no schedules")
	}
	return s, nil
}

func fl(kind string, pred, colors, bpc, cols int, obo bool) P {
	return P{Kind: kind, Pred: pred, Colors: colors, Bpc: bpc, Cols: cols, Obo: obo}
}

type single struct {
	p   P
	ver int
}

// facing: the filters a caller writes to (every encodable filter, predictors
// of every kind, both LZW variants, Compress on both sides of PDF 1.2).
func facingFilters() []single {
	out := []single{
		{P{Kind: "ASCII85"}, 17}, {P{Kind: "ASCIIHex"}, 10}, {P{Kind: "RunLength"}, 17},
		{fl("Flate", 0, 0, 0, 0, false), 17}, {fl("Flate", 1, 0, 0, 0, false), 12},
		{fl("Flate", 2, 1, 8, 5, false), 17}, {fl("Flate", 2, 3, 8, 4, false), 17}, {fl("Flate", 2, 1, 1, 13, false), 17},
		{fl("Flate", 2, 3, 2, 5, false), 17}, {fl("Flate", 2, 1, 4, 3, false), 14}, {fl("Flate", 2, 2, 16, 3, false), 15},
		{fl("Flate", 2, 0, 0, 0, false), 17},
		{fl("Flate", 10, 3, 8, 4, false), 17}, {fl("Flate", 11, 3, 8, 4, false), 17}, {fl("Flate", 12, 3, 8, 4, false), 13},
		{fl("Flate", 13, 3, 8, 4, false), 17}, {fl("Flate", 14, 3, 8, 4, false), 17}, {fl("Flate", 15, 3, 8, 4, false), 20},
		{fl("Flate", 15, 1, 1, 9, false), 17}, {fl("Flate", 12, 4, 16, 2, false), 17}, {fl("Flate", 11, 1, 2, 7, false), 17},
		{fl("Flate", 14, 1, 4, 5, false), 17}, {fl("Flate", 13, 5, 8, 2, false), 17}, {fl("Flate", 12, 0, 0, 128, false), 17},
		{fl("LZW", 0, 0, 0, 0, false), 17}, {fl("LZW", 0, 0, 0, 0, true), 10}, {fl("LZW", 12, 1, 8, 8, false), 17},
		{fl("LZW", 12, 1, 8, 8, true), 11}, {fl("LZW", 2, 3, 8, 4, true), 17}, {fl("LZW", 15, 2, 8, 6, false), 17},
		{fl("Compress", 0, 0, 0, 0, false), 11}, {fl("Compress", 0, 0, 0, 0, false), 17}, {fl("Compress", 15, 3, 8, 4, false), 10},
		{fl("Compress", 12, 1, 8, 16, false), 20},
	}
	return out
}

// inner: filters that may sit further out in a chain, where they see encoded
// bytes of a length the caller does not control: only one-byte rows.
func outerFilters() []P {
	return []P{{Kind: "ASCII85"}, {Kind: "ASCIIHex"}, {Kind: "RunLength"}, fl("Flate", 0, 0, 0, 0, false),
		fl("LZW", 0, 0, 0, 0, false), fl("LZW", 0, 0, 0, 0, true), fl("Flate", 12, 1, 8, 1, false), fl("LZW", 2, 1, 8, 1, true),
		fl("Compress", 0, 0, 0, 0, false)}
}

// ccittGood: CCITTFax parameter sets for use inside chains (every class goes
// through the corpus in ccitt.go; chains use Group 4).
func ccittFacing() []single {
	return []single{{P{Kind: "CCITT", K: -1, Cols: 16}, 17}, {P{Kind: "CCITT", K: -1, Cols: 9, Black: true, Eol: true}, 17},
		{P{Kind: "CCITT", K: -2, Cols: 200, Rows: 3}, 10}}
}

var writeUnits = []int{1, 2, 3, 43, 64, 127, 128, 129, 1000}
var readUnits = []int{1, 2, 5, 64, 512, 4096}

// casesFor turns one abstract schedule into a concrete case for the chain.
func casesFor(ctx *core.Ctx, chain []P, ver int, w []int, half bool, rp []int, n int, via string) *PipeCase {
	r := ctx.Rand(fmt.Sprintf("case/%s/%d", ChainString(chain), n))
	p := chain[len(chain)-1]
	row := p.RowBytes()
	var unit int
	switch {
	case half: // RowUnits = 2: a unit is half a row (times an odd factor)
		unit = row / 2 * []int{1, 1, 3}[r.Intn(3)]
	case row > 1:
		unit = row * []int{1, 1, 2, 3, 17}[r.Intn(5)]
	default:
		unit = writeUnits[(n+r.Intn(2))%len(writeUnits)]
	}
	total := 0
	sizes := make([]int, len(w))
	for i, k := range w {
		sizes[i] = k * unit
		total += sizes[i]
	}
	if p.Kind == "CCITT" && p.Rows > 0 && total/row > p.Rows {
		return nil
	}
	ru := readUnits[(n/3+r.Intn(2))%len(readUnits)]
	pat := make([]int, len(rp))
	for i, k := range rp {
		pat[i] = k * ru
	}
	kind := DataKinds[(n+r.Intn(3))%len(DataKinds)]
	c := &PipeCase{Filters: chain, Ver: ver, Via: via, Writes: sizes, ReadPat: pat, Origin: "schedule"}
	c.SetData(GenFor(r, p, kind, total))
	return c
}

func buildScheduleCases(ctx *core.Ctx, s *schedules) []*PipeCase {
	var cases []*PipeCase
	n := 0
	add := func(chain []P, ver int, w []int, half bool) {
		rp := s.R[n%len(s.R)]
		for _, via := range []string{"direct", "openstream"} {
			if c := casesFor(ctx, chain, ver, w, half, rp, n, via); c != nil {
				cases = append(cases, c)
			}
		}
		n++
	}
	facing := append(facingFilters(), ccittFacing()...)
	// every encodable filter alone: every write schedule
	for _, f := range facing {
		for _, w := range s.W1 {
			add([]P{f.p}, f.ver, w, false)
		}
		if row := f.p.RowBytes(); row > 1 && row%2 == 0 {
			for _, w := range s.W2 {
				add([]P{f.p}, f.ver, w, true)
			}
		}
	}
	// chains of two and three: a rotating selection of schedules
	outer := outerFilters()
	r := ctx.Rand("chains")
	per := ctx.Pick(3, 8)
	pickW := func() []int { return s.W1[r.Intn(len(s.W1))] }
	n2, n3 := 0, 0
	for _, o := range outer {
		for fi, f := range facing {
			if !ctx.Thorough() && (fi+n2)%3 != 0 {
				n2++
				continue
			}
			n2++
			for k := 0; k < per; k++ {
				add([]P{o, f.p}, chainVer(f.ver, o), pickW(), false)
			}
		}
	}
	for _, o1 := range outer {
		for _, o2 := range outer {
			for fi, f := range facing {
				n3++
				if (fi+n3)%ctx.Pick(12, 3) != 0 {
					continue
				}
				for k := 0; k < ctx.Pick(2, 4); k++ {
					add([]P{o1, o2, f.p}, chainVer(chainVer(f.ver, o1), o2), pickW(), false)
				}
			}
		}
	}
	return cases
}

// chainVer: a version at which every filter of the chain is accepted (plain
// Flate needs 1.2).
func chainVer(v int, o P) int {
	if o.Kind == "Flate" && v < 12 {
		return 12
	}
	return v
}

// bulkCases: seeded inputs with free chunking (volume for P-B).
func bulkCases(ctx *core.Ctx) []*PipeCase {
	r := ctx.Rand("bulk")
	var cases []*PipeCase
	facing := append(facingFilters(), ccittFacing()...)
	per := ctx.Pick(12, 60)
	maxLen := ctx.Pick(20000, 300000)
	for _, f := range facing {
		for k := 0; k < per; k++ {
			row := f.p.RowBytes()
			m := maxLen
			if k%3 != 0 {
				m = 5000
			}
			total := PickLength(r, row, m)
			if f.p.Kind == "CCITT" && f.p.Rows > 0 && total/row > f.p.Rows {
				total = f.p.Rows * row
			}
			if f.p.Kind == "CCITT" && total/row > ccittMaxRows {
				total = ccittMaxRows * row // the decoder's documented geometry cap (admissible shape)
			}
			kind := DataKinds[r.Intn(len(DataKinds))]
			d := GenFor(r, f.p, kind, total)
			var sizes []int
			for left := total; left > 0; {
				k := 1 + r.Intn(1+[]int{1, 7, 130, 5000, left}[r.Intn(5)])
				if k > left {
					k = left
				}
				sizes = append(sizes, k)
				left -= k
				if len(sizes) > 400 {
					sizes = append(sizes, left)
					break
				}
			}
			via := "direct"
			if k%2 == 1 {
				via = "openstream"
			}
			rp := []int{[]int{1, 3, 100, 4096, 70000}[r.Intn(5)]}
			if total > 20000 && rp[0] < 100 {
				rp[0] = 511
			}
			c := &PipeCase{Filters: []P{f.p}, Ver: f.ver, Via: via, Writes: sizes, ReadPat: rp, Origin: "bulk/" + kind}
			c.SetData(d)
			cases = append(cases, c)
		}
	}
	return cases
}

// lzwSweepCases: every prefix length of a few fixed byte strings through LZW
// with both EarlyChange settings.  The number of emitted codes grows by at
// most one per byte, so a dense sweep of lengths makes the code count land on
// every value -- in particular exactly on each switch of the code length
// (511/512, 1023/1024, 2047/2048 codes) and on the table-full clear code,
// where the encoder's Close path and the decoder must agree on the width of
// the EOD code.
func lzwSweepCases(ctx *core.Ctx) []*PipeCase {
	r := ctx.Rand("lzw-sweep")
	var cases []*PipeCase
	type sweep struct {
		kind string
		max  int
	}
	for _, sw := range []sweep{{"random", 4200}, {"pairs", 3000}, {"text", 3000}, {"runs", 3000}} {
		d := GenBytes(r, sw.kind, sw.max)
		for _, obo := range []bool{false, true} {
			p := fl("LZW", 0, 0, 0, 0, obo)
			for n := 0; n <= sw.max; n++ {
				c := &PipeCase{Filters: []P{p}, Ver: 17, Via: "direct", Writes: []int{n}, ReadPat: []int{4096}, Origin: "lzw-sweep/" + sw.kind}
				c.data = d[:n]
				cases = append(cases, c)
			}
		}
	}
	return cases
}

// ---------------------------------------------------------------------------
// executing and judging pipe cases

func runCases(ctx *core.Ctx, cases []*PipeCase) ([]*PipeRec, []*streamInfo) {
	recs := make([]*PipeRec, len(cases))
	infos := make([]*streamInfo, len(cases))
	var wg sync.WaitGroup
	sem := make(chan struct{}, 12)
	// direct cases one by one
	for i, c := range cases {
		if c.Via != "direct" {
			continue
		}
		wg.Add(1)
		sem <- struct{}{}
		go func(i int, c *PipeCase) {
			defer wg.Done()
			defer func() { <-sem }()
			recs[i] = runDirectWatched(c)
		}(i, c)
	}
	// OpenStream cases: many streams per file, one file per version and batch
	byVer := map[int][]int{}
	for i, c := range cases {
		if c.Via == "openstream" {
			byVer[c.Ver] = append(byVer[c.Ver], i)
		}
	}
	for ver, idx := range byVer {
		for lo := 0; lo < len(idx); lo += 300 {
			hi := lo + 300
			if hi > len(idx) {
				hi = len(idx)
			}
			wg.Add(1)
			sem <- struct{}{}
			go func(ver int, idx []int) {
				defer wg.Done()
				defer func() { <-sem }()
				batch := make([]*PipeCase, len(idx))
				for k, i := range idx {
					batch[k] = cases[i]
				}
				rs, is := RunOpenStream(ver, batch, nil)
				for k, i := range idx {
					recs[i], infos[i] = rs[k], is[k]
				}
			}(ver, idx[lo:hi])
		}
	}
	wg.Wait()
	for i, r := range recs {
		if r != nil && !r.Refused {
			r.OK = looksOK(r, cases[i].Data())
			if r.OK {
				r.out, r.Encoded = nil, nil
			}
		}
	}
	return recs, infos
}

// runDirectWatched: a codec that does not terminate must not hang the check;
// the run is abandoned after a minute and recorded as a failed read.
func runDirectWatched(c *PipeCase) *PipeRec {
	done := make(chan *PipeRec, 1)
	go func() { done <- RunDirect(c) }()
	t := time.NewTimer(60 * time.Second)
	defer t.Stop()
	select {
	case r := <-done:
		return r
	case <-t.C:
		rec := newRec(c)
		rec.Note = "read: no result within 60 s (the codec does not terminate); "
		rec.Reads = addRun(rec.Reads, [3]int{0, 0, 2})
		return rec
	}
}

// chainKey summarises a chain for violation keys: kinds, predictor class,
// bit depth, LZW variant -- not the geometry.
func chainKey(ps []P) string {
	var parts []string
	for _, p := range ps {
		s := p.Kind
		switch p.family() {
		case "fl":
			if p.Pred > 1 {
				bpc := p.Bpc
				if bpc == 0 {
					bpc = 8
				}
				s += fmt.Sprintf(".p%d.b%d", p.Pred, bpc)
			}
			if p.Kind == "LZW" {
				s += fmt.Sprintf(".e%d", b2i(p.Obo))
			}
		case "cc":
			s = strings.TrimPrefix(CCITTCombo(p), "ccitt/")
			s = "CCITT[" + strings.ReplaceAll(s, "/", ",") + "]"
			if p.Cols > 64*2560 {
				s += "[cols>163840]" // runs longer than 64 make-up codes
			}
		}
		parts = append(parts, s)
	}
	return strings.Join(parts, "|")
}

// parmsPattern is the class of an appendFilter sequence: how many filters,
// and which of them carry a non-empty parameter dictionary.
func parmsPattern(ps []P, ver int) string {
	pat := ""
	for _, p := range ps {
		_, d, _ := p.Filter().Info(Version(ver))
		if len(d) > 0 {
			pat += "1"
		} else {
			pat += "0"
		}
	}
	return fmt.Sprintf("n=%d/parms=%s", len(ps), pat)
}

type reporter struct {
	ctx  *core.Ctx
	mu   sync.Mutex
	seen map[string]bool
}

func (rp *reporter) violation(key, what string, c any) {
	rp.mu.Lock()
	dup := rp.seen[key]
	rp.seen[key] = true
	rp.mu.Unlock()
	if dup {
		return
	}
	rp.ctx.Logf("rejected by the specification: key=%s", key)
	rp.ctx.Violation(key, what, c)
}

func replayCase(kind, key string, c any) map[string]any {
	return map[string]any{"kind": kind, "key": key, "case": c}
}

func (rp *reporter) pipe(c *PipeCase, rec *PipeRec) {
	if c.DataHex == "" && len(c.Data()) > 0 {
		c.SetData(c.Data()) // make the case replayable
	}
	sig := rec.Signature(c.Data())
	key := fmt.Sprintf("pipe/%s/%s/%s", chainKey(c.Filters), c.Via, sig)
	what := fmt.Sprintf("filter chain %s (PDF %d.%d, %s): %d bytes written in %d chunks do not come back (read %d bytes, %s) [%s]",
		ChainString(c.Filters), c.Ver/10, c.Ver%10, c.Via, rec.InLen, len(c.Writes), rec.OutLen, sig, strings.TrimSpace(rec.Note))
	rp.violation(key, what, replayCase("pipe", key, c))
}

// stageCases: the filters of a chain one by one, each on the data it saw
// inside the chain (the caller's data encoded by the filters after it).
func stageCases(c *PipeCase) []*PipeCase {
	var out []*PipeCase
	d := c.Data()
	for i := len(c.Filters) - 1; i >= 0; i-- {
		sc := &PipeCase{Filters: []P{c.Filters[i]}, Ver: c.Ver, Via: c.Via, Writes: []int{len(d)}, ReadPat: c.ReadPat, Origin: "stage of " + ChainString(c.Filters)}
		if i == len(c.Filters)-1 {
			sc.Writes = c.Writes
		}
		sc.SetData(d)
		if len(d)%sc.RowBytes() != 0 {
			break // not of admissible shape for this stage: cannot be judged alone
		}
		out = append(out, sc)
		one := &PipeCase{Filters: []P{c.Filters[i]}, Ver: c.Ver, Via: "direct", Writes: []int{len(d)}, ReadPat: []int{1 << 16}}
		one.SetData(d)
		rec := RunDirect(one)
		if rec.Refused || rec.CloseErr != 0 || rec.Encoded == nil {
			break
		}
		d = append([]byte(nil), rec.Encoded...)
	}
	return out
}

func localise(ctx *core.Ctx, rp *reporter, cases []*PipeCase, recs []*PipeRec, chainBad []int) error {
	if len(chainBad) > 60 {
		chainBad = chainBad[:60]
	}
	var stages []*PipeCase
	var owner []int
	for _, i := range chainBad {
		for _, sc := range stageCases(cases[i]) {
			stages = append(stages, sc)
			owner = append(owner, i)
		}
	}
	if len(stages) == 0 {
		return nil
	}
	srecs, _ := runCases(ctx, stages)
	bad, err := judgePipes(ctx, srecs)
	if err != nil {
		return err
	}
	located := map[int]bool{}
	for k, sc := range stages {
		if bad[k] && !located[owner[k]] {
			located[owner[k]] = true
			rp.pipe(sc, srecs[k])
		}
	}
	for _, i := range chainBad {
		if !located[i] {
			rp.pipe(cases[i], recs[i])
		}
	}
	return nil
}

// looksOK is the harness's own comparison; it only selects which records
// must be judged by TLC in the quick tier.
func looksOK(r *PipeRec, data []byte) bool {
	if r.CloseErr != 0 || r.Note != "" || len(r.Reads) == 0 || r.Reads[len(r.Reads)-1][2] != 1 {
		return false
	}
	for _, w := range r.Writes {
		if w[1] != w[0] || w[2] != 0 {
			return false
		}
	}
	return bytes.Equal(r.out, data)
}

func judgePipes(ctx *core.Ctx, recs []*PipeRec) (map[int]bool, error) {
	var idx []int
	var list []*PipeRec
	for i, r := range recs {
		if r == nil || r.Refused {
			continue
		}
		idx = append(idx, i)
		list = append(list, r)
	}
	bad, err := core.JudgeCases(ctx, core.TLCOpts{Dir: "filter", Module: "Trace_FilterPipe", Cfg: "Trace_FilterPipe.cfg", XssMB: 512,
		Timeout: ctx.Dur(10, 30)}, list, 1500, 12)
	if err != nil {
		return nil, err
	}
	out := map[int]bool{}
	for _, b := range bad {
		out[idx[b]] = true
	}
	return out, nil
}

// ---------------------------------------------------------------------------

func run(ctx *core.Ctx) error {
	ctx.Ev.Rule = "evaluations = executions on the real code (one Info/MakeFilter/Info cycle, or one encode+decode run of a chain); " +
		"distinct non-trivial = accepted parameter structs whose dictionary is not empty (struct, version), plus filter chain runs with " +
		"non-empty input keyed by (chain, route, input digest, write sizes, read pattern)"
	ctx.Ev.Assume("TLC evaluates the modules faithfully; FilterParams.Ref... states ISO 32000-1 7.3.8.2, 7.4 (Tables 5, 8, 11) and the documented meaning of the Go parameter structs")
	ctx.Ev.Assume("SHA-256 prefixes stand for the data of inputs longer than 96 bytes in the records judged by TLC")
	ctx.Ev.Assume("out = in for every byte string is decided by executing the real codecs on seeded inputs (exploration); exhaustive are the parameter algebra and the chunking schedules of the bounded models")
	rp := &reporter{ctx: ctx, seen: map[string]bool{}}

	// 1. design models
	if err := runModels(ctx); err != nil {
		return err
	}

	// 2. P-C: parameter table on the real Info / MakeFilter
	lines, err := genParams(ctx)
	if err != nil {
		return err
	}
	irecs, suspect, paramCases, paramRecs, drift := replayParams(ctx, lines)
	ctx.Logf("parameter table: %d lines executed, %d records to judge, %d validation disagreements", len(lines), len(irecs), len(drift))

	// 3. P-A: chunking schedules
	sched, err := genSchedules(ctx)
	if err != nil {
		return err
	}
	cases := buildScheduleCases(ctx, sched)
	nsched := len(cases)
	cases = append(cases, bulkCases(ctx)...)
	cases = append(cases, lzwSweepCases(ctx)...)
	ncorpus := len(cases)
	// CCITTFax corpus (independent of the seed) and seeded CCITT cases
	type ccRef struct {
		combo  string
		seeded bool
	}
	ccOf := map[int]ccRef{}
	fixed := newFixedRand()
	nper := 250 // per K representative; the same in both tiers: the keys must not depend on the tier
	for _, combo := range ccittCombos() {
		for i := 0; i < nper; i++ {
			c := ccittCase(fixed, combo, i)
			ccOf[len(cases)] = ccRef{CCITTCombo(c.Filters[0]), false}
			cases = append(cases, c)
		}
	}
	sr := ctx.Rand("ccitt-seeded")
	for _, combo := range ccittCombos() {
		for i := 0; i < ctx.Pick(40, 200); i++ {
			c := ccittCase(sr, combo, i)
			c.Origin = "ccitt-seeded"
			if i%2 == 1 {
				c.Via = "openstream"
			}
			if n := len(c.Data()); n > 2 {
				k := 1 + sr.Intn(n-1)
				c.Writes = []int{k, 0, n - k}
				c.ReadPat = []int{1 + sr.Intn(9)}
			}
			ccOf[len(cases)] = ccRef{CCITTCombo(c.Filters[0]), true}
			cases = append(cases, c)
		}
	}
	ctx.Logf("pipe cases: %d from TLC schedules, %d from the parameter table (executed), %d bulk, %d CCITTFax", nsched, len(paramCases), ncorpus-nsched, len(cases)-ncorpus)

	recs, infos := runCases(ctx, cases)
	// the parameter table's data cases were executed with the table
	cases = append(cases, paramCases...)
	recs = append(recs, paramRecs...)
	infos = append(infos, make([]*streamInfo, len(paramCases))...)
	refused := 0
	for i, r := range recs {
		if r == nil {
			return core.Infra("case %d was not executed", i)
		}
		if rem := r.InLen % r.RowBytes; rem != 0 {
			return core.Infra("harness produced an input outside the admissible shape: %s, %d bytes", r.Chain, r.InLen)
		}
		ctx.Ev.Eval(1)
		if r.Refused {
			refused++
			continue
		}
		if r.InLen > 0 {
			c := cases[i]
			ctx.Ev.Distinct(fmt.Sprintf("pipe/%s/%s/%s/%v/%v", r.Chain, r.Via, r.InSum, c.Writes, c.ReadPat))
		}
	}
	ctx.Ev.AddReplayed(nsched)
	ctx.Ev.Set("encode_refused", refused)

	// 4. P-B: TLC judges the records
	// Every record of a TLC schedule, every record that looks wrong to the
	// harness and (quick tier) every fourth of the others is judged by TLC;
	// the thorough tier judges all of them.
	var sel []*PipeRec
	var selIdx []int
	notJudged := 0
	for i, r := range recs {
		if r.Refused {
			continue
		}
		every := 4
		if strings.HasPrefix(cases[i].Origin, "lzw-sweep") || cases[i].Origin == "ccitt-corpus" {
			every = 8 // dense sweeps: the harness's comparison finds the failing length, TLC judges it
		}
		if ctx.Thorough() || cases[i].Origin == "schedule" || !r.OK || i%every == 0 {
			sel = append(sel, r)
			selIdx = append(selIdx, i)
		} else {
			notJudged++
		}
	}
	ctx.Ev.Set("pipe_records_compared_by_harness_only", notJudged)
	badSel, err := judgePipes(ctx, sel)
	if err != nil {
		return err
	}
	badPipe := map[int]bool{}
	for k := range badSel {
		badPipe[selIdx[k]] = true
	}
	for k, i := range selIdx {
		if !badSel[k] && !recs[i].OK {
			return core.Infra("harness and specification disagree: record of %s looks wrong to the harness but is accepted by Trace_FilterPipe (%s)", recs[i].Chain, recs[i].Note)
		}
	}
	ccBad := map[string]map[string]bool{}   // combo -> signatures (fixed corpus)
	ccFirst := map[string]*PipeCase{}       // smallest failing case per combo
	ccStats := map[string][2]int{}          // combo -> {cases, rejected}
	var seededBad, chainBad []int
	for i := range cases {
		ref, isCC := ccOf[i]
		if isCC && !ref.seeded && !recs[i].Refused {
			st := ccStats[ref.combo]
			st[0]++
			if badPipe[i] {
				st[1]++
			}
			ccStats[ref.combo] = st
		}
		if !badPipe[i] {
			continue
		}
		switch {
		case isCC && !ref.seeded:
			if ccBad[ref.combo] == nil {
				ccBad[ref.combo] = map[string]bool{}
			}
			ccBad[ref.combo][ccittSig(recs[i], cases[i])] = true
			if f := ccFirst[ref.combo]; f == nil || len(cases[i].Data()) < len(f.Data()) {
				ccFirst[ref.combo] = cases[i]
			}
		case isCC:
			seededBad = append(seededBad, i)
		default:
			if len(cases[i].Filters) > 1 {
				chainBad = append(chainBad, i)
			} else {
				rp.pipe(cases[i], recs[i])
			}
		}
	}
	// a failing chain is attributed to one of its filters when that filter
	// fails alone on the data it saw inside the chain (keeps the keys specific)
	if err := localise(ctx, rp, cases, recs, chainBad); err != nil {
		return err
	}
	for _, combo := range core.SortedKeys(ccBad) {
		key := ccittKey(combo, ccBad[combo])
		st := ccStats[combo]
		c := ccFirst[combo]
		what := fmt.Sprintf("CCITTFaxDecode %s: %d of %d inputs of admissible shape (whole rows, zero padding bits) do not round-trip; smallest: %s, %d bytes",
			strings.TrimPrefix(combo, "ccitt/"), st[1], st[0], c.Filters[0], len(c.Data()))
		rp.violation(key, what, replayCase("ccitt", key, c))
	}
	extra := 0
	for _, i := range seededBad {
		combo := ccOf[i].combo
		if ccBad[combo] != nil {
			extra++ // a combination already reported from the fixed corpus
			continue
		}
		key := combo + "/sig=" + ccittSig(recs[i], cases[i])
		rp.violation(key, fmt.Sprintf("CCITTFaxDecode %s (seeded case, %s): input does not round-trip", cases[i].Filters[0], cases[i].Via), replayCase("ccitt", key, cases[i]))
	}
	ccSummary := map[string]string{}
	for combo, st := range ccStats {
		ccSummary[combo] = fmt.Sprintf("%d/%d rejected", st[1], st[0])
	}
	ctx.Ev.Set("ccitt_fixed_corpus", ccSummary)
	ctx.Ev.Set("ccitt_seeded_failures_in_reported_combinations", extra)

	// chain records (alignment of /Filter and /DecodeParms) and info records
	var trecs []any
	var tkind []string
	var tref []any
	for i, rec := range irecs {
		trecs = append(trecs, rec)
		tkind = append(tkind, "info")
		tref = append(tref, i)
	}
	for i, si := range infos {
		if si == nil {
			continue
		}
		cr := chainRecord(cases[i], nil, si)
		trecs = append(trecs, cr)
		tkind = append(tkind, "chain")
		tref = append(tref, i)
	}
	seedCases, seedRecs := seededChains(ctx)
	for i, cr := range seedRecs {
		trecs = append(trecs, cr)
		tkind = append(tkind, "seedchain")
		tref = append(tref, seedCases[i])
	}
	bad, err := core.JudgeCases(ctx, core.TLCOpts{Dir: "filter", Module: "Trace_FilterParams", Cfg: "Trace_FilterParams.cfg", XssMB: 512,
		Timeout: ctx.Dur(10, 30)}, trecs, 3000, 12)
	if err != nil {
		return err
	}
	isBad := map[int]bool{}
	for _, b := range bad {
		isBad[b] = true
		switch tkind[b] {
		case "info":
			rec := irecs[tref[b].(int)]
			key := fmt.Sprintf("params/%s/%s", rec.P.Kind, infoSig(rec))
			rp.violation(key, fmt.Sprintf("%s at PDF %d.%d: Info gives /%s %v, MakeFilter rebuilds %s (second Info: /%s %v) -- not the effective parameters [%s]",
				rec.P, rec.V/10, rec.V%10, rec.Name, dictString(rec.Dict), rec.Parsed, rec.Name2, dictString(rec.Dict2), rec.Note),
				replayCase("info", key, map[string]any{"p": rec.P, "v": rec.V}))
		case "chain":
			c := cases[tref[b].(int)]
			key := fmt.Sprintf("append/%s", parmsPattern(c.Filters, c.Ver))
			rp.violation(key, fmt.Sprintf("OpenStream with %s: /Filter and /DecodeParms of the written stream do not describe the chain", ChainString(c.Filters)),
				replayCase("pipe", key, c))
		case "seedchain":
			sc := tref[b].(*seedCase)
			key := fmt.Sprintf("append/seed=%s/%s", sc.SeedName, parmsPattern(sc.Filters, 17))
			rp.violation(key, fmt.Sprintf("OpenStream with dictionary %s and filters %s: /Filter and /DecodeParms are not aligned", sc.SeedName, ChainString(sc.Filters)),
				replayCase("seedchain", key, sc))
		}
	}
	tableOnly := 0
	for i := range irecs {
		if suspect[i] && !isBad[i] {
			tableOnly++ // differs from the Impl table, same meaning: not a finding
		}
	}
	ctx.Ev.Set("table_differences_with_same_meaning", tableOnly)
	if len(drift) > 0 && ctx.Violations() == 0 {
		return core.Infra("FilterParams.ImplValid and filter.go disagree on %d parameter sets (update the model), e.g. %s", len(drift), drift[0])
	}

	// samples
	for i, c := range cases {
		if c.Origin == "schedule" && len(c.Filters) == 2 && len(c.Data()) > 0 && len(c.Data()) < 40 && !badPipe[i] {
			ctx.Ev.Sample(map[string]any{"kind": "TLC schedule replayed on a real chain, record accepted by Trace_FilterPipe", "case": c, "record": recs[i]})
			break
		}
	}
	for _, rec := range irecs {
		if rec.P.Kind == "Compress" && rec.V < 12 && rec.P.Pred == 12 && rec.P.Cols > 1 {
			ctx.Ev.Sample(map[string]any{"kind": "Info/MakeFilter/Info record accepted by Trace_FilterParams", "record": rec})
			break
		}
	}
	ctx.Ev.Exhaustive = true
	ctx.Ev.Set("exhaustive_scope", "parameter algebra (all structs of the bounded sets x versions, appendFilter sequences) and the pipe model in TLC; every table line and every chunking schedule of Gen_FilterPipe executed on the real code; data are seeded samples")
	return nil
}

func infoSig(rec InfoRec) string {
	switch {
	case strings.HasPrefix(rec.Note, "panic"):
		return "panic"
	case rec.Info2Err:
		return "second-info-refused"
	case rec.Name != rec.Name2:
		return "name"
	}
	return "meaning"
}

func dictString(d Dict) string {
	var parts []string
	for _, k := range sortedKeys(d) {
		v := d[k]
		switch v.T {
		case "int":
			parts = append(parts, fmt.Sprintf("/%s %d", k, v.I))
		case "bool":
			parts = append(parts, fmt.Sprintf("/%s %v", k, v.B))
		default:
			parts = append(parts, fmt.Sprintf("/%s <%s>", k, v.T))
		}
	}
	return "<<" + strings.Join(parts, " ") + ">>"
}

// chainRecord builds the record of /Filter and /DecodeParms of a written stream.
func chainRecord(c *PipeCase, seedChain [][]any, si *streamInfo) ChainRec {
	cr := ChainRec{Kind: "chain", F: si.F, P: si.P, Got: si.Got, Chain: ChainString(c.Filters), Note: si.Err, Exp: [][]any{}}
	if cr.Got == nil {
		cr.Got = [][]any{}
	}
	// OpenStream's filters encode what the caller writes: they come in front
	// of the chain the caller's dictionary names (FilterParams.ImplInsert)
	v := Version(c.Ver)
	for _, p := range c.Filters {
		name, dict, err := p.Filter().Info(v)
		if err != nil {
			cr.Note += "info: " + err.Error()
			continue
		}
		cr.Exp = append(cr.Exp, []any{string(name), FromDict(dict)})
	}
	cr.Exp = append(cr.Exp, seedChain...)
	return cr
}

// seedCase: OpenStream called with a dictionary that already names filters.
type seedCase struct {
	SeedName string `json:"seed"`
	Filters  []P    `json:"filters"`
}

var seedDicts = map[string]pdf.Dict{
	"name":        {"Filter": pdf.Name("ASCIIHexDecode")},
	"name+empty":  {"Filter": pdf.Name("ASCIIHexDecode"), "DecodeParms": pdf.Dict{}},
	"name+parms":  {"Filter": pdf.Name("LZWDecode"), "DecodeParms": pdf.Dict{"EarlyChange": pdf.Integer(0)}},
	"array":       {"Filter": pdf.Array{pdf.Name("ASCIIHexDecode"), pdf.Name("LZWDecode")}},
	"array+parms": {"Filter": pdf.Array{pdf.Name("ASCIIHexDecode"), pdf.Name("LZWDecode")}, "DecodeParms": pdf.Array{nil, pdf.Dict{"EarlyChange": pdf.Integer(0)}}},
}

var seedChains = map[string][][]any{
	"name":        {{"ASCIIHexDecode", Dict{}}},
	"name+empty":  {{"ASCIIHexDecode", Dict{}}},
	"name+parms":  {{"LZWDecode", Dict{"EarlyChange": Val{T: "int", I: 0}}}},
	"array":       {{"ASCIIHexDecode", Dict{}}, {"LZWDecode", Dict{}}},
	"array+parms": {{"ASCIIHexDecode", Dict{}}, {"LZWDecode", Dict{"EarlyChange": Val{T: "int", I: 0}}}},
}

var appendFilters = []P{{Kind: "ASCII85"}, fl("Flate", 0, 0, 0, 0, false), fl("LZW", 0, 0, 0, 0, false), fl("Flate", 12, 0, 0, 4, false)}

// seededChains: the seeds and insert sequences of MC_FilterParams on the real
// OpenStream (alignment only: the data of such streams is not the caller's).
func seededChains(ctx *core.Ctx) ([]*seedCase, []ChainRec) {
	var scs []*seedCase
	for _, name := range core.SortedKeys(seedDicts) {
		var rec func(prefix []P)
		rec = func(prefix []P) {
			if len(prefix) > 0 {
				scs = append(scs, &seedCase{SeedName: name, Filters: append([]P(nil), prefix...)})
			}
			if len(prefix) == ctx.Pick(2, 3) {
				return
			}
			for _, f := range appendFilters {
				rec(append(prefix, f))
			}
		}
		rec(nil)
	}
	var recs []ChainRec
	for _, sc := range scs {
		recs = append(recs, runSeedCase(sc))
		ctx.Ev.Eval(1)
	}
	return scs, recs
}

func runSeedCase(sc *seedCase) ChainRec {
	c := &PipeCase{Filters: sc.Filters, Ver: 17, Via: "openstream", Writes: []int{3}, ReadPat: []int{64}}
	c.SetData([]byte("abc"))
	_, infos := RunOpenStream(17, []*PipeCase{c}, []pdf.Dict{seedDicts[sc.SeedName]})
	si := infos[0]
	if si == nil {
		si = &streamInfo{F: Val{T: "none"}, P: Val{T: "none"}, Err: "stream not written"}
	}
	cr := chainRecord(c, seedChains[sc.SeedName], si)
	cr.Seed = sc.SeedName
	return cr
}

// ---------------------------------------------------------------------------

func replay(ctx *core.Ctx, raw json.RawMessage) error {
	var head struct {
		Kind string          `json:"kind"`
		Key  string          `json:"key"`
		Case json.RawMessage `json:"case"`
	}
	if err := json.Unmarshal(raw, &head); err != nil {
		return core.Infra("replay: %v", err)
	}
	rp := &reporter{ctx: ctx, seen: map[string]bool{}}
	switch head.Kind {
	case "pipe", "ccitt":
		var c PipeCase
		if err := json.Unmarshal(head.Case, &c); err != nil {
			return core.Infra("replay: %v", err)
		}
		recs, infos := runCases(ctx, []*PipeCase{&c})
		rec := recs[0]
		fmt.Printf("  chain %s via %s: wrote %d bytes, read %d bytes; %s\n", rec.Chain, rec.Via, rec.InLen, rec.OutLen, rec.Note)
		if rec.Refused {
			fmt.Printf("  the chain is refused on this tree: %s\n", rec.Note)
			return nil
		}
		bad, err := judgePipes(ctx, recs)
		if err != nil {
			return err
		}
		if bad[0] {
			if head.Kind == "ccitt" {
				rp.violation(head.Key, fmt.Sprintf("CCITTFaxDecode %s: input of admissible shape does not round-trip (%s)", c.Filters[0], rec.Signature(c.Data())), replayCase("ccitt", head.Key, &c))
			} else if strings.HasPrefix(head.Key, "pipe/") {
				rp.pipe(&c, rec)
			}
		}
		if strings.HasPrefix(head.Key, "append/") && infos[0] != nil {
			cr := chainRecord(&c, nil, infos[0])
			b, err := core.JudgeCases(ctx, core.TLCOpts{Dir: "filter", Module: "Trace_FilterParams", Cfg: "Trace_FilterParams.cfg", XssMB: 512}, []any{cr}, 1, 1)
			if err != nil {
				return err
			}
			if len(b) > 0 {
				rp.violation(head.Key, fmt.Sprintf("OpenStream with %s: /Filter %v and /DecodeParms %v do not describe the chain", ChainString(c.Filters), cr.F, cr.P), replayCase("pipe", head.Key, &c))
			}
		}
	case "info":
		var c struct {
			P P   `json:"p"`
			V int `json:"v"`
		}
		if err := json.Unmarshal(head.Case, &c); err != nil {
			return core.Infra("replay: %v", err)
		}
		rec := ObserveInfo(c.P, c.V)
		fmt.Printf("  %s at %d: infoErr=%v /%s %s -> %s -> /%s %s %s\n", c.P, c.V, rec.InfoErr, rec.Name, dictString(rec.Dict), rec.Parsed, rec.Name2, dictString(rec.Dict2), rec.Note)
		b, err := core.JudgeCases(ctx, core.TLCOpts{Dir: "filter", Module: "Trace_FilterParams", Cfg: "Trace_FilterParams.cfg", XssMB: 512}, []any{rec}, 1, 1)
		if err != nil {
			return err
		}
		if len(b) > 0 {
			rp.violation(head.Key, fmt.Sprintf("%s: Info / MakeFilter do not reproduce the effective parameters", c.P), replayCase("info", head.Key, c))
		}
	case "seedchain":
		var sc seedCase
		if err := json.Unmarshal(head.Case, &sc); err != nil {
			return core.Infra("replay: %v", err)
		}
		cr := runSeedCase(&sc)
		fmt.Printf("  seed %s + %s: /Filter %+v /DecodeParms %+v\n", sc.SeedName, ChainString(sc.Filters), cr.F, cr.P)
		b, err := core.JudgeCases(ctx, core.TLCOpts{Dir: "filter", Module: "Trace_FilterParams", Cfg: "Trace_FilterParams.cfg", XssMB: 512}, []any{cr}, 1, 1)
		if err != nil {
			return err
		}
		if len(b) > 0 {
			rp.violation(head.Key, "OpenStream: /Filter and /DecodeParms are not aligned", replayCase("seedchain", head.Key, &sc))
		}
	default:
		return core.Infra("replay: unknown case kind %q", head.Kind)
	}
	return nil
}
