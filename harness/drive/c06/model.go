// Package c06 binds spec/filter/FilterParams.tla and spec/filter/FilterPipe.tla
// to filter.go and the codecs below internal/filter, through the public API
// only (pdf.Filter, pdf.MakeFilter, Writer.OpenStream, pdf.DecodeStream).
//
//	P-C  Gen_FilterParams (parameter algebra) -> case table -> real Info / MakeFilter
//	P-B  records of the real Info / MakeFilter / GetFilters -> Trace_FilterParams
//	P-A  Gen_FilterPipe chunking schedules -> replayed on every encodable filter and chains
//	P-B  every run of a real filter chain -> record -> Trace_FilterPipe
//
// model.go: the JSON forms of the TLA+ values (typed PDF values, parameter
// structs) and the conversions from and to the real go-pdf types.  The
// exported names are shared with the C07 and C08 drivers.
package c06

import (
	"encoding/json"
	"fmt"
	"sort"
	"strings"

	"seehuhn.de/go/pdf"
)

// Big31 and Big63 are the stand-ins FilterParams.tla uses for 2^31 and 2^63-1
// (TLC integers are 32 bit).
const (
	Big31 = 2000000001
	Big63 = 2000000002
)

// Val is a typed PDF value as FilterParams.tla sees it.
type Val struct {
	T string // int bool name real string null array dict none ref
	I int64
	B bool
	S string
	A []Val
	D Dict
}

// Dict is a dictionary of typed values.  TLC writes the empty dictionary as [].
type Dict map[string]Val

func (d Dict) MarshalJSON() ([]byte, error) {
	if len(d) == 0 {
		return []byte("{}"), nil
	}
	return json.Marshal(map[string]Val(d))
}

func (d *Dict) UnmarshalJSON(b []byte) error {
	s := strings.TrimSpace(string(b))
	if s == "[]" || s == "null" {
		*d = Dict{}
		return nil
	}
	m := map[string]Val{}
	if err := json.Unmarshal(b, &m); err != nil {
		return err
	}
	*d = m
	return nil
}

func toModelInt(x int64) int64 {
	switch {
	case x == 1<<31:
		return Big31
	case x == 1<<63-1:
		return Big63
	case x > 1<<30:
		return 1<<30 + 1 // any other big value: above every threshold, below the stand-ins
	case x < -(1 << 30):
		return -(1 << 30)
	}
	return x
}

func fromModelInt(x int64) int64 {
	switch x {
	case Big31:
		return 1 << 31
	case Big63:
		return 1<<63 - 1
	}
	return x
}

func (v Val) MarshalJSON() ([]byte, error) {
	m := map[string]any{"t": v.T}
	switch v.T {
	case "int":
		m["v"] = toModelInt(v.I)
	case "bool":
		m["v"] = v.B
	case "name", "string", "real":
		m["v"] = v.S
	case "array":
		a := v.A
		if a == nil {
			a = []Val{}
		}
		m["v"] = a
	case "dict":
		m["v"] = v.D
	}
	return json.Marshal(m)
}

func (v *Val) UnmarshalJSON(b []byte) error {
	var raw struct {
		T string          `json:"t"`
		V json.RawMessage `json:"v"`
	}
	if err := json.Unmarshal(b, &raw); err != nil {
		return err
	}
	v.T = raw.T
	switch raw.T {
	case "int":
		if err := json.Unmarshal(raw.V, &v.I); err != nil {
			return err
		}
		v.I = fromModelInt(v.I)
	case "bool":
		return json.Unmarshal(raw.V, &v.B)
	case "name", "string", "real":
		return json.Unmarshal(raw.V, &v.S)
	case "array":
		return json.Unmarshal(raw.V, &v.A)
	case "dict":
		return json.Unmarshal(raw.V, &v.D)
	}
	return nil
}

// FromObject converts a go-pdf object to a typed value.
func FromObject(o pdf.Object) Val {
	switch x := o.(type) {
	case nil:
		return Val{T: "null"}
	case pdf.Integer:
		return Val{T: "int", I: int64(x)}
	case pdf.Boolean:
		return Val{T: "bool", B: bool(x)}
	case pdf.Name:
		return Val{T: "name", S: string(x)}
	case pdf.Real:
		return Val{T: "real", S: fmt.Sprint(float64(x))}
	case pdf.String:
		return Val{T: "string", S: string(x)}
	case pdf.Array:
		if x == nil {
			return Val{T: "null"}
		}
		a := make([]Val, len(x))
		for i, e := range x {
			a[i] = FromObject(e)
		}
		return Val{T: "array", A: a}
	case pdf.Dict:
		if x == nil {
			return Val{T: "null"}
		}
		return Val{T: "dict", D: FromDict(x)}
	case pdf.Reference:
		return Val{T: "ref"}
	}
	return Val{T: "other"}
}

// FromDict converts a parameter dictionary (nil and empty are the same).
func FromDict(d pdf.Dict) Dict {
	out := Dict{}
	for k, v := range d {
		out[string(k)] = FromObject(v)
	}
	return out
}

// ToObject converts a typed value to a go-pdf object.
func ToObject(v Val) pdf.Object {
	switch v.T {
	case "int":
		return pdf.Integer(v.I)
	case "bool":
		return pdf.Boolean(v.B)
	case "name":
		return pdf.Name(v.S)
	case "real":
		var f float64
		fmt.Sscan(v.S, &f)
		return pdf.Real(f)
	case "string":
		return pdf.String(v.S)
	case "array":
		a := make(pdf.Array, len(v.A))
		for i, e := range v.A {
			a[i] = ToObject(e)
		}
		return a
	case "dict":
		return ToDict(v.D)
	}
	return nil
}

// ToDict converts a typed dictionary to a pdf.Dict (nil when empty).
func ToDict(d Dict) pdf.Dict {
	if len(d) == 0 {
		return nil
	}
	out := pdf.Dict{}
	for k, v := range d {
		if v.T == "none" {
			continue
		}
		out[pdf.Name(k)] = ToObject(v)
	}
	return out
}

// P is a parameter struct of FilterParams.tla (all families in one Go type).
type P struct {
	Kind   string // Flate LZW Compress CCITT ASCII85 ASCIIHex RunLength
	Pred   int
	Colors int
	Bpc    int
	Cols   int
	Obo    bool
	K      int
	Eol    bool
	Align  bool
	Rows   int
	Ieob   bool
	Black  bool
	Dmg    int
}

func (p P) family() string {
	switch p.Kind {
	case "Flate", "LZW", "Compress":
		return "fl"
	case "CCITT":
		return "cc"
	}
	return "sf"
}

func (p P) MarshalJSON() ([]byte, error) {
	switch p.family() {
	case "fl":
		return json.Marshal(map[string]any{"kind": p.Kind, "pred": p.Pred, "colors": p.Colors, "bpc": p.Bpc, "cols": p.Cols, "obo": p.Obo})
	case "cc":
		return json.Marshal(map[string]any{"kind": p.Kind, "k": p.K, "eol": p.Eol, "align": p.Align, "cols": p.Cols,
			"rows": p.Rows, "ieob": p.Ieob, "black": p.Black, "dmg": p.Dmg})
	}
	return json.Marshal(map[string]any{"kind": p.Kind})
}

func (p *P) UnmarshalJSON(b []byte) error {
	var raw struct {
		Kind   string `json:"kind"`
		Pred   int    `json:"pred"`
		Colors int    `json:"colors"`
		Bpc    int    `json:"bpc"`
		Cols   int    `json:"cols"`
		Obo    bool   `json:"obo"`
		K      int    `json:"k"`
		Eol    bool   `json:"eol"`
		Align  bool   `json:"align"`
		Rows   int    `json:"rows"`
		Ieob   bool   `json:"ieob"`
		Black  bool   `json:"black"`
		Dmg    int    `json:"dmg"`
	}
	if err := json.Unmarshal(b, &raw); err != nil {
		return err
	}
	*p = P{raw.Kind, raw.Pred, raw.Colors, raw.Bpc, raw.Cols, raw.Obo, raw.K, raw.Eol, raw.Align, raw.Rows, raw.Ieob, raw.Black, raw.Dmg}
	return nil
}

// String is a compact canonical form, used in keys and evidence.
func (p P) String() string {
	switch p.family() {
	case "fl":
		s := fmt.Sprintf("%s(p%d,c%d,b%d,w%d", p.Kind, p.Pred, p.Colors, p.Bpc, p.Cols)
		if p.Kind == "LZW" {
			if p.Obo {
				s += ",early1"
			} else {
				s += ",early0"
			}
		}
		return s + ")"
	case "cc":
		return fmt.Sprintf("CCITT(K%d,eol%d,align%d,w%d,rows%d,eob%d,black%d,dmg%d)", p.K, b2i(p.Eol), b2i(p.Align), p.Cols, p.Rows, b2i(!p.Ieob), b2i(p.Black), p.Dmg)
	}
	return p.Kind
}

func b2i(b bool) int {
	if b {
		return 1
	}
	return 0
}

// Filter builds the real go-pdf filter for a parameter struct.
func (p P) Filter() pdf.Filter {
	switch p.Kind {
	case "Flate":
		return pdf.FilterFlate{Predictor: pdf.FlatePredictor(p.Pred), Colors: p.Colors, BitsPerComponent: p.Bpc, Columns: p.Cols}
	case "LZW":
		return pdf.FilterLZW{Predictor: pdf.FlatePredictor(p.Pred), Colors: p.Colors, BitsPerComponent: p.Bpc, Columns: p.Cols, OffByOne: p.Obo}
	case "Compress":
		return pdf.FilterCompress{Predictor: pdf.FlatePredictor(p.Pred), Colors: p.Colors, BitsPerComponent: p.Bpc, Columns: p.Cols}
	case "CCITT":
		return pdf.FilterCCITTFax{K: p.K, EndOfLine: p.Eol, EncodedByteAlign: p.Align, Columns: p.Cols, Rows: p.Rows,
			IgnoreEndOfBlock: p.Ieob, BlackIs1: p.Black, DamagedRowsBeforeError: p.Dmg}
	case "ASCII85":
		return pdf.FilterASCII85{}
	case "ASCIIHex":
		return pdf.FilterASCIIHex{}
	case "RunLength":
		return pdf.FilterRunLength{}
	}
	panic("c06: unknown filter kind " + p.Kind)
}

// FromFilter projects a real filter value to the model's struct.
func FromFilter(f pdf.Filter) (P, bool) {
	switch x := f.(type) {
	case pdf.FilterFlate:
		return P{Kind: "Flate", Pred: int(x.Predictor), Colors: clampInt(x.Colors), Bpc: x.BitsPerComponent, Cols: x.Columns}, true
	case pdf.FilterLZW:
		return P{Kind: "LZW", Pred: int(x.Predictor), Colors: clampInt(x.Colors), Bpc: x.BitsPerComponent, Cols: x.Columns, Obo: x.OffByOne}, true
	case pdf.FilterCompress:
		return P{Kind: "Compress", Pred: int(x.Predictor), Colors: clampInt(x.Colors), Bpc: x.BitsPerComponent, Cols: x.Columns}, true
	case pdf.FilterCCITTFax:
		return P{Kind: "CCITT", K: clampInt(x.K), Eol: x.EndOfLine, Align: x.EncodedByteAlign, Cols: x.Columns, Rows: x.Rows,
			Ieob: x.IgnoreEndOfBlock, Black: x.BlackIs1, Dmg: x.DamagedRowsBeforeError}, true
	case pdf.FilterASCII85:
		return P{Kind: "ASCII85"}, true
	case pdf.FilterASCIIHex:
		return P{Kind: "ASCIIHex"}, true
	case pdf.FilterRunLength:
		return P{Kind: "RunLength"}, true
	}
	return P{Kind: "?"}, false
}

func clampInt(x int) int { return int(toModelInt(int64(x))) }

// Version maps the model's 10*major+minor to pdf.Version.
func Version(v int) pdf.Version {
	switch v {
	case 10:
		return pdf.V1_0
	case 11:
		return pdf.V1_1
	case 12:
		return pdf.V1_2
	case 13:
		return pdf.V1_3
	case 14:
		return pdf.V1_4
	case 15:
		return pdf.V1_5
	case 16:
		return pdf.V1_6
	case 17:
		return pdf.V1_7
	case 20:
		return pdf.V2_0
	}
	panic("c06: unknown version")
}

// RowBytes is the row size in bytes the filter imposes on its input (1 when
// the filter has no row structure), computed from the documented meaning of
// the parameters (ISO 32000-1 7.4.4.4, 7.4.6).
func (p P) RowBytes() int {
	z := func(x, def int) int {
		if x == 0 {
			return def
		}
		return x
	}
	switch p.family() {
	case "fl":
		if z(p.Pred, 1) == 1 {
			return 1
		}
		return (z(p.Colors, 1)*z(p.Bpc, 8)*z(p.Cols, 1) + 7) / 8
	case "cc":
		return (z(p.Cols, 1728) + 7) / 8
	}
	return 1
}

// ChainString names a chain (OpenStream order: outermost first).
func ChainString(ps []P) string {
	var parts []string
	for _, p := range ps {
		parts = append(parts, p.String())
	}
	return strings.Join(parts, "|")
}

func sortedKeys[V any](m map[string]V) []string {
	keys := make([]string, 0, len(m))
	for k := range m {
		keys = append(keys, k)
	}
	sort.Strings(keys)
	return keys
}
