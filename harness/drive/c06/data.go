package c06

// data.go: seeded data generators.  Shapes: random, runs, all-equal, ramps,
// sparse, text; lengths around 0..4, 127..130, 255..258, 4095..4097 and row
// boundaries; whole rows for row based filters; CCITTFax rows with zero
// padding bits (the admissible shape stated in FilterPipe.tla).

import "math/rand"

// DataKinds lists the generator names.
var DataKinds = []string{"random", "runs", "equal", "zero", "ramp", "sparse", "text", "longruns", "pairs"}

// GenBytes produces n bytes of the given kind.
func GenBytes(r *rand.Rand, kind string, n int) []byte {
	b := make([]byte, n)
	switch kind {
	case "random":
		r.Read(b)
	case "runs": // runs of 1..6 equal bytes: the run-length encoder's literal/repeat switch
		for i := 0; i < n; {
			l := 1 + r.Intn(6)
			x := byte(r.Intn(4))
			for j := 0; j < l && i < n; j++ {
				b[i] = x
				i++
			}
		}
	case "longruns": // runs around the 128 boundaries
		for i := 0; i < n; {
			l := []int{1, 2, 3, 126, 127, 128, 129, 130, 255, 256, 257, 300}[r.Intn(12)]
			x := byte(r.Intn(256))
			for j := 0; j < l && i < n; j++ {
				b[i] = x
				i++
			}
		}
	case "equal":
		x := byte(r.Intn(256))
		for i := range b {
			b[i] = x
		}
	case "zero":
	case "ramp":
		s := r.Intn(256)
		for i := range b {
			b[i] = byte(s + i)
		}
	case "sparse":
		for i := 0; i < n/16+1 && n > 0; i++ {
			b[r.Intn(n)] = byte(1 << r.Intn(8))
		}
	case "text":
		const words = "the quick brown fox jumps over the lazy dog stream endstream obj endobj ~> > z zzzz <~ \n\r\t"
		for i := range b {
			b[i] = words[(i*7+r.Intn(3))%len(words)]
		}
	case "pairs": // two values alternating irregularly (LZW dictionary growth)
		for i := range b {
			b[i] = byte(65 + (i/(1+r.Intn(3)))%2)
		}
	default:
		r.Read(b)
	}
	return b
}

// boundaryLengths are the byte lengths the property names.
var boundaryLengths = []int{0, 1, 2, 3, 4, 5, 63, 64, 65, 126, 127, 128, 129, 130, 131, 254, 255, 256, 257, 258, 259, 383, 384, 385, 511, 512, 513, 1023, 1024, 1025, 4095, 4096, 4097}

// PickLength draws a total length that is a multiple of row, near one of the
// boundary lengths (or a random one up to max).
func PickLength(r *rand.Rand, row, max int) int {
	var l int
	if r.Intn(4) == 0 {
		l = r.Intn(max + 1)
	} else {
		l = boundaryLengths[r.Intn(len(boundaryLengths))]
		if l > max {
			l = max
		}
	}
	rows := l / row
	if l%row != 0 && r.Intn(2) == 0 {
		rows++
	}
	return rows * row
}

// MaskCCITT clears the padding bits of every row (bits beyond Columns).
func MaskCCITT(b []byte, cols int) {
	if cols == 0 {
		cols = 1728
	}
	if cols%8 == 0 {
		return
	}
	row := (cols + 7) / 8
	mask := byte(0xff) << (8 - cols%8)
	for i := row - 1; i < len(b); i += row {
		b[i] &= mask
	}
}

// GenFor produces data of admissible shape for the chain whose caller-facing
// filter is p: n bytes (a multiple of the row size), CCITT padding cleared.
func GenFor(r *rand.Rand, p P, kind string, n int) []byte {
	b := GenBytes(r, kind, n)
	if p.Kind == "CCITT" {
		if kind == "runs" || kind == "longruns" {
			// pixel runs rather than byte runs
			cols := p.Cols
			if cols == 0 {
				cols = 1728
			}
			row := (cols + 7) / 8
			for i := range b {
				b[i] = 0
			}
			for y := 0; y*row < len(b); y++ {
				bit := r.Intn(2)
				for x := 0; x < cols; {
					l := 1 + r.Intn(1+cols/3)
					if kind == "longruns" {
						l = []int{1, 2, 63, 64, 65, 127, 128, 1, 3, 7}[r.Intn(10)]
					}
					for j := 0; j < l && x < cols; j++ {
						if bit == 1 {
							b[y*row+x/8] |= 1 << (7 - x%8)
						}
						x++
					}
					bit ^= 1
				}
			}
		}
		MaskCCITT(b, p.Cols)
	}
	return b
}
