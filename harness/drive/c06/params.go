package c06

// params.go: the parameter algebra on the real code.  Every line of the
// Gen_FilterParams table is executed (Info -> dictionary -> MakeFilter ->
// Info); what the real code answered becomes a record for Trace_FilterParams.

import (
	"encoding/json"
	"fmt"
	"reflect"

	"seehuhn.de/go/pdf"
)

// GenLine is one line of the Gen_FilterParams table.
type GenLine struct {
	P     P      `json:"p"`
	V     int    `json:"v"`
	Valid bool   `json:"valid"`
	Name  string `json:"name"`
	Dict  Dict   `json:"dict"`
	Norm  P      `json:"norm"`
}

// InfoRec is the record of Info / MakeFilter / Info on the real code.
type InfoRec struct {
	Kind     string `json:"kind"` // "info"
	P        P      `json:"p"`
	V        int    `json:"v"`
	InfoErr  bool   `json:"infoErr"`
	Name     string `json:"name"`
	Dict     Dict   `json:"dict"`
	Parsed   P      `json:"parsed"`
	Info2Err bool   `json:"info2Err"`
	Name2    string `json:"name2"`
	Dict2    Dict   `json:"dict2"`
	Note     string `json:"note,omitempty"`
}

// ObserveInfo runs Info -> MakeFilter -> Info on the real code.
func ObserveInfo(p P, v int) (rec InfoRec) {
	rec = InfoRec{Kind: "info", P: p, V: v, Dict: Dict{}, Dict2: Dict{}, Parsed: P{Kind: "?"}}
	defer func() {
		if x := recover(); x != nil {
			rec.Note = fmt.Sprintf("panic: %v", x)
			rec.Info2Err = true
		}
	}()
	ver := Version(v)
	name, dict, err := p.Filter().Info(ver)
	if err != nil {
		rec.InfoErr = true
		rec.Note = err.Error()
		return rec
	}
	rec.Name, rec.Dict = string(name), FromDict(dict)
	f2, err := pdf.MakeFilter(name, dict)
	if err != nil {
		rec.Note = "makefilter: " + err.Error()
		rec.Info2Err = true
		return rec
	}
	q, ok := FromFilter(f2)
	if !ok {
		rec.Note = fmt.Sprintf("MakeFilter returned %T", f2)
	}
	rec.Parsed = q
	name2, dict2, err := f2.Info(ver)
	if err != nil {
		rec.Info2Err = true
		rec.Note = "second Info: " + err.Error()
		return rec
	}
	rec.Name2, rec.Dict2 = string(name2), FromDict(dict2)
	return rec
}

func dictEqual(a, b Dict) bool {
	if len(a) != len(b) {
		return false
	}
	return reflect.DeepEqual(normDict(a), normDict(b))
}

func normDict(d Dict) map[string]string {
	out := map[string]string{}
	for k, v := range d {
		j, _ := json.Marshal(v)
		out[k] = string(j)
	}
	return out
}

// CheckLine compares the real answers with the table line.  "" = agreement;
// "validity" = model and code disagree on whether the struct is accepted.
func CheckLine(l GenLine, rec InfoRec) string {
	if rec.Note != "" && !rec.InfoErr {
		return "note"
	}
	if rec.InfoErr == l.Valid {
		return "validity"
	}
	if !l.Valid {
		return ""
	}
	switch {
	case rec.Name != l.Name:
		return "name"
	case !dictEqual(rec.Dict, l.Dict):
		return "dict"
	case rec.Parsed != l.Norm:
		return "parsed"
	case rec.Info2Err:
		return "info2"
	case rec.Name2 != l.Name:
		return "name2"
	}
	return ""
}

// ChainRec is the record of what a stream written by OpenStream says about
// its filters (judged by Trace_FilterParams, kind "chain").
type ChainRec struct {
	Kind  string  `json:"kind"` // "chain"
	Exp   [][]any `json:"exp"`  // [name, dict]*
	F     Val     `json:"F"`
	P     Val     `json:"P"`
	Got   [][]any `json:"got"`
	Chain string  `json:"chain"`
	Seed  string  `json:"seed,omitempty"`
	Note  string  `json:"note,omitempty"`
}
