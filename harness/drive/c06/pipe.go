package c06

// pipe.go: executes one chunking schedule on a real filter chain and records
// what the caller could observe (the record judged by Trace_FilterPipe).

import (
	"bytes"
	"crypto/sha256"
	"encoding/hex"
	"fmt"
	"io"
	"strings"

	"seehuhn.de/go/membudget"
	"seehuhn.de/go/pdf"
)

// PipeCase is one replayable run: a chain (OpenStream order, outermost
// first), a PDF version, the data, the write sizes and the cyclic read sizes
// (both in bytes).
type PipeCase struct {
	Filters []P    `json:"filters"`
	Ver     int    `json:"ver"`
	Via     string `json:"via"` // "direct" or "openstream"
	DataHex string `json:"data"`
	Writes  []int  `json:"writes"`
	ReadPat []int  `json:"readPat"`
	Origin  string `json:"origin,omitempty"`

	data []byte
}

func (c *PipeCase) Data() []byte {
	if c.data == nil && c.DataHex != "" {
		c.data, _ = hex.DecodeString(c.DataHex)
	}
	return c.data
}

func (c *PipeCase) SetData(b []byte) {
	c.data = b
	c.DataHex = hex.EncodeToString(b)
}

// RowBytes of the chain's caller-facing filter (the last one).  Row based
// filters further out see encoded bytes, whose length the caller does not
// control: the generators only put filters with one-byte rows there.
func (c *PipeCase) RowBytes() int {
	if len(c.Filters) == 0 {
		return 1
	}
	return c.Filters[len(c.Filters)-1].RowBytes()
}

// PipeRec is the record of one run (see Trace_FilterPipe.tla).
type PipeRec struct {
	Chain    string   `json:"chain"`
	Via      string   `json:"via"`
	Ver      int      `json:"ver"`
	RowBytes int      `json:"rowBytes"`
	InLen    int      `json:"inLen"`
	InSum    string   `json:"inSum"`
	Writes   [][4]int `json:"writes"` // len, n, err, repeat
	CloseErr int      `json:"closeErr"`
	Reads    [][4]int `json:"reads"` // req, got, status (0 nil, 1 EOF, 2 error), repeat
	OutLen   int      `json:"outLen"`
	OutSum   string   `json:"outSum"`
	In       []int    `json:"in,omitempty"`
	Out      []int    `json:"out,omitempty"`
	Note     string   `json:"note,omitempty"`

	// not judged, not serialised
	Refused bool   `json:"-"` // Encode / Info / OpenStream refused the chain: nothing was written
	OK      bool   `json:"-"` // the harness's own comparison found nothing wrong (selects what TLC judges in the quick tier)
	EncLen  int    `json:"-"`
	Encoded []byte `json:"-"`
	out     []byte
}

const inlineLimit = 96 // inputs up to this length are logged byte by byte

type nopWC struct{ io.Writer }

func (nopWC) Close() error { return nil }

func sum(b []byte) string {
	h := sha256.Sum256(b)
	return hex.EncodeToString(h[:8])
}

func ints(b []byte) []int {
	v := make([]int, len(b))
	for i, x := range b {
		v[i] = int(x)
	}
	return v
}

func addRun(list [][4]int, e [3]int) [][4]int {
	if n := len(list); n > 0 && list[n-1][0] == e[0] && list[n-1][1] == e[1] && list[n-1][2] == e[2] && e[2] == 0 {
		list[n-1][3]++
		return list
	}
	return append(list, [4]int{e[0], e[1], e[2], 1})
}

func newRec(c *PipeCase) *PipeRec {
	d := c.Data()
	rec := &PipeRec{Chain: ChainString(c.Filters), Via: c.Via, Ver: c.Ver, RowBytes: c.RowBytes(), InLen: len(d), InSum: sum(d),
		Writes: [][4]int{}, Reads: [][4]int{}}
	if len(d) <= inlineLimit {
		rec.In = ints(d)
	}
	return rec
}

// doWrites feeds the data to w in the scheduled chunks and closes it.
func doWrites(rec *PipeRec, c *PipeCase, w io.WriteCloser) {
	d := c.Data()
	pos := 0
	sizes := c.Writes
	for i := 0; i < len(sizes) || pos < len(d); i++ {
		k := len(d) - pos
		if i < len(sizes) && sizes[i] < k {
			k = sizes[i]
		}
		n, err := w.Write(d[pos : pos+k])
		e := 0
		if err != nil {
			e = 1
			rec.Note += "write: " + err.Error() + "; "
		}
		rec.Writes = addRun(rec.Writes, [3]int{k, n, e})
		if err != nil || n != k {
			return
		}
		pos += k
	}
	if err := w.Close(); err != nil {
		rec.CloseErr = 1
		rec.Note += "close: " + err.Error() + "; "
	}
}

// doReads drains r with the cyclic request pattern.
func doReads(rec *PipeRec, c *PipeCase, r io.Reader) {
	pat := c.ReadPat
	if len(pat) == 0 {
		pat = []int{4096}
	}
	maxReq := 1
	for _, x := range pat {
		if x > maxReq {
			maxReq = x
		}
	}
	buf := make([]byte, maxReq)
	var out []byte
	stall := 0
	limit := 4*len(c.Data()) + 1<<16
	for i := 0; ; i++ {
		req := pat[i%len(pat)]
		n, err := r.Read(buf[:req])
		if n < 0 || n > req {
			rec.Note += fmt.Sprintf("Read(%d) returned n=%d; ", req, n)
			rec.Reads = addRun(rec.Reads, [3]int{req, req + 1, 2})
			break
		}
		out = append(out, buf[:n]...)
		st := 0
		if err == io.EOF {
			st = 1
		} else if err != nil {
			st = 2
			rec.Note += "read: " + err.Error() + "; "
		}
		rec.Reads = addRun(rec.Reads, [3]int{req, n, st})
		if err != nil {
			break
		}
		if n == 0 && req > 0 {
			stall++
			if stall > 70 {
				rec.Note += "no progress; "
				break
			}
		} else if req > 0 {
			stall = 0
		}
		if len(out) > limit {
			rec.Note += "output does not end; "
			break
		}
	}
	rec.out = out
	rec.OutLen = len(out)
	rec.OutSum = sum(out)
	if rec.In != nil || len(c.Data()) == 0 {
		if len(out) <= 4*inlineLimit {
			rec.Out = ints(out)
		} else {
			rec.Out = ints(out[:4*inlineLimit])
		}
	}
}

func budgetFor(n int) *membudget.Budget { return membudget.New(64<<20 + 1024*int64(n)) }

// RunDirect runs the case through Filter.Encode, Filter.Info, pdf.MakeFilter
// and Filter.Decode, composing the chain the way OpenStream / DecodeStream do.
func RunDirect(c *PipeCase) (rec *PipeRec) {
	rec = newRec(c)
	defer func() {
		if p := recover(); p != nil {
			rec.Note += fmt.Sprintf("panic: %v; ", p)
			rec.CloseErr = 1
		}
	}()
	v := Version(c.Ver)
	var file bytes.Buffer
	var w io.WriteCloser = nopWC{&file}
	type nd struct {
		name pdf.Name
		dict pdf.Dict
	}
	var infos []nd
	for _, p := range c.Filters {
		f := p.Filter()
		ww, err := f.Encode(v, w)
		if err != nil {
			rec.Refused = true
			rec.Note += "encode: " + err.Error()
			return rec
		}
		name, dict, err := f.Info(v)
		if err != nil {
			rec.Refused = true
			rec.Note += "info: " + err.Error()
			return rec
		}
		w = ww
		infos = append(infos, nd{name, dict})
	}
	doWrites(rec, c, w)
	rec.EncLen = file.Len()
	rec.Encoded = file.Bytes()

	budget := budgetFor(file.Len())
	var r io.Reader = bytes.NewReader(file.Bytes())
	var closers []io.Closer
	for _, x := range infos {
		f, err := pdf.MakeFilter(x.name, x.dict)
		if err != nil {
			rec.Note += "makefilter: " + err.Error() + "; "
			rec.Reads = addRun(rec.Reads, [3]int{0, 0, 2})
			return rec
		}
		rc, err := f.Decode(v, r, budget)
		if err != nil {
			rec.Note += "decode: " + err.Error() + "; "
			rec.Reads = addRun(rec.Reads, [3]int{0, 0, 2})
			return rec
		}
		closers = append(closers, rc)
		r = rc
	}
	doReads(rec, c, r)
	for i := len(closers) - 1; i >= 0; i-- {
		closers[i].Close()
	}
	return rec
}

// streamInfo is what the reopened file says about a stream written by OpenStream.
type streamInfo struct {
	F, P Val     // /Filter and /DecodeParms as found ("none" when absent)
	Got  [][]any // Info of every filter GetFilters returned: [name, dict]
	Err  string
}

// RunOpenStream writes every case as one stream of a single PDF file with
// Writer.OpenStream, reopens the file and reads the streams back with
// pdf.DecodeStream.  seeds[i], when non-nil, is the dictionary handed to
// OpenStream.  A failure on the writing side poisons the writer, so the rest
// of the batch continues in a fresh file.
func RunOpenStream(ver int, cases []*PipeCase, seeds []pdf.Dict) ([]*PipeRec, []*streamInfo) {
	recs := make([]*PipeRec, len(cases))
	infos := make([]*streamInfo, len(cases))
	start := 0
	for start < len(cases) {
		start = openStreamBatch(ver, cases, seeds, recs, infos, start)
	}
	return recs, infos
}

func openStreamBatch(ver int, cases []*PipeCase, seeds []pdf.Dict, recs []*PipeRec, infos []*streamInfo, start int) (next int) {
	v := Version(ver)
	buf := &bytes.Buffer{}
	w, err := pdf.NewWriter(buf, v, nil)
	if err != nil {
		for i := start; i < len(cases); i++ {
			recs[i] = newRec(cases[i])
			recs[i].Refused = true
			recs[i].Note = "NewWriter: " + err.Error()
		}
		return len(cases)
	}
	w.GetMeta().Catalog.Pages = w.Alloc()
	refs := map[int]pdf.Reference{}
	end := len(cases)
	for i := start; i < len(cases); i++ {
		c := cases[i]
		rec := newRec(c)
		recs[i] = rec
		poisoned := func() (poisoned bool) {
			defer func() {
				if p := recover(); p != nil {
					rec.Note += fmt.Sprintf("panic: %v; ", p)
					rec.CloseErr = 1
					poisoned = true
				}
			}()
			var fs []pdf.Filter
			for _, p := range c.Filters {
				f := p.Filter()
				// OpenStream registers the object before it asks the filters: probe first
				if _, _, err := f.Info(v); err != nil {
					rec.Refused = true
					rec.Note += "info: " + err.Error()
					return false
				}
				if ww, err := f.Encode(v, nopWC{io.Discard}); err != nil {
					rec.Refused = true
					rec.Note += "encode: " + err.Error()
					return false
				} else {
					ww.Close()
				}
				fs = append(fs, f)
			}
			ref := w.Alloc()
			var seed pdf.Dict
			if seeds != nil {
				seed = seeds[i]
			}
			out, err := w.OpenStream(ref, seed, fs...)
			if err != nil {
				rec.Refused = true
				rec.Note += "openstream: " + err.Error()
				return true
			}
			doWrites(rec, c, out)
			if rec.CloseErr != 0 || strings.Contains(rec.Note, "write:") {
				return true
			}
			refs[i] = ref
			return false
		}()
		if poisoned {
			end = i + 1
			break
		}
	}
	if err := w.Close(); err != nil {
		// the file is unusable: every stream of the batch stays unread
		for i := start; i < end; i++ {
			if _, ok := refs[i]; ok {
				recs[i].Note += "Writer.Close: " + err.Error() + "; "
				recs[i].Reads = addRun(recs[i].Reads, [3]int{0, 0, 2})
			}
		}
		return end
	}
	r, err := pdf.NewReader(bytes.NewReader(buf.Bytes()), int64(buf.Len()), nil)
	if err != nil {
		for i := start; i < end; i++ {
			if _, ok := refs[i]; ok {
				recs[i].Note += "NewReader: " + err.Error() + "; "
				recs[i].Reads = addRun(recs[i].Reads, [3]int{0, 0, 2})
			}
		}
		return end
	}
	defer r.Close()
	for i := start; i < end; i++ {
		ref, ok := refs[i]
		if !ok {
			continue
		}
		rec := recs[i]
		func() {
			defer func() {
				if p := recover(); p != nil {
					rec.Note += fmt.Sprintf("panic: %v; ", p)
					rec.Reads = addRun(rec.Reads, [3]int{0, 0, 2})
				}
			}()
			stm, err := pdf.NewCursor(r).Stream(ref)
			if err != nil || stm == nil {
				rec.Note += fmt.Sprintf("stream: %v; ", err)
				rec.Reads = addRun(rec.Reads, [3]int{0, 0, 2})
				return
			}
			si := &streamInfo{F: Val{T: "none"}, P: Val{T: "none"}}
			infos[i] = si
			if x, ok := stm.Dict["Filter"]; ok {
				si.F = FromObject(x)
			}
			if x, ok := stm.Dict["DecodeParms"]; ok {
				si.P = FromObject(x)
			}
			fs, err := pdf.GetFilters(r, nil, stm.Dict)
			if err != nil {
				si.Err = err.Error()
			}
			for _, f := range fs {
				name, dict, err := f.Info(Version(ver))
				if err != nil {
					si.Err += "info: " + err.Error()
					continue
				}
				si.Got = append(si.Got, []any{string(name), FromDict(dict)})
			}
			rc, err := pdf.DecodeStream(r, nil, stm)
			if err != nil {
				rec.Note += "decodestream: " + err.Error() + "; "
				rec.Reads = addRun(rec.Reads, [3]int{0, 0, 2})
				return
			}
			doReads(rec, cases[i], rc)
			rc.Close()
		}()
	}
	return end
}

// Signature classifies a rejected record by what the caller saw first.
func (rec *PipeRec) Signature(data []byte) string {
	switch {
	case strings.Contains(rec.Note, "panic:"):
		return "panic"
	case strings.Contains(rec.Note, "write:"):
		return "write-error"
	case rec.CloseErr != 0:
		return "close-error"
	}
	for _, w := range rec.Writes {
		if w[1] != w[0] {
			return "short-write"
		}
	}
	switch {
	case strings.Contains(rec.Note, "decode:") || strings.Contains(rec.Note, "decodestream:") || strings.Contains(rec.Note, "makefilter:"):
		return "error"
	case strings.Contains(rec.Note, "read:"):
		return "error"
	case strings.Contains(rec.Note, "no progress"):
		return "stuck"
	case strings.Contains(rec.Note, "NewReader:") || strings.Contains(rec.Note, "Writer.Close:") || strings.Contains(rec.Note, "stream:"):
		return "file-error"
	case rec.OutLen < rec.InLen:
		return "short"
	case rec.OutLen > rec.InLen:
		return "long"
	case !bytes.Equal(rec.out, data):
		return "differs"
	}
	return "protocol"
}
