// Package shared holds helpers used by several drivers (conversion between
// go-pdf values and the harness's own value model, in-memory sinks, ...).
package shared

import (
	"seehuhn.de/go/pdf"

	"verif/harness/indep/obj"
)

// FromPDF converts a go-pdf value (native types only) to the harness model.
// Streams carry no data (use the reader to decode them).
func FromPDF(v pdf.Object) obj.Value {
	switch x := v.(type) {
	case nil:
		return obj.Null{}
	case pdf.Boolean:
		return obj.Bool(x)
	case pdf.Integer:
		return obj.Int(x)
	case pdf.Real:
		return obj.Real{F: float64(x)}
	case pdf.Number:
		return obj.Real{F: float64(x)}
	case pdf.Name:
		return obj.Name(x)
	case pdf.String:
		return obj.Str(append([]byte(nil), x...))
	case pdf.Reference:
		return obj.Ref{Num: x.Number(), Gen: x.Generation()}
	case pdf.Array:
		if x == nil {
			return obj.Null{}
		}
		out := make(obj.Array, len(x))
		for i, e := range x {
			out[i] = FromPDF(e)
		}
		return out
	case pdf.Dict:
		if x == nil {
			return obj.Null{}
		}
		out := obj.Dict{}
		for k, e := range x {
			out[obj.Name(k)] = FromPDF(e)
		}
		return out
	case *pdf.Stream:
		d, _ := FromPDF(x.Dict).(obj.Dict)
		return &obj.Stream{Dict: d}
	default:
		if v == nil {
			return obj.Null{}
		}
		return FromPDF(v.AsPDF(0))
	}
}

// ToPDF converts a harness value to go-pdf native types (streams excluded).
func ToPDF(v obj.Value) pdf.Object {
	switch x := v.(type) {
	case nil, obj.Null:
		return nil
	case obj.Bool:
		return pdf.Boolean(x)
	case obj.Int:
		return pdf.Integer(x)
	case obj.Real:
		return pdf.Real(x.F)
	case obj.Name:
		return pdf.Name(x)
	case obj.Str:
		return pdf.String(append([]byte(nil), x...))
	case obj.Ref:
		return pdf.NewReference(x.Num, x.Gen)
	case obj.Array:
		out := make(pdf.Array, len(x))
		for i, e := range x {
			out[i] = ToPDF(e)
		}
		return out
	case obj.Dict:
		out := pdf.Dict{}
		for k, e := range x {
			out[pdf.Name(k)] = ToPDF(e)
		}
		return out
	}
	panic("shared.ToPDF: unsupported value")
}
