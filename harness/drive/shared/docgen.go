package shared

// docgen: a small, seeded generator of test documents written with the real
// pdf.Writer.  It is shared by several drivers (C19, C20, ...).
//
//	doc, err := shared.GenerateDoc(seed, shared.DocOptions{XRefStream: true, Seekable: true})
//	doc.Bytes                    the file
//	doc.Objects[i].Value         what was handed to the Writer for doc.Objects[i].Ref
//	doc.Objects[i].Decoded       for streams: the decoded body
//
// The ground truth never comes from go-pdf's reader: values are recorded while
// writing, offsets come from the sink (see MemSink.Pos).  To write the same
// document to another sink (e.g. one that injects faults) use
// NewDocPlan(seed, opt) then plan.Write(sink).
//
// docgen_scan.go (which imports nothing from go-pdf) locates `N G obj` ...
// `endobj` in the produced bytes by plain byte search and tokenises objects.

import (
	"bytes"
	"errors"
	"fmt"
	"io"
	"math/rand"

	"seehuhn.de/go/pdf"

	"verif/harness/indep/obj"
)

// BodyKind names a shape of stream body.
type BodyKind string

const (
	BodyPlain  BodyKind = "plain"  // printable text, no trailing EOL
	BodyBinary BodyKind = "binary" // arbitrary bytes (EOLs replaced so that no line-initial digits occur)
	BodyEOL    BodyKind = "eol"    // ends in \n, \r\n or \n\n
	// BodyCR ends in a bare \r.  Followed by the Writer's "\nendstream" this
	// cannot be told from a CR LF end-of-line marker once /Length is unknown.
	BodyCR        BodyKind = "cr"
	BodyEndstream BodyKind = "endstream" // contains the word endstream in the middle of a line
	// BodyEOLEndstream contains EOL+"endstream" (also followed by EOL+"endobj").
	// With a wrong or missing /Length such a body cannot be told from the end
	// of the stream by any reader; a file truncated inside it is a
	// well-formed shorter object.
	BodyEOLEndstream BodyKind = "eolendstream"
	BodyEndobj       BodyKind = "endobj"    // contains the word endobj (also directly after an EOL)
	BodyMidHeader    BodyKind = "midheader" // contains "7 0 obj" in the middle of a line (never line-initial)
	// BodyTrailerLine .. BodyEOFLine contain a line that starts with the word
	// trailer / xref / startxref / %%EOF (permitted stream content; the
	// sequential scan takes such a line for a marker).  A stream with such a
	// body is never filtered and is followed by a small scalar object.
	BodyTrailerLine   BodyKind = "trailerline"
	BodyXrefLine      BodyKind = "xrefline"
	BodyStartxrefLine BodyKind = "startxrefline"
	BodyEOFLine       BodyKind = "eofline"
	BodyEmpty         BodyKind = "empty" // zero bytes
	BodyBig           BodyKind = "big"   // > 1024 bytes (the Writer emits the dictionary before the data is complete)
	// BodyBigEOLEndstream / BodyBigEOLEndobj: > 1024 bytes with a line that
	// starts with endstream (also followed by a line endobj) / with endobj.
	// On a non-seekable sink such a stream gets an indirect /Length; as long as
	// that can be resolved the body is unambiguous.
	// BodyBigBinary: 1500..2500 random bytes (no filter makes them shorter)
	BodyBigBinary BodyKind = "bigbinary"
	// BodyBigCR: > 1024 bytes ending in a bare CR
	BodyBigCR           BodyKind = "bigcr"
	BodyBigEOLEndstream BodyKind = "bigeolendstream"
	BodyBigEOLEndobj    BodyKind = "bigeolendobj"
)

// AllBodies lists every body kind.
var AllBodies = []BodyKind{BodyPlain, BodyBinary, BodyEOL, BodyCR, BodyEndstream, BodyEOLEndstream, BodyEndobj, BodyMidHeader,
	BodyTrailerLine, BodyXrefLine, BodyStartxrefLine, BodyEOFLine, BodyEmpty, BodyBig, BodyBigBinary, BodyBigCR, BodyBigEOLEndstream, BodyBigEOLEndobj}

// MarkerBodies are the body kinds with a line-initial trailer keyword.
var MarkerBodies = []BodyKind{BodyTrailerLine, BodyXrefLine, BodyStartxrefLine, BodyEOFLine}

func isMarkerBody(k BodyKind) bool {
	for _, m := range MarkerBodies {
		if k == m {
			return true
		}
	}
	return false
}

// AllFilters lists the filter names DocOptions.Filters understands.
var AllFilters = []string{"Flate", "LZW", "ASCIIHex", "ASCII85", "RunLength"}

// DocOptions selects the shape of a generated document.  The zero value gives
// a PDF 1.7 file with a cross-reference table, no object streams, no filters,
// no encryption, written to a non-seekable sink.
type DocOptions struct {
	Version    pdf.Version // 0 means pdf.V1_7
	XRefStream bool        // cross-reference stream (needs Version >= 1.5); false: classic table + trailer
	ObjStm     bool        // non-stream objects are written through WriteCompressed (needs XRefStream)
	Seekable   bool        // the sink can seek: /Length is patched in place; otherwise it is an indirect object
	Filters    []string    // pool of filters for streams (subset of AllFilters); each stream uses 0..2 of them
	Encrypt    bool        // user password "user", owner password "owner"
	Objects    int         // number of generated objects besides the page tree root (default 8)
	MaxBody    int         // bound for ordinary stream bodies (default 120)
	Bodies     []BodyKind  // admissible stream bodies (default: plain, binary, eol)
	NoStreams  bool        // no stream objects at all
	MinStreams int         // at least this many stream objects (the first generated objects)
	// ReadBack (needs Seekable, excludes Encrypt): the sink can also be read;
	// while the document is produced earlier objects are fetched with
	// Writer.Get (plain, stream and compressed ones), and every second stream
	// names its filter through an indirect /Filter object, which OpenStream
	// resolves through the Writer.
	ReadBack bool
	// AlwaysFilter: every stream uses at least one filter of the pool
	AlwaysFilter bool
	CycleBodies  bool // the k-th stream gets Bodies[k mod len(Bodies)] instead of a random element
	BigSize      int  // > 0: bodies of kind BodyBig have exactly this many bytes
	MidHeaderAt  int  // > 0 (with BigSize): the body has "x1 0 obj 99 endobj y" in the middle of a line, the "1" at this offset
	Info         bool // fill in the Info dictionary
}

// UserPassword is the password of encrypted generated documents.
const UserPassword = "user"

// DocObject is one object handed to the Writer.
type DocObject struct {
	Ref      pdf.Reference
	Kind     string    // "dict", "array", "int", "real", "name", "string", "bool", "null", "ref", "stream"
	Value    obj.Value // streams: *obj.Stream{Dict: the dictionary given to OpenStream (no /Length, /Filter), Raw: nil}
	Decoded  []byte    // streams: the decoded body
	Filters  []string  // streams: filters used
	InObjStm bool      // written through WriteCompressed into an object stream
	// Start, End delimit the bytes the sink received while the object was
	// written (only when the sink reports its position, see PosSink; -1
	// otherwise and for members of object streams).
	Start, End int64
}

// Doc is a generated document with its ground truth.
type Doc struct {
	Seed    int64
	Opt     DocOptions
	Bytes   []byte // nil when written to a foreign sink
	Objects []DocObject
	Pages   pdf.Reference // the (empty) page tree root, one of Objects
	Title   string        // Info.Title, "" if none
}

// ReaderOptions returns the options needed to open the document.
func (d *Doc) ReaderOptions(mode pdf.ReaderErrorHandling) *pdf.ReaderOptions {
	o := &pdf.ReaderOptions{ErrorHandling: mode}
	if d.Opt.Encrypt {
		o.Password = UserPassword
	}
	return o
}

// Lookup returns the ground truth of ref.
func (d *Doc) Lookup(ref pdf.Reference) *DocObject {
	for i := range d.Objects {
		if d.Objects[i].Ref == ref {
			return &d.Objects[i]
		}
	}
	return nil
}

// PosSink is implemented by sinks that can tell how many bytes they hold.
// A sink that also has a no-op Flush method receives the Writer's bytes
// unbuffered, so Pos() before/after Put delimits the object exactly.
type PosSink interface{ Pos() int64 }

// MemSink is an in-memory, non-seekable sink (Write, Flush, Pos).
type MemSink struct {
	buf []byte
	off int64
}

func (m *MemSink) Write(p []byte) (int, error) {
	end := m.off + int64(len(p))
	if end > int64(len(m.buf)) {
		m.buf = append(m.buf, make([]byte, end-int64(len(m.buf)))...)
	}
	copy(m.buf[m.off:], p)
	m.off = end
	return len(p), nil
}

// Flush makes the Writer skip its own bufio layer.
func (m *MemSink) Flush() error { return nil }

// Pos returns the current write offset.
func (m *MemSink) Pos() int64 { return m.off }

// Bytes returns everything written.
func (m *MemSink) Bytes() []byte { return m.buf }

// SeekMemSink is MemSink plus Seek.
type SeekMemSink struct{ MemSink }

func (m *SeekMemSink) Seek(offset int64, whence int) (int64, error) {
	var abs int64
	switch whence {
	case io.SeekStart:
		abs = offset
	case io.SeekCurrent:
		abs = m.off + offset
	case io.SeekEnd:
		abs = int64(len(m.buf)) + offset
	default:
		return 0, errors.New("bad whence")
	}
	if abs < 0 {
		return 0, errors.New("negative position")
	}
	m.off = abs
	return abs, nil
}

// RWMemSink is SeekMemSink plus Read and ReadAt (what Writer.Get needs).
type RWMemSink struct{ SeekMemSink }

func (m *RWMemSink) Read(p []byte) (int, error) {
	if m.off >= int64(len(m.buf)) {
		return 0, io.EOF
	}
	n := copy(p, m.buf[m.off:])
	m.off += int64(n)
	return n, nil
}

func (m *RWMemSink) ReadAt(p []byte, off int64) (int, error) {
	if off >= int64(len(m.buf)) {
		return 0, io.EOF
	}
	n := copy(p, m.buf[off:])
	if n < len(p) {
		return n, io.EOF
	}
	return n, nil
}

// planned object
type planObj struct {
	kind    string
	val     pdf.Object // non-streams
	dict    pdf.Dict   // streams
	body    []byte
	filters []string
	bodyK   BodyKind
	// filterIdx >= 0: the stream's /Filter is a reference to that planned
	// object (the name /ASCIIHexDecode); the body is written hex-encoded
	filterIdx int
}

// DocPlan is a document before it is written: the same plan can be written to
// several sinks.
type DocPlan struct {
	Seed int64
	Opt  DocOptions
	objs []planObj
	id   [][]byte
}

func (o DocOptions) normal() (DocOptions, error) {
	if o.Version == 0 {
		o.Version = pdf.V1_7
	}
	if o.XRefStream && o.Version < pdf.V1_5 {
		return o, errors.New("docgen: cross-reference streams need PDF 1.5")
	}
	if o.ObjStm && !o.XRefStream {
		return o, errors.New("docgen: object streams need a cross-reference stream")
	}
	if o.ReadBack && (!o.Seekable || o.Encrypt) {
		return o, errors.New("docgen: ReadBack needs a seekable sink and no encryption")
	}
	if o.Encrypt && o.Version < pdf.V1_1 {
		return o, errors.New("docgen: encryption needs PDF 1.1")
	}
	if o.Objects <= 0 {
		o.Objects = 8
	}
	if o.MaxBody <= 0 {
		o.MaxBody = 120
	}
	if len(o.Bodies) == 0 {
		o.Bodies = []BodyKind{BodyPlain, BodyBinary, BodyEOL}
	}
	return o, nil
}

// NewDocPlan draws a document from seed.
func NewDocPlan(seed int64, opt DocOptions) (*DocPlan, error) {
	opt, err := opt.normal()
	if err != nil {
		return nil, err
	}
	rng := rand.New(rand.NewSource(seed*7919 + 17))
	p := &DocPlan{Seed: seed, Opt: opt}
	id := make([]byte, 16)
	rng.Read(id)
	p.id = [][]byte{id, id}

	n := opt.Objects
	// object numbers are allocated in order 1..n+1 (object 1 is the page tree root)
	refOf := func(i int) pdf.Reference { return pdf.NewReference(uint32(i+1), 0) }
	g := &valGen{rng: rng, refs: func() pdf.Object { return refOf(rng.Intn(n + 1)) }, bigSize: opt.BigSize, midHeaderAt: opt.MidHeaderAt}
	p.objs = append(p.objs, planObj{kind: "dict", filterIdx: -1, val: pdf.Dict{"Type": pdf.Name("Pages"), "Kids": pdf.Array{}, "Count": pdf.Integer(0)}})
	kinds := []string{"dict", "dict", "array", "int", "real", "name", "string", "bool", "null", "ref", "stream", "stream", "stream"}
	afterMarker := false
	nstreams := 0
	for i := 0; i < n; i++ {
		k := kinds[rng.Intn(len(kinds))]
		if i < len(kinds) && n >= len(kinds) {
			k = kinds[i] // big documents contain every kind
		}
		if afterMarker {
			// a small object directly after a stream with a marker-like line
			k = []string{"int", "null", "name", "bool"}[rng.Intn(4)]
			afterMarker = false
		}
		if i < opt.MinStreams {
			k = "stream"
		}
		if k == "stream" && opt.NoStreams {
			k = "dict"
		}
		po := planObj{kind: k, filterIdx: -1}
		switch k {
		case "dict":
			po.val = g.dict(2)
		case "array":
			po.val = g.array(2)
		case "int":
			po.val = pdf.Integer(rng.Intn(200000) - 1000)
		case "real":
			po.val = pdf.Real(float64(rng.Intn(8000)-4000) / 4)
		case "name":
			po.val = g.name()
		case "string":
			po.val = g.str()
		case "bool":
			po.val = pdf.Boolean(rng.Intn(2) == 0)
		case "null":
			po.val = nil
		case "ref":
			po.val = refOf(rng.Intn(n + 1))
		case "stream":
			po.dict = pdf.Dict{"K": g.scalar(), "Sub": g.dict(1)}
			po.bodyK = opt.Bodies[rng.Intn(len(opt.Bodies))]
			if opt.CycleBodies {
				po.bodyK = opt.Bodies[nstreams%len(opt.Bodies)]
			}
			nstreams++
			po.body = g.body(po.bodyK, opt.MaxBody)
			afterMarker = isMarkerBody(po.bodyK)
			if opt.ReadBack && nstreams%2 == 0 {
				p.objs = append(p.objs, planObj{kind: "name", val: pdf.Name("ASCIIHexDecode"), filterIdx: -1})
				po.filterIdx = len(p.objs) - 1
			} else if len(opt.Filters) > 0 && !afterMarker {
				for j := rng.Intn(3); j > 0; j-- {
					po.filters = append(po.filters, opt.Filters[rng.Intn(len(opt.Filters))])
				}
				if opt.AlwaysFilter && len(po.filters) == 0 {
					po.filters = append(po.filters, opt.Filters[nstreams%len(opt.Filters)])
				}
			}
		}
		p.objs = append(p.objs, po)
	}
	return p, nil
}

func mkFilter(name string) pdf.Filter {
	switch name {
	case "Flate":
		return pdf.FilterFlate{}
	case "LZW":
		return pdf.FilterLZW{}
	case "ASCIIHex":
		return pdf.FilterASCIIHex{}
	case "ASCII85":
		return pdf.FilterASCII85{}
	case "RunLength":
		return pdf.FilterRunLength{}
	}
	panic("docgen: unknown filter " + name)
}

// Step identifies a Writer call of a plan (for fault reports).
type Step struct {
	Call string // "NewWriter", "Put", "WriteCompressed", "OpenStream", "Stream.Write", "Stream.Close", "Get", "Close"
	Obj  int    // index into Doc.Objects, -1 if none
}

// Write writes the planned document to sink with a fresh pdf.Writer.  It
// stops at the first error a Writer call returns and reports which call it
// was.  The returned Doc is complete only when err is nil.
func (p *DocPlan) Write(sink io.Writer) (doc *Doc, failed Step, err error) {
	opt := p.Opt
	doc = &Doc{Seed: p.Seed, Opt: opt}
	wopt := &pdf.WriterOptions{ID: p.id}
	if opt.Version < pdf.V1_1 {
		wopt.ID = nil
	}
	if !opt.XRefStream && opt.Version >= pdf.V1_5 {
		wopt.HumanReadable = true // the only way to get a table from the Writer at 1.5+
	}
	if opt.Encrypt {
		wopt.UserPassword = UserPassword
		wopt.OwnerPassword = "owner"
		wopt.UserPermissions = pdf.PermAll
	}
	pos := func() int64 {
		if ps, ok := sink.(PosSink); ok {
			return ps.Pos()
		}
		return -1
	}
	w, err := pdf.NewWriter(sink, opt.Version, wopt)
	if err != nil {
		return doc, Step{"NewWriter", -1}, err
	}
	refs := make([]pdf.Reference, len(p.objs))
	for i := range p.objs {
		refs[i] = w.Alloc()
	}
	doc.Pages = refs[0]

	var pendRefs []pdf.Reference
	var pendObjs []pdf.Object
	var pendIdx []int
	written := make([]bool, len(p.objs))
	flush := func() (Step, error) {
		if len(pendRefs) == 0 {
			return Step{}, nil
		}
		err := w.WriteCompressed(pendRefs, pendObjs...)
		st := Step{"WriteCompressed", pendIdx[0]}
		if err == nil {
			for _, j := range pendIdx {
				written[j] = true
			}
		}
		pendRefs, pendObjs, pendIdx = nil, nil, nil
		return st, err
	}
	// readBack (ReadBack documents): after object i, fetch an earlier object
	// through the Writer and compare it with what was written
	readBack := func(i int) (Step, error) {
		if !opt.ReadBack || i%2 == 1 {
			return Step{}, nil
		}
		j := (i*7 + 3) % (i + 1)
		for j > 0 && !written[j] {
			j--
		}
		if !written[j] {
			return Step{}, nil
		}
		v, err := w.Get(refs[j], true)
		if err != nil {
			return Step{"Get", j}, err
		}
		want := doc.Objects[j]
		if stm, isStm := v.(*pdf.Stream); isStm != (want.Kind == "stream") {
			return Step{"Get", j}, fmt.Errorf("docgen: Writer.Get(%v) returned a %T for a %s", refs[j], v, want.Kind)
		} else if isStm {
			d, _ := FromPDF(stm.Dict).(obj.Dict)
			delete(d, "Filter")
			delete(d, "DecodeParms")
			delete(d, "Length")
			if !obj.Equal(d, want.Value.(*obj.Stream).Dict) {
				return Step{"Get", j}, fmt.Errorf("docgen: Writer.Get(%v) returned another stream dictionary", refs[j])
			}
		} else if !obj.Equal(FromPDF(v), want.Value) {
			return Step{"Get", j}, fmt.Errorf("docgen: Writer.Get(%v) returned %s, written was %s", refs[j], obj.String(FromPDF(v)), obj.String(want.Value))
		}
		return Step{}, nil
	}
	for i, po := range p.objs {
		do := DocObject{Ref: refs[i], Kind: po.kind, Start: -1, End: -1}
		if po.kind == "stream" {
			if st, err := flush(); err != nil {
				return doc, st, err
			}
			d, _ := FromPDF(po.dict).(obj.Dict)
			do.Value = &obj.Stream{Dict: d}
			do.Decoded = po.body
			do.Filters = po.filters
			var fs []pdf.Filter
			for _, f := range po.filters {
				fs = append(fs, mkFilter(f))
			}
			do.Start = pos()
			sdict, sbody := po.dict, po.body
			if po.filterIdx >= 0 {
				sdict = pdf.Dict{"Filter": refs[po.filterIdx]}
				for k, v := range po.dict {
					sdict[k] = v
				}
				sbody = []byte(fmt.Sprintf("%x>", po.body))
				do.Filters = []string{"ASCIIHex"}
			}
			doc.Objects = append(doc.Objects, do)
			ws, err := w.OpenStream(refs[i], sdict, fs...)
			if err != nil {
				return doc, Step{"OpenStream", i}, err
			}
			// two chunks, so that a Write call happens before Close
			half := len(sbody) / 2
			if _, err := ws.Write(sbody[:half]); err != nil {
				return doc, Step{"Stream.Write", i}, err
			}
			if _, err := ws.Write(sbody[half:]); err != nil {
				return doc, Step{"Stream.Write", i}, err
			}
			if err := ws.Close(); err != nil {
				return doc, Step{"Stream.Close", i}, err
			}
			doc.Objects[i].End = pos()
			written[i] = true
			if st, err := readBack(i); err != nil {
				return doc, st, err
			}
			continue
		}
		do.Value = FromPDF(po.val)
		_, isRef := po.val.(pdf.Reference)
		if opt.ObjStm && !isRef {
			do.InObjStm = true
			doc.Objects = append(doc.Objects, do)
			pendRefs = append(pendRefs, refs[i])
			pendObjs = append(pendObjs, po.val)
			pendIdx = append(pendIdx, i)
			if len(pendRefs) >= 4 {
				if st, err := flush(); err != nil {
					return doc, st, err
				}
			}
			continue
		}
		if st, err := flush(); err != nil {
			return doc, st, err
		}
		do.Start = pos()
		doc.Objects = append(doc.Objects, do)
		if err := w.Put(refs[i], po.val); err != nil {
			return doc, Step{"Put", i}, err
		}
		doc.Objects[i].End = pos()
		written[i] = true
		if st, err := readBack(i); err != nil {
			return doc, st, err
		}
	}
	if st, err := flush(); err != nil {
		return doc, st, err
	}
	w.GetMeta().Catalog.Pages = doc.Pages
	if opt.Info {
		doc.Title = fmt.Sprintf("generated document %d", p.Seed)
		w.GetMeta().Info.Title = pdf.TextString(doc.Title)
	} else {
		w.GetMeta().Info = nil
	}
	if err := w.Close(); err != nil {
		return doc, Step{"Close", -1}, err
	}
	return doc, Step{}, nil
}

// GenerateDoc draws a document from seed and writes it to memory.
func GenerateDoc(seed int64, opt DocOptions) (*Doc, error) {
	p, err := NewDocPlan(seed, opt)
	if err != nil {
		return nil, err
	}
	var sink io.Writer
	var get func() []byte
	if opt.ReadBack {
		s := &RWMemSink{}
		sink, get = s, s.Bytes
	} else if opt.Seekable {
		s := &SeekMemSink{}
		sink, get = s, s.Bytes
	} else {
		s := &MemSink{}
		sink, get = s, s.Bytes
	}
	doc, st, err := p.Write(sink)
	if err != nil {
		return nil, fmt.Errorf("docgen: %s (object %d): %w", st.Call, st.Obj, err)
	}
	doc.Bytes = get()
	return doc, nil
}

// SameValue compares what go-pdf returned for an object with the ground
// truth.  Streams are compared by dictionary (ignoring /Length, /Filter,
// /DecodeParms, which belong to the serialisation) and by decoded body; r is
// used to decode and may be nil for non-streams.
func SameValue(r pdf.Getter, want *DocObject, got pdf.Object) (bool, string) {
	if want.Kind != "stream" {
		if _, isStm := got.(*pdf.Stream); isStm {
			return false, "got a stream"
		}
		if !obj.Equal(want.Value, FromPDF(got)) {
			return false, "value differs: want " + obj.String(want.Value) + " got " + obj.String(FromPDF(got))
		}
		return true, ""
	}
	stm, ok := got.(*pdf.Stream)
	if !ok {
		return false, fmt.Sprintf("want stream, got %T", got)
	}
	gd := obj.Dict{}
	if d, ok := FromPDF(stm.Dict).(obj.Dict); ok {
		for k, v := range d {
			if k == "Length" || k == "Filter" || k == "DecodeParms" {
				continue
			}
			gd[k] = v
		}
	}
	if !obj.Equal(want.Value.(*obj.Stream).Dict, gd) {
		return false, "stream dictionary differs: want " + obj.String(want.Value.(*obj.Stream).Dict) + " got " + obj.String(gd)
	}
	if r == nil {
		return true, ""
	}
	rd, err := pdf.DecodeStream(r, nil, stm)
	if err != nil {
		return false, "DecodeStream: " + err.Error()
	}
	data, err := io.ReadAll(rd)
	rd.Close()
	if err != nil {
		return false, "reading stream: " + err.Error()
	}
	if !bytes.Equal(data, want.Decoded) {
		return false, fmt.Sprintf("stream body differs: want %d bytes %q got %d bytes %q", len(want.Decoded), clip(want.Decoded), len(data), clip(data))
	}
	return true, ""
}

func clip(b []byte) []byte {
	if len(b) > 24 {
		return append(append([]byte{}, b[:10]...), append([]byte("..."), b[len(b)-10:]...)...)
	}
	return b
}

// ---- random values ----

type valGen struct {
	rng  *rand.Rand
	refs func() pdf.Object
	// bigSize > 0: bodies of kind BodyBig have exactly this many bytes
	bigSize int
	// midHeaderAt > 0: BodyBig bodies carry an object header in the middle of
	// a line at this offset
	midHeaderAt int
}

func (g *valGen) name() pdf.Name {
	pool := []string{"A", "Type", "Len#gth", "a b", "X(1)", "N/M", "endobj", "obj", "Q\x00Z", "long-name-with-many-letters", "\xe4\xf6"}
	return pdf.Name(pool[g.rng.Intn(len(pool))])
}

func (g *valGen) str() pdf.String {
	pool := []string{"", "hello", "(nested (parens)) ok", "unbalanced ) (", "back\\slash", "tab\tand\nnewline", "cr\rlf\r\n", "endobj", "endstream endobj",
		"text 7 0 obj text", "\x00\x01\xfe\xff", "xref", "%comment", "<<>>[]"}
	s := pool[g.rng.Intn(len(pool))]
	if g.rng.Intn(4) == 0 {
		b := make([]byte, g.rng.Intn(40))
		g.rng.Read(b)
		for i, c := range b {
			if c == '\n' || c == '\r' {
				b[i] = '.' // no line starts inside random strings
			}
		}
		s = string(b)
	}
	return pdf.String(s)
}

func (g *valGen) scalar() pdf.Object {
	switch g.rng.Intn(7) {
	case 0:
		return pdf.Integer(g.rng.Intn(2000) - 1000)
	case 1:
		return pdf.Real(float64(g.rng.Intn(800)-400) / 8)
	case 2:
		return g.name()
	case 3:
		return g.str()
	case 4:
		return pdf.Boolean(g.rng.Intn(2) == 0)
	case 5:
		return g.refs()
	default:
		return pdf.Integer(g.rng.Intn(10))
	}
}

func (g *valGen) value(depth int) pdf.Object {
	if depth > 0 {
		switch g.rng.Intn(5) {
		case 0:
			return g.dict(depth - 1)
		case 1:
			return g.array(depth - 1)
		}
	}
	return g.scalar()
}

func (g *valGen) dict(depth int) pdf.Dict {
	d := pdf.Dict{}
	for i, n := 0, 1+g.rng.Intn(4); i < n; i++ {
		d[g.name()+pdf.Name(fmt.Sprint(i))] = g.value(depth)
	}
	return d
}

func (g *valGen) array(depth int) pdf.Array {
	a := pdf.Array{}
	for i, n := 0, g.rng.Intn(5); i < n; i++ {
		if g.rng.Intn(9) == 0 {
			a = append(a, nil)
			continue
		}
		a = append(a, g.value(depth))
	}
	return a
}

// body never contains an EOL directly followed by a digit (no line-initial
// object headers, as the properties require).
func (g *valGen) body(k BodyKind, max int) []byte {
	text := func(n int) []byte {
		words := []string{"q", "Q", "BT", "ET", "1 0 0 1 0 0 cm", "/F1 12 Tf", "(text) Tj", "re", "f", "0.5 g"}
		var b []byte
		for len(b) < n {
			b = append(b, words[g.rng.Intn(len(words))]...)
			b = append(b, ' ')
		}
		return b[:n]
	}
	n := g.rng.Intn(max + 1)
	var b []byte
	switch k {
	case BodyEmpty:
		return []byte{}
	case BodyPlain:
		b = text(n + 1)
		b[len(b)-1] = 'Q'
	case BodyBinary:
		b = make([]byte, n)
		g.rng.Read(b)
	case BodyEOL:
		b = append(text(n+1), []string{"\n", "\r\n", "\n\n"}[g.rng.Intn(3)]...)
	case BodyCR:
		b = append(text(n+1), '\r')
	case BodyEndstream:
		b = append(text(n/2+1), []string{"endstream", "x endstream endobj", "endstream\nendobj\n"}[g.rng.Intn(3)]...)
		b = append(b, text(n/2+1)...)
	case BodyEOLEndstream:
		b = append(text(n/2), []string{"\nendstream\n", "\r\nendstream\r\nendobj\r\n", "\rendstream "}[g.rng.Intn(3)]...)
		b = append(b, text(n/2+1)...)
	case BodyEndobj:
		b = append(text(n/2), []string{"endobj", "\nendobj\n", " endobj "}[g.rng.Intn(3)]...)
		b = append(b, text(n/2+1)...)
	case BodyTrailerLine, BodyXrefLine, BodyStartxrefLine, BodyEOFLine:
		word := map[BodyKind]string{BodyTrailerLine: "trailer", BodyXrefLine: "xref", BodyStartxrefLine: "startxref", BodyEOFLine: "%%EOF"}[k]
		eol := []string{"\n", "\r\n", "\r"}[g.rng.Intn(3)]
		rest := []string{eol, " dictionaries hold the /Root entry" + eol, eol + "<< /Size 3 >>" + eol, " "}[g.rng.Intn(4)]
		if g.rng.Intn(3) > 0 {
			b = append(text(n/2+1), eol...)
		}
		b = append(b, word...) // at the start of the body or of a line
		b = append(b, rest...)
		b = append(b, text(n/2+1)...)
	case BodyMidHeader:
		b = append(text(n/2+1), "x 7 0 obj (not an object) endobj "...)
		b = append(b, text(n/2)...)
	case BodyBigEOLEndstream, BodyBigEOLEndobj:
		b = text(600 + g.rng.Intn(300))
		if k == BodyBigEOLEndstream {
			b = append(b, []string{"\nendstream\n", "\r\nendstream\r\nendobj\r\n", "\nendstream\nendobj\n", "\rendstream "}[g.rng.Intn(4)]...)
		} else {
			b = append(b, []string{"\nendobj\n", "\r\nendobj\r\n"}[g.rng.Intn(2)]...)
		}
		b = append(b, text(600+g.rng.Intn(300))...)
		b[len(b)-1] = 'Q'
	case BodyBigBinary:
		b = make([]byte, 1500+g.rng.Intn(1000))
		g.rng.Read(b)
	case BodyBigCR:
		b = append(text(1100+g.rng.Intn(600)), '\r')
	case BodyBig:
		if g.bigSize > 0 {
			b = text(g.bigSize)
			b[len(b)-1] = 'Q'
			if at := g.midHeaderAt; at > 0 && at+24 < len(b) {
				copy(b[at-1:], "x1 0 obj 99 endobj y")
			}
			break
		}
		b = text(1100 + g.rng.Intn(600))
		if g.rng.Intn(2) == 0 {
			b = append(b, '\n')
		}
	default:
		panic("docgen: unknown body kind " + string(k))
	}
	// no EOL followed by a digit
	for i := 0; i+1 < len(b); i++ {
		if (b[i] == '\n' || b[i] == '\r') && b[i+1] >= '0' && b[i+1] <= '9' {
			b[i+1] = 'x'
		}
	}
	return b
}
