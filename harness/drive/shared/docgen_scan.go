package shared

// Independent location and tokenisation of indirect objects in a file written
// by the Writer.  Nothing here uses go-pdf: object headers are found by plain
// byte search (`N G obj` at the start of a line), the end of an object is the
// last `endobj` before the next line-initial marker, and a small recursive
// tokeniser splits each object into the token classes SeqScan.tla speaks
// about.  Sound only for files whose stream bodies and strings contain no
// line-initial object header (the generator guarantees it); lines starting
// with xref / trailer / startxref / %%EOF inside objects are allowed and are
// not reported as markers.

import (
	"bytes"
	"fmt"
	"strconv"

	"verif/harness/indep/obj"
)

// Token is one lexical piece of an indirect object.
type Token struct {
	// Class: hdr ws int real name kw str hex aopen aclose dopen dclose R
	// streamkw data endstream endobj
	Class      string
	Ctx        string // innermost container: top, dict, arr, stm
	Start, End int64
}

// RawObject is an indirect object as found in the bytes.
type RawObject struct {
	Num, Gen   int
	Start, End int64 // first digit of N .. just after "endobj"
	HdrEnd     int64 // just after "obj"
	Kind       string
	Tokens     []Token
	Value      obj.Value // strings as stored (not decrypted); streams with Raw data
}

// Marker is a line-initial xref / trailer / startxref / %%EOF keyword.
type Marker struct {
	Word       string
	Start, End int64
}

// Layout is the independent view of a file.
type Layout struct {
	Objects []RawObject
	Markers []Marker
	Size    int64
}

func isWS(c byte) bool { return c == 0 || c == 9 || c == 10 || c == 12 || c == 13 || c == 32 }
func isDelim(c byte) bool {
	switch c {
	case '(', ')', '<', '>', '[', ']', '{', '}', '/', '%':
		return true
	}
	return false
}
func isRegular(c byte) bool { return !isWS(c) && !isDelim(c) }
func isDigit(c byte) bool   { return c >= '0' && c <= '9' }

// matchHeader matches digits+ blank+ digits+ blank+ "obj" at p.
func matchHeader(d []byte, p int) (num, gen, end int, ok bool) {
	i := p
	for i < len(d) && isDigit(d[i]) {
		i++
	}
	if i == p || i-p > 9 {
		return
	}
	num, _ = strconv.Atoi(string(d[p:i]))
	j := i
	for j < len(d) && (d[j] == ' ' || d[j] == 0 || d[j] == 9 || d[j] == 12) {
		j++
	}
	if j == i {
		return
	}
	k := j
	for k < len(d) && isDigit(d[k]) {
		k++
	}
	if k == j || k-j > 5 {
		return
	}
	gen, _ = strconv.Atoi(string(d[j:k]))
	l := k
	for l < len(d) && (d[l] == ' ' || d[l] == 0 || d[l] == 9 || d[l] == 12) {
		l++
	}
	if l == k || !bytes.HasPrefix(d[l:], []byte("obj")) {
		return
	}
	end = l + 3
	if end < len(d) && isRegular(d[end]) {
		return
	}
	return num, gen, end, true
}

// ScanLayout finds all objects and trailer markers of a complete file.
func ScanLayout(d []byte) (*Layout, error) {
	lay := &Layout{Size: int64(len(d))}
	type hdr struct{ num, gen, start, hend int }
	var hdrs []hdr
	type word struct {
		w    string
		p, e int
	}
	var words []word // line-initial trailer keywords, inside stream bodies or not
	for p := 0; p < len(d); p++ {
		if p > 0 && d[p-1] != '\n' && d[p-1] != '\r' {
			continue
		}
		if isDigit(d[p]) {
			if n, g, e, ok := matchHeader(d, p); ok {
				hdrs = append(hdrs, hdr{n, g, p, e})
			}
			continue
		}
		for _, w := range []string{"xref", "trailer", "startxref", "%%EOF"} {
			if bytes.HasPrefix(d[p:], []byte(w)) && (p+len(w) == len(d) || !isRegular(d[p+len(w)]) || w == "%%EOF") {
				words = append(words, word{w, p, p + len(w)})
			}
		}
	}
	// an object extends from its header to the last "endobj" before the next
	// header (stream bodies contain no line-initial header, but may contain
	// "endobj" and lines starting with a trailer keyword)
	ends := make([]int, len(hdrs))
	for i, h := range hdrs {
		limit := len(d)
		if i+1 < len(hdrs) {
			limit = hdrs[i+1].start
		}
		e := bytes.LastIndex(d[h.hend:limit], []byte("endobj"))
		if e < 0 {
			return nil, fmt.Errorf("layout: object %d %d at %d has no endobj", h.num, h.gen, h.start)
		}
		ends[i] = h.hend + e + 6
	}
	// the markers of the file are the keywords outside all objects
	for _, w := range words {
		inside := false
		for i, h := range hdrs {
			if w.p >= h.start && w.p < ends[i] {
				inside = true
			}
		}
		if !inside {
			lay.Markers = append(lay.Markers, Marker{w.w, int64(w.p), int64(w.e)})
		}
	}
	for i, h := range hdrs {
		end := ends[i]
		limit := len(d)
		if i+1 < len(hdrs) {
			limit = hdrs[i+1].start
		}
		for _, m := range lay.Markers {
			if int(m.Start) >= end && int(m.Start) < limit {
				limit = int(m.Start)
			}
		}
		for _, c := range d[end:limit] {
			if !isWS(c) {
				return nil, fmt.Errorf("layout: junk after endobj of object %d %d", h.num, h.gen)
			}
		}
		ro := RawObject{Num: h.num, Gen: h.gen, Start: int64(h.start), End: int64(end), HdrEnd: int64(h.hend)}
		t := &tokenizer{d: d, end: end}
		t.add("hdr", "top", h.start, h.hend)
		t.p = h.hend
		v, err := t.indirectBody()
		if err != nil {
			return nil, fmt.Errorf("layout: object %d %d at %d: %v", h.num, h.gen, h.start, err)
		}
		ro.Tokens, ro.Value, ro.Kind = t.toks, v, kindOf(v, t.hex)
		lay.Objects = append(lay.Objects, ro)
	}
	return lay, nil
}

func kindOf(v obj.Value, hex bool) string {
	switch v.(type) {
	case obj.Dict:
		return "dict"
	case obj.Array:
		return "array"
	case obj.Int:
		return "int"
	case obj.Real:
		return "real"
	case obj.Name:
		return "name"
	case obj.Str:
		if hex {
			return "hexstring"
		}
		return "string"
	case obj.Bool:
		return "bool"
	case obj.Null:
		return "null"
	case obj.Ref:
		return "ref"
	case *obj.Stream:
		return "stream"
	}
	return "?"
}

type tokenizer struct {
	d    []byte
	p    int
	end  int // just after "endobj"
	toks []Token
	hex  bool // the top-level value is a hex string
}

func (t *tokenizer) add(class, ctx string, a, b int) {
	t.toks = append(t.toks, Token{Class: class, Ctx: ctx, Start: int64(a), End: int64(b)})
}

func (t *tokenizer) ws(ctx string) {
	a := t.p
	for t.p < t.end && isWS(t.d[t.p]) {
		t.p++
	}
	if t.p > a {
		t.add("ws", ctx, a, t.p)
	}
}

func (t *tokenizer) indirectBody() (obj.Value, error) {
	t.ws("top")
	v, err := t.value("top", true)
	if err != nil {
		return nil, err
	}
	t.ws("top")
	if d, ok := v.(obj.Dict); ok && bytes.HasPrefix(t.d[t.p:t.end], []byte("stream")) {
		a := t.p
		t.p += 6
		if t.p < t.end && t.d[t.p] == '\r' {
			t.p++
		}
		if t.p < t.end && t.d[t.p] == '\n' {
			t.p++
		}
		t.add("streamkw", "top", a, t.p)
		// the region ends: data EOL "endstream" ws "endobj"
		q := t.end - 6
		for q > t.p && isWS(t.d[q-1]) {
			q--
		}
		if q-9 < t.p || string(t.d[q-9:q]) != "endstream" {
			return nil, fmt.Errorf("no endstream before endobj")
		}
		es := q - 9
		dataEnd := es
		if dataEnd > t.p && t.d[dataEnd-1] == '\n' {
			dataEnd--
			// the Writer emits a bare \n; a preceding \r belongs to the data
		}
		if dataEnd < t.p {
			dataEnd = t.p
		}
		if dataEnd > t.p {
			t.add("data", "stm", t.p, dataEnd)
		}
		t.add("endstream", "stm", dataEnd, q)
		raw := append([]byte{}, t.d[t.p:dataEnd]...)
		t.p = q
		v = &obj.Stream{Dict: d, Raw: raw}
		t.ws("top")
	}
	if t.p != t.end-6 {
		return nil, fmt.Errorf("unexpected bytes before endobj at %d", t.p)
	}
	t.add("endobj", "top", t.p, t.end)
	return v, nil
}

// value parses one object; at top level an "a b R" triple is a reference.
func (t *tokenizer) value(ctx string, top bool) (obj.Value, error) {
	if t.p >= t.end {
		return nil, fmt.Errorf("unexpected end")
	}
	d, p := t.d, t.p
	c := d[p]
	switch {
	case c == '/':
		q := p + 1
		var name []byte
		for q < t.end && isRegular(d[q]) {
			if d[q] == '#' && q+2 < t.end && hexVal(d[q+1]) >= 0 && hexVal(d[q+2]) >= 0 {
				name = append(name, byte(hexVal(d[q+1])<<4|hexVal(d[q+2])))
				q += 3
				continue
			}
			name = append(name, d[q])
			q++
		}
		t.add("name", ctx, p, q)
		t.p = q
		return obj.Name(name), nil
	case c == '(':
		q, depth := p+1, 1
		var s []byte
		for q < t.end && depth > 0 {
			switch d[q] {
			case '\\':
				q++
				if q >= t.end {
					return nil, fmt.Errorf("bad escape")
				}
				switch e := d[q]; {
				case e == 'n':
					s = append(s, '\n')
				case e == 'r':
					s = append(s, '\r')
				case e == 't':
					s = append(s, '\t')
				case e == 'b':
					s = append(s, '\b')
				case e == 'f':
					s = append(s, '\f')
				case e >= '0' && e <= '7':
					v := int(e - '0')
					for k := 0; k < 2 && q+1 < t.end && d[q+1] >= '0' && d[q+1] <= '7'; k++ {
						q++
						v = v*8 + int(d[q]-'0')
					}
					s = append(s, byte(v))
				case e == '\n':
				case e == '\r':
					if q+1 < t.end && d[q+1] == '\n' {
						q++
					}
				default:
					s = append(s, e)
				}
			case '(':
				depth++
				s = append(s, '(')
			case ')':
				depth--
				if depth > 0 {
					s = append(s, ')')
				}
			case '\r':
				s = append(s, '\n')
				if q+1 < t.end && d[q+1] == '\n' {
					q++
				}
			default:
				s = append(s, d[q])
			}
			q++
		}
		if depth != 0 {
			return nil, fmt.Errorf("unterminated string")
		}
		t.add("str", ctx, p, q)
		t.p = q
		return obj.Str(s), nil
	case c == '<' && p+1 < t.end && d[p+1] == '<':
		t.add("dopen", ctx, p, p+2)
		t.p = p + 2
		out := obj.Dict{}
		for {
			t.ws("dict")
			if t.p+1 < t.end && d[t.p] == '>' && d[t.p+1] == '>' {
				t.add("dclose", "dict", t.p, t.p+2)
				t.p += 2
				return out, nil
			}
			k, err := t.value("dict", false)
			if err != nil {
				return nil, err
			}
			key, ok := k.(obj.Name)
			if !ok {
				return nil, fmt.Errorf("dictionary key is not a name")
			}
			t.ws("dict")
			v, err := t.value("dict", false)
			if err != nil {
				return nil, err
			}
			v = t.maybeRef("dict", v)
			out[key] = v
		}
	case c == '<':
		q := p + 1
		var hx []byte
		for q < t.end && d[q] != '>' {
			if hexVal(d[q]) >= 0 {
				hx = append(hx, d[q])
			}
			q++
		}
		if q >= t.end {
			return nil, fmt.Errorf("unterminated hex string")
		}
		if len(hx)%2 == 1 {
			hx = append(hx, '0')
		}
		s := make([]byte, len(hx)/2)
		for i := range s {
			s[i] = byte(hexVal(hx[2*i])<<4 | hexVal(hx[2*i+1]))
		}
		t.add("hex", ctx, p, q+1)
		t.p = q + 1
		if top {
			t.hex = true
		}
		return obj.Str(s), nil
	case c == '[':
		t.add("aopen", ctx, p, p+1)
		t.p = p + 1
		out := obj.Array{}
		for {
			t.ws("arr")
			if t.p < t.end && d[t.p] == ']' {
				t.add("aclose", "arr", t.p, t.p+1)
				t.p++
				return out, nil
			}
			v, err := t.value("arr", false)
			if err != nil {
				return nil, err
			}
			v = t.maybeRef("arr", v)
			out = append(out, v)
		}
	case isDigit(c) || c == '+' || c == '-' || c == '.':
		q := p
		dot := false
		for q < t.end && (isDigit(d[q]) || d[q] == '.' || ((d[q] == '+' || d[q] == '-') && q == p)) {
			if d[q] == '.' {
				dot = true
			}
			q++
		}
		lit := string(d[p:q])
		t.p = q
		if dot {
			f, err := strconv.ParseFloat(lit, 64)
			if err != nil {
				return nil, err
			}
			t.add("real", ctx, p, q)
			return obj.Real{F: f}, nil
		}
		n, err := strconv.ParseInt(lit, 10, 64)
		if err != nil {
			return nil, err
		}
		t.add("int", ctx, p, q)
		var v obj.Value = obj.Int(n)
		if top {
			v = t.maybeRef("top", v)
		}
		return v, nil
	default:
		for _, kw := range []string{"true", "false", "null"} {
			if bytes.HasPrefix(d[p:t.end], []byte(kw)) {
				t.add("kw", ctx, p, p+len(kw))
				t.p = p + len(kw)
				switch kw {
				case "true":
					return obj.Bool(true), nil
				case "false":
					return obj.Bool(false), nil
				}
				return obj.Null{}, nil
			}
		}
	}
	return nil, fmt.Errorf("unexpected byte %q at %d", c, p)
}

// maybeRef turns "a" followed by "b R" into a reference.
func (t *tokenizer) maybeRef(ctx string, v obj.Value) obj.Value {
	a, ok := v.(obj.Int)
	if !ok || a < 0 {
		return v
	}
	d, q := t.d, t.p
	for q < t.end && isWS(d[q]) {
		q++
	}
	g0 := q
	for q < t.end && isDigit(d[q]) {
		q++
	}
	if q == g0 {
		return v
	}
	g1 := q
	for q < t.end && isWS(d[q]) {
		q++
	}
	if q >= t.end || d[q] != 'R' || (q+1 < t.end && isRegular(d[q+1])) {
		return v
	}
	gen, _ := strconv.Atoi(string(d[g0:g1]))
	if g0 > t.p {
		t.add("ws", ctx, t.p, g0)
	}
	t.add("int", ctx, g0, g1)
	if q > g1 {
		t.add("ws", ctx, g1, q)
	}
	t.add("R", ctx, q, q+1)
	t.p = q + 1
	return obj.Ref{Num: uint32(a), Gen: uint16(gen)}
}

func hexVal(c byte) int {
	switch {
	case c >= '0' && c <= '9':
		return int(c - '0')
	case c >= 'a' && c <= 'f':
		return int(c-'a') + 10
	case c >= 'A' && c <= 'F':
		return int(c-'A') + 10
	}
	return -1
}

// CutClass names where a truncation offset falls inside an object:
// "at:<class>:<ctx>" when the cut is exactly at the start of a token (all
// earlier tokens are complete), "in:<class>:<ctx>" when it splits the token.
// ok is false when cut is outside (Start, End).
func (o *RawObject) CutClass(cut int64) (string, bool) {
	if cut <= o.Start || cut >= o.End {
		return "", false
	}
	for _, t := range o.Tokens {
		if cut == t.Start {
			return "at:" + t.Class + ":" + t.Ctx, true
		}
		if cut > t.Start && cut < t.End {
			return "in:" + t.Class + ":" + t.Ctx, true
		}
	}
	return "", false
}
