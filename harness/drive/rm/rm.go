// Package rm binds spec/file/ResourceManager.tla to pdf.ResourceManager and
// pdf.EmbedHelper (resource.go).  It is an extension beyond the listed
// properties and is run from C02's thorough tier: deviations are reported as
// NOTE lines and in the evidence, never as violations of C02.
//
//	model   MC_ResourceManager_*.cfg: the manager the properties demand,
//	        checked exhaustively (all programs of 3-4 calls over two
//	        Encoders, three Embedders, a function key and two deferred
//	        functions whose behaviours are revealed when they first run)
//	P-A     edge covers of the model's state graphs (ctx.DumpGraph /
//	        EdgeCover): the final state of every path holds a program, the
//	        behaviours of its objects and the model's observable history.
//	        The program is replayed on the real pdf.ResourceManager over a
//	        real pdf.Writer with instrumented Encoder / Embedder types and
//	        the observed history is compared with the model's.
//	P-B     every observed history (those and seeded longer programs) is
//	        judged by TLC with Trace_ResourceManager (ResourceManagerRef
//	        only); the file is closed, reopened with the independent strict
//	        parser and every written reference must resolve to its object.
package rm

import (
	"encoding/json"
	"fmt"
	"os"
	"path/filepath"
	"sort"
	"strings"
	"sync"

	"verif/harness/core"
)

// Call is a top-level call of a program.
type Call struct {
	Op string `json:"op"`
	X  string `json:"x"`
}

// Res is the result of a top-level call.
type Res struct {
	T string `json:"t"` // ref | val | zero | ok | err | panic | diverge
	N int    `json:"n"`
}

// Event is something that happened during a call (see ResourceManagerRef).
type Event struct {
	K string `json:"k"` // emb | enc | fn | defer | sdefer | put
	X string `json:"x"`
	D int    `json:"d"`
	R string `json:"r"`
	N int    `json:"n"`
}

// Entry is one top-level call of a history.
type Entry struct {
	Op  string  `json:"op"`
	X   string  `json:"x"`
	Res Res     `json:"res"`
	Ev  []Event `json:"ev"`
}

// Program is what is replayed: calls and the behaviour of every object.
type Program struct {
	Calls  []Call            `json:"calls"`
	World  map[string]string `json:"world"`
	Origin string            `json:"origin"`
	Seed   int64             `json:"seed"`
	// Expect is the model's history (generated programs only).
	Expect []Entry `json:"expect,omitempty"`
}

// FileObj is an object of the reopened file.
type FileObj struct {
	N  int    `json:"n"`
	By string `json:"by"`
}

// Record is what Trace_ResourceManager judges.
type Record struct {
	ID     string    `json:"id"`
	Hist   []Entry   `json:"hist"`
	WClose string    `json:"wclose"`
	Objs   []FileObj `json:"objs"`
	prog   *Program
	note   string
}

// normalise orders the events of every call as: everything but the puts in
// order of completion, then the puts in the order the Writer received them,
// and renames references by first appearance (puts, then the result, call by
// call).  Numbering of the target file is not part of the protocol.
func normalise(h []Entry) []Entry {
	ren := map[int]int{}
	name := func(n int) int {
		if n == 0 {
			return 0
		}
		if _, ok := ren[n]; !ok {
			ren[n] = len(ren) + 1
		}
		return ren[n]
	}
	out := make([]Entry, len(h))
	for i, e := range h {
		ne := Entry{Op: e.Op, X: e.X, Res: e.Res, Ev: []Event{}}
		for _, ev := range e.Ev {
			if ev.K != "put" {
				ne.Ev = append(ne.Ev, ev)
			}
		}
		for _, ev := range e.Ev {
			if ev.K == "put" {
				ev.N = name(ev.N)
				ne.Ev = append(ne.Ev, ev)
			}
		}
		if ne.Res.T == "ref" {
			ne.Res.N = name(ne.Res.N)
		} else {
			ne.Res.N = 0
		}
		out[i] = ne
	}
	return out
}

func sameHistory(a, b []Entry) bool {
	x, _ := json.Marshal(normalise(a))
	y, _ := json.Marshal(normalise(b))
	return string(x) == string(y)
}

func histString(h []Entry) string {
	var parts []string
	for _, e := range h {
		s := e.Op + "(" + e.X + ")=" + e.Res.T
		if e.Res.T == "ref" {
			s += fmt.Sprint(e.Res.N)
		}
		var evs []string
		for _, ev := range e.Ev {
			switch ev.K {
			case "put":
				evs = append(evs, fmt.Sprintf("put%d", ev.N))
			case "defer", "sdefer":
				evs = append(evs, ev.K+":"+ev.X)
			default:
				evs = append(evs, fmt.Sprintf("%s:%s@%d=%s", ev.K, ev.X, ev.D, ev.R))
			}
		}
		if len(evs) > 0 {
			s += "{" + strings.Join(evs, ",") + "}"
		}
		parts = append(parts, s)
	}
	return strings.Join(parts, " ; ")
}

// toGo converts a parsed TLA+ value into plain Go data for encoding/json.
func toGo(v any) any {
	switch x := v.(type) {
	case []any:
		out := make([]any, len(x))
		for i, e := range x {
			out[i] = toGo(e)
		}
		return out
	case core.TLASet:
		out := make([]any, len(x))
		for i, e := range x {
			out[i] = toGo(e)
		}
		return out
	case map[string]any:
		out := map[string]any{}
		for k, e := range x {
			out[k] = toGo(e)
		}
		return out
	case core.TLAFunc:
		out := map[string]any{}
		for i, k := range x.Keys {
			ks, ok := k.(string)
			if !ok {
				ks = core.TLAString(k)
			}
			out[ks] = toGo(x.Vals[i])
		}
		return out
	case core.TLAModel:
		return string(x)
	}
	return v
}

// programs derives programs with the model's expected history from an edge
// cover of the state graph of one configuration.
func programs(ctx *core.Ctx, cfg string, limit int) ([]Program, int, int, int64, error) {
	g, res, err := ctx.DumpGraph(core.TLCOpts{Dir: "file", Module: "ResourceManager", Cfg: cfg, Workers: 8,
		Timeout: ctx.Dur(8, 20), XssMB: 512, Mode: "graph", Constants: "state graph for program generation, see " + cfg})
	if err != nil {
		return nil, 0, 0, 0, err
	}
	defer os.RemoveAll(res.RunDir)
	paths, covered := g.EdgeCover(ctx.Rand("rm-programs-"+cfg), 600, limit)
	seen := map[string]bool{}
	var progs []Program
	for _, p := range paths {
		if len(p) == 0 {
			continue
		}
		last := p[len(p)-1].To
		if seen[last] {
			continue
		}
		seen[last] = true
		st, err := g.State(last)
		if err != nil {
			return nil, 0, 0, 0, core.Infra("state graph of %s: %v", cfg, err)
		}
		if stack, ok := st["stack"].([]any); !ok || len(stack) != 0 {
			continue // the path was cut in the middle of a call
		}
		raw, err := json.Marshal(map[string]any{"expect": toGo(st["hist"]), "world": toGo(st["world"])})
		if err != nil {
			return nil, 0, 0, 0, core.Infra("state of %s: %v", cfg, err)
		}
		var pr Program
		if err := json.Unmarshal(raw, &pr); err != nil {
			return nil, 0, 0, 0, core.Infra("state of %s: %v in %s", cfg, err, raw)
		}
		if len(pr.Expect) == 0 {
			continue
		}
		for _, e := range pr.Expect {
			pr.Calls = append(pr.Calls, Call{Op: e.Op, X: e.X})
		}
		pr.Origin = "graph/" + cfg
		progs = append(progs, pr)
	}
	return progs, g.NumEdges(), covered, res.Distinct, nil
}

var judgeOpts = core.TLCOpts{Dir: "file", Module: "Trace_ResourceManager", Cfg: "Trace_ResourceManager.cfg", XssMB: 512}

// Run is the entry point (called from C02's thorough tier).
func Run(ctx *core.Ctx) error {
	ctx.Ev.Assume("extension resource-manager: instrumented Encoder/Embedder test types and the byte positions of the output sink are the only observers; the Writer's objects are attributed to calls by their file offsets")
	stats := map[string]any{}
	findings := map[string]int{}
	var states int64

	// 1. the design model, exhaustively
	cfgs := []string{"MC_ResourceManager_q.cfg"}
	if ctx.Thorough() {
		cfgs = append(cfgs, "MC_ResourceManager_t.cfg")
	}
	for _, cfg := range cfgs {
		res, err := ctx.MustHold(core.TLCOpts{Dir: "file", Module: "ResourceManager", Cfg: cfg, Workers: 12, Timeout: ctx.Dur(10, 40), XssMB: 512,
			Constants: "q: 2 Encoders x 9 behaviours, 3 Embedders, 1 function key, 2 deferred functions, programs of 3 calls; t: programs of 4 calls over 2 Encoders x 7, 2 Embedders"})
		if err != nil {
			return err
		}
		states += res.Distinct
	}

	// 2. P-A: programs from the state graphs
	var progs []Program
	edges, covered := 0, 0
	for _, g := range []string{"Gen_ResourceManager_g.cfg", "Gen_ResourceManager_g3.cfg", "Gen_ResourceManager_g4.cfg"} {
		ps, ne, cov, st, err := programs(ctx, g, 0)
		if err != nil {
			return err
		}
		progs = append(progs, ps...)
		edges, covered, states = edges+ne, covered+cov, states+st
	}
	if len(progs) == 0 {
		return core.Infra("resource-manager: no programs generated")
	}
	ctx.Logf("resource-manager: %d programs from %d of %d transitions of the model's state graphs", len(progs), covered, edges)

	recs, err := executeAll(progs)
	if err != nil {
		return err
	}
	suspects := map[int]bool{}
	for i, r := range recs {
		if !sameHistory(r.Hist, progs[i].Expect) {
			suspects[i] = true
		}
	}
	bad, err := core.JudgeCases(ctx, judgeOpts, recs, 400, 12)
	if err != nil {
		return err
	}
	isBad := map[int]bool{}
	for _, b := range bad {
		isBad[b] = true
	}
	for i := range recs {
		if suspects[i] && !isBad[i] {
			b, _ := json.Marshal(progs[i])
			return core.Infra("resource-manager: the real history differs from the model's but satisfies the properties (model not faithful)\n  real:  %s\n  model: %s\n  program: %s",
				histString(normalise(recs[i].Hist)), histString(normalise(progs[i].Expect)), b)
		}
		if isBad[i] && !suspects[i] {
			return core.Infra("resource-manager: TLC rejects a history equal to the model's: %s", histString(recs[i].Hist))
		}
	}
	report(ctx, recs, isBad, findings)
	ctx.Ev.AddReplayed(len(progs))
	stats["programs_replayed"] = len(progs)
	stats["transitions_covered"] = covered
	stats["transitions"] = edges
	stats["histories_equal_to_model"] = len(progs) - len(suspects)

	// 3. P-B beyond the model: seeded longer programs
	rprogs := randomPrograms(ctx)
	rrecs, err := executeAll(rprogs)
	if err != nil {
		return err
	}
	rbad, err := core.JudgeCases(ctx, judgeOpts, rrecs, 400, 12)
	if err != nil {
		return err
	}
	isRBad := map[int]bool{}
	for _, b := range rbad {
		isRBad[b] = true
	}
	report(ctx, rrecs, isRBad, findings)
	stats["seeded_programs"] = len(rprogs)
	stats["records_judged"] = len(recs) + len(rrecs)
	stats["records_rejected"] = len(bad) + len(rbad)
	stats["tlc_states"] = states
	stats["findings_by_key"] = findings
	ctx.Ev.Set("extension_resource_manager", stats)
	var keys []string
	for k := range findings {
		keys = append(keys, k)
	}
	sort.Strings(keys)
	ctx.Logf("resource-manager: %d + %d sessions on the real pdf.ResourceManager, %d rejected by Trace_ResourceManager, keys %v",
		len(recs), len(rrecs), len(bad)+len(rbad), keys)
	return nil
}

var noteMu sync.Mutex

// report prints one NOTE line per class of rejected history (never a
// violation of C02) and stores a replay file for it.
func report(ctx *core.Ctx, recs []*Record, isBad map[int]bool, findings map[string]int) {
	for i, r := range recs {
		if !isBad[i] {
			continue
		}
		key, what := classify(r)
		noteMu.Lock()
		findings[key]++
		first := findings[key] == 1
		noteMu.Unlock()
		if !first {
			continue
		}
		path := ""
		dir := filepath.Join(os.Getenv("VERIF_OUT"), "replays", "rm")
		if os.Getenv("VERIF_OUT") == "" {
			dir = filepath.Join(ctx.VerifDir, "replays", "rm")
		}
		if err := os.MkdirAll(dir, 0o755); err == nil {
			path = filepath.Join(dir, strings.NewReplacer("/", "_", " ", "_").Replace(key)+".json")
			data, _ := json.MarshalIndent(map[string]any{"extension": "resource-manager", "key": key, "what": what, "program": r.prog, "history": r.Hist}, "", " ")
			_ = os.WriteFile(path, data, 0o644)
		}
		fmt.Printf("NOTE extension=resource-manager key=%s %s | program %v world %v | history %s | replay=%s\n",
			key, what, r.prog.Calls, worldString(r.prog), histString(normalise(r.Hist)), path)
	}
}

func worldString(p *Program) string {
	used := map[string]bool{}
	for _, c := range p.Calls {
		used[c.X] = true
	}
	var parts []string
	for _, k := range core.SortedKeys(p.World) {
		if p.World[k] != "?" && p.World[k] != "" {
			parts = append(parts, k+"="+p.World[k])
		}
	}
	return "{" + strings.Join(parts, " ") + "}"
}

// Replay re-executes a stored program and prints its history.
func Replay(ctx *core.Ctx, path string) error {
	data, err := os.ReadFile(path)
	if err != nil {
		return core.Infra("replay: %v", err)
	}
	var f struct {
		Program Program `json:"program"`
	}
	if err := json.Unmarshal(data, &f); err != nil {
		return core.Infra("replay: %v", err)
	}
	rec, err := execute(&f.Program)
	if err != nil {
		return core.Infra("replay: %v", err)
	}
	bad, err := core.JudgeCases(ctx, judgeOpts, []*Record{rec}, 1, 1)
	if err != nil {
		return err
	}
	fmt.Printf("history: %s\n", histString(normalise(rec.Hist)))
	if len(bad) > 0 {
		key, what := classify(rec)
		fmt.Printf("NOTE extension=resource-manager key=%s %s\n", key, what)
	} else {
		fmt.Println("accepted by Trace_ResourceManager")
	}
	return nil
}
