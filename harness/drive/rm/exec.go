package rm

import (
	"errors"
	"fmt"
	"regexp"
	"strconv"
	"sync"

	"seehuhn.de/go/pdf"

	"verif/harness/core"
	"verif/harness/drive/shared"
	"verif/harness/indep/obj"
	"verif/harness/indep/strict"
)

// session is one run of a program on a real ResourceManager.
type session struct {
	w     *pdf.Writer
	rm    *pdf.ResourceManager
	sink  *shared.MemSink
	world map[string]string
	encs  map[string]*encoder
	embs  map[string]*embedder
	cur   []Event
	depth int
	runs  int
}

const (
	watchdog    = 400 // instrumented bodies per session (the programs need < 40)
	watchdogMsg = "rm watchdog: the manager keeps calling back"
)

var errBody = errors.New("instrumented object fails")

func other(x string) string {
	switch x {
	case "e1":
		return "e2"
	case "e2":
		return "e1"
	case "m1":
		return "m2"
	case "m2":
		return "m1"
	case "d1":
		return "d2"
	case "d2":
		return "d1"
	}
	return x
}

func (s *session) enter() int {
	s.runs++
	if s.runs > watchdog {
		panic(watchdogMsg)
	}
	d := s.depth
	s.depth++
	return d
}

func (s *session) leave(k, x string, d int, r string) {
	s.depth--
	s.cur = append(s.cur, Event{K: k, X: x, D: d, R: r})
}

// encoder is an instrumented pdf.Encoder (a pointer: comparable, one per id).
type encoder struct {
	s  *session
	id string
}

func (e *encoder) Encode(rm *pdf.ResourceManager) (pdf.Native, error) {
	s := e.s
	d := s.enter()
	kind := s.world[e.id]
	fail := func() (pdf.Native, error) { s.leave("enc", e.id, d, "err"); return nil, errBody }
	switch kind {
	case "nilres", "valres", "failres":
		rm.GetReference(e)
	case "backref":
		rm.GetReference(s.encs[other(e.id)])
	case "child":
		if _, err := rm.Store(s.encs[other(e.id)]); err != nil {
			return fail()
		}
	}
	switch kind {
	case "nil", "nilres":
		s.leave("enc", e.id, d, "nil")
		return nil, nil
	case "ref":
		s.leave("enc", e.id, d, "ref")
		return pdf.NewReference(4242, 0), nil
	case "fail", "failres":
		return fail()
	}
	s.leave("enc", e.id, d, "val")
	return pdf.Name(e.id), nil
}

// embedder is an instrumented pdf.Embedder.
type embedder struct {
	s  *session
	id string
}

func (m *embedder) Embed(e *pdf.EmbedHelper) (pdf.Native, error) { return m.s.embedBody(e, m.id, true) }

// key is what ResourceManagerEmbedFunc embeds.
type key struct{ id string }

func (s *session) embedBody(e *pdf.EmbedHelper, id string, isEmbedder bool) (pdf.Native, error) {
	d := s.enter()
	kind := s.world[id]
	fail := func() (pdf.Native, error) { s.leave("emb", id, d, "err"); return nil, errBody }
	switch kind {
	case "other":
		if _, err := e.Embed(s.embs[other(id)]); err != nil {
			return fail()
		}
		kind = "obj"
	case "cycle":
		if _, err := e.Embed(s.embs[id]); err != nil {
			return fail()
		}
		kind = "val"
	case "defer":
		s.deferFn(e, "d1")
		kind = "val"
	}
	switch kind {
	case "fail":
		return fail()
	case "obj", "self":
		var ref pdf.Reference
		if kind == "self" && isEmbedder {
			ref = e.AllocSelf()
		} else {
			ref = e.Alloc()
		}
		if err := e.Out().Put(ref, pdf.Name(id)); err != nil {
			return fail()
		}
		s.leave("emb", id, d, "ok")
		return ref, nil
	}
	s.leave("emb", id, d, "ok")
	return pdf.Name(id), nil
}

func (s *session) deferFn(e *pdf.EmbedHelper, id string) {
	s.cur = append(s.cur, Event{K: "defer", X: id})
	e.Defer(func(e2 *pdf.EmbedHelper) error {
		d := s.enter()
		kind := s.world[id]
		fail := func() error { s.leave("fn", id, d, "err"); return errBody }
		switch kind {
		case "fail":
			return fail()
		case "embed":
			if _, err := e2.Embed(s.embs["m1"]); err != nil {
				return fail()
			}
		case "more":
			if id == "d1" {
				s.deferFn(e2, "d2")
			}
		case "embedat":
			if _, err := e2.EmbedAt(e2.Alloc(), s.embs["ms"]); err != nil {
				return fail()
			}
		}
		s.leave("fn", id, d, "ok")
		return nil
	})
}

var reObj = regexp.MustCompile(`(?m)^(\d+) (\d+) obj\b`)

// doCall performs one top-level call; panics are recovered.
func (s *session) doCall(c Call) (res Res) {
	defer func() {
		if p := recover(); p != nil {
			s.depth = 0
			if fmt.Sprint(p) == watchdogMsg {
				res = Res{T: "diverge"}
			} else {
				res = Res{T: "panic"}
			}
		}
	}()
	refRes := func(r pdf.Reference, err error) Res {
		switch {
		case err != nil:
			return Res{T: "err"}
		case r == 0:
			return Res{T: "zero"}
		}
		return Res{T: "ref", N: int(r.Number())}
	}
	valRes := func(v pdf.Native, err error) Res {
		if err != nil {
			return Res{T: "err"}
		}
		if r, ok := v.(pdf.Reference); ok {
			return Res{T: "ref", N: int(r.Number())}
		}
		return Res{T: "val"}
	}
	switch c.Op {
	case "Embed":
		return valRes(s.rm.Embed(s.embs[c.X]))
	case "EmbedFunc":
		return valRes(pdf.ResourceManagerEmbedFunc(s.rm, func(e *pdf.EmbedHelper, k key) (pdf.Native, error) {
			return s.embedBody(e, k.id, false)
		}, key{c.X}))
	case "GetReference":
		return refRes(s.rm.GetReference(s.encs[c.X]), nil)
	case "Store":
		return refRes(s.rm.Store(s.encs[c.X]))
	case "StoreDeferred":
		r := s.rm.StoreDeferred(s.encs[c.X])
		s.cur = append(s.cur, Event{K: "sdefer", X: c.X})
		return refRes(r, nil)
	case "StoreEncoded":
		return refRes(s.rm.StoreEncoded(s.encs[c.X], pdf.Name("se:"+c.X)))
	case "Close":
		if err := s.rm.Close(); err != nil {
			return Res{T: "err"}
		}
		return Res{T: "ok"}
	}
	panic("rm: unknown call " + c.Op)
}

// execute runs a program on a fresh Writer and ResourceManager.
func execute(p *Program) (*Record, error) {
	sink := &shared.MemSink{}
	w, err := pdf.NewWriter(sink, pdf.V1_7, &pdf.WriterOptions{HumanReadable: p.Seed%2 == 1})
	if err != nil {
		return nil, err
	}
	s := &session{w: w, sink: sink, rm: pdf.NewResourceManager(w), world: p.World, encs: map[string]*encoder{}, embs: map[string]*embedder{}}
	for _, id := range []string{"e1", "e2"} {
		s.encs[id] = &encoder{s, id}
	}
	for _, id := range []string{"m1", "m2", "ms"} {
		s.embs[id] = &embedder{s, id}
	}
	rec := &Record{Hist: []Entry{}, Objs: []FileObj{}, prog: p, WClose: "skipped"}
	broken := false
	for _, c := range p.Calls {
		start := sink.Pos()
		s.cur = nil
		res := s.doCall(c)
		ev := append([]Event{}, s.cur...)
		// what arrived at the Writer during the call, in file order
		for _, m := range reObj.FindAllSubmatch(sink.Bytes()[start:sink.Pos()], -1) {
			n, _ := strconv.Atoi(string(m[1]))
			ev = append(ev, Event{K: "put", N: n})
		}
		rec.Hist = append(rec.Hist, Entry{Op: c.Op, X: c.X, Res: res, Ev: ev})
		if res.T == "diverge" || res.T == "panic" {
			broken = res.T == "diverge"
			if broken {
				break // the manager's state is unknown after an aborted recursion
			}
		}
	}
	if broken {
		return rec, nil
	}
	// close the file and read it back
	pages := w.Alloc()
	if err := w.Put(pages, pdf.Dict{"Type": pdf.Name("Pages"), "Kids": pdf.Array{}, "Count": pdf.Integer(0)}); err != nil {
		return nil, err
	}
	w.GetMeta().Catalog.Pages = pages
	if err := w.Close(); err != nil {
		rec.WClose = "err"
		rec.note = err.Error()
		return rec, nil
	}
	f, err := strict.Parse(sink.Bytes())
	if err != nil {
		rec.WClose = "err"
		rec.note = "strict parser: " + err.Error()
		return rec, nil
	}
	rec.WClose = "ok"
	add := func(n uint32, v obj.Value) {
		by := ""
		if name, ok := v.(obj.Name); ok {
			by = string(name)
		}
		rec.Objs = append(rec.Objs, FileObj{N: int(n), By: by})
	}
	for _, o := range f.Objects {
		if o.ObjStm != nil {
			for _, m := range o.ObjStm.Members {
				add(m.Num, m.Value)
			}
			continue
		}
		add(o.Ref.Num, o.Value)
	}
	return rec, nil
}

func executeAll(progs []Program) ([]*Record, error) {
	recs := make([]*Record, len(progs))
	var first error
	var mu sync.Mutex
	var wg sync.WaitGroup
	sem := make(chan struct{}, 16)
	for i := range progs {
		wg.Add(1)
		sem <- struct{}{}
		go func(i int) {
			defer wg.Done()
			defer func() { <-sem }()
			rec, err := execute(&progs[i])
			if err != nil {
				mu.Lock()
				if first == nil {
					first = core.Infra("resource-manager: %v (program %v)", err, progs[i].Calls)
				}
				mu.Unlock()
				return
			}
			rec.ID = fmt.Sprintf("%s#%d", progs[i].Origin, i)
			recs[i] = rec
		}(i)
	}
	wg.Wait()
	return recs, first
}

// classify names the class of a history that Trace_ResourceManager rejected
// (the verdict is TLC's; this only produces the key).
func classify(r *Record) (key, what string) {
	h := r.Hist
	closedAt := -1
	for i, e := range h {
		if e.Res.T == "diverge" {
			who := "encoder"
			if e.Op == "Embed" || e.Op == "EmbedFunc" {
				who = "embedder"
			} else if e.Op == "Close" {
				for _, id := range []string{"m1", "m2"} {
					if k := r.prog.World[id]; k == "cycle" || k == "other" {
						who = "embedder"
					}
				}
			}
			return "terminates/" + who + "-reaches-itself", fmt.Sprintf("%s(%s) does not return: an object that embeds/stores itself (directly or through another) is called again and again", e.Op, e.X)
		}
		if e.Res.T == "panic" && closedAt < 0 {
			return "panic/" + e.Op, fmt.Sprintf("%s(%s) panics", e.Op, e.X)
		}
		if closedAt >= 0 {
			active := false
			for _, ev := range e.Ev {
				if ev.K == "emb" || ev.K == "enc" || ev.K == "fn" || ev.K == "put" {
					active = true
				}
			}
			known := map[int]bool{}
			for _, p := range h[:closedAt+1] {
				if p.Res.T == "ref" {
					known[p.Res.N] = true
				}
				for _, ev := range p.Ev {
					if ev.K == "put" {
						known[ev.N] = true
					}
				}
			}
			if active {
				return "after-close/" + e.Op + "/still-works", fmt.Sprintf("after Close returned nil, %s(%s) still encodes or writes", e.Op, e.X)
			}
			if e.Res.T == "ref" && !known[e.Res.N] {
				return "after-close/" + e.Op + "/reference-never-written", fmt.Sprintf("after Close returned nil, %s(%s) hands out a new reference that nothing will ever write", e.Op, e.X)
			}
		}
		if e.Op == "Close" && e.Res.T == "ok" && closedAt < 0 {
			closedAt = i
		}
	}
	if r.WClose == "ok" {
		count := map[int]int{}
		for _, o := range r.Objs {
			count[o.N]++
		}
		for _, e := range h {
			for _, ev := range e.Ev {
				if ev.K == "put" && count[ev.N] != 1 {
					return "file/object-count", fmt.Sprintf("object %d is %d times in the file", ev.N, count[ev.N])
				}
			}
		}
	}
	return "rejected/other", "Trace_ResourceManager rejects the history"
}
