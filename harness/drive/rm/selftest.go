package rm

import (
	"encoding/json"
	"fmt"

	"verif/harness/core"
)

func clone(r *Record) *Record {
	b, _ := json.Marshal(r)
	var out Record
	if err := json.Unmarshal(b, &out); err != nil {
		panic(err)
	}
	out.prog = r.prog
	return &out
}

// SelfTest: (i) corrupted histories of a real session are rejected one by
// one, the intact one and a renumbered one are accepted; (ii) resource.go as
// coded and two mutations violate the design model.
func SelfTest(ctx *core.Ctx) error {
	p := &Program{World: map[string]string{"e1": "valres", "e2": "nilres", "m1": "defer", "m2": "obj", "ms": "self", "k1": "obj", "d1": "more", "d2": "embedat"},
		Calls:  []Call{{"Embed", "m1"}, {"GetReference", "e1"}, {"StoreDeferred", "e1"}, {"Store", "e2"}, {"StoreEncoded", "e2"}, {"Embed", "m1"}, {"Close", ""}, {"Close", ""}},
		Origin: "selftest"}
	good, err := execute(p)
	if err != nil {
		return core.Infra("resource-manager self-test: %v", err)
	}
	if good.WClose != "ok" || good.Hist[6].Res.T != "ok" {
		return core.Infra("resource-manager self-test: the reference session fails: %s", histString(good.Hist))
	}
	dup := clone(good) // an object arrives twice at the Writer
	for i := range dup.Hist {
		for _, ev := range dup.Hist[i].Ev {
			if ev.K == "put" {
				dup.Hist[6].Ev = append(dup.Hist[6].Ev, ev)
				goto done
			}
		}
	}
done:
	lost := clone(good) // the reserved reference of e1 is never written, Close says nil
	var kept []Event
	for _, ev := range lost.Hist[6].Ev {
		if !(ev.K == "put" && ev.N == good.Hist[1].Res.N) {
			kept = append(kept, ev)
		}
	}
	lost.Hist[6].Ev = kept
	order := clone(good) // d2 runs before d1
	var fns []int
	for j, ev := range order.Hist[6].Ev {
		if ev.K == "fn" {
			fns = append(fns, j)
		}
	}
	if len(fns) < 2 {
		return core.Infra("resource-manager self-test: the deferred functions did not run: %s", histString(good.Hist))
	}
	order.Hist[6].Ev[fns[0]].X, order.Hist[6].Ev[fns[1]].X = order.Hist[6].Ev[fns[1]].X, order.Hist[6].Ev[fns[0]].X
	twice := clone(good) // the Embed method of m1 runs again
	twice.Hist[5].Ev = append(twice.Hist[5].Ev, Event{K: "emb", X: "m1", D: 0, R: "ok"})
	other := clone(good) // GetReference and StoreDeferred disagree about e1
	other.Hist[2].Res.N += 40
	late := clone(good) // something is written after Close
	late.Hist[7].Ev = append(late.Hist[7].Ev, Event{K: "put", N: 77})
	gone := clone(good) // an object is missing from the file
	gone.Objs = gone.Objs[1:]
	renum := clone(good) // positive control
	for i := range renum.Hist {
		if renum.Hist[i].Res.T == "ref" {
			renum.Hist[i].Res.N += 100
		}
		for j := range renum.Hist[i].Ev {
			if renum.Hist[i].Ev[j].K == "put" {
				renum.Hist[i].Ev[j].N += 100
			}
		}
	}
	for i := range renum.Objs {
		renum.Objs[i].N += 100
	}
	recs := []*Record{good, dup, lost, order, good, twice, other, late, gone, renum}
	bad, err := core.JudgeCases(ctx, judgeOpts, recs, 20, 1)
	if err != nil {
		return err
	}
	if fmt.Sprint(bad) != "[1 2 3 5 6 7 8]" {
		return core.Infra("resource-manager self-test: corrupted histories not singled out: rejected %v, want [1 2 3 5 6 7 8]\n  %s", bad, histString(good.Hist))
	}
	ctx.Logf("resource-manager self-test (i): 7 corrupted histories rejected (duplicate put, reservation lost, deferred order, Embed twice, two references, write after Close, object missing); intact and renumbered accepted")

	for _, nc := range []struct{ cfg, inv string }{
		{"MC_ResourceManager_neg_cycle.cfg", "Terminates"}, {"MC_ResourceManager_neg_storecycle.cfg", "Terminates"},
		{"MC_ResourceManager_neg_closed.cfg", "AfterCloseInv"}, {"MC_ResourceManager_neg_closedwritten.cfg", "WrittenInv"},
		{"MC_ResourceManager_neg_lifo.cfg", "FifoInv"}, {"MC_ResourceManager_neg_dropres.cfg", "WrittenInv"},
	} {
		res, err := ctx.TLC(core.TLCOpts{Dir: "file", Module: "ResourceManager", Cfg: nc.cfg, Workers: 4, Mode: "negative-control", XssMB: 512})
		if err != nil {
			return err
		}
		if res.Invariant != nc.inv {
			return core.Infra("resource-manager self-test: %s should violate %s, got %q", nc.cfg, nc.inv, res.Invariant)
		}
	}
	res, err := ctx.TLC(core.TLCOpts{Dir: "file", Module: "ResourceManager", Cfg: "MC_ResourceManager_ascoded.cfg", Workers: 4, Mode: "negative-control", XssMB: 512})
	if err != nil {
		return err
	}
	if res.Invariant == "" {
		return core.Infra("resource-manager self-test: the model of resource.go as coded should not satisfy the design invariants")
	}
	ctx.Logf("resource-manager self-test (ii): resource.go as coded violates Terminates (Embedder / Encoder reaching itself), AfterCloseInv and WrittenInv (calls after Close); a LIFO queue violates FifoInv, a dropped reservation WrittenInv")
	return nil
}
