package rm

import (
	"math/rand"

	"verif/harness/core"
)

var (
	encKinds = []string{"val", "nil", "ref", "fail", "nilres", "valres", "failres", "child", "backref"}
	embKinds = []string{"val", "obj", "fail", "other", "cycle", "defer"}
	fnKinds  = []string{"noop", "fail", "embed", "more", "embedat"}
	callOps  = []string{"Embed", "Embed", "EmbedFunc", "GetReference", "Store", "Store", "StoreDeferred", "StoreEncoded", "Close"}
)

// randomPrograms draws programs beyond the bounds of the model: 4-9 calls.
func randomPrograms(ctx *core.Ctx) []Program {
	rng := ctx.Rand("rm-random")
	n := ctx.Pick(300, 3000)
	var out []Program
	for i := 0; i < n; i++ {
		out = append(out, randomProgram(rng, i))
	}
	return out
}

func pick(r *rand.Rand, s []string) string { return s[r.Intn(len(s))] }

func randomProgram(r *rand.Rand, i int) Program {
	p := Program{World: map[string]string{}, Origin: "random", Seed: int64(i)}
	p.World["e1"], p.World["e2"] = pick(r, encKinds), pick(r, encKinds)
	p.World["m1"], p.World["m2"] = pick(r, embKinds), pick(r, embKinds)
	p.World["ms"] = pick(r, []string{"self", "self", "fail"})
	p.World["k1"] = pick(r, []string{"val", "obj", "fail"})
	p.World["d1"], p.World["d2"] = pick(r, fnKinds), pick(r, fnKinds)
	for k := 4 + r.Intn(6); k > 0; k-- {
		op := pick(r, callOps)
		c := Call{Op: op}
		switch op {
		case "Embed":
			c.X = pick(r, []string{"m1", "m2", "ms"})
		case "EmbedFunc":
			c.X = "k1"
		case "Close":
		default:
			c.X = pick(r, []string{"e1", "e2"})
		}
		p.Calls = append(p.Calls, c)
	}
	if r.Intn(3) > 0 {
		p.Calls = append(p.Calls, Call{Op: "Close"})
	}
	return p
}
