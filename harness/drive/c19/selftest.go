package c19

import "verif/harness/core"

func selfTest(ctx *core.Ctx) error { return core.Infra("not yet") }
