package c19

import (
	"bytes"

	"seehuhn.de/go/pdf"

	"verif/harness/core"
	"verif/harness/drive/shared"
)

// selfTest: (i) corrupted run records must be rejected, intact ones accepted;
// (ii) the four negative-control configurations of the design model must fail
// their invariant; (iii) the comparison with the fault-free run must notice a
// different result, and the model's operation table must be as expected.
func selfTest(ctx *core.Ctx) error {
	doc, err := shared.GenerateDoc(5, shared.DocOptions{Version: pdf.V1_4, Seekable: true, Objects: 6, MinStreams: 1, Info: true})
	if err != nil {
		return core.Infra("self-test: %v", err)
	}
	sc := &readScenario{doc: doc, mode: pdf.ErrorHandlingStop}
	base := sc.runRead(&faultSrc{r: bytes.NewReader(doc.Bytes), plan: faultPlan{Plan: "none"}, err: &injected{"none"}})
	mk := func(p faultPlan) readRun {
		src := &faultSrc{r: bytes.NewReader(doc.Bytes), plan: p, err: &injected{"x"}}
		outs := sc.runRead(src)
		compare(base, outs)
		return readRun{Side: "read", Doc: "selftest", Mode: "stop", Plan: p, Hit: src.hit, Calls: outs, Outs: []wOut{}, Count: 1}
	}
	clone := func(r readRun) readRun {
		r.Calls = append([]callOut{}, r.Calls...)
		return r
	}
	noFault := mk(faultPlan{Plan: "none"})
	faulted := mk(faultPlan{Plan: "failFrom", K: 6}) // in Stop mode every fault surfaces as an I/O error
	if !faulted.Hit || len(faulted.Calls) == 0 {
		return core.Infra("self-test: the fault was not reached")
	}
	last := len(faulted.Calls) - 1
	if c := faulted.Calls[last]; c.Cls != "err" || !c.Carries || c.Malformed {
		return core.Infra("self-test: expected an I/O error in Stop mode, got %+v", c)
	}
	differs := clone(noFault)
	differs.Calls[1].Same = false
	noCarry := clone(faulted)
	noCarry.Calls[last].Carries = false
	blamed := clone(faulted)
	blamed.Calls[last].Malformed = true
	wOK := readRun{Side: "write", Hit: true, Calls: []callOut{}, Outs: []wOut{{Cls: "err", Carries: true, Call: "Close"}}}
	wSilent := readRun{Side: "write", Hit: true, Calls: []callOut{}, Outs: []wOut{{Cls: "ok", Call: "Close"}}}
	wOther := readRun{Side: "write", Hit: true, Calls: []callOut{}, Outs: []wOut{{Cls: "err", Carries: false, Call: "Put"}}}
	wReadErr := readRun{Side: "write", RHit: true, Calls: []callOut{}, Outs: []wOut{{Cls: "err", Carries: true, Call: "Get"}}}
	wReadDiff := readRun{Side: "write", RHit: true, Same: false, Calls: []callOut{}, Outs: []wOut{{Cls: "ok", Call: "Close"}}}
	bad, err := judge(ctx, []readRun{noFault, faulted, differs, noCarry, blamed, wOK, wSilent, wOther, noFault, wReadErr, wReadDiff})
	if err != nil {
		return err
	}
	want := []int{2, 3, 4, 6, 7, 10}
	if len(bad) != len(want) {
		return core.Infra("self-test: corrupted runs not singled out: rejected %v, want %v", bad, want)
	}
	for i := range want {
		if bad[i] != want[i] {
			return core.Infra("self-test: corrupted runs not singled out: rejected %v, want %v", bad, want)
		}
	}
	ctx.Logf("self-test (i): 6 corrupted runs rejected, 5 intact ones accepted")

	for _, nc := range []struct{ cfg, inv, what string }{
		{"MC_IOFault_ascoded.cfg", "NoSwallowedOpen", "shouldExit swallowing I/O errors in Recover mode (F7a, F7b)"},
		{"MC_IOFault_helpers.cfg", "NoSilentlyShortStream", "helper reads ignoring errors (F7c)"},
		{"MC_IOFault_nosrcaware.cfg", "ReadProperty", "a filter chain without sourceAwareReader"},
		{"MC_IOFault_nosticky.cfg", "WriteProperty", "a bufio.Writer that forgets its error"},
	} {
		res, err := ctx.TLC(core.TLCOpts{Dir: "fault", Module: "MC_IOFault", Cfg: nc.cfg, Workers: 6, Mode: "negative-control"})
		if err != nil {
			return err
		}
		if res.Invariant != nc.inv {
			return core.Infra("self-test: the model with %s should violate %s, got %q", nc.what, nc.inv, res.Invariant)
		}
		ctx.Logf("self-test (ii): the model with %s violates %s", nc.what, nc.inv)
	}

	other := append([]callOut{}, base...)
	other[1].digest = "something else"
	compare(base, other)
	if other[1].Same || !other[0].Same {
		return core.Infra("self-test: a different result of a call was not noticed")
	}
	if outcomeClass(callOut{Cls: "err", Carries: false, Malformed: true}) != "malformed-error-not-carrying" {
		return core.Infra("self-test: outcome classes")
	}
	ctx.Logf("self-test (iii): a differing result is noticed by the comparison with the fault-free run")
	return nil
}
