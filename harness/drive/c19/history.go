package c19

import (
	"fmt"
	"strings"

	"seehuhn.de/go/pdf"

	"verif/harness/core"
	"verif/harness/drive/shared"
	"verif/harness/indep/obj"
	"verif/harness/indep/ser"
)

// historyDoc renders a file with incremental updates (harness/indep/ser, no
// go-pdf involved): history is e.g. "table-table" or "stream-stream-stream",
// one word per revision.  Every update is small (so that several `startxref`
// keywords lie in the last kilobyte of the file) and changes values: the Info
// title, an integer, a dictionary entry and a stream.  Opening an older
// revision, or reading an object of one, is therefore visible in the digests
// compared with the fault-free run of the same file.
func historyDoc(seed int64, history string) (*shared.Doc, error) {
	kinds := strings.Split(history, "-")
	doc := &ser.Doc{Version: "1.7"}
	if kinds[0] == "table" {
		doc.Version = "1.4"
	}
	for r, k := range kinds {
		kind := ser.Table
		if k == "stream" {
			kind = ser.Stream
		} else if k != "table" {
			return nil, fmt.Errorf("history %q: unknown revision kind %q", history, k)
		}
		rev := ser.Revision{Kind: kind, Trailer: obj.Dict{"Root": obj.Ref{Num: 1}, "Info": obj.Ref{Num: 3}}}
		info := obj.Dict{"Title": obj.Str(fmt.Sprintf("revision %d of %d", r+1, seed))}
		if r == 0 {
			rev.Ops = []ser.Op{
				{Num: 1, Kind: ser.Define, Value: obj.Dict{"Type": obj.Name("Catalog"), "Pages": obj.Ref{Num: 2}}},
				{Num: 2, Kind: ser.Define, Value: obj.Dict{"Type": obj.Name("Pages"), "Kids": obj.Array{}, "Count": obj.Int(0)}},
				{Num: 3, Kind: ser.Define, Value: info},
				{Num: 4, Kind: ser.Define, Value: &obj.Stream{Dict: obj.Dict{"K": obj.Int(1)}, Raw: []byte(strings.Repeat("first revision of the stream\n", 45))}},
				{Num: 5, Kind: ser.Define, Value: obj.Int(1000 + seed%97)},
				{Num: 6, Kind: ser.Define, Value: obj.Dict{"A": obj.Int(1), "B": obj.Ref{Num: 5}, "Text": obj.Str(strings.Repeat("x", 300))}},
			}
		} else {
			rev.Ops = []ser.Op{
				{Num: 3, Kind: ser.Define, Value: info},
				{Num: 5, Kind: ser.Define, Value: obj.Int(int64(2000*r) + seed%97)},
			}
			switch (int(seed) + r) % 3 {
			case 0:
				rev.Ops = append(rev.Ops, ser.Op{Num: 6, Kind: ser.Define, Value: obj.Dict{"A": obj.Int(int64(r + 1)), "B": obj.Ref{Num: 5}}})
			case 1:
				rev.Ops = append(rev.Ops, ser.Op{Num: 4, Kind: ser.Define, Value: &obj.Stream{Dict: obj.Dict{"K": obj.Int(int64(r + 1))}, Raw: []byte(fmt.Sprintf("revision %d\n", r+1))}})
			}
		}
		doc.Revisions = append(doc.Revisions, rev)
	}
	res, err := ser.RenderResult(doc, &ser.Options{Seed: seed})
	if err != nil {
		return nil, err
	}
	d := &shared.Doc{Seed: seed, Bytes: res.Bytes, Pages: pdf.NewReference(2, 0)}
	for _, o := range []struct {
		n uint32
		k string
	}{{1, "dict"}, {2, "dict"}, {3, "dict"}, {4, "stream"}, {5, "int"}, {6, "dict"}} {
		d.Objects = append(d.Objects, shared.DocObject{Ref: pdf.NewReference(o.n, 0), Kind: o.k, Start: -1, End: -1})
	}
	return d, nil
}

// makeDoc produces the document of a read-side scenario.
func makeDoc(sp docSpec) (*shared.Doc, error) {
	if sp.History != "" {
		d, err := historyDoc(sp.Seed, sp.History)
		if err != nil {
			return nil, core.Infra("render history %s: %v", sp.History, err)
		}
		return d, nil
	}
	d, err := shared.GenerateDoc(sp.Seed, sp.Opt)
	if err != nil {
		return nil, core.Infra("generate %s: %v", sp.Name, err)
	}
	return d, nil
}
