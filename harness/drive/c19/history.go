package c19

import (
	"encoding/hex"
	"fmt"
	"math/rand"
	"strings"

	"seehuhn.de/go/pdf"

	"verif/harness/core"
	"verif/harness/drive/shared"
	"verif/harness/indep/obj"
	"verif/harness/indep/ser"
)

// historyDoc renders a file with incremental updates (harness/indep/ser, no
// go-pdf involved): history is e.g. "table-table" or "stream-stream-stream",
// one word per revision.  Every update is small (so that several `startxref`
// keywords lie in the last kilobyte of the file) and changes values: the Info
// title, an integer, a dictionary entry and a stream.  Opening an older
// revision, or reading an object of one, is therefore visible in the digests
// compared with the fault-free run of the same file.
func historyDoc(seed int64, history string) (*shared.Doc, error) {
	kinds := strings.Split(history, "-")
	doc := &ser.Doc{Version: "1.7"}
	if kinds[0] == "table" {
		doc.Version = "1.4"
	}
	for r, k := range kinds {
		kind := ser.Table
		if k == "stream" {
			kind = ser.Stream
		} else if k != "table" {
			return nil, fmt.Errorf("history %q: unknown revision kind %q", history, k)
		}
		rev := ser.Revision{Kind: kind, Trailer: obj.Dict{"Root": obj.Ref{Num: 1}, "Info": obj.Ref{Num: 3}}}
		// (document-level entries given as indirect objects: reading them is a read of its own)
		info := obj.Dict{"Title": obj.Str(fmt.Sprintf("revision %d of %d", r+1, seed)), "Trapped": obj.Ref{Num: 11}, "VerifNote": obj.Ref{Num: 12}}
		if r == 0 {
			rev.Ops = []ser.Op{
				{Num: 1, Kind: ser.Define, Value: obj.Dict{"Type": obj.Name("Catalog"), "Pages": obj.Ref{Num: 2},
					"PageMode": obj.Ref{Num: 7}, "PageLayout": obj.Ref{Num: 8}, "Lang": obj.Ref{Num: 9}, "NeedsRendering": obj.Ref{Num: 10}, "Metadata": obj.Ref{Num: 16}}},
				// a metadata stream whose (empty) filter chain is an indirect object
				{Num: 16, Kind: ser.Define, Value: &obj.Stream{Dict: obj.Dict{"Type": obj.Name("Metadata"), "Subtype": obj.Name("XML"), "Filter": obj.Ref{Num: 17}}, Raw: []byte(xmpPacket)}},
				{Num: 17, Kind: ser.Define, Value: obj.Array{}},
				{Num: 7, Kind: ser.Define, Value: obj.Name("UseOutlines")},
				{Num: 8, Kind: ser.Define, Value: obj.Name("TwoColumnLeft")},
				{Num: 9, Kind: ser.Define, Value: obj.Str("de-CH")},
				{Num: 10, Kind: ser.Define, Value: obj.Bool(true)},
				{Num: 11, Kind: ser.Define, Value: obj.Name("True")},
				{Num: 12, Kind: ser.Define, Value: obj.Str("a custom entry")},
				{Num: 2, Kind: ser.Define, Value: obj.Dict{"Type": obj.Name("Pages"), "Kids": obj.Array{}, "Count": obj.Int(0)}},
				{Num: 3, Kind: ser.Define, Value: info},
				{Num: 4, Kind: ser.Define, Value: &obj.Stream{Dict: obj.Dict{"K": obj.Int(1)}, Raw: []byte(strings.Repeat("first revision of the stream\n", 45))}},
				// a stream whose /Filter array and /DecodeParms array have indirect elements
				{Num: 13, Kind: ser.Define, Value: obj.Name("ASCIIHexDecode")},
				{Num: 14, Kind: ser.Define, Value: obj.Dict{}},
				{Num: 15, Kind: ser.Define, Value: &obj.Stream{Dict: obj.Dict{"Filter": obj.Array{obj.Ref{Num: 13}}, "DecodeParms": obj.Array{obj.Ref{Num: 14}}},
					Raw: []byte(hex.EncodeToString([]byte(strings.Repeat("hex-encoded stream data ", 20))) + ">")}},
				{Num: 5, Kind: ser.Define, Value: obj.Int(1000 + seed%97)},
				{Num: 6, Kind: ser.Define, Value: obj.Dict{"A": obj.Int(1), "B": obj.Ref{Num: 5}, "Text": obj.Str(strings.Repeat("x", 300))}},
			}
		} else {
			rev.Ops = []ser.Op{
				{Num: 3, Kind: ser.Define, Value: info},
				{Num: 5, Kind: ser.Define, Value: obj.Int(int64(2000*r) + seed%97)},
			}
			switch (int(seed) + r) % 3 {
			case 0:
				rev.Ops = append(rev.Ops, ser.Op{Num: 6, Kind: ser.Define, Value: obj.Dict{"A": obj.Int(int64(r + 1)), "B": obj.Ref{Num: 5}}})
			case 1:
				rev.Ops = append(rev.Ops, ser.Op{Num: 4, Kind: ser.Define, Value: &obj.Stream{Dict: obj.Dict{"K": obj.Int(int64(r + 1))}, Raw: []byte(fmt.Sprintf("revision %d\n", r+1))}})
			}
		}
		doc.Revisions = append(doc.Revisions, rev)
	}
	res, err := ser.RenderResult(doc, &ser.Options{Seed: seed})
	if err != nil {
		return nil, err
	}
	d := &shared.Doc{Seed: seed, Bytes: res.Bytes, Pages: pdf.NewReference(2, 0)}
	for _, o := range []struct {
		n uint32
		k string
	}{{1, "dict"}, {2, "dict"}, {3, "dict"}, {4, "stream"}, {5, "int"}, {6, "dict"}, {15, "stream"}} {
		d.Objects = append(d.Objects, shared.DocObject{Ref: pdf.NewReference(o.n, 0), Kind: o.k, Start: -1, End: -1})
	}
	return d, nil
}

const xmpPacket = `<?xpacket begin="" id="W5M0MpCehiHzreSzNTczkc9d"?>` +
	`<x:xmpmeta xmlns:x="adobe:ns:meta/"><rdf:RDF xmlns:rdf="http://www.w3.org/1999/02/22-rdf-syntax-ns#">` +
	`<rdf:Description rdf:about="" xmlns:dc="http://purl.org/dc/elements/1.1/"><dc:format>application/pdf</dc:format></rdf:Description>` +
	`</rdf:RDF></x:xmpmeta><?xpacket end="w"?>`

// makeDoc produces the document of a read-side scenario.
func makeDoc(sp docSpec) (*shared.Doc, error) {
	if sp.Special == "bigobjstm" {
		d, err := bigObjStmDoc(sp.Seed)
		if err != nil {
			return nil, core.Infra("big object stream document: %v", err)
		}
		return d, nil
	}
	if sp.Special == "boundary" {
		d, err := boundaryDoc(sp.Seed)
		if err != nil {
			return nil, core.Infra("boundary document: %v", err)
		}
		return d, nil
	}
	if sp.History != "" {
		d, err := historyDoc(sp.Seed, sp.History)
		if err != nil {
			return nil, core.Infra("render history %s: %v", sp.History, err)
		}
		return d, nil
	}
	d, err := shared.GenerateDoc(sp.Seed, sp.Opt)
	if err != nil {
		return nil, core.Infra("generate %s: %v", sp.Name, err)
	}
	return d, nil
}

// boundaryDoc writes (with the real Writer) objects which are longer than the
// scanner's 1024-byte buffer: dictionaries and an array full of names with
// #xx escapes (wherever the buffer ends, an escape is near), and streams
// whose dictionaries are padded so that the `stream` keyword begins 1018 ..
// 1043 bytes after the start of the object, i.e. at or shortly after the end
// of the first buffer, where a failing refill that delivers a few bytes cuts it.
func boundaryDoc(seed int64) (*shared.Doc, error) {
	targets := []int{1016, 1019, 1021, 1023, 1024, 1026, 1029, 1038, 1041, 1043}
	pads := make([]int, len(targets))
	for i := range pads {
		pads[i] = 900
	}
	var doc *shared.Doc
	for pass := 0; pass < 3; pass++ {
		sink := &shared.MemSink{}
		w, err := pdf.NewWriter(sink, pdf.V1_4, nil)
		if err != nil {
			return nil, err
		}
		doc = &shared.Doc{Seed: seed}
		put := func(kind string, v pdf.Object) error {
			ref := w.Alloc()
			doc.Objects = append(doc.Objects, shared.DocObject{Ref: ref, Kind: kind, Start: -1, End: -1})
			return w.Put(ref, v)
		}
		if err := put("dict", pdf.Dict{"Type": pdf.Name("Pages"), "Kids": pdf.Array{}, "Count": pdf.Integer(0)}); err != nil {
			return nil, err
		}
		doc.Pages = doc.Objects[0].Ref
		big := pdf.Dict{}
		arr := pdf.Array{}
		for i := 0; i < 150; i++ {
			big[pdf.Name(fmt.Sprintf("k %d#(%d)", i, (int(seed)+i)%7))] = pdf.Name(fmt.Sprintf("v %d/%d", i, i%5))
			arr = append(arr, pdf.Name(fmt.Sprintf("a b%d c", (int(seed)+i)%10)))
		}
		if err := put("dict", big); err != nil {
			return nil, err
		}
		if err := put("array", arr); err != nil {
			return nil, err
		}
		ok := true
		for i, target := range targets {
			ref := w.Alloc()
			doc.Objects = append(doc.Objects, shared.DocObject{Ref: ref, Kind: "stream", Start: -1, End: -1})
			start := sink.Pos()
			ws, err := w.OpenStream(ref, pdf.Dict{"I": pdf.Integer(i), "P": pdf.String(strings.Repeat("p", pads[i]))})
			if err != nil {
				return nil, err
			}
			if _, err := ws.Write([]byte(fmt.Sprintf("body of stream %d\n", i))); err != nil {
				return nil, err
			}
			if err := ws.Close(); err != nil {
				return nil, err
			}
			at := strings.Index(string(sink.Bytes()[start:]), "\nstream\n")
			if at < 0 {
				return nil, fmt.Errorf("no stream keyword in object %v", ref)
			}
			if at+1 != target {
				pads[i] += target - (at + 1)
				ok = false
			}
		}
		w.GetMeta().Catalog.Pages = doc.Pages
		w.GetMeta().Info = nil
		if err := w.Close(); err != nil {
			return nil, err
		}
		doc.Bytes = sink.Bytes()
		if ok {
			return doc, nil
		}
	}
	return nil, fmt.Errorf("stream keywords could not be placed")
}

// bigObjStmDoc writes (with the real Writer) one object stream of 160
// dictionaries of about 100 bytes each (hardly compressible: the encoded
// stream is several kB, the decoded one far longer than the scanner's
// 1024-byte buffer).  The scenario fetches only six of the members: the
// first, three in the middle (the scanner has to skip to their offsets with
// Discard), the last but one and the last.
func bigObjStmDoc(seed int64) (*shared.Doc, error) {
	rng := rand.New(rand.NewSource(seed))
	sink := &shared.MemSink{}
	w, err := pdf.NewWriter(sink, pdf.V1_7, nil)
	if err != nil {
		return nil, err
	}
	doc := &shared.Doc{Seed: seed, Opt: shared.DocOptions{Version: pdf.V1_7, XRefStream: true, ObjStm: true}}
	pages := w.Alloc()
	if err := w.Put(pages, pdf.Dict{"Type": pdf.Name("Pages"), "Kids": pdf.Array{}, "Count": pdf.Integer(0)}); err != nil {
		return nil, err
	}
	doc.Pages = pages
	doc.Objects = append(doc.Objects, shared.DocObject{Ref: pages, Kind: "dict", Start: -1, End: -1})
	const members = 160
	refs := make([]pdf.Reference, members)
	objs := make([]pdf.Object, members)
	for i := range refs {
		refs[i] = w.Alloc()
		key := make([]byte, 36)
		rng.Read(key)
		objs[i] = pdf.Dict{"I": pdf.Integer(i), "Key": pdf.String(fmt.Sprintf("%x", key)), "N": pdf.Name(fmt.Sprintf("member#%d", i))}
	}
	if err := w.WriteCompressed(refs, objs...); err != nil {
		return nil, err
	}
	for _, i := range []int{0, 40, 79, 120, members - 2, members - 1} {
		doc.Objects = append(doc.Objects, shared.DocObject{Ref: refs[i], Kind: "dict", InObjStm: true, Start: -1, End: -1})
	}
	w.GetMeta().Catalog.Pages = pages
	w.GetMeta().Info = nil
	if err := w.Close(); err != nil {
		return nil, err
	}
	doc.Bytes = sink.Bytes()
	return doc, nil
}
