// Package c19 binds spec/fault/IOFault.tla to go-pdf's reader and writer.
//
//	design   MC_IOFault: layered latch machine, every document shape x mode x
//	         fault plan x fault position
//	P-A      the fault plan is the behaviour: a counting io.ReaderAt / sink
//	         measures the number n of operations of a scenario, then the
//	         scenario is re-run for EVERY k in 1..n, in both plans, with and
//	         without partial data, with a unique sentinel error
//	P-B      every run is logged {plan, k, call, outcome class, carries,
//	         malformed, same as fault-free} and judged by Trace_IOFault
//
// Nothing of go-pdf is modified: faults come from wrappers around the byte
// source and the sink.
package c19

import (
	"syscall"
	"os"
	"bytes"
	"crypto/sha256"
	"encoding/json"
	"errors"
	"fmt"
	"io"
	"runtime"
	"sort"
	"strings"
	"sync"
	"sync/atomic"
	"time"

	"seehuhn.de/go/pdf"

	"verif/harness/core"
	"verif/harness/drive/shared"
	"verif/harness/indep/obj"
)

var Driver = core.Driver{ID: "C19", Level: "fault_enumeration", Run: run, Replay: replay, SelfTest: selfTest}

// ---- fault injection ----

type injected struct{ id string }

func (e *injected) Error() string { return "injected I/O failure " + e.id }

type faultPlan struct {
	Plan    string `json:"plan"` // failFrom, failOnly, none
	K       int    `json:"k"`
	Partial bool   `json:"partial"`
	// Withhold (with Partial): the failing ReadAt delivers all but the last
	// Withhold bytes asked for (0: the first half).  A request of at most
	// Withhold bytes delivers its first half.
	Withhold int `json:"withhold"`
	// Deliver (with Partial, instead of Withhold): the failing ReadAt delivers
	// exactly this many bytes (fewer if fewer were asked for, never all).
	Deliver int `json:"deliver"`
}

// keep tells how many of the n bytes asked for come with the error.
func (p faultPlan) keep(n int) int {
	if p.Deliver > 0 {
		return min(p.Deliver, n-1)
	}
	if p.Withhold > 0 && n > p.Withhold {
		return n - p.Withhold
	}
	return n / 2
}

// flavours of a failing operation: no data, half of it, all but the last 16 /
// 64 / 256 bytes, and (reads only) exactly 1..8, 19, 20 or 21 bytes: less than
// the short peeks of the scanner (5 for "%PDF-", 4 for "xref", 20 for a
// cross-reference table entry, 3 for a #xx escape, 6 for "stream"/"endobj")
type flavour struct {
	partial  bool
	withhold int
	deliver  int
}

var writeFlavours = []flavour{{false, 0, 0}, {true, 0, 0}, {true, 16, 0}, {true, 64, 0}, {true, 256, 0}}
var readFlavours = append(append([]flavour{}, writeFlavours...),
	flavour{true, 0, 1}, flavour{true, 0, 2}, flavour{true, 0, 3}, flavour{true, 0, 4}, flavour{true, 0, 5}, flavour{true, 0, 6},
	flavour{true, 0, 7}, flavour{true, 0, 8}, flavour{true, 0, 19}, flavour{true, 0, 20}, flavour{true, 0, 21})

func (p faultPlan) faulty(i int) bool {
	switch p.Plan {
	case "failFrom":
		return i >= p.K
	case "failOnly":
		return i == p.K
	}
	return false
}

// site names the go-pdf function that issued the k-th operation.
type site struct {
	Fn  string // innermost function of package pdf, e.g. "endstreamAt"
	Via string // landmark on the stack, e.g. "ExtractInfo"
}

var landmarks = []string{"lengthGetter", "ExtractInfo", "DecodeCatalog", "parseEncryptDict", "getID", "readXRefStream", "readXRefTable", "findXRef", "ReadHeaderVersion",
	"findHeaderOffset", "getFromObjStm", "Placeholder).Set", "Writer).Close", "streamWriter).Close", "Writer).Put", "NewWriter", "WriteCompressed", "OpenStream"}

func callSite() site {
	pcs := make([]uintptr, 48)
	n := runtime.Callers(3, pcs)
	frames := runtime.CallersFrames(pcs[:n])
	var s site
	prev := ""
	for {
		f, more := frames.Next()
		name := f.Function
		if strings.HasPrefix(name, "seehuhn.de/go/pdf.") {
			short := strings.TrimPrefix(name, "seehuhn.de/go/pdf.")
			if i := strings.Index(short, "["); i >= 0 {
				short = short[:i]
			}
			if s.Fn == "" {
				s.Fn = short
			}
			if short == "NewReader" && s.Via == "" {
				// what NewReader was doing: resolving /Root or decoding /Info
				switch {
				case strings.HasPrefix(prev, "Decode"):
					s.Via = "NewReader:Decode(Info)"
				case strings.Contains(prev, "Cursor"):
					s.Via = "NewReader:Cursor.Dict(Root)"
				}
			}
			prev = short
			if s.Via == "" {
				for _, l := range landmarks {
					if strings.Contains(short, l) {
						s.Via = l
						break
					}
				}
			}
		}
		if !more {
			break
		}
	}
	if s.Fn == "" {
		s.Fn = "?"
	}
	return s
}

type faultSrc struct {
	mu    sync.Mutex
	r     io.ReaderAt
	plan  faultPlan
	err   error
	n     int
	hit   bool
	sites []site // recorded in the counting (fault-free) run only
	trace bool
	at    site            // site of the first failed operation
	also  map[string]bool // functions whose operations failed later in the run
	cur   *atomic.Value   // id of the scenario call in progress
	fails []failedOp      // the failed operations (at most 256 are kept)
}

type failedOp struct {
	at   site
	call string
}

func (f *faultSrc) ReadAt(p []byte, off int64) (int, error) {
	f.mu.Lock()
	f.n++
	i := f.n
	if f.trace {
		f.sites = append(f.sites, callSite())
	}
	bad := f.plan.faulty(i)
	if bad {
		cs := callSite()
		if !f.hit {
			f.hit = true
			f.at = cs
		} else if len(f.also) < 8 {
			if f.also == nil {
				f.also = map[string]bool{}
			}
			f.also[cs.Fn] = true
		}
		if len(f.fails) < 256 {
			call := ""
			if f.cur != nil {
				call, _ = f.cur.Load().(string)
			}
			f.fails = append(f.fails, failedOp{cs, call})
		}
	}
	f.mu.Unlock()
	if bad {
		if f.plan.Partial && len(p) > 1 {
			n, _ := f.r.ReadAt(p[:f.plan.keep(len(p))], off)
			return n, f.err
		}
		return 0, f.err
	}
	return f.r.ReadAt(p, off)
}

// ---- read-side scenario ----

type callOut struct {
	ID        string `json:"id"` // e.g. "get#3": matches the call of the fault-free run
	Call      string `json:"call"`
	Cls       string `json:"cls"` // ok, err
	Same      bool   `json:"same"`
	Carries   bool   `json:"carries"`
	Malformed bool   `json:"malformed"`
	// the failed operation this outcome is attributed to: the first one during
	// this call, else the last one before it (not judged)
	At     string `json:"at,omitempty"`
	Via    string `json:"via,omitempty"`
	In     string `json:"in,omitempty"`
	digest string
	msg    string
}

// attribute fills in At/Via/In of every call.
func attribute(outs []callOut, fails []failedOp) {
	pos := map[string]int{}
	for i, o := range outs {
		pos[o.ID] = i
	}
	for i := range outs {
		var pick *failedOp
		inCall, pickPlain := false, false
		for j := range fails {
			p, ok := pos[fails[j].call]
			if !ok {
				continue
			}
			if p == i {
				// within the call: the first failure at a site that is not a plain
				// buffered read (those return their error), else the first
				plain := strings.Contains(fails[j].at.Fn, "refill") || strings.Contains(fails[j].at.Fn, "streamReader") || strings.Contains(fails[j].at.Fn, "Discard")
				if !inCall || (pickPlain && !plain) {
					pick, inCall, pickPlain = &fails[j], true, plain
				}
				continue
			}
			if p < i && !inCall {
				pick = &fails[j]
			}
		}
		if pick != nil {
			outs[i].At, outs[i].Via, outs[i].In = pick.at.Fn, pick.at.Via, pick.call
		}
	}
}

func digestBytes(b []byte) string {
	h := sha256.Sum256(b)
	return fmt.Sprintf("%d:%x", len(b), h[:6])
}

func valueDigest(v pdf.Object) string {
	if stm, ok := v.(*pdf.Stream); ok {
		d, _ := shared.FromPDF(stm.Dict).(obj.Dict)
		delete(d, "Length")
		return "stream" + obj.String(d)
	}
	return obj.String(shared.FromPDF(v))
}

func metaDigest(r *pdf.Reader) string {
	m := r.GetMeta()
	var b strings.Builder
	fmt.Fprintf(&b, "v=%v;", m.Version)
	if m.Catalog != nil {
		fmt.Fprintf(&b, "pages=%v;mode=%v;layout=%v;lang=%v;nr=%v;", m.Catalog.Pages, m.Catalog.PageMode, m.Catalog.PageLayout, m.Catalog.Lang, m.Catalog.NeedsRendering)
		if md := m.Catalog.Metadata; md != nil {
			fmt.Fprintf(&b, "metadata:plaintext=%v;", md.Plaintext)
		} else {
			b.WriteString("nometadata;")
		}
	} else {
		b.WriteString("nocatalog;")
	}
	if m.Info != nil {
		fmt.Fprintf(&b, "title=%q;trapped=%v;custom=%v;", string(m.Info.Title), m.Info.Trapped, m.Info.Custom)
	} else {
		b.WriteString("noinfo;")
	}
	fmt.Fprintf(&b, "id=%x;errors=%d;", m.ID, len(r.Errors))
	keys := []string{}
	for k := range m.Trailer {
		keys = append(keys, string(k))
	}
	sort.Strings(keys)
	fmt.Fprintf(&b, "trailer=%v;enc=%v", keys, m.Encryption != nil)
	return b.String()
}

// deepDecode is the decode function of the scenario's pdf.Decode calls: it
// resolves one level of references and reads stream data.
func deepDecode(c pdf.Cursor, o pdf.Object, _ bool) (string, error) {
	switch x := o.(type) {
	case *pdf.Stream:
		data, err := c.ReadAll(x, 1<<22)
		if err != nil {
			return "", err
		}
		return "stream:" + digestBytes(data), nil
	case pdf.Dict:
		var parts []string
		for _, k := range x.SortedKeys() {
			v, err := c.Resolve(x[k])
			if err != nil {
				return "", err
			}
			parts = append(parts, string(k)+"="+valueDigest(v))
		}
		return "dict:" + strings.Join(parts, ","), nil
	case pdf.Array:
		var parts []string
		for _, e := range x {
			v, err := c.Resolve(e)
			if err != nil {
				return "", err
			}
			parts = append(parts, valueDigest(v))
		}
		return "array:" + strings.Join(parts, ","), nil
	}
	return valueDigest(o), nil
}

// scanAll is the scenario's first call: pdf.SequentialScan and FileInfo.Read of
// every object it lists that is not flagged broken.  The digest is the listing
// with the values read; an error carrying the injected one ends the call.
func scanAll(src io.ReaderAt, size int64, sentinel error) (string, error) {
	fi, err := pdf.SequentialScan(src, size)
	if err != nil {
		return "", err
	}
	var b strings.Builder
	fmt.Fprintf(&b, "v=%s;", fi.HeaderVersion)
	for si, sec := range fi.Sections {
		fmt.Fprintf(&b, "section %d: xref=%d trailer=%d startxref=%d eof=%d;", si, sec.XRefPos, sec.TrailerPos, sec.StartXRefPos, sec.EOFPos)
		for _, o := range sec.Objects {
			fmt.Fprintf(&b, "%d %d @%d broken=%v %s;", o.Number(), o.Generation(), o.ObjStart, o.Broken, o.Type)
			if o.Broken {
				continue
			}
			v, err := fi.Read(o)
			switch {
			case err == nil:
				b.WriteString(valueDigest(v) + ";")
				if stm, ok := v.(*pdf.Stream); ok {
					// the extent of the stream: its raw bytes
					raw, err := io.ReadAll(stm.NewReader())
					if errors.Is(err, sentinel) {
						return "", err
					}
					fmt.Fprintf(&b, "raw=%s err=%v;", digestBytes(raw), err != nil)
				}
			case errors.Is(err, sentinel):
				return "", err
			default:
				fmt.Fprintf(&b, "read fails (malformed=%v);", pdf.IsMalformed(err))
			}
		}
	}
	// ... and the Reader made from the scan: its trailer, catalog and pages
	rd, err := fi.MakeReader(nil)
	switch {
	case err == nil:
		fmt.Fprintf(&b, "makereader: %s;", metaDigest(rd))
	case errors.Is(err, sentinel):
		return "", err
	default:
		fmt.Fprintf(&b, "makereader fails (malformed=%v);", pdf.IsMalformed(err))
	}
	return b.String(), nil
}

// wantsDecode: the scenario calls pdf.Decode on the first four composite objects.
func wantsDecode(doc *shared.Doc, i int) bool {
	n := 0
	for j := 0; j <= i; j++ {
		k := doc.Objects[j].Kind
		if k == "dict" || k == "stream" || k == "array" {
			n++
			if j == i {
				return n <= 4
			}
		}
	}
	return false
}

type readScenario struct {
	doc  *shared.Doc
	mode pdf.ReaderErrorHandling
}

// hangs counts runs that never returned (their goroutines cannot be stopped
// and keep a core busy, so the enumeration of the partial-data variants is
// cut short after maxHangs of them).
var hangs atomic.Int32

const maxHangs = 3

// runReadWatched is runRead with a watchdog: a run whose source sees no
// ReadAt call for noProgress although the run has not returned is hung.
func (sc *readScenario) runReadWatched(src *faultSrc, noProgress time.Duration) []callOut {
	done := make(chan []callOut, 1)
	var cur atomic.Value
	cur.Store("open#0")
	src.cur = &cur
	go func() { done <- sc.runReadCur(src, &cur) }()
	last, lastChange := -1, time.Now()
	tick := time.NewTicker(200 * time.Millisecond)
	defer tick.Stop()
	for {
		select {
		case outs := <-done:
			return outs
		case <-tick.C:
			src.mu.Lock()
			n := src.n
			src.mu.Unlock()
			if n != last {
				last, lastChange = n, time.Now()
			} else if time.Since(lastChange) > noProgress {
				hangs.Add(1)
				id := cur.Load().(string)
				src.mu.Lock()
				defer src.mu.Unlock()
				return []callOut{{ID: id, Call: inKind(id), Cls: "hang", digest: "hang", msg: "the call did not return (no ReadAt for " + noProgress.String() + ")"}}
			}
		}
	}
}

func (sc *readScenario) runRead(src *faultSrc) []callOut {
	var cur atomic.Value
	return sc.runReadCur(src, &cur)
}

var modeNames = map[pdf.ReaderErrorHandling]string{pdf.ErrorHandlingRecover: "recover", pdf.ErrorHandlingReport: "report", pdf.ErrorHandlingStop: "stop"}

// runRead executes the scenario on src.  A panic is reported as an outcome
// of the call it happened in.
func (sc *readScenario) runReadCur(src *faultSrc, progress *atomic.Value) (outs []callOut) {
	cur := ""
	oi := 0
	set := func(c string) {
		cur = c
		progress.Store(fmt.Sprintf("%s#%d", c, oi))
	}
	mk := func(call string, digest string, err error) {
		o := callOut{ID: fmt.Sprintf("%s#%d", call, oi), Call: call, Cls: "ok", digest: digest}
		if err != nil {
			o.Cls = "err"
			o.Carries = errors.Is(err, src.err)
			o.Malformed = pdf.IsMalformed(err)
			o.msg = err.Error()
		}
		outs = append(outs, o)
	}
	defer func() {
		if r := recover(); r != nil {
			outs = append(outs, callOut{ID: fmt.Sprintf("%s#%d", cur, oi), Call: cur, Cls: "err", msg: fmt.Sprintf("panic: %v", r), digest: "panic"})
		}
	}()
	set("scan")
	d0, err0 := scanAll(src, int64(len(sc.doc.Bytes)), src.err)
	mk("scan", d0, err0)
	set("open")
	r, err := pdf.NewReader(src, int64(len(sc.doc.Bytes)), sc.doc.ReaderOptions(sc.mode))
	if err != nil {
		mk("open", "", err)
		return outs
	}
	mk("open", metaDigest(r), nil)
	x := pdf.NewExtractor(r)
	for i := range sc.doc.Objects {
		o := &sc.doc.Objects[i]
		oi = i
		set("get")
		v, err := r.Get(o.Ref, true)
		if err != nil {
			mk("get", "", err)
		} else {
			mk("get", valueDigest(v), nil)
		}
		if stm, ok := v.(*pdf.Stream); ok && err == nil {
			set("decode")
			rd, err := pdf.DecodeStream(r, nil, stm)
			if err != nil {
				mk("decode", "", err)
			} else {
				data, err := io.ReadAll(rd)
				rd.Close()
				mk("decode", digestBytes(data), err)
			}
		}
		if wantsDecode(sc.doc, i) {
			set("Decode")
			d, err := pdf.Decode(pdf.CursorAt(x, nil), o.Ref, deepDecode)
			mk("Decode", d, err)
			// ... and once more through the same Extractor: a call that failed
			// must not leave anything behind that changes the next answer
			set("DecodeAgain")
			d, err = pdf.Decode(pdf.CursorAt(x, nil), o.Ref, deepDecode)
			mk("DecodeAgain", d, err)
		}
	}
	return outs
}

type readRun struct {
	Side string    `json:"side"`
	Doc  string    `json:"doc"`
	Mode string    `json:"mode"`
	Plan faultPlan `json:"plan"`
	Hit  bool      `json:"hit"`
	// write side: Hit = a Write or Seek of the sink failed; RHit = a Read of
	// the sink (Writer.Get) failed; Same = the bytes in the sink equal those
	// of the fault-free session
	RHit  bool      `json:"rhit"`
	Same  bool      `json:"same"`
	Calls []callOut `json:"calls"`
	Outs  []wOut    `json:"outs"`
	At    string    `json:"at"`  // site of the failed operation
	Via   string    `json:"via"` // landmark above it
	In    string    `json:"in"`  // scenario call during which the fault struck
	Count int       `json:"count"`
	docIx int
	also  []string
}

type wOut struct {
	Cls     string `json:"cls"`
	Carries bool   `json:"carries"`
	Call    string `json:"call"`
}

func compare(base, got []callOut) {
	byID := map[string]callOut{}
	for _, b := range base {
		byID[b.ID] = b
	}
	for i := range got {
		b, ok := byID[got[i].ID]
		if !ok {
			got[i].Same = false // a call the fault-free run never makes
			continue
		}
		g := &got[i]
		switch {
		case b.Cls == "ok":
			g.Same = g.Cls == "ok" && g.digest == b.digest && g.Call == b.Call
		default:
			g.Same = g.Cls == "err" && !g.Carries && g.Malformed == b.Malformed && g.digest != "panic"
		}
	}
}

// ---- write-side scenario ----

type faultSink struct {
	readFailed, writeFailed bool // a Read/ReadAt resp. a Write/Seek has failed
	buf                     []byte
	off                     int64
	plan                    faultPlan
	err                     error
	n                       int
	hit                     bool
	at                      site
	sites                   []site
	trace                   bool
}

func (f *faultSink) op() bool { return f.opKind(false) }

// opKind counts one sink operation; reading (Writer.Get) is told apart from
// writing and seeking, which the write-side clause of the property is about.
func (f *faultSink) opKind(read bool) bool {
	f.n++
	if f.trace {
		f.sites = append(f.sites, callSite2())
	}
	bad := f.plan.faulty(f.n)
	if bad && !f.hit {
		f.hit = true
		f.at = callSiteSkip(5)
	}
	if bad && read {
		f.readFailed = true
	} else if bad {
		f.writeFailed = true
	}
	return bad
}

func callSite2() site { return callSiteSkip(5) }

func callSiteSkip(skip int) site {
	pcs := make([]uintptr, 48)
	n := runtime.Callers(skip, pcs)
	frames := runtime.CallersFrames(pcs[:n])
	var s site
	for {
		f, more := frames.Next()
		name := f.Function
		if strings.HasPrefix(name, "seehuhn.de/go/pdf.") {
			short := strings.TrimPrefix(name, "seehuhn.de/go/pdf.")
			if s.Fn == "" {
				s.Fn = short
			}
			if s.Via == "" {
				for _, l := range landmarks {
					if strings.Contains(short, l) {
						s.Via = l
						break
					}
				}
			}
		} else if s.Fn == "" && strings.HasPrefix(name, "bufio.") {
			s.Fn = "bufio"
		}
		if !more {
			break
		}
	}
	return s
}

func (f *faultSink) Write(p []byte) (int, error) {
	if f.op() {
		if f.plan.Partial && len(p) > 1 {
			n := f.plan.keep(len(p))
			f.put(p[:n])
			return n, f.err
		}
		return 0, f.err
	}
	f.put(p)
	return len(p), nil
}

func (f *faultSink) put(p []byte) {
	end := f.off + int64(len(p))
	if end > int64(len(f.buf)) {
		f.buf = append(f.buf, make([]byte, end-int64(len(f.buf)))...)
	}
	copy(f.buf[f.off:], p)
	f.off = end
}

type seekFaultSink struct{ *faultSink }

func (f seekFaultSink) Seek(offset int64, whence int) (int64, error) {
	if f.op() {
		return 0, f.err
	}
	switch whence {
	case io.SeekStart:
		f.off = offset
	case io.SeekCurrent:
		f.off += offset
	case io.SeekEnd:
		f.off = int64(len(f.buf)) + offset
	}
	return f.off, nil
}

// rwFaultSink can also be read (Writer.Get); reads count as sink operations.
type rwFaultSink struct{ seekFaultSink }

func (f rwFaultSink) Read(p []byte) (int, error) {
	bad := f.opKind(true)
	if f.off >= int64(len(f.buf)) && !bad {
		return 0, io.EOF
	}
	avail := f.buf[min(f.off, int64(len(f.buf))):]
	if bad {
		n := 0
		if f.plan.Partial && len(p) > 1 {
			n = copy(p[:f.plan.keep(len(p))], avail)
			f.off += int64(n)
		}
		return n, f.err
	}
	n := copy(p, avail)
	f.off += int64(n)
	return n, nil
}

func (f rwFaultSink) ReadAt(p []byte, off int64) (int, error) {
	bad := f.opKind(true)
	var avail []byte
	if off < int64(len(f.buf)) {
		avail = f.buf[off:]
	}
	if bad {
		n := 0
		if f.plan.Partial && len(p) > 1 {
			n = copy(p[:f.plan.keep(len(p))], avail)
		}
		return n, f.err
	}
	n := copy(p, avail)
	if n < len(p) {
		return n, io.EOF
	}
	return n, nil
}

func runWrite(plan *shared.DocPlan, fs *faultSink) (outs []wOut, data []byte) {
	var sink io.Writer = fs
	if plan.Opt.ReadBack {
		sink = rwFaultSink{seekFaultSink{fs}}
	} else if plan.Opt.Seekable {
		sink = seekFaultSink{fs}
	}
	defer func() {
		if r := recover(); r != nil {
			outs = append(outs, wOut{Cls: "panic", Call: fmt.Sprint(r)})
		}
	}()
	_, st, err := plan.Write(sink)
	if err != nil {
		return []wOut{{Cls: "err", Carries: errors.Is(err, fs.err), Call: st.Call}}, fs.buf
	}
	return []wOut{{Cls: "ok", Call: "Close"}}, fs.buf
}

// ---- documents ----

type docSpec struct {
	Seed int64             `json:"seed"`
	Opt  shared.DocOptions `json:"opt"`
	Name string            `json:"name"`
	// History, if not empty, asks for a file with incremental updates rendered
	// by harness/indep/ser (see historyDoc) instead of a Writer-made document.
	History string `json:"history,omitempty"`
	// Special "bigobjstm": one object stream of 160 members (see bigObjStmDoc).
	// Special "boundary": objects over 1 kB whose #xx name escapes and `stream`
	// keywords lie around the end of the scanner's 1024-byte buffer (see boundaryDoc).
	Special string `json:"special,omitempty"`
}

func docSpecs(ctx *core.Ctx) []docSpec {
	s := ctx.Seed * 1000
	eol := []shared.BodyKind{shared.BodyEOL, shared.BodyCR, shared.BodyPlain, shared.BodyEOLEndstream, shared.BodyEndobj, shared.BodyEmpty}
	specs := []docSpec{
		{s + 1, shared.DocOptions{Version: pdf.V1_4, Seekable: true, Objects: 9, MinStreams: 2, Bodies: eol, Info: true}, "table-1.4", "", ""},
		{s + 2, shared.DocOptions{Version: pdf.V1_7, XRefStream: true, ObjStm: true, Seekable: true, Objects: 10, Bodies: eol, Filters: shared.AllFilters, Info: true}, "xrefstream-objstm-filters", "", ""},
		{s + 3, shared.DocOptions{Version: pdf.V1_6, Encrypt: true, Seekable: true, Objects: 8, Bodies: eol, Filters: []string{"Flate", "ASCII85"}, Info: true}, "table-1.6-aes128", "", ""},
		{s + 4, shared.DocOptions{Version: pdf.V1_4, Seekable: false, Objects: 7, MinStreams: 4, CycleBodies: true,
			Bodies: []shared.BodyKind{shared.BodyBig, shared.BodyBigCR, shared.BodyBigEOLEndstream, shared.BodyBigEOLEndobj}, Info: false}, "table-1.4-noseek-indirect-length", "", ""},
	}
	// incremental updates: two or three small revisions, every one changing values
	specs = append(specs,
		docSpec{Seed: s + 20, Name: "history-table-table", History: "table-table"},
		docSpec{Seed: s + 21, Name: "history-stream-stream-stream", History: "stream-stream-stream"},
		docSpec{Seed: s + 30, Name: "buffer-boundary", Special: "boundary"},
		docSpec{Seed: s + 31, Name: "big-object-stream", Special: "bigobjstm"})
	if ctx.Thorough() {
		specs = append(specs,
			docSpec{Seed: s + 22, Name: "history-table-table-table", History: "table-table-table"},
			docSpec{Seed: s + 23, Name: "history-stream-stream", History: "stream-stream"},
			docSpec{Seed: s + 24, Name: "history-table-table-b", History: "table-table"})
		specs = append(specs,
			docSpec{s + 5, shared.DocOptions{Version: pdf.V2_0, XRefStream: true, ObjStm: true, Encrypt: true, Seekable: false, Objects: 12, Bodies: shared.AllBodies, Filters: shared.AllFilters, Info: true}, "2.0-aes256-objstm-noseek", "", ""},
			docSpec{s + 6, shared.DocOptions{Version: pdf.V1_3, Encrypt: true, Seekable: true, Objects: 10, Bodies: eol, Filters: []string{"LZW", "RunLength", "ASCIIHex"}}, "table-1.3-rc4", "", ""},
			docSpec{s + 7, shared.DocOptions{Version: pdf.V1_5, XRefStream: true, Seekable: true, Objects: 14, Bodies: shared.AllBodies, Info: true}, "xrefstream-1.5-plain", "", ""},
			docSpec{s + 8, shared.DocOptions{Version: pdf.V1_7, Seekable: true, Objects: 14, Bodies: shared.AllBodies, Filters: []string{"Flate"}, Info: true}, "table-1.7-pretty", "", ""},
			docSpec{s + 9, shared.DocOptions{Version: pdf.V1_2, Seekable: false, Objects: 10, Bodies: []shared.BodyKind{shared.BodyBig, shared.BodyEOL, shared.BodyEOLEndstream}, Filters: []string{"ASCIIHex"}}, "table-1.2-noseek", "", ""})
	}
	return specs
}

// writeSpecs: documents for the Writer sessions.  They are bigger than the
// reader's (bufio.Writer only reaches the sink every 4 kB; Placeholder.Set
// only seeks for streams over 1 kB).
func writeSpecs(ctx *core.Ctx) []docSpec {
	s := ctx.Seed*1000 + 500
	big := []shared.BodyKind{shared.BodyBig}
	specs := []docSpec{
		{s + 1, shared.DocOptions{Version: pdf.V1_4, Seekable: true, Objects: 16, MinStreams: 3, Bodies: big, Info: true}, "w-table-seekable", "", ""},
		{s + 2, shared.DocOptions{Version: pdf.V1_4, Seekable: false, Objects: 16, MinStreams: 3, Bodies: big, Info: true}, "w-table-nonseekable", "", ""},
		{s + 3, shared.DocOptions{Version: pdf.V1_7, XRefStream: true, ObjStm: true, Seekable: true, Objects: 20, MinStreams: 3, Bodies: big, Filters: []string{"ASCIIHex", "Flate"}}, "w-xrefstream-objstm-seekable", "", ""},
		{s + 4, shared.DocOptions{Version: pdf.V1_6, Encrypt: true, Seekable: false, Objects: 14, MinStreams: 3, Bodies: big, Filters: []string{"ASCII85"}, Info: true}, "w-aes128-nonseekable", "", ""},
		// compressing filters whose output is over 1 kB (incompressible bodies): Placeholder.Set and the
		// `endstream` write happen inside the Close of the encoder chain
		{s + 11, shared.DocOptions{Version: pdf.V1_4, Seekable: true, Objects: 12, MinStreams: 4, Bodies: []shared.BodyKind{shared.BodyBigBinary}, Filters: []string{"Flate", "LZW"}, AlwaysFilter: true, Info: true}, "w-table-seekable-flate-lzw", "", ""},
		{s + 12, shared.DocOptions{Version: pdf.V1_7, XRefStream: true, Seekable: false, Objects: 12, MinStreams: 4, Bodies: []shared.BodyKind{shared.BodyBigBinary}, Filters: []string{"LZW", "Flate"}, AlwaysFilter: true}, "w-xrefstream-nonseekable-flate-lzw", "", ""},
		// read-write-seek sinks: Writer.Get of earlier objects between the Puts, OpenStream with an indirect /Filter
		{s + 9, shared.DocOptions{Version: pdf.V1_4, Seekable: true, ReadBack: true, Objects: 16, MinStreams: 4, Bodies: []shared.BodyKind{shared.BodyBig, shared.BodyPlain}, Info: true}, "w-table-readback", "", ""},
		{s + 10, shared.DocOptions{Version: pdf.V1_7, XRefStream: true, ObjStm: true, Seekable: true, ReadBack: true, Objects: 18, MinStreams: 3, Bodies: []shared.BodyKind{shared.BodyBig, shared.BodyEOL}}, "w-xrefstream-objstm-readback", "", ""},
	}
	if ctx.Thorough() {
		specs = append(specs,
			docSpec{s + 5, shared.DocOptions{Version: pdf.V2_0, XRefStream: true, ObjStm: true, Encrypt: true, Seekable: true, Objects: 30, MinStreams: 5, Bodies: big, Filters: shared.AllFilters, Info: true}, "w-2.0-aes256-seekable", "", ""},
			docSpec{s + 6, shared.DocOptions{Version: pdf.V1_7, Seekable: true, Objects: 40, MinStreams: 8, Bodies: big, Info: true}, "w-pretty-seekable", "", ""},
			docSpec{s + 7, shared.DocOptions{Version: pdf.V1_5, XRefStream: true, Seekable: false, Objects: 40, MinStreams: 8, Bodies: big, Filters: []string{"LZW"}}, "w-xrefstream-nonseekable", "", ""},
			docSpec{s + 8, shared.DocOptions{Version: pdf.V1_3, Encrypt: true, Seekable: true, Objects: 24, MinStreams: 6, Bodies: big}, "w-rc4-seekable", "", ""})
	}
	return specs
}

// ---- model operations ----

// opOfSite maps the go-pdf function that issued an operation to the layer
// operation of IOFault.tla.
func opOfSite(side string, s site) string {
	fn := s.Fn
	if side == "write" {
		switch {
		case fn == "bufio" && s.Via == "Placeholder).Set":
			return "flushI"
		case strings.Contains(fn, "Placeholder).Set"):
			return "seek/raw"
		}
		return "bw/flush"
	}
	switch {
	case strings.Contains(fn, "scanner).refill"), strings.Contains(fn, "scanner).Discard"):
		return "scan/find/len"
	case strings.Contains(fn, "endstreamAt"):
		return "probe"
	case strings.Contains(fn, "trimTrailingEOL"):
		return "trim"
	case strings.Contains(fn, "streamReader).Read"):
		return "data"
	case strings.Contains(fn, "findHeaderOffset"), strings.Contains(fn, "lastOccurence"):
		return "raw"
	}
	return "other:" + fn
}

type stats struct {
	mu        sync.Mutex
	runs      int
	sites     map[string]int // side/op/fn -> faults struck there
	ignoredOK map[string]int // fault at an ignoring helper and the call returned no error
	ignoredEr map[string]int
	pairs     map[string]bool
}

func run(ctx *core.Ctx) error {
	ctx.Ev.Rule = "one evaluation = one run of a scenario (read: SequentialScan + FileInfo.Read of every listed object, NewReader in one mode, Get of every object, DecodeStream+drain of every stream, up to 4 pdf.Decode calls; " +
		"write: the whole Writer session of the document) under one fault plan; distinct = distinct (side, mode, call kind, site of the failed operation, plan, outcome class) combinations"
	ctx.Ev.Assume("TLC evaluates IOFault.tla faithfully; the Ref operators state property C19")
	ctx.Ev.Assume("fault-free outcomes are compared by digests: values by structure (stream extents through their decoded bytes), Reader meta data by version, catalog pages, Info title, ID, trailer keys and number of reported errors")
	ctx.Ev.Assume("the faulty operation returns the sentinel error with no data, with the first half of the data, with all but the last 16 / 64 / 256 bytes, or (reads) with exactly 1..8, 19, 20, 21 bytes")

	cfg := "MC_IOFault_q.cfg"
	if ctx.Thorough() {
		cfg = "MC_IOFault_t.cfg"
	}
	var mcErr error
	var mcWG sync.WaitGroup
	mcWG.Add(1)
	go func() {
		defer mcWG.Done()
		_, mcErr = ctx.MustHold(core.TLCOpts{Dir: "fault", Module: "MC_IOFault", Cfg: cfg, Workers: ctx.Pick(6, 10),
			Constants: "see " + cfg + " and MC_IOFault.tla", Timeout: ctx.Dur(5, 20)})
	}()
	type opRow struct {
		Side string `json:"side"`
		Op   string `json:"op"`
		Ign  bool   `json:"ign"`
	}
	ops, _, err := core.GenCases[opRow](ctx, core.TLCOpts{Dir: "fault", Module: "Gen_IOFault", Cfg: "Gen_IOFault.cfg", Mode: "evaluate", Timeout: ctx.Dur(3, 5)})
	if err != nil {
		return err
	}

	st := &stats{sites: map[string]int{}, ignoredOK: map[string]int{}, ignoredEr: map[string]int{}, pairs: map[string]bool{}}
	var runs []readRun
	var specs []docSpec
	for di, sp := range docSpecs(ctx) {
		doc, err := makeDoc(sp)
		if err != nil {
			return err
		}
		specs = append(specs, sp)
		nr := 0
		modes := []pdf.ReaderErrorHandling{pdf.ErrorHandlingRecover, pdf.ErrorHandlingReport, pdf.ErrorHandlingStop}
		if sp.Special != "" {
			// these documents are about Get and the scan, not about NewReader's policy
			modes = []pdf.ReaderErrorHandling{pdf.ErrorHandlingRecover, pdf.ErrorHandlingStop}
		}
		for _, mode := range modes {
			rr, n, err := enumerateRead(ctx, sp, di, doc, mode, st)
			if err != nil {
				return err
			}
			nr += n
			runs = append(runs, rr...)
		}
		ctx.Logf("%s (seed %d): %d bytes; %d ReadAt calls over the modes; all positions x {failFrom, failOnly} x {no data, half, all but the last 16/64/256 bytes, exactly 1..8/19/20/21 bytes}", sp.Name, sp.Seed, len(doc.Bytes), nr)
	}
	for _, sp := range writeSpecs(ctx) {
		di := len(specs)
		specs = append(specs, sp)
		wr, nw, size, err := enumerateWrite(ctx, sp, di, st)
		if err != nil {
			return err
		}
		runs = append(runs, wr...)
		ctx.Logf("%s (seed %d): %d bytes; %d sink operations (Write/Seek); all positions x {failFrom, failOnly} x {nothing written, half, all but the last 16/64/256 bytes}", sp.Name, sp.Seed, size, nw)
	}

	// sinks the Writer owns (pdf.Create)
	{
		di := len(specs)
		specs = append(specs, docSpec{Name: "create:/dev/full"})
		own := ownedSinkRuns(ctx, di)
		runs = append(runs, own...)
		ctx.Logf("pdf.Create on /dev/full: %d sessions", len(own))
	}

	if err := judgeAndReport(ctx, runs, specs); err != nil {
		return err
	}
	mcWG.Wait()
	if mcErr != nil {
		return mcErr
	}
	for k := range st.pairs {
		ctx.Ev.Distinct(k)
	}
	seenOp := map[string]bool{}
	for k := range st.sites {
		parts := strings.SplitN(k, "|", 3)
		for _, o := range strings.Split(parts[1], "/") {
			seenOp[parts[0]+"/"+o] = true
		}
	}
	var missing []string
	for _, o := range ops {
		if o.Op == "opt" {
			continue // performs no read of its own
		}
		if !seenOp[o.Side+"/"+o.Op] {
			missing = append(missing, o.Side+"/"+o.Op)
		}
	}
	sort.Strings(missing)
	ctx.Ev.AddReplayed(st.runs)
	ctx.Ev.Set("fault_runs", st.runs)
	ctx.Ev.Set("fault_sites", st.sites)
	ctx.Ev.Set("model_operations", len(ops))
	if missing == nil {
		missing = []string{}
	}
	ctx.Ev.Set("model_operations_not_struck_by_a_real_fault", missing)
	ctx.Ev.Set("faults_at_error_ignoring_helpers_call_returned_ok", st.ignoredOK)
	ctx.Ev.Set("faults_at_error_ignoring_helpers_call_returned_error", st.ignoredEr)
	ctx.Ev.Exhaustive = hangs.Load() < maxHangs
	ctx.Ev.Set("runs_that_hung", int(hangs.Load()))
	ctx.Ev.Set("exhaustive_scope", "per generated document and scenario: every index k of a ReadAt / Write / Seek call, both plans, the failing operation delivering nothing, the first half, all but the last 16 / 64 / 256 bytes, or (reads) exactly 1..8, 19, 20, 21 bytes; the documents are seeded samples")
	return nil
}

func enumerateRead(ctx *core.Ctx, sp docSpec, di int, doc *shared.Doc, mode pdf.ReaderErrorHandling, st *stats) ([]readRun, int, error) {
	sc := &readScenario{doc: doc, mode: mode}
	base := &faultSrc{r: bytes.NewReader(doc.Bytes), plan: faultPlan{Plan: "none"}, err: &injected{"none"}, trace: true}
	baseOuts := sc.runRead(base)
	n := base.n
	for _, o := range baseOuts {
		if o.Cls != "ok" {
			return nil, 0, core.Infra("%s: fault-free %s fails in mode %s: %s", sp.Name, o.Call, modeNames[mode], o.msg)
		}
	}
	// which scenario call issues which ReadAt: replay the fault-free run and
	// count (the run is deterministic)
	callOf := callIndexOfReads(sc, doc, n)
	type job struct {
		plan faultPlan
	}
	var jobs []job
	for k := 1; k <= n+1; k++ { // n+1: a fault that is never reached
		for _, p := range []string{"failFrom", "failOnly"} {
			for _, fl := range readFlavours {
				jobs = append(jobs, job{faultPlan{p, k, fl.partial, fl.withhold, fl.deliver}})
			}
		}
	}
	out := make([]readRun, len(jobs))
	var skipped atomic.Int32
	var wg sync.WaitGroup
	sem := make(chan struct{}, 12)
	for ji, j := range jobs {
		wg.Add(1)
		sem <- struct{}{}
		go func(ji int, j job) {
			defer wg.Done()
			defer func() { <-sem }()
			src := &faultSrc{r: bytes.NewReader(doc.Bytes), plan: j.plan, err: &injected{fmt.Sprintf("%s/%d", j.plan.Plan, j.plan.K)}}
			if j.plan.Partial && hangs.Load() >= maxHangs {
				skipped.Add(1)
				return
			}
			outs := sc.runReadWatched(src, 6*time.Second)
			compare(baseOuts, outs)
			src.mu.Lock()
			attribute(outs, src.fails)
			src.mu.Unlock()
			rr := readRun{Side: "read", Doc: sp.Name, Mode: modeNames[mode], Plan: j.plan, Hit: src.hit, Calls: outs, Outs: []wOut{}, Count: 1, docIx: di}
			for fn := range src.also {
				rr.also = append(rr.also, fn)
			}
			if src.hit {
				rr.At, rr.Via = src.at.Fn, src.at.Via
				if j.plan.K <= len(callOf) {
					rr.In = callOf[j.plan.K-1]
				}
			}
			out[ji] = rr
		}(ji, j)
	}
	wg.Wait()
	if n := int(skipped.Load()); n > 0 {
		// drop the runs that were not made
		kept := out[:0]
		for _, rr := range out {
			if rr.Side != "" {
				kept = append(kept, rr)
			}
		}
		out = kept
		ctx.Logf("%s/%s: %d partial-data runs skipped after %d runs hung (their goroutines keep spinning)", sp.Name, modeNames[mode], n, hangs.Load())
		ctx.Ev.Add("partial_data_runs_skipped_after_hangs", int64(n))
		ctx.Ev.Exhaustive = false
	}
	ctx.Ev.Eval(len(out) + 1)
	st.mu.Lock()
	st.runs += len(out)
	for _, rr := range out {
		if !rr.Hit {
			continue
		}
		op := opOfSite("read", site{rr.At, rr.Via})
		st.sites["read|"+op+"|"+rr.At]++
		for _, fn := range rr.also {
			st.sites["read|"+opOfSite("read", site{Fn: fn})+"|"+fn+" (after the first failure)"]++
		}
		if op == "probe" || op == "trim" {
			// as coded these helpers ignore the error: did the call return one?
			erred := false
			for _, c := range rr.Calls {
				erred = erred || (c.Cls == "err" && c.Carries)
			}
			if rr.Plan.Plan == "failOnly" {
				if erred {
					st.ignoredEr[op]++
				} else {
					st.ignoredOK[op]++
				}
			}
		}
		for _, c := range rr.Calls {
			st.pairs[fmt.Sprintf("read/%s/%s/%s/%s/%s", rr.Mode, c.Call, rr.At, rr.Plan.Plan, outcomeClass(c))] = true
		}
	}
	st.mu.Unlock()
	if len(out) > 3 {
		ctx.Ev.Sample(map[string]any{"kind": "run of the real reader under one fault plan (judged by Trace_IOFault)", "run": out[len(out)/3]})
	}
	return out, n, nil
}

// callIndexOfReads tells, for each ReadAt of the fault-free run, which
// scenario call issued it ("open", "get#3", ...).
func callIndexOfReads(sc *readScenario, doc *shared.Doc, n int) []string {
	// run the scenario once more with a source that fails from k on, for a
	// bisecting sequence of k, would be exact but slow; instead count reads
	// per call by snapshotting the counter between calls
	src := &faultSrc{r: bytes.NewReader(doc.Bytes), plan: faultPlan{Plan: "none"}, err: &injected{"none"}}
	marks := []struct {
		name string
		upto int
	}{}
	snap := func(name string) {
		marks = append(marks, struct {
			name string
			upto int
		}{name, src.n})
	}
	func() {
		defer func() { recover() }()
		scanAll(src, int64(len(doc.Bytes)), src.err)
		snap("scan#0")
		r, err := pdf.NewReader(src, int64(len(doc.Bytes)), doc.ReaderOptions(sc.mode))
		snap("open#0")
		if err != nil {
			return
		}
		x := pdf.NewExtractor(r)
		for i := range doc.Objects {
			o := &doc.Objects[i]
			v, err := r.Get(o.Ref, true)
			snap(fmt.Sprintf("get#%d", i))
			if stm, ok := v.(*pdf.Stream); ok && err == nil {
				if rd, err := pdf.DecodeStream(r, nil, stm); err == nil {
					io.ReadAll(rd)
					rd.Close()
				}
				snap(fmt.Sprintf("decode#%d", i))
			}
			if wantsDecode(doc, i) {
				pdf.Decode(pdf.CursorAt(x, nil), o.Ref, deepDecode)
				snap(fmt.Sprintf("Decode#%d", i))
				pdf.Decode(pdf.CursorAt(x, nil), o.Ref, deepDecode)
				snap(fmt.Sprintf("DecodeAgain#%d", i))
			}
		}
	}()
	out := make([]string, 0, n)
	for _, m := range marks {
		for len(out) < m.upto {
			out = append(out, m.name)
		}
	}
	return out
}

func enumerateWrite(ctx *core.Ctx, sp docSpec, di int, st *stats) ([]readRun, int, int, error) {
	plan, err := shared.NewDocPlan(sp.Seed, sp.Opt)
	if err != nil {
		return nil, 0, 0, core.Infra("%v", err)
	}
	base := &faultSink{plan: faultPlan{Plan: "none"}, err: &injected{"none"}}
	bo, baseData := runWrite(plan, base)
	if bo[0].Cls != "ok" {
		return nil, 0, 0, core.Infra("%s: fault-free writing fails: %+v", sp.Name, bo)
	}
	n := base.n
	var out []readRun
	for k := 1; k <= n+1; k++ {
		for _, p := range []string{"failFrom", "failOnly"} {
			for _, fl := range writeFlavours {
				fs := &faultSink{plan: faultPlan{p, k, fl.partial, fl.withhold, 0}, err: &injected{fmt.Sprintf("%s/%d", p, k)}}
				outs, data := runWrite(plan, fs)
				rr := readRun{Side: "write", Doc: sp.Name, Mode: map[bool]string{true: "seekable", false: "non-seekable"}[sp.Opt.Seekable], Plan: fs.plan, Hit: fs.writeFailed, RHit: fs.readFailed,
					Same: sp.Opt.Encrypt || bytes.Equal(data, baseData), Calls: []callOut{}, Outs: outs, Count: 1, docIx: di}
				if fs.hit {
					rr.At, rr.Via = fs.at.Fn, fs.at.Via
				} else if !sp.Opt.Encrypt && !bytes.Equal(data, baseData) {
					return nil, 0, 0, core.Infra("%s: two fault-free Writer sessions produced different files", sp.Name)
				}
				out = append(out, rr)
			}
		}
	}
	ctx.Ev.Eval(len(out) + 1)
	st.mu.Lock()
	st.runs += len(out)
	for _, rr := range out {
		if rr.Hit || rr.RHit {
			st.sites["write|"+opOfSite("write", site{rr.At, rr.Via})+"|"+rr.At+"<"+rr.Via]++
			st.pairs[fmt.Sprintf("write/%s/%s/%s/%s/%s", rr.Mode, rr.Outs[0].Call, rr.At, rr.Plan.Plan, rr.Outs[0].Cls)] = true
		}
	}
	st.mu.Unlock()
	if len(out) > 3 {
		ctx.Ev.Sample(map[string]any{"kind": "Writer session under one sink fault plan (judged by Trace_IOFault)", "run": out[len(out)/2]})
	}
	return out, n, len(baseData), nil
}

// ownedSinkRuns: a Writer that owns its sink (pdf.Create) on a device where
// every write fails (/dev/full).  A small document stays in the Writer's
// buffer until Close, whose final flush is then the first and only failing
// write; larger ones fail earlier.  Some call, Close at the latest, must
// return the device's error.
func ownedSinkRuns(ctx *core.Ctx, di int) []readRun {
	if _, err := os.Stat("/dev/full"); err != nil {
		ctx.Ev.Assume("no /dev/full on this machine: sinks owned by the Writer (pdf.Create) are not covered")
		return nil
	}
	var out []readRun
	for k, n := range []int{0, 1, 5, 40, 400, 3000} {
		var outs []wOut
		func() {
			defer func() {
				if r := recover(); r != nil {
					outs = append(outs, wOut{Cls: "panic", Call: fmt.Sprint(r)})
				}
			}()
			mk := func(call string, err error) bool {
				if err != nil {
					outs = append(outs, wOut{Cls: "err", Carries: errors.Is(err, syscall.ENOSPC), Call: call})
					return false
				}
				return true
			}
			w, err := pdf.Create("/dev/full", []pdf.Version{pdf.V1_7, pdf.V1_4, pdf.V2_0}[k%3], nil)
			if !mk("Create", err) {
				return
			}
			pages := w.Alloc()
			if !mk("Put", w.Put(pages, pdf.Dict{"Type": pdf.Name("Pages"), "Kids": pdf.Array{}, "Count": pdf.Integer(0)})) {
				w.Close()
				return
			}
			w.GetMeta().Catalog.Pages = pages
			for i := 0; i < n; i++ {
				if !mk("Put", w.Put(w.Alloc(), pdf.Dict{"I": pdf.Integer(i), "S": pdf.String("some text to fill the buffer")})) {
					w.Close()
					return
				}
			}
			if mk("Close", w.Close()) {
				outs = append(outs, wOut{Cls: "ok", Call: "Close"})
			}
		}()
		out = append(out, readRun{Side: "write", Doc: fmt.Sprintf("create:/dev/full:%d-objects", n), Mode: "owned", Plan: faultPlan{Plan: "failFrom", K: 1}, Hit: true,
			Same: false, Calls: []callOut{}, Outs: outs, Count: 1, At: "os.(*File).Write", Via: "pdf.Create", docIx: di})
	}
	ctx.Ev.Eval(len(out))
	return out
}

func outcomeClass(c callOut) string {
	switch {
	case c.Cls == "hang":
		return "hangs"
	case c.digest == "panic":
		return "panic"
	case c.Cls == "ok" && c.Same:
		return "same"
	case c.Cls == "ok":
		return "ok-but-different"
	case c.Carries && !c.Malformed:
		return "io-error"
	case c.Carries:
		return "io-error-classified-malformed"
	case c.Same:
		return "same-error"
	case c.Malformed:
		return "malformed-error-not-carrying"
	}
	return "other-error-not-carrying"
}

// ---- judging ----

func judge(ctx *core.Ctx, runs []readRun) ([]int, error) {
	return core.JudgeCases(ctx, core.TLCOpts{Dir: "fault", Module: "Trace_IOFault", Cfg: "Trace_IOFault.cfg", Timeout: ctx.Dur(10, 30)}, runs, 1500, 12)
}

func runSig(r readRun) string {
	var b strings.Builder
	fmt.Fprintf(&b, "%s|%s|%s|%s|%v/%d/%d|%v%v%v|%s|%s|%s|", r.Side, r.Doc, r.Mode, r.Plan.Plan, r.Plan.Partial, r.Plan.Withhold, r.Plan.Deliver, r.Hit, r.RHit, r.Same, r.At, r.Via, r.In)
	for _, c := range r.Calls {
		fmt.Fprintf(&b, "%s%s%v%v%v,", c.Call, c.Cls, c.Same, c.Carries, c.Malformed)
	}
	for _, o := range r.Outs {
		fmt.Fprintf(&b, "%s%v%s,", o.Cls, o.Carries, o.Call)
	}
	return b.String()
}

func judgeAndReport(ctx *core.Ctx, runs []readRun, specs []docSpec) error {
	// identical observations (up to k) are judged once
	var uniq []readRun
	ix := map[string]int{}
	for _, r := range runs {
		s := runSig(r)
		if j, ok := ix[s]; ok {
			uniq[j].Count++
			continue
		}
		ix[s] = len(uniq)
		uniq = append(uniq, r)
	}
	ctx.Logf("%d runs, %d distinct observations", len(runs), len(uniq))
	bad, err := judge(ctx, uniq)
	if err != nil {
		return err
	}
	if len(bad) == 0 {
		return nil
	}
	// narrow rejected read runs down to the offending calls
	var singles []readRun
	for _, b := range bad {
		r := uniq[b]
		if r.Side == "write" || !r.Hit {
			singles = append(singles, r)
			continue
		}
		for _, c := range r.Calls {
			s := r
			s.Calls = []callOut{c}
			singles = append(singles, s)
		}
	}
	bad2, err := judge(ctx, singles)
	if err != nil {
		return err
	}
	if len(bad2) == 0 {
		return core.Infra("Trace_IOFault rejected %d runs but none of their calls", len(bad))
	}
	type agg struct {
		n            int
		first        readRun
		plain, plans map[string]bool
	}
	byKey := map[string]*agg{}
	for _, b := range bad2 {
		r := singles[b]
		k := violationKey(r)
		a := byKey[k]
		if a == nil {
			a = &agg{first: r, plain: map[string]bool{}, plans: map[string]bool{}}
			byKey[k] = a
		}
		a.n += r.Count
		a.plans[r.Plan.Plan] = true
		if !r.Plan.Partial {
			a.plain[r.Plan.Plan] = true
			if a.first.Plan.Partial {
				a.first = r
			}
		}
	}
	final := map[string]*agg{}
	for k, a := range byKey {
		if len(a.plain) == 0 && a.first.Side == "read" {
			k += "/only-when-data-comes-with-the-error"
		}
		final[k] = a
	}
	byKey = final
	for _, k := range core.SortedKeys(byKey) {
		a := byKey[k]
		sp := specs[a.first.docIx]
		ctx.Violation(k, describe(a.first)+fmt.Sprintf(" [%d runs share the key; document %s seed %d]", a.n, sp.Name, sp.Seed),
			map[string]any{"spec": sp, "side": a.first.Side, "mode": a.first.Mode, "plan": a.first.Plan})
	}
	return nil
}

func inKind(in string) string {
	if i := strings.Index(in, "#"); i >= 0 {
		return in[:i]
	}
	return in
}

// symptom names how a call misbehaved, in the words of the property.
func symptom(c callOut) string {
	switch outcomeClass(c) {
	case "ok-but-different":
		return "swallowed(ok-with-different-result)"
	case "malformed-error-not-carrying":
		return "blamed-on-the-file(malformed-error-without-the-source-error)"
	case "io-error-classified-malformed":
		return "source-error-classified-malformed"
	case "other-error-not-carrying":
		return "other-error-without-the-source-error"
	}
	return outcomeClass(c)
}

// violationKey names the root cause as far as it can be observed: the go-pdf
// function that issued the failed operation (with the landmark above it),
// the ReaderErrorHandling mode where NewReader is concerned, and the symptom.
// No offsets, no k, no messages, not the call in which the symptom showed.
func violationKey(r readRun) string {
	if r.Side == "write" {
		switch {
		case r.Hit && !(r.Outs[0].Cls == "err" && r.Outs[0].Carries):
			return fmt.Sprintf("write/%s/sink-failure-unreported/at=%s<%s", r.Mode, r.At, r.Via)
		case r.Outs[0].Cls == "ok" && !r.Same:
			return fmt.Sprintf("write/%s/different-file-without-error/at=%s<%s", r.Mode, r.At, r.Via)
		case r.RHit:
			return fmt.Sprintf("write/%s/read-back-failure-misreported/at=%s<%s", r.Mode, r.At, r.Via)
		}
		return "write/no-fault-but-error"
	}
	if !r.Hit {
		return "read/no-fault-but-different"
	}
	c := r.Calls[0]
	at, via, in := c.At, c.Via, c.In
	if at == "" {
		at, via, in = r.At, r.Via, r.In
	}
	where := at
	if via != "" {
		where += "<" + via
	}
	mode := ""
	if inKind(in) == "open" || c.Call == "open" {
		mode = "NewReader[" + r.Mode + "]"
	}
	if c.Cls == "hang" {
		// a call that never returns: named by the function that issued the failed read only
		return fmt.Sprintf("read/@%s/hangs", at)
	}
	return fmt.Sprintf("read/%s@%s/%s", mode, where, symptom(c))
}

func describe(r readRun) string {
	if r.Side == "write" {
		return fmt.Sprintf("Writer session on a %s sink, sink operation %d (%s, issued by %s<%s) fails: no Writer call up to Close returned an error carrying it (last call %s -> %s)",
			r.Mode, r.Plan.K, r.Plan.Plan, r.At, r.Via, r.Outs[0].Call, r.Outs[0].Cls)
	}
	c := r.Calls[0]
	s := fmt.Sprintf("mode %s, plan %s(%d) data-with-error=%v withheld-tail=%d delivered=%d (first failing ReadAt issued by %s", r.Mode, r.Plan.Plan, r.Plan.K, r.Plan.Partial, r.Plan.Withhold, r.Plan.Deliver, r.At)
	if r.Via != "" {
		s += " under " + r.Via
	}
	s += fmt.Sprintf(" during %s", r.In)
	if c.At != "" && (c.At != r.At || c.In != r.In) {
		s += fmt.Sprintf("; the one attributed to this call by %s during %s", c.At, c.In)
	}
	s += fmt.Sprintf("): %s -> %s", c.ID, outcomeClass(c))
	if c.msg != "" {
		s += " (" + c.msg + ")"
	}
	return s
}

func replay(ctx *core.Ctx, raw json.RawMessage) error {
	var c struct {
		Spec docSpec   `json:"spec"`
		Side string    `json:"side"`
		Mode string    `json:"mode"`
		Plan faultPlan `json:"plan"`
	}
	if err := json.Unmarshal(raw, &c); err != nil {
		return core.Infra("replay: %v", err)
	}
	st := &stats{sites: map[string]int{}, ignoredOK: map[string]int{}, ignoredEr: map[string]int{}, pairs: map[string]bool{}}
	var runs []readRun
	if c.Side == "write" {
		wr, _, _, err := enumerateWrite(ctx, c.Spec, 0, st)
		if err != nil {
			return err
		}
		runs = wr
	} else {
		doc, err := makeDoc(c.Spec)
		if err != nil {
			return err
		}
		for m, name := range modeNames {
			if name == c.Mode {
				rr, _, err := enumerateRead(ctx, c.Spec, 0, doc, m, st)
				if err != nil {
					return err
				}
				runs = rr
			}
		}
	}
	var sel []readRun
	for _, r := range runs {
		if r.Plan == c.Plan {
			sel = append(sel, r)
		}
	}
	if len(sel) == 0 {
		return core.Infra("replay: plan %+v not reachable on the regenerated document", c.Plan)
	}
	for _, r := range sel {
		for _, o := range r.Calls {
			if !o.Same {
				fmt.Printf("  %s -> %s %s\n", o.Call, outcomeClass(o), o.msg)
			}
		}
	}
	return judgeAndReport(ctx, sel, []docSpec{c.Spec})
}
