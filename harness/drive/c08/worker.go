package c08

// worker.go: cases that may bring the whole process down (a panic on a helper
// goroutine of the library cannot be recovered by the caller) are measured in
// a worker subprocess: the driver binary started again with
// VERIF_C08_WORKER=1.  The worker reads one case per line (JSON) on stdin,
// measures it exactly like the driver does (strictly one at a time) and
// answers with the record.  If the worker dies while a case is in flight, the
// outcome of that case is "crash" -- a verdict on the library -- and a fresh
// worker serves the following cases.

import (
	"bufio"
	"bytes"
	"encoding/json"
	"os"
	"os/exec"
	"strings"
	"sync"
	"time"
)

type workerReq struct {
	Case    *Case `json:"case"`
	Isolate bool  `json:"isolate"`
}

// Worker is the main function of the subprocess.
func Worker() {
	in := bufio.NewReaderSize(os.Stdin, 1<<20)
	out := bufio.NewWriter(os.Stdout)
	for {
		line, err := in.ReadBytes('\n')
		if len(bytes.TrimSpace(line)) > 0 {
			var req workerReq
			if jerr := json.Unmarshal(line, &req); jerr != nil || req.Case == nil {
				os.Exit(3)
			}
			rec := measure(req.Case, false, req.Isolate)
			b, _ := json.Marshal(rec)
			out.Write(b)
			out.WriteByte('\n')
			out.Flush()
		}
		if err != nil {
			return
		}
	}
}

type worker struct {
	cmd    *exec.Cmd
	in     *bufio.Writer
	inPipe interface{ Close() error }
	out    *bufio.Reader
	errBuf *tailBuffer
}

// tailBuffer keeps the first bytes written to it (the panic message).
type tailBuffer struct {
	mu sync.Mutex
	b  []byte
}

func (t *tailBuffer) Write(p []byte) (int, error) {
	t.mu.Lock()
	if len(t.b) < 4096 {
		t.b = append(t.b, p...)
	}
	t.mu.Unlock()
	return len(p), nil
}

func (t *tailBuffer) firstLines() string {
	t.mu.Lock()
	defer t.mu.Unlock()
	lines := strings.Split(string(t.b), "\n")
	var keep []string
	for _, l := range lines {
		l = strings.TrimSpace(l)
		if l == "" {
			continue
		}
		keep = append(keep, l)
		if len(keep) == 2 {
			break
		}
	}
	return strings.Join(keep, " | ")
}

var (
	workerMu  sync.Mutex
	theWorker *worker
)

func startWorker() (*worker, error) {
	exe, err := os.Executable()
	if err != nil {
		return nil, err
	}
	cmd := exec.Command(exe)
	cmd.Env = append(os.Environ(), "VERIF_C08_WORKER=1")
	stdin, err := cmd.StdinPipe()
	if err != nil {
		return nil, err
	}
	stdout, err := cmd.StdoutPipe()
	if err != nil {
		return nil, err
	}
	w := &worker{cmd: cmd, in: bufio.NewWriter(stdin), inPipe: stdin, out: bufio.NewReaderSize(stdout, 1<<20), errBuf: &tailBuffer{}}
	cmd.Stderr = w.errBuf
	if err := cmd.Start(); err != nil {
		return nil, err
	}
	return w, nil
}

func (w *worker) stop() {
	w.inPipe.Close()
	done := make(chan struct{})
	go func() { w.cmd.Wait(); close(done) }()
	select {
	case <-done:
	case <-time.After(5 * time.Second):
		w.cmd.Process.Kill()
		<-done
	}
}

// stopWorker ends the worker subprocess (at the end of a run).
func stopWorker() {
	workerMu.Lock()
	defer workerMu.Unlock()
	if theWorker != nil {
		theWorker.stop()
		theWorker = nil
	}
}

// measureInWorker measures the case in the worker subprocess.  infra is set
// when the machinery itself failed (no verdict).
func measureInWorker(c *Case, isolate bool) (rec Rec, infra error) {
	workerMu.Lock()
	defer workerMu.Unlock()
	if theWorker == nil {
		w, err := startWorker()
		if err != nil {
			return Rec{}, err
		}
		theWorker = w
	}
	w := theWorker
	cc := *c
	if cc.BodyGen == "" && cc.BodyHex == "" {
		cc.BodyHex = hexOf(c.Body())
	}
	line, err := json.Marshal(workerReq{Case: &cc, Isolate: isolate})
	if err != nil {
		return Rec{}, err
	}
	w.in.Write(line)
	w.in.WriteByte('\n')
	werr := w.in.Flush()
	type answer struct {
		b   []byte
		err error
	}
	ans := make(chan answer, 1)
	go func() {
		b, err := w.out.ReadBytes('\n')
		ans <- answer{b, err}
	}()
	var a answer
	select {
	case a = <-ans:
	case <-time.After(3 * time.Minute): // the worker has its own watchdog (2 x 20 s): this is a dead worker
		w.cmd.Process.Kill()
		a = <-ans
	}
	if werr == nil && a.err == nil {
		if jerr := json.Unmarshal(a.b, &rec); jerr == nil {
			return rec, nil
		}
	}
	// the worker is gone: the case in flight took the process down
	w.cmd.Wait()
	theWorker = nil
	note := w.errBuf.firstLines()
	if note == "" {
		note = "worker process ended without an answer"
	}
	return Rec{Outcome: "crash", RawLen: len(c.Body()), Class: c.Class, CapBytes: capFor(c), Note: "the process died: " + note}, nil
}

// measureAny dispatches between the driver process and the worker.
func measureAny(c *Case, keep, isolate bool) (Rec, error) {
	if c.Sub {
		return measureInWorker(c, isolate)
	}
	return measure(c, keep, isolate), nil
}
