package c08

import (
	"bytes"
	"compress/zlib"
	"encoding/hex"
	"encoding/json"
	"fmt"
	"image"
	"image/color"
	"image/jpeg"
	"io"
	"math/rand"
	"sort"
	"strconv"
	"strings"
	"sync"

	"seehuhn.de/go/pdf"

	"verif/harness/core"
	"verif/harness/drive/c06"
	"verif/harness/indep/codecs"
)

func unhex(s string) []byte {
	b, _ := hex.DecodeString(s)
	if b == nil {
		b = []byte{}
	}
	return b
}

func hexOf(b []byte) string { return hex.EncodeToString(b) }

func sortedKeys[V any](m map[string]V) []string {
	keys := make([]string, 0, len(m))
	for k := range m {
		keys = append(keys, k)
	}
	sort.Strings(keys)
	return keys
}

func zlibOf(b []byte) []byte {
	var buf bytes.Buffer
	w := zlib.NewWriter(&buf)
	w.Write(b)
	w.Close()
	return buf.Bytes()
}

// genBody regenerates the large bodies of bombs: "kind:N[:M]".
func genBody(spec string) []byte {
	f := strings.Split(spec, ":")
	n, _ := strconv.Atoi(f[1])
	switch f[0] {
	case "flate-zeros": // zlib stream of n zero bytes
		return zlibOf(make([]byte, n))
	case "flate2-zeros": // compressed twice
		return zlibOf(zlibOf(make([]byte, n)))
	case "lzw-zeros":
		return codecs.LZWEncode(make([]byte, n), 1, 0)
	case "rl-repeats": // n repeat runs of 128 bytes, then EOD
		b := bytes.Repeat([]byte{129, 0}, n)
		return append(b, 128)
	case "a85-z":
		return append(bytes.Repeat([]byte{'z'}, n), '~', '>')
	case "flate-ones":
		return zlibOf(bytes.Repeat([]byte{0xff}, n))
	case "ones": // n bytes 0xFF (Group 4: every 1 bit is a whole row copied from above)
		return bytes.Repeat([]byte{0xff}, n)
	case "zeros":
		return make([]byte, n)
	case "hex-nested": // n levels of ASCIIHex around "data"
		b := []byte("data")
		for i := 0; i < n; i++ {
			b = codecs.ASCIIHexEncode(b)
		}
		return b
	case "jpeg-flat": // n x n grey image of constant value 0x45 ('E'; neighbours are hex digits too)
		return jpegOf(n, n, 0x45)
	case "jpeg-white": // n x n white image: the pixels (0xff) are no valid LZW, hex or ASCII85 data
		return jpegOf(n, n, 0xff)
	case "jpeg-min": // minimal baseline JPEG of n x n grey pixels: two bits per 8x8 block (n a multiple of 8)
		return jpegMin(n)
	case "flate-jpeg-min":
		return zlibOf(jpegMin(n))
	case "hex-jpeg-min":
		return codecs.ASCIIHexEncode(jpegMin(n))
	case "jpeg-padded": // n COM segments of 64 KiB, then a progressive frame of f[2] x f[2] pixels, f[3] components
		dim, _ := strconv.Atoi(f[2])
		comps, _ := strconv.Atoi(f[3])
		return jpegPadded(n, dim, comps)
	case "jpeg-claim": // a small JPEG whose frame header claims 65535 x 65535
		b := jpegOf(16, 16, 0x80)
		if i := bytes.Index(b, []byte{0xff, 0xc0}); i >= 0 {
			b[i+5], b[i+6], b[i+7], b[i+8] = 0xff, 0xff, 0xff, 0xff
		}
		return b
	case "jbig2-claim": // page information segment claiming 65535 x 65535, then end of page
		page := []byte{0, 0, 0, 0, 48, 0, 1, 0, 0, 0, 19,
			0, 0, 0xff, 0xff, 0, 0, 0xff, 0xff, 0, 0, 0, 0, 0, 0, 0, 0, 0, 0, 0}
		end := []byte{0, 0, 0, 1, 49, 0, 1, 0, 0, 0, 0}
		return append(page, end...)
	}
	panic("c08: unknown body generator " + spec)
}

func jpegOf(w, h int, v uint8) []byte {
	img := image.NewGray(image.Rect(0, 0, w, h))
	for i := range img.Pix {
		img.Pix[i] = v
	}
	_ = color.Gray{}
	var buf bytes.Buffer
	jpeg.Encode(&buf, img, &jpeg.Options{Quality: 90})
	return buf.Bytes()
}

// ---------------------------------------------------------------------------
// (a) type-confused parameter dictionaries

type dictLine struct {
	Name  string   `json:"name"`
	Dict  c06.Dict `json:"dict"`
	Clamp c06.P    `json:"clamp"`
}

func genHostile[T any](ctx *core.Ctx, part string, maxLen int) ([]T, error) {
	tier := "q"
	if ctx.Thorough() {
		tier = "t"
	}
	shards := 1
	if part == "bodies" {
		shards = ctx.Pick(4, 12)
	}
	var (
		mu    sync.Mutex
		all   []T
		first error
		wg    sync.WaitGroup
	)
	for sh := 0; sh < shards; sh++ {
		wg.Add(1)
		go func(sh int) {
			defer wg.Done()
			cfg := fmt.Sprintf("INIT Init\nNEXT Next\nCONSTANTS\n  PART = \"%s\"\n  TIER = \"%s\"\n  MaxLen = %d\n  Shard = %d\n  Shards = %d\nCHECK_DEADLOCK FALSE\n",
				part, tier, maxLen, sh, shards)
			ls, _, err := core.GenCases[T](ctx, core.TLCOpts{Dir: "filter", Module: "Gen_Hostile", CfgText: cfg, Mode: "evaluate", XssMB: 1024,
				Timeout: ctx.Dur(6, 25), Quiet: sh > 0})
			mu.Lock()
			defer mu.Unlock()
			if err != nil && first == nil {
				first = err
			}
			all = append(all, ls...)
		}(sh)
	}
	wg.Wait()
	if first != nil {
		return nil, first
	}
	if len(all) == 0 {
		return nil, core.Infra("Gen_Hostile (%s) produced nothing", part)
	}
	// a fixed order, whatever the shards' finishing order
	sort.SliceStable(all, func(i, j int) bool {
		a, _ := json.Marshal(all[i])
		b, _ := json.Marshal(all[j])
		return string(a) < string(b)
	})
	ctx.Ev.AddReplayed(len(all))
	return all, nil
}

type nopWC struct{ io.Writer }

func (nopWC) Close() error { return nil }

// dictCases checks the clamp of every dictionary on the real MakeFilter and
// builds the decoding cases.  drift lists disagreements with the model.
func dictCases(ctx *core.Ctx) (cases []*Case, drift []string, err error) {
	lines, err := genHostile[dictLine](ctx, "dicts", 0)
	if err != nil {
		return nil, nil, err
	}
	r := ctx.Rand("dicts")
	for _, l := range lines {
		f, merr := pdf.MakeFilter(pdf.Name(l.Name), c06.ToDict(l.Dict))
		ctx.Ev.Eval(1)
		if merr != nil {
			drift = append(drift, fmt.Sprintf("MakeFilter(%s, %v) fails: %v", l.Name, l.Dict, merr))
			continue
		}
		got, _ := c06.FromFilter(f)
		if got != l.Clamp {
			drift = append(drift, fmt.Sprintf("MakeFilter(%s, %s): model %s, code %s", l.Name, valString(dictVal(l.Dict)), l.Clamp, got))
		}
		// a body the clamped filter itself would write, when it can, else noise
		var body []byte
		row := got.RowBytes()
		if row <= 4096 {
			var buf bytes.Buffer
			if w, eerr := f.Encode(pdf.V1_7, nopWC{&buf}); eerr == nil {
				d := c06.GenFor(r, got, "random", row*(1+r.Intn(3)))
				if _, werr := w.Write(d); werr == nil && w.Close() == nil {
					body = buf.Bytes()
				}
			}
		}
		if body == nil || r.Intn(4) == 0 {
			body = c06.GenBytes(r, []string{"random", "zero", "equal"}[r.Intn(3)], 1+r.Intn(200))
		}
		cases = append(cases, &Case{Class: "parms/" + l.Name, Filter: nm(l.Name), Parms: dictVal(l.Dict), body: body})
	}
	return cases, drift, nil
}

// ---------------------------------------------------------------------------
// (b) hostile bodies of the five specified formats

type bodyLine struct {
	Fmt   string `json:"fmt"`
	Early int    `json:"early"`
	Body  []int  `json:"body"`
	St    string `json:"st"`
	Data  []int  `json:"data"`
}

func toBytes(v []int) []byte {
	b := make([]byte, len(v))
	for i, x := range v {
		b[i] = byte(x)
	}
	return b
}

func bodyCases(ctx *core.Ctx) ([]*Case, []bodyLine, error) {
	lines, err := genHostile[bodyLine](ctx, "bodies", ctx.Pick(4, 5))
	if err != nil {
		return nil, nil, err
	}
	var cases []*Case
	for _, l := range lines {
		c := &Case{Class: "body/" + l.Fmt, Parms: none, body: toBytes(l.Body)}
		switch l.Fmt {
		case "rl":
			c.Filter = nm("RunLengthDecode")
		case "ah":
			c.Filter = nm("ASCIIHexDecode")
		case "a85":
			c.Filter = nm("ASCII85Decode")
		case "lzw":
			c.Filter = nm("LZWDecode")
			c.Parms = dictVal(c06.Dict{"EarlyChange": intVal(int64(l.Early))})
		case "pr": // the hostile bytes are what the predictor sees: wrap them in a valid zlib stream
			c.Filter = nm("FlateDecode")
			c.Parms = dictVal(c06.Dict{"Predictor": intVal(12), "Columns": intVal(2)})
			c.body = zlibOf(c.body)
		}
		cases = append(cases, c)
	}
	return cases, lines, nil
}

// ---------------------------------------------------------------------------
// structure: /Filter and /DecodeParms of any type

func structureCases() []*Case {
	fl := nm("FlateDecode")
	a85 := nm("ASCII85Decode")
	pd := dictVal(c06.Dict{"Predictor": intVal(12), "Columns": intVal(3)})
	filters := map[string]c06.Val{
		"absent": none, "name": fl, "unknown-name": nm("FooDecode"), "int": intVal(5), "dict": dictVal(nil),
		"array1": arr(fl), "array-with-int": arr(fl, intVal(5)), "array-with-null": arr(fl, c06.Val{T: "null"}),
		"array-empty": arr(), "array-nested": arr(arr(fl)),
		"array8": arr(a85, a85, a85, a85, a85, a85, a85, a85), "array9": arr(a85, a85, a85, a85, a85, a85, a85, a85, a85),
		"crypt-not-first": arr(fl, nm("Crypt")), "crypt-first": arr(nm("Crypt"), fl), "jpx": nm("JPXDecode"),
	}
	parms := map[string]c06.Val{
		"absent": none, "null": {T: "null"}, "dict": pd, "int": intVal(7), "name": nm("X"), "string": {T: "string", S: "x"},
		"array-dict": arr(pd), "array-int": arr(intVal(1)), "array-long": arr(pd, pd, pd), "array-null": arr(c06.Val{T: "null"}),
		"array-empty": arr(), "crypt-name-int": dictVal(c06.Dict{"Name": intVal(1)}),
	}
	body := zlibOf([]byte("abcdefghi"))
	var cases []*Case
	for _, fk := range sortedKeys(filters) {
		for _, pk := range sortedKeys(parms) {
			cases = append(cases, &Case{Class: fmt.Sprintf("structure/Filter=%s/DecodeParms=%s", shape(filters[fk], "name"), shape(parms[pk], "dict")),
				Note: fk + " + " + pk, Filter: filters[fk], Parms: parms[pk], body: body})
		}
	}
	return cases
}

// shape is the class of a /Filter or /DecodeParms value in violation keys:
// absent, null, the element type good for this key, "scalar" for any other
// non-container type, array (all elements good or null) or array-bad-element.
func shape(v c06.Val, good string) string {
	switch v.T {
	case "none":
		return "absent"
	case "null", good:
		return v.T
	case "array":
		for _, e := range v.A {
			if e.T != good && !(good == "dict" && e.T == "null") {
				return "array-bad-element"
			}
		}
		return "array"
	case "dict":
		return "dict"
	}
	return "scalar"
}

// ---------------------------------------------------------------------------
// mutations of valid encodings

type chainSpec struct {
	name    string
	filters []c06.P // OpenStream order (outermost first)
}

func mutationChains() []chainSpec {
	flp := func(kind string, pred, colors, bpc, cols int, obo bool) c06.P {
		return c06.P{Kind: kind, Pred: pred, Colors: colors, Bpc: bpc, Cols: cols, Obo: obo}
	}
	return []chainSpec{
		{"Flate", []c06.P{flp("Flate", 0, 0, 0, 0, false)}},
		{"Flate.png", []c06.P{flp("Flate", 15, 3, 8, 5, false)}},
		{"Flate.tiff", []c06.P{flp("Flate", 2, 3, 4, 5, false)}},
		{"LZW.e0", []c06.P{flp("LZW", 0, 0, 0, 0, false)}},
		{"LZW.e1", []c06.P{flp("LZW", 0, 0, 0, 0, true)}},
		{"LZW.png", []c06.P{flp("LZW", 12, 1, 16, 3, true)}},
		{"ASCII85", []c06.P{{Kind: "ASCII85"}}},
		{"ASCIIHex", []c06.P{{Kind: "ASCIIHex"}}},
		{"RunLength", []c06.P{{Kind: "RunLength"}}},
		{"CCITT.g4", []c06.P{{Kind: "CCITT", K: -1, Cols: 64}}},
		{"CCITT.g4.align.rows", []c06.P{{Kind: "CCITT", K: -1, Cols: 33, Align: true, Rows: 8}}},
		{"CCITT.g3", []c06.P{{Kind: "CCITT", K: 0, Cols: 64, Eol: true}}},
		{"CCITT.g3.2d", []c06.P{{Kind: "CCITT", K: 4, Cols: 200, Eol: true, Black: true}}},
		{"CCITT.g3.noeob", []c06.P{{Kind: "CCITT", K: 0, Cols: 17, Ieob: true, Rows: 8}}},
		{"ASCII85|Flate", []c06.P{{Kind: "ASCII85"}, flp("Flate", 12, 1, 8, 7, false)}},
		{"ASCIIHex|LZW|RunLength", []c06.P{{Kind: "ASCIIHex"}, flp("LZW", 0, 0, 0, 0, true), {Kind: "RunLength"}}},
		{"Flate|CCITT", []c06.P{flp("Flate", 0, 0, 0, 0, false), {Kind: "CCITT", K: -1, Cols: 16}}},
	}
}

func encodeChain(ps []c06.P, data []byte) ([]byte, c06.Val, c06.Val, bool) {
	var buf bytes.Buffer
	var w io.WriteCloser = nopWC{&buf}
	var names, parms []c06.Val
	for _, p := range ps {
		f := p.Filter()
		ww, err := f.Encode(pdf.V1_7, w)
		if err != nil {
			return nil, none, none, false
		}
		w = ww
		n, d, _ := f.Info(pdf.V1_7)
		names = append(names, nm(string(n)))
		if len(d) > 0 {
			parms = append(parms, dictVal(c06.FromDict(d)))
		} else {
			parms = append(parms, c06.Val{T: "null"})
		}
	}
	if _, err := w.Write(data); err != nil {
		return nil, none, none, false
	}
	if err := w.Close(); err != nil {
		return nil, none, none, false
	}
	if len(ps) == 1 {
		p := parms[0]
		if p.T == "null" {
			p = none
		}
		return buf.Bytes(), names[0], p, true
	}
	return buf.Bytes(), arr(names...), arr(parms...), true
}

func mutate(r *rand.Rand, b []byte) []byte {
	out := append([]byte(nil), b...)
	n := 1 + r.Intn(3)
	for k := 0; k < n; k++ {
		if len(out) == 0 {
			return []byte{byte(r.Intn(256))}
		}
		i := r.Intn(len(out))
		switch r.Intn(8) {
		case 0:
			out[i] ^= 1 << r.Intn(8)
		case 1:
			out[i] = byte(r.Intn(256))
		case 2:
			out = out[:i]
		case 3:
			out = append(out[:i], append([]byte{byte(r.Intn(256))}, out[i:]...)...)
		case 4:
			out = append(out[:i], out[i+1:]...)
		case 5:
			j := i + r.Intn(len(out)-i)
			out = append(out[:j], append(append([]byte(nil), out[i:j]...), out[j:]...)...)
		case 6:
			for j := i; j < len(out) && j < i+8; j++ {
				out[j] = 0
			}
		case 7:
			for j := i; j < len(out) && j < i+8; j++ {
				out[j] = 0xff
			}
		}
	}
	return out
}

func mutationCases(ctx *core.Ctx) []*Case {
	r := ctx.Rand("mutations")
	var cases []*Case
	per := ctx.Pick(150, 1500)
	for _, ch := range mutationChains() {
		last := ch.filters[len(ch.filters)-1]
		row := last.RowBytes()
		for k := 0; k < per; k++ {
			total := c06.PickLength(r, row, 3000)
			if last.Kind == "CCITT" && last.Rows > 0 {
				total = last.Rows * row
			}
			data := c06.GenFor(r, last, c06.DataKinds[r.Intn(len(c06.DataKinds))], total)
			enc, fv, pv, ok := encodeChain(ch.filters, data)
			if !ok {
				continue
			}
			c := &Case{Class: "mutation/" + ch.name, Filter: fv, Parms: pv, body: mutate(r, enc)}
			if k%10 == 0 {
				c.body = enc // the unmutated encoding as well
			}
			if k%7 == 3 {
				c.Abandon = 1 + r.Intn(64)
			}
			cases = append(cases, c)
		}
	}
	// DCT: mutations of real JPEGs
	for k := 0; k < per; k++ {
		b := jpegOf(8+r.Intn(40), 8+r.Intn(40), uint8(r.Intn(256)))
		c := &Case{Class: "mutation/DCT", Filter: nm("DCTDecode"), Parms: none, body: mutate(r, b)}
		if k%5 == 0 {
			c.Abandon = 1 + r.Intn(64)
		}
		cases = append(cases, c)
	}
	// JBIG2: noise after a plausible segment header
	for k := 0; k < per/2; k++ {
		b := genBody("jbig2-claim:0")
		b[14], b[13], b[18], b[17] = byte(1+r.Intn(64)), 0, byte(1+r.Intn(64)), 0
		cases = append(cases, &Case{Class: "mutation/JBIG2", Filter: nm("JBIG2Decode"), Parms: none, body: mutate(r, b)})
	}
	return cases
}

// ---------------------------------------------------------------------------
// bombs, deep chains, early Close

func ccParms(k, cols, rows int64) c06.Val {
	return dictVal(c06.Dict{"K": intVal(k), "Columns": intVal(cols), "Rows": intVal(rows)})
}

func bombCases(ctx *core.Ctx) []*Case {
	big := ctx.Pick(8<<20, 64<<20)
	fl := nm("FlateDecode")
	cols20 := dictVal(c06.Dict{"Columns": intVal(1 << 20), "K": intVal(-1)})
	hex8 := make([]c06.Val, 8)
	for i := range hex8 {
		hex8[i] = nm("ASCIIHexDecode")
	}
	cases := []*Case{
		{Class: "bomb/flate-zeros", Filter: fl, Parms: none, BodyGen: fmt.Sprintf("flate-zeros:%d", big)},
		{Class: "bomb/flate-flate-zeros", Filter: arr(fl, fl), Parms: none, BodyGen: fmt.Sprintf("flate2-zeros:%d", big)},
		{Class: "bomb/flate-zeros-png-predictor", Filter: fl, Parms: dictVal(c06.Dict{"Predictor": intVal(12), "Columns": intVal(1 << 20), "Colors": intVal(4)}),
			BodyGen: fmt.Sprintf("flate-zeros:%d", big)},
		{Class: "bomb/flate-zeros-huge-row", Filter: fl, Parms: dictVal(c06.Dict{"Predictor": intVal(2), "Columns": intVal(1 << 20), "Colors": intVal(1 << 30), "BitsPerComponent": intVal(16)}),
			BodyGen: "flate-zeros:100000"},
		{Class: "bomb/lzw-zeros", Filter: nm("LZWDecode"), Parms: none, BodyGen: fmt.Sprintf("lzw-zeros:%d", big/4)},
		{Class: "bomb/runlength-repeats", Filter: nm("RunLengthDecode"), Parms: none, BodyGen: fmt.Sprintf("rl-repeats:%d", big/256)},
		{Class: "bomb/ascii85-z", Filter: nm("ASCII85Decode"), Parms: none, BodyGen: fmt.Sprintf("a85-z:%d", big/16)},
		{Class: "bomb/ccitt-g4-columns-2^20-no-rows", Filter: nm("CCITTFaxDecode"), Parms: cols20, BodyGen: "ones:4096"},
		{Class: "bomb/ccitt-g4-columns-2^20-zeros", Filter: nm("CCITTFaxDecode"), Parms: cols20, BodyGen: "zeros:4096"},
		{Class: "bomb/ccitt-g3-columns-2^20", Filter: nm("CCITTFaxDecode"), Parms: dictVal(c06.Dict{"Columns": intVal(1 << 20)}), BodyGen: "ones:4096"},
		{Class: "bomb/ccitt-g4-narrow-no-rows", Filter: nm("CCITTFaxDecode"), Parms: dictVal(c06.Dict{"Columns": intVal(8), "K": intVal(-1)}), BodyGen: "ones:200000"},
		{Class: "bomb/ccitt-after-flate", Filter: arr(fl, nm("CCITTFaxDecode")), Parms: arr(c06.Val{T: "null"}, cols20), BodyGen: "flate-zeros:100000"},
		{Class: "bomb/jpeg-claims-65535x65535", Filter: nm("DCTDecode"), Parms: none, BodyGen: "jpeg-claim:0"},
		{Class: "bomb/jbig2-claims-65535x65535", Filter: nm("JBIG2Decode"), Parms: none, BodyGen: "jbig2-claim:0"},
		{Class: "chain/8-deep", Filter: arr(hex8...), Parms: none, BodyGen: "hex-nested:8"},
		{Class: "chain/9-deep", Filter: arr(append(hex8, nm("ASCIIHexDecode"))...), Parms: none, BodyGen: "hex-nested:9"},
		// a declared /Rows must not lift the geometric bound: huge, and just
		// above / below min(65536, 128 Mi / Columns)
		{Class: "bomb/ccitt-g4-columns-2^20-rows-2^20", Filter: nm("CCITTFaxDecode"), Parms: ccParms(-1, 1<<20, 1<<20), BodyGen: "ones:2048"},
		{Class: "bomb/ccitt-g4-columns-2^20-rows-129", Filter: nm("CCITTFaxDecode"), Parms: ccParms(-1, 1<<20, 129), BodyGen: "ones:2048"},
		{Class: "bomb/ccitt-g4-columns-2^20-rows-128", Filter: nm("CCITTFaxDecode"), Parms: ccParms(-1, 1<<20, 128), BodyGen: "ones:2048"},
		{Class: "bomb/ccitt-g4-columns-2^20-rows-127", Filter: nm("CCITTFaxDecode"), Parms: ccParms(-1, 1<<20, 127), BodyGen: "ones:2048"},
		{Class: "bomb/ccitt-g4-columns-8-rows-2^20", Filter: nm("CCITTFaxDecode"), Parms: ccParms(-1, 8, 1<<20), BodyGen: "ones:20000"},
		{Class: "bomb/ccitt-g4-columns-8-rows-65537", Filter: nm("CCITTFaxDecode"), Parms: ccParms(-1, 8, 65537), BodyGen: "ones:20000"},
		{Class: "bomb/ccitt-g4-columns-8-rows-65536", Filter: nm("CCITTFaxDecode"), Parms: ccParms(-1, 8, 65536), BodyGen: "ones:20000"},
		{Class: "bomb/ccitt-g4-columns-4096-rows-2^20", Filter: nm("CCITTFaxDecode"), Parms: ccParms(-1, 4096, 1<<20), BodyGen: "ones:20000"},
		{Class: "bomb/ccitt-g3-columns-2^20-rows-2^20", Filter: nm("CCITTFaxDecode"), Parms: ccParms(0, 1<<20, 1<<20), BodyGen: "ones:2048"},
		{Class: "bomb/ccitt-g32d-columns-2^20-rows-2^20", Filter: nm("CCITTFaxDecode"), Parms: ccParms(4, 1<<20, 1<<20), BodyGen: "ones:2048"},
		{Class: "bomb/ccitt-after-flate-rows-2^20", Filter: arr(fl, nm("CCITTFaxDecode")), Parms: arr(c06.Val{T: "null"}, ccParms(-1, 1<<20, 1<<20)), BodyGen: "flate-ones:100000"},
		// early Close
		{Class: "abandon/flate-zeros", Filter: fl, Parms: none, BodyGen: fmt.Sprintf("flate-zeros:%d", big), Abandon: 1000},
		{Class: "abandon/dct", Filter: nm("DCTDecode"), Parms: none, BodyGen: "jpeg-flat:256", Abandon: 100},
		{Class: "abandon/asciihex-then-dct", Filter: arr(nm("ASCIIHexDecode"), nm("DCTDecode")), Parms: none, body: codecs.ASCIIHexEncode(genBody("jpeg-flat:256")), Abandon: 100},
		{Class: "abandon/dct-then-asciihex", Filter: arr(nm("DCTDecode"), nm("ASCIIHexDecode")), Parms: none, BodyGen: "jpeg-flat:256", Abandon: 100},
		{Class: "abandon/dct-then-runlength", Filter: arr(nm("DCTDecode"), nm("RunLengthDecode")), Parms: none, BodyGen: "jpeg-flat:256", Abandon: 100},
		{Class: "abandon/dct-then-flate-error", Filter: arr(nm("DCTDecode"), fl), Parms: none, BodyGen: "jpeg-flat:256"},
		{Class: "full/dct-then-asciihex", Filter: arr(nm("DCTDecode"), nm("ASCIIHexDecode")), Parms: none, BodyGen: "jpeg-flat:64"},
		// an OUTER stage fails on what a valid inner DCT stage produces: the
		// caller reads up to the error and closes; the stages below the failed
		// one must be released all the same (some readers report their sticky
		// error again from Close)
		{Class: "outer-error/dct-then-lzw", Filter: arr(nm("DCTDecode"), nm("LZWDecode")), Parms: none, BodyGen: "jpeg-white:128"},
		{Class: "outer-error/dct-then-asciihex", Filter: arr(nm("DCTDecode"), nm("ASCIIHexDecode")), Parms: none, BodyGen: "jpeg-white:128"},
		{Class: "outer-error/dct-then-ascii85", Filter: arr(nm("DCTDecode"), nm("ASCII85Decode")), Parms: none, BodyGen: "jpeg-white:128"},
		{Class: "outer-error/dct-then-lzw-predictor", Filter: arr(nm("DCTDecode"), nm("LZWDecode")),
			Parms: arr(c06.Val{T: "null"}, dictVal(c06.Dict{"Predictor": intVal(12), "Columns": intVal(4)})), BodyGen: "jpeg-white:128"},
		{Class: "outer-error/dct-then-asciihex-then-lzw", Filter: arr(nm("DCTDecode"), nm("ASCIIHexDecode"), nm("LZWDecode")), Parms: none, BodyGen: "jpeg-flat:256"},
		{Class: "outer-error/dct-then-runlength-then-asciihex", Filter: arr(nm("DCTDecode"), nm("RunLengthDecode"), nm("ASCIIHexDecode")), Parms: none, BodyGen: "jpeg-flat:256"},
		{Class: "outer-error/dct-then-ccitt-then-lzw", Filter: arr(nm("DCTDecode"), nm("CCITTFaxDecode"), nm("LZWDecode")),
			Parms: arr(c06.Val{T: "null"}, dictVal(c06.Dict{"K": intVal(-1), "Columns": intVal(64)}), c06.Val{T: "null"}), BodyGen: "jpeg-white:128"},
		{Class: "outer-error/dct-then-lzw-abandoned", Filter: arr(nm("DCTDecode"), nm("LZWDecode")), Parms: none, BodyGen: "jpeg-white:128", Abandon: 10},
	}
	return cases
}

// ---------------------------------------------------------------------------
// LZW decoder states: a prefix of literal codes drives the decoder's table to
// a chosen size (around each switch of the code length, the full table, right
// after a clear code), then every short suffix over {highest table code, the
// one below, the first undefined code, clear, EOD, a literal} follows.  The
// code lengths follow the decoder's view of the table (Lzw.WidthFor).

func lzwWidth(next, early int) int {
	switch {
	case next+early < 512:
		return 9
	case next+early < 1024:
		return 10
	case next+early < 2048:
		return 11
	}
	return 12
}

type lzwEmitter struct {
	out   []byte
	cur   uint64
	n     uint
	next  int  // the decoder's next free code
	fresh bool // right after a clear code: the next code adds no entry
	early int
}

func (e *lzwEmitter) emit(c int) {
	w := lzwWidth(e.next, e.early)
	if e.fresh {
		w = lzwWidth(e.next-1, e.early)
	}
	e.cur = e.cur<<uint(w) | uint64(c)
	e.n += uint(w)
	for e.n >= 8 {
		e.out = append(e.out, byte(e.cur>>(e.n-8)))
		e.n -= 8
	}
	e.cur &= 1<<e.n - 1
	switch {
	case c == 256:
		e.next, e.fresh = 258, true
	case c == 257:
	case e.fresh:
		e.fresh = false
	case e.next < 4096:
		e.next++
	}
}

func (e *lzwEmitter) bytes() []byte {
	out := append([]byte(nil), e.out...)
	if e.n > 0 {
		out = append(out, byte(e.cur<<(8-e.n)))
	}
	return out
}

func lzwStateCases(ctx *core.Ctx) []*Case {
	type state struct {
		name string
		next int // table size to reach (0: right after the clear code)
	}
	var states []state
	for _, b := range []struct {
		name string
		at   int
	}{{"width9-10", 512}, {"width10-11", 1024}, {"width11-12", 2048}, {"table-full", 4096}} {
		for d := -3; d <= 1; d++ {
			if b.at+d <= 4096 {
				states = append(states, state{b.name, b.at + d})
			}
		}
	}
	states = append(states, state{"after-clear", 0}, state{"small-table", 260})
	maxLen := ctx.Pick(3, 4)
	var suffixes [][]int
	var rec func(prefix []int)
	rec = func(prefix []int) {
		if len(prefix) > 0 {
			suffixes = append(suffixes, append([]int(nil), prefix...))
		}
		if len(prefix) == maxLen {
			return
		}
		for t := 0; t < 6; t++ {
			rec(append(prefix, t))
		}
	}
	rec(nil)
	var cases []*Case
	for _, st := range states {
		for early := 0; early <= 1; early++ {
			pre := &lzwEmitter{next: 258, fresh: true, early: early}
			pre.emit(256)
			for pre.next < st.next || (st.next > 0 && pre.fresh) {
				pre.emit(65 + len(pre.out)%3)
			}
			top := pre.next - 1
			tokens := []int{top, top - 1, pre.next, 256, 257, 66}
			for _, sfx := range suffixes {
				e := *pre
				e.out = pre.out[:len(pre.out):len(pre.out)]
				for _, t := range sfx {
					e.emit(tokens[t])
				}
				cases = append(cases, &Case{Class: "lzw-state/" + st.name, Filter: nm("LZWDecode"),
					Parms: dictVal(c06.Dict{"EarlyChange": intVal(int64(early))}), body: e.bytes(), Note: fmt.Sprintf("next=%d suffix=%v", st.next, sfx)})
			}
		}
	}
	return cases
}

// ---------------------------------------------------------------------------
// hand-built JBIG2 segment structures (embedded organisation, ISO 14492 7.2):
// a page smaller or larger than its regions, intermediate regions referred to
// by one, two or three refinement regions, refinements of refinements.  The
// arithmetic-coded payloads are arbitrary bytes (the MQ decoder turns any byte
// string into pixels).

func be32(b []byte, v uint32) []byte { return append(b, byte(v>>24), byte(v>>16), byte(v>>8), byte(v)) }

// jbSegment appends one segment; segment numbers are below 256, so referred-to
// numbers take one byte each.
func jbSegment(buf []byte, number uint32, segType byte, refs []byte, data []byte) []byte {
	buf = be32(buf, number)
	buf = append(buf, segType)
	buf = append(buf, byte(len(refs))<<5)
	buf = append(buf, refs...)
	buf = append(buf, 1) // page association
	buf = be32(buf, uint32(len(data)))
	return append(buf, data...)
}

func jbRegionInfo(w, h uint32) []byte {
	var b []byte
	b = be32(b, w)
	b = be32(b, h)
	b = be32(b, 0)
	b = be32(b, 0)
	return append(b, 0) // combination operator OR
}

func jbPage(w, h uint32) []byte {
	var p []byte
	p = be32(p, w)
	p = be32(p, h)
	p = append(p, make([]byte, 8)...)
	return append(p, 0, 0, 0)
}

func jbig2Cases(ctx *core.Ctx) []*Case {
	r := ctx.Rand("jbig2")
	var cases []*Case
	dims := [][2]uint32{{8, 1}, {64, 64}, {1, 1}, {65, 3}}
	for _, page := range dims {
		for _, reg := range dims {
			for nref := 1; nref <= 3; nref++ {
				for _, refType := range []byte{40, 42, 43} {
					for _, tmpl := range []byte{0, 1} {
						for rep := 0; rep < ctx.Pick(1, 4); rep++ {
							payload := make([]byte, 16)
							r.Read(payload)
							var body []byte
							body = jbSegment(body, 0, 48, nil, jbPage(page[0], page[1]))
							gen := jbRegionInfo(reg[0], reg[1])
							gen = append(gen, 0x00)
							gen = append(gen, 3, 0xff, 0xfd, 0xff, 2, 0xfe, 0xfe, 0xfe)
							gen = append(gen, payload...)
							body = jbSegment(body, 1, 36, nil, gen) // intermediate generic region
							for n := 0; n < nref; n++ {
								ref := jbRegionInfo(reg[0], reg[1])
								ref = append(ref, tmpl) // GRTEMPLATE
								if tmpl == 0 {
									ref = append(ref, 0xff, 0xff, 0xff, 0xff) // two AT pixels
								}
								ref = append(ref, payload...)
								refs := []byte{1}
								if n == 2 && refType == 40 {
									refs = []byte{2} // a refinement of the first (intermediate) refinement
								}
								body = jbSegment(body, uint32(2+n), refType, refs, ref)
							}
							body = jbSegment(body, uint32(2+nref), 49, nil, nil)
							cases = append(cases, &Case{Class: fmt.Sprintf("jbig2-structure/refinement-type-%d/refs=%d", refType, nref),
								Filter: nm("JBIG2Decode"), Parms: none, body: body,
								Note: fmt.Sprintf("page %dx%d region %dx%d template %d", page[0], page[1], reg[0], reg[1], tmpl)})
						}
					}
				}
			}
		}
	}
	return cases
}

// jpegMin builds a baseline grey JPEG whose Huffman tables hold a single
// one-bit code each (DC difference 0, end of block): n*n pixels from about
// n*n/256 bytes.
func jpegMin(dim int) []byte {
	var b bytes.Buffer
	w := func(p ...byte) { b.Write(p) }
	w(0xFF, 0xD8)
	w(0xFF, 0xDB, 0x00, 0x43, 0x00)
	for i := 0; i < 64; i++ {
		w(0x01)
	}
	w(0xFF, 0xC0, 0x00, 0x0B, 0x08, byte(dim>>8), byte(dim), byte(dim>>8), byte(dim), 0x01, 0x01, 0x11, 0x00)
	counts := [16]byte{1}
	w(0xFF, 0xC4, 0x00, 0x14, 0x00)
	w(counts[:]...)
	w(0x00)
	w(0xFF, 0xC4, 0x00, 0x14, 0x10)
	w(counts[:]...)
	w(0x00)
	w(0xFF, 0xDA, 0x00, 0x08, 0x01, 0x01, 0x00, 0x00, 0x3F, 0x00)
	b.Write(make([]byte, (dim/8)*(dim/8)*2/8+8))
	w(0xFF, 0xD9)
	return b.Bytes()
}

// globalsCases: JBIG2Decode streams whose /JBIG2Globals stream is itself
// filtered and decodes beyond, just above, exactly to and just below the
// 8 MiB the library reads for globals (limits.MaxJBIG2GlobalsBytes).  The
// globals are decoded inside GetFilters, before the caller has any reader to
// close: whatever the outcome, no goroutine of that inner chain may survive
// DecodeStream's return, and the allocation stays within the documented bound.
func globalsCases() []*Case {
	jb := nm("JBIG2Decode")
	fl := nm("FlateDecode")
	dct := nm("DCTDecode")
	page := []byte{0, 0, 0, 0}
	mk := func(class string, filter c06.Val, g *Case) *Case {
		return &Case{Class: "globals/" + class, Filter: filter, Parms: none, body: page, Globals: g}
	}
	gl := func(filter c06.Val, gen string) *Case { return &Case{Filter: filter, Parms: none, BodyGen: gen} }
	const cap = 8 << 20
	cases := []*Case{
		mk("dct-16MiB", jb, gl(dct, "jpeg-min:4096")),
		mk("dct-just-above-cap", jb, gl(dct, "jpeg-min:2904")), // 2904^2 = 8433216
		mk("dct-just-below-cap", jb, gl(dct, "jpeg-min:2896")), // 2896^2 = 8386816
		mk("dct-small", jb, gl(dct, "jpeg-min:64")),
		mk("flate-then-dct-16MiB", jb, gl(arr(fl, dct), "flate-jpeg-min:4096")),
		mk("asciihex-then-dct-16MiB", jb, gl(arr(nm("ASCIIHexDecode"), dct), "hex-jpeg-min:4096")),
		mk("dct-then-runlength-16MiB", jb, gl(arr(dct, nm("RunLengthDecode")), "jpeg-min:4096")),
		mk("flate-zeros-64MiB", jb, gl(fl, fmt.Sprintf("flate-zeros:%d", 64<<20))),
		mk("flate-zeros-cap+1", jb, gl(fl, fmt.Sprintf("flate-zeros:%d", cap+1))),
		mk("flate-zeros-cap", jb, gl(fl, fmt.Sprintf("flate-zeros:%d", cap))),
		mk("flate-zeros-cap-1", jb, gl(fl, fmt.Sprintf("flate-zeros:%d", cap-1))),
		mk("flate-flate-zeros-64MiB", jb, gl(arr(fl, fl), fmt.Sprintf("flate2-zeros:%d", 64<<20))),
		mk("lzw-zeros-16MiB", jb, gl(nm("LZWDecode"), fmt.Sprintf("lzw-zeros:%d", 4<<20))),
		mk("unfiltered-garbage", jb, gl(none, "ones:1000")),
		mk("self-reference", jb, &Case{Filter: jb, Parms: none, BodyGen: "zeros:16", SelfRef: true}),
		mk("in-chain/dct-16MiB", arr(nm("ASCIIHexDecode"), jb), gl(dct, "jpeg-min:4096")),
		mk("dct-16MiB/abandoned", jb, gl(dct, "jpeg-min:4096")),
	}
	cases[len(cases)-2].body = codecs.ASCIIHexEncode(page)
	cases[len(cases)-1].Abandon = 1
	return cases
}

// ---------------------------------------------------------------------------
// hand-built JPEG structures: frame type (SOF0 baseline, SOF1 extended
// sequential, SOF2 progressive) x 1/3/4 components x sampling factors x number
// of scans x restart interval, with the smallest possible Huffman tables (one
// code of one bit each: DC difference 0, end of block), so every 8x8 block
// costs two zero bits.  Outcome, panic/crash and the bounded-output clause
// (at most width x height x components bytes) are judged; the cases run in
// the worker subprocess because the DCT decoder works on a goroutine of its
// own, whose panic the caller cannot recover.

func jpegStructure(sof byte, dim int, hv []byte, scans, dri int) []byte {
	var b bytes.Buffer
	w := func(p ...byte) { b.Write(p) }
	n := len(hv)
	w(0xFF, 0xD8)
	w(0xFF, 0xDB, 0x00, 0x43, 0x00)
	for i := 0; i < 64; i++ {
		w(0x01)
	}
	w(0xFF, sof, 0x00, byte(8+3*n), 0x08, byte(dim>>8), byte(dim), byte(dim>>8), byte(dim), byte(n))
	for i := 0; i < n; i++ {
		w(byte(i+1), hv[i], 0x00)
	}
	counts := [16]byte{1}
	w(0xFF, 0xC4, 0x00, 0x14, 0x00)
	w(counts[:]...)
	w(0x00)
	w(0xFF, 0xC4, 0x00, 0x14, 0x10)
	w(counts[:]...)
	w(0x00)
	if dri > 0 {
		w(0xFF, 0xDD, 0x00, 0x04, byte(dri>>8), byte(dri))
	}
	hmax, vmax, blocks := 1, 1, 0
	for _, x := range hv {
		h, v := int(x>>4), int(x&15)
		if h > hmax {
			hmax = h
		}
		if v > vmax {
			vmax = v
		}
		blocks += h * v
	}
	if n == 1 {
		hmax, vmax, blocks = 1, 1, 1 // a single component scan is not interleaved
	}
	mcus := ((dim + 8*hmax - 1) / (8 * hmax)) * ((dim + 8*vmax - 1) / (8 * vmax))
	for s := 0; s < scans; s++ {
		w(0xFF, 0xDA, 0x00, byte(6+2*n), byte(n))
		for i := 0; i < n; i++ {
			w(byte(i+1), 0x00)
		}
		if sof == 0xC2 {
			w(0x00, 0x00, 0x00) // progressive: a DC scan
		} else {
			w(0x00, 0x3F, 0x00)
		}
		if dri <= 0 {
			b.Write(make([]byte, (2*blocks*mcus+7)/8+1))
		} else {
			rst := 0
			for left := mcus; left > 0; left -= dri {
				m := dri
				if left < m {
					m = left
				}
				b.Write(make([]byte, (2*blocks*m+7)/8))
				if left > dri {
					w(0xFF, byte(0xD0+rst%8))
					rst++
				}
			}
			b.Write([]byte{0})
		}
	}
	w(0xFF, 0xD9)
	return b.Bytes()
}

func jpegCases(ctx *core.Ctx) []*Case {
	var cases []*Case
	add := func(sof byte, dim int, hv []byte, scans, dri int) {
		sc := "1"
		if scans > 1 {
			sc = "many"
		}
		cases = append(cases, &Case{
			Class:  fmt.Sprintf("jpeg-structure/sof%d/comps=%d/scans=%s", sof-0xC0, len(hv), sc),
			Filter: nm("DCTDecode"), Parms: none, Sub: true, Cap: dim * dim * len(hv),
			body: jpegStructure(sof, dim, hv, scans, dri),
			Note: fmt.Sprintf("SOF%d %dx%d sampling %x, %d scans, restart interval %d", sof-0xC0, dim, dim, hv, scans, dri)})
	}
	factors := []byte{0x11, 0x21, 0x12, 0x22}
	var vectors [][]byte
	var rec func(prefix []byte, n int)
	rec = func(prefix []byte, n int) {
		if len(prefix) == n {
			vectors = append(vectors, append([]byte(nil), prefix...))
			return
		}
		for _, f := range factors {
			rec(append(prefix, f), n)
		}
	}
	for _, n := range []int{1, 3, 4} {
		rec(nil, n)
	}
	// every sampling vector (also the asymmetric four-component ones) with one scan
	for _, sof := range []byte{0xC0, 0xC1, 0xC2} {
		for _, hv := range vectors {
			add(sof, 16, hv, 1, 0)
			if ctx.Thorough() {
				add(sof, 40, hv, 1, 0)
				add(sof, 16, hv, 2, 3)
			}
		}
	}
	// several full scans and restart intervals on the common samplings
	common := [][]byte{{0x11}, {0x22}, {0x11, 0x11, 0x11}, {0x22, 0x11, 0x11}, {0x21, 0x11, 0x11},
		{0x11, 0x11, 0x11, 0x11}, {0x22, 0x11, 0x11, 0x22}, {0x22, 0x11, 0x11, 0x11}, {0x22, 0x22, 0x22, 0x22}}
	for _, sof := range []byte{0xC0, 0xC1, 0xC2} {
		for _, hv := range common {
			for _, scans := range []int{1, 2, 3, 40} {
				for _, dri := range []int{0, 1, 4} {
					add(sof, 64, hv, scans, dri)
				}
			}
		}
	}
	return cases
}

// ---------------------------------------------------------------------------
// JBIG2 arithmetic symbol dictionaries with refinement / aggregation
// (SDREFAGG = 1): a page, a one-symbol dictionary, and a second dictionary
// that imports it and defines new symbols by refining others.  The reference
// symbol IDs come out of the arithmetic decoder, so the payload bytes are
// varied systematically (every value of every payload byte, and random
// payloads): forward, self and out-of-range references all occur; the header
// counts (exported / new symbols) are varied as well, including lying ones.

var jbSymbolBase = []byte{
	0x00, 0x00, 0x00, 0x00, 0x30, 0x00, 0x01, 0x00, 0x00, 0x00, 0x13,
	0x00, 0x00, 0x00, 0x10, 0x00, 0x00, 0x00, 0x10, 0x00, 0x00, 0x00, 0x00, 0x00,
	0x00, 0x00, 0x00, 0x01, 0x00, 0x00,
	0x00, 0x00, 0x00, 0x01, 0x00, 0x00, 0x01, 0x00, 0x00, 0x00, 0x13,
	0x04, 0x00, 0x03, 0xff, 0x00, 0x00, 0x00, 0x01, 0x00, 0x00, 0x00, 0x01,
	0x55, 0x53, 0xd6, 0x2a, 0x23, 0xff, 0xac,
	0x00, 0x00, 0x00, 0x02, 0x00, 0x20, 0x01, 0x01, 0x00, 0x00, 0x00, 0x12,
	0x14, 0x02, 0x03, 0xff, 0x00, 0x00, 0x00, 0x03, 0x00, 0x00, 0x00, 0x02,
	0x55, 0x54, 0x7c, 0xfd, 0xff, 0xac,
}

func jbig2SymbolCases(ctx *core.Ctx) []*Case {
	r := ctx.Rand("jbig2-symbols")
	var cases []*Case
	add := func(class string, body []byte, note string) {
		cases = append(cases, &Case{Class: "jbig2-symbols/" + class, Filter: nm("JBIG2Decode"), Parms: none, body: body, Note: note})
	}
	base := jbSymbolBase
	n := len(base)
	add("as-given", append([]byte(nil), base...), "second dictionary refines a symbol it has not decoded yet")
	// the second dictionary's data part: flags(2) AT(2) exported(4) new(4) payload(6) at the end of the body
	sd2 := n - 18
	// every value of every payload byte of both dictionaries
	for _, at := range []int{n - 6, n - 5, n - 4, n - 3, n - 2, n - 1, sd2 - 12 - 7, sd2 - 12 - 6, sd2 - 12 - 5, sd2 - 12 - 4} {
		step := ctx.Pick(3, 1)
		for v := 0; v < 256; v += step {
			b := append([]byte(nil), base...)
			b[at] = byte(v + at%step)
			add("payload-byte", b, fmt.Sprintf("byte %d = %#x", at, b[at]))
		}
	}
	// header counts and flags of the second dictionary, with the given and with random payloads
	for _, flags := range []uint16{0x1402, 0x0402, 0x1002, 0x0002, 0x1400, 0x1403} {
		for _, nex := range []uint32{0, 1, 2, 3, 4, 255} {
			for _, nnew := range []uint32{0, 1, 2, 3, 16} {
				for rep := 0; rep < ctx.Pick(2, 6); rep++ {
					b := append([]byte(nil), base...)
					b[sd2], b[sd2+1] = byte(flags>>8), byte(flags)
					copy(b[sd2+4:], []byte{byte(nex >> 24), byte(nex >> 16), byte(nex >> 8), byte(nex)})
					copy(b[sd2+8:], []byte{byte(nnew >> 24), byte(nnew >> 16), byte(nnew >> 8), byte(nnew)})
					if rep > 0 {
						r.Read(b[n-6 : n-2])
					}
					add("counts", b, fmt.Sprintf("flags %#04x exported %d new %d", flags, nex, nnew))
				}
			}
		}
	}
	// longer random payloads (the segment length grows with them)
	for k := 0; k < ctx.Pick(300, 3000); k++ {
		extra := make([]byte, 1+r.Intn(24))
		r.Read(extra)
		b := append([]byte(nil), base[:n-2]...)
		b = append(b, extra...)
		b = append(b, 0xff, 0xac)
		b[sd2-1] = byte(18 + len(extra)) // segment data length (one byte is enough here)
		if k%3 == 0 {
			b[sd2+11] = byte(1 + r.Intn(6)) // number of new symbols
			b[sd2+7] = byte(r.Intn(8))      // number of exported symbols
		}
		add("random-payload", b, "")
	}
	return cases
}

// ---------------------------------------------------------------------------
// the budget as a function of the raw length: streams of 100 KiB .. 16 MiB
// (padding: JPEG COM segments) whose frame header claims 140 MB .. 1.9 GB of
// working memory for a progressive DCT frame.  The documented budget is
// 8 MiB + min(1024 x raw length, 256 MiB): beyond 256 KiB of raw data it no
// longer grows, so the allocation clause bounds every one of these at about
// 270 MB however long the stream is.

func jpegPadded(comSegments, dim, comps int) []byte {
	var b bytes.Buffer
	b.Write([]byte{0xFF, 0xD8})
	com := make([]byte, 65533)
	for i := 0; i < comSegments; i++ {
		b.Write([]byte{0xFF, 0xFE, 0xFF, 0xFF})
		b.Write(com)
	}
	b.Write([]byte{0xFF, 0xC2, 0x00, byte(8 + 3*comps), 0x08, byte(dim >> 8), byte(dim), byte(dim >> 8), byte(dim), byte(comps)})
	for i := 0; i < comps; i++ {
		b.Write([]byte{byte(i + 1), 0x11, 0x00})
	}
	b.Write([]byte{0xFF, 0xDA, 0x00, byte(6 + 2*comps), byte(comps)})
	for i := 0; i < comps; i++ {
		b.Write([]byte{byte(i + 1), 0x00})
	}
	b.Write([]byte{0x00, 0x00, 0x00, 0xFF, 0xD9})
	return b.Bytes()
}

func budgetCases(ctx *core.Ctx) []*Case {
	var cases []*Case
	for _, pad := range []struct {
		name string
		segs int
	}{{"100KiB", 2}, {"256KiB-", 3}, {"256KiB+", 5}, {"640KiB", 10}, {"1MiB", 16}, {"2MiB", 32}, {"16MiB", 256}} {
		for _, fr := range []struct {
			name       string
			dim, comps int
		}{{"claims-140MB", 6000, 1}, {"claims-484MB", 11000, 1}, {"claims-507MB", 6500, 3}, {"claims-1.9GB", 11000, 4}} {
			if !ctx.Thorough() && (pad.segs >= 32 || fr.comps == 3) && !(pad.segs == 32 && fr.comps == 4) {
				continue // quick: 100 KiB .. 1 MiB, and one 2 MiB case
			}
			cases = append(cases, &Case{Class: "budget/dct-progressive-" + fr.name + "/raw-" + pad.name, Filter: nm("DCTDecode"), Parms: none, Sub: true,
				BodyGen: fmt.Sprintf("jpeg-padded:%d:%d:%d", pad.segs, fr.dim, fr.comps)})
		}
	}
	// other formats with a long raw stream and the largest claims their headers can make
	big := make([]byte, 1<<20)
	for i := range big {
		big[i] = byte(i * 7)
	}
	jb := genBody("jbig2-claim:0")
	jb[13], jb[14], jb[17], jb[18] = 0x2a, 0xf8, 0x2a, 0xf8 // 11000 x 11000 page
	cases = append(cases,
		&Case{Class: "budget/jbig2-page-11000x11000/raw-1MiB", Filter: nm("JBIG2Decode"), Parms: none, Sub: true, body: append(append([]byte(nil), jb...), big...)},
		&Case{Class: "budget/flate-stored-predictor-max-row/raw-1MiB", Filter: nm("FlateDecode"), Sub: true,
			Parms: dictVal(c06.Dict{"Predictor": intVal(15), "Columns": intVal(1 << 16), "Colors": intVal(32), "BitsPerComponent": intVal(16)}), body: zlibStored(big)},
		&Case{Class: "budget/ccitt-columns-2^20/raw-1MiB", Filter: nm("CCITTFaxDecode"), Sub: true, Parms: ccParms(4, 1<<20, 0), body: big},
	)
	return cases
}

// zlibStored wraps b in a zlib stream of stored (uncompressed) blocks.
func zlibStored(b []byte) []byte {
	var buf bytes.Buffer
	w, _ := zlib.NewWriterLevel(&buf, zlib.NoCompression)
	w.Write(b)
	w.Close()
	return buf.Bytes()
}
