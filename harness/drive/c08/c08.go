// Package c08 binds spec/filter/Envelope.tla (and, for its inputs,
// FilterParams.tla and the five format modules through Gen_Hostile) to the
// stream decoders of go-pdf: every run of pdf.DecodeStream on a hostile
// stream is measured (outcome class, output size, wall time, allocation,
// goroutines) and the record is judged by TLC against the envelope.
//
//	P-C  Gen_Hostile: type-confused parameter dictionaries with the model's clamp -> real MakeFilter
//	P-C  Gen_Hostile: all short token sequences of the five specified formats -> real decoders
//	P-B  every measured run (also mutations of valid encodings, bombs, 8-deep chains) -> Trace_Envelope
package c08

import (
	"bytes"
	"encoding/json"
	"errors"
	"fmt"
	"io"
	"runtime"
	"runtime/metrics"
	"strings"
	"time"

	"seehuhn.de/go/pdf"

	"verif/harness/core"
	"verif/harness/drive/c06"
)

var Driver = core.Driver{ID: "C08", Level: "exploration", Run: run, Replay: replay, SelfTest: selfTest}

// Case is one replayable hostile stream.
type Case struct {
	Class   string     `json:"class"` // key class: what kind of hostility
	Filter  c06.Val    `json:"filter"`
	Parms   c06.Val    `json:"parms"`
	BodyHex string     `json:"body,omitempty"`
	BodyGen string     `json:"bodyGen,omitempty"` // large bodies are regenerated: "zeros:N", ...
	Abandon int        `json:"abandon,omitempty"` // > 0: read this many bytes, then Close
	Note    string     `json:"note,omitempty"`
	// Globals, when set, is an indirect stream (object 7 0) which the
	// JBIG2Decode stage of the case refers to as /JBIG2Globals: its filters
	// are run by GetFilters (ReadAll with a cap of 8 MiB) before the caller
	// gets a reader at all.  SelfRef makes the globals stream refer to itself.
	Globals *Case `json:"globals,omitempty"`
	SelfRef bool  `json:"selfRef,omitempty"`
	// Sub: measure in the worker subprocess (a crash of the process is an outcome)
	Sub bool `json:"sub,omitempty"`
	// Cap, when positive, is the exact output bound of the case (a JPEG frame)
	Cap int `json:"cap,omitempty"`
	body    []byte
}

// Rec is the measured run (Trace_Envelope / Envelope.EnvelopeOK).
type Rec struct {
	Outcome  string `json:"outcome"`
	RawLen   int    `json:"rawLen"`
	Produced int    `json:"produced"`
	WallUs   int    `json:"wallUs"`
	AllocKB  int    `json:"allocKB"`
	CapBytes int    `json:"capBytes"`
	Leaked   int    `json:"leaked"`
	AllowKB  int    `json:"allowKB"` // documented extra working memory of a bounded consumer (JBIG2 globals: ReadAll up to 8 MiB)
	Class    string `json:"class"`
	Note     string `json:"note,omitempty"`
	out      []byte
}

type getter struct {
	meta pdf.MetaInfo
	objs map[pdf.Reference]pdf.Native
}

func (g *getter) GetMeta() *pdf.MetaInfo { return &g.meta }
func (g *getter) Get(ref pdf.Reference, _ bool) (pdf.Native, error) {
	return g.objs[ref], nil
}

var globalsRef = pdf.NewReference(7, 0)

// globalsAllowKB: the globals are read into memory up to
// limits.MaxJBIG2GlobalsBytes (8 MiB) with an amortised growing buffer.
const globalsAllowKB = 8 * 8192

func streamDict(c *Case) pdf.Dict {
	dict := pdf.Dict{}
	if c.Filter.T != "none" {
		dict["Filter"] = c06.ToObject(c.Filter)
	}
	if c.Parms.T != "none" {
		dict["DecodeParms"] = c06.ToObject(c.Parms)
	}
	return dict
}

// addGlobalsRef puts /JBIG2Globals 7 0 R into the parameters of the
// JBIG2Decode stage of dict.
func addGlobalsRef(dict pdf.Dict) {
	switch f := dict["Filter"].(type) {
	case pdf.Name:
		d, _ := dict["DecodeParms"].(pdf.Dict)
		if d == nil {
			d = pdf.Dict{}
		}
		d["JBIG2Globals"] = globalsRef
		dict["DecodeParms"] = d
	case pdf.Array:
		pa, _ := dict["DecodeParms"].(pdf.Array)
		for len(pa) < len(f) {
			pa = append(pa, nil)
		}
		for i, n := range f {
			if n == pdf.Name("JBIG2Decode") {
				d, _ := pa[i].(pdf.Dict)
				if d == nil {
					d = pdf.Dict{}
				}
				d["JBIG2Globals"] = globalsRef
				pa[i] = d
			}
		}
		dict["DecodeParms"] = pa
	}
}

var theGetter = &getter{meta: pdf.MetaInfo{Version: pdf.V1_7}}

// caps of formats with intrinsic dimensions (limits.MaxImageHeight,
// limits.MaxImagePixels): CCITTFax 1 bit per pixel plus row padding; DCT and
// JBIG2 at most 4 bytes per pixel.
const (
	capCCITT = 128<<20/8 + 1<<16*8
	capImage = 4 * 128 << 20
	hardStop = 600 << 20 // never read more than this from any decoder
)

func filterNames(v c06.Val) []string {
	switch v.T {
	case "name":
		return []string{v.S}
	case "array":
		var out []string
		for _, e := range v.A {
			if e.T == "name" {
				out = append(out, e.S)
			}
		}
		return out
	}
	return nil
}

// ccittCap is the documented bound of FilterCCITTFax.Decode for the stage's
// parameters: at most min(MaxImageHeight, MaxImagePixels / Columns) rows (at
// least one) of ceil(Columns / 8) bytes, whether or not /Rows is given.
func ccittCap(parms c06.Val) int {
	cols := 1728
	if parms.T == "dict" {
		if v, ok := parms.D["Columns"]; ok && v.T == "int" && v.I > 0 && v.I <= 1<<20 {
			cols = int(v.I)
		}
	}
	rows := 128 << 20 / cols
	if rows > 1<<16 {
		rows = 1 << 16
	}
	if rows < 1 {
		rows = 1
	}
	return rows * ((cols + 7) / 8)
}

func capFor(c *Case) int {
	if c.Cap > 0 {
		return c.Cap
	}
	// a single CCITTFax stage: the exact bound
	if c.Filter.T == "name" && c.Filter.S == "CCITTFaxDecode" {
		return ccittCap(c.Parms)
	}
	if c.Filter.T == "array" && len(c.Filter.A) > 0 {
		last := len(c.Filter.A) - 1
		if f := c.Filter.A[last]; f.T == "name" && f.S == "CCITTFaxDecode" {
			p := c06.Val{T: "none"}
			if c.Parms.T == "array" && len(c.Parms.A) > last {
				p = c.Parms.A[last]
			}
			return ccittCap(p)
		}
	}
	capBytes := 0
	for _, n := range filterNames(c.Filter) {
		switch n {
		case "CCITTFaxDecode":
			if capBytes < capCCITT {
				capBytes = capCCITT
			}
		case "DCTDecode", "JBIG2Decode":
			capBytes = capImage
		}
	}
	// a later expanding filter (Flate of zeros ...) is not bounded by geometry
	names := filterNames(c.Filter)
	if len(names) > 0 {
		switch names[len(names)-1] {
		case "CCITTFaxDecode", "DCTDecode", "JBIG2Decode":
		default:
			return 0
		}
	}
	return capBytes
}

func allocBytes() uint64 {
	s := []metrics.Sample{{Name: "/gc/heap/allocs:bytes"}}
	metrics.Read(s)
	return s[0].Value.Uint64()
}

func (c *Case) Body() []byte {
	if c.body != nil {
		return c.body
	}
	if c.BodyGen != "" {
		c.body = genBody(c.BodyGen)
	} else {
		c.body = unhex(c.BodyHex)
	}
	return c.body
}

// measure decodes the case once.
// measureOnce decodes the case once.  Everything the harness itself needs
// (the body, the stream object, the read buffer) exists before the counters
// are read: allocation, goroutines and time are process wide quantities, so
// nothing else may run or allocate in this process during the window (the
// caller runs the cases strictly one after the other).
func measureOnce(c *Case, body []byte, keep, isolate bool) (rec Rec) {
	rec = Rec{RawLen: len(body), Class: c.Class, CapBytes: capFor(c)}
	dict := streamDict(c)
	g := theGetter
	if c.Globals != nil {
		gdict := streamDict(c.Globals)
		if c.Globals.SelfRef {
			addGlobalsRef(gdict)
		}
		gbody := c.Globals.Body()
		g = &getter{meta: theGetter.meta, objs: map[pdf.Reference]pdf.Native{globalsRef: pdf.NewStream(gdict, gbody)}}
		addGlobalsRef(dict)
		rec.RawLen += len(gbody)
		rec.AllowKB = globalsAllowKB
	}
	stm := pdf.NewStream(dict, body)
	buf := make([]byte, 32<<10)
	if c.Abandon > 0 && c.Abandon < len(buf) {
		buf = buf[:c.Abandon]
	}
	if isolate {
		runtime.GC()
		runtime.GC()
	}
	runtime.Gosched()
	g0 := runtime.NumGoroutine()
	a0 := allocBytes()
	t0 := time.Now()
	func() {
		defer func() {
			if p := recover(); p != nil {
				rec.Outcome = "panic"
				rec.Note = fmt.Sprint(p)
			}
		}()
		r, err := pdf.DecodeStream(g, nil, stm)
		if err != nil {
			rec.Outcome, rec.Note = classify(err)
			return
		}
		limit := hardStop
		if rec.CapBytes > 0 {
			limit = rec.CapBytes + 1
		}
		if c.Abandon > 0 {
			limit = c.Abandon
		}
		stall := 0
		for {
			n, err := r.Read(buf)
			rec.Produced += n
			if keep && len(rec.out) < 1<<16 {
				rec.out = append(rec.out, buf[:n]...)
			}
			if err == io.EOF {
				rec.Outcome = "data"
				break
			}
			if err != nil {
				rec.Outcome, rec.Note = classify(err)
				break
			}
			if rec.Produced >= limit {
				rec.Outcome = "data" // stopped by the caller
				break
			}
			if n == 0 {
				stall++
				if stall > 1000 {
					rec.Outcome, rec.Note = "hang", "Read returns (0, nil) forever"
					break
				}
			} else {
				stall = 0
			}
		}
		r.Close() // the property speaks about building and reading; the result of Close is not judged
	}()
	rec.WallUs = int(time.Since(t0) / time.Microsecond)
	rec.AllocKB = int((allocBytes() - a0) / 1024)
	// goroutines: poll with a grace period
	for i := 0; i < 50; i++ {
		if runtime.NumGoroutine() <= g0 {
			break
		}
		time.Sleep(10 * time.Millisecond)
	}
	if d := runtime.NumGoroutine() - g0; d > 0 {
		rec.Leaked = d
	}
	return rec
}

func classify(err error) (string, string) {
	switch {
	case err == nil || errors.Is(err, io.EOF):
		return "data", ""
	case pdf.IsMalformed(err):
		return "malformed", ""
	}
	return "readError", fmt.Sprintf("%T: %v", err, err)
}

// measure runs the case under a watchdog; a hit is re-run before it counts.
func measure(c *Case, keep, isolate bool) Rec {
	body := c.Body() // generated here, never inside the measured window
	if c.Globals != nil {
		c.Globals.Body()
	}
	budget := 20*time.Second + time.Duration(len(body))*20*time.Microsecond
	for attempt := 0; ; attempt++ {
		done := make(chan Rec, 1)
		timer := time.NewTimer(budget)
		go func() { done <- measureOnce(c, body, keep, isolate) }()
		select {
		case r := <-done:
			timer.Stop()
			return r
		case <-timer.C:
			if attempt == 0 {
				continue
			}
			return Rec{Outcome: "hang", RawLen: len(body), Class: c.Class, CapBytes: capFor(c), Note: "no result within " + budget.String() + " (twice)"}
		}
	}
}

// sig names what is outside the envelope (coarse and stable).
func sig(r Rec) string {
	switch {
	case r.Outcome != "data" && r.Outcome != "malformed":
		return r.Outcome
	case r.Leaked > 0:
		return "goroutine-leak"
	case r.CapBytes > 0 && r.Produced > r.CapBytes:
		return "unbounded-output"
	}
	return "resources"
}

type reporter struct {
	ctx  *core.Ctx
	seen map[string]bool
}

func (rp *reporter) violation(c *Case, r Rec) {
	key := c.Class + "/" + sig(r)
	if rp.seen[key] {
		return
	}
	rp.seen[key] = true
	rp.ctx.Logf("outside the envelope: key=%s", key)
	what := fmt.Sprintf("decoding a %d byte stream (/Filter %s /DecodeParms %s): outcome %s, %d bytes produced, %d KB allocated, %d us, %d goroutines left [%s]",
		r.RawLen, valString(c.Filter), valString(c.Parms), r.Outcome, r.Produced, r.AllocKB, r.WallUs, r.Leaked, r.Note)
	if c.Globals != nil {
		what += fmt.Sprintf("; /JBIG2Globals 7 0 R -> stream (/Filter %s, %s) decoded by GetFilters through ReadAll (cap 8 MiB)", valString(c.Globals.Filter), c.Globals.BodyGen)
	}
	cc := *c
	if cc.BodyGen == "" && cc.BodyHex == "" {
		cc.BodyHex = hexOf(c.Body())
	}
	rp.ctx.Violation(key, what, &cc)
}

func valString(v c06.Val) string {
	switch v.T {
	case "none":
		return "(absent)"
	case "name":
		return "/" + v.S
	case "int":
		return fmt.Sprint(v.I)
	case "array":
		var parts []string
		for _, e := range v.A {
			parts = append(parts, valString(e))
		}
		return "[" + strings.Join(parts, " ") + "]"
	case "dict":
		var parts []string
		for _, k := range sortedKeys(v.D) {
			parts = append(parts, "/"+k+" "+valString(v.D[k]))
		}
		return "<<" + strings.Join(parts, " ") + ">>"
	case "bool":
		return fmt.Sprint(v.B)
	}
	return "<" + v.T + ">"
}

func judge(ctx *core.Ctx, recs []Rec) (map[int]bool, error) {
	bad, err := core.JudgeCases(ctx, core.TLCOpts{Dir: "filter", Module: "Trace_Envelope", Cfg: "Trace_Envelope.cfg", Timeout: ctx.Dur(10, 30)}, recs, 4000, 12)
	if err != nil {
		return nil, err
	}
	out := map[int]bool{}
	for _, b := range bad {
		out[b] = true
	}
	return out, nil
}

func replay(ctx *core.Ctx, raw json.RawMessage) error {
	var c Case
	if err := json.Unmarshal(raw, &c); err != nil {
		return core.Infra("replay: %v", err)
	}
	r, err := measureAny(&c, false, true)
	stopWorker()
	if err != nil {
		return core.Infra("replay: worker: %v", err)
	}
	fmt.Printf("  outcome=%s produced=%d allocKB=%d wallUs=%d leaked=%d %s\n", r.Outcome, r.Produced, r.AllocKB, r.WallUs, r.Leaked, r.Note)
	bad, err := judge(ctx, []Rec{r})
	if err != nil {
		return err
	}
	if bad[0] {
		(&reporter{ctx: ctx, seen: map[string]bool{}}).violation(&c, r)
	}
	return nil
}

func nm(s string) c06.Val { return c06.Val{T: "name", S: s} }

var none = c06.Val{T: "none"}

func dictVal(d c06.Dict) c06.Val {
	if d == nil {
		d = c06.Dict{}
	}
	return c06.Val{T: "dict", D: d}
}

func arr(v ...c06.Val) c06.Val { return c06.Val{T: "array", A: v} }

func intVal(i int64) c06.Val { return c06.Val{T: "int", I: i} }

func eq(a, b []byte) bool { return bytes.Equal(a, b) }
