package c08

import (
	"fmt"
	"sync"

	"verif/harness/core"
)

func runModels(ctx *core.Ctx) error {
	cfgs := []string{"MC_Envelope_q1.cfg", "MC_Envelope_q2.cfg"}
	if ctx.Thorough() {
		cfgs = []string{"MC_Envelope_t1.cfg", "MC_Envelope_t2.cfg"}
	}
	var wg sync.WaitGroup
	errs := make([]error, len(cfgs))
	for i, cfg := range cfgs {
		wg.Add(1)
		go func(i int, cfg string) {
			defer wg.Done()
			_, errs[i] = ctx.MustHold(core.TLCOpts{Dir: "filter", Module: "MC_Envelope", Cfg: cfg, Workers: 4, Constants: "see spec/filter/" + cfg, Timeout: ctx.Dur(5, 15)})
		}(i, cfg)
	}
	wg.Wait()
	for _, e := range errs {
		if e != nil {
			return e
		}
	}
	return nil
}

func run(ctx *core.Ctx) error {
	ctx.Ev.Rule = "evaluations = measured runs of pdf.DecodeStream on a hostile stream (plus one MakeFilter per generated dictionary); " +
		"distinct non-trivial = distinct (class, /Filter, /DecodeParms, body digest) with a non-empty body"
	ctx.Ev.Assume("totality and boundedness over all bodies are explored, not proved; Flate, JBIG2 and DCT internals are black boxes to the specification")
	ctx.Ev.Assume("allocation is measured as the growth of /gc/heap/allocs:bytes around one serial run; wall time constants are >= 20x the worst observation on the unchanged tree with a floor of 15 s; a watchdog hit is re-run before it counts")
	ctx.Ev.Assume("TLC evaluates Envelope.tla faithfully; the envelope constants mirror internal/limits (StreamBudget = 8 MiB + min(1024 x raw length, 256 MiB); MaxImageHeight 65536, MaxImagePixels 128 Mi)")
	rp := &reporter{ctx: ctx, seen: map[string]bool{}}
	if err := runModels(ctx); err != nil {
		return err
	}
	dc, drift, err := dictCases(ctx)
	if err != nil {
		return err
	}
	bc, blines, err := bodyCases(ctx)
	if err != nil {
		return err
	}
	var cases []*Case
	cases = append(cases, dc...)
	cases = append(cases, bc...)
	cases = append(cases, structureCases()...)
	cases = append(cases, mutationCases(ctx)...)
	bombs := bombCases(ctx)
	cases = append(cases, bombs...)
	ctx.Logf("cases: %d parameter dictionaries, %d token sequences, %d other", len(dc), len(bc), len(cases)-len(dc)-len(bc))

	// the runs are serial: allocation and goroutine counts are process wide
	recs := make([]Rec, len(cases))
	agree, disagree := 0, 0
	byOutcome := map[string]int{}
	for i, c := range cases {
		keep := i >= len(dc) && i < len(dc)+len(bc)
		recs[i] = measure(c, keep)
		ctx.Ev.Eval(1)
		byOutcome[recs[i].Outcome]++
		if len(c.Body()) > 0 {
			ctx.Ev.Distinct(fmt.Sprintf("%s/%s/%s/%x", c.Class, valString(c.Filter), valString(c.Parms), digest(c.Body())))
		}
		if keep { // informational: agreement with the format's reference decoder
			l := blines[i-len(dc)]
			if l.St == "eod" || l.St == "ok" {
				if recs[i].Outcome == "data" && eq(recs[i].out, toBytes(l.Data)) {
					agree++
				} else {
					disagree++
				}
			}
		}
		if c.BodyGen != "" {
			c.body = nil // large bodies are regenerated on demand
		}
	}
	ctx.Ev.Set("outcomes", byOutcome)
	ctx.Ev.Set("well_formed_token_sequences_decoded_as_specified", agree)
	ctx.Ev.Set("well_formed_token_sequences_decoded_differently", disagree)
	ctx.Ev.Set("parameter_clamp_disagreements", len(drift))

	bad, err := judge(ctx, recs)
	if err != nil {
		return err
	}
	for i := range cases {
		if bad[i] {
			rp.violation(cases[i], recs[i])
		}
	}
	worstWall, worstAlloc := 0, 0
	for _, r := range recs {
		if r.WallUs > worstWall {
			worstWall = r.WallUs
		}
		if r.AllocKB > worstAlloc {
			worstAlloc = r.AllocKB
		}
	}
	ctx.Ev.Set("worst_wall_us", worstWall)
	ctx.Ev.Set("worst_alloc_kb", worstAlloc)
	for i, c := range bombs {
		if i < 3 {
			ctx.Ev.Sample(map[string]any{"kind": "measured run judged by Trace_Envelope", "class": c.Class, "record": recs[len(cases)-len(bombs)+i]})
		}
	}
	if len(drift) > 0 && ctx.Violations() == 0 {
		return core.Infra("FilterParams.ImplParse and filter.go disagree on %d dictionaries (update the model), e.g. %s", len(drift), drift[0])
	}
	return nil
}
