package c08

import (
	"fmt"
	"sync"

	"verif/harness/core"
	"verif/harness/indep/codecs"
)

// specRec is a record for Trace_Codec (the format specification's opinion).
type specRec struct {
	Dir   string `json:"dir"`
	Fmt   string `json:"fmt"`
	Early int    `json:"early"`
	Enc   []int  `json:"enc"`
	Data  []int  `json:"data"`
	Err   int    `json:"err"`
}

func ints(b []byte) []int {
	v := make([]int, len(b))
	for i, x := range b {
		v[i] = int(x)
	}
	return v
}

func b2i(b bool) int {
	if b {
		return 1
	}
	return 0
}

func runModels(ctx *core.Ctx) error {
	cfgs := []string{"MC_Envelope_q1.cfg", "MC_Envelope_q2.cfg"}
	if ctx.Thorough() {
		cfgs = []string{"MC_Envelope_t1.cfg", "MC_Envelope_t2.cfg"}
	}
	var wg sync.WaitGroup
	errs := make([]error, len(cfgs))
	for i, cfg := range cfgs {
		wg.Add(1)
		go func(i int, cfg string) {
			defer wg.Done()
			_, errs[i] = ctx.MustHold(core.TLCOpts{Dir: "filter", Module: "MC_Envelope", Cfg: cfg, Workers: 4, Constants: "see spec/filter/" + cfg, Timeout: ctx.Dur(5, 15)})
		}(i, cfg)
	}
	wg.Wait()
	for _, e := range errs {
		if e != nil {
			return e
		}
	}
	return nil
}

func run(ctx *core.Ctx) error {
	ctx.Ev.Rule = "evaluations = measured runs of pdf.DecodeStream on a hostile stream (plus one MakeFilter per generated dictionary); " +
		"distinct non-trivial = distinct (class, /Filter, /DecodeParms, body digest) with a non-empty body"
	ctx.Ev.Assume("totality and boundedness over all bodies are explored, not proved; Flate, JBIG2 and DCT internals are black boxes to the specification")
	ctx.Ev.Assume("allocation is measured as the growth of /gc/heap/allocs:bytes around one serial run; wall time constants are >= 20x the worst observation on the unchanged tree with a floor of 15 s; a watchdog hit is re-run before it counts")
	ctx.Ev.Assume("TLC evaluates Envelope.tla faithfully; the envelope constants mirror internal/limits (StreamBudget = 8 MiB + min(1024 x raw length, 256 MiB); MaxImageHeight 65536, MaxImagePixels 128 Mi)")
	rp := &reporter{ctx: ctx, seen: map[string]bool{}}
	defer stopWorker()
	if err := runModels(ctx); err != nil {
		return err
	}
	dc, drift, err := dictCases(ctx)
	if err != nil {
		return err
	}
	bc, blines, err := bodyCases(ctx)
	if err != nil {
		return err
	}
	var cases []*Case
	cases = append(cases, dc...)
	cases = append(cases, bc...)
	cases = append(cases, structureCases()...)
	cases = append(cases, mutationCases(ctx)...)
	cases = append(cases, jbig2Cases(ctx)...)
	cases = append(cases, globalsCases()...)
	cases = append(cases, jpegCases(ctx)...)
	cases = append(cases, jbig2SymbolCases(ctx)...)
	cases = append(cases, budgetCases(ctx)...)
	lz := lzwStateCases(ctx)
	lzFrom := len(cases)
	cases = append(cases, lz...)
	bombs := bombCases(ctx)
	cases = append(cases, bombs...)
	ctx.Logf("cases: %d parameter dictionaries, %d token sequences, %d other", len(dc), len(bc), len(cases)-len(dc)-len(bc))

	// the runs are serial: allocation and goroutine counts are process wide
	recs := make([]Rec, len(cases))
	agree, disagree := 0, 0
	byOutcome := map[string]int{}
	hung := map[string]bool{}
	lzwAgree, lzwDiffer := 0, 0
	var specRecs []specRec
	for i, c := range cases {
		keep := i >= len(dc) && i < len(dc)+len(bc)
		isLZ := i >= lzFrom && i < lzFrom+len(lz)
		if hung[c.Class] {
			// a confirmed hang costs two watchdog periods and leaves a spinning
			// goroutine behind: one per class is enough
			recs[i] = Rec{Outcome: "data", RawLen: len(c.Body()), Class: c.Class, Note: "skipped after a hang in this class"}
			continue
		}
		var merr error
		recs[i], merr = measureAny(c, keep || isLZ, c.BodyGen != "")
		if merr != nil {
			return core.Infra("worker subprocess: %v", merr)
		}
		if recs[i].Outcome == "hang" {
			hung[c.Class] = true
		}
		if isLZ { // where the format defines the output: the independent decoder (validated against Lzw.tla by C07)
			early := int(c.Parms.D["EarlyChange"].I)
			if want, err := codecs.LZWDecode(c.Body(), early); err == nil {
				if recs[i].Outcome == "data" && eq(recs[i].out, want) {
					lzwAgree++
				} else {
					lzwDiffer++
				}
				if len(specRecs) < ctx.Pick(24, 120) && (i*7)%5 == 0 {
					specRecs = append(specRecs, specRec{Dir: "dec", Fmt: "lzw", Early: early, Enc: ints(c.Body()), Data: ints(recs[i].out), Err: b2i(recs[i].Outcome != "data")})
				}
			}
			recs[i].out = nil
		}
		ctx.Ev.Eval(1)
		byOutcome[recs[i].Outcome]++
		if len(c.Body()) > 0 {
			ctx.Ev.Distinct(fmt.Sprintf("%s/%s/%s/%x", c.Class, valString(c.Filter), valString(c.Parms), digest(c.Body())))
		}
		if keep { // informational: agreement with the format's reference decoder
			l := blines[i-len(dc)]
			if l.St == "eod" || l.St == "ok" {
				if recs[i].Outcome == "data" && eq(recs[i].out, toBytes(l.Data)) {
					agree++
				} else {
					disagree++
				}
			}
		}
		if c.BodyGen != "" {
			c.body = nil // large bodies are regenerated on demand
		}
		if c.Globals != nil && c.Globals.BodyGen != "" {
			c.Globals.body = nil
		}
	}
	ctx.Ev.Set("outcomes", byOutcome)
	ctx.Ev.Set("well_formed_token_sequences_decoded_as_specified", agree)
	ctx.Ev.Set("well_formed_token_sequences_decoded_differently", disagree)
	ctx.Ev.Set("parameter_clamp_disagreements", len(drift))
	ctx.Ev.Set("lzw_state_cases", len(lz))
	ctx.Ev.Set("lzw_state_cases_well_formed_decoded_as_specified", lzwAgree)
	ctx.Ev.Set("lzw_state_cases_well_formed_decoded_differently", lzwDiffer)
	// a sample of the well-formed ones is also put before Lzw.RefDecode in TLC
	// (informational for C08: the envelope alone decides verdicts here)
	if len(specRecs) > 0 {
		badSpec, err := core.JudgeCases(ctx, core.TLCOpts{Dir: "filter", Module: "Trace_Codec", Cfg: "Trace_Codec.cfg", XssMB: 1024, Timeout: ctx.Dur(10, 30)}, specRecs, 8, 12)
		if err != nil {
			return err
		}
		ctx.Ev.Set("lzw_state_cases_judged_by_RefDecode", len(specRecs))
		ctx.Ev.Set("lzw_state_cases_rejected_by_RefDecode", len(badSpec))
	}

	bad, err := judge(ctx, recs)
	if err != nil {
		return err
	}
	// A record outside the envelope counts only when the case, run again in
	// isolation (after a garbage collection, nothing else going on in the
	// process), is outside the envelope again.
	var again []int
	for i := range cases {
		if bad[i] {
			again = append(again, i)
		}
	}
	unconfirmed := 0
	if len(again) > 0 {
		if len(again) > 200 {
			again = again[:200]
		}
		confirm := make([]Rec, len(again))
		for k, i := range again {
			var merr error
			confirm[k], merr = measureAny(cases[i], false, true)
			if merr != nil {
				return core.Infra("worker subprocess: %v", merr)
			}
			ctx.Ev.Eval(1)
			if cases[i].BodyGen != "" {
				cases[i].body = nil
			}
		}
		bad2, err := judge(ctx, confirm)
		if err != nil {
			return err
		}
		for k, i := range again {
			if bad2[k] {
				rp.violation(cases[i], confirm[k])
			} else {
				unconfirmed++
				ctx.Logf("not confirmed in isolation (no verdict): %s: first %+v, again %+v", cases[i].Class, recs[i], confirm[k])
			}
		}
	}
	ctx.Ev.Set("envelope_rejections_not_confirmed_in_isolation", unconfirmed)
	worstWall, worstAlloc := 0, 0
	for _, r := range recs {
		if r.WallUs > worstWall {
			worstWall = r.WallUs
		}
		if r.AllocKB > worstAlloc {
			worstAlloc = r.AllocKB
		}
	}
	ctx.Ev.Set("worst_wall_us", worstWall)
	closest, closestClass := 0, ""
	for _, r := range recs {
		limit := 8192 + min(r.RawLen+1, 262144) + 6144 + r.Produced/256 + r.AllowKB
		if pct := r.AllocKB * 100 / limit; pct > closest {
			closest, closestClass = pct, r.Class
		}
	}
	ctx.Ev.Set("closest_to_allocation_limit_percent", closest)
	ctx.Ev.Set("closest_to_allocation_limit_class", closestClass)
	ctx.Ev.Set("worst_alloc_kb", worstAlloc)
	for i, c := range bombs {
		if i < 3 {
			ctx.Ev.Sample(map[string]any{"kind": "measured run judged by Trace_Envelope", "class": c.Class, "record": recs[len(cases)-len(bombs)+i]})
		}
	}
	if len(drift) > 0 && ctx.Violations() == 0 {
		return core.Infra("FilterParams.ImplParse and filter.go disagree on %d dictionaries (update the model), e.g. %s", len(drift), drift[0])
	}
	return nil
}
