package c08

import (
	"crypto/sha256"

	"verif/harness/core"
)

func digest(b []byte) []byte {
	h := sha256.Sum256(b)
	return h[:8]
}

// selfTest: (i) a record moved outside the envelope in one field must be
// rejected, intact ones accepted; (ii) the defective budget protocols must
// violate the design model.
func selfTest(ctx *core.Ctx) error {
	c := &Case{Class: "selftest", Filter: nm("FlateDecode"), Parms: none, BodyGen: "flate-zeros:100000"}
	good := measure(c, false, true)
	if good.Outcome != "data" || good.Produced != 100000 {
		return core.Infra("self-test: base case failed: %+v", good)
	}
	recs := []Rec{good, good, good, good, good, good, good}
	recs[1].Outcome = "readError"
	recs[2].AllocKB = 8192 + good.RawLen + 6144 + good.Produced/256 + 2
	recs[3].WallUs = 15000000 + 1000*((good.RawLen+good.Produced)/1000+1) + 1
	recs[4].Leaked = 1
	recs[5].CapBytes, recs[5].Produced = 1000, 1001
	recs[6].Outcome = "panic"
	bad, err := judge(ctx, recs)
	if err != nil {
		return err
	}
	for i := range recs {
		if bad[i] != (i > 0) {
			return core.Infra("self-test: record %d rejected=%v", i, bad[i])
		}
	}
	ctx.Logf("self-test (i): intact record accepted; read error, allocation, time, goroutine, output bound and panic each rejected")
	for _, nc := range []struct{ cfg, inv string }{{"MC_Envelope_bad_alloc.cfg", "WithinBudget"}, {"MC_Envelope_bad_share.cfg", "WithinBudget"}} {
		r, err := ctx.TLC(core.TLCOpts{Dir: "filter", Module: "MC_Envelope", Cfg: nc.cfg, Workers: 2, Mode: "negative-control"})
		if err != nil {
			return err
		}
		if r.Invariant != nc.inv {
			return core.Infra("self-test: %s should violate %s, got %q", nc.cfg, nc.inv, r.Invariant)
		}
	}
	ctx.Logf("self-test (ii): allocate-before-charge and per-stage budgets violate WithinBudget in the model")
	return nil
}
