package c11

import (
	"bytes"
	"fmt"
	"io"
	"sort"

	"seehuhn.de/go/pdf"

	"verif/harness/drive/shared"
	"verif/harness/indep/obj"
	"verif/harness/indep/secure"
	"verif/harness/indep/strict"
)

// fileAccess reads indirect objects of a closed file: the value (streams as
// *obj.Stream with their dictionary; Raw is not used), for streams the
// identity of the decoded bytes, and how the number is known to the file.
type fileAccess interface {
	// get returns status "inuse" | "free" | "dangling".
	get(ref obj.Ref) (v obj.Value, body string, status string, err error)
	// lookup resolves a reference for /DecodeParms (no decryption needed).
	lookup(ref obj.Ref) (obj.Value, bool)
}

// ---- the independent strict parser ----------------------------------------

type strictFile struct {
	f       *strict.File
	decrypt strict.DecryptFunc
}

func openStrict(data []byte, password string) (*strictFile, error) {
	f, err := strict.Parse(data)
	if err != nil {
		return nil, err
	}
	sf := &strictFile{f: f}
	if !f.Encrypted {
		return sf, nil
	}
	tr := f.Trailer()
	encV := tr["Encrypt"]
	if ref, isRef := encV.(obj.Ref); isRef {
		v, ok := f.Lookup(ref)
		if !ok {
			return nil, fmt.Errorf("dangling /Encrypt")
		}
		encV = v
	}
	enc, ok := encV.(obj.Dict)
	if !ok {
		return nil, fmt.Errorf("/Encrypt is not a dictionary")
	}
	var id0 []byte
	if ids, ok := tr["ID"].(obj.Array); ok && len(ids) > 0 {
		if s, ok := ids[0].(obj.Str); ok {
			id0 = s
		}
	}
	h, err := secure.Parse(enc, id0)
	if err != nil {
		return nil, err
	}
	key, _, err := h.Authenticate(password)
	if err != nil {
		return nil, err
	}
	encRef, encIsRef := tr["Encrypt"].(obj.Ref)
	sf.decrypt = func(ref obj.Ref, isStream bool, data []byte) ([]byte, error) {
		if encIsRef && ref == encRef {
			return data, nil
		}
		k, aes, ok := h.KeyFor(key, ref.Num, ref.Gen, isStream)
		if !ok {
			return data, nil
		}
		return secure.Decrypt(k, aes, data)
	}
	if err := f.SetDecrypt(sf.decrypt); err != nil {
		return nil, err
	}
	return sf, nil
}

// leadingCrypt reports the explicit crypt filter of a stream dictionary:
// "default" (none), "identity" or "named".
func leadingCrypt(d obj.Dict, res strict.Resolver) string {
	fs, err := strict.Filters(d, res)
	if err != nil || len(fs) == 0 || fs[0].Name != "Crypt" {
		return "default"
	}
	if n, ok := fs[0].Parms["Name"].(obj.Name); ok && n != "Identity" {
		return "named"
	}
	return "identity"
}

func (sf *strictFile) resolver() strict.Resolver {
	return func(r obj.Ref) (obj.Value, bool) { return sf.f.Lookup(r) }
}

func (sf *strictFile) lookup(ref obj.Ref) (obj.Value, bool) { return sf.f.Lookup(ref) }

func (sf *strictFile) get(ref obj.Ref) (obj.Value, string, string, error) {
	f := sf.f
	v, ok := f.Lookup(ref)
	if !ok {
		if int64(ref.Num) >= f.Size() {
			return nil, "", "dangling", nil
		}
		if e, has := f.Table()[ref.Num]; has && e.Type != strict.Free {
			return nil, "", "dangling", nil // in use with another generation
		}
		return nil, "", "free", nil
	}
	o, idx := f.LookupObject(ref)
	inObjStm := idx >= 0
	st, isStream := v.(*obj.Stream)
	if !isStream {
		if sf.decrypt != nil && !inObjStm {
			d, err := f.DecryptValue(ref, v)
			if err != nil {
				return nil, "", "inuse", err
			}
			v = d
		}
		return v, "", "inuse", nil
	}
	_ = o
	dict := st.Dict
	raw := st.Raw
	cf := leadingCrypt(dict, sf.resolver())
	if sf.decrypt != nil {
		d, err := f.DecryptValue(ref, dict)
		if err != nil {
			return nil, "", "inuse", err
		}
		dict = d.(obj.Dict)
		if cf == "default" || cf == "named" { // /StdCF names the filter that is the default anyway
			raw, err = sf.decrypt(ref, true, raw)
			if err != nil {
				return &obj.Stream{Dict: dict}, "undecodable:decrypt", "inuse", nil
			}
		}
	}
	body := ""
	plain := obj.Dict{}
	for k, e := range dict {
		plain[k] = e
	}
	if cf == "named" {
		// decode as if the leading /Crypt were not there
		stripLeadingCrypt(plain, sf.resolver())
	}
	dec, err := strict.Decode(plain, raw, sf.resolver())
	if err != nil {
		body = "undecodable"
	} else {
		body = bodyID(dec)
	}
	return &obj.Stream{Dict: dict}, body + "|" + cf, "inuse", nil
}

func stripLeadingCrypt(d obj.Dict, res strict.Resolver) {
	resolve := func(v obj.Value) obj.Value {
		for i := 0; i < 8; i++ {
			r, ok := v.(obj.Ref)
			if !ok {
				return v
			}
			w, ok := res(r)
			if !ok {
				return obj.Null{}
			}
			v = w
		}
		return obj.Null{}
	}
	if fa, ok := resolve(d["Filter"]).(obj.Array); ok && len(fa) > 0 {
		d["Filter"] = fa[1:]
		if pa, ok := resolve(d["DecodeParms"]).(obj.Array); ok && len(pa) > 0 {
			d["DecodeParms"] = pa[1:]
		}
		if len(fa) == 1 {
			delete(d, "Filter")
			delete(d, "DecodeParms")
		}
	} else {
		delete(d, "Filter")
		delete(d, "DecodeParms")
	}
}

// ---- go-pdf's own Reader ---------------------------------------------------

type libFile struct{ r *pdf.Reader }

func openLib(data []byte, password string) (*libFile, error) {
	r, err := pdf.NewReader(bytes.NewReader(data), int64(len(data)), &pdf.ReaderOptions{Password: password})
	if err != nil {
		return nil, err
	}
	return &libFile{r}, nil
}

func (lf *libFile) lookup(r obj.Ref) (obj.Value, bool) {
	y, err := lf.r.Get(pdf.NewReference(r.Num, r.Gen), true)
	if err != nil || y == nil {
		return obj.Null{}, false
	}
	if st, isStm := y.(*pdf.Stream); isStm {
		d, _ := shared.FromPDF(st.Dict).(obj.Dict)
		return &obj.Stream{Dict: d}, true
	}
	return shared.FromPDF(y), true
}

func (lf *libFile) get(ref obj.Ref) (obj.Value, string, string, error) {
	x, err := lf.r.Get(pdf.NewReference(ref.Num, ref.Gen), true)
	if err != nil {
		return nil, "", "inuse", err
	}
	if x == nil {
		return obj.Null{}, "", "inuse", nil // the Reader does not tell null from undefined
	}
	st, isStream := x.(*pdf.Stream)
	if !isStream {
		return shared.FromPDF(x), "", "inuse", nil
	}
	d, _ := shared.FromPDF(st.Dict).(obj.Dict)
	if d == nil {
		d = obj.Dict{}
	}
	body := "undecodable"
	rc, err := pdf.DecodeStream(lf.r, nil, st)
	if err == nil {
		dec, err := io.ReadAll(rc)
		rc.Close()
		if err == nil {
			body = bodyID(dec)
		}
	}
	res := func(r obj.Ref) (obj.Value, bool) {
		y, err := lf.r.Get(pdf.NewReference(r.Num, r.Gen), true)
		if err != nil || y == nil {
			return obj.Null{}, false
		}
		if _, isStm := y.(*pdf.Stream); isStm {
			return obj.Null{}, false
		}
		return shared.FromPDF(y), true
	}
	return &obj.Stream{Dict: d}, body + "|" + leadingCrypt(d, res), "inuse", nil
}

// ---- projections -----------------------------------------------------------

// valueOf converts what get returned into the vocabulary of the specification.
func valueOf(fa fileAccess, v obj.Value, body string) Val {
	if st, ok := v.(*obj.Stream); ok {
		id, cf := body, "default"
		for i := len(body) - 1; i >= 0; i-- {
			if body[i] == '|' {
				id, cf = body[:i], body[i+1:]
				break
			}
		}
		return fromStreamDict(st.Dict, id, cf, fa.lookup)
	}
	return fromObj(v)
}

// sourceGraph reads the objects nums of a source file.
func sourceGraph(fa fileAccess, nums []int) (Graph, error) {
	g := Graph{}
	for _, n := range nums {
		v, body, status, err := fa.get(refOf(n))
		if err != nil {
			return nil, fmt.Errorf("object %d: %v", n, err)
		}
		switch status {
		case "free":
			g[n] = Node{K: "free"}
		case "dangling":
			// not an object of the file
		default:
			if r, isRef := v.(obj.Ref); isRef {
				g[n] = Node{K: "ref", To: numOf(r)}
			} else {
				val := valueOf(fa, v, body)
				g[n] = Node{K: "val", V: &val}
			}
		}
	}
	return g, nil
}

// DstObj is one object of the target file.
type DstObj struct {
	N int `json:"n"`
	V Val `json:"v"`
}

// targetObjects collects the target objects reachable from the values vals.
// stop lists objects whose content is not followed (Redirect targets).
func targetObjects(fa fileAccess, vals []Val, stop map[int]bool) ([]DstObj, error) {
	seen := map[int]bool{}
	var queue []int
	push := func(v Val) {
		for _, n := range v.refs(nil) {
			if !seen[n] {
				seen[n] = true
				queue = append(queue, n)
			}
		}
	}
	for _, v := range vals {
		push(v)
	}
	out := []DstObj{}
	for len(queue) > 0 {
		n := queue[0]
		queue = queue[1:]
		v, body, status, err := fa.get(refOf(n))
		if err != nil {
			return nil, fmt.Errorf("target object %d: %v", n, err)
		}
		if status != "inuse" {
			continue // a reference to an undefined object: not in DOMAIN D
		}
		val := valueOf(fa, v, body)
		out = append(out, DstObj{N: n, V: val})
		if !stop[n] {
			push(val)
		}
	}
	sort.Slice(out, func(i, j int) bool { return out[i].N < out[j].N })
	return out, nil
}

// duplicates lists object numbers defined more than once in a (strictly
// parsed) file.
func duplicates(f *strict.File) []int {
	count := map[uint32]int{}
	for _, o := range f.Objects {
		count[o.Ref.Num]++
		if o.ObjStm != nil {
			for _, m := range o.ObjStm.Members {
				count[m.Num]++
			}
		}
	}
	out := []int{}
	for n, c := range count {
		if c > 1 {
			out = append(out, int(n))
		}
	}
	sort.Ints(out)
	return out
}
