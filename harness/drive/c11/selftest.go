package c11

import (
	"encoding/json"
	"fmt"
	"regexp"
	"strings"

	"verif/harness/core"
)

var reZero = regexp.MustCompile(`(?m)^<(\w+) line [^>]*>: 0:0$`)

func deepCopy(rec *Record) *Record {
	b, _ := json.Marshal(rec)
	var out Record
	if err := json.Unmarshal(b, &out); err != nil {
		panic(err)
	}
	out.job, out.src = rec.job, rec.src
	return &out
}

func mapRefs(v Val, f func(int) int) Val {
	switch v.T {
	case "r":
		return rf(f(v.N))
	case "a", "d", "st":
		w := v
		w.E = make([]Val, len(v.E))
		for i, e := range v.E {
			w.E[i] = mapRefs(e, f)
		}
		return w
	}
	return v
}

// selfTest: (i) corrupted records of a real run are rejected one by one and
// a consistent renumbering of the target is accepted; (ii) the copier as
// coded at the pinned commit and three mutations violate the design model;
// (iii) a wrong table expectation is noticed; (iv) every action of the
// machine is taken.
func selfTest(ctx *core.Ctx) error {
	// a run the copier gets right also at the pinned commit: a cycle 1 <-> 2,
	// object 2 shared, a free object, a repeated CopyReference
	v1 := ar(sc("i:7"), rf(2), rf(2))
	v2 := di([]string{"A", "B"}, []Val{rf(1), sc("s:736563726574")})
	arg := ar(rf(3), rf(2))
	job := Job{Nodes: []Node{{N: 1, K: "val", V: &v1}, {N: 2, K: "val", V: &v2}, {N: 3, K: "free"}},
		Calls:  []Call{{Op: "ref", N: 1}, {Op: "ref", N: 1}, {Op: "val", V: &arg}},
		Src:    SrcSpec{Enc: "rc4", Via: "ser", Seed: 5},
		Dst:    DstSpec{Version: "2.0", Encrypt: true},
		Origin: "selftest"}
	good, err := Execute(&job)
	if err != nil {
		return core.Infra("self-test: %v", err)
	}
	if good.Outcome != "ok" || len(good.Views) != 2 {
		return core.Infra("self-test: the reference run fails: %s %s", good.Outcome, good.Msg)
	}
	good.ID = "good"

	scalar := deepCopy(good) // a scalar of a copied object differs (strict view)
	for i := range scalar.Views[0].Dst {
		if scalar.Views[0].Dst[i].V.T == "a" && len(scalar.Views[0].Dst[i].V.E) == 3 {
			scalar.Views[0].Dst[i].V.E[0] = sc("i:8")
		}
	}
	repeat := deepCopy(good) // the second CopyReference(1) returns another object
	repeat.Events[1].D += 50
	twice := deepCopy(good) // the shared object 2 has two copies (library view)
	for i := range twice.Views[1].Dst {
		o := &twice.Views[1].Dst[i]
		if o.V.T == "a" && len(o.V.E) == 3 {
			shared := o.V.E[2].N
			o.V.E[2] = rf(shared + 70)
			for _, p := range twice.Views[1].Dst {
				if p.N == shared {
					twice.Views[1].Dst = append(twice.Views[1].Dst, DstObj{N: shared + 70, V: p.V})
				}
			}
			break
		}
	}
	renum := deepCopy(good) // positive control: target numbers are never compared
	for vi := range renum.Views {
		for i := range renum.Views[vi].Dst {
			renum.Views[vi].Dst[i].N = 1000 - renum.Views[vi].Dst[i].N
			renum.Views[vi].Dst[i].V = mapRefs(renum.Views[vi].Dst[i].V, func(n int) int { return 1000 - n })
		}
		for i := range renum.Views[vi].Roots {
			renum.Views[vi].Roots[i].D = mapRefs(renum.Views[vi].Roots[i].D, func(n int) int { return 1000 - n })
		}
	}
	for i := range renum.Events {
		renum.Events[i].D = 1000 - renum.Events[i].D
	}
	panicked := deepCopy(good)
	panicked.Outcome, panicked.Views = "panic", []View{}
	failed := deepCopy(good) // an error is acceptable only for the documented gap
	failed.Outcome, failed.Views = "error", []View{}
	// F4 as a record: the source entry is [], the copy holds null / holds []
	emptyNull, emptyKept := deepCopy(good), deepCopy(good)
	for _, r := range []*Record{emptyNull, emptyKept} {
		for i := range r.Src {
			if r.Src[i].K == "val" && r.Src[i].V.T == "d" {
				r.Src[i].V.E[1] = ar()
			}
		}
	}
	for _, c := range []struct {
		r *Record
		v Val
	}{{emptyNull, nul()}, {emptyKept, ar()}} {
		for vi := range c.r.Views {
			for i := range c.r.Views[vi].Dst {
				if c.r.Views[vi].Dst[i].V.T == "d" {
					c.r.Views[vi].Dst[i].V.E[1] = c.v
				}
			}
		}
	}
	dup := deepCopy(good)
	dup.Views[0].Dup = []int{3}

	recs := []*Record{good, scalar, repeat, good, twice, renum, panicked, failed, emptyNull, emptyKept, dup}
	bad, err := core.JudgeCases(ctx, judgeOpts, recs, 20, 1)
	if err != nil {
		return err
	}
	if fmt.Sprint(bad) != "[1 2 4 6 7 8 10]" {
		return core.Infra("self-test: corrupted records not singled out: rejected %v, want [1 2 4 6 7 8 10]", bad)
	}
	for i, r := range recs {
		rejected := false
		for _, b := range bad {
			rejected = rejected || b == i
		}
		if goVerdict(r) == rejected {
			return core.Infra("self-test: the harness's mirror of the correspondence disagrees with TLC on record %d", i)
		}
	}
	ctx.Logf("self-test (i): 7 corrupted records rejected (scalar, repeat, copied twice, panic, error, [] -> null, object written twice); intact, renumbered and []-kept records accepted")

	// (ii) negative controls of the design model
	for _, nc := range []struct{ cfg, inv string }{
		{"MC_Copier_neg_f4.cfg", "Shape"}, {"MC_Copier_neg_f4b.cfg", "NoPanic"}, {"MC_Copier_neg_f10.cfg", "Sharing"},
		{"MC_Copier_neg_f10once.cfg", "Once"}, {"MC_Copier_neg_recordafter.cfg", "Terminates"},
		{"MC_Copier_neg_dropparms.cfg", "Shape"}, {"MC_Copier_neg_verbatim.cfg", "Shape"},
		{"MC_Copier_neg_keynum.cfg", "Shape"}, {"MC_Copier_neg_cryptprobe.cfg", "Shape"},
		{"MC_Copier_neg_inlinedasis.cfg", "Shape"}, {"MC_Copier_neg_boundbeforeread.cfg", "Shape"},
		{"MC_Copier_neg_sharedbuffer.cfg", "Shape"}, {"MC_Copier_neg_sharedbufferopen.cfg", "Shape"},
	} {
		res, err := ctx.TLC(core.TLCOpts{Dir: "graph", Module: "MC_Copier", Cfg: nc.cfg, Workers: 4, Mode: "negative-control", XssMB: 512})
		if err != nil {
			return err
		}
		if res.Invariant != nc.inv {
			return core.Infra("self-test: %s should violate %s, got %q", nc.cfg, nc.inv, res.Invariant)
		}
	}
	// the copier exactly as coded (all three switches) fails the design check at once
	res, err := ctx.TLC(core.TLCOpts{Dir: "graph", Module: "MC_Copier", Cfg: "MC_Copier_ascoded.cfg", Workers: 4, Mode: "negative-control", XssMB: 512})
	if err != nil {
		return err
	}
	if res.Invariant == "" {
		return core.Infra("self-test: the model of the copier as coded should not satisfy the design invariants")
	}
	ctx.Logf("self-test (ii): the copier as coded violates Shape (F4), NoPanic (F4b), Sharing and Once (F10); trans recorded after recursing violates Terminates; dropped /DecodeParms, verbatim reuse of encrypted bytes, trans keyed by object number, an unresolved first /Filter element and untranslated references inside /DecodeParms violate Shape")

	// (iii) a wrong expectation of the generated table
	g := Graph{}
	for _, nd := range good.Src {
		g[nd.N] = nd
	}
	j2 := job
	j2.HasModel, j2.ModelNimg = true, 2
	good.job = &j2
	if tableSuspect(g, good) {
		return core.Infra("self-test: correct table expectation flagged")
	}
	j2.ModelNimg = 3
	if !tableSuspect(g, good) {
		return core.Infra("self-test: wrong table expectation not noticed")
	}
	ctx.Logf("self-test (iii): wrong table expectation noticed")

	// (iv) every action of the machine is taken (CopyDictNilPanics exists only in the copier as coded: see (ii))
	zero := map[string]int{}
	var states int64
	for _, cfg := range []string{"MC_Copier_cov1.cfg", "MC_Copier_cov2.cfg"} {
		res, err := ctx.TLC(core.TLCOpts{Dir: "graph", Module: "MC_Copier", Cfg: cfg, Workers: 6, Mode: "coverage", Coverage: true, XssMB: 512, Timeout: ctx.Dur(10, 10)})
		if err != nil {
			return err
		}
		if !res.OK() {
			return core.Infra("self-test: coverage model %s fails: %s", cfg, res.Invariant)
		}
		// only the final coverage report counts (TLC also prints interim ones)
		out := res.Output
		if i := strings.LastIndex(out, "The coverage statistics at"); i >= 0 {
			out = out[i:]
		}
		for _, m := range reZero.FindAllStringSubmatch(out, -1) {
			zero[m[1]]++
		}
		states += res.Distinct
	}
	for a, n := range zero {
		if n == 2 && a != "CopyDictNilPanics" && a != "ResolveGiveUp" { // these two exist only in negative controls, see (ii)
			return core.Infra("self-test: action %s is never taken", a)
		}
	}
	ctx.Logf("self-test (iv): every action of Copier.tla is taken (%d states)", states)
	return nil
}
