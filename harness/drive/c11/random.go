package c11

import (
	"fmt"
	"math/rand"

	"verif/harness/core"
)

// randomJobs draws larger source graphs (6-12 objects: cycles, chains, shared
// objects, free and undefined references, streams in every spelling) and call
// sequences; the runs are judged by the same Trace_Copier.
func randomJobs(ctx *core.Ctx) []Job {
	rng := ctx.Rand("random-graphs")
	n := ctx.Pick(120, 1500)
	var jobs []Job
	for i := 0; i < n; i++ {
		jobs = append(jobs, randomJob(rng, i))
	}
	return jobs
}

var randAtoms = []string{"i:7", "i:0", "i:-5", "r:2.5", "r:-0.25", "b:true", "b:false", "n:Name", "n:A B",
	"s:68656c6c6f", "s:", "s:00ff0a0d28295c", "s:feff00e9"}

func randomJob(rng *rand.Rand, idx int) Job {
	nn := 6 + rng.Intn(7)
	srcEnc := []string{"none", "rc4", "aes"}[rng.Intn(3)]
	g := &rgen{rng: rng, n: nn, enc: srcEnc}
	job := Job{Origin: "random"}
	refTargets := map[int]bool{}
	twinned := map[int]bool{}
	for i := 1; i <= nn; i++ {
		nd := Node{N: i}
		// a stale reference: the number of an earlier object, another generation
		if i > 2 && rng.Intn(8) == 0 {
			j := 1 + rng.Intn(i-1)
			if k := job.Nodes[j-1]; (k.K == "val" || k.K == "ref") && k.Twin == 0 && !twinned[j] {
				twinned[j] = true
				nd.K, nd.Twin = "dangling", j
				job.Nodes = append(job.Nodes, nd)
				continue
			}
		}
		switch k := rng.Intn(20); {
		case k < 2:
			nd.K = "free"
		case k < 3:
			nd.K = "dangling"
		case k < 6:
			nd.K, nd.To = "ref", 1+rng.Intn(nn)
			refTargets[nd.To] = true
		default:
			nd.K = "val"
			v := g.objectValue()
			nd.V = &v
		}
		job.Nodes = append(job.Nodes, nd)
	}
	if g.aux {
		f := sc("n:FlateDecode")
		p := di([]string{"Columns", "Predictor"}, []Val{sc("i:4"), sc("i:12")})
		pr := di([]string{"Columns", "JBIG2Globals", "Predictor"}, []Val{sc("i:4"), rf(1 + rng.Intn(nn)), sc("i:12")})
		pa := ar(nul(), pr)
		job.Nodes = append(job.Nodes, Node{N: nn + 1, K: "val", V: &f}, Node{N: nn + 2, K: "val", V: &p}, Node{N: nn + 3, K: "ref", To: nn + 1},
			Node{N: nn + 4, K: "val", V: &pr}, Node{N: nn + 5, K: "val", V: &pa})
	}
	// calls
	kinds := map[int]Node{}
	for _, nd := range job.Nodes {
		kinds[nd.N] = nd
	}
	nc := 1 + rng.Intn(3)
	redirected := map[int]bool{}
	for c := 0; c < nc; c++ {
		m := 1 + rng.Intn(nn)
		switch k := rng.Intn(10); {
		case k == 0 && c == 0 && kinds[m].K == "val" && kinds[m].V.T != "z" && !refTargets[m]:
			job.Calls = append(job.Calls, Call{Op: "redirect", N: m})
			redirected[m] = true
			nc++
		case k < 5:
			job.Calls = append(job.Calls, Call{Op: "ref", N: m})
		case k < 7 && kinds[m].K == "val" && kinds[m].V.T != "z" && !redirected[m]:
			job.Calls = append(job.Calls, Call{Op: "obj", N: m})
		default:
			var v Val
			if rng.Intn(2) == 0 {
				v = ar(rf(m), rf(1+rng.Intn(nn)), g.slot(1))
			} else {
				v = di([]string{"A", "B"}, []Val{rf(m), g.slot(1)})
			}
			job.Calls = append(job.Calls, Call{Op: "val", V: &v})
		}
	}
	// a Redirect must come before every copy and a redirected object must not be inside a chain
	job.Src = SrcSpec{Enc: srcEnc, Via: "ser", Seed: int64(idx)*977 + rng.Int63n(1000)}
	if writerCan(job.graph()) && rng.Intn(3) == 0 {
		job.Src.Via = "writer"
	}
	job.Dst = dstSpecs[rng.Intn(len(dstSpecs))]
	job.Dst.Human = rng.Intn(4) == 0
	job.Dst.Seek = rng.Intn(2) == 0
	job.Dst.Open = rng.Intn(3) == 0
	job.Dst.LatePut = rng.Intn(2) == 0
	job.Origin = fmt.Sprintf("random/%d", idx)
	return job
}

type rgen struct {
	rng *rand.Rand
	n   int
	enc string
	aux bool
}

func (g *rgen) atom() Val { return sc(randAtoms[g.rng.Intn(len(randAtoms))]) }

// slot draws a value that may sit inside a container; depth counts the
// containers around it.
func (g *rgen) slot(depth int) Val {
	switch k := g.rng.Intn(12); {
	case k < 3:
		return g.atom()
	case k < 4:
		return nul()
	case k < 5:
		return ar()
	case k < 6:
		return di(nil, nil)
	case k < 9 || depth >= 2:
		return rf(1 + g.rng.Intn(g.n))
	case k < 11:
		return g.array(depth + 1)
	default:
		return g.dict(depth + 1)
	}
}

func (g *rgen) array(depth int) Val {
	v := Val{T: "a"}
	for i := g.rng.Intn(4); i > 0; i-- {
		v.E = append(v.E, g.slot(depth))
	}
	return v
}

func (g *rgen) dict(depth int) Val {
	v := Val{T: "d"}
	keys := []string{"A", "B", "Kids", "Parent", "Z"}
	for _, k := range keys {
		if g.rng.Intn(5) < 2 {
			v.K = append(v.K, k)
			v.E = append(v.E, g.slot(depth))
		}
	}
	return v
}

func (g *rgen) objectValue() Val {
	switch k := g.rng.Intn(12); {
	case k < 1:
		return g.atom()
	case k < 2:
		return nul()
	case k < 6:
		return g.array(0)
	case k < 10:
		return g.dict(0)
	}
	// stream
	st := Val{T: "st", Body: "b", CF: "default"}
	if g.enc != "none" {
		st.CF = []string{"default", "default", "identity", "named"}[g.rng.Intn(4)]
	} else if g.rng.Intn(4) == 0 {
		st.CF = "identity"
	}
	st.CFI = st.CF != "default" && g.rng.Intn(2) == 0
	n := g.n
	parms := di([]string{"Columns", "Predictor"}, []Val{sc("i:4"), sc("i:12")})
	pref := func() Val {
		return di([]string{"Columns", "JBIG2Globals", "Predictor"}, []Val{sc("i:4"), rf(1 + g.rng.Intn(g.n)), sc("i:12")})
	}
	f2 := ar(sc("n:ASCIIHexDecode"), sc("n:FlateDecode"))
	switch g.rng.Intn(10) {
	case 6: // parameters referring to a further object (as /JBIG2Globals does)
		st.K, st.E = []string{"DecodeParms", "Filter"}, []Val{pref(), sc("n:FlateDecode")}
	case 7:
		st.K, st.E = []string{"DecodeParms", "Filter"}, []Val{ar(nul(), pref()), f2}
	case 8:
		st.K, st.E = []string{"DecodeParms", "Filter"}, []Val{rf(n + 4), sc("n:FlateDecode")}
		g.aux = true
	case 9:
		st.K, st.E = []string{"DecodeParms", "Filter"}, []Val{rf(n + 5), f2}
		g.aux = true
		st.CF, st.CFI = "default", false // an indirect array cannot be given a leading /Crypt element
	case 0:
	case 1:
		st.K, st.E = []string{"DecodeParms", "Filter"}, []Val{parms, sc("n:FlateDecode")}
	case 2:
		st.K, st.E = []string{"DecodeParms", "Filter"}, []Val{rf(n + 2), rf(n + 1)}
		g.aux = true
	case 3:
		st.K, st.E = []string{"DecodeParms", "Filter"}, []Val{ar(rf(n + 2)), ar(rf(n + 1))}
		g.aux = true
	case 4:
		st.K, st.E = []string{"DecodeParms", "Filter"}, []Val{parms, rf(n + 3)}
		g.aux = true
	case 5:
		st.K, st.E = []string{"Filter"}, []Val{sc("n:FlateDecode")}
	}
	for _, k := range []string{"K", "Sub"} {
		if g.rng.Intn(2) == 0 {
			st.K = append(st.K, k)
			st.E = append(st.E, g.slot(1))
		}
	}
	return st
}

// depthJobs builds chains of references around the longest one a reader of
// the source follows (limits.MaxExtractDepth = 256 references): r1 -> r2 ->
// ... -> rk -> object.  Up to 256 the chain denotes the object from every
// entry; beyond, the head is null (and only the head and the last reference
// are used: entering an over-long chain in the middle is outside the
// property, see CopierRef!Ambiguous).
func depthJobs(ctx *core.Ctx) []Job {
	rng := ctx.Rand("depth")
	var jobs []Job
	lengths := []int{254, 255, 256, 257, 258}
	if ctx.Thorough() {
		lengths = append(lengths, 2, 128, 253, 300, 511, 512)
	}
	idx := 0
	for _, k := range lengths {
		for variant := 0; variant < 5; variant++ {
			var nodes []Node
			for i := 1; i < k; i++ {
				nodes = append(nodes, Node{N: i, K: "ref", To: i + 1})
			}
			obj := ar(sc("i:7"), sc("s:636861696e"))
			var calls []Call
			switch variant {
			case 0: // the head alone
				calls = []Call{{Op: "ref", N: 1}}
			case 1: // head and the reference that names the object directly, in one array
				v := ar(rf(1), rf(k))
				calls = []Call{{Op: "val", V: &v}}
			case 2: // the other order, as two calls
				calls = []Call{{Op: "ref", N: k}, {Op: "ref", N: 1}, {Op: "ref", N: k}}
			case 3: // entries in the middle (only where the whole chain resolves)
				if k > maxChain || k < 4 {
					continue
				}
				v := ar(rf(2), rf(1), rf(k/2), rf(k))
				calls = []Call{{Op: "val", V: &v}}
			case 4: // the object refers back to the head: a cycle through the whole chain
				if k > maxChain {
					continue
				}
				obj = ar(sc("i:7"), rf(1))
				calls = []Call{{Op: "ref", N: 1}}
			}
			nodes = append(nodes, Node{N: k, K: "val", V: &obj})
			for _, enc := range []string{"none", "rc4", "aes"} {
				if enc != "none" && !ctx.Thorough() && variant > 1 {
					continue
				}
				job := Job{Nodes: nodes, Calls: calls, Origin: fmt.Sprintf("depth/k=%d/v%d", k, variant)}
				job.Src = SrcSpec{Enc: enc, Via: "ser", Seed: int64(idx)*53 + ctx.Seed}
				if (idx+int(ctx.Seed))%3 == 0 {
					job.Src.Via = "writer"
				}
				job.Dst = dstSpecs[(idx+rng.Intn(8))%len(dstSpecs)]
				job.Dst.Seek = idx%2 == 0
				job.Dst.Open = idx%4 == 1
				jobs = append(jobs, job)
				idx++
			}
		}
	}
	return jobs
}
