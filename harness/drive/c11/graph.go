package c11

import (
	"crypto/sha256"
	"encoding/hex"
	"encoding/json"
	"fmt"
	"sort"
	"strconv"
	"strings"

	"verif/harness/indep/obj"
)

// Val is a value in the vocabulary of spec/graph/CopierRef.tla:
//
//	{"t":"s","a":atom} {"t":"z"} {"t":"r","n":num} {"t":"a","e":[...]}
//	{"t":"d","k":[...],"e":[...]} {"t":"st","k":[...],"e":[...],"body":id,"cf":...}
//
// Atoms are canonical texts of scalars: "i:7", "n:Name", "s:<hex>", "r:2.5",
// "b:true".  A reference to generation g > 0 is numbered num + genBase*g.
type Val struct {
	T    string
	A    string
	N    int
	E    []Val
	K    []string
	Body string
	CF   string
	CFI  bool // the /Crypt name and its parameters are indirect first elements of the arrays
	P    *Val // streams as observed: the references reachable through /DecodeParms (CopierRef)
}

const genBase = 100000

func (v Val) MarshalJSON() ([]byte, error) {
	m := map[string]any{"t": v.T}
	switch v.T {
	case "s":
		m["a"] = v.A
	case "r":
		m["n"] = v.N
	case "a":
		m["e"] = nonNil(v.E)
	case "d":
		m["k"], m["e"] = nonNilS(v.K), nonNil(v.E)
	case "st":
		m["k"], m["e"], m["body"], m["cf"] = nonNilS(v.K), nonNil(v.E), v.Body, v.CF
		if v.CFI {
			m["cfi"] = true
		}
		if v.P != nil {
			m["p"] = *v.P
		} else {
			m["p"] = nul()
		}
	}
	return json.Marshal(m)
}

func (v *Val) UnmarshalJSON(data []byte) error {
	var raw struct {
		T    string   `json:"t"`
		A    string   `json:"a"`
		N    int      `json:"n"`
		E    []Val    `json:"e"`
		K    []string `json:"k"`
		Body string   `json:"body"`
		CF   string   `json:"cf"`
		CFI  bool     `json:"cfi"`
		P    *Val     `json:"p"`
	}
	if err := json.Unmarshal(data, &raw); err != nil {
		return err
	}
	*v = Val{T: raw.T, A: raw.A, N: raw.N, E: raw.E, K: raw.K, Body: raw.Body, CF: raw.CF, CFI: raw.CFI, P: raw.P}
	return nil
}

func nonNil(e []Val) []Val {
	if e == nil {
		return []Val{}
	}
	return e
}

func nonNilS(k []string) []string {
	if k == nil {
		return []string{}
	}
	return k
}

func sc(a string) Val            { return Val{T: "s", A: a} }
func nul() Val                   { return Val{T: "z"} }
func rf(n int) Val               { return Val{T: "r", N: n} }
func ar(e ...Val) Val            { return Val{T: "a", E: e} }
func di(k []string, e []Val) Val { return Val{T: "d", K: k, E: e} }

func (v Val) String() string {
	switch v.T {
	case "s":
		return v.A
	case "z":
		return "null"
	case "r":
		return fmt.Sprintf("%dR", v.N)
	case "a":
		var p []string
		for _, e := range v.E {
			p = append(p, e.String())
		}
		return "[" + strings.Join(p, " ") + "]"
	case "d", "st":
		var p []string
		for i, k := range v.K {
			p = append(p, "/"+k+" "+v.E[i].String())
		}
		s := "<<" + strings.Join(p, " ") + ">>"
		if v.T == "st" {
			s += "stream(" + v.Body + "," + v.CF + ")"
		}
		return s
	}
	return "?"
}

func (v Val) entry(key string) (Val, bool) {
	for i, k := range v.K {
		if k == key {
			return v.E[i], true
		}
	}
	return Val{}, false
}

// refs lists the references in v in traversal order.
func (v Val) refs(out []int) []int {
	switch v.T {
	case "r":
		out = append(out, v.N)
	case "a", "d", "st":
		for _, e := range v.E {
			out = e.refs(out)
		}
		if v.T == "st" && v.P != nil {
			out = v.P.refs(out)
		}
	}
	return out
}

// mapAtoms returns v with every scalar atom replaced through f.
func (v Val) mapAtoms(f func(string) string) Val {
	switch v.T {
	case "s":
		return sc(f(v.A))
	case "a", "d", "st":
		w := v
		w.E = make([]Val, len(v.E))
		for i, e := range v.E {
			w.E[i] = e.mapAtoms(f)
		}
		return w
	}
	return v
}

// Node is a source object: kind "val" (V), "ref" (To), "free", "dangling",
// or "?" (mentioned by the model but never looked at; written as free).
type Node struct {
	N  int    `json:"n,omitempty"`
	K  string `json:"k"`
	To int    `json:"to,omitempty"`
	V  *Val   `json:"v,omitempty"`
	// Twin != 0: the node is not an object but a reference with the object
	// NUMBER of node Twin and another generation (it denotes null).
	Twin int `json:"twin,omitempty"`
}

// Call is a top-level call of the model / the harness.
type Call struct {
	Op string `json:"op"` // ref | val | obj | redirect
	N  int    `json:"n,omitempty"`
	V  *Val   `json:"v,omitempty"`
}

func (c Call) String() string {
	switch c.Op {
	case "ref":
		return fmt.Sprintf("CopyReference(%dR)", c.N)
	case "val":
		return "Copy(" + c.V.String() + ")"
	case "obj":
		return fmt.Sprintf("Copy(Get(%dR))", c.N)
	case "redirect":
		return fmt.Sprintf("Redirect(%dR)", c.N)
	}
	return c.Op
}

// Graph is a source file in abstract form: object number -> node.
type Graph map[int]Node

func (g Graph) nums() []int {
	out := make([]int, 0, len(g))
	for n := range g {
		out = append(out, n)
	}
	sort.Ints(out)
	return out
}

func (g Graph) kind(n int) string {
	if nd, ok := g[n]; ok {
		if nd.K == "?" {
			return "free"
		}
		return nd.K
	}
	return "dangling"
}

// maxChain is CopierRef's MaxChain for real files: limits.MaxExtractDepth of go-pdf.
const maxChain = 256

// canon is CopierRef!Canon.
func (g Graph) canon(n int) int {
	seen := map[int]bool{}
	for {
		if seen[n] {
			return 0
		}
		switch g.kind(n) {
		case "ref":
			if len(seen)+1 >= maxChain {
				return 0 // more references than a reader follows
			}
			seen[n] = true
			n = g[n].To
		case "val":
			if g[n].V.T == "z" {
				return 0
			}
			return n
		default:
			return 0
		}
	}
}

func (g Graph) String() string {
	var p []string
	for _, n := range g.nums() {
		nd := g[n]
		switch nd.K {
		case "val":
			p = append(p, fmt.Sprintf("%d=%s", n, nd.V.String()))
		case "ref":
			p = append(p, fmt.Sprintf("%d->%d", n, nd.To))
		default:
			p = append(p, fmt.Sprintf("%d:%s", n, nd.K))
		}
	}
	return strings.Join(p, "; ")
}

// ---------------------------------------------------------------------------
// atoms <-> PDF scalars

func atomOf(v obj.Value) (string, bool) {
	switch x := v.(type) {
	case obj.Bool:
		return "b:" + strconv.FormatBool(bool(x)), true
	case obj.Int:
		return "i:" + strconv.FormatInt(int64(x), 10), true
	case obj.Real:
		return "r:" + strconv.FormatFloat(x.F, 'g', -1, 64), true
	case obj.Name:
		return "n:" + string(x), true
	case obj.Str:
		return "s:" + hex.EncodeToString(x), true
	}
	return "", false
}

func scalarOf(atom string) obj.Value {
	kind, rest, _ := strings.Cut(atom, ":")
	switch kind {
	case "b":
		return obj.Bool(rest == "true")
	case "i":
		n, err := strconv.ParseInt(rest, 10, 64)
		if err != nil {
			panic("c11: bad atom " + atom)
		}
		return obj.Int(n)
	case "r":
		f, err := strconv.ParseFloat(rest, 64)
		if err != nil {
			panic("c11: bad atom " + atom)
		}
		return obj.Real{F: f}
	case "n":
		return obj.Name(rest)
	case "s":
		b, err := hex.DecodeString(rest)
		if err != nil {
			panic("c11: bad atom " + atom)
		}
		return obj.Str(b)
	}
	panic("c11: bad atom " + atom)
}

func refOf(n int) obj.Ref { return obj.Ref{Num: uint32(n % genBase), Gen: uint16(n / genBase)} }
func numOf(r obj.Ref) int { return int(r.Num) + genBase*int(r.Gen) }

// toObj converts a non-stream value to the harness's PDF value model.
func toObj(v Val) obj.Value {
	switch v.T {
	case "s":
		return scalarOf(v.A)
	case "z":
		return obj.Null{}
	case "r":
		return refOf(v.N)
	case "a":
		out := make(obj.Array, len(v.E))
		for i, e := range v.E {
			out[i] = toObj(e)
		}
		return out
	case "d", "st":
		out := obj.Dict{}
		for i, k := range v.K {
			out[obj.Name(k)] = toObj(v.E[i])
		}
		return out
	}
	panic("c11: toObj " + v.T)
}

var specKeys = map[obj.Name]bool{"Length": true, "Filter": true, "DecodeParms": true}

// fromObj converts a direct, non-stream PDF value.  Null dictionary entries
// are kept (the specification treats them as absent).
func fromObj(v obj.Value) Val {
	switch x := v.(type) {
	case nil, obj.Null:
		return nul()
	case obj.Ref:
		return rf(numOf(x))
	case obj.Array:
		out := Val{T: "a", E: make([]Val, len(x))}
		for i, e := range x {
			out.E[i] = fromObj(e)
		}
		return out
	case obj.Dict:
		out := Val{T: "d"}
		for _, k := range x.Keys() {
			out.K = append(out.K, string(k))
			out.E = append(out.E, fromObj(x[k]))
		}
		return out
	case *obj.Stream:
		panic("c11: stream inside a direct value")
	}
	if a, ok := atomOf(v); ok {
		return sc(a)
	}
	panic(fmt.Sprintf("c11: fromObj %T", v))
}

// fromStreamDict converts the dictionary of a stream: /Length, /Filter and
// /DecodeParms describe one encoding of the data and are not compared.
func fromStreamDict(d obj.Dict, body, cf string, resolve func(obj.Ref) (obj.Value, bool)) Val {
	out := Val{T: "st", Body: body, CF: cf}
	p := parmRefs(d["DecodeParms"], resolve)
	out.P = &p
	for _, k := range d.Keys() {
		if specKeys[k] {
			continue
		}
		out.K = append(out.K, string(k))
		out.E = append(out.E, fromObj(d[k]))
	}
	return out
}

func bodyID(data []byte) string {
	h := sha256.Sum256(data)
	return fmt.Sprintf("%d:%s", len(data), hex.EncodeToString(h[:6]))
}

// parmRefs is CopierRef's view of /DecodeParms: the top level and the array
// elements resolved, everything that holds no reference replaced by null.
func parmRefs(v obj.Value, resolve func(obj.Ref) (obj.Value, bool)) Val {
	res := func(v obj.Value) obj.Value {
		for i := 0; i < 16; i++ {
			r, ok := v.(obj.Ref)
			if !ok {
				return v
			}
			if resolve == nil {
				return obj.Null{}
			}
			w, ok := resolve(r)
			if !ok {
				return obj.Null{}
			}
			v = w
		}
		return obj.Null{}
	}
	if v == nil {
		return nul()
	}
	top := res(v)
	if arr, ok := top.(obj.Array); ok {
		out := make(obj.Array, len(arr))
		for i, e := range arr {
			out[i] = res(e)
		}
		top = out
	}
	if _, isStream := top.(*obj.Stream); isStream {
		return nul()
	}
	return refSkeleton(fromObjLoose(top))
}

// fromObjLoose is fromObj for values that may hold streams (ignored).
func fromObjLoose(v obj.Value) Val {
	switch x := v.(type) {
	case *obj.Stream:
		return nul()
	case obj.Array:
		out := Val{T: "a", E: make([]Val, len(x))}
		for i, e := range x {
			out.E[i] = fromObjLoose(e)
		}
		return out
	case obj.Dict:
		out := Val{T: "d"}
		for _, k := range x.Keys() {
			out.K = append(out.K, string(k))
			out.E = append(out.E, fromObjLoose(x[k]))
		}
		return out
	}
	return fromObj(v)
}

func refSkeleton(v Val) Val {
	switch v.T {
	case "r":
		return v
	case "a", "d":
		w := Val{T: v.T, K: v.K, E: make([]Val, len(v.E))}
		any := false
		for i, e := range v.E {
			w.E[i] = refSkeleton(e)
			any = any || w.E[i].T != "z"
		}
		if any {
			return w
		}
	}
	return nul()
}

// long is CopierRef!LongFrom: the chain from n is given up for its length.
func (g Graph) long(n int) bool {
	seen := map[int]bool{}
	for !seen[n] && g.kind(n) == "ref" {
		if len(seen)+1 >= maxChain {
			return true
		}
		seen[n] = true
		n = g[n].To
	}
	return false
}

// ambiguous is CopierRef!Ambiguous: an over-long chain is used from its head
// and from a later reference; such sources are outside the property.
func (g Graph) ambiguous(vals []Val) bool {
	explicit := map[int]bool{}
	seen := map[int]bool{}
	var todo []int
	for _, v := range vals {
		for _, n := range v.refs(nil) {
			explicit[n] = true
			todo = append(todo, n)
		}
	}
	for len(todo) > 0 {
		n := todo[0]
		todo = todo[1:]
		if seen[n] {
			continue
		}
		seen[n] = true
		switch g.kind(n) {
		case "ref":
			todo = append(todo, g[n].To)
		case "val":
			for _, m := range g[n].V.refs(nil) {
				explicit[m] = true
				todo = append(todo, m)
			}
		}
	}
	for h := range explicit {
		if !g.long(h) {
			continue
		}
		on := map[int]bool{}
		for n := h; !on[n]; n = g[n].To {
			on[n] = true // the links and the object at the end
			if g.kind(n) != "ref" {
				break
			}
		}
		for j := range explicit {
			if j != h && on[j] {
				return true
			}
		}
	}
	return false
}
