package c11

import (
	"bytes"
	"fmt"
	"io"
	"runtime/debug"
	"strings"

	"seehuhn.de/go/pdf"

	"verif/harness/drive/shared"
	"verif/harness/indep/obj"
)

// DstSpec describes the target Writer.
type DstSpec struct {
	Version string `json:"version"` // "1.3" | "1.4" | "1.7" | "2.0"
	Encrypt bool   `json:"encrypt"` // the cipher follows from the version (RC4-40, RC4-128, AES-128, AES-256)
	Human   bool   `json:"human"`   // WriterOptions.HumanReadable
	Seek    bool   `json:"seek"`    // seekable sink
	// Open: the caller has a stream open on the target Writer while it copies
	// (Writer.Put queues the copies); it is closed after the calls.
	Open bool `json:"open,omitempty"`
	// LatePut: stream values returned by Copy are put after all calls, last first.
	LatePut bool `json:"lateput,omitempty"`
}

func (d DstSpec) enc() string {
	if !d.Encrypt {
		return "none"
	}
	switch d.Version {
	case "1.3":
		return "rc4-40"
	case "1.4":
		return "rc4-128"
	case "1.7":
		return "aes-128"
	}
	return "aes-256"
}

// Job is one execution: an abstract graph with concrete atoms, the calls, and
// how source and target are produced.  It is also the replay case.
type Job struct {
	Nodes  []Node  `json:"nodes"` // N = object number
	Calls  []Call  `json:"calls"`
	Src    SrcSpec `json:"src"`
	Dst    DstSpec `json:"dst"`
	Origin string  `json:"origin"`
	// expectations of the specification's model (generated cases only)
	ModelFail string `json:"model_fail,omitempty"`
	ModelNimg int    `json:"model_nimg,omitempty"`
	HasModel  bool   `json:"has_model,omitempty"`
}

// streamNote is a string every stream dictionary of a source graph carries
// (next to what the model put there): strings of a stream dictionary are
// encrypted with the stream's own key, also when the stream data is not
// encrypted (leading /Crypt filter).
const streamNote = "s:6e6f74652028746578742920c3a9"

func (j Job) graph() Graph {
	g := Graph{}
	for _, nd := range j.Nodes {
		if nd.V != nil && nd.V.T == "st" {
			v := *nd.V
			has := false
			for _, k := range v.K {
				has = has || k == "VerifNote"
			}
			if !has {
				at := len(v.K)
				for i, k := range v.K {
					if k > "VerifNote" {
						at = i
						break
					}
				}
				v.K = append(append(append([]string{}, v.K[:at]...), "VerifNote"), v.K[at:]...)
				v.E = append(append(append([]Val{}, v.E[:at]...), Val{T: "s", A: streamNote}), v.E[at:]...)
			}
			// every third stream also names an external file (7.3.8.2: /F,
			// /FFilter, /FDecodeParms are ordinary entries for a copier)
			if nd.N%3 == 0 {
				for _, kv := range [][2]string{{"F", "s:65787465726e616c2e646174"}, {"FDecodeParms", "i:0"}, {"FFilter", "n:ASCIIHexDecode"}} {
					has := false
					for _, k := range v.K {
						has = has || k == kv[0]
					}
					if has {
						continue
					}
					at := len(v.K)
					for i, k := range v.K {
						if k > kv[0] {
							at = i
							break
						}
					}
					v.K = append(append(append([]string{}, v.K[:at]...), kv[0]), v.K[at:]...)
					v.E = append(append(append([]Val{}, v.E[:at]...), Val{T: "s", A: kv[1]}), v.E[at:]...)
				}
			}
			nd.V = &v
		}
		g[nd.N] = nd
	}
	return g
}

// Event is a top-level call as the harness saw it.
type Event struct {
	Op string `json:"op"`
	N  int    `json:"n"`
	D  int    `json:"d"`
}

// Root pairs the argument of a copy call with its result as read back.
type Root struct {
	S Val `json:"s"`
	D Val `json:"d"`
}

// View is the target file as one reader sees it.
type View struct {
	Name  string   `json:"name"`
	Roots []Root   `json:"roots"`
	Dst   []DstObj `json:"dst"`
	Dup   []int    `json:"dup"`
}

// Record is what Trace_Copier judges.
type Record struct {
	ID       string   `json:"id"`
	SrcEnc   string   `json:"srcenc"`
	DstEnc   string   `json:"dstenc"`
	Src      []Node   `json:"src"`
	Events   []Event  `json:"events"`
	Ext      [][2]int `json:"ext"`
	RootVals []Val    `json:"rootvals"`
	Outcome  string   `json:"outcome"` // ok | panic | diverges | error | closeerr | reopen-strict | reopen-lib | extract
	Msg      string   `json:"msg"`
	Views    []View   `json:"views"`

	// not judged: for diagnosis and replay
	where   string // function of go-pdf on top of a panic's stack
	errText string // the error without the call
	job     *Job
	src     *Source
	dst     []byte
}

func pdfVersion(s string) pdf.Version {
	v, err := pdf.ParseVersion(s)
	if err != nil {
		panic(err)
	}
	return v
}

type callResult struct {
	rootElem pdf.Object // what goes into the roots array
	stream   bool       // rootElem refers to a stream the harness has put
}

// Execute materialises the source, performs the calls on the real
// pdf.Copier, closes the target and reads it back with both readers.
// An error is returned only for failures of the machinery.
func Execute(job *Job) (*Record, error) {
	g0 := job.graph()
	src, err := Materialise(g0, job.Src)
	if err != nil {
		return nil, fmt.Errorf("materialise: %v", err)
	}
	rec := &Record{SrcEnc: job.Src.Enc, DstEnc: job.Dst.enc(), Events: []Event{}, Ext: [][2]int{}, RootVals: []Val{},
		Views: []View{}, Src: []Node{}, job: job, src: src}

	// the source as the independent parser reads it
	pw := ""
	if job.Src.Enc != "none" {
		pw = userPW
	}
	ssf, err := openStrict(src.Bytes, pw)
	if err != nil {
		return nil, fmt.Errorf("strict parser refuses the source file (%s, %s): %v", job.Src.Via, src.Method, err)
	}
	sg, err := sourceGraph(ssf, src.Graph.nums())
	if err != nil {
		return nil, fmt.Errorf("reading the source file back: %v", err)
	}
	if err := sameSource(src, sg); err != nil {
		return nil, fmt.Errorf("source file differs from the graph it was written from (%s): %v", job.Src.Via, err)
	}
	for _, n := range sg.nums() {
		nd := sg[n]
		nd.N = n
		rec.Src = append(rec.Src, nd)
	}
	ren := func(n int) int {
		if m, ok := src.Renumber[n]; ok {
			return m
		}
		return n
	}

	// the real code
	r, err := pdf.NewReader(bytes.NewReader(src.Bytes), int64(len(src.Bytes)), &pdf.ReaderOptions{Password: pw})
	if err != nil {
		return nil, fmt.Errorf("go-pdf's Reader refuses the source file (%s, %s, version %s): %v", job.Src.Via, src.Method, src.Version, err)
	}
	var sink interface {
		Write([]byte) (int, error)
		Bytes() []byte
	}
	if job.Dst.Seek {
		sink = &shared.SeekMemSink{}
	} else {
		sink = &bytes.Buffer{}
	}
	wopt := &pdf.WriterOptions{HumanReadable: job.Dst.Human}
	if job.Dst.Encrypt {
		wopt.UserPassword, wopt.OwnerPassword, wopt.UserPermissions = userPW, ownerPW, pdf.PermAll
	}
	w, err := pdf.NewWriter(sink, pdfVersion(job.Dst.Version), wopt)
	if err != nil {
		return nil, fmt.Errorf("NewWriter: %v", err)
	}
	pagesRef := w.Alloc()
	if err := w.Put(pagesRef, pdf.Dict{"Type": pdf.Name("Pages"), "Kids": pdf.Array{}, "Count": pdf.Integer(0)}); err != nil {
		return nil, fmt.Errorf("Put: %v", err)
	}
	rootsRef := w.Alloc()
	copier := pdf.NewCopier(w, &watchGetter{r: r, limit: 5000 + 500*len(src.Graph)})
	var ctxStream io.WriteCloser
	if job.Dst.Open {
		ctxStream, err = w.OpenStream(w.Alloc(), pdf.Dict{"Type": pdf.Name("CallerStream")})
		if err != nil {
			return nil, fmt.Errorf("OpenStream: %v", err)
		}
		if _, err := ctxStream.Write([]byte("the caller's stream is open while it copies\n")); err != nil {
			return nil, fmt.Errorf("stream Write: %v", err)
		}
	}
	var late []latePut

	var results []callResult
	stop := map[int]bool{}
	for _, c := range job.Calls {
		var arg Val
		switch c.Op {
		case "ref":
			arg = rf(ren(c.N))
		case "val":
			arg = renumber(*c.V, ren)
		case "obj":
			nd, ok := sg[ren(c.N)]
			if !ok || nd.K != "val" {
				return nil, fmt.Errorf("call %s on an object without value", c)
			}
			arg = *nd.V
		}
		if c.Op != "redirect" {
			rec.RootVals = append(rec.RootVals, arg)
		}
		res, ev, outcome, msg, where := doCall(copier, w, r, c, arg, ren, job.Dst.LatePut, &late)
		if outcome != "ok" {
			rec.Outcome, rec.Msg, rec.where, rec.errText = outcome, fmt.Sprintf("%s: %s", c, msg), where, msg
			return rec, nil
		}
		rec.Events = append(rec.Events, ev)
		if c.Op == "redirect" {
			rec.Ext = append(rec.Ext, [2]int{ev.N, ev.D})
			stop[ev.D] = true
		} else {
			results = append(results, res)
		}
	}
	arr := make(pdf.Array, len(results))
	for i, res := range results {
		arr[i] = res.rootElem
	}
	closeErr := func() (err error) {
		defer func() {
			if p := recover(); p != nil {
				err = fmt.Errorf("panic: %v", p)
			}
		}()
		if ctxStream != nil {
			if _, err := ctxStream.Write([]byte("and is closed afterwards\n")); err != nil {
				return err
			}
			if err := ctxStream.Close(); err != nil {
				return err
			}
		}
		for i := len(late) - 1; i >= 0; i-- { // the caller puts the copied stream values, last first
			if err := w.Put(late[i].ref, late[i].st); err != nil {
				return err
			}
		}
		if err := w.Put(rootsRef, arr); err != nil {
			return err
		}
		w.GetMeta().Catalog.Pages = pagesRef
		w.GetMeta().Catalog.Dests = rootsRef
		return w.Close()
	}()
	if closeErr != nil {
		rec.Outcome, rec.Msg = "closeerr", closeErr.Error()
		return rec, nil
	}
	rec.dst = sink.Bytes()
	rec.Outcome = "ok"

	// read the target back
	dpw := ""
	if job.Dst.Encrypt {
		dpw = userPW
	}
	tsf, err := openStrict(rec.dst, dpw)
	if err != nil {
		rec.Outcome, rec.Msg = "reopen-strict", err.Error()
		return rec, nil
	}
	tlf, err := openLib(rec.dst, dpw)
	if err != nil {
		rec.Outcome, rec.Msg = "reopen-lib", err.Error()
		return rec, nil
	}
	for _, fa := range []struct {
		name string
		fa   fileAccess
	}{{"strict", tsf}, {"lib", tlf}} {
		view, err := buildView(fa.name, fa.fa, numOf(obj.Ref{Num: rootsRef.Number()}), rec.RootVals, results, stop)
		if err != nil {
			rec.Outcome, rec.Msg = "extract", fa.name+": "+err.Error()
			return rec, nil
		}
		if fa.name == "strict" {
			view.Dup = duplicates(tsf.f)
		}
		rec.Views = append(rec.Views, *view)
	}
	rec.src, rec.dst = nil, nil // the files are not needed any more
	return rec, nil
}

func renumber(v Val, ren func(int) int) Val {
	switch v.T {
	case "r":
		return rf(ren(v.N))
	case "a", "d", "st":
		w := v
		w.E = make([]Val, len(v.E))
		for i, e := range v.E {
			w.E[i] = renumber(e, ren)
		}
		return w
	}
	return v
}

// watchGetter is the source handed to the copier: go-pdf's Reader plus a
// bound on the number of objects fetched.  A copier that does not terminate
// (e.g. on a cyclic graph) would otherwise end in a stack overflow, which Go
// cannot recover from; the bound turns it into an ordinary panic.
type watchGetter struct {
	r     *pdf.Reader
	n     int
	limit int
}

const watchdogMsg = "C11 watchdog: the copier keeps fetching source objects"

func (g *watchGetter) GetMeta() *pdf.MetaInfo { return g.r.GetMeta() }

func (g *watchGetter) Get(ref pdf.Reference, canObjStm bool) (pdf.Native, error) {
	g.n++
	if g.n > g.limit {
		panic(watchdogMsg)
	}
	return g.r.Get(ref, canObjStm)
}

func pdfRef(n int) pdf.Reference { return pdf.NewReference(uint32(n%genBase), uint16(n/genBase)) }

// doCall performs one top-level call and recovers a panic of the library.
type latePut struct {
	ref pdf.Reference
	st  *pdf.Stream
}

func doCall(copier *pdf.Copier, w *pdf.Writer, r *pdf.Reader, c Call, arg Val, ren func(int) int, latePuts bool, late *[]latePut) (res callResult, ev Event, outcome, msg, where string) {
	defer func() {
		if p := recover(); p != nil {
			outcome, msg = "panic", fmt.Sprint(p)
			where = topLibraryFrame(string(debug.Stack()))
			if msg == watchdogMsg {
				outcome, where = "diverges", ""
			}
		}
	}()
	ev = Event{Op: c.Op}
	switch c.Op {
	case "ref":
		ev.N = ren(c.N)
		d, err := copier.CopyReference(pdfRef(ev.N))
		if err != nil {
			return res, ev, "error", err.Error(), ""
		}
		ev.D = numOf(obj.Ref{Num: d.Number(), Gen: d.Generation()})
		res.rootElem = d
	case "val":
		out, err := copier.Copy(shared.ToPDF(toObj(arg)).(pdf.Native))
		if err != nil {
			return res, ev, "error", err.Error(), ""
		}
		if d, ok := out.(pdf.Reference); ok {
			ev.D = numOf(obj.Ref{Num: d.Number(), Gen: d.Generation()})
			if arg.T == "r" {
				ev.Op, ev.N = "ref", arg.N // Copy(Reference) is CopyReference
			}
		}
		res.rootElem = out
	case "obj":
		ev.N = ren(c.N)
		x, err := r.Get(pdfRef(ev.N), true)
		if err != nil {
			return res, ev, "error", "Get: " + err.Error(), ""
		}
		out, err := copier.Copy(x)
		if err != nil {
			return res, ev, "error", err.Error(), ""
		}
		if st, ok := out.(*pdf.Stream); ok {
			d := w.Alloc()
			if latePuts {
				*late = append(*late, latePut{d, st})
			} else if err := w.Put(d, st); err != nil {
				return res, ev, "error", "Put(copied stream): " + err.Error(), ""
			}
			res.rootElem, res.stream = d, true
		} else {
			res.rootElem = out
		}
	case "redirect":
		ev.N = ren(c.N)
		d := w.Alloc()
		if err := w.Put(d, pdf.Name("Redirected")); err != nil {
			return res, ev, "error", err.Error(), ""
		}
		copier.Redirect(pdfRef(ev.N), d)
		ev.D = int(d.Number())
	default:
		return res, ev, "error", "unknown call " + c.Op, ""
	}
	return res, ev, "ok", "", ""
}

func topLibraryFrame(stack string) string {
	for _, line := range strings.Split(stack, "\n") {
		if strings.HasPrefix(line, "seehuhn.de/go/pdf.") {
			f := strings.TrimPrefix(line, "seehuhn.de/go/pdf.")
			if i := strings.Index(f, "("); i > 0 && !strings.HasPrefix(f, "(") {
				f = f[:i]
			} else if strings.HasPrefix(f, "(") {
				// method: (*Copier).CopyDict(...)
				if j := strings.Index(f, ")."); j > 0 {
					rest := f[j+2:]
					if k := strings.Index(rest, "("); k > 0 {
						rest = rest[:k]
					}
					f = strings.Trim(f[:j], "(*") + "." + rest
				}
			}
			return f
		}
	}
	return "unknown"
}

func buildView(name string, fa fileAccess, rootsNum int, rootVals []Val, results []callResult, stop map[int]bool) (*View, error) {
	v, _, status, err := fa.get(refOf(rootsNum))
	if err != nil {
		return nil, err
	}
	arr, ok := v.(obj.Array)
	if status != "inuse" || !ok || len(arr) != len(results) {
		return nil, fmt.Errorf("the array of results is not in the target file")
	}
	view := &View{Name: name, Roots: []Root{}, Dst: []DstObj{}, Dup: []int{}}
	var dvals []Val
	for i, e := range arr {
		d := fromObj(e)
		if results[i].stream {
			// the harness has put the copied stream itself: the result is the stream
			sv, body, st, err := fa.get(refOf(d.N))
			if err != nil {
				return nil, err
			}
			if st != "inuse" {
				return nil, fmt.Errorf("copied stream not in the target file")
			}
			d = valueOf(fa, sv, body)
		}
		view.Roots = append(view.Roots, Root{S: rootVals[i], D: d})
		dvals = append(dvals, d)
	}
	view.Dst, err = targetObjects(fa, dvals, stop)
	if err != nil {
		return nil, err
	}
	return view, nil
}

// sameSource checks that the file the independent parser reads is the graph
// it was written from.
func sameSource(src *Source, sg Graph) error {
	for _, n := range src.Graph.nums() {
		want, got := src.Graph[n], sg[n]
		if want.K != got.K && !(want.K == "free" && got.K == "") {
			if _, ok := sg[n]; !ok && want.K == "free" {
				continue
			}
			return fmt.Errorf("object %d: kind %q, written as %q", n, got.K, want.K)
		}
		switch want.K {
		case "ref":
			if want.To != got.To {
				return fmt.Errorf("object %d: refers to %d, written %d", n, got.To, want.To)
			}
		case "val":
			w := *want.V
			if w.T == "st" {
				w = fromStreamDict(streamDictPlain(w), bodyID(src.Bodies[n]), w.CF, nil)
			}
			if normNulls(w).String() != normNulls(*got.V).String() {
				return fmt.Errorf("object %d: reads %s, written %s", n, got.V, w)
			}
		}
	}
	return nil
}

func streamDictPlain(st Val) obj.Dict {
	d := obj.Dict{}
	for i, k := range st.K {
		d[obj.Name(k)] = toObj(st.E[i])
	}
	return d
}

// normNulls drops null dictionary entries (equivalent to absent entries;
// go-pdf's Writer does not write them in every mode).
func normNulls(v Val) Val {
	switch v.T {
	case "a":
		w := v
		w.E = make([]Val, len(v.E))
		for i, e := range v.E {
			w.E[i] = normNulls(e)
		}
		return w
	case "d", "st":
		w := v
		w.K, w.E = nil, nil
		for i, k := range v.K {
			if v.E[i].T == "z" {
				continue
			}
			w.K = append(w.K, k)
			w.E = append(w.E, normNulls(v.E[i]))
		}
		return w
	}
	return v
}
