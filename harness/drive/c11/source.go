package c11

import (
	"bytes"
	"compress/zlib"
	"fmt"
	"math/rand"

	"seehuhn.de/go/pdf"

	"verif/harness/drive/shared"
	"verif/harness/indep/codecs"
	"verif/harness/indep/obj"
	"verif/harness/indep/secure"
	"verif/harness/indep/ser"
)

// SrcSpec says how an abstract graph becomes a source file.
type SrcSpec struct {
	Enc  string `json:"enc"`  // none | rc4 | aes
	Via  string `json:"via"`  // ser (independent serialiser) | writer (go-pdf's Writer)
	Seed int64  `json:"seed"` // spelling of the file, stream bodies, dangling flavour
}

const (
	userPW  = "user"
	ownerPW = "owner"
)

// Source is a materialised source file.
type Source struct {
	Bytes    []byte
	Version  string
	Method   string         // encryption actually used, e.g. "rc4-r3", "aes-r6"
	Bodies   map[int][]byte // stream object number -> decoded bytes
	DangGen  bool           // dangling objects are references with a wrong generation
	Graph    Graph          // the graph as written (dangling references renumbered)
	Renumber map[int]int    // abstract number -> number used in the file (where it differs)
}

func bodyBytes(seed int64, name string, n int) []byte {
	r := rand.New(rand.NewSource(seed*31 + int64(n)*7 + int64(len(name))))
	size := 4 * (2 + r.Intn(9))
	if r.Intn(12) == 0 {
		size = 4 * (300 + r.Intn(100)) // beyond the Writer's 1024 byte buffer
	}
	b := make([]byte, size)
	r.Read(b)
	if r.Intn(3) == 0 {
		copy(b, "BT /F1 12 Tf (text) Tj ET\n")
	}
	return b
}

// deepResolve follows references (chains, element level) for /Filter and
// /DecodeParms values.
func deepResolve(g Graph, v Val, fuel int) Val {
	if fuel == 0 {
		return nul()
	}
	switch v.T {
	case "r":
		c := g.canon(v.N)
		if c == 0 {
			return nul()
		}
		return deepResolve(g, *g[c].V, fuel-1)
	case "a", "d":
		w := v
		w.E = make([]Val, len(v.E))
		for i, e := range v.E {
			w.E[i] = deepResolve(g, e, fuel-1)
		}
		return w
	}
	return v
}

func atomInt(v Val, def int) int {
	if v.T == "s" {
		if n, ok := scalarOf(v.A).(obj.Int); ok {
			return int(n)
		}
	}
	return def
}

// encodeBody applies the filter chain the stream's /Filter and /DecodeParms
// (resolved) describe.  Supported: no filter, or FlateDecode with an optional
// PNG predictor.
func encodeBody(g Graph, st Val, body []byte) ([]byte, error) {
	f, hasF := st.entry("Filter")
	if !hasF {
		return body, nil
	}
	f = deepResolve(g, f, 6)
	p, _ := st.entry("DecodeParms")
	p = deepResolve(g, p, 6)
	var names, parms []Val
	if f.T == "a" {
		names = f.E
		if p.T == "a" {
			parms = p.E
		} else if p.T == "d" && len(names) == 1 {
			parms = []Val{p}
		}
	} else {
		names, parms = []Val{f}, []Val{p}
	}
	data := body
	for i := len(names) - 1; i >= 0; i-- { // the first filter is the last to be applied when encoding
		name := names[i]
		pi := nul()
		if i < len(parms) {
			pi = parms[i]
		}
		switch {
		case name.T == "z":
			// no filter
		case name.T == "s" && name.A == "n:ASCIIHexDecode":
			data = codecs.ASCIIHexEncode(data)
		case name.T == "s" && name.A == "n:FlateDecode":
			if pi.T == "d" {
				pred, _ := pi.entry("Predictor")
				cols, _ := pi.entry("Columns")
				pp := codecs.PredParams{Predictor: atomInt(pred, 1), Colors: 1, BPC: 8, Columns: atomInt(cols, 1)}
				if pp.Predictor >= 10 {
					if len(data)%pp.RowBytes() != 0 {
						return nil, fmt.Errorf("body length %d is not a multiple of the row length", len(data))
					}
					data = codecs.PNGEncode(pp, data, func(r int) int { return []int{2, 1, 0, 4, 3}[r%5] })
				}
			}
			var z bytes.Buffer
			zw := zlib.NewWriter(&z)
			zw.Write(data)
			zw.Close()
			data = z.Bytes()
		default:
			return nil, fmt.Errorf("unsupported filter %s", name)
		}
	}
	return data, nil
}

// streamDict builds the real dictionary of a stream: the ordinary entries,
// and /Filter, /DecodeParms with a leading /Crypt filter where cf asks for it.
func streamDict(st Val, cryptName, cryptParms obj.Value) obj.Dict {
	d := toObj(st).(obj.Dict)
	if st.CF == "default" || st.CF == "" {
		return d
	}
	elems := func(key obj.Name) obj.Array {
		switch x := d[key].(type) {
		case nil:
			return nil
		case obj.Array:
			return x
		default:
			return obj.Array{x}
		}
	}
	fs, ps := elems("Filter"), elems("DecodeParms")
	for len(ps) < len(fs) {
		ps = append(ps, obj.Null{})
	}
	name := obj.Name("Identity")
	if st.CF == "named" {
		name = "StdCF"
	}
	if cryptName == nil {
		cryptName, cryptParms = obj.Name("Crypt"), cryptParmsDict(st.CF)
	}
	_ = name
	d["Filter"] = append(obj.Array{cryptName}, fs...)
	d["DecodeParms"] = append(obj.Array{cryptParms}, ps...)
	return d
}

func cryptParmsDict(cf string) obj.Dict {
	name := obj.Name("Identity")
	if cf == "named" {
		name = "StdCF"
	}
	return obj.Dict{"Type": obj.Name("CryptFilterDecodeParms"), "Name": name}
}

func hasExplicitCrypt(g Graph) bool {
	for _, nd := range g {
		if nd.K == "val" && nd.V.T == "st" && nd.V.CF != "default" && nd.V.CF != "" {
			return true
		}
	}
	return false
}

func hasIndirectSpec(g Graph) bool {
	for _, nd := range g {
		if nd.K == "val" && nd.V.T == "st" {
			for _, key := range []string{"Filter", "DecodeParms"} {
				if v, ok := nd.V.entry(key); ok && len(v.refs(nil)) > 0 {
					return true
				}
			}
		}
	}
	return false
}

// writerCan tells whether go-pdf's own Writer can produce the source file
// (it inlines /Filter and /DecodeParms and cannot write explicit /Crypt
// filters).
func writerCan(g Graph) bool {
	for _, nd := range g {
		if nd.Twin != 0 {
			return false // needs objects with a generation > 0
		}
	}
	return !hasExplicitCrypt(g) && !hasIndirectSpec(g)
}

// Materialise writes the graph as a source file.  Numbers of dangling
// objects are moved beyond /Size (or, by seed, referenced with a generation
// that does not exist); the returned Graph uses the numbers of the file.
func Materialise(g0 Graph, spec SrcSpec) (*Source, error) {
	rng := rand.New(rand.NewSource(spec.Seed*1_000_003 + 11))
	src := &Source{Bodies: map[int][]byte{}, Renumber: map[int]int{}}
	src.DangGen = spec.Via == "ser" && rng.Intn(2) == 0
	max := 0
	for n := range g0 {
		if n > max {
			max = n
		}
	}
	for n, nd := range g0 {
		if nd.Twin != 0 {
			// a reference with the number of object Twin and another generation
			if rng.Intn(2) == 0 {
				src.Renumber[n] = nd.Twin + genBase // generation 1 never existed
			} else {
				src.Renumber[n] = nd.Twin                 // the stale generation 0 of a number that was
				src.Renumber[nd.Twin] = nd.Twin + genBase // freed and is in use again with generation 1
			}
		}
	}
	for n, nd := range g0 {
		if nd.Twin != 0 {
			continue
		}
		if nd.K == "dangling" {
			if src.DangGen {
				src.Renumber[n] = n + genBase // generation 1 of an object that exists with generation 0
			} else {
				src.Renumber[n] = 900 + n
			}
		}
	}
	ren := func(n int) int {
		if m, ok := src.Renumber[n]; ok {
			return m
		}
		return n
	}
	var renVal func(v Val) Val
	renVal = func(v Val) Val {
		switch v.T {
		case "r":
			return rf(ren(v.N))
		case "a", "d", "st":
			w := v
			w.E = make([]Val, len(v.E))
			for i, e := range v.E {
				w.E[i] = renVal(e)
			}
			return w
		}
		return v
	}
	g := Graph{}
	for n, nd := range g0 {
		if nd.Twin != 0 {
			continue // not an object
		}
		switch nd.K {
		case "val":
			v := renVal(*nd.V)
			g[ren(n)] = Node{K: "val", V: &v}
		case "ref":
			g[ren(n)] = Node{K: "ref", To: ren(nd.To)}
		case "dangling":
			if src.DangGen {
				v := sc("i:999")
				g[n] = Node{K: "val", V: &v} // the generation 0 object nobody refers to
			}
		default:
			if ren(n) == n {
				g[n] = Node{K: "free"}
			} else {
				v := nul()
				g[ren(n)] = Node{K: "val", V: &v} // a reused number needs an object
			}
		}
	}
	src.Graph = g

	// real values
	vals := map[int]obj.Value{}
	extra := max + 3 // numbers for indirect /Crypt names and parameters (after catalog and pages)
	for _, n := range g.nums() {
		nd := g[n]
		switch nd.K {
		case "val":
			if nd.V.T == "st" {
				body := bodyBytes(spec.Seed, nd.V.Body, n)
				raw, err := encodeBody(g, *nd.V, body)
				if err != nil {
					return nil, fmt.Errorf("stream %d: %v", n, err)
				}
				src.Bodies[n] = body
				var cn, cp obj.Value
				if nd.V.CFI && nd.V.CF != "default" && nd.V.CF != "" {
					vals[extra], vals[extra+1] = obj.Name("Crypt"), cryptParmsDict(nd.V.CF)
					cn, cp = obj.Ref{Num: uint32(extra)}, obj.Ref{Num: uint32(extra + 1)}
					extra += 2
				}
				vals[n] = &obj.Stream{Dict: streamDict(*nd.V, cn, cp), Raw: raw}
			} else {
				vals[n] = toObj(*nd.V)
			}
		case "ref":
			vals[n] = refOf(nd.To)
		}
	}
	catalog, pages := max+1, max+2
	vals[catalog] = obj.Dict{"Type": obj.Name("Catalog"), "Pages": obj.Ref{Num: uint32(pages)}}
	vals[pages] = obj.Dict{"Type": obj.Name("Pages"), "Kids": obj.Array{}, "Count": obj.Int(0)}

	var err error
	if spec.Via == "writer" {
		err = src.viaWriter(g, vals, spec, catalog, pages)
	} else {
		err = src.viaSer(g, vals, spec, rng, catalog, extra)
	}
	if err != nil {
		return nil, err
	}
	return src, nil
}

func (src *Source) viaSer(g Graph, vals map[int]obj.Value, spec SrcSpec, rng *rand.Rand, catalog, free int) error {
	crypt := hasExplicitCrypt(g)
	var p secure.Params
	switch spec.Enc {
	case "none":
		src.Version = []string{"1.4", "1.7", "2.0"}[rng.Intn(3)]
		if crypt {
			src.Version = "1.7"
		}
	case "rc4":
		switch k := rng.Intn(3); {
		case crypt || k == 0:
			p, src.Version, src.Method = secure.Params{R: 4, RC4: true}, "1.5", "rc4-r4"
		case k == 1:
			p, src.Version, src.Method = secure.Params{R: 3, KeyBits: 128}, "1.4", "rc4-r3"
		default:
			p, src.Version, src.Method = secure.Params{R: 2}, "1.3", "rc4-r2"
		}
	case "aes":
		if rng.Intn(2) == 0 {
			p, src.Version, src.Method = secure.Params{R: 4}, "1.6", "aes-r4"
		} else {
			p, src.Version, src.Method = secure.Params{R: 6}, "2.0", "aes-r6"
		}
	default:
		return fmt.Errorf("unknown source encryption %q", spec.Enc)
	}
	kind := ser.Table
	if src.Version >= "1.5" && rng.Intn(2) == 0 {
		kind = ser.Stream
	}
	trailer := func() obj.Dict { return obj.Dict{"Root": obj.Ref{Num: uint32(catalog)}} }
	rev := ser.Revision{Kind: kind, Trailer: trailer()}
	nums := make([]int, 0, len(vals))
	for n := range vals {
		nums = append(nums, n)
	}
	defineOp := func(n int, inObjStm bool) ser.Op {
		v := vals[n]
		op := ser.Op{Num: uint32(n % genBase), Kind: ser.Define, Value: v}
		_, isStream := v.(*obj.Stream)
		_, isRef := v.(obj.Ref)
		switch {
		case isStream:
			op.Length = []ser.LengthMode{ser.LenDirect, ser.LenIndirect}[rng.Intn(2)]
		case inObjStm && kind == ser.Stream && !isRef && rng.Intn(3) == 0:
			op.InObjStm = true
		}
		return op
	}
	var reused []int // objects with generation 1: the number is defined, freed and defined again
	for _, n := range Graph(nil).sorted(nums) {
		if n >= genBase {
			reused = append(reused, n)
			rev.Ops = append(rev.Ops, ser.Op{Num: uint32(n % genBase), Kind: ser.Define, Value: obj.Name("FirstLife")})
			continue
		}
		rev.Ops = append(rev.Ops, defineOp(n, true))
	}
	for _, n := range g.nums() {
		if g[n].K == "free" {
			rev.Ops = append(rev.Ops, ser.Op{Num: uint32(n), Kind: ser.Free, Style: []ser.FreeStyle{ser.Linked, ser.Retired}[rng.Intn(2)]})
		}
	}
	doc := &ser.Doc{Version: src.Version, Revisions: []ser.Revision{rev}}
	if len(reused) > 0 {
		r2 := ser.Revision{Kind: kind, Trailer: trailer()}
		r3 := ser.Revision{Kind: kind, Trailer: trailer()}
		for _, n := range reused {
			r2.Ops = append(r2.Ops, ser.Op{Num: uint32(n % genBase), Kind: ser.Free, Style: ser.Linked})
			r3.Ops = append(r3.Ops, defineOp(n, false))
		}
		doc.Revisions = append(doc.Revisions, r2, r3)
	}
	opt := &ser.Options{Seed: spec.Seed}
	if spec.Enc != "none" {
		id0 := make([]byte, 16)
		rng.Read(id0)
		p.User, p.Owner, p.P, p.ID0, p.Rand = userPW, ownerPW, 0xFFFFFFFC, id0, rng
		enc, fileKey, err := secure.NewEncryptDict(p)
		if err != nil {
			return err
		}
		h, err := secure.Parse(enc, id0)
		if err != nil {
			return err
		}
		var encV obj.Value = enc
		if rng.Intn(2) != 0 {
			encNum := free
			doc.Revisions[0].Ops = append(doc.Revisions[0].Ops, ser.Op{Num: uint32(encNum), Kind: ser.Define, Value: enc})
			encV = obj.Ref{Num: uint32(encNum)}
			doc.EncryptRef = obj.Ref{Num: uint32(encNum)}
		}
		for i := range doc.Revisions {
			doc.Revisions[i].Trailer["ID"] = obj.Array{obj.Str(id0), obj.Str(id0)}
			doc.Revisions[i].Trailer["Encrypt"] = encV
		}
		identity := map[uint32]bool{}
		for n, nd := range g {
			if nd.K == "val" && nd.V.T == "st" && nd.V.CF == "identity" {
				identity[uint32(n%genBase)] = true
			}
		}
		ivr := rand.New(rand.NewSource(spec.Seed + 5))
		var encErr error
		opt.Encrypt = func(ref obj.Ref, isStream bool, data []byte) []byte {
			if isStream && identity[ref.Num] {
				return data
			}
			key, aes, ok := h.KeyFor(fileKey, ref.Num, ref.Gen, isStream)
			if !ok {
				return data
			}
			iv := make([]byte, 16)
			ivr.Read(iv)
			out, err := secure.Encrypt(key, aes, iv, data)
			if err != nil && encErr == nil {
				encErr = err
			}
			return out
		}
		res, err := ser.RenderResult(doc, opt)
		if err != nil {
			return err
		}
		if encErr != nil {
			return encErr
		}
		src.Bytes = res.Bytes
		return nil
	}
	res, err := ser.RenderResult(doc, opt)
	if err != nil {
		return err
	}
	src.Bytes = res.Bytes
	return nil
}

func (Graph) sorted(nums []int) []int {
	out := append([]int(nil), nums...)
	for i := 1; i < len(out); i++ {
		for j := i; j > 0 && out[j] < out[j-1]; j-- {
			out[j], out[j-1] = out[j-1], out[j]
		}
	}
	return out
}

// viaWriter produces the source with go-pdf's own Writer.
func (src *Source) viaWriter(g Graph, vals map[int]obj.Value, spec SrcSpec, catalog, pages int) error {
	rng := rand.New(rand.NewSource(spec.Seed*17 + 3))
	var v pdf.Version
	opt := &pdf.WriterOptions{HumanReadable: rng.Intn(2) == 0}
	switch spec.Enc {
	case "none":
		v = []pdf.Version{pdf.V1_3, pdf.V1_7, pdf.V2_0}[rng.Intn(3)]
	case "rc4":
		v = []pdf.Version{pdf.V1_3, pdf.V1_4}[rng.Intn(2)]
		src.Method = map[pdf.Version]string{pdf.V1_3: "rc4-40-writer", pdf.V1_4: "rc4-128-writer"}[v]
	case "aes":
		v = []pdf.Version{pdf.V1_7, pdf.V2_0}[rng.Intn(2)]
		src.Method = map[pdf.Version]string{pdf.V1_7: "aes-128-writer", pdf.V2_0: "aes-256-writer"}[v]
	}
	if spec.Enc != "none" {
		opt.UserPassword, opt.OwnerPassword, opt.UserPermissions = userPW, ownerPW, pdf.PermAll
	}
	vs, _ := v.ToString()
	src.Version = vs
	sink := &shared.SeekMemSink{}
	w, err := pdf.NewWriter(sink, v, opt)
	if err != nil {
		return err
	}
	for i := 1; i <= pages; i++ {
		w.Alloc()
	}
	for _, n := range Graph(nil).sorted(keysOf(vals)) {
		if n == catalog {
			continue // the Writer writes its own catalog
		}
		ref := pdf.NewReference(uint32(n), 0)
		switch x := vals[n].(type) {
		case *obj.Stream:
			err = w.Put(ref, pdf.NewStream(shared.ToPDF(x.Dict).(pdf.Dict), x.Raw))
		default:
			err = w.Put(ref, shared.ToPDF(x))
		}
		if err != nil {
			return fmt.Errorf("writer: object %d: %v", n, err)
		}
	}
	w.GetMeta().Catalog.Pages = pdf.NewReference(uint32(pages), 0)
	if err := w.Close(); err != nil {
		return err
	}
	src.Bytes = sink.Bytes()
	return nil
}

func keysOf(m map[int]obj.Value) []int {
	out := make([]int, 0, len(m))
	for k := range m {
		out = append(out, k)
	}
	return out
}
