// Package c11 binds spec/graph/Copier.tla to pdf.Copier (copier.go).
//
//	P-A  Gen_Copier: TLC explores the bounded model of the copier the property
//	     demands (checking Once, Sharing, Iso, Terminates on the way) and
//	     writes out every finished (source graph, call sequence).  Each is
//	     materialised as a real source file (independent serialiser + independent
//	     security handler, or go-pdf's Writer where it can) under rotating
//	     source/target encryptions and versions; the calls run on the real
//	     pdf.Copier; the closed target is read back by the independent strict
//	     parser and by go-pdf's Reader.
//	P-B  The run is logged as a record (source graph as the strict parser
//	     reads it, call events, the target objects reachable from the results
//	     in both views) and judged by TLC with Trace_Copier, which uses only
//	     the reference operators of CopierRef (isomorphism up to target
//	     numbering, one image per source object, repeat calls).
//
// The Go mirror of the correspondence (diagnose.go) only names the failure
// class for the violation key and cross-checks the machinery; where it
// disagrees with TLC the run ends with an infrastructure error.
package c11

import (
	"encoding/json"
	"fmt"
	"os"
	"path/filepath"
	"sort"
	"strings"
	"sync"

	"verif/harness/core"
)

var Driver = core.Driver{ID: "C11", Level: "model_checking", Run: run, Replay: replay, SelfTest: selfTest}

// family is one bounded alphabet of the model (a pair of cfg files).
type family struct {
	name     string
	srcEnc   []string // source encryptions the cases may be run with
	thorough bool     // thorough tier only
}

var families = []family{
	{name: "chain", srcEnc: []string{"none", "rc4", "aes"}},
	{name: "gen", srcEnc: []string{"none", "rc4", "aes"}},
	{name: "cont", srcEnc: []string{"none", "rc4", "aes"}},
	{name: "calls", srcEnc: []string{"none", "rc4", "aes"}},
	{name: "stream", srcEnc: []string{"none"}},
	{name: "streamcalls", srcEnc: []string{"none", "rc4", "aes"}},
	{name: "parms", srcEnc: []string{"none", "rc4", "aes"}},
	{name: "streamenc", srcEnc: []string{"rc4", "aes"}},
}

// genCase is one line written by Gen_Copier.
type genCase struct {
	Nodes  []Node `json:"nodes"`
	Twin   []int  `json:"twin"`
	Calls  []Call `json:"calls"`
	SrcEnc string `json:"srcenc"`
	Fail   string `json:"fail"`
	Nimg   int    `json:"nimg"`
}

func (gc genCase) key() string {
	b, _ := json.Marshal(struct {
		N []Node
		T []int
		C []Call
	}{gc.Nodes, gc.Twin, gc.Calls})
	return string(b)
}

var dstSpecs = []DstSpec{
	{Version: "1.7"}, {Version: "1.3"}, {Version: "2.0"}, {Version: "1.4"},
	{Version: "1.3", Encrypt: true}, {Version: "1.4", Encrypt: true}, {Version: "1.7", Encrypt: true}, {Version: "2.0", Encrypt: true},
}

// scalars the model's atom "i:7" stands for
var atomVariants = []string{"i:7", "s:736563726574205c28746578745c29", "n:Na me", "r:2.5", "b:true", "s:", "i:-2147483649"}

// generate runs the design model of one family: TLC checks the invariants and
// writes the cases.
func generate(ctx *core.Ctx, fam family) ([]genCase, error) {
	tier := "q"
	if ctx.Thorough() {
		tier = "t"
	}
	cfg := fmt.Sprintf("Gen_Copier_%s_%s.cfg", fam.name, tier)
	res, err := ctx.MustHold(core.TLCOpts{Dir: "graph", Module: "Gen_Copier", Cfg: cfg, Workers: ctx.Pick(8, 12),
		Timeout: ctx.Dur(8, 40), XssMB: 512, Env: map[string]string{"OUT": "gen.ndjson"}, Constants: "family " + fam.name + ", see " + cfg})
	if err != nil {
		return nil, err
	}
	raw, err := os.ReadFile(filepath.Join(res.RunDir, "gen.ndjson"))
	if err != nil {
		return nil, core.Infra("Gen_Copier (%s) wrote no cases: %v", cfg, err)
	}
	lines, err := core.ReadNDJSON[string](raw)
	if err != nil {
		return nil, core.Infra("Gen_Copier (%s): %v", cfg, err)
	}
	os.RemoveAll(res.RunDir)
	var out []genCase
	for _, l := range lines {
		var gc genCase
		if err := json.Unmarshal([]byte(l), &gc); err != nil {
			return nil, core.Infra("Gen_Copier (%s): %v in %q", cfg, err, l)
		}
		out = append(out, gc)
	}
	if len(out) == 0 {
		return nil, core.Infra("Gen_Copier (%s) produced no cases", cfg)
	}
	keys := make(map[*genCase]string, len(out))
	ptrs := make([]*genCase, len(out))
	for i := range out {
		ptrs[i] = &out[i]
		keys[ptrs[i]] = out[i].key()
	}
	sort.Slice(ptrs, func(i, j int) bool { return keys[ptrs[i]] < keys[ptrs[j]] })
	sorted := make([]genCase, len(out))
	for i, p := range ptrs {
		if i > 0 && keys[p] == keys[ptrs[i-1]] {
			return nil, core.Infra("Gen_Copier (%s) wrote a case twice", cfg)
		}
		sorted[i] = *p
	}
	out = sorted
	ctx.Logf("family %s: %d (graph, calls) cases from %d states", fam.name, len(out), res.Distinct)
	return out, nil
}

// jobsFor turns a generated case into executions.
func jobsFor(ctx *core.Ctx, fam family, idx int, gc genCase) []Job {
	type pairing struct {
		src string
		dst DstSpec
	}
	var all []pairing
	for _, s := range fam.srcEnc {
		for _, d := range dstSpecs {
			all = append(all, pairing{s, d})
		}
	}
	n := 2
	if ctx.Thorough() && idx%32 == 0 {
		n = 8 // every 32nd case sees a third of the pairings
	}
	if n > len(all) {
		n = len(all)
	}
	var nodes []Node
	for i, nd := range gc.Nodes {
		nd.N = i + 1
		if i < len(gc.Twin) && gc.Twin[i] != i+1 {
			nd.Twin = gc.Twin[i]
		}
		nodes = append(nodes, nd)
	}
	var jobs []Job
	base := idx*7 + int(ctx.Seed)*13
	for k := 0; k < n; k++ {
		p := all[(base+k*5)%len(all)]
		variant := atomVariants[(base+k)%len(atomVariants)]
		conc := func(a string) string {
			if a == "i:7" {
				return variant
			}
			return a
		}
		job := Job{Calls: make([]Call, len(gc.Calls)), Origin: "gen/" + fam.name, HasModel: true, ModelFail: gc.Fail, ModelNimg: gc.Nimg}
		for _, nd := range nodes {
			if nd.V != nil {
				v := nd.V.mapAtoms(conc)
				nd.V = &v
			}
			job.Nodes = append(job.Nodes, nd)
		}
		for i, c := range gc.Calls {
			if c.V != nil {
				v := c.V.mapAtoms(conc)
				c.V = &v
			}
			job.Calls[i] = c
		}
		job.Src = SrcSpec{Enc: p.src, Via: "ser", Seed: int64(base*31 + k)}
		if writerCan(job.graph()) && (base+k)%3 == 0 {
			job.Src.Via = "writer"
		}
		job.Dst = p.dst
		job.Dst.Human = (base+k)%4 == 1
		job.Dst.Seek = (base+k)%2 == 0
		job.Dst.Open = (base+k)%3 == 1 || (fam.name == "streamcalls" && k == 0)
		job.Dst.LatePut = (base/2+k)%2 == 1
		jobs = append(jobs, job)
	}
	return jobs
}

// executeAll runs the jobs on the real code in parallel.
func executeAll(jobs []Job) ([]*Record, error) {
	recs := make([]*Record, len(jobs))
	var first error
	var mu sync.Mutex
	var wg sync.WaitGroup
	sem := make(chan struct{}, 16)
	for i := range jobs {
		wg.Add(1)
		sem <- struct{}{}
		go func(i int) {
			defer wg.Done()
			defer func() { <-sem }()
			rec, err := Execute(&jobs[i])
			if err != nil {
				mu.Lock()
				if first == nil {
					b, _ := json.Marshal(jobs[i])
					first = core.Infra("%v\n  job: %s", err, b)
				}
				mu.Unlock()
				return
			}
			rec.ID = fmt.Sprintf("%s#%d", jobs[i].Origin, i)
			recs[i] = rec
		}(i)
	}
	wg.Wait()
	return recs, first
}

var judgeOpts = core.TLCOpts{Dir: "graph", Module: "Trace_Copier", Cfg: "Trace_Copier.cfg", XssMB: 512}

type tally struct {
	mu       sync.Mutex
	counts   map[string]int
	outcomes map[string]int
}

// judge lets TLC decide on the records, cross-checks with the harness's own
// opinion and the model's expectations, and reports violations.
func judge(ctx *core.Ctx, recs []*Record, t *tally) error {
	o := judgeOpts
	o.Timeout = ctx.Dur(10, 40)
	bad, err := core.JudgeCases(ctx, o, recs, ctx.Pick(500, 2000), 14)
	if err != nil {
		return err
	}
	isBad := map[int]bool{}
	for _, b := range bad {
		isBad[b] = true
	}
	for i, rec := range recs {
		ctx.Ev.Eval(1)
		t.mu.Lock()
		t.outcomes[rec.Outcome]++
		t.mu.Unlock()
		g := Graph{}
		for _, nd := range rec.Src {
			g[nd.N] = nd
		}
		if nontrivial(g, rec) {
			b, _ := json.Marshal(struct {
				S []Node
				C []Call
				E string
			}{rec.Src, rec.job.Calls, rec.SrcEnc + ">" + rec.DstEnc + "/" + rec.job.Dst.Version})
			ctx.Ev.Distinct(string(b))
		}
		mine := goVerdict(rec)
		if mine == isBad[i] {
			b, _ := json.Marshal(rec.job)
			return core.Infra("harness and specification disagree on record %s (TLC rejects: %v, harness accepts: %v)\n  job: %s", rec.ID, isBad[i], mine, b)
		}
		// table check: the model's expectation (a consequence of Iso) against the real run
		if tableSuspect(g, rec) && !isBad[i] {
			b, _ := json.Marshal(rec.job)
			return core.Infra("model expects %d source objects with an image, the accepted real run differs\n  job: %s", rec.job.ModelNimg, b)
		}
		if !isBad[i] {
			continue
		}
		key, what := classify(rec)
		t.mu.Lock()
		t.counts[key]++
		n := t.counts[key]
		t.mu.Unlock()
		if n <= 2 {
			gs := g.String()
			if len(gs) > 400 {
				gs = gs[:400] + " ..."
			}
			what = fmt.Sprintf("%s | source {%s} calls %v, source %s (%s), target %s %s", what, gs, rec.job.Calls, rec.SrcEnc, rec.job.Src.Via, rec.job.Dst.Version, rec.DstEnc)
			ctx.Violation(key, what, rec.job)
		}
	}
	return nil
}

// tableSuspect compares the expectation Gen_Copier wrote for the case (the
// number of source objects with an image, a consequence of CopierRef!Iso)
// with the real run.
func tableSuspect(g Graph, rec *Record) bool {
	if !rec.job.HasModel || rec.Outcome != "ok" || rec.job.ModelFail != "" || len(rec.Views) == 0 {
		return false
	}
	c := correspond(g, rec.Views[0], rec.Ext)
	return len(c.probs) > 0 || len(c.m) != rec.job.ModelNimg
}

// nontrivial: at least two source objects have an image, or the copy meets a
// chain, a free or an undefined object.
func nontrivial(g Graph, rec *Record) bool {
	if rec.Outcome != "ok" || len(rec.Views) == 0 {
		return rec.Outcome == "panic" || rec.Outcome == "error" || rec.Outcome == "diverges"
	}
	c := correspond(g, rec.Views[0], rec.Ext)
	if len(c.m) >= 2 {
		return true
	}
	for _, nd := range g {
		if nd.K != "val" {
			return true
		}
	}
	return false
}

func run(ctx *core.Ctx) error {
	ctx.Ev.Rule = "a case is one execution of a call sequence of pdf.Copier on a real source file, closed target read back by two readers; " +
		"non-trivial = at least two source objects have an image in the target, or the source has a reference chain / free / undefined object, or the run panics or fails; " +
		"distinct = distinct (source graph as parsed, calls, encryption pairing, target version)"
	ctx.Ev.Assume("harness/indep/strict (parser), indep/ser (serialiser) and indep/secure (security handler) are faithful readings of ISO 32000; they share no code with go-pdf")
	ctx.Ev.Assume("stream data are compared as decoded bytes (decoders of indep/strict and of go-pdf); /Length, /Filter and /DecodeParms spellings are not compared")
	ctx.Ev.Assume("Redirect after a copy, Redirect of an object inside a reference chain and calls after an error are outside the property and not generated")

	t := &tally{counts: map[string]int{}, outcomes: map[string]int{}}
	total := 0
	var fams []family
	for _, fam := range families {
		if fam.thorough && !ctx.Thorough() {
			continue
		}
		if only := os.Getenv("C11_FAMILIES"); only != "" && !strings.Contains(","+only+",", ","+fam.name+",") {
			continue // development aid: restrict the run to some families
		}
		fams = append(fams, fam)
	}
	// the design models run ahead of the executions (quick: all at once)
	type genResult struct {
		cases []genCase
		err   error
	}
	gens := make([]chan genResult, len(fams))
	gsem := make(chan struct{}, ctx.Pick(5, 2))
	for i, fam := range fams {
		gens[i] = make(chan genResult, 1)
		go func(ch chan genResult, fam family) {
			gsem <- struct{}{}
			cases, err := generate(ctx, fam)
			<-gsem
			ch <- genResult{cases, err}
		}(gens[i], fam)
	}
	// TLC judges one chunk of records while the next chunk is executed
	var pending chan error
	wait := func() error {
		if pending == nil {
			return nil
		}
		err := <-pending
		pending = nil
		return err
	}
	for fi, fam := range fams {
		res := <-gens[fi]
		if res.err != nil {
			return res.err
		}
		var jobs []Job
		for i, gc := range res.cases {
			jobs = append(jobs, jobsFor(ctx, fam, i, gc)...)
		}
		for lo := 0; lo < len(jobs); lo += 40000 { // bounded memory in the thorough tier
			hi := min(lo+40000, len(jobs))
			recs, err := executeAll(jobs[lo:hi])
			if err != nil {
				return err
			}
			ctx.Logf("family %s: %d executions on the real copier done", fam.name, hi)
			if err := wait(); err != nil {
				return err
			}
			if lo == 0 && len(recs) > 0 {
				r := recs[len(recs)/2]
				ctx.Ev.Sample(map[string]any{"kind": "generated case executed on pdf.Copier and judged by Trace_Copier", "family": fam.name,
					"source": Graph(r.job.graph()).String(), "calls": fmt.Sprint(r.job.Calls), "src": r.job.Src, "dst": r.job.Dst, "outcome": r.Outcome, "events": r.Events})
			}
			pending = make(chan error, 1)
			go func(ch chan error, recs []*Record) { ch <- judge(ctx, recs, t) }(pending, recs)
		}
		ctx.Ev.AddReplayed(len(jobs))
		total += len(jobs)
	}
	if err := wait(); err != nil {
		return err
	}

	// the bound on chain lengths: design check with a small bound, the real constant on the real code
	if _, err := ctx.MustHold(core.TLCOpts{Dir: "graph", Module: "MC_Copier", Cfg: "MC_Copier_depth.cfg", Workers: 8, Timeout: ctx.Dur(8, 20), XssMB: 512,
		Constants: "MaxChain = 3, N = 4: chains of 2, 3 and 4 references"}); err != nil {
		return err
	}
	djobs := depthJobs(ctx)
	drecs, err := executeAll(djobs)
	if err != nil {
		return err
	}
	if err := judge(ctx, drecs, t); err != nil {
		return err
	}
	total += len(djobs)

	// seeded larger graphs
	rjobs := randomJobs(ctx)
	recs, err := executeAll(rjobs)
	if err != nil {
		return err
	}
	if err := judge(ctx, recs, t); err != nil {
		return err
	}
	if len(recs) > 0 {
		r := recs[0]
		ctx.Ev.Sample(map[string]any{"kind": "seeded graph executed on pdf.Copier and judged by Trace_Copier",
			"source": Graph(r.job.graph()).String(), "calls": fmt.Sprint(r.job.Calls), "src": r.job.Src, "dst": r.job.Dst, "outcome": r.Outcome})
	}
	total += len(rjobs)

	for _, k := range core.SortedKeys(t.counts) {
		ctx.Logf("rejected records with key %s: %d", k, t.counts[k])
	}
	var oc []string
	for _, k := range core.SortedKeys(t.outcomes) {
		oc = append(oc, fmt.Sprintf("%s=%d", k, t.outcomes[k]))
	}
	ctx.Logf("%d executions on the real copier (%s)", total, strings.Join(oc, " "))
	ctx.Ev.Set("outcomes", t.outcomes)
	ctx.Ev.Set("rejected_by_key", t.counts)
	ctx.Ev.Exhaustive = true
	ctx.Ev.Set("exhaustive_scope", "every (source graph, call sequence) of the bounded model families (Gen_Copier_*.cfg), up to renaming of object numbers, in TLC and on the real copier; encryption pairings, versions and scalar types rotate over the cases; seeded graphs of 6-12 objects beyond")
	return nil
}

func replay(ctx *core.Ctx, raw json.RawMessage) error {
	var job Job
	if err := json.Unmarshal(raw, &job); err != nil {
		return core.Infra("replay: %v", err)
	}
	rec, err := Execute(&job)
	if err != nil {
		return core.Infra("replay: %v", err)
	}
	rec.ID = "replay"
	bad, err := core.JudgeCases(ctx, judgeOpts, []*Record{rec}, 1, 1)
	if err != nil {
		return err
	}
	fmt.Printf("  source: %s\n  calls: %v\n  outcome: %s %s\n", job.graph(), job.Calls, rec.Outcome, rec.Msg)
	for _, v := range rec.Views {
		fmt.Printf("  target as read by %s: results %v objects %v\n", v.Name, v.Roots, v.Dst)
	}
	if len(bad) > 0 {
		key, what := classify(rec)
		ctx.Violation(key, what, job)
	}
	return nil
}
