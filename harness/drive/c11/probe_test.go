//go:build verif

package c11

import (
	"bytes"
	"fmt"
	"testing"

	"seehuhn.de/go/pdf"

	"verif/harness/indep/obj"
	"verif/harness/indep/ser"
)

func TestProbe(t *testing.T) {
	doc := &ser.Doc{Version: "1.7", Revisions: []ser.Revision{{
		Kind: ser.Table,
		Ops: []ser.Op{
			{Num: 1, Kind: ser.Define, Value: obj.Dict{"Type": obj.Name("Catalog"), "Pages": obj.Ref{Num: 2}}},
			{Num: 2, Kind: ser.Define, Value: obj.Dict{"Type": obj.Name("Pages"), "Kids": obj.Array{}, "Count": obj.Int(0)}},
			{Num: 3, Kind: ser.Define, Value: obj.Array{}},
			{Num: 4, Kind: ser.Define, Value: obj.Ref{Num: 5}},
			{Num: 5, Kind: ser.Define, Value: obj.Dict{"A": obj.Ref{Num: 3}, "E": obj.Array{}, "D": obj.Dict{}, "F": obj.Ref{Num: 9}, "G": obj.Ref{Num: 30}, "S": obj.Str("hello")}},
			{Num: 6, Kind: ser.Define, Value: obj.Dict{"N": obj.Null{}, "X": obj.Int(1)}},
			{Num: 7, Kind: ser.Define, Value: obj.Ref{Num: 8}},
			{Num: 8, Kind: ser.Define, Value: obj.Ref{Num: 7}},
			{Num: 9, Kind: ser.Free},
			{Num: 10, Kind: ser.Define, Value: &obj.Stream{Dict: obj.Dict{"K": obj.Ref{Num: 5}}, Raw: []byte("stream body")}, Length: ser.LenIndirect},
		},
		Trailer: obj.Dict{"Root": obj.Ref{Num: 1}},
	}}}
	data := ser.Render(doc, &ser.Options{Seed: 1})
	r, err := pdf.NewReader(bytes.NewReader(data), int64(len(data)), nil)
	if err != nil {
		t.Fatal(err)
	}
	try := func(name string, f func(c *pdf.Copier, w *pdf.Writer) (pdf.Object, error)) {
		defer func() {
			if p := recover(); p != nil {
				fmt.Printf("%s: PANIC %v\n", name, p)
			}
		}()
		buf := &bytes.Buffer{}
		w, err := pdf.NewWriter(buf, pdf.V1_7, nil)
		if err != nil {
			t.Fatal(err)
		}
		c := pdf.NewCopier(w, r)
		res, err := f(c, w)
		fmt.Printf("%s: res=%v err=%v\n", name, res, err)
		pages := w.Alloc()
		w.Put(pages, pdf.Dict{"Type": pdf.Name("Pages"), "Kids": pdf.Array{}, "Count": pdf.Integer(0)})
		w.GetMeta().Catalog.Pages = pages
		rr := w.Alloc()
		if s, ok := res.(*pdf.Stream); ok {
			if err := w.Put(rr, s); err != nil {
				fmt.Println("put stream:", err)
			}
		} else {
			w.Put(rr, res)
		}
		w.GetMeta().Catalog.Dests = rr
		err = w.Close()
		fmt.Printf("close err=%v\n%s\n", err, buf.String())
	}
	ref := func(n int) pdf.Reference { return pdf.NewReference(uint32(n), 0) }
	try("empty", func(c *pdf.Copier, w *pdf.Writer) (pdf.Object, error) { return c.Copy(pdf.Array{ref(3), pdf.Array{}, ref(5)}) })
	try("chain", func(c *pdf.Copier, w *pdf.Writer) (pdf.Object, error) { return c.Copy(pdf.Array{ref(4), ref(5), ref(5)}) })
	try("nullentry", func(c *pdf.Copier, w *pdf.Writer) (pdf.Object, error) { return c.CopyReference(ref(6)) })
	try("refcycle", func(c *pdf.Copier, w *pdf.Writer) (pdf.Object, error) { return c.CopyReference(ref(7)) })
	try("stream", func(c *pdf.Copier, w *pdf.Writer) (pdf.Object, error) { return c.CopyReference(ref(10)) })
	try("streamdirect", func(c *pdf.Copier, w *pdf.Writer) (pdf.Object, error) {
		o, err := r.Get(ref(10), true); s, _ := o.(*pdf.Stream)
		if err != nil {
			return nil, err
		}
		return c.Copy(s)
	})
}
