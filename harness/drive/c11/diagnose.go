package c11

import (
	"fmt"
	"sort"
	"strings"
)

// The verdict on a record is TLC's (Trace_Copier).  This file mirrors
// CopierRef!Correspondence in Go for two purposes only: the table check of
// generated cases (number of source objects that have an image) and naming
// the class of a rejected record for the violation key.

type pair struct{ s, d int }

type problem struct {
	class string // stable class name
	text  string
}

type corr struct {
	g     Graph
	d     map[int]Val
	ext   map[pair]bool
	m     map[pair]bool
	probs []problem
}

func (c *corr) dcanon(n int) int {
	seen := map[int]bool{}
	for {
		v, ok := c.d[n]
		if seen[n] || !ok {
			return 0
		}
		seen[n] = true
		switch v.T {
		case "r":
			n = v.N
		case "z":
			return 0
		default:
			return n
		}
	}
}

func shapeName(v Val) string {
	switch v.T {
	case "s":
		return "scalar"
	case "z":
		return "null"
	case "r":
		return "reference"
	case "a":
		if len(v.E) == 0 {
			return "empty-array"
		}
		return "array"
	case "d":
		if len(nonNullKeys(v)) == 0 {
			return "empty-dict"
		}
		return "dict"
	case "st":
		return "stream"
	}
	return v.T
}

func nonNullKeys(v Val) []string {
	var out []string
	for i, k := range v.K {
		if v.E[i].T != "z" {
			out = append(out, k)
		}
	}
	return out
}

func (c *corr) fail(class, format string, a ...any) {
	c.probs = append(c.probs, problem{class, fmt.Sprintf(format, a...)})
}

// match mirrors CopierRef!Match; new pairs are appended to todo.
func (c *corr) match(s, d Val, at string, todo *[]pair) {
	switch s.T {
	case "s":
		if d.T != "s" {
			c.fail("shape/scalar-becomes-"+shapeName(d), "%s: scalar %s copied as %s", at, s, d)
		} else if d.A != s.A {
			kind, _, _ := strings.Cut(s.A, ":")
			c.fail("shape/scalar-value/"+kind, "%s: scalar %s copied as %s", at, s, d)
		}
	case "z":
		if d.T != "z" {
			c.fail("shape/null-becomes-"+shapeName(d), "%s: null copied as %s", at, d)
		}
	case "r":
		if d.T != "r" {
			c.fail("shape/reference-becomes-"+shapeName(d), "%s: reference %s copied as %s", at, s, d)
			return
		}
		cs := c.g.canon(s.N)
		if cs == 0 {
			if c.dcanon(d.N) != 0 {
				c.fail("shape/null-object-becomes-"+shapeName(c.d[c.dcanon(d.N)]), "%s: reference %s to the null object copied as a reference to %s", at, s, c.d[c.dcanon(d.N)])
			}
			return
		}
		dc := c.dcanon(d.N)
		if dc == 0 {
			dc = d.N
		}
		*todo = append(*todo, pair{cs, dc})
	case "a":
		if d.T != "a" {
			c.fail("shape/"+shapeName(s)+"-becomes-"+shapeName(d), "%s: %s copied as %s", at, s, d)
			return
		}
		if len(d.E) != len(s.E) {
			c.fail("shape/array-length", "%s: array of %d elements copied with %d", at, len(s.E), len(d.E))
			return
		}
		for i := range s.E {
			c.match(s.E[i], d.E[i], fmt.Sprintf("%s[%d]", at, i), todo)
		}
	case "d", "st":
		if d.T != s.T {
			c.fail("shape/"+shapeName(s)+"-becomes-"+shapeName(d), "%s: %s copied as %s", at, s, d)
			return
		}
		if s.T == "st" && s.Body != d.Body {
			c.fail("stream/decoded-bytes", "%s: stream data %s read back as %s", at, s.Body, d.Body)
			return
		}
		sk, dk := nonNullKeys(s), nonNullKeys(d)
		if strings.Join(sk, "/") != strings.Join(dk, "/") {
			missing, extra := diffKeys(sk, dk)
			if len(missing) > 0 {
				e, _ := s.entry(missing[0])
				c.fail("shape/dict-entry-lost/"+shapeName(e), "%s: entries %v lost (source %s, copy %s)", at, missing, s, d)
			} else {
				c.fail("shape/dict-entry-added", "%s: entries %v added (source %s, copy %s)", at, extra, s, d)
			}
			return
		}
		for _, k := range sk {
			se, _ := s.entry(k)
			de, _ := d.entry(k)
			c.match(se, de, at+"/"+k, todo)
		}
		if s.T == "st" {
			sp, dp := nul(), nul()
			if s.P != nil {
				sp = *s.P
			}
			if d.P != nil {
				dp = *d.P
			}
			before := len(c.probs)
			c.match(sp, dp, at+"/DecodeParms", todo)
			for i := before; i < len(c.probs); i++ {
				c.probs[i].class = "stream/decode-parms-reference/" + strings.TrimPrefix(c.probs[i].class, "shape/")
			}
		}
	default:
		c.fail("shape/unknown", "%s: %s", at, s)
	}
}

func diffKeys(a, b []string) (missing, extra []string) {
	in := func(s []string, k string) bool {
		for _, x := range s {
			if x == k {
				return true
			}
		}
		return false
	}
	for _, k := range a {
		if !in(b, k) {
			missing = append(missing, k)
		}
	}
	for _, k := range b {
		if !in(a, k) {
			extra = append(extra, k)
		}
	}
	return
}

// correspond mirrors CopierRef!Correspondence and the bijection checks.
func correspond(g Graph, view View, ext [][2]int) *corr {
	c := &corr{g: g, d: map[int]Val{}, ext: map[pair]bool{}, m: map[pair]bool{}}
	for _, o := range view.Dst {
		c.d[o.N] = o.V
	}
	for _, e := range ext {
		c.ext[pair{e[0], e[1]}] = true
	}
	var todo []pair
	for i, r := range view.Roots {
		c.match(r.S, r.D, fmt.Sprintf("result %d", i+1), &todo)
	}
	for len(todo) > 0 && len(c.probs) == 0 {
		p := todo[0]
		todo = todo[1:]
		if c.m[p] {
			continue
		}
		c.m[p] = true
		if c.ext[p] {
			continue
		}
		dv, ok := c.d[p.d]
		if !ok {
			c.fail("shape/object-becomes-undefined", "source object %d copied as a reference to the undefined object %d", p.s, p.d)
			break
		}
		c.match(*g[p.s].V, dv, fmt.Sprintf("object %d -> %d", p.s, p.d), &todo)
	}
	if len(c.probs) > 0 {
		return c
	}
	// every source object has one image
	img := map[int][]int{}
	pre := map[int][]int{}
	for p := range c.m {
		img[p.s] = append(img[p.s], p.d)
		if !c.ext[p] {
			pre[p.d] = append(pre[p.d], p.s)
		}
	}
	var ss []int
	for s := range img {
		ss = append(ss, s)
	}
	sort.Ints(ss)
	redirected := map[int]bool{}
	for e := range c.ext {
		redirected[e.s] = true
	}
	for _, s := range ss {
		if len(img[s]) > 1 {
			sort.Ints(img[s])
			how := "several-paths"
			if g.reachedThroughChain(s) {
				how = "chain-and-direct"
			}
			c.fail("sharing/copied-twice/"+how, "source object %d (%s) has %d copies: target objects %v", s, g[s].V, len(img[s]), img[s])
		}
		if redirected[s] {
			for _, d := range img[s] {
				if !c.ext[pair{s, d}] {
					c.fail("redirect/ignored", "redirected source object %d is also represented by target object %d", s, d)
				}
			}
		}
	}
	var ds []int
	for d := range pre {
		ds = append(ds, d)
	}
	sort.Ints(ds)
	for _, d := range ds {
		if len(pre[d]) > 1 {
			sort.Ints(pre[d])
			c.fail("merge/distinct-objects-share-a-copy", "source objects %v are all represented by target object %d", pre[d], d)
		}
	}
	return c
}

// reachedThroughChain: some object of kind "ref" leads to s.
func (g Graph) reachedThroughChain(s int) bool {
	for n, nd := range g {
		if nd.K == "ref" && g.canon(n) == s {
			return true
		}
	}
	return false
}

// hasNullEntry: some dictionary (or stream dictionary) of the graph or of the
// call arguments has an explicit null entry.
func hasNullEntry(v Val) bool {
	switch v.T {
	case "a":
		for _, e := range v.E {
			if hasNullEntry(e) {
				return true
			}
		}
	case "d", "st":
		for _, e := range v.E {
			if e.T == "z" || hasNullEntry(e) {
				return true
			}
		}
	}
	return false
}

// classify names the failure class of a record TLC rejected.
func classify(rec *Record) (key, what string) {
	g := Graph{}
	for _, nd := range rec.Src {
		g[nd.N] = nd
	}
	enc := rec.SrcEnc + "->" + rec.DstEnc
	switch rec.Outcome {
	case "panic":
		input := "other"
		for _, nd := range rec.Src {
			if nd.K == "val" && hasNullEntry(*nd.V) {
				input = "explicit-null-entry"
			}
		}
		for _, v := range rec.RootVals {
			if hasNullEntry(v) {
				input = "explicit-null-entry"
			}
		}
		return "panic/" + rec.where + "/" + input, "the copier panics: " + rec.Msg
	case "diverges":
		cyc := "acyclic"
		if g.hasCycle() {
			cyc = "cyclic-graph"
		}
		return "terminates/unbounded-recursion/" + cyc, "the copier does not terminate: " + rec.Msg
	case "error":
		return "error/" + errClass(rec.errText), "the copier returns an error for a conforming source: " + rec.Msg
	case "closeerr":
		return "close-error/" + errClass(rec.Msg), "Writer.Close fails after the copy: " + rec.Msg
	case "reopen-strict", "reopen-lib", "extract":
		return rec.Outcome + "/" + enc, "the target file cannot be read back: " + rec.Msg
	}
	for _, ev := range rec.Events {
		for _, ev2 := range rec.Events {
			if ev.Op == "ref" && ev2.Op == "ref" && ev.N == ev2.N && ev.D != ev2.D {
				return "repeat/different-target", fmt.Sprintf("CopyReference(%d) returned %d and later %d", ev.N, ev.D, ev2.D)
			}
		}
	}
	for _, view := range rec.Views {
		if len(view.Dup) > 0 {
			return "once/target-object-written-twice", fmt.Sprintf("target objects %v are defined more than once", view.Dup)
		}
		c := correspond(g, view, rec.Ext)
		if len(c.probs) > 0 {
			p := c.probs[0]
			key := p.class
			if strings.HasPrefix(key, "stream/") {
				key += "/" + enc
			}
			if view.Name == "lib" {
				// the strict view was fine: only go-pdf's own reader sees the difference
				key = "libview/" + key
			}
			return key, p.text + " [target as read by " + view.Name + "]"
		}
	}
	return "rejected/unclassified", "Trace_Copier rejects the record"
}

func errClass(msg string) string {
	switch {
	case strings.Contains(msg, "object in object stream"):
		return "filter-object-in-object-stream"
	case strings.Contains(msg, "non-Identity /Crypt"):
		return "crypt-filter-unsupported"
	case strings.Contains(msg, "length mismatch"):
		return "stream-length-mismatch"
	case strings.Contains(msg, "Length"):
		return "stream-length"
	}
	// keep the text but drop numbers
	var b strings.Builder
	for _, r := range msg {
		switch {
		case r >= '0' && r <= '9':
		case r == ' ':
			b.WriteByte('-')
		case r >= 'a' && r <= 'z' || r >= 'A' && r <= 'Z':
			b.WriteRune(r)
		}
		if b.Len() > 48 {
			break
		}
	}
	return b.String()
}

// goVerdict is the harness's own opinion (never a verdict): TLC must agree.
func goVerdict(rec *Record) bool {
	g := Graph{}
	for _, nd := range rec.Src {
		g[nd.N] = nd
	}
	switch rec.Outcome {
	case "ok":
		if g.ambiguous(rec.RootVals) {
			return true // outside the property (CopierRef!Ambiguous)
		}
	case "error":
		return unsupportedExpected(g, rec)
	default:
		return false
	}
	for _, ev := range rec.Events {
		for _, ev2 := range rec.Events {
			if ev.Op == "ref" && ev2.Op == "ref" && ev.N == ev2.N && ev.D != ev2.D {
				return false
			}
		}
	}
	for _, view := range rec.Views {
		if len(view.Dup) > 0 || len(correspond(g, view, rec.Ext).probs) > 0 {
			return false
		}
	}
	return true
}

func unsupportedExpected(g Graph, rec *Record) bool {
	if rec.SrcEnc == "none" {
		return false
	}
	seen := map[int]bool{}
	var todo []int
	for _, v := range rec.RootVals {
		if v.T == "st" && v.CF == "named" {
			return true
		}
		todo = v.refs(todo)
	}
	for len(todo) > 0 {
		n := todo[0]
		todo = todo[1:]
		if seen[n] {
			continue
		}
		seen[n] = true
		switch g.kind(n) {
		case "ref":
			todo = append(todo, g[n].To)
		case "val":
			if g[n].V.T == "st" && g[n].V.CF == "named" {
				return true
			}
			todo = g[n].V.refs(todo)
		}
	}
	return false
}

// hasCycle: some object is reachable from itself.
func (g Graph) hasCycle() bool {
	succ := func(n int) []int {
		switch g.kind(n) {
		case "ref":
			return []int{g[n].To}
		case "val":
			return g[n].V.refs(nil)
		}
		return nil
	}
	for _, start := range g.nums() {
		seen := map[int]bool{}
		todo := succ(start)
		for len(todo) > 0 {
			n := todo[0]
			todo = todo[1:]
			if n == start {
				return true
			}
			if seen[n] {
				continue
			}
			seen[n] = true
			todo = append(todo, succ(n)...)
		}
	}
	return false
}
