// Package ph binds spec/file/Placeholder.tla to pdf.Placeholder and the
// pdf.Writer (types.go, writer.go).  It runs from C02: a *Placeholder is an
// object value the Writer accepts (the stream /Length mechanism named in the
// property's anchors is built on it), so what it finds are C02 violations.
//
//	model   MC_Placeholder_fixed_*.cfg: all programs of up to 6 calls over
//	        two placeholders (NewPlaceholder, Put with one or two
//	        occurrences, WriteCompressed, OpenStream / Write / Close with the
//	        placeholder in the stream dictionary, Put while a stream is open,
//	        Set with an integer or a string, Set again, Close) x seekable /
//	        non-seekable x object streams or not x encrypted or not:
//	        RoundTrip, NoCorruption, WrittenOnce, NothingPending;
//	        MC_Placeholder_asfound_*.cfg are the negative controls (the code
//	        of the pinned tree before the repairs)
//	P-A     Gen_Placeholder writes every complete behaviour (one that ends
//	        with Close); each is replayed on a real pdf.Writer
//	P-B     the closed file is opened by the strict parser (decrypted by the
//	        independent security handler), every place a placeholder was
//	        written is read, and TLC judges outcomes, intactness and reads
//	        with Trace_Placeholder (the expectation follows from the calls)
package ph

import (
	"bytes"
	"encoding/json"
	"fmt"
	"io"
	"strings"
	"sync"

	"seehuhn.de/go/pdf"

	"verif/harness/core"
	"verif/harness/drive/shared"
	"verif/harness/indep/obj"
	"verif/harness/indep/secure"
	"verif/harness/indep/strict"
)

// Call is one call of a program (see Placeholder.tla, hist).
type Call struct {
	Op  string `json:"op"`
	P   int    `json:"p"`
	C   int    `json:"c"`
	V   string `json:"v"`
	Res string `json:"res"`
}

// Config is the configuration of the Writer.
type Config struct {
	Seekable  bool   `json:"seekable"`
	ObjStm    bool   `json:"objstm"`
	Encrypted bool   `json:"encrypted"`
	Version   string `json:"version"`
	// Exact: every placeholder reserves exactly as many bytes as its value
	// takes (5; the values are then the integers 12345 / 67890 / 13579 for the
	// model's "int" / "str" / "arr"): nothing of the reserved space is left
	// to separate the value from what follows
	Exact bool `json:"exact,omitempty"`
	// Preamble: the sink already holds bytes (and stands behind them) when the
	// Writer gets it: the file starts at a non-zero offset of the sink
	Preamble bool `json:"preamble,omitempty"`
}

// baseFamily names the model configuration (the Exact variant shares it).
func (c Config) baseFamily() string {
	c.Exact, c.Preamble = false, false
	return c.family()
}

func (c Config) family() string {
	s := []string{"noseek", "plain", "clear"}
	if c.Seekable {
		s[0] = "seek"
	}
	if c.ObjStm {
		s[1] = "objstm"
	}
	if c.Encrypted {
		s[2] = "enc"
	}
	if c.Exact {
		return strings.Join(s, "_") + "_exact"
	}
	if c.Preamble {
		return strings.Join(s, "_") + "_preamble"
	}
	return strings.Join(s, "_")
}

// Case is a replayable case.
type Case struct {
	Kind string `json:"kind"` // "placeholder"
	Cfg  Config `json:"cfg"`
	Prog []Call `json:"prog"`
}

// Read is what was found at one place a placeholder was written.
type Read struct {
	Call int    `json:"call"` // 1-based index into hist
	P    int    `json:"p"`
	Got  string `json:"got"`
}

// Record is what Trace_Placeholder judges.
type Record struct {
	ID     string `json:"id"`
	Clause string `json:"clause"`
	Hist   []Call `json:"hist"`
	FileOK bool   `json:"fileok"`
	Reads  []Read `json:"reads"`
	why    string
	c      *Case
}

const (
	intValue = 12345
	strValue = "secret-PH"
	phSize   = 80
	// Exact mode
	exactStr = 67890
	exactArr = 13579
)

func valueOf(kind string, exact bool) pdf.Native {
	switch {
	case kind == "int":
		return pdf.Integer(intValue)
	case exact && kind == "str":
		return pdf.Integer(exactStr)
	case exact:
		return pdf.Integer(exactArr)
	case kind == "str":
		return pdf.String(strValue)
	}
	return pdf.Array{pdf.String(strValue), pdf.Integer(1)}
}

type place struct {
	call int
	p    int
	ref  pdf.Reference
	keys []pdf.Name
}

// Execute replays a program on the real Writer and reads the file back.
func Execute(c *Case) (rec *Record, err error) {
	rec = &Record{Clause: "all", Reads: []Read{}, c: c}
	var sink interface {
		io.Writer
		Bytes() []byte
	}
	if c.Cfg.Seekable {
		sink = &shared.SeekMemSink{}
	} else {
		sink = &shared.MemSink{}
	}
	if c.Cfg.Preamble {
		sink.Write([]byte("junk in front of the file\n"))
	}
	v, verr := pdf.ParseVersion(c.Cfg.Version)
	if verr != nil {
		return nil, core.Infra("placeholder: version %q", c.Cfg.Version)
	}
	opt := &pdf.WriterOptions{}
	if c.Cfg.Encrypted {
		opt.UserPassword, opt.OwnerPassword, opt.UserPermissions = "u-secret", "o-secret", pdf.PermAll
	}
	w, werr := pdf.NewWriter(sink, v, opt)
	if werr != nil {
		return nil, core.Infra("placeholder: pdf.NewWriter: %v", werr)
	}
	pageRef, pagesRef := w.Alloc(), w.Alloc()
	if err := w.Put(pageRef, pdf.Dict{"Type": pdf.Name("Page"), "Parent": pagesRef, "Resources": pdf.Dict{},
		"MediaBox": pdf.Array{pdf.Integer(0), pdf.Integer(0), pdf.Integer(100), pdf.Integer(100)}}); err != nil {
		return nil, core.Infra("placeholder: %v", err)
	}
	if err := w.Put(pagesRef, pdf.Dict{"Type": pdf.Name("Pages"), "Kids": pdf.Array{pageRef}, "Count": pdf.Integer(1)}); err != nil {
		return nil, core.Infra("placeholder: %v", err)
	}
	w.GetMeta().Catalog.Pages = pagesRef
	// a witness object written first: Set must leave it alone
	witness := w.Alloc()
	if err := w.Put(witness, pdf.Dict{"Witness": pdf.String("untouched"), "N": pdf.Integer(77)}); err != nil {
		return nil, core.Infra("placeholder: %v", err)
	}

	phs := map[int]*pdf.Placeholder{}
	var places []place
	var others []pdf.Reference // second members of WriteCompressed lists
	var stm io.WriteCloser
	stmWritten := false
	closed := false
	do := func(i int, cl Call) (res string) {
		defer func() {
			if p := recover(); p != nil {
				res = "panic"
				rec.why = fmt.Sprintf("call %d (%s): panic: %v", i+1, cl.Op, p)
			}
		}()
		var e error
		switch cl.Op {
		case "new":
			size := phSize
			if c.Cfg.Exact {
				size = 5
			}
			phs[cl.P] = pdf.NewPlaceholder(w, size)
		case "put":
			ref := w.Alloc()
			if cl.C == 3 {
				// the placeholder as an element of an array, other tokens behind it
				e = w.Put(ref, pdf.Array{phs[cl.P], pdf.Integer(5), pdf.Name("N")})
				places = append(places, place{i + 1, cl.P, ref, nil})
				break
			}
			d := pdf.Dict{"X": phs[cl.P], "Tag": pdf.Integer(i)}
			keys := []pdf.Name{"X"}
			if cl.C == 2 {
				d["Y"] = phs[cl.P]
				keys = append(keys, "Y")
			}
			e = w.Put(ref, d)
			places = append(places, place{i + 1, cl.P, ref, keys})
		case "wc":
			a, b := w.Alloc(), w.Alloc()
			e = w.WriteCompressed([]pdf.Reference{a, b}, pdf.Dict{"X": phs[cl.P], "Tag": pdf.Integer(i)}, pdf.Dict{"Y": pdf.Integer(7)})
			places = append(places, place{i + 1, cl.P, a, []pdf.Name{"X"}})
			others = append(others, b)
		case "open":
			ref := w.Alloc()
			stm, e = w.OpenStream(ref, pdf.Dict{"X": phs[cl.P], "Tag": pdf.Integer(i)})
			stmWritten = false
			places = append(places, place{i + 1, cl.P, ref, []pdf.Name{"X"}})
		case "write":
			_, e = stm.Write(bytes.Repeat([]byte("stream data "), 200)) // more than the 1024-byte buffer
			stmWritten = true
		case "closestm":
			if !stmWritten {
				_, e = stm.Write([]byte("short"))
			}
			if e == nil {
				e = stm.Close()
			}
		case "set":
			e = phs[cl.P].Set(valueOf(cl.V, c.Cfg.Exact))
		case "close":
			e = w.Close()
			closed = e == nil
		default:
			panic("unknown op " + cl.Op)
		}
		if e != nil {
			if rec.why == "" {
				rec.why = fmt.Sprintf("call %d (%s): %v", i+1, cl.Op, e)
			}
			return "err"
		}
		return "ok"
	}
	for i, cl := range c.Prog {
		cl.Res = do(i, cl)
		rec.Hist = append(rec.Hist, cl)
	}
	if !closed {
		return rec, nil
	}

	// --- read the file back, independently
	data := sink.Bytes()
	f, perr := strict.Parse(data)
	if perr != nil {
		rec.why = "strict parser: " + perr.Error()
		return rec, nil
	}
	if c.Cfg.Encrypted {
		tr := f.Sections[0].Trailer
		encV := tr["Encrypt"]
		if r, ok := encV.(obj.Ref); ok {
			encV, _ = f.Lookup(r)
		}
		enc, ok := encV.(obj.Dict)
		if !ok {
			rec.why = "no /Encrypt dictionary"
			return rec, nil
		}
		var id0 []byte
		if ids, ok := tr["ID"].(obj.Array); ok && len(ids) > 0 {
			if s, ok := ids[0].(obj.Str); ok {
				id0 = s
			}
		}
		h, err := secure.Parse(enc, id0)
		if err != nil {
			rec.why = "independent security handler: " + err.Error()
			return rec, nil
		}
		key, _, err := h.Authenticate("u-secret")
		if err != nil {
			rec.why = "independent security handler: " + err.Error()
			return rec, nil
		}
		if err := f.SetDecrypt(func(ref obj.Ref, isStream bool, data []byte) ([]byte, error) {
			k, aes, ok := h.KeyFor(key, ref.Num, ref.Gen, isStream)
			if !ok {
				return data, nil
			}
			return secure.Decrypt(k, aes, data)
		}); err != nil {
			rec.why = "object streams of the encrypted file: " + err.Error()
			return rec, nil
		}
	}
	// fetch returns the dictionary of an object (a stream's dictionary), strings decrypted
	fetch := func(ref pdf.Reference) (obj.Value, string) {
		r := obj.Ref{Num: ref.Number(), Gen: ref.Generation()}
		v, ok := f.Lookup(r)
		if !ok {
			return nil, "null"
		}
		if _, idx := f.LookupObject(r); idx < 0 && c.Cfg.Encrypted {
			if st, isStm := v.(*obj.Stream); isStm {
				v = st.Dict // (the data is not what is looked at)
			}
			dv, err := f.DecryptValue(r, v)
			if err != nil {
				return nil, "undecryptable"
			}
			v = dv
		}
		if st, isStm := v.(*obj.Stream); isStm {
			v = st.Dict
		}
		return v, ""
	}
	classify := func(v obj.Value) string {
		switch x := v.(type) {
		case obj.Int:
			switch {
			case x == intValue:
				return "int"
			case c.Cfg.Exact && x == exactStr:
				return "str"
			case c.Cfg.Exact && x == exactArr:
				return "arr"
			}
		case obj.Array:
			if len(x) == 2 {
				if s, ok := x[0].(obj.Str); ok && string(s) == strValue && fmt.Sprint(x[1]) == "1" {
					return "arr"
				}
				return "undecryptable"
			}
		case obj.Str:
			if string(x) == strValue {
				return "str"
			}
			return "undecryptable"
		case nil:
			return "hole"
		case obj.Null:
			return "null"
		}
		return "bad"
	}
	rec.FileOK = true
	// the witness and the second members must be as written
	if v, why := fetch(witness); why != "" {
		rec.FileOK, rec.why = false, "witness object: "+why
	} else if d, ok := v.(obj.Dict); !ok || fmt.Sprint(d["N"]) != "77" || fmt.Sprint(d["Witness"]) != fmt.Sprint(obj.Str("untouched")) {
		rec.FileOK, rec.why = false, fmt.Sprintf("witness object reads as %v", v)
	}
	for _, b := range others {
		if v, why := fetch(b); why != "" {
			rec.FileOK, rec.why = false, "second member of a WriteCompressed list: "+why
		} else if d, ok := v.(obj.Dict); !ok || fmt.Sprint(d["Y"]) != "7" {
			rec.FileOK, rec.why = false, fmt.Sprintf("second member of a WriteCompressed list reads as %v", v)
		}
	}
	for _, pl := range places {
		v, why := fetch(pl.ref)
		if pl.keys == nil { // [ph 5 /N]
			got := why
			if got == "" {
				a, isArr := v.(obj.Array)
				switch {
				case !isArr || len(a) != 3 || fmt.Sprint(a[1]) != "5" || fmt.Sprint(a[2]) != fmt.Sprint(obj.Name("N")):
					got = "bad"
				default:
					e := a[0]
					if r, isRef := e.(obj.Ref); isRef {
						tv, twhy := fetch(pdf.NewReference(r.Num, r.Gen))
						if twhy != "" {
							got = twhy
						} else {
							got = classify(tv)
						}
					} else {
						got = classify(e)
					}
				}
			}
			rec.Reads = append(rec.Reads, Read{Call: pl.call, P: pl.p, Got: got})
			continue
		}
		d, isDict := v.(obj.Dict)
		for _, k := range pl.keys {
			got := why
			if got == "" && !isDict {
				got = "bad"
			}
			if got == "" {
				e := d[obj.Name(k)]
				if r, isRef := e.(obj.Ref); isRef { // method 3: one reference
					tv, twhy := fetch(pdf.NewReference(r.Num, r.Gen))
					if twhy != "" {
						got = twhy
					} else {
						got = classify(tv)
					}
				} else {
					got = classify(e)
				}
			}
			rec.Reads = append(rec.Reads, Read{Call: pl.call, P: pl.p, Got: got})
		}
	}
	// ... and the real Reader must open the file as well
	ropt := &pdf.ReaderOptions{ErrorHandling: pdf.ErrorHandlingStop}
	if c.Cfg.Encrypted {
		ropt.Password = "u-secret"
	}
	if r, err := pdf.NewReader(bytes.NewReader(data), int64(len(data)), ropt); err != nil {
		if rec.FileOK {
			rec.FileOK, rec.why = false, "pdf.NewReader: "+err.Error()
		}
	} else {
		for _, pl := range places {
			if _, err := r.Get(pl.ref, true); err != nil && rec.FileOK {
				allSet := true
				for _, q := range places {
					set := false
					for _, cl := range rec.Hist {
						if cl.Op == "set" && cl.P == q.p && cl.Res == "ok" {
							set = true
						}
					}
					allSet = allSet && set
				}
				if allSet {
					rec.FileOK, rec.why = false, fmt.Sprintf("Reader.Get(%d): %v", pl.ref.Number(), err)
				}
			}
		}
		r.Close()
	}
	return rec, nil
}

var judgeOpts = core.TLCOpts{Dir: "file", Module: "Trace_Placeholder", Cfg: "Trace_Placeholder.cfg", XssMB: 512}

type genLine struct {
	Hist []Call `json:"hist"`
}

func configs(thorough bool) []Config {
	var out []Config
	for _, seek := range []bool{true, false} {
		for _, os := range []bool{true, false} {
			for _, enc := range []bool{true, false} {
				vs := []string{"1.4"}
				if os {
					vs = []string{"1.7"}
					if thorough {
						vs = append(vs, "2.0")
					}
				} else if thorough {
					vs = append(vs, "1.1")
				}
				for _, v := range vs {
					out = append(out, Config{Seekable: seek, ObjStm: os, Encrypted: enc, Version: v})
				}
				if !enc {
					out = append(out, Config{Seekable: seek, ObjStm: os, Version: vs[0], Exact: true})
				}
				if seek {
					out = append(out, Config{Seekable: true, ObjStm: os, Encrypted: enc, Version: vs[0], Preamble: true})
				}
			}
		}
	}
	return out
}

func shortProg(p []Call) string {
	var parts []string
	for _, c := range p {
		s := c.Op
		switch c.Op {
		case "new":
			s = fmt.Sprintf("new(%d)", c.P)
		case "put":
			s = fmt.Sprintf("put(%d x%d)", c.P, c.C)
		case "wc", "open":
			s = fmt.Sprintf("%s(%d)", c.Op, c.P)
		case "set":
			s = fmt.Sprintf("set(%d,%s)", c.P, c.V)
		}
		if c.Res != "" && c.Res != "ok" {
			s += "=" + c.Res
		}
		parts = append(parts, s)
	}
	return strings.Join(parts, " ")
}

// classifyBad names the failure classes of rejected records (one TLC run).
func classifyBad(ctx *core.Ctx, rs []*Record) (keys, whats []string, err error) {
	names := []string{"outcomes", "intact", "reads"}
	var recs []*Record
	for _, r := range rs {
		for _, n := range names {
			c := *r
			c.Clause = n
			recs = append(recs, &c)
		}
	}
	bad, err := core.JudgeCases(ctx, judgeOpts, recs, 300, 8)
	if err != nil {
		return nil, nil, err
	}
	failed := make([][]string, len(rs))
	for _, b := range bad {
		failed[b/len(names)] = append(failed[b/len(names)], names[b%len(names)])
	}
	for k, r := range rs {
		cl := failed[k]
		detail := r.why
		if len(cl) > 0 && cl[0] == "reads" {
			var gots []string
			for _, rd := range r.Reads {
				gots = append(gots, fmt.Sprintf("call %d: %s", rd.Call, rd.Got))
			}
			detail = "read back: " + strings.Join(gots, ", ")
		}
		via := map[string]bool{}
		for _, c := range r.Hist {
			if c.Op == "put" || c.Op == "wc" || c.Op == "open" {
				via[c.Op] = true
			}
		}
		keys = append(keys, fmt.Sprintf("placeholder/%s/%s/%s", strings.Join(cl, "+"), r.c.Cfg.family(), strings.Join(core.SortedKeys(via), "+")))
		whats = append(whats, fmt.Sprintf("program [%s] on a %s Writer (PDF %s): %s", shortProg(r.Hist), r.c.Cfg.family(), r.c.Cfg.Version, detail))
	}
	return keys, whats, nil
}

func executeAll(cases []*Case) ([]*Record, error) {
	recs := make([]*Record, len(cases))
	errs := make([]error, len(cases))
	var wg sync.WaitGroup
	sem := make(chan struct{}, 12)
	for i := range cases {
		wg.Add(1)
		sem <- struct{}{}
		go func(i int) {
			defer wg.Done()
			defer func() { <-sem }()
			recs[i], errs[i] = Execute(cases[i])
			if recs[i] != nil {
				recs[i].ID = fmt.Sprintf("%s#%d", cases[i].Cfg.family(), i)
			}
		}(i)
	}
	wg.Wait()
	for _, e := range errs {
		if e != nil {
			return nil, e
		}
	}
	return recs, nil
}

// Run is the entry point (called from C02).
func Run(ctx *core.Ctx) error {
	ctx.Ev.Assume("placeholder: the strict parser and the independent security handler are the observers of what is in the closed file; a placeholder that is never set is the caller's omission and constrains nothing")
	var states int64
	var cases []*Case
	seenFam := map[string][]genLine{}
	for _, cfg := range configs(ctx.Thorough()) {
		fam := cfg.baseFamily()
		if _, done := seenFam[fam]; !done {
			res, err := ctx.MustHold(core.TLCOpts{Dir: "file", Module: "Placeholder", Cfg: "MC_Placeholder_fixed_" + fam + ".cfg", Workers: 8, Timeout: ctx.Dur(8, 20), XssMB: 512,
				Constants: "two placeholders, programs of up to 6 calls, " + fam})
			if err != nil {
				return err
			}
			states += res.Distinct
			gcfg := "Gen_Placeholder_" + fam + "_q.cfg" // programs of up to 5 calls; thorough: 6
			if ctx.Thorough() {
				gcfg = "Gen_Placeholder_" + fam + ".cfg"
			}
			raw, _, err := core.GenCases[string](ctx, core.TLCOpts{Dir: "file", Module: "Gen_Placeholder", Cfg: gcfg, Workers: 1, Timeout: ctx.Dur(8, 20), XssMB: 512, Mode: "evaluate",
				Constants: "every complete behaviour of up to 6 calls, " + fam})
			if err != nil {
				return err
			}
			var lines []genLine
			seen := map[string]bool{}
			for i, text := range raw {
				if seen[text] {
					continue
				}
				seen[text] = true
				var l genLine
				if err := json.Unmarshal([]byte(text), &l); err != nil {
					return core.Infra("placeholder: Gen_Placeholder line %d: %v", i, err)
				}
				lines = append(lines, l)
			}
			if len(lines) == 0 {
				return core.Infra("placeholder: Gen_Placeholder wrote nothing for %s", fam)
			}
			seenFam[fam] = lines
		}
		for _, l := range seenFam[fam] {
			prog := make([]Call, len(l.Hist))
			for i, c := range l.Hist {
				c.Res = ""
				prog[i] = c
			}
			cases = append(cases, &Case{Kind: "placeholder", Cfg: cfg, Prog: prog})
		}
	}
	recs, err := executeAll(cases)
	if err != nil {
		return err
	}
	bad, err := core.JudgeCases(ctx, judgeOpts, recs, 1000, 12)
	if err != nil {
		return err
	}
	// one representative per (configuration, kinds of calls that wrote the
	// placeholder, first complaint) is enough
	classes := map[string]bool{}
	var reps []*Record
	for _, b := range bad {
		r := recs[b]
		via := ""
		for _, c := range r.Hist {
			if (c.Op == "put" || c.Op == "wc" || c.Op == "open") && !strings.Contains(via, c.Op) {
				via += c.Op
			}
		}
		why := r.why
		if k := strings.Index(why, ":"); k > 0 {
			why = why[:k]
		}
		sig := r.c.Cfg.family() + "|" + via + "|" + why
		if classes[sig] || len(reps) >= 60 {
			continue
		}
		classes[sig] = true
		reps = append(reps, r)
	}
	if len(reps) > 0 {
		keys, whats, err := classifyBad(ctx, reps)
		if err != nil {
			return err
		}
		seenKey := map[string]bool{}
		for k, r := range reps {
			if seenKey[keys[k]] {
				continue
			}
			seenKey[keys[k]] = true
			ctx.Violation(keys[k], whats[k], r.c)
		}
	}
	ctx.Ev.AddReplayed(len(cases))
	ctx.Ev.Set("placeholder", map[string]any{"model_states": states, "programs_replayed": len(cases), "records_rejected": len(bad)})
	ctx.Logf("placeholder: %d model states; %d complete behaviours replayed on the real Writer, %d records rejected", states, len(cases), len(bad))
	return nil
}

// Replay re-executes one recorded case.
func Replay(ctx *core.Ctx, raw json.RawMessage) error {
	var c Case
	if err := json.Unmarshal(raw, &c); err != nil {
		return core.Infra("replay: %v", err)
	}
	r, err := Execute(&c)
	if err != nil {
		return err
	}
	bad, err := core.JudgeCases(ctx, judgeOpts, []*Record{r}, 1, 1)
	if err != nil {
		return err
	}
	fmt.Printf("  program [%s]\n  fileok=%v reads=%v %s\n", shortProg(r.Hist), r.FileOK, r.Reads, r.why)
	if len(bad) > 0 {
		keys, whats, err := classifyBad(ctx, []*Record{r})
		if err != nil {
			return err
		}
		ctx.Violation(keys[0], whats[0], r.c)
	}
	return nil
}

// SelfTest: the as-found models must violate their invariants; corrupted
// records must be singled out.
func SelfTest(ctx *core.Ctx) error {
	for cfg, inv := range map[string]string{
		"MC_Placeholder_asfound_seek_objstm_clear.cfg": "NoCorruption",
		"MC_Placeholder_asfound_seek_plain_enc.cfg":    "RoundTrip",
		"MC_Placeholder_asfound_noseek_plain_enc.cfg":  "RoundTrip"} {
		res, err := ctx.TLC(core.TLCOpts{Dir: "file", Module: "Placeholder", Cfg: cfg, Workers: 4, Mode: "negative-control"})
		if err != nil {
			return err
		}
		if res.Invariant != inv {
			return core.Infra("self-test: %s should violate %s, got %q", cfg, inv, res.Invariant)
		}
	}
	prog := []Call{{Op: "new", P: 1}, {Op: "put", P: 1, C: 2}, {Op: "set", P: 1, V: "int"}, {Op: "set", P: 1, V: "str"}, {Op: "close"}}
	good, err := Execute(&Case{Kind: "placeholder", Cfg: Config{Seekable: true, Version: "1.4"}, Prog: prog})
	if err != nil {
		return err
	}
	mk := func(f func(r *Record)) *Record {
		c := *good
		c.Hist = append([]Call{}, good.Hist...)
		c.Reads = append([]Read{}, good.Reads...)
		f(&c)
		return &c
	}
	recs := []*Record{good,
		mk(func(r *Record) { r.Reads[1].Got = "hole" }),
		mk(func(r *Record) { r.Hist[3].Res = "ok" }),
		mk(func(r *Record) { r.FileOK = false }),
		mk(func(r *Record) { r.Reads = r.Reads[:0] }),
	}
	bad, err := core.JudgeCases(ctx, judgeOpts, recs, 10, 1)
	if err != nil {
		return err
	}
	if fmt.Sprint(bad) != "[1 2 3 4]" {
		return core.Infra("self-test placeholder: corrupted records not singled out: rejected %v, want [1 2 3 4]", bad)
	}
	ctx.Logf("self-test placeholder: as-found models violate their invariants, 4 corrupted records rejected, the intact record accepted")
	return nil
}
