package c05

// Seeded, structure-aware mutation of valid files (exploration: beyond what
// the model enumerates).  The mutators know the tokens of the file format,
// not go-pdf: numeric tampering of the structural keys, rewiring of
// references, token edits, cross-reference table edits, truncation, splicing.

import (
	"bytes"
	"fmt"
	"math/rand"
	"regexp"
	"strconv"
)

// Mutation says what was done (for the evidence and the violation key).
type Mutation struct {
	Op   string // numeric ref token xreftab truncate splice bytes stream
	Slot string // key name or token class
}

func (m Mutation) String() string { return m.Op + ":" + m.Slot }

var (
	numKeyPat = regexp.MustCompile(`/(Length1|Length2|Length3|Length|Prev|Size|XRefStm|N|First|Count|Columns|Predictor|Colors|BitsPerComponent|FirstChar|LastChar|Width|Height|K|Rows|EarlyChange|Rotate|StructParents|MissingWidth|DW|Supplement|WMode|Flags|V|R|P|O|Extends)([\x00\t\n\f\r ]+)([+-]?[0-9]+)`)
	arrKeyPat = regexp.MustCompile(`/(W|Index|Kids|Filter|DecodeParms|MediaBox|Widths|Fields|Annots|Limits|ID|Domain|Range|BBox|Matrix)([\x00\t\n\f\r ]*)\[([^\]]{0,400})\]`)
	refPat    = regexp.MustCompile(`([0-9]{1,7})([\x00\t\n\f\r ]+)([0-9]{1,5})([\x00\t\n\f\r ]+)R\b`)
	namePat   = regexp.MustCompile(`/[A-Za-z0-9#.+-]{1,40}`)
	intPat    = regexp.MustCompile(`[0-9]+`)
	sxPat     = regexp.MustCompile(`startxref[\r\n ]+([0-9]+)`)
	xentPat   = regexp.MustCompile(`([0-9]{10}) ([0-9]{5}) ([nf])`)
	stmPat    = regexp.MustCompile(`stream\r?\n`)
)

var boundaryInts = []string{"0", "1", "-1", "2", "7", "8", "9", "255", "256", "65535", "65536", "16777215", "16777216",
	"2147483647", "2147483648", "4294967295", "4294967296", "9223372036854775807", "9223372036854775808",
	"-2147483648", "-9223372036854775808", "99999999999999999999999999", "00000000001"}

var swapNames = []string{"/Pages", "/Page", "/Catalog", "/Font", "/XObject", "/ObjStm", "/XRef", "/Outlines", "/FlateDecode", "/LZWDecode",
	"/ASCIIHexDecode", "/ASCII85Decode", "/RunLengthDecode", "/DCTDecode", "/JBIG2Decode", "/CCITTFaxDecode", "/JPXDecode", "/Crypt",
	"/Type0", "/Type1", "/Type3", "/TrueType", "/CIDFontType0", "/CIDFontType2", "/Form", "/Image", "/Length", "/Kids", "/Parent",
	"/First", "/Next", "/Prev", "/Resources", "/Contents", "/Filter", "/DecodeParms", "/JBIG2Globals", "/Identity-H", "/Widget", "/Annot"}

func pick(rng *rand.Rand, ms [][]int) []int { return ms[rng.Intn(len(ms))] }

func splice(data []byte, a, b int, repl []byte) []byte {
	out := make([]byte, 0, len(data)-(b-a)+len(repl))
	out = append(out, data[:a]...)
	out = append(out, repl...)
	return append(out, data[b:]...)
}

func objNumbers(data []byte) []int {
	seen := map[int]bool{}
	var nums []int
	for _, m := range objPat.FindAllSubmatch(data, 500) {
		n, _ := strconv.Atoi(string(m[1]))
		if !seen[n] {
			seen[n] = true
			nums = append(nums, n)
		}
	}
	return nums
}

// enclosingObj returns the number of the object whose body contains offset p.
func enclosingObj(data []byte, p int) int {
	best := -1
	for _, m := range objPat.FindAllSubmatchIndex(data, 500) {
		if m[0] > p {
			break
		}
		best, _ = strconv.Atoi(string(data[m[2]:m[3]]))
	}
	return best
}

// mutateOnce applies one random mutation.
func mutateOnce(rng *rand.Rand, data []byte, other []byte) ([]byte, Mutation) {
	for try := 0; try < 8; try++ {
		switch rng.Intn(14) {
		case 12, 13: // a typed-number mutant of any numeric dictionary entry or array element (zoo.go)
			sites := typedSites(data)
			if len(sites) == 0 {
				continue
			}
			site := sites[rng.Intn(len(sites))]
			val := typedValues[rng.Intn(len(typedValues))]
			return applyTyped(data, site, val), Mutation{"typed", site.key}
		case 0, 1, 2: // numeric tampering of a structural key
			ms := numKeyPat.FindAllSubmatchIndex(data, 300)
			if len(ms) == 0 {
				continue
			}
			m := pick(rng, ms)
			key := string(data[m[2]:m[3]])
			old, _ := strconv.ParseInt(string(data[m[6]:m[7]]), 10, 64)
			var repl string
			switch rng.Intn(5) {
			case 0:
				repl = strconv.FormatInt(old+int64(rng.Intn(9)-4), 10)
			case 1:
				repl = strconv.FormatInt(old*2+1, 10)
			case 2:
				repl = strconv.Itoa(len(data) + rng.Intn(3) - 1)
			default:
				repl = boundaryInts[rng.Intn(len(boundaryInts))]
			}
			return splice(data, m[6], m[7], []byte(repl)), Mutation{"numeric", key}
		case 3: // an integer inside a structural array
			ms := arrKeyPat.FindAllSubmatchIndex(data, 200)
			if len(ms) == 0 {
				continue
			}
			m := pick(rng, ms)
			key := string(data[m[2]:m[3]])
			inner := data[m[6]:m[7]]
			is := intPat.FindAllIndex(inner, 60)
			if len(is) == 0 {
				continue
			}
			i := pick(rng, is)
			repl := boundaryInts[rng.Intn(len(boundaryInts))]
			if rng.Intn(2) == 0 {
				repl = strconv.Itoa(rng.Intn(12))
			}
			return splice(data, m[6]+i[0], m[6]+i[1], []byte(repl)), Mutation{"numeric", key + "[]"}
		case 4, 5: // rewire a reference
			ms := refPat.FindAllSubmatchIndex(data, 400)
			if len(ms) == 0 {
				continue
			}
			m := pick(rng, ms)
			nums := objNumbers(data)
			var target int
			kind := ""
			switch rng.Intn(4) {
			case 0:
				target, kind = enclosingObj(data, m[0]), "self"
				if target < 0 {
					continue
				}
			case 1:
				target, kind = 900+rng.Intn(50), "dangling"
			case 2:
				target, kind = 0, "zero"
			default:
				if len(nums) == 0 {
					continue
				}
				target, kind = nums[rng.Intn(len(nums))], "other"
			}
			// which key does the reference belong to?
			slot := "?"
			lo := m[0] - 40
			if lo < 0 {
				lo = 0
			}
			if ks := namePat.FindAll(data[lo:m[0]], -1); len(ks) > 0 {
				slot = string(ks[len(ks)-1])
			}
			return splice(data, m[2], m[3], []byte(strconv.Itoa(target))), Mutation{"ref-" + kind, slot}
		case 6: // token edits
			ms := namePat.FindAllIndex(data, 600)
			if len(ms) == 0 {
				continue
			}
			m := pick(rng, ms)
			old := string(data[m[0]:m[1]])
			switch rng.Intn(4) {
			case 0:
				return splice(data, m[0], m[1], nil), Mutation{"token-del", old}
			case 1:
				return splice(data, m[0], m[0], data[m[0]:m[1]]), Mutation{"token-dup", old}
			default:
				return splice(data, m[0], m[1], []byte(swapNames[rng.Intn(len(swapNames))])), Mutation{"token-swap", old}
			}
		case 7: // delimiters
			toks := []string{"<<", ">>", "[", "]", "(", ")", "<", ">", "obj", "endobj", "stream", "endstream", "R", "xref", "trailer", "startxref", "%%EOF"}
			t := toks[rng.Intn(len(toks))]
			var at []int
			for i := 0; i+len(t) <= len(data) && len(at) < 200; i++ {
				if bytes.HasPrefix(data[i:], []byte(t)) {
					at = append(at, i)
				}
			}
			if len(at) == 0 {
				continue
			}
			p := at[rng.Intn(len(at))]
			repl := toks[rng.Intn(len(toks))]
			if rng.Intn(3) == 0 {
				repl = ""
			}
			return splice(data, p, p+len(t), []byte(repl)), Mutation{"token-delim", t}
		case 8: // cross-reference table entries and startxref
			if rng.Intn(3) == 0 {
				if m := sxPat.FindSubmatchIndex(data); m != nil {
					repl := boundaryInts[rng.Intn(len(boundaryInts))]
					if rng.Intn(2) == 0 {
						repl = strconv.Itoa(rng.Intn(len(data) + 1))
					}
					return splice(data, m[2], m[3], []byte(repl)), Mutation{"xref", "startxref"}
				}
			}
			ms := xentPat.FindAllSubmatchIndex(data, 300)
			if len(ms) == 0 {
				continue
			}
			m := pick(rng, ms)
			switch rng.Intn(3) {
			case 0:
				return splice(data, m[2], m[3], []byte(fmt.Sprintf("%010d", rng.Intn(len(data)+1)))), Mutation{"xref", "offset"}
			case 1:
				return splice(data, m[4], m[5], []byte(fmt.Sprintf("%05d", []int{0, 1, 65535, 99999}[rng.Intn(4)]))), Mutation{"xref", "gen"}
			default:
				flip := byte('n')
				if data[m[6]] == 'n' {
					flip = 'f'
				}
				return splice(data, m[6], m[7], []byte{flip}), Mutation{"xref", "type"}
			}
		case 9: // truncation
			if len(data) < 20 {
				continue
			}
			cut := rng.Intn(len(data))
			if rng.Intn(2) == 0 {
				// at a keyword boundary
				kws := [][]byte{[]byte("endobj"), []byte("stream"), []byte("xref"), []byte("trailer"), []byte("obj")}
				kw := kws[rng.Intn(len(kws))]
				if i := bytes.LastIndex(data[:cut+1], kw); i > 0 {
					cut = i + rng.Intn(len(kw)+1)
				}
			}
			return append([]byte{}, data[:cut]...), Mutation{"truncate", "cut"}
		case 10: // splicing: a piece of another file (or of this one) somewhere
			src := other
			if len(src) == 0 || rng.Intn(3) == 0 {
				src = data
			}
			if len(src) < 8 {
				continue
			}
			a := rng.Intn(len(src))
			b := a + 1 + rng.Intn(min(len(src)-a, 400))
			p := rng.Intn(len(data) + 1)
			if rng.Intn(2) == 0 {
				// whole objects
				ms := objPat.FindAllIndex(src, 200)
				if len(ms) > 0 {
					a = pick(rng, ms)[0]
					if e := bytes.Index(src[a:], []byte("endobj")); e > 0 {
						b = a + e + 6
					}
				}
				if b <= a || b > len(src) {
					b = min(a+60, len(src))
				}
				if i := bytes.LastIndex(data[:p], []byte("endobj")); i > 0 {
					p = i + 7
					if p > len(data) {
						p = len(data)
					}
				}
			}
			return splice(data, p, p, src[a:b]), Mutation{"splice", "chunk"}
		default: // bytes inside stream data (compressed tables, object streams, fonts) or anywhere
			ms := stmPat.FindAllIndex(data, 100)
			p := rng.Intn(len(data) + 1)
			slot := "any"
			if len(ms) > 0 && rng.Intn(4) != 0 {
				m := pick(rng, ms)
				end := bytes.Index(data[m[1]:], []byte("endstream"))
				if end > 0 {
					p = m[1] + rng.Intn(end)
					slot = "streamdata"
				}
			}
			if p >= len(data) {
				continue
			}
			out := append([]byte{}, data...)
			switch rng.Intn(3) {
			case 0:
				out[p] ^= 1 << uint(rng.Intn(8))
			case 1:
				out[p] = byte(rng.Intn(256))
			default:
				n := 1 + rng.Intn(16)
				for i := p; i < len(out) && i < p+n; i++ {
					out[i] = byte(rng.Intn(256))
				}
			}
			return out, Mutation{"bytes", slot}
		}
	}
	return data, Mutation{"none", ""}
}

// mutate applies 1..3 mutations.
func mutate(rng *rand.Rand, data, other []byte) ([]byte, []Mutation) {
	n := 1 + rng.Intn(3)
	var ms []Mutation
	for i := 0; i < n; i++ {
		var m Mutation
		data, m = mutateOnce(rng, data, other)
		ms = append(ms, m)
	}
	return data, ms
}
