package c05

import (
	"fmt"
	"strings"
	"time"

	"verif/harness/core"
)

// negative controls of the design models: each must fail in the stated way
var negControls = []struct {
	mod, cfg, want string // want: "temporal", "inv:<name>"
}{
	{"MC_Pipe", "MC_Pipe_f2.cfg", "temporal"},
	{"MC_Pipe", "MC_Pipe_f2_srcerr.cfg", "temporal"},
	{"MC_Pipe", "MC_Pipe_stacked.cfg", "temporal"},
	{"MC_Walk", "MC_Walk_resolve_noguards.cfg", "temporal"},
	{"MC_Walk", "MC_Walk_resolve_noseen.cfg", "inv:WorkBounded"},
	{"MC_Walk", "MC_Walk_length_noscalar.cfg", "inv:NoOverflow"},
	{"MC_Walk", "MC_Walk_length_ascoded.cfg", "inv:NoOverflow"},
	{"MC_Walk", "MC_Walk_length_filterstm.cfg", "inv:NoOverflow"},
	{"MC_Walk", "MC_Walk_xref_noseen.cfg", "temporal"},
	{"MC_Walk", "MC_Walk_pages_noseen.cfg", "temporal"},
	{"MC_Walk", "MC_Walk_outline_noseen.cfg", "temporal"},
	{"MC_Walk", "MC_Walk_outline_nodepth.cfg", "inv:NoOverflow"},
	{"MC_Walk", "MC_Walk_nametree_noseen.cfg", "inv:WorkBounded"},
	{"MC_Walk", "MC_Walk_nametree_nodepth.cfg", "inv:NoOverflow"},
	{"MC_Walk", "MC_Walk_filters_noseen.cfg", "inv:NoOverflow|inv:WorkBounded"},
	{"MC_Walk", "MC_Walk_filters_globals_ascoded.cfg", "inv:NoOverflow"},
	{"MC_Walk", "MC_Walk_filters_nochain.cfg", "inv:ChainBounded"},
	{"MC_Walk", "MC_Walk_decode_noguards.cfg", "inv:WorkBounded|inv:NoOverflow"},
	{"MC_Walk", "MC_Walk_decode_noseen.cfg", "inv:WorkBounded|inv:NoOverflow"},
	{"MC_Walk", "MC_Walk_fields_noseen.cfg", "inv:WorkBounded"},
	{"MC_Walk", "MC_Walk_parents_noseen.cfg", "inv:WorkBounded|temporal"},
	{"MC_Walk", "MC_Walk_objwalk_noseen.cfg", "inv:WorkBounded|inv:NoOverflow"},
	{"MC_Walk", "MC_Walk_objwalk_ascoded.cfg", "inv:NoOverflow"},
	{"MC_Walk", "MC_Walk_navnode_noseen.cfg", "inv:WorkBounded|temporal"},
	{"MC_Walk", "MC_Walk_navnode_noacc.cfg", "inv:WorkBounded|temporal"},
}

func selfTest(ctx *core.Ctx) error {
	// (ii) negative controls
	for _, nc := range negControls {
		res, err := ctx.TLC(core.TLCOpts{Dir: "robust", Module: nc.mod, Cfg: nc.cfg, Mode: "evaluate", Workers: 2, Timeout: 5 * time.Minute, Quiet: true})
		// (this TLC words it "Temporal property X was violated", which core does not know: it comes back as an evaluation error)
		temporal := res != nil && strings.Contains(res.Output, "Error: Temporal property") && strings.Contains(res.Output, "was violated")
		if err != nil && !temporal {
			return err
		}
		got := "holds"
		switch {
		case temporal || res.TemporalViolated:
			got = "temporal"
		case res.Invariant != "":
			got = "inv:" + res.Invariant
		case res.Deadlock:
			got = "deadlock"
		}
		if !strings.Contains("|"+nc.want+"|", "|"+got+"|") {
			return core.Infra("self-test: negative control %s must fail with %s, got %s", nc.cfg, nc.want, got)
		}
		fmt.Printf("selftest: %s fails as it must (%s)\n", nc.cfg, got)
	}
	// coverage of the design model: no action that is never taken
	{
		res, err := ctx.TLC(core.TLCOpts{Dir: "robust", Module: "MC_Walk", Cfg: "MC_Walk_q.cfg", Mode: "exhaustive", Workers: 1, Coverage: true, Timeout: 5 * time.Minute, Quiet: true})
		if err != nil {
			return err
		}
		var zero []string
		for _, z := range res.ZeroCoverage {
			if actionOf[z] != "" {
				zero = append(zero, z)
			}
		}
		if len(zero) > 0 || !res.OK() {
			return core.Infra("self-test: MC_Walk_q: ok=%v, actions never taken: %v", res.OK(), zero)
		}
	}
	fmt.Println("selftest: every action of every walker is taken in the quick models")

	// (iii) planted defects: the watchdog, the crash detection and the envelope see them
	pool, err := newPool()
	if err != nil {
		return err
	}
	pool.Watchdog = 3 * time.Second
	want := map[string][2]string{ // kind -> outcome, clause
		"panic": {"panic", "outcome"}, "spin": {"hang", "outcome"}, "block": {"fatal", "outcome"}, "sleep": {"hang", "outcome"}, "leak": {"ok", "goroutines"},
		"alloc": {"ok", "alloc"}, "overflow": {"fatal", "outcome"}, "exit": {"fatal", "outcome"}, "none": {"ok", ""},
	}
	var recs []Rec
	for kind := range want {
		w, res := pool.runCase(nil, &Req{ID: kind, Calib: &CalibSpec{Kind: kind}, GraceMs: 300})
		w.kill()
		if res.Infra != nil {
			return res.Infra
		}
		if len(res.Recs) != 1 {
			return core.Infra("self-test: planted %s gave %d records", kind, len(res.Recs))
		}
		recs = append(recs, res.Recs[0])
	}
	// (i) a real file's records, then each with one field corrupted
	pl := &plan{}
	for _, s := range imageSeeds()[:1] {
		pl.add(&Req{Data: s.Data}, "seed:image", s.Name, nil)
	}
	w0 := &Wiring{Walker: "pages", N: 2, Kind: []string{"Pages", "Page"}, A: []int{2, 0}, B: []int{1, 0}, Start: 1, Phase: "done", Out: []string{"2"}, Work: 2, Bound: 3}
	pl.add(&Req{Wiring: w0, Variant: 1}, "wiring:pages", w0.key(), nil)
	wid := pl.reqs[len(pl.reqs)-1].ID
	var real []Rec
	results := map[string]*Result{}
	if err := pool.Run(iterReqs(pl.reqs), 2, func(r *Result) { results[r.Req.ID] = r; real = append(real, r.Recs...) }, nil); err != nil {
		return err
	}
	if len(real) < 20 {
		return core.Infra("self-test: only %d records from the sample cases", len(real))
	}
	base := len(recs)
	recs = append(recs, real...)
	type tamper struct {
		name, clause string
		f            func(*Rec)
	}
	tampers := []tamper{
		{"outcome=panic", "outcome", func(r *Rec) { r.Outcome = "panic" }},
		{"outcome=hang", "outcome", func(r *Rec) { r.Outcome = "hang" }},
		{"g1=g0+1", "goroutines", func(r *Rec) { r.G1 = r.G0 + 1 }},
		{"prod=0", "goroutines", func(r *Rec) { r.Prod = 0 }},
		{"cpu x", "cpu", func(r *Rec) { r.CpuUs = cpuFloorUs + cpuPerKiBUs*(r.Len/1024+1) + 1 }},
		{"alloc x", "alloc", func(r *Rec) { r.AllocKB = allocFloorKiB + allocPerKiB*(r.Len/1024+1) + 1 }},
	}
	tbase := len(recs)
	for i, t := range tampers {
		r := real[(i*7)%len(real)]
		t.f(&r)
		recs = append(recs, r)
	}
	bad, why, err := judge(ctx, recs)
	if err != nil {
		return err
	}
	got := map[int]string{}
	for j, i := range bad {
		got[i] = why[j]
	}
	for i := 0; i < base; i++ {
		w := want[recs[i].Case]
		if recs[i].Outcome != w[0] || got[i] != w[1] {
			return core.Infra("self-test: planted %q: outcome %q clause %q, want %q %q (%s)", recs[i].Case, recs[i].Outcome, got[i], w[0], w[1], recs[i].Detail)
		}
		fmt.Printf("selftest: planted %-8s -> outcome %-5s clause %-10q key %s\n", recs[i].Case, recs[i].Outcome, got[i], violationKey(&recs[i], got[i], "calib"))
	}
	for i := base; i < tbase; i++ {
		if c, isBad := got[i]; isBad {
			return core.Infra("self-test: an untouched record of a valid file is rejected (%s): %s", c, describe(&recs[i]))
		}
	}
	for i, t := range tampers {
		if got[tbase+i] != t.clause {
			return core.Infra("self-test: record with %s must be rejected for %q, got %q", t.name, t.clause, got[tbase+i])
		}
	}
	fmt.Printf("selftest: %d untouched records accepted, %d corrupted records rejected for the right clause\n", tbase-base, len(tampers))

	// (iii') a wrong expectation of the model is noticed
	okProj := false
	for _, r := range results[wid].Recs {
		if r.Call == "probe/pages" {
			okProj = fmt.Sprint(r.Proj) == fmt.Sprint(w0.expected())
			w1 := *w0
			w1.Out = []string{"1", "2"}
			if fmt.Sprint(r.Proj) == fmt.Sprint(w1.expected()) {
				return core.Infra("self-test: a wrong expectation was not noticed")
			}
		}
	}
	if !okProj {
		return core.Infra("self-test: the sample wiring's probe does not give the model's answer")
	}
	fmt.Println("selftest: the probe of a sample wiring equals the model's answer, a wrong expectation differs")

	// every family builds
	for _, name := range FamilyNames {
		for _, xs := range []bool{false, true} {
			f := &Family{Name: name, Size: 3, Cyc: true, XS: xs}
			if _, err := f.build(); err != nil {
				return core.Infra("self-test: %v", err)
			}
		}
	}
	fmt.Println("SELFTEST OK")
	return nil
}

// actionOf maps the actions of Walk.tla to their walker (for the coverage check).
var actionOf = map[string]string{}

func init() {
	for w, as := range map[string]string{
		"resolve":  "ResolveBegin ResolveCycle ResolveGet",
		"length":   "LengthBegin GetFree GetCompressed GetTop ResRet StmLenRet ContRet CFilRet LengthEnd",
		"xref":     "XrefBegin XrefSeen XrefRead",
		"pages":    "PagesBegin PagesDone PagesPopFrame PagesVisit",
		"outline":  "OutlineBegin OutlineReturn OutlineItem",
		"nametree": "TreeBegin TreeDone TreeStep",
		"filters":  "FiltersBegin FiltersOpen",
		"decode":   "DecBegin DecChild DecDone DecRet DecEnd",
		"fields":   "FieldsBegin FieldsStep FieldsDone",
		"parents":  "ParentsBegin ParentsStep",
		"objwalk":  "ObjBegin ObjStep ObjDone",
		"navnode":  "NavBegin NavStep",
	} {
		for _, a := range strings.Fields(as) {
			actionOf[a] = w
		}
	}
}
