package c05

// The walker-specific call of a wiring: the public API entry point whose guard
// the model describes, with a projection of the result that can be compared
// with the model's answer (Wiring.Out).

import (
	"bytes"
	"errors"
	"fmt"
	"strconv"
	"strings"

	"seehuhn.de/go/pdf"
	"seehuhn.de/go/pdf/nametree"
	"seehuhn.de/go/pdf/outline"
	"seehuhn.de/go/pdf/pagetree"
)

func (k *wk) probe(w *Wiring, variant int) {
	data := k.data
	_, k.objs = candidateRefs(data)
	var r *pdf.Reader
	name := "probe/" + w.Walker
	if w.Walker == "xref" {
		k.call(name, "", 1, nil, func() ([]string, error) {
			rr, err := pdf.NewReader(bytes.NewReader(data), int64(len(data)), nil)
			if err != nil {
				return []string{"err"}, err
			}
			rr.Close()
			return []string{"ok"}, nil
		})
		return
	}
	var openErr error
	r, openErr = pdf.NewReader(bytes.NewReader(data), int64(len(data)), nil)
	if openErr != nil {
		k.call(name, "", 1, nil, func() ([]string, error) { return []string{"open-failed"}, openErr })
		return
	}
	defer r.Close()
	gets := 0
	g := countingGetter{r, &gets}
	l := layoutFor(w.N, variant&2 != 0)
	node := func(title string) string {
		// titles and keys are "n<k>"
		if strings.HasPrefix(title, "n") {
			return title[1:]
		}
		if title == "" {
			return strconv.Itoa(w.N + 1) // an item made from a missing object
		}
		return "?" + title
	}
	startNum := func() uint32 {
		if w.Start == w.N+1 {
			return uint32(l.dangling)
		}
		return uint32(w.Start)
	}
	switch w.Walker {
	case "resolve":
		k.call(name, "", 1, &gets, func() ([]string, error) {
			obj, err := pdf.Resolve(g, pdf.NewReference(startNum(), 0))
			switch {
			case errors.Is(err, pdf.ErrCycle):
				return []string{"cycle"}, err
			case errors.Is(err, pdf.ErrDepth):
				return []string{"depth"}, err
			case err != nil:
				return []string{"err"}, err
			case obj == nil:
				return []string{"null"}, nil
			}
			return []string{"val"}, nil
		})
	case "length":
		k.call(name, "", 1, nil, func() ([]string, error) {
			obj, err := r.Get(pdf.NewReference(startNum(), 0), true)
			if err != nil {
				return []string{"err"}, err
			}
			switch obj.(type) {
			case nil:
				return []string{"null"}, nil
			case pdf.Integer:
				return []string{"int"}, nil
			case pdf.Reference:
				return []string{"ref"}, nil
			case pdf.Dict:
				return []string{"dict"}, nil
			case *pdf.Stream:
				return []string{"stream"}, nil
			}
			return []string{fmt.Sprintf("%T", obj)}, nil
		})
	case "pages":
		k.call(name, "", 1, &gets, func() ([]string, error) {
			it := pagetree.NewIterator(g)
			proj := []string{}
			for ref := range it.All() {
				if len(proj) > 32 {
					break
				}
				n := int(ref.Number())
				if n > w.N {
					n = w.N + 1
				}
				proj = append(proj, strconv.Itoa(n))
			}
			return proj, it.Err
		})
	case "outline":
		k.call(name, "", 1, &gets, func() ([]string, error) {
			x := pdf.NewExtractor(g)
			o, err := pdf.Decode(pdf.CursorAt(x, nil), r.GetMeta().Catalog.Outlines, outline.Decode)
			if err != nil {
				return []string{"err"}, err
			}
			proj := []string{}
			for _, t := range outlineProj(o) {
				proj = append(proj, node(t))
			}
			return proj, nil
		})
	case "nametree":
		k.call(name, "", 1, &gets, func() ([]string, error) {
			t, err := nametree.ExtractFromFile(g, pdf.NewReference(1, 0))
			if err != nil {
				return []string{"err"}, err
			}
			proj := []string{}
			for key := range t.All() {
				if len(proj) > 32 {
					break
				}
				proj = append(proj, node(string(key)))
			}
			return proj, nil
		})
	case "filters":
		k.call(name, "", 1, &gets, func() ([]string, error) {
			obj, err := r.Get(pdf.NewReference(1, 0), true)
			if err != nil {
				return []string{"err"}, err
			}
			stm, ok := obj.(*pdf.Stream)
			if !ok {
				return []string{"n/a"}, nil
			}
			if _, err := pdf.GetFilters(g, nil, stm.Dict); err != nil {
				return []string{"err"}, err
			}
			return []string{"ok"}, nil
		})
	}
}

// expectedProj is the model's answer in the vocabulary of probe.
func (w *Wiring) expectedProj() []string {
	switch w.Walker {
	case "resolve", "length":
		if len(w.Out) > 0 {
			return []string{w.Out[0]}
		}
	case "xref", "filters":
		if w.Walker == "filters" && w.Kind[0] == "other" {
			return []string{"n/a"}
		}
		return w.Out
	case "pages", "outline", "nametree":
		if len(w.Out) == 1 && w.Out[0] == "err" {
			return w.Out
		}
		if w.Out == nil {
			return []string{}
		}
		return w.Out
	}
	return w.Out
}
