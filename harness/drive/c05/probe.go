package c05

// The walker-specific call of a wiring: the public API entry point whose guard
// the model describes, with a projection of the result that can be compared
// with the model's answer (Wiring.Out).

import (
	"bytes"
	"errors"
	"fmt"
	"strconv"
	"strings"

	"seehuhn.de/go/pdf"
	"seehuhn.de/go/pdf/acroform"
	"seehuhn.de/go/pdf/action"
	annotdecode "seehuhn.de/go/pdf/annotation/decode"
	"seehuhn.de/go/pdf/font/cmap"
	"seehuhn.de/go/pdf/function"
	"seehuhn.de/go/pdf/graphics/extract"
	"seehuhn.de/go/pdf/nametree"
	"seehuhn.de/go/pdf/numtree"
	"seehuhn.de/go/pdf/outline"
	"seehuhn.de/go/pdf/page"
	"seehuhn.de/go/pdf/page/navnode"
	"seehuhn.de/go/pdf/pagelabel"
	"seehuhn.de/go/pdf/pagetree"
	"seehuhn.de/go/pdf/walker"
)

func (k *wk) probe(w *Wiring, variant int) {
	data := k.data
	_, k.objs = candidateRefs(data)
	var r *pdf.Reader
	name := "probe/" + w.Walker
	if w.Walker == "xref" {
		k.call(name, "", 1, nil, func() ([]string, error) {
			rr, err := pdf.NewReader(bytes.NewReader(data), int64(len(data)), nil)
			if err != nil {
				return []string{"err"}, err
			}
			rr.Close()
			return []string{"ok"}, nil
		})
		return
	}
	var openErr error
	r, openErr = pdf.NewReader(bytes.NewReader(data), int64(len(data)), nil)
	if openErr != nil {
		k.call(name, "", 1, nil, func() ([]string, error) { return []string{"open-failed"}, openErr })
		return
	}
	defer r.Close()
	gets := 0
	g := countingGetter{r, &gets}
	l := layoutFor(w.N, variant&2 != 0)
	node := func(title string) string {
		// titles and keys are "n<k>"
		if strings.HasPrefix(title, "n") {
			return title[1:]
		}
		if title == "" {
			return strconv.Itoa(w.N + 1) // an item made from a missing object
		}
		return "?" + title
	}
	startNum := func() uint32 {
		if w.Start == w.N+1 {
			return uint32(l.dangling)
		}
		return uint32(w.Start)
	}
	switch w.Walker {
	case "resolve":
		k.call(name, "", 1, &gets, func() ([]string, error) {
			obj, err := pdf.Resolve(g, pdf.NewReference(startNum(), 0))
			switch {
			case errors.Is(err, pdf.ErrCycle):
				return []string{"cycle"}, err
			case errors.Is(err, pdf.ErrDepth):
				return []string{"depth"}, err
			case err != nil:
				return []string{"err"}, err
			case obj == nil:
				return []string{"null"}, nil
			}
			return []string{"val"}, nil
		})
	case "length":
		k.call(name, "", 1, nil, func() ([]string, error) {
			obj, err := r.Get(pdf.NewReference(startNum(), 0), true)
			if err != nil {
				return []string{"err"}, err
			}
			switch obj.(type) {
			case nil:
				return []string{"null"}, nil
			case pdf.Integer:
				return []string{"int"}, nil
			case pdf.Name:
				return []string{"name"}, nil
			case pdf.Reference:
				return []string{"ref"}, nil
			case pdf.Dict:
				return []string{"dict"}, nil
			case *pdf.Stream:
				return []string{"stream"}, nil
			}
			return []string{fmt.Sprintf("%T", obj)}, nil
		})
	case "pages":
		k.call(name, "", 1, &gets, func() ([]string, error) {
			it := pagetree.NewIterator(g)
			proj := []string{}
			for ref := range it.All() {
				if len(proj) > 32 {
					break
				}
				n := int(ref.Number())
				if n > w.N {
					n = w.N + 1
				}
				proj = append(proj, strconv.Itoa(n))
			}
			return proj, it.Err
		})
	case "outline":
		k.call(name, "", 1, &gets, func() ([]string, error) {
			x := pdf.NewExtractor(g)
			o, err := pdf.Decode(pdf.CursorAt(x, nil), r.GetMeta().Catalog.Outlines, outline.Decode)
			if err != nil {
				return []string{"err"}, err
			}
			proj := []string{}
			for _, t := range outlineProj(o) {
				proj = append(proj, node(t))
			}
			return proj, nil
		})
	case "nametree":
		if w.Inst == "num" {
			k.call("probe/nametree:num", "", 1, &gets, func() ([]string, error) {
				t, err := numtree.ExtractFromFile(g, pdf.NewReference(1, 0))
				if err != nil {
					return []string{"err"}, err
				}
				proj := []string{}
				for key := range t.All() {
					if len(proj) > 32 {
						break
					}
					proj = append(proj, strconv.Itoa(int(key)))
				}
				return proj, nil
			})
			// the in-memory reader (the same guards, coded a second time) and the
			// page label decoder built on it: their answers are sorted, not in walk
			// order, so only the envelope applies
			k.call("inmemory/numtree", "", 1, &gets, func() ([]string, error) {
				_, err := numtree.ExtractInMemory(g, pdf.NewReference(1, 0))
				return nil, err
			})
			k.call("pagelabels", "", 1, &gets, func() ([]string, error) {
				_, err := pagelabel.Extract(g, pdf.NewReference(1, 0))
				return nil, err
			})
			break
		}
		k.call(name, "", 1, &gets, func() ([]string, error) {
			t, err := nametree.ExtractFromFile(g, pdf.NewReference(1, 0))
			if err != nil {
				return []string{"err"}, err
			}
			proj := []string{}
			for key := range t.All() {
				if len(proj) > 32 {
					break
				}
				proj = append(proj, node(string(key)))
			}
			return proj, nil
		})
		k.call("inmemory/nametree", "", 1, &gets, func() ([]string, error) {
			_, err := nametree.ExtractInMemory(g, pdf.NewReference(1, 0))
			return nil, err
		})
	case "decode":
		name = "probe/decode:" + w.Inst
		k.call(name, "", 1, &gets, func() ([]string, error) {
			cur := pdf.CursorAt(pdf.NewExtractor(g), nil)
			ref := pdf.NewReference(startNum(), 0)
			var err error
			switch w.Inst {
			case "xobject":
				_, err = pdf.Decode(cur, ref, extract.XObject)
			case "pattern":
				_, err = pdf.Decode(cur, ref, extract.Pattern)
			case "type3font":
				_, err = pdf.Decode(cur, ref, extract.Font)
			case "function":
				_, err = pdf.Decode(cur, ref, function.Extract)
			case "action":
				_, err = pdf.Decode(cur, ref, action.Decode)
			case "colorspace":
				_, err = pdf.Decode(cur, ref, extract.ColorSpace)
			case "tounicode":
				_, err = pdf.Decode(cur, ref, cmap.ExtractToUnicode)
			default:
				return []string{"n/a"}, nil
			}
			if err != nil {
				return []string{"err"}, err
			}
			return []string{"ok"}, nil
		})
	case "fields":
		k.call(name, "", 1, &gets, func() ([]string, error) {
			cur := pdf.CursorAt(pdf.NewExtractor(g), nil)
			form, err := pdf.Decode(cur, r.GetMeta().Catalog.AcroForm, annotdecode.Form)
			if err != nil {
				return []string{"err"}, err
			}
			proj := []string{}
			var rec func(ns []acroform.Node, depth int)
			rec = func(ns []acroform.Node, depth int) {
				for _, n := range ns {
					if len(proj) > 32 || depth > 64 {
						return
					}
					if grp, ok := n.(*acroform.Group); ok {
						rec(grp.Children, depth+1)
					} else {
						proj = append(proj, strings.TrimPrefix(n.PartialName(), "f"))
					}
				}
			}
			if form != nil {
				rec(form.Fields, 0)
			}
			return proj, nil
		})
	case "parents":
		// the chain is walked when the page's annotations are decoded
		k.call(name, "", 1, &gets, func() ([]string, error) {
			it := pagetree.NewIterator(g)
			cur := pdf.CursorAt(pdf.NewExtractor(g), nil)
			for _, d := range it.All() {
				_, err := pdf.Decode(cur, d, page.Decode)
				if err != nil {
					return []string{"err"}, err
				}
				break
			}
			return []string{"ok"}, it.Err
		})
	case "navnode":
		k.call(name, "", 1, &gets, func() ([]string, error) {
			cur := pdf.CursorAt(pdf.NewExtractor(g), nil)
			nodes, err := pdf.Decode(cur, pdf.NewReference(1, 0), navnode.Decode)
			if err != nil {
				return []string{"err"}, err
			}
			proj := []string{}
			for _, nd := range nodes {
				if len(proj) > 32 {
					break
				}
				proj = append(proj, strconv.Itoa(int(nd.Dur)))
			}
			return proj, nil
		})
	case "objwalk":
		k.call(name, "", 1, &gets, func() ([]string, error) {
			wk := walker.New(g)
			proj := []string{}
			n := 0
			for _, obj := range wk.PreOrder() {
				if n++; n > 100000 {
					break
				}
				// (a stream is followed by its dictionary: count dictionaries only)
				d, _ := obj.(pdf.Dict)
				if v, ok := d["N"].(pdf.Integer); ok && len(proj) <= 32 {
					if _, isCat := d["Pages"]; !isCat {
						proj = append(proj, strconv.Itoa(int(v)))
					}
				}
			}
			return proj, wk.Err
		})
	case "filters":
		k.call(name, "", 1, &gets, func() ([]string, error) {
			obj, err := r.Get(pdf.NewReference(1, 0), true)
			if err != nil {
				return []string{"err"}, err
			}
			stm, ok := obj.(*pdf.Stream)
			if !ok {
				return []string{"n/a"}, nil
			}
			if _, err := pdf.GetFilters(g, nil, stm.Dict); err != nil {
				return []string{"err"}, err
			}
			return []string{"ok"}, nil
		})
	}
}

// expectedProj is the model's answer in the vocabulary of probe; ok is false
// when there is nothing to compare.
func (w *Wiring) expectedProj() (proj []string, ok bool) {
	p := w.expected()
	return p, p != nil
}

func (w *Wiring) expected() []string {
	switch w.Walker {
	case "resolve", "length":
		if len(w.Out) > 0 {
			return []string{w.Out[0]}
		}
	case "xref", "filters":
		if w.Walker == "filters" && w.Kind[0] == "other" {
			return []string{"n/a"}
		}
		return w.Out
	case "decode":
		if di := decodeInst(w.Inst); di == nil || !di.pure(w) {
			return nil // the structure's decoder is not of the kind the wiring assumes: no answer to compare
		}
		return w.Out
	case "parents":
		return nil // the chain only feeds inherited attributes: termination is what is observed
	case "pages", "outline", "nametree", "fields", "objwalk", "navnode":
		if len(w.Out) == 1 && w.Out[0] == "err" {
			return w.Out
		}
		if w.Out == nil {
			return []string{}
		}
		return w.Out
	}
	if w.Out == nil {
		return []string{}
	}
	return w.Out
}
