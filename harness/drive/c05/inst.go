package c05

// Materialisation of the walkers added for the extension: the generic Decode
// recursion ("decode") played by several real structures, the field tree of
// the interactive form, the /Parent chain of a merged field, and the object
// walker.

import (
	"fmt"
	"strings"
)

// hooks tell Materialise how the page and the catalog reach the nodes.
type hooks struct {
	catExtra, pageRes, pageExtra, content string
}

// DecodeInst describes one real structure that plays the nodes of a "decode"
// wiring.  Sem is what its decoder does with a failing child ("strict": gives
// up, "perm": skips it); the model's answer is compared only for wirings whose
// inner nodes all have that kind.
type DecodeInst struct {
	Name    string
	Sem     string
	OneSlot bool // only slot a exists in the real structure
	NoCmp   bool // the real decoder refuses nesting for reasons of its own: envelope only
}

// DecodeInsts lists the structures.
var DecodeInsts = []DecodeInst{
	{"xobject", "perm", false, false},    // form XObjects through /Resources /XObject
	{"pattern", "perm", false, false},    // tiling patterns through /Resources /Pattern
	{"type3font", "perm", false, false},  // Type 3 fonts through /Resources /Font
	{"function", "strict", false, false}, // Type 3 (stitching) functions through /Functions
	{"action", "strict", false, false},   // actions through /Next
	// Separation alternates; a special colour space is not accepted as the
	// alternate of another one, so chains end after one link whatever they say
	{"colorspace", "strict", true, true},
	{"tounicode", "perm", true, false}, // ToUnicode CMaps through /UseCMap
}

func decodeInst(name string) *DecodeInst {
	for i := range DecodeInsts {
		if DecodeInsts[i].Name == name {
			return &DecodeInsts[i]
		}
	}
	return nil
}

// applies reports whether the wiring can be played by the structure (and is
// not a duplicate of another wiring for it).
func (di *DecodeInst) applies(w *Wiring) bool {
	if di.OneSlot {
		for _, b := range w.B {
			if b != 0 {
				return false
			}
		}
	}
	return true
}

// pure reports whether the model's answer applies to the real structure.
func (di *DecodeInst) pure(w *Wiring) bool {
	if di.NoCmp {
		return false
	}
	for _, k := range w.Kind {
		if (k == "strict" || k == "perm") && k != di.Sem {
			return false
		}
	}
	return true
}

const toUnicodeBody = "/CIDInit /ProcSet findresource begin\n12 dict begin\nbegincmap\n/CIDSystemInfo << /Registry (Adobe) /Ordering (UCS) /Supplement 0 >> def\n" +
	"/CMapName /Adobe-Identity-UCS def\n/CMapType 2 def\n1 begincodespacerange\n<00> <FF>\nendcodespacerange\n1 beginbfchar\n<41> <0041>\nendbfchar\nendcmap\nCMapName currentdict /CMap defineresource pop\nend\nend\n"

func materialiseExt(w *Wiring, l layout, f *fileSpec, alt bool) *hooks {
	h := &hooks{pageRes: "<< >>", content: "q 1 0 0 1 0 0 cm Q"}
	k := func(i int) string { return w.Kind[i-1] }
	av := func(i int) int { return w.A[i-1] }
	bv := func(i int) int { return w.B[i-1] }
	other := func(i int) {
		if alt {
			f.obj(i, "[1 2]", false)
		} else {
			f.obj(i, "17", false)
		}
	}
	// named entries /A and /B of a resource sub-dictionary
	kidsDict := func(i int) string {
		var s []string
		if av(i) != 0 {
			s = append(s, "/A "+l.tgt(av(i)))
		}
		if bv(i) != 0 {
			s = append(s, "/B "+l.tgt(bv(i)))
		}
		return "<< " + strings.Join(s, " ") + " >>"
	}
	kidsArr := func(i int) (string, int) {
		var s []string
		for _, v := range []int{av(i), bv(i)} {
			if v != 0 {
				s = append(s, l.tgt(v))
			}
		}
		return strings.Join(s, " "), len(s)
	}
	// the page names every node (the first 50 of a large wiring: every name
	// costs a walk of up to 256 levels when the chain fails, and failures are
	// not cached - 20000 names make page.Decode allocate 12 GB in 33 s, which
	// is linear in the file size but not what these cases are about)
	top := min(w.N, 50)
	all := func(pfx string) string {
		var s []string
		for i := 1; i <= top; i++ {
			s = append(s, fmt.Sprintf("/%s%d %s", pfx, i, ref(i)))
		}
		return strings.Join(s, " ")
	}

	switch w.Walker {
	case "decode":
		switch w.Inst {
		case "xobject":
			for i := 1; i <= w.N; i++ {
				switch k(i) {
				case "strict", "perm":
					f.stm(i, fmt.Sprintf("/Type /XObject /Subtype /Form /BBox [0 0 9 9] /Resources << /XObject %s >>", kidsDict(i)), "", []byte("/A Do /B Do"))
				case "leaf":
					f.stm(i, "/Type /XObject /Subtype /Form /BBox [0 0 9 9] /Resources << >>", "", []byte("0 0 1 1 re f"))
				default:
					other(i)
				}
			}
			h.pageRes = fmt.Sprintf("<< /XObject << %s >> >>", all("X"))
			h.content = "/X1 Do /X2 Do"
		case "pattern":
			for i := 1; i <= w.N; i++ {
				base := "/Type /Pattern /PatternType 1 /PaintType 1 /TilingType 1 /BBox [0 0 9 9] /XStep 9 /YStep 9 "
				switch k(i) {
				case "strict", "perm":
					f.stm(i, base+fmt.Sprintf("/Resources << /Pattern %s >>", kidsDict(i)), "", []byte("/Pattern cs /A scn 0 0 9 9 re f"))
				case "leaf":
					f.stm(i, base+"/Resources << >>", "", []byte("0 0 1 1 re f"))
				default:
					other(i)
				}
			}
			h.pageRes = fmt.Sprintf("<< /Pattern << %s >> >>", all("P"))
			h.content = "/Pattern cs /P1 scn 0 0 9 9 re f"
		case "type3font":
			for i := 1; i <= w.N; i++ {
				base := fmt.Sprintf("<< /Type /Font /Subtype /Type3 /FontBBox [0 0 9 9] /FontMatrix [.1 0 0 .1 0 0] /CharProcs << /a %s >> "+
					"/Encoding << /Type /Encoding /Differences [97 /a] >> /FirstChar 97 /LastChar 97 /Widths [9] ", ref(l.extra))
				switch k(i) {
				case "strict", "perm":
					f.obj(i, base+fmt.Sprintf("/Resources << /Font %s >> >>", kidsDict(i)), false)
				case "leaf":
					f.obj(i, base+"/Resources << >> >>", false)
				default:
					other(i)
				}
			}
			f.stm(l.extra, "", "", []byte("9 0 d0 BT /A 9 Tf (a) Tj ET"))
			h.pageRes = fmt.Sprintf("<< /Font << %s >> >>", all("F"))
			h.content = "BT /F1 9 Tf (a) Tj ET"
		case "function":
			leaf := "<< /FunctionType 2 /Domain [0 1] /C0 [0] /C1 [1] /N 1 >>"
			for i := 1; i <= w.N; i++ {
				switch k(i) {
				case "strict", "perm":
					kids, n := kidsArr(i)
					switch n {
					case 0:
						f.obj(i, leaf, false)
					case 1:
						f.obj(i, fmt.Sprintf("<< /FunctionType 3 /Domain [0 1] /Functions [%s] /Bounds [] /Encode [0 1] >>", kids), false)
					default:
						f.obj(i, fmt.Sprintf("<< /FunctionType 3 /Domain [0 1] /Functions [%s] /Bounds [.5] /Encode [0 1 0 1] >>", kids), false)
					}
				case "leaf":
					f.obj(i, leaf, false)
				default:
					other(i)
				}
			}
			var cs []string
			for i := 1; i <= top; i++ {
				cs = append(cs, fmt.Sprintf("/C%d [/Separation /Ink%d /DeviceGray %s]", i, i, ref(i)))
			}
			h.pageRes = fmt.Sprintf("<< /ColorSpace << %s >> >>", strings.Join(cs, " "))
			h.content = "/C1 cs 1 scn 0 0 9 9 re f"
		case "action":
			for i := 1; i <= w.N; i++ {
				switch k(i) {
				case "strict", "perm":
					kids, n := kidsArr(i)
					next := ""
					if n > 0 {
						next = fmt.Sprintf("/Next [%s] ", kids)
					}
					f.obj(i, fmt.Sprintf("<< /Type /Action /S /URI /URI (http://x/%d) %s>>", i, next), true)
				case "leaf":
					f.obj(i, fmt.Sprintf("<< /Type /Action /S /Named /N /NextPage >>"), true)
				default:
					other(i)
				}
			}
			h.catExtra = fmt.Sprintf("/OpenAction %s ", ref(1))
			h.pageExtra = fmt.Sprintf("/AA << /O %s /C %s >> ", ref(1), ref(min(2, w.N)))
		case "colorspace":
			f.obj(l.extra, "<< /FunctionType 2 /Domain [0 1] /C0 [0] /C1 [1] /N 1 >>", true)
			for i := 1; i <= w.N; i++ {
				switch k(i) {
				case "strict", "perm":
					altSpace := "/DeviceGray"
					if av(i) != 0 {
						altSpace = l.tgt(av(i))
					}
					f.obj(i, fmt.Sprintf("[/Separation /Ink%d %s %s]", i, altSpace, ref(l.extra)), true)
				case "leaf":
					f.obj(i, "[/CalGray << /WhitePoint [0.9505 1 1.089] >>]", true)
				default:
					f.obj(i, "17", false)
				}
			}
			h.pageRes = fmt.Sprintf("<< /ColorSpace << %s >> >>", all("C"))
			h.content = "/C1 cs 1 scn 0 0 9 9 re f"
		case "tounicode":
			for i := 1; i <= w.N; i++ {
				switch k(i) {
				case "strict", "perm":
					use := ""
					if av(i) != 0 {
						use = "/UseCMap " + l.tgt(av(i))
					}
					f.stm(i, "/Type /CMap /CMapName /Adobe-Identity-UCS "+use, "", []byte(toUnicodeBody))
				case "leaf":
					f.stm(i, "/Type /CMap /CMapName /Adobe-Identity-UCS", "", []byte(toUnicodeBody))
				default:
					other(i)
				}
			}
			var fonts []string
			for i := 1; i <= top; i++ {
				f.obj(l.extra+i, fmt.Sprintf("<< /Type /Font /Subtype /Type1 /BaseFont /Helvetica /ToUnicode %s >>", ref(i)), true)
				fonts = append(fonts, fmt.Sprintf("/F%d %s", i, ref(l.extra+i)))
			}
			h.pageRes = fmt.Sprintf("<< /Font << %s >> >>", strings.Join(fonts, " "))
			h.content = "BT /F1 9 Tf (A) Tj ET"
		default:
			return nil
		}

	case "fields":
		// /AcroForm /Fields [1 0 R]; the page lists every widget
		parentOf := func(i int) string {
			if alt {
				return ref(i) // the ignored /Parent slot, adversarially: itself
			}
			for p := 1; p <= w.N; p++ {
				if p != i && (av(p) == i || bv(p) == i) {
					return ref(p)
				}
			}
			return ref(1)
		}
		var annots []string
		for i := 1; i <= w.N; i++ {
			switch k(i) {
			case "field":
				kids, n := kidsArr(i)
				kd := ""
				if n > 0 {
					kd = fmt.Sprintf("/Kids [%s] ", kids)
				}
				f.obj(i, fmt.Sprintf("<< /FT /Tx /T (f%d) /Parent %s %s>>", i, parentOf(i), kd), true)
			case "widget":
				f.obj(i, fmt.Sprintf("<< /Type /Annot /Subtype /Widget /Rect [0 0 9 9] /P %s /Parent %s >>", ref(l.page), parentOf(i)), true)
				annots = append(annots, ref(i))
			default:
				if alt {
					f.obj(i, "[1 2]", true)
				} else {
					f.obj(i, "17", true)
				}
			}
		}
		h.catExtra = fmt.Sprintf("/AcroForm << /Fields [%s] /DA (/Helv 9 Tf) >> ", ref(1))
		if len(annots) > 0 {
			h.pageExtra = fmt.Sprintf("/Annots [%s] ", strings.Join(annots, " "))
		}

	case "parents":
		// node 1: a field merged with its widget, on the page; its /Parent chain
		for i := 1; i <= w.N; i++ {
			par := ""
			if k(i) == "field" && av(i) != 0 {
				par = "/Parent " + l.tgt(av(i)) + " "
			}
			switch {
			case k(i) != "field":
				if alt {
					f.obj(i, "[1 2]", true)
				} else {
					f.obj(i, "17", true)
				}
			case i == 1:
				f.obj(i, fmt.Sprintf("<< /Type /Annot /Subtype /Widget /Rect [0 0 9 9] /P %s /FT /Tx /T (f1) %s>>", ref(l.page), par), true)
			default:
				f.obj(i, fmt.Sprintf("<< /T (f%d) /DA (/Helv %d Tf) %s>>", i, i, par), true)
			}
		}
		h.catExtra = fmt.Sprintf("/AcroForm << /Fields [%s] /DA (/Helv 9 Tf) >> ", ref(min(2, w.N)))
		h.pageExtra = fmt.Sprintf("/Annots [%s] ", ref(1))

	case "navnode":
		// the page's /PresSteps is node 1; /Next is the list, /Prev and the
		// actions are there to be ignored or decoded on the way
		for i := 1; i <= w.N; i++ {
			if k(i) != "node" {
				if alt {
					f.obj(i, "[1 2]", true)
				} else {
					f.obj(i, "17", true)
				}
				continue
			}
			next := ""
			if av(i) != 0 {
				next = "/Next " + l.tgt(av(i)) + " "
			}
			extra := "/Prev " + ref(i) + " "
			if alt {
				extra = fmt.Sprintf("/Prev %s /NA << /S /Named /N /NextPage >> /PA << /S /URI /URI (u%d) >> ", ref(1), i)
			}
			f.obj(i, fmt.Sprintf("<< /Type /NavNode %s%s/Dur %d >>", next, extra, i), true)
		}
		h.pageExtra = fmt.Sprintf("/PresSteps %s ", ref(1))

	case "objwalk":
		// the catalog's /ZZ entry leads to node 1; entries /A and /B
		for i := 1; i <= w.N; i++ {
			if k(i) == "dict" {
				var s []string
				if av(i) != 0 {
					s = append(s, "/A "+l.tgt(av(i)))
				}
				if bv(i) != 0 {
					s = append(s, "/B "+l.tgt(bv(i)))
				}
				if alt {
					// the same references inside an array and a stream dictionary
					f.stm(i, fmt.Sprintf("/N %d /K [<< %s >>]", i, strings.Join(s, " ")), "", []byte("x"))
				} else {
					f.obj(i, fmt.Sprintf("<< /N %d %s >>", i, strings.Join(s, " ")), true)
				}
			} else {
				f.obj(i, fmt.Sprintf("<< /N %d >>", i), true)
			}
		}
		h.catExtra = fmt.Sprintf("/AAA %s ", ref(1))
	default:
		return nil
	}
	return h
}
