package c05

// A hand-made "resource zoo": one page whose resources hold every kind of
// dictionary with numeric entries that the page decode reaches - halftones of
// all types through ExtGState /HT, shadings of all types, functions of all
// types, both pattern types, image XObjects with masks, fonts with
// descriptors, /Widths, and a composite font with /W and /DW - and the
// mechanical typed-number mutants of it: for every numeric entry one mutant
// per value in {-1, 0, 1, 2^31-1, 2^31, -2^31, 2^63-1, a real, a name, null,
// missing}.

import (
	"bytes"
	"fmt"
	"regexp"
	"strings"
)

func zooFile() []byte {
	f := newFileSpec()
	l := layout{helperStm: 90, xrefObj: 91}
	fn2 := "<< /FunctionType 2 /Domain [0 1] /C0 [0] /C1 [1] /N 1 >>"
	f.obj(1, "<< /Type /Catalog /Pages 2 0 R >>", false)
	f.obj(2, "<< /Type /Pages /Kids [3 0 R] /Count 1 >>", false)
	var gs, sh, pat, xo, fonts []string
	num := 10
	add := func(list *[]string, pfx string, body string, stream []byte) int {
		n := num
		num++
		if stream != nil {
			f.stm(n, body, "", stream)
		} else {
			f.obj(n, body, false)
		}
		if list != nil {
			*list = append(*list, fmt.Sprintf("/%s%d %d 0 R", pfx, n, n))
		}
		return n
	}
	// halftones
	ht1 := "<< /Type /Halftone /HalftoneType 1 /Frequency 60 /Angle 45 /SpotFunction /Round /AccurateScreens true >>"
	hts := []int{
		add(nil, "", ht1, nil),
		add(nil, "", "/Type /Halftone /HalftoneType 6 /Width 2 /Height 3", []byte{1, 2, 3, 4, 5, 6}),
		add(nil, "", "/Type /Halftone /HalftoneType 10 /Xsquare 2 /Ysquare 1", []byte{1, 2, 3, 4, 5}),
		add(nil, "", "/Type /Halftone /HalftoneType 16 /Width 2 /Height 1", []byte{0, 1, 0, 2}),
		add(nil, "", "/Type /Halftone /HalftoneType 16 /Width 1 /Height 1 /Width2 1 /Height2 2", []byte{0, 1, 0, 2, 0, 3}),
	}
	hts = append(hts, add(nil, "", fmt.Sprintf("<< /Type /Halftone /HalftoneType 5 /Default %s /Cyan %d 0 R /Magenta %d 0 R >>", ht1, hts[1], hts[3]), nil))
	for _, h := range hts {
		add(&gs, "G", fmt.Sprintf("<< /Type /ExtGState /HT %d 0 R /LW 2 /ML 4 /CA 0.5 /ca 0.5 /FL 1 /SM 0.1 /D [[3 2] 1] /Font [60 0 R 9] >>", h), nil)
	}
	// functions
	fns := []int{
		add(nil, "", "/FunctionType 0 /Domain [0 1] /Range [0 1] /Size [2] /BitsPerSample 8 /Order 1 /Encode [0 1] /Decode [0 1]", []byte{0, 255}),
		add(nil, "", fn2, nil),
		add(nil, "", fmt.Sprintf("<< /FunctionType 3 /Domain [0 1] /Functions [%s %s] /Bounds [0.5] /Encode [0 1 0 1] >>", fn2, fn2), nil),
		add(nil, "", "/FunctionType 4 /Domain [0 1] /Range [0 1]", []byte("{ 2 mul 1 exch sub abs }")),
	}
	fn2in := add(nil, "", "/FunctionType 4 /Domain [0 1 0 1] /Range [0 1]", []byte("{ add 2 div }"))
	// shadings
	for _, fnn := range fns {
		add(&sh, "S", fmt.Sprintf("<< /ShadingType 2 /ColorSpace /DeviceGray /Coords [0 0 50 50] /Domain [0 1] /Function %d 0 R /Extend [true false] /BBox [0 0 60 60] /AntiAlias true >>", fnn), nil)
	}
	add(&sh, "S", fmt.Sprintf("<< /ShadingType 3 /ColorSpace /DeviceGray /Coords [10 10 0 10 10 40] /Function %d 0 R >>", fns[1]), nil)
	add(&sh, "S", fmt.Sprintf("<< /ShadingType 1 /ColorSpace /DeviceGray /Domain [0 1 0 1] /Matrix [50 0 0 50 0 0] /Function %d 0 R >>", fn2in), nil)
	mesh := "/ColorSpace /DeviceGray /BitsPerCoordinate 8 /BitsPerComponent 8 /Decode [0 100 0 100 0 1]"
	add(&sh, "S", "/ShadingType 4 /BitsPerFlag 8 "+mesh, []byte{0, 0, 0, 10, 0, 90, 0, 200, 0, 50, 90, 100})
	add(&sh, "S", "/ShadingType 5 /VerticesPerRow 2 "+mesh, []byte{0, 0, 10, 90, 0, 200, 0, 90, 50, 90, 90, 250})
	coons := append([]byte{0}, bytes.Repeat([]byte{10, 90}, 12)...)
	add(&sh, "S", "/ShadingType 6 /BitsPerFlag 8 "+mesh, append(coons, 0, 80, 160, 240))
	tensor := append([]byte{0}, bytes.Repeat([]byte{20, 70}, 16)...)
	add(&sh, "S", "/ShadingType 7 /BitsPerFlag 8 "+mesh, append(tensor, 0, 80, 160, 240))
	// patterns
	add(&pat, "P", "/Type /Pattern /PatternType 1 /PaintType 1 /TilingType 1 /BBox [0 0 9 9] /XStep 9 /YStep 9 /Matrix [1 0 0 1 2 2] /Resources << >>", []byte("0 0 4 4 re f"))
	add(&pat, "P", "/Type /Pattern /PatternType 1 /PaintType 2 /TilingType 3 /BBox [0 0 9 9] /XStep -9 /YStep 4.5 /Resources << >>", []byte("0 0 4 4 re f"))
	add(&pat, "P", fmt.Sprintf("<< /Type /Pattern /PatternType 2 /Shading %s /Matrix [1 0 0 1 0 0] >>", strings.Fields(sh[0])[1]+" 0 R"), nil)
	// images
	smask := add(nil, "", "/Type /XObject /Subtype /Image /Width 2 /Height 2 /ColorSpace /DeviceGray /BitsPerComponent 8 /Matte [0.5]", []byte{0, 64, 128, 255})
	stencil := add(nil, "", "/Type /XObject /Subtype /Image /Width 8 /Height 2 /ImageMask true /BitsPerComponent 1 /Decode [1 0]", []byte{0xaa, 0x55})
	add(&xo, "I", fmt.Sprintf("/Type /XObject /Subtype /Image /Width 2 /Height 2 /ColorSpace /DeviceRGB /BitsPerComponent 8 /Decode [0 1 0 1 0 1] /Interpolate true /SMask %d 0 R /SMaskInData 0 /StructParent 3", smask), bytes.Repeat([]byte{200}, 12))
	add(&xo, "I", fmt.Sprintf("/Type /XObject /Subtype /Image /Width 2 /Height 2 /ColorSpace [/Indexed /DeviceRGB 1 <000000ffffff>] /BitsPerComponent 1 /Mask %d 0 R", stencil), []byte{0x80, 0x40})
	add(&xo, "I", "/Type /XObject /Subtype /Image /Width 2 /Height 2 /ColorSpace /DeviceGray /BitsPerComponent 4 /Mask [1 3]", []byte{0x12, 0x34})
	xo = append(xo, fmt.Sprintf("/I%d %d 0 R", stencil, stencil))
	// fonts
	widths := strings.TrimSpace(strings.Repeat("500 ", 95))
	fd := add(nil, "", "<< /Type /FontDescriptor /FontName /Zoo /Flags 32 /FontBBox [0 -200 1000 800] /ItalicAngle -12.5 /Ascent 800 /Descent -200 /Leading 1000 /CapHeight 700 /XHeight 500 /StemV 80 /StemH 60 /AvgWidth 500 /MaxWidth 1000 /MissingWidth 250 /FontWeight 400 >>", nil)
	f.obj(60, fmt.Sprintf("<< /Type /Font /Subtype /Type1 /BaseFont /Zoo /FirstChar 32 /LastChar 126 /Widths [%s] /FontDescriptor %d 0 R /Encoding << /Type /Encoding /BaseEncoding /WinAnsiEncoding /Differences [65 /B 66 /A] >> >>", widths, fd), false)
	fonts = append(fonts, "/F60 60 0 R")
	f.obj(61, fmt.Sprintf("<< /Type /Font /Subtype /TrueType /BaseFont /ZooTT /FirstChar 65 /LastChar 67 /Widths [600 610.5 620] /FontDescriptor %d 0 R >>", fd), false)
	fonts = append(fonts, "/F61 61 0 R")
	cid := add(nil, "", fmt.Sprintf("<< /Type /Font /Subtype /CIDFontType2 /BaseFont /ZooCID /CIDSystemInfo << /Registry (Adobe) /Ordering (Identity) /Supplement 0 >> /FontDescriptor %d 0 R /DW 900 /W [1 [500 600] 10 20 700] /DW2 [880 -1000] /W2 [1 [-1000 500 880]] /CIDToGIDMap /Identity >>", fd), nil)
	f.obj(62, fmt.Sprintf("<< /Type /Font /Subtype /Type0 /BaseFont /ZooCID /Encoding /Identity-H /DescendantFonts [%d 0 R] >>", cid), false)
	fonts = append(fonts, "/F62 62 0 R")
	f.obj(63, "<< /Type /Font /Subtype /Type3 /FontBBox [0 0 9 9] /FontMatrix [0.1 0 0 0.1 0 0] /CharProcs << /a 64 0 R >> /Encoding << /Type /Encoding /Differences [97 /a] >> /FirstChar 97 /LastChar 97 /Widths [9] /Resources << >> >>", false)
	f.stm(64, "", "", []byte("9 0 0 0 9 9 d1 0 0 9 9 re f"))
	fonts = append(fonts, "/F63 63 0 R")

	res := fmt.Sprintf("<< /ExtGState << %s >> /Shading << %s >> /Pattern << %s >> /XObject << %s >> /Font << %s >> >>",
		strings.Join(gs, " "), strings.Join(sh, " "), strings.Join(pat, " "), strings.Join(xo, " "), strings.Join(fonts, " "))
	f.obj(3, fmt.Sprintf("<< /Type /Page /Parent 2 0 R /MediaBox [0 0 100 100] /CropBox [5 5 95 95] /Rotate 90 /UserUnit 1.5 /Resources %s /Contents 4 0 R >>", res), false)
	var c strings.Builder
	for _, g := range gs {
		fmt.Fprintf(&c, "%s gs ", strings.Fields(g)[0])
	}
	for _, s := range sh {
		fmt.Fprintf(&c, "%s sh ", strings.Fields(s)[0])
	}
	for _, p := range pat {
		fmt.Fprintf(&c, "/Pattern cs %s scn 0 0 9 9 re f ", strings.Fields(p)[0])
	}
	for _, x := range xo {
		fmt.Fprintf(&c, "q %s Do Q ", strings.Fields(x)[0])
	}
	c.WriteString("BT /F60 9 Tf (AB) Tj /F61 9 Tf (AB) Tj /F62 9 Tf <00010002> Tj /F63 9 Tf (a) Tj ET")
	f.stm(4, "", "", []byte(c.String()))
	return f.render(l, 1, false, nil, nil)
}

var (
	zooNumPat = regexp.MustCompile(`/([A-Za-z][A-Za-z0-9]*)([\x00\t\n\f\r ]+)([+-]?(?:[0-9]+\.?[0-9]*|\.[0-9]+))\b`)
	zooArrPat = regexp.MustCompile(`/([A-Za-z][A-Za-z0-9]*)[\x00\t\n\f\r ]*\[([^\[\]<>/()]{1,300})\]`)
	zooElem   = regexp.MustCompile(`[+-]?(?:[0-9]+\.?[0-9]*|\.[0-9]+)`)
	zooStmPat = regexp.MustCompile(`>>[\r\n ]*stream\r?\n`)
	zooRefPat = regexp.MustCompile(`^[\x00\t\n\f\r ]+[0-9]+[\x00\t\n\f\r ]+R\b`)
)

// typedValues are what a numeric entry is replaced by ("" = the entry is removed).
var typedValues = []string{"-1", "0", "1", "2147483647", "2147483648", "-2147483648", "9223372036854775807", "0.5", "/Name", "null", ""}

type typedSite struct {
	key        string
	a, b       int // the value
	ka         int // start of "/Key" (for removal); -1 for array elements
	firstOfArr bool
}

// typedSites finds the numeric dictionary entries and numeric array elements
// of objects (not inside stream data, not in the cross-reference section).
func typedSites(data []byte) []typedSite {
	end := bytes.LastIndex(data, []byte("xref"))
	if end < 0 {
		end = len(data)
	}
	// blank out stream data so that the patterns do not see it
	scan := append([]byte{}, data[:end]...)
	for _, m := range zooStmPat.FindAllIndex(scan, -1) {
		if e := bytes.Index(scan[m[1]:], []byte("endstream")); e > 0 {
			for i := m[1]; i < m[1]+e; i++ {
				scan[i] = 'x'
			}
		}
	}
	skip := map[string]bool{"Length": true, "Type": true}
	var out []typedSite
	for _, m := range zooNumPat.FindAllSubmatchIndex(scan, -1) {
		key := string(scan[m[2]:m[3]])
		// "/Key 12 0 R" is a reference, not a number
		rest := scan[m[7]:min(m[7]+12, len(scan))]
		if skip[key] || zooRefPat.Match(rest) {
			continue
		}
		out = append(out, typedSite{key: key, a: m[6], b: m[7], ka: m[0]})
	}
	for _, m := range zooArrPat.FindAllSubmatchIndex(scan, -1) {
		key := string(scan[m[2]:m[3]])
		inner := scan[m[4]:m[5]]
		if bytes.Contains(inner, []byte(" R")) {
			continue
		}
		for i, e := range zooElem.FindAllIndex(inner, 12) {
			out = append(out, typedSite{key: key + "[]", a: m[4] + e[0], b: m[4] + e[1], ka: -1, firstOfArr: i == 0})
		}
	}
	return out
}

// applyTyped replaces the value at a site.  The file is laid out again
// afterwards by the caller?  No: offsets shift, so a classic table would be
// wrong - the mutants keep their length by padding with spaces where they
// can, and the reader's own repair (SequentialScan / MakeReader) and the
// tolerant table reader see the rest; to keep every mutant openable the
// replacement is padded or the following white space is eaten.
func applyTyped(data []byte, s typedSite, val string) []byte {
	a, b := s.a, s.b
	if val == "" {
		if s.ka < 0 {
			val = " "
		} else {
			a = s.ka
		}
	}
	out := make([]byte, 0, len(data)+len(val))
	out = append(out, data[:a]...)
	out = append(out, val...)
	out = append(out, data[b:]...)
	return fixOffsets(out, a, len(val)-(b-a))
}

var xrefLine = regexp.MustCompile(`(?m)^([0-9]{10}) ([0-9]{5}) n `)

// fixOffsets shifts the offsets of a classic cross-reference table (and the
// startxref value) behind position pos by delta.
func fixOffsets(data []byte, pos, delta int) []byte {
	if delta == 0 {
		return data
	}
	x := bytes.LastIndex(data, []byte("\nxref\n"))
	if x < 0 {
		return data
	}
	tail := xrefLine.ReplaceAllFunc(data[x:], func(m []byte) []byte {
		var off int
		fmt.Sscanf(string(m[:10]), "%d", &off)
		if off > pos {
			off += delta
		}
		return []byte(fmt.Sprintf("%010d%s", off, m[10:]))
	})
	out := append(append([]byte{}, data[:x]...), tail...)
	if m := sxPat.FindSubmatchIndex(out); m != nil {
		var off int
		fmt.Sscanf(string(out[m[2]:m[3]]), "%d", &off)
		out = append(append(append([]byte{}, out[:m[2]]...), []byte(fmt.Sprint(x+1))...), out[m[3]:]...)
		_ = off
	}
	return out
}
