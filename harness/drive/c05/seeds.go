package c05

// Valid files that the exploration mutates: documents written by the real
// pdf.Writer (shared/docgen, pages with every kind of embedded font, a JPEG
// image), revision histories rendered by the independent serialiser, and the
// repository's own fuzz seed corpora.

import (
	"bytes"
	"fmt"
	"image"
	"image/color"
	"image/jpeg"
	"math/rand"
	"os"
	"path/filepath"
	"sort"
	"strconv"
	"strings"

	"seehuhn.de/go/pdf"
	"seehuhn.de/go/pdf/document"
	"seehuhn.de/go/pdf/verifx"

	"verif/harness/drive/shared"
	"verif/harness/indep/ser"
)

// Seed is a base file.
type Seed struct {
	Name      string
	Data      []byte
	Encrypted bool
	Class     string // docgen ser font image corpus
}

var docgenShapes = []shared.DocOptions{
	{},
	{Seekable: true, Info: true},
	{XRefStream: true, Seekable: true},
	{XRefStream: true, ObjStm: true},
	{XRefStream: true, ObjStm: true, Seekable: true, Filters: []string{"Flate", "ASCIIHex"}, MinStreams: 2},
	{Filters: []string{"LZW", "ASCII85", "RunLength"}, MinStreams: 3, Bodies: shared.AllBodies},
	{Encrypt: true, Seekable: true, MinStreams: 1},
	{XRefStream: true, ObjStm: true, Encrypt: true, Filters: []string{"Flate"}, MinStreams: 1},
	{Version: pdf.V2_0, XRefStream: true, ObjStm: true, Seekable: true, Info: true},
}

func docgenSeeds(rng *rand.Rand, perShape int) ([]Seed, error) {
	var out []Seed
	for si, opt := range docgenShapes {
		for j := 0; j < perShape; j++ {
			seed := rng.Int63()
			d, err := shared.GenerateDoc(seed, opt)
			if err != nil {
				return nil, fmt.Errorf("docgen shape %d seed %d: %v", si, seed, err)
			}
			out = append(out, Seed{Name: fmt.Sprintf("docgen/%d/%d", si, seed), Data: d.Bytes, Encrypted: opt.Encrypt, Class: "docgen"})
		}
	}
	return out, nil
}

func serSeeds(rng *rand.Rand, n int) (out []Seed) {
	for i := 0; i < n; i++ {
		seed := rng.Int63()
		func() {
			defer func() { recover() }() // a history the serialiser refuses is simply not a seed
			r := rand.New(rand.NewSource(seed))
			doc := ser.RandomDoc(r, 3, 5, i%3 == 0)
			data := ser.Render(doc, &ser.Options{Seed: seed})
			out = append(out, Seed{Name: fmt.Sprintf("ser/%d", seed), Data: data, Class: "ser"})
		}()
	}
	return out
}

// fontSeeds writes one page of text per font embedding kind with the real Writer.
func fontSeeds() (out []Seed, skipped []string) {
	for _, s := range verifx.FontSamples() {
		func() {
			defer func() {
				if x := recover(); x != nil {
					skipped = append(skipped, fmt.Sprintf("%s: panic %v", s.Label, x))
				}
			}()
			for _, v := range []pdf.Version{pdf.V2_0, pdf.V1_7} {
				var buf bytes.Buffer
				pg, err := document.WriteSinglePage(&buf, document.A5, v, nil)
				if err != nil {
					continue
				}
				F := s.MakeFont()
				pg.TextSetFont(F, 12)
				pg.TextBegin()
				pg.TextFirstLine(40, 300)
				pg.TextShow("Hello ffi AVA 12")
				pg.TextEnd()
				if err := pg.Close(); err != nil {
					skipped = append(skipped, fmt.Sprintf("%s/%v: %v", s.Label, v, err))
					continue
				}
				out = append(out, Seed{Name: "font/" + s.Label, Data: buf.Bytes(), Class: "font"})
				return
			}
		}()
	}
	return out, skipped
}

// testJPEG is a small baseline JPEG (64x64, noisy so that it has a few kB).
func testJPEG(w, h int, gray bool) []byte {
	r := rand.New(rand.NewSource(7))
	var img image.Image
	if gray {
		g := image.NewGray(image.Rect(0, 0, w, h))
		for i := range g.Pix {
			g.Pix[i] = byte(r.Intn(256))
		}
		img = g
	} else {
		m := image.NewRGBA(image.Rect(0, 0, w, h))
		for y := 0; y < h; y++ {
			for x := 0; x < w; x++ {
				m.Set(x, y, color.RGBA{byte(x*4 + r.Intn(32)), byte(y*4 + r.Intn(32)), byte(r.Intn(256)), 255})
			}
		}
		img = m
	}
	var buf bytes.Buffer
	jpeg.Encode(&buf, img, &jpeg.Options{Quality: 85})
	return buf.Bytes()
}

// imageFile is a one-page file that draws an image XObject whose stream has
// the given filter chain; raw is the encoded data.
func imageFile(filters string, raw []byte, w, h int, cs string) []byte {
	f := newFileSpec()
	l := layout{helperStm: 8, xrefObj: 9}
	f.obj(1, "<< /Type /Catalog /Pages 2 0 R >>", false)
	f.obj(2, "<< /Type /Pages /Kids [3 0 R] /Count 1 >>", false)
	f.obj(3, "<< /Type /Page /Parent 2 0 R /MediaBox [0 0 100 100] /Resources << /XObject << /Im0 5 0 R >> >> /Contents 4 0 R >>", false)
	f.stm(4, "", "", []byte("q 100 0 0 100 0 0 cm /Im0 Do Q"))
	f.stm(5, fmt.Sprintf("/Type /XObject /Subtype /Image /Width %d /Height %d /ColorSpace /%s /BitsPerComponent 8 /Filter %s", w, h, cs, filters), "", raw)
	return f.render(l, 1, false, nil, nil)
}

func imageSeeds() []Seed {
	j := testJPEG(64, 64, false)
	g := testJPEG(48, 48, true)
	return []Seed{
		{Name: "image/dct-rgb", Data: imageFile("/DCTDecode", j, 64, 64, "DeviceRGB"), Class: "image"},
		{Name: "image/dct-gray", Data: imageFile("/DCTDecode", g, 48, 48, "DeviceGray"), Class: "image"},
		{Name: "image/hex-dct", Data: imageFile("[/ASCIIHexDecode /DCTDecode]", hexN(j, 1), 64, 64, "DeviceRGB"), Class: "image"},
	}
}

// corpusSeeds reads the repository's fuzz seed corpora.  Values that are PDF
// files are used as they are; anything else becomes the content stream and an
// extra stream object of a template file.
func corpusSeeds(repo string) (out []Seed, files int) {
	var paths []string
	filepath.Walk(repo, func(p string, info os.FileInfo, err error) error {
		if err != nil {
			return nil
		}
		if info.IsDir() {
			if info.Name() == ".git" {
				return filepath.SkipDir
			}
			return nil
		}
		if strings.Contains(p, "/testdata/fuzz/") {
			paths = append(paths, p)
		}
		return nil
	})
	sort.Strings(paths)
	for _, p := range paths {
		raw, err := os.ReadFile(p)
		if err != nil || !bytes.HasPrefix(raw, []byte("go test fuzz v1")) {
			continue
		}
		files++
		rel, _ := filepath.Rel(repo, p)
		for i, line := range strings.Split(string(raw), "\n")[1:] {
			line = strings.TrimSpace(line)
			var lit string
			switch {
			case strings.HasPrefix(line, "[]byte(") && strings.HasSuffix(line, ")"):
				lit = line[len("[]byte(") : len(line)-1]
			case strings.HasPrefix(line, "string(") && strings.HasSuffix(line, ")"):
				lit = line[len("string(") : len(line)-1]
			default:
				continue
			}
			val, err := strconv.Unquote(lit)
			if err != nil || len(val) == 0 {
				continue
			}
			name := fmt.Sprintf("corpus/%s#%d", rel, i)
			if strings.Contains(val[:min(len(val), 1100)], "%PDF-") {
				out = append(out, Seed{Name: name, Data: []byte(val), Class: "corpus"})
				continue
			}
			out = append(out, Seed{Name: name, Data: wrapFragment([]byte(val)), Class: "corpus"})
		}
	}
	return out, files
}

// wrapFragment embeds a corpus value that is not a file: as page content, and
// as a stream read through the filter its first bytes suggest.
func wrapFragment(v []byte) []byte {
	filter := ""
	switch {
	case bytes.HasPrefix(v, []byte{0xff, 0xd8}):
		filter = "/Filter /DCTDecode "
	case bytes.HasPrefix(v, []byte{0x97, 0x4a, 0x42, 0x32}) || bytes.HasPrefix(v, []byte{0, 0, 0, 0}):
		filter = "/Filter /JBIG2Decode "
	}
	f := newFileSpec()
	l := layout{helperStm: 8, xrefObj: 9}
	f.obj(1, "<< /Type /Catalog /Pages 2 0 R >>", false)
	f.obj(2, "<< /Type /Pages /Kids [3 0 R] /Count 1 >>", false)
	f.obj(3, "<< /Type /Page /Parent 2 0 R /MediaBox [0 0 100 100] /Resources << /XObject << /Im0 5 0 R >> /Font << /F1 6 0 R >> >> /Contents 4 0 R >>", false)
	f.stm(4, "", "", v)
	f.stm(5, "/Type /XObject /Subtype /Image /Width 16 /Height 16 /ColorSpace /DeviceGray /BitsPerComponent 8 "+filter, "", v)
	f.obj(6, "<< /Type /Font /Subtype /Type1 /BaseFont /Helvetica >>", false)
	return f.render(l, 1, false, nil, nil)
}
