package c05

// Binding of spec/robust/Pipe.tla: the rows of Gen_Pipe (consumer stops after
// k of n chunks for a reason, source fails after e chunks) are realised on
// the two pipe-backed producers of go-pdf.
//
//	site "type1"  type1glyphs.FromStream: the harness is the producer's source
//	              (glyphdata.Stream.WriteTo writes n chunks), the consumer is
//	              type1.Read inside the library; it stops at chunk k because
//	              the font program is garbled / cut from there on
//	site "dct"    pdf.DecodeStream of a DCTDecode image: the harness is the
//	              consumer and reads k chunks, then closes; the filter chain
//	              decides whether that Close reaches the pipe

import (
	"bytes"
	"errors"
	"fmt"
	"io"
	"sync/atomic"
	"time"

	"seehuhn.de/go/pdf"
	"seehuhn.de/go/pdf/font/glyphdata"
	"seehuhn.de/go/pdf/font/glyphdata/type1glyphs"
	"seehuhn.de/go/pdf/verifx"
)

// PipeCase is one row of the scenario table on one site.
type PipeCase struct {
	Site   string `json:"site"`
	N      int    `json:"n"`
	K      int    `json:"k"`
	Reason string `json:"reason"` // close early error eof
	SrcErr int    `json:"srcErr"` // N+1: the source does not fail
	Stuck  bool   `json:"stuck"`  // model: stuck unless the Close reaches the pipe
	Chain  string `json:"chain,omitempty"`
	Damage string `json:"damage,omitempty"` // type1: garble cut zero
}

func (p *PipeCase) key() string {
	return fmt.Sprintf("%s/%s/n%d/k%d/%s/e%d/%s", p.Site, p.Chain, p.N, p.K, p.Reason, p.SrcErr, p.Damage)
}

var type1Bytes []byte

func validType1() []byte {
	if type1Bytes == nil {
		var buf bytes.Buffer
		f := verifx.Type1()
		if _, _, err := f.WritePDF(&buf); err != nil {
			panic(err)
		}
		type1Bytes = buf.Bytes()
	}
	return type1Bytes
}

func (k *wk) runPipe(p *PipeCase) {
	switch p.Site {
	case "type1":
		k.pipeType1(p)
	case "dct":
		k.pipeDCT(p)
	}
}

func (k *wk) pipeType1(p *PipeCase) {
	font := append([]byte{}, validType1()...)
	n := p.N
	chunk := (len(font) + n - 1) / n
	at := p.K * chunk
	if at > len(font) {
		at = len(font)
	}
	switch p.Reason {
	case "error":
		switch p.Damage {
		case "cut":
			// the font program ends here, the source goes on with padding
			for i := at; i < len(font); i++ {
				font[i] = ' '
			}
			copy(font[at:], " ) } >> end syntaxerror ")
		case "zero":
			for i := at; i < len(font); i++ {
				font[i] = 0
			}
		default:
			copy(font[at:], "\n>> ] ) } undefinedoperator <~ 16#zz\n")
		}
	case "early":
		// a complete program followed by more data than the interpreter asks for
		font = append(font[:at:at], []byte("\ncurrentfile closefile\n")...)
		font = append(font, bytes.Repeat([]byte("0"), chunk*(n-p.K)+chunk)...)
	}
	k.data = font
	var written, returned atomic.Int32
	stm := &glyphdata.Stream{
		Type: glyphdata.Type1,
		WriteTo: func(w io.Writer, _ *glyphdata.Lengths) error {
			defer returned.Store(1)
			for i := 0; i*chunk < len(font); i++ {
				if i == p.SrcErr {
					return errors.New("source failed")
				}
				end := (i + 1) * chunk
				if end > len(font) {
					end = len(font)
				}
				if _, err := w.Write(font[i*chunk : end]); err != nil {
					return err
				}
				written.Add(1)
			}
			return nil
		},
	}
	k.callPipe("pipe/type1", p.key(), func() error {
		_, err := type1glyphs.FromStream(stm)
		return err
	}, func(rec *Rec) {
		// the grace period is over: has the producer returned?
		rec.Prod = int(returned.Load())
		rec.Detail = fmt.Sprintf("chunks written=%d | %s", written.Load(), rec.Detail)
	})
}

func (k *wk) pipeDCT(p *PipeCase) {
	jp := testJPEG(64, 64, false)
	total := 64 * 64 * 3
	if p.SrcErr <= p.N {
		// the producer's source fails: the entropy coded data ends early
		head := 600 // tables and frame header
		cut := head + (len(jp)-head)*p.SrcErr/(p.N+1)
		jp = jp[:cut]
	}
	filters, raw := "/DCTDecode", jp
	switch p.Chain {
	case "hex-over":
		filters, raw = "[/ASCIIHexDecode /DCTDecode]", hexN(jp, 1)
	case "dct-under-hex":
		filters = "[/DCTDecode /ASCIIHexDecode]"
	case "dct-under-rl":
		filters = "[/DCTDecode /RunLengthDecode]"
	case "dct-under-flate":
		filters = "[/DCTDecode /FlateDecode]"
	}
	k.data = imageFile(filters, raw, 64, 64, "DeviceRGB")
	data := k.data
	chunk := total / p.N
	k.callPipe("pipe/dct", p.key(), func() error {
		r, err := pdf.NewReader(bytes.NewReader(data), int64(len(data)), nil)
		if err != nil {
			return err
		}
		defer r.Close()
		obj, err := r.Get(pdf.NewReference(5, 0), true)
		if err != nil {
			return err
		}
		stm, ok := obj.(*pdf.Stream)
		if !ok {
			return errors.New("image stream not found")
		}
		rc, err := pdf.DecodeStream(r, nil, stm)
		if err != nil {
			return err
		}
		buf := make([]byte, chunk)
		var rerr error
		if p.Reason == "eof" {
			_, rerr = io.Copy(io.Discard, rc)
		} else {
			for i := 0; i < p.K && rerr == nil; i++ {
				_, rerr = io.ReadFull(rc, buf)
			}
		}
		// the caller keeps its side of the contract: it always closes
		if cerr := rc.Close(); rerr == nil {
			rerr = cerr
		}
		if rerr == io.ErrUnexpectedEOF || rerr == io.EOF {
			rerr = nil
		}
		return rerr
	}, nil)
}

// callPipe is call with a hook that runs after the grace period.
func (k *wk) callPipe(name, arg string, f func() error, after func(*Rec)) {
	if after == nil {
		k.call(name, arg, 1, nil, func() ([]string, error) { return nil, f() })
		return
	}
	// run the call, then amend the record before it is sent: wrap send
	k.begin(name, arg)
	rec := k.measure(name, arg, func() ([]string, error) { return nil, f() })
	after(&rec)
	if rec.Prod == 0 && rec.G1 <= rec.G0 {
		// the producer is about to return: give it the same grace
		deadline := time.Now().Add(k.grace)
		for time.Now().Before(deadline) {
			time.Sleep(time.Millisecond)
			after(&rec)
			if rec.Prod != 0 {
				break
			}
		}
	}
	k.recs++
	k.send(map[string]any{"r": rec})
}
