package c05

// Repetition: the same hostile file read many times in one process.  A call
// must return what it returns alone - the 300th error text equals the 2nd -
// and nothing may pile up between the calls (heap in use after a collection).
// The specification's envelope (robust/Envelope.tla) bounds what one call may
// hold; what it holds after returning is nothing.

import (
	"bytes"
	"fmt"
	"runtime"
	"strings"

	"seehuhn.de/go/pdf"
	"seehuhn.de/go/pdf/graphics/extract"

	"verif/harness/core"
)

func readAllSig(data []byte, maxNum int) (sig string) {
	defer func() {
		if p := recover(); p != nil {
			sig = fmt.Sprintf("panic: %v", p)
		}
	}()
	var sb strings.Builder
	for _, mode := range []pdf.ReaderErrorHandling{pdf.ErrorHandlingStop, pdf.ErrorHandlingRecover} {
		r, err := pdf.NewReader(bytes.NewReader(data), int64(len(data)), &pdf.ReaderOptions{ErrorHandling: mode})
		if err != nil {
			fmt.Fprintf(&sb, "open[%d]: %s\n", mode, err)
			continue
		}
		for n := 1; n <= maxNum; n++ {
			obj, err := r.Get(pdf.NewReference(uint32(n), 0), true)
			if err != nil {
				fmt.Fprintf(&sb, "get %d: %s\n", n, err)
				continue
			}
			if d, ok := obj.(pdf.Dict); ok && d["Type"] == pdf.Name("Font") {
				// font dictionaries are decoded as well (their decoders keep package-level state)
				if _, err := pdf.Decode(pdf.NewCursor(r), pdf.NewReference(uint32(n), 0), extract.Dict); err != nil {
					fmt.Fprintf(&sb, "font %d: %s\n", n, err)
				}
				if _, err := pdf.Decode(pdf.NewCursor(r), pdf.NewReference(uint32(n), 0), extract.Font); err != nil {
					fmt.Fprintf(&sb, "font instance %d: %s\n", n, err)
				}
			}
			if st, ok := obj.(*pdf.Stream); ok {
				if rc, err := pdf.DecodeStream(r, nil, st); err != nil {
					fmt.Fprintf(&sb, "decode %d: %s\n", n, err)
				} else {
					buf := make([]byte, 512)
					for {
						if _, err := rc.Read(buf); err != nil {
							break
						}
					}
					rc.Close()
				}
			}
		}
		r.Close()
	}
	return sb.String()
}

func repeatPhase(ctx *core.Ctx) error {
	fams := []*Family{
		{Name: "deep-array", Size: 300}, {Name: "deep-dict", Size: 300}, {Name: "chain-length", Size: 3}, {Name: "chain-length", Size: 3, Cyc: true},
		{Name: "objstm-offsets", Size: 1}, {Name: "self", Size: 1}, {Name: "huge-offsets", Size: 2, Cyc: true},
	}
	// a stream whose /Length leads to a dictionary / an array (recovered silently)
	extra := map[string][]byte{}
	{
		a := newAsm("1.7")
		a.obj(1, "<< /Type /Catalog /Pages 2 0 R >>")
		a.obj(2, "<< /Type /Pages /Kids [] /Count 0 >>")
		a.obj(5, "<< /Not /A /Number 1 >>")
		a.obj(6, "[1 2 3]")
		a.stream(3, "/Length 5 0 R", "", []byte("stream data three"))
		a.stream(4, "/Length 6 0 R", "", []byte("stream data four"))
		var ents []xent
		ents = append(ents, xent{num: 0, typ: 0})
		for _, n := range []int{1, 2, 3, 4, 5, 6} {
			ents = append(ents, xent{num: n, typ: 1, off: a.offs[n]})
		}
		sx := a.xrefStream(9, ents, "/Root 1 0 R", false)
		extra["length-is-composite"] = a.finish(sx)
	}
	type item struct {
		name string
		data []byte
	}
	var items []item
	for _, f := range fams {
		data, err := f.build()
		if err != nil {
			return core.Infra("repeat: %v", err)
		}
		items = append(items, item{"family:" + f.key(), data})
	}
	for k, d := range extra {
		items = append(items, item{k, d})
	}
	reps := ctx.Pick(300, 1500)
	for _, it := range items {
		if err := repeatOne(ctx, it.name, it.data, reps); err != nil {
			return err
		}
	}
	// many different files, each naming things of its own (a composite font
	// whose /Encoding and /UseCMap-like names occur in no other file): what a
	// file names must not stay behind when its Reader is gone
	{
		a := newAsm("1.7")
		a.obj(1, "<< /Type /Catalog /Pages 2 0 R >>")
		a.obj(2, "<< /Type /Pages /Kids [] /Count 0 >>")
		a.obj(3, "<< /Type /Font /Subtype /Type0 /BaseFont /Verif-Font /Encoding /"+strings.Repeat("N", 3000)+"0000000 /DescendantFonts [4 0 R] >>")
		a.obj(4, "<< /Type /Font /Subtype /CIDFontType2 /BaseFont /Verif-Font /CIDSystemInfo << /Registry (Adobe) /Ordering (Identity) /Supplement 0 >> /FontDescriptor 5 0 R /DW 1000 >>")
		a.obj(5, "<< /Type /FontDescriptor /FontName /Verif-Font /Flags 4 /FontBBox [0 0 1000 1000] /ItalicAngle 0 /Ascent 800 /Descent -200 /CapHeight 700 /StemV 80 >>")
		var ents []xent
		ents = append(ents, xent{num: 0, typ: 0})
		for _, n := range []int{1, 2, 3, 4, 5} {
			ents = append(ents, xent{num: n, typ: 1, off: a.offs[n]})
		}
		sx := a.xrefStream(9, ents, "/Root 1 0 R", false)
		tmpl := a.finish(sx)
		if err := repeatMany(ctx, tmpl, ctx.Pick(2500, 10000)); err != nil {
			return err
		}
	}
	ctx.Ev.Set("repeated_readings", map[string]any{"files": len(items), "repetitions_each": reps})
	ctx.Logf("repeat: %d hostile files read %d times each in one process: answers stable, nothing retained", len(items), reps)
	return nil
}

// repeatOne reads one file reps times and judges the repetition.
func repeatOne(ctx *core.Ctx, name string, data []byte, reps int) error {
	var second, last string
	var ms runtime.MemStats
	var base uint64
	for i := 0; i < reps; i++ {
		sig := readAllSig(data, 40)
		if i == 1 {
			second = sig
		}
		if i == 20 {
			runtime.GC()
			runtime.ReadMemStats(&ms)
			base = ms.HeapAlloc
		}
		last = sig
	}
	runtime.GC()
	runtime.ReadMemStats(&ms)
	growth := int64(ms.HeapAlloc) - int64(base)
	ctx.Ev.Eval(reps)
	class := strings.SplitN(strings.TrimPrefix(name, "family:"), "/", 2)[0]
	if second != last {
		what := fmt.Sprintf("%s read %d times in one process: the answers of the last reading differ from those of the 2nd (%d vs %d bytes of error text), e.g. %.200q", name, reps, len(last), len(second), firstDiff(second, last))
		ctx.Violation("repeat/answers-differ/"+class, what, replayCase{Kind: "repeat", Name: name, Data: data})
	} else if growth > 3<<20 {
		what := fmt.Sprintf("%s read %d times in one process: %d bytes of heap stay in use after the calls returned (after a collection)", name, reps, growth)
		ctx.Violation("repeat/heap-retained/"+class, what, replayCase{Kind: "repeat", Name: name, Data: data})
	}
	return nil
}

// repeatMany reads n variants of a template file (a seven-digit field of a
// name differs) one after the other and judges what stays behind.
func repeatMany(ctx *core.Ctx, tmpl []byte, n int) error {
	at := bytes.Index(tmpl, []byte("0000000 /DescendantFonts"))
	if at < 0 {
		return core.Infra("repeat: template")
	}
	var ms runtime.MemStats
	var base uint64
	for i := 0; i < n; i++ {
		data := append([]byte(nil), tmpl...)
		copy(data[at:], fmt.Sprintf("%07d", i))
		readAllSig(data, 6)
		if i == 50 {
			runtime.GC()
			runtime.ReadMemStats(&ms)
			base = ms.HeapAlloc
		}
	}
	runtime.GC()
	runtime.ReadMemStats(&ms)
	growth := int64(ms.HeapAlloc) - int64(base)
	ctx.Ev.Eval(n)
	if growth > 3<<20 {
		ctx.Violation("repeat/heap-retained/many-files", fmt.Sprintf("%d small files, each with a composite font naming an encoding of its own, opened, read and closed one after the other in one process: %d bytes of heap stay in use after a collection", n, growth),
			replayCase{Kind: "repeat-many", Name: "many-files", Data: tmpl})
	}
	return nil
}

func firstDiff(a, b string) string {
	la, lb := strings.Split(a, "\n"), strings.Split(b, "\n")
	for i := range lb {
		if i >= len(la) || la[i] != lb[i] {
			return lb[i]
		}
	}
	return ""
}
