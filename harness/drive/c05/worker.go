package c05

// The worker process: executes cases on the real go-pdf code and logs one
// record per call.  It runs as a child of the driver (same binary, started
// with C05_WORKER=1) because the failures property C05 is about cannot be
// survived in-process: a goroutine stuck in an endless loop cannot be
// stopped, an exhausted stack or an out-of-memory condition is a fatal error
// that no recover() sees.  The parent (pool.go) watches the worker, turns a
// missing answer into a "hang" record and a dead worker into a "fatal" one.
//
// Protocol (stdin/stdout, one JSON document per line):
//
//	parent -> worker   Req
//	worker -> parent   {"b": "<call>"}            a call begins
//	                   {"r": Rec}                 the call returned
//	                   {"done": "<case id>", ...} the case is finished
//
// Exactly one call is in flight at any time and the worker's main goroutine
// is the only goroutine of the harness, so goroutine counts, allocation and
// CPU time deltas belong to the call.

import (
	"bufio"
	"bytes"
	"encoding/json"
	"errors"
	"fmt"
	"io"
	"os"
	"regexp"
	"runtime"
	"runtime/debug"
	"runtime/metrics"
	"sort"
	"strconv"
	"strings"
	"syscall"
	"time"

	"seehuhn.de/go/pdf"
	"seehuhn.de/go/pdf/action"
	annotdecode "seehuhn.de/go/pdf/annotation/decode"
	"seehuhn.de/go/pdf/destination"
	"seehuhn.de/go/pdf/font"
	"seehuhn.de/go/pdf/font/dict"
	"seehuhn.de/go/pdf/font/glyphdata"
	"seehuhn.de/go/pdf/font/glyphdata/cffglyphs"
	"seehuhn.de/go/pdf/font/glyphdata/sfntglyphs"
	"seehuhn.de/go/pdf/font/glyphdata/type1glyphs"
	"seehuhn.de/go/pdf/font/textextract"
	"seehuhn.de/go/pdf/graphics"
	"seehuhn.de/go/pdf/graphics/content"
	"seehuhn.de/go/pdf/graphics/extract"
	"seehuhn.de/go/pdf/nametree"
	"seehuhn.de/go/pdf/numtree"
	"seehuhn.de/go/pdf/outline"
	"seehuhn.de/go/pdf/page"
	"seehuhn.de/go/pdf/pagelabel"
	"seehuhn.de/go/pdf/pagetree"
	"seehuhn.de/go/pdf/reader"
	"seehuhn.de/go/pdf/walker"

	"seehuhn.de/go/geom/matrix"
)

// Req is one case for the worker.
type Req struct {
	ID       string     `json:"id"`
	Data     []byte     `json:"data,omitempty"` // explicit input bytes
	Raw      bool       `json:"raw,omitempty"`  // Data is the input even when it is empty
	Wiring   *Wiring    `json:"wiring,omitempty"`
	Variant  int        `json:"variant,omitempty"`
	Family   *Family    `json:"family,omitempty"`
	Pass     string     `json:"pass,omitempty"` // password of an encrypted seed
	Pipe     *PipeCase  `json:"pipe,omitempty"`
	Skip     []string   `json:"skip,omitempty"`     // calls not to make (they killed an earlier worker)
	PageOnly bool       `json:"pageonly,omitempty"` // open once, then only what the page tree reaches (typed-number mutants)
	Only     string     `json:"only,omitempty"`     // confirmation runs: besides opening the file, make only this call
	NoRetry  bool       `json:"-"`                  // parent side: do not go on with the case after a worker death
	GraceMs  int        `json:"grace,omitempty"`    // goroutine grace period
	Probe    bool       `json:"probe,omitempty"`    // only the walker-specific probe call
	Echo     bool       `json:"echo,omitempty"`     // return the input bytes with the done line
	Calib    *CalibSpec `json:"calib,omitempty"`

	info *caseInfo // parent side only
}

// CalibSpec lets the self-test plant a defect in the harness itself.
type CalibSpec struct {
	Kind string `json:"kind"` // "panic", "spin", "leak", "alloc", "overflow"
}

// Rec is the log record of one call of the public API.
type Rec struct {
	Case    string   `json:"case"`
	Call    string   `json:"call"`
	Arg     string   `json:"arg,omitempty"`
	Outcome string   `json:"outcome"` // ok malformed readError auth error | panic fatal hang
	N       int      `json:"n"`       // API calls aggregated in this record
	WallUs  int      `json:"wall_us"`
	CpuUs   int      `json:"cpu_us"`
	Len     int      `json:"len"`      // input length in bytes
	AllocKB int      `json:"alloc_kb"` // heap bytes allocated during the call / 1024
	G0      int      `json:"g0"`       // goroutines before
	G1      int      `json:"g1"`       // goroutines after the grace period
	Gets    int      `json:"gets"`     // Getter.Get calls seen by the counting wrapper (-1: none)
	Objs    int      `json:"objs"`     // objects in the input (independent count)
	Prod    int      `json:"prod"`     // pipe cases: 1 producer returned, 0 still blocked, -1 n/a
	Detail  string   `json:"detail,omitempty"`
	Proj    []string `json:"proj,omitempty"` // projection of the result (probe calls)
}

type wk struct {
	out      *bufio.Writer
	id       string
	data     []byte
	objs     int
	skip     map[string]bool
	only     string
	pageOnly bool
	grace    time.Duration
	sample   []metrics.Sample
	recs     int
}

func (k *wk) send(v any) {
	b, _ := json.Marshal(v)
	k.out.Write(b)
	k.out.WriteByte('\n')
	k.out.Flush()
}

// begin announces a call, with the CPU time the process has used so far (the
// parent tells a starved call from a hanging one by the CPU it has burnt).
func (k *wk) begin(name, arg string) {
	k.send(map[string]any{"b": name, "a": arg, "cpu": int64(cpuNow() / time.Microsecond)})
}

func cpuNow() time.Duration {
	var ru syscall.Rusage
	if err := syscall.Getrusage(syscall.RUSAGE_SELF, &ru); err != nil {
		return 0
	}
	return time.Duration(ru.Utime.Nano() + ru.Stime.Nano())
}

func (k *wk) allocNow() uint64 {
	metrics.Read(k.sample)
	return k.sample[0].Value.Uint64()
}

// settle waits until the goroutine count is back at g0 or the grace period is
// over.  The period is measured in wall time AND in turns of this loop: every
// turn yields the processor, so a goroutine that is merely waiting to run (on
// a machine that starves the whole process) gets its chance; one that is still
// there after the period and 150 turns is not runnable.
func settle(g0 int, grace time.Duration) int {
	g := runtime.NumGoroutine()
	if g <= g0 {
		return g
	}
	start := time.Now()
	d := 20 * time.Microsecond
	for turns := 0; g > g0; turns++ {
		el := time.Since(start)
		if (el >= grace && turns >= 150) || el >= 20*grace {
			break
		}
		runtime.Gosched()
		time.Sleep(d)
		if d < 5*time.Millisecond {
			d *= 2
		}
		g = runtime.NumGoroutine()
	}
	return g
}

// errNoResult: a constructor returned neither a value nor an error - the
// property says "either succeeds or returns an error".
var errNoResult = errors.New("neither a result nor an error")

func classify(err error) string {
	if err == nil {
		return "ok"
	}
	if err == errNoResult {
		return "noresult"
	}
	var ae *pdf.AuthenticationError
	if errors.As(err, &ae) {
		return "auth"
	}
	if pdf.IsMalformed(err) {
		return "malformed"
	}
	if errors.Is(err, io.EOF) || errors.Is(err, io.ErrUnexpectedEOF) {
		return "readError"
	}
	return "error"
}

// libFunc extracts the innermost function of the library from a stack trace.
func libFunc(stack string) string {
	for _, line := range strings.Split(stack, "\n") {
		if strings.HasPrefix(line, "\t") || !strings.Contains(line, "seehuhn.de/go/") {
			continue
		}
		if strings.Contains(line, "verif/harness") {
			continue
		}
		if i := strings.LastIndex(line, "("); i > 0 {
			line = line[:i]
		}
		line = strings.TrimPrefix(strings.TrimSpace(line), "created by ")
		if j := strings.Index(line, " in goroutine"); j > 0 {
			line = line[:j]
		}
		return strings.TrimPrefix(line, "seehuhn.de/go/")
	}
	return "?"
}

// leakSignature names the functions that created the goroutines still alive.
func leakSignature() string {
	buf := make([]byte, 1<<20)
	buf = buf[:runtime.Stack(buf, true)]
	var sigs []string
	for _, g := range strings.Split(string(buf), "\n\n") {
		if strings.Contains(g, "c05.WorkerMain") && !strings.Contains(g, "created by") {
			continue // the worker itself
		}
		i := strings.Index(g, "created by ")
		if i < 0 {
			continue
		}
		line := g[i+len("created by "):]
		if j := strings.IndexAny(line, " \n"); j > 0 {
			line = line[:j]
		}
		if strings.Contains(line, "seehuhn.de/go/") || strings.Contains(line, "verif/harness") {
			state := ""
			if a := strings.Index(g, "["); a >= 0 {
				if b := strings.Index(g[a:], "]"); b > 0 {
					state = strings.SplitN(g[a+1:a+b], ",", 2)[0]
				}
			}
			sigs = append(sigs, strings.TrimPrefix(line, "seehuhn.de/go/")+"["+state+"]")
		}
	}
	sort.Strings(sigs)
	if len(sigs) > 3 {
		sigs = sigs[:3]
	}
	return strings.Join(sigs, ",")
}

// call runs f as one logged call.  gets, if not nil, is read afterwards.
func (k *wk) call(name, arg string, n int, gets *int, f func() (proj []string, err error)) (outcome string) {
	if k.skip[name] || k.skip[name+" "+arg] || !k.wanted(name) {
		return "skipped"
	}
	k.begin(name, arg)
	if gets != nil {
		*gets = 0
	}
	rec := k.measure(name, arg, f)
	rec.N = n
	if gets != nil {
		rec.Gets = *gets
	}
	k.recs++
	k.send(map[string]any{"r": rec})
	return rec.Outcome
}

// callEach logs n calls of the same kind as one record: every inner call is
// measured by itself and the record carries the worst CPU time and the worst
// allocation of a single call (the envelope is per call), the total wall time
// and the goroutine counts around the whole loop.
func (k *wk) callEach(name string, n int, gets *int, each func(i int)) {
	if k.skip[name] || !k.wanted(name) {
		return
	}
	k.begin(name, "")
	if gets != nil {
		*gets = 0
	}
	var worstCpu time.Duration
	var worstAlloc uint64
	rec := k.measure(name, "", func() ([]string, error) {
		for i := 0; i < n; i++ {
			a0 := k.allocNow()
			c0 := cpuNow()
			each(i)
			if d := cpuNow() - c0; d > worstCpu {
				worstCpu = d
			}
			if d := k.allocNow() - a0; d > worstAlloc {
				worstAlloc = d
			}
		}
		return nil, nil
	})
	if rec.Outcome == "ok" {
		rec.CpuUs = int(worstCpu / time.Microsecond)
		rec.AllocKB = int(worstAlloc / 1024)
	}
	rec.N = n
	if gets != nil {
		rec.Gets = *gets
	}
	k.recs++
	k.send(map[string]any{"r": rec})
}

// wanted reports whether a call is to be made in a run restricted to one call
// (the calls that open the file are always made: the others need their result).
func (k *wk) wanted(name string) bool {
	if k.pageOnly {
		switch name {
		case "open/report", "open/stop", "get", "resolve", "decode", "seqscan", "seqread", "objwalk", "findpages":
			return false
		}
		if strings.HasPrefix(name, "makereader/") || strings.HasPrefix(name, "seq/") {
			return false
		}
	}
	if k.only == "" || name == k.only {
		return true
	}
	seq := strings.HasPrefix(k.only, "seq") || strings.HasPrefix(k.only, "makereader")
	switch {
	case name == "seqscan", strings.HasPrefix(name, "makereader/"), name == "seq/get", name == "seq/pages":
		return seq
	case strings.HasPrefix(name, "open/"), name == "close", name == "get", name == "pages":
		return true
	case name == "page" || name == "pagefonts":
		return k.only == "process" || k.only == "pagefonts" || k.only == "font" || k.only == "fontprog" || k.only == "glyphnames"
	case name == "font":
		return k.only == "fontprog" || k.only == "glyphnames"
	case name == "names":
		return k.only == "nametree"
	}
	return false
}

// measure executes f and fills in the record.
func (k *wk) measure(name, arg string, f func() (proj []string, err error)) Rec {
	g0 := runtime.NumGoroutine()
	a0 := k.allocNow()
	c0 := cpuNow()
	t0 := time.Now()
	rec := Rec{Case: k.id, Call: name, Arg: arg, N: 1, Len: len(k.data), Objs: k.objs, Gets: -1, Prod: -1, G0: g0}
	func() {
		defer func() {
			if x := recover(); x != nil {
				rec.Outcome = "panic"
				st := string(debug.Stack())
				// skip the frames of recover/panic itself
				if i := strings.Index(st, "panic("); i >= 0 {
					st = st[i:]
				}
				rec.Detail = fmt.Sprintf("%s: %.160v", libFunc(st), x)
			}
		}()
		proj, err := f()
		rec.Outcome = classify(err)
		rec.Proj = proj
		if err != nil {
			rec.Detail = fmt.Sprintf("%.120s", err.Error())
		}
	}()
	rec.WallUs = int(time.Since(t0) / time.Microsecond)
	rec.CpuUs = int((cpuNow() - c0) / time.Microsecond)
	rec.AllocKB = int((k.allocNow() - a0) / 1024)
	rec.G1 = settle(g0, k.grace)
	if rec.G1 > rec.G0 {
		rec.Detail = "leak: " + leakSignature() + " | " + rec.Detail
	}
	return rec
}

// countingGetter counts the fetches a walker makes.
type countingGetter struct {
	*pdf.Reader
	n *int
}

func (g countingGetter) Get(ref pdf.Reference, canObjStm bool) (pdf.Native, error) {
	*g.n++
	return g.Reader.Get(ref, canObjStm)
}

var (
	objPat  = regexp.MustCompile(`([0-9]{1,7})[\x00\t\n\f\r ]+([0-9]{1,5})[\x00\t\n\f\r ]+obj`)
	sizePat = regexp.MustCompile(`/Size[\x00\t\n\f\r ]*([0-9]{1,7})`)
)

// candidateRefs lists the references worth fetching: every `N G obj` of the
// bytes plus the numbers below the /Size values seen (compressed objects have
// no header of their own).  Independent of go-pdf's parser.
func candidateRefs(data []byte) (refs []pdf.Reference, objs int) {
	seen := map[pdf.Reference]bool{}
	add := func(n, g int) {
		r := pdf.NewReference(uint32(n), uint16(g))
		if !seen[r] && len(refs) < 400 {
			seen[r] = true
			refs = append(refs, r)
		}
	}
	ms := objPat.FindAllSubmatch(data, 2000)
	objs = len(ms)
	for _, m := range ms {
		n, _ := strconv.Atoi(string(m[1]))
		g, _ := strconv.Atoi(string(m[2]))
		if g <= 65535 {
			add(n, g)
		}
	}
	maxSize := 0
	for _, m := range sizePat.FindAllSubmatch(data, 20) {
		if v, _ := strconv.Atoi(string(m[1])); v > maxSize {
			maxSize = v
		}
	}
	if maxSize > 300 {
		maxSize = 300
	}
	if maxSize > objs {
		objs = maxSize
	}
	for n := 0; n <= maxSize; n++ {
		add(n, 0)
	}
	sort.Slice(refs, func(i, j int) bool { return refs[i] < refs[j] })
	return refs, objs
}

const drainCap = 32 << 20

var modes = []struct {
	name string
	mode pdf.ReaderErrorHandling
}{{"recover", pdf.ErrorHandlingRecover}, {"report", pdf.ErrorHandlingReport}, {"stop", pdf.ErrorHandlingStop}}

// walkFile drives the whole public walk over data.
func (k *wk) walkFile(passwords []string) {
	data := k.data
	refs, objs := candidateRefs(data)
	k.objs = objs
	pw := ""
	if len(passwords) > 0 {
		pw = passwords[0]
	}
	var first *pdf.Reader
	for _, m := range modes {
		var r *pdf.Reader
		k.call("open/"+m.name, "", 1, nil, func() ([]string, error) {
			var err error
			r, err = pdf.NewReader(bytes.NewReader(data), int64(len(data)), &pdf.ReaderOptions{ErrorHandling: m.mode, Password: pw})
			if r == nil && err == nil {
				return nil, errNoResult
			}
			return nil, err
		})
		if r != nil {
			if first == nil {
				first = r
			} else {
				k.call("close", "", 1, nil, func() ([]string, error) { return nil, r.Close() })
			}
		}
	}
	if first != nil {
		k.deepWalk(first, refs, true)
		k.call("close", "", 1, nil, func() ([]string, error) { return nil, first.Close() })
	}

	var fi *pdf.FileInfo
	k.call("seqscan", "", 1, nil, func() ([]string, error) {
		var err error
		fi, err = pdf.SequentialScan(bytes.NewReader(data), int64(len(data)))
		return nil, err
	})
	if fi == nil {
		return
	}
	var fobjs []*pdf.FileObject
	for _, sec := range fi.Sections {
		for _, o := range sec.Objects {
			if len(fobjs) < 400 {
				fobjs = append(fobjs, o)
			}
		}
	}
	k.callEach("seqread", len(fobjs), nil, func(i int) { _, _ = fi.Read(fobjs[i]) })
	var firstSeq *pdf.Reader
	for _, m := range modes {
		var r *pdf.Reader
		k.call("makereader/"+m.name, "", 1, nil, func() ([]string, error) {
			var err error
			r, err = fi.MakeReader(&pdf.ReaderOptions{ErrorHandling: m.mode, Password: pw})
			if r == nil && err == nil {
				return nil, errNoResult
			}
			return nil, err
		})
		if r != nil && firstSeq == nil {
			firstSeq = r
		}
	}
	if firstSeq != nil {
		// the recovered reader sees the file through a different table: walk it too
		k.deepWalk(firstSeq, refs, first == nil)
		k.call("close", "", 1, nil, func() ([]string, error) { return nil, firstSeq.Close() })
	}
}

// deepWalk fetches every object, drains every stream and decodes what the
// catalog reaches.  full=false leaves out the per-page decoding.
func (k *wk) deepWalk(r *pdf.Reader, refs []pdf.Reference, full bool) {
	gets := 0
	g := countingGetter{r, &gets}
	pfx := ""
	if !full {
		pfx = "seq/"
	}

	var streams []*pdf.Stream
	var streamRefs []pdf.Reference
	var fontRefs []pdf.Reference
	seenFont := map[pdf.Reference]bool{}
	k.callEach(pfx+"get", len(refs), nil, func(i int) {
		ref := refs[i]
		{
			obj, _ := r.Get(ref, true)
			switch o := obj.(type) {
			case *pdf.Stream:
				if len(streams) < 100 {
					streams = append(streams, o)
					streamRefs = append(streamRefs, ref)
				}
			case pdf.Dict:
				if o["Type"] == pdf.Name("Font") && !seenFont[ref] && len(fontRefs) < 40 {
					seenFont[ref] = true
					fontRefs = append(fontRefs, ref)
				}
			}
		}
	})
	// the same through the public helper that follows reference chains
	k.callEach(pfx+"resolve", len(refs), &gets, func(i int) { _, _ = pdf.Resolve(g, refs[i]) })
	for i, stm := range streams {
		k.call(pfx+"decode", streamRefs[i].String(), 1, &gets, func() ([]string, error) {
			rc, err := pdf.DecodeStream(g, nil, stm)
			if err != nil {
				return nil, err
			}
			_, err = io.Copy(io.Discard, io.LimitReader(rc, drainCap))
			if e := rc.Close(); err == nil {
				err = e
			}
			return nil, err
		})
	}

	type pg struct {
		ref  pdf.Reference
		dict pdf.Dict
	}
	var pages []pg
	k.call(pfx+"pages", "", 1, &gets, func() ([]string, error) {
		it := pagetree.NewIterator(g)
		var proj []string
		for ref, d := range it.All() {
			if len(pages) < 3000 {
				pages = append(pages, pg{ref, d})
				proj = append(proj, strconv.Itoa(int(ref.Number())))
			} else {
				break
			}
		}
		if len(proj) > 16 {
			proj = proj[:16]
		}
		return proj, it.Err
	})
	k.call(pfx+"findpages", "", 1, &gets, func() ([]string, error) {
		_, err := pagetree.FindPages(g)
		return nil, err
	})
	if !full {
		return
	}

	x := pdf.NewExtractor(g)
	cur := pdf.CursorAt(x, nil)
	meta := r.GetMeta()

	maxPages := 24
	for i, p := range pages {
		if i >= maxPages {
			break
		}
		var dec *page.Page
		k.call("page", p.ref.String(), 1, &gets, func() ([]string, error) {
			var err error
			dec, err = pdf.Decode(cur, p.dict, page.Decode)
			return nil, err
		})
		if dec != nil {
			k.call("process", p.ref.String(), 1, &gets, func() ([]string, error) {
				rd := reader.New(x)
				nChars := 0
				rd.Character = func(c font.Code) error { nChars++; return nil }
				rd.TextEvent = func(reader.TextEvent, float64) {}
				rd.EveryOp = func(op string, args []pdf.Object) error { return nil }
				rd.XObject = func(obj graphics.XObject, ctm matrix.Matrix) error { return nil }
				rd.InlineImage = func(op content.Operator, ctm matrix.Matrix) error {
					// the image data is decoded as a consumer would do it
					_, _ = content.DecodeInlineImage(op, dec.Resources)
					return nil
				}
				rd.MarkedContent = func(reader.MarkedContentEvent, *graphics.MarkedContent) error { return nil }
				rd.ActualText = func(reader.ActualTextEvent, string) error { return nil }
				return nil, rd.ProcessPage(dec)
			})
		}
		// fonts named by the page's resources
		k.call("pagefonts", p.ref.String(), 1, &gets, func() ([]string, error) {
			res, err := cur.Dict(p.dict["Resources"])
			if err != nil {
				return nil, err
			}
			fd, err := cur.Dict(res["Font"])
			if err != nil {
				return nil, err
			}
			for _, v := range fd {
				if ref, ok := v.(pdf.Reference); ok && !seenFont[ref] && len(fontRefs) < 40 {
					seenFont[ref] = true
					fontRefs = append(fontRefs, ref)
				}
			}
			return nil, nil
		})
	}

	for _, ref := range fontRefs {
		var inst font.Instance
		k.call("font", ref.String(), 1, &gets, func() ([]string, error) {
			var err error
			inst, err = pdf.Decode(cur, ref, extract.Font)
			return nil, err
		})
		if inst == nil {
			continue
		}
		k.call("fontprog", ref.String(), 1, &gets, func() ([]string, error) {
			var ff *glyphdata.Stream
			switch fi := inst.FontInfo().(type) {
			case *dict.FontInfoSimple:
				ff = fi.FontFile
			case *dict.FontInfoCID:
				ff = fi.FontFile
			case *dict.FontInfoGlyfEmbedded:
				ff = fi.FontFile
			case *dict.FontInfoGlyfExternal:
			}
			if ff == nil {
				return nil, nil
			}
			var err error
			switch ff.Type {
			case glyphdata.Type1:
				_, err = type1glyphs.FromStream(ff)
			case glyphdata.CFFSimple, glyphdata.OpenTypeCFFSimple, glyphdata.CFF, glyphdata.OpenTypeCFF:
				_, err = cffglyphs.FromStream(ff)
			case glyphdata.TrueType, glyphdata.OpenTypeGlyf:
				_, err = sfntglyphs.FromStream(ff)
			}
			return nil, err
		})
		k.call("glyphnames", ref.String(), 1, &gets, func() ([]string, error) {
			_ = textextract.GlyphNameMapping(inst)
			_ = textextract.SpaceWidth(inst)
			return nil, nil
		})
	}

	k.call("objwalk", "", 1, &gets, func() ([]string, error) {
		wk := walker.New(g)
		n := 0
		for range wk.PreOrder() {
			if n++; n > 400000 {
				break
			}
		}
		return nil, wk.Err
	})
	if meta != nil && meta.Catalog != nil {
		cat := meta.Catalog
		if cat.AcroForm != nil {
			k.call("acroform", "", 1, &gets, func() ([]string, error) {
				_, err := pdf.Decode(cur, cat.AcroForm, annotdecode.Form)
				return nil, err
			})
		}
		if cat.PageLabels != nil {
			k.call("pagelabels", "", 1, &gets, func() ([]string, error) {
				_, err := pagelabel.Extract(g, cat.PageLabels)
				return nil, err
			})
		}
		if cat.OpenAction != nil {
			k.call("openaction", "", 1, &gets, func() ([]string, error) {
				_, err := pdf.Decode(cur, cat.OpenAction, action.Decode)
				if err != nil {
					_, err = pdf.Decode(cur, cat.OpenAction, destination.Decode)
				}
				return nil, err
			})
		}
		if cat.Outlines != 0 {
			k.call("outline", "", 1, &gets, func() ([]string, error) {
				o, err := pdf.Decode(cur, cat.Outlines, outline.Decode)
				return outlineProj(o), err
			})
		}
		var roots []pdf.Object
		if cat.Dests != nil {
			roots = append(roots, cat.Dests)
		}
		k.call("names", "", 1, &gets, func() ([]string, error) {
			nd, err := cur.Dict(cat.Names)
			if err != nil {
				return nil, err
			}
			keys := make([]string, 0, len(nd))
			for key := range nd {
				keys = append(keys, string(key))
			}
			sort.Strings(keys)
			for _, key := range keys {
				roots = append(roots, nd[pdf.Name(key)])
			}
			return nil, nil
		})
		for i, root := range roots {
			if i >= 12 {
				break
			}
			k.call("nametree", strconv.Itoa(i), 1, &gets, func() ([]string, error) {
				return nameTreeWalk(g, root)
			})
		}
		if cat.PageLabels != nil {
			k.call("numtree", "", 1, &gets, func() ([]string, error) {
				t, err := numtree.ExtractFromFile(g, cat.PageLabels)
				if err != nil || t == nil {
					return nil, err
				}
				n := 0
				for range t.All() {
					if n++; n > 5000 {
						break
					}
				}
				_, _ = t.Lookup(0)
				_, _ = numtree.Size(g, cat.PageLabels)
				_, _ = numtree.ExtractInMemory(g, cat.PageLabels)
				return nil, nil
			})
		}
	}
}

func outlineProj(o *outline.Outline) []string {
	if o == nil {
		return nil
	}
	var proj []string
	var rec func(items []*outline.Item, depth int)
	rec = func(items []*outline.Item, depth int) {
		for _, it := range items {
			if len(proj) >= 64 || depth > 300 {
				return
			}
			proj = append(proj, it.Title)
			rec(it.Children, depth+1)
		}
	}
	rec(o.Items, 0)
	return proj
}

func nameTreeWalk(g pdf.Getter, root pdf.Object) ([]string, error) {
	t, err := nametree.ExtractFromFile(g, root)
	if err != nil || t == nil {
		return nil, err
	}
	var proj []string
	n := 0
	for key := range t.All() {
		if n++; n > 5000 {
			break
		}
		if len(proj) < 64 {
			proj = append(proj, string(key))
		}
	}
	_, _ = t.Lookup("n1")
	_, _ = t.Lookup("zzz")
	_, _ = nametree.Size(g, root)
	_, _ = nametree.ExtractInMemory(g, root)
	return proj, nil
}

// WorkerMain is the entry point of the child process.
func WorkerMain() {
	// The stack cap.  The screening cap of 16 MiB makes a recursion whose depth
	// grows with the input die quickly instead of eating Go's default 1 GB; it
	// is NOT what the property promises: go-pdf bounds recursion by 256
	// references times 256 levels of direct nesting, which may need some
	// 64 MiB.  An overflow under the screening cap is therefore re-judged
	// under 256 MiB with the input scaled up (stream.go, confirmStack).
	stackMB := 16
	if v, err := strconv.Atoi(os.Getenv("C05_STACK_MB")); err == nil && v > 0 {
		stackMB = v
	}
	debug.SetMaxStack(stackMB << 20)
	// An endless loop that also allocates must not take the machine down: the
	// address space is capped, the runtime then dies with "out of memory"
	// (a fatal outcome, like the stack overflow).
	lim := uint64(6 << 30)
	_ = syscall.Setrlimit(syscall.RLIMIT_AS, &syscall.Rlimit{Cur: lim, Max: lim})
	in := bufio.NewReaderSize(os.Stdin, 1<<20)
	dec := json.NewDecoder(in)
	k := &wk{out: bufio.NewWriterSize(os.Stdout, 1<<16)}
	k.sample = []metrics.Sample{{Name: "/gc/heap/allocs:bytes"}}
	for {
		var req Req
		if err := dec.Decode(&req); err != nil {
			return
		}
		k.id = req.ID
		k.recs = 0
		k.skip = map[string]bool{}
		for _, s := range req.Skip {
			k.skip[s] = true
		}
		k.only = req.Only
		k.pageOnly = req.PageOnly
		k.grace = time.Duration(req.GraceMs) * time.Millisecond
		if k.grace == 0 {
			k.grace = time.Second
		}
		done := map[string]any{"done": req.ID}
		switch {
		case req.Calib != nil:
			k.data = []byte("calibration")
			k.runCalib(req.Calib)
		case req.Pipe != nil:
			k.runPipe(req.Pipe)
		default:
			var err error
			k.data, err = req.input()
			if err != nil {
				done["err"] = err.Error()
				break
			}
			if req.Wiring != nil {
				k.probe(req.Wiring, req.Variant)
			}
			if !req.Probe {
				k.walkFile(req.passwords())
			}
			if req.Echo {
				done["data"] = k.data
			}
		}
		done["recs"] = k.recs
		k.send(done)
		k.data = nil
	}
}

// input produces the bytes of the case.
func (r *Req) input() ([]byte, error) {
	switch {
	case r.Data != nil || r.Raw:
		return r.Data, nil
	case r.Wiring != nil:
		d, ok := Materialise(r.Wiring, r.Variant)
		if !ok {
			return nil, fmt.Errorf("variant %d does not apply", r.Variant)
		}
		return d, nil
	case r.Family != nil:
		return r.Family.build()
	}
	return nil, errors.New("empty request")
}

func (r *Req) passwords() []string {
	if r.Pass != "" {
		return []string{r.Pass}
	}
	return nil
}

// runCalib plants harness-made defects (self-test of the watchdog and the envelope).
func (k *wk) runCalib(c *CalibSpec) {
	k.call("calib/"+c.Kind, "", 1, nil, func() ([]string, error) {
		switch c.Kind {
		case "panic":
			var m map[string]int
			m["x"] = 1
		case "spin":
			for {
				runtime.Gosched()
			}
		case "block":
			select {}
		case "sleep":
			time.Sleep(time.Hour)
		case "leak":
			ch := make(chan int)
			go func() { <-ch }()
		case "alloc":
			var keep [][]byte
			for i := 0; i < 600; i++ {
				keep = append(keep, make([]byte, 1<<20))
			}
			_ = keep
		case "overflow":
			var f func(int) int
			f = func(i int) int { var pad [256]byte; pad[i%256] = 1; return f(i+1) + int(pad[0]) }
			f(0)
		case "exit":
			os.Exit(3)
		}
		return nil, nil
	})
}
