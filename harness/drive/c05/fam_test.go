//go:build verif

package c05

import (
	"testing"
	"time"
)

func TestFamilyBuildTimes(t *testing.T) {
	for _, name := range FamilyNames {
		for _, n := range []int{1000, 20000} {
			t0 := time.Now()
			f := &Family{Name: name, Size: n, Cyc: true, XS: true}
			d, err := f.build()
			el := time.Since(t0)
			t1 := time.Now()
			_, objs := candidateRefs(d)
			t.Logf("%-18s n=%-6d len=%-9d build=%-10v refs=%v objs=%d err=%v", name, n, len(d), el, time.Since(t1), objs, err)
		}
	}
}
