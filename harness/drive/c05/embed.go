package c05

// A valid embedded Type 1 font and a valid JPEG image, cut or corrupted at
// every offset class of the embedded program (header, section boundaries,
// inside the encrypted / entropy coded part, the last bytes).

import (
	"bytes"
	"fmt"
	"sort"
	"strings"

	"seehuhn.de/go/pdf/verifx"
)

// type1File is a one-page file that shows text in an embedded Type 1 font
// whose program is prog (Length1/2/3 as given).
func type1File(prog []byte, l1, l2, l3 int, filter string) []byte {
	f := newFileSpec()
	l := layout{helperStm: 10, xrefObj: 11}
	f.obj(1, "<< /Type /Catalog /Pages 2 0 R >>", false)
	f.obj(2, "<< /Type /Pages /Kids [3 0 R] /Count 1 >>", false)
	f.obj(3, "<< /Type /Page /Parent 2 0 R /MediaBox [0 0 200 200] /Resources << /Font << /F1 6 0 R >> >> /Contents 4 0 R >>", false)
	f.stm(4, "", "", []byte("BT /F1 12 Tf 20 100 Td (Hello AB) Tj ET"))
	widths := strings.TrimSpace(strings.Repeat("500 ", 95))
	f.obj(6, fmt.Sprintf("<< /Type /Font /Subtype /Type1 /BaseFont /Test /FirstChar 32 /LastChar 126 /Widths [%s] /FontDescriptor 7 0 R >>", widths), false)
	f.obj(7, "<< /Type /FontDescriptor /FontName /Test /Flags 4 /FontBBox [0 -200 1000 800] /ItalicAngle 0 /Ascent 800 /Descent -200 /CapHeight 700 /StemV 80 /FontFile 8 0 R >>", false)
	data := prog
	dict := fmt.Sprintf("/Length1 %d /Length2 %d /Length3 %d", l1, l2, l3)
	if filter == "hex" {
		data = hexN(prog, 1)
		dict += " /Filter /ASCIIHexDecode"
	}
	f.stm(8, dict, "", data)
	return f.render(l, 1, false, nil, nil)
}

func type1Program() (prog []byte, l1, l2 int) {
	var buf bytes.Buffer
	a, b, err := verifx.Type1().WritePDF(&buf)
	if err != nil {
		panic(err)
	}
	return buf.Bytes(), a, b
}

func embedSeeds() []Seed {
	prog, l1, l2 := type1Program()
	return []Seed{
		{Name: "embed/type1", Data: type1File(prog, l1, l2, 0, ""), Class: "font"},
		{Name: "embed/type1-hex", Data: type1File(prog, l1, l2, 0, "hex"), Class: "font"},
	}
}

type embedCase struct {
	name, class, slot string
	data              []byte
}

func damage(b []byte, off int, kind string) []byte {
	if off < 0 {
		off = 0
	}
	if off > len(b) {
		off = len(b)
	}
	out := append([]byte{}, b...)
	switch kind {
	case "cut":
		return out[:off]
	case "flip":
		if off < len(out) {
			out[off] ^= 0xff
		}
	case "zero":
		for i := off; i < len(out) && i < off+16; i++ {
			out[i] = 0
		}
	case "garbage":
		return append(append(append([]byte{}, b[:off]...), []byte(") >> ] } \xff\x00 16#zz <~")...), b[off:]...)
	case "repeat":
		if off < len(out) {
			return append(append(append([]byte{}, b[:off]...), bytes.Repeat(b[off:min(off+32, len(b))], 64)...), b[off:]...)
		}
	}
	return out
}

var damageKinds = []string{"cut", "flip", "zero", "garbage", "repeat"}

func embedDamage() []embedCase {
	var out []embedCase
	prog, l1, l2 := type1Program()
	n := len(prog)
	offs := map[string]int{"first": 0, "second": 1, "header-end": 15, "clear-mid": l1 / 2, "before-eexec": l1 - 1, "eexec": l1, "eexec+1": l1 + 1,
		"after-seed": l1 + 4, "cipher-mid": l1 + l2/2, "cipher-end": l1 + l2 - 1, "last": n - 1, "end": n}
	for _, cls := range sortedKeys(offs) {
		off := offs[cls]
		for _, kind := range damageKinds {
			d := damage(prog, off, kind)
			out = append(out, embedCase{fmt.Sprintf("type1/%s/%s", cls, kind), "type1", cls + "/" + kind, type1File(d, l1, l2, 0, "")})
		}
	}
	// the lengths disagree with the program
	for i, ls := range [][3]int{{0, 0, 0}, {l1 + 7, l2, 0}, {l1, l2 * 2, 0}, {n, 0, 0}, {1 << 30, 1 << 30, 1 << 30}, {-1, -1, -1}, {l1 - 5, l2 + 5, 532}} {
		out = append(out, embedCase{fmt.Sprintf("type1/lengths/%d", i), "type1", "lengths", type1File(prog, ls[0], ls[1], ls[2], "")})
	}
	jp := testJPEG(64, 64, false)
	joffs := map[string]int{"soi": 0, "soi+1": 1, "first-marker": 2, "last": len(jp) - 1, "eoi": len(jp) - 2, "entropy-25": 0, "entropy-50": 0, "entropy-75": 0}
	// marker segments
	sos := 0
	for i := 2; i+3 < len(jp); {
		if jp[i] != 0xff {
			break
		}
		m := jp[i+1]
		seg := int(jp[i+2])<<8 | int(jp[i+3])
		joffs[fmt.Sprintf("marker-%02x", m)] = i
		joffs[fmt.Sprintf("marker-%02x-len", m)] = i + 2
		joffs[fmt.Sprintf("marker-%02x-body", m)] = i + 4
		if m == 0xda {
			sos = i + 2 + seg
			break
		}
		i += 2 + seg
	}
	if sos > 0 {
		joffs["entropy-25"] = sos + (len(jp)-sos)/4
		joffs["entropy-50"] = sos + (len(jp)-sos)/2
		joffs["entropy-75"] = sos + 3*(len(jp)-sos)/4
	}
	for _, cls := range sortedKeys(joffs) {
		off := joffs[cls]
		for _, kind := range damageKinds {
			d := damage(jp, off, kind)
			out = append(out, embedCase{fmt.Sprintf("dct/%s/%s", cls, kind), "dct", cls + "/" + kind, imageFile("/DCTDecode", d, 64, 64, "DeviceRGB")})
		}
	}
	return out
}

func sortedKeys(m map[string]int) []string {
	keys := make([]string, 0, len(m))
	for k := range m {
		keys = append(keys, k)
	}
	sort.Strings(keys)
	return keys
}
