package c05

// Judging the call records with TLC (Trace_Envelope), confirmation of every
// rejected record in a fresh worker, violation keys, evidence.

import (
	"encoding/json"
	"fmt"
	"os"
	"path/filepath"
	"regexp"
	"sort"
	"strings"
	"sync"
	"time"

	"verif/harness/core"
)

// Envelope constants.  Calibrated on the unchanged tree (see the evidence
// fields "calibration", "top_cpu", "top_alloc"): at least twenty times the
// worst observation of the thorough tier - except for the one outlier named
// below, which the CPU floor exceeds 4.5 times - with absolute floors that a
// heavily loaded machine does not reach (CPU time, not wall time, is judged;
// the wall clock only drives the watchdog).
//
//	worst observations (quick and thorough tiers, seeds 1..5, load average > 100)
//	  CPU    3.3 s for one call: DecodeStream of a 1 kB JBIG2 text region from the
//	         repository's fuzz corpus and its mutants (2.0 s on a quieter machine;
//	         the work is bounded by the 8 MiB stream budget, not by the input);
//	         everything else stays below 0.5 s; 5 ms per KiB for inputs > 8 KiB
//	  heap   70 MiB for one call (SequentialScan of a 4 MB file with 20000
//	         objects: 17 KiB per KiB), 7.7 MiB for inputs of a few kB
const (
	cpuFloorUs    = 15_000_000 // 15 s of CPU for any call (4.5 x the JBIG2 outlier, 30 x the rest; below the watchdog)
	cpuPerKiBUs   = 100_000    // + 100 ms per KiB of input (20 x)
	allocFloorKiB = 160 << 10  // 160 MiB for any call (20 x limits.StreamBudgetBase, 20 x the worst small input)
	allocPerKiB   = 4096       // + 4 MiB per KiB of input (4 x limits.StreamBudgetMultiplier; 240 x the worst large input)
	maxLenKiB     = 65536
)

func envelopeCfg() string {
	return fmt.Sprintf("SPECIFICATION Spec\nCONSTANTS CpuFloorUs = %d\n  CpuPerKiBUs = %d\n  AllocFloorKiB = %d\n  AllocPerKiB = %d\n  MaxLenKiB = %d\nCHECK_DEADLOCK FALSE\n",
		cpuFloorUs, cpuPerKiBUs, allocFloorKiB, allocPerKiB, maxLenKiB)
}

// slimRec is what TLC sees of a record (integers and short strings only).
type slimRec struct {
	Call    string `json:"call"`
	Outcome string `json:"outcome"`
	WallUs  int    `json:"wall_us"`
	CpuUs   int    `json:"cpu_us"`
	Len     int    `json:"len"`
	AllocKB int    `json:"alloc_kb"`
	G0      int    `json:"g0"`
	G1      int    `json:"g1"`
	Prod    int    `json:"prod"`
}

func clamp(v int) int {
	if v > 2_000_000_000 {
		return 2_000_000_000
	}
	if v < -1 {
		return -1
	}
	return v
}

// judge lets TLC evaluate Envelope!CallOK on every record.  It returns the
// indices of the rejected records and the clause each of them breaks.
func judge(ctx *core.Ctx, recs []Rec) (bad []int, why []string, err error) {
	if len(recs) == 0 {
		return nil, nil, nil
	}
	// one TLC process judges about 30000 records per second; few big batches
	batch := max(20000, (len(recs)+9)/10)
	if batch > 150000 {
		batch = 150000
	}
	type out struct {
		Bad []int    `json:"bad"`
		Why []string `json:"why"`
	}
	type job struct{ lo, hi int }
	var jobs []job
	for lo := 0; lo < len(recs); lo += batch {
		jobs = append(jobs, job{lo, min(lo+batch, len(recs))})
	}
	var mu sync.Mutex
	var first error
	whyAt := map[int]string{}
	sem := make(chan struct{}, 10)
	var wg sync.WaitGroup
	for _, j := range jobs {
		wg.Add(1)
		sem <- struct{}{}
		go func(j job) {
			defer wg.Done()
			defer func() { <-sem }()
			slim := make([]slimRec, 0, j.hi-j.lo)
			for _, r := range recs[j.lo:j.hi] {
				slim = append(slim, slimOf(&r))
			}
			data, e := core.NDJSON(slim)
			if e != nil {
				mu.Lock()
				first = core.Infra("encode records: %v", e)
				mu.Unlock()
				return
			}
			res, e := ctx.TLC(core.TLCOpts{Dir: "robust", Module: "Trace_Envelope", CfgText: envelopeCfg(), Mode: "trace", Workers: 1, Quiet: true,
				Files: map[string][]byte{"cases.ndjson": data}, Env: map[string]string{"CASES": "cases.ndjson", "OUT": "out.ndjson"}, XmxMB: 3000})
			if e == nil && !res.OK() {
				e = core.Infra("Trace_Envelope failed unexpectedly: %s", tailStr(res.Output, 1500))
			}
			var got []out
			if e == nil {
				raw, e2 := os.ReadFile(filepath.Join(res.RunDir, "out.ndjson"))
				if e2 != nil {
					e = core.Infra("Trace_Envelope wrote no verdict: %v", e2)
				} else if got, e2 = core.ReadNDJSON[out](raw); e2 != nil || len(got) != 1 || len(got[0].Bad) != len(got[0].Why) {
					e = core.Infra("Trace_Envelope: malformed verdict")
				} else if res.Distinct < int64(j.hi-j.lo) {
					e = core.Infra("Trace_Envelope consumed %d of %d records", res.Distinct, j.hi-j.lo)
				}
			}
			if res != nil {
				os.RemoveAll(res.RunDir)
			}
			mu.Lock()
			defer mu.Unlock()
			if e != nil {
				if first == nil {
					first = e
				}
				return
			}
			for i, b := range got[0].Bad {
				whyAt[j.lo+b-1] = got[0].Why[i]
			}
		}(j)
	}
	wg.Wait()
	if first != nil {
		return nil, nil, first
	}
	for i := range whyAt {
		bad = append(bad, i)
	}
	sort.Ints(bad)
	for _, i := range bad {
		why = append(why, whyAt[i])
	}
	ctx.Ev.Traces(len(recs), len(recs))
	return bad, why, nil
}

var (
	digits  = regexp.MustCompile(`[0-9]+`)
	hexAddr = regexp.MustCompile(`0x[0-9a-f]+`)
)

func norm(s string) string {
	s = strings.Map(func(r rune) rune {
		if r == ' ' || r == '\t' || r == '\n' {
			return '_'
		}
		return r
	}, s)
	if len(s) > 120 {
		s = s[:120]
	}
	return s
}

// normMsg removes what varies between runs from a message.
func normMsg(s string) string {
	s = hexAddr.ReplaceAllString(s, "X")
	return digits.ReplaceAllString(s, "N")
}

// violationKey is stable and specific.  For a crash, a hang or a panic it is
// the failure's signature in the library (not the harness call that happened
// to reach it); for a leak the function that started the goroutine; for the
// quantitative clauses the call and the class of the input.
func violationKey(r *Rec, clause, name string) string {
	detail := r.Detail
	switch clause {
	case "outcome":
		sig := detail
		switch r.Outcome {
		case "hang", "fatal":
			// hang: the public entry point that did not come back (where the
			// signal happened to land does not matter); fatal: the smallest
			// function among the innermost frames (independent of where the
			// stack ended)
			parts := strings.Split(detail, " | ")
			sigText := parts[len(parts)-1]
			field := func(name string) string {
				i := strings.Index(sigText, name+"=")
				if i < 0 {
					return "?"
				}
				v := sigText[i+len(name)+1:]
				if j := strings.Index(v, " "); j > 0 {
					v = v[:j]
				}
				return v
			}
			if r.Outcome == "hang" {
				// where the signal happened to land does not matter (and with
				// iterators inlined into the caller not even the entry point is
				// stable): the harness call that did not come back names the
				// public entry point
				sig = "no-answer/" + callClass(r.Call)
			} else {
				what := normMsg(strings.TrimPrefix(parts[0], "fatal error: "))
				cyc := strings.Trim(field("cycle"), "{}")
				sig = what + "/" + strings.SplitN(cyc, ",", 2)[0]
			}
		case "panic":
			// "pkg.func: message"
			parts := strings.SplitN(detail, ": ", 2)
			sig = parts[0]
			if len(parts) > 1 {
				msg := normMsg(parts[1])
				if len(msg) > 48 {
					msg = msg[:48]
				}
				sig += "/" + msg
			}
		}
		return norm(r.Outcome + "/" + sig)
	case "goroutines":
		sig := "?"
		if i := strings.Index(detail, "leak: "); i >= 0 {
			sig = strings.SplitN(detail[i+len("leak: "):], " |", 2)[0]
			sig = strings.SplitN(sig, ",", 2)[0]
			if j := strings.Index(sig, "["); j > 0 {
				sig = sig[:j]
			}
		}
		return norm("leak/" + sig)
	}
	cls := name
	if i := strings.Index(cls, "/"); i > 0 {
		cls = cls[:i]
	}
	return norm(clause + "/" + callClass(r.Call) + "/" + cls)
}

func describe(r *Rec) string {
	return fmt.Sprintf("call %s %s on %d input bytes: outcome=%s cpu=%dus wall=%dus alloc=%dKiB goroutines %d->%d prod=%d %s",
		r.Call, r.Arg, r.Len, r.Outcome, r.CpuUs, r.WallUs, r.AllocKB, r.G0, r.G1, r.Prod, r.Detail)
}

// conclude judges the records, confirms what TLC rejects, compares the
// probes with the model and writes the evidence.
func conclude(ctx *core.Ctx, pl *plan, pool *Pool, results map[string]*Result, recs []Rec) error {
	bad, why, err := judge(ctx, recs)
	if err != nil {
		return err
	}
	ctx.Logf("tlc robust/Trace_Envelope judged %d call records of the real code, %d rejected", len(recs), len(bad))

	// ---- evidence ----
	calls := 0
	var worstCpu, worstAlloc, worstCpuPerK, worstAllocPerK float64
	byOutcome := map[string]int{}
	byCall := map[string]int{}
	for i := range recs {
		r := &recs[i]
		calls += max(r.N, 1)
		byOutcome[r.Outcome]++
		cc := r.Call
		if j := strings.Index(cc, "/"); j > 0 && !strings.HasPrefix(cc, "probe") && !strings.HasPrefix(cc, "pipe") {
			cc = cc[:j]
		}
		byCall[cc]++
		if r.Outcome == "hang" || r.Outcome == "fatal" {
			continue
		}
		k := float64(r.Len/1024 + 1)
		worstCpu = max(worstCpu, float64(r.CpuUs))
		worstAlloc = max(worstAlloc, float64(r.AllocKB))
		if r.Len > 8192 {
			worstCpuPerK = max(worstCpuPerK, float64(r.CpuUs)/k)
			worstAllocPerK = max(worstAllocPerK, float64(r.AllocKB)/k)
		}
		info := pl.info[r.Case]
		if info == nil {
			continue
		}
		switch {
		case strings.HasPrefix(info.class, "mut:") || strings.HasPrefix(info.class, "embed:"):
			for _, m := range info.slots {
				ctx.Ev.Distinct("explore|" + cc + "|" + r.Outcome + "|" + m.String())
			}
		case strings.HasPrefix(info.class, "seed:"):
			ctx.Ev.Distinct("seed|" + info.name)
		}
	}
	ctx.Ev.Eval(calls)
	// the most expensive calls (what the calibration rests on)
	top := func(less func(a, b *Rec) bool) []map[string]any {
		idx := make([]int, 0, len(recs))
		for i := range recs {
			if recs[i].Outcome != "hang" && recs[i].Outcome != "fatal" {
				idx = append(idx, i)
			}
		}
		sort.Slice(idx, func(a, b int) bool { return less(&recs[idx[a]], &recs[idx[b]]) })
		var out []map[string]any
		for _, i := range idx[:min(5, len(idx))] {
			r := &recs[i]
			name := ""
			if info := pl.info[r.Case]; info != nil {
				name = info.class + " " + info.name
			}
			out = append(out, map[string]any{"case": name, "call": r.Call + " " + r.Arg, "len": r.Len, "cpu_us": r.CpuUs, "alloc_kib": r.AllocKB, "outcome": r.Outcome, "detail": r.Detail})
		}
		return out
	}
	ctx.Ev.Set("top_cpu", top(func(a, b *Rec) bool { return a.CpuUs > b.CpuUs }))
	ctx.Ev.Set("top_alloc", top(func(a, b *Rec) bool { return a.AllocKB > b.AllocKB }))
	if p := os.Getenv("C05_DUMP"); p != "" {
		if data, err := core.NDJSON(recs); err == nil {
			_ = os.WriteFile(p, data, 0o644)
		}
		names := map[string]string{}
		for id, info := range pl.info {
			names[id] = info.class + " " + info.name
		}
		if data, err := json.Marshal(names); err == nil {
			_ = os.WriteFile(p+".names", data, 0o644)
		}
	}
	ctx.Ev.Set("calibration", map[string]any{
		"worst_cpu_us": worstCpu, "worst_alloc_kib": worstAlloc, "worst_cpu_us_per_kib(len>8k)": worstCpuPerK, "worst_alloc_kib_per_kib(len>8k)": worstAllocPerK,
		"envelope": map[string]int{"cpu_floor_us": cpuFloorUs, "cpu_per_kib_us": cpuPerKiBUs, "alloc_floor_kib": allocFloorKiB, "alloc_per_kib": allocPerKiB},
		"watchdog": pool.Watchdog.String(),
	})
	ctx.Ev.Set("records_by_outcome", byOutcome)
	ctx.Ev.Set("records_by_call", byCall)
	ctx.Ev.Set("cases", len(results))

	// ---- P-A: model answer vs. real answer of the guarded call ----
	replayed, agree := 0, 0
	var mismatches []string
	for id, res := range results {
		info := pl.info[id]
		if info.req.Wiring == nil {
			if info.req.Pipe != nil || info.req.Family != nil {
				ctx.Ev.Distinct(info.class + "|" + info.name)
				if info.req.Pipe != nil {
					replayed++
				}
			}
			continue
		}
		w := info.req.Wiring
		replayed++
		for i := range res.Recs {
			r := &res.Recs[i]
			if !strings.HasPrefix(r.Call, "probe/") {
				continue
			}
			if r.Gets != 0 || w.Work > 0 {
				ctx.Ev.Distinct("wiring|" + info.name)
			}
			if r.Outcome == "hang" || r.Outcome == "fatal" || r.Outcome == "panic" {
				continue // the verdict comes from the envelope
			}
			want := w.expectedProj()
			if fmt.Sprint(want) == fmt.Sprint(r.Proj) || len(want) == 0 && len(r.Proj) == 0 {
				agree++
			} else if len(mismatches) < 12 {
				mismatches = append(mismatches, fmt.Sprintf("%s: model %v (work %d), code %v (gets %d, %s)", info.name, want, w.Work, r.Proj, r.Gets, r.Detail))
			} else {
				mismatches = append(mismatches, "")
			}
			if r.Gets > w.Bound+1 && len(mismatches) < 12 {
				mismatches = append(mismatches, fmt.Sprintf("%s: %d fetches on the real code, the model bounds them by %d", info.name, r.Gets, w.Bound))
			}
		}
	}
	ctx.Ev.AddReplayed(replayed)
	ctx.Ev.Set("probe_answers_equal_to_model", agree)
	// one sample of each binding
	ids := make([]string, 0, len(results))
	for id := range results {
		ids = append(ids, id)
	}
	sort.Strings(ids)
	sampled := map[string]bool{}
	for _, id := range ids {
		info, res := pl.info[id], results[id]
		switch {
		case info.req.Wiring != nil && !sampled["w"] && info.req.Wiring.Work >= 3 && len(res.Recs) > 0 && len(res.Recs[0].Proj) > 0:
			sampled["w"] = true
			w := info.req.Wiring
			ctx.Ev.Sample(map[string]any{"kind": "model wiring materialised and walked", "walker": w.Walker, "kind_of_object": w.Kind, "slot_a": w.A, "slot_b": w.B,
				"rendering": info.req.Variant, "model_answer": w.Out, "model_fetches": w.Work, "code_answer": res.Recs[0].Proj, "code_fetches": res.Recs[0].Gets, "calls_logged": len(res.Recs)})
		case info.req.Pipe != nil && !sampled["p"] && info.req.Pipe.Stuck && len(res.Recs) > 0:
			sampled["p"] = true
			ctx.Ev.Sample(map[string]any{"kind": "Gen_Pipe row realised", "row": info.req.Pipe, "record": slimOf(&res.Recs[0]), "detail": res.Recs[0].Detail})
		}
	}

	// ---- confirm and report ----
	type suspect struct {
		idx    int
		clause string
	}
	byKey := map[string][]suspect{}
	var keys []string
	for j, i := range bad {
		r := &recs[i]
		name := ""
		if info := pl.info[r.Case]; info != nil {
			name = info.name
		}
		k := violationKey(r, why[j], name)
		if _, ok := byKey[k]; !ok {
			keys = append(keys, k)
		}
		byKey[k] = append(byKey[k], suspect{i, why[j]})
	}
	sort.Strings(keys)
	var unreproduced []string
	confirmPool, err := newPool()
	if err != nil {
		return err
	}
	confirmPool.confirming = true
	confirmPool.Watchdog = 45 * time.Second
	for _, k := range keys {
		ss := byKey[k]
		confirmed := false
		tried := 0
		for _, s := range ss {
			if tried >= 3 {
				break
			}
			tried++
			r := &recs[s.idx]
			info := pl.info[r.Case]
			rc, err := makeReplay(confirmPool, info, results[r.Case], r, s.clause)
			if err != nil {
				return err
			}
			ok, rec2, err := confirm(ctx, confirmPool, rc)
			if err != nil {
				return err
			}
			if ok {
				confirmed = true
				what := fmt.Sprintf("%s [%s; %d records of this class] %s", info.class, info.name, len(ss), describe(rec2))
				ctx.Violation(k, what, rc)
				if len(ss) > 0 {
					ctx.Ev.Sample(map[string]any{"kind": "rejected record (reproduced)", "key": k, "clause": s.clause, "case": info.name, "record": slimOf(rec2), "detail": rec2.Detail})
				}
				break
			}
		}
		if !confirmed {
			r := &recs[ss[0].idx]
			unreproduced = append(unreproduced, fmt.Sprintf("%s: %s", k, describe(r)))
		}
	}
	// samples of ordinary records
	n := 0
	for i := range recs {
		r := &recs[i]
		if info := pl.info[r.Case]; info != nil && (i%(len(recs)/3+1) == 0) && n < 3 {
			n++
			ctx.Ev.Sample(map[string]any{"kind": "call record accepted by Trace_Envelope", "case": info.name, "class": info.class, "record": slimOf(r), "proj": r.Proj})
		}
	}

	if len(unreproduced) > 0 {
		sort.Strings(unreproduced)
		msg := fmt.Sprintf("%d rejected record classes did not reproduce in a fresh worker (not counted as violations):\n  %s", len(unreproduced), strings.Join(unreproduced, "\n  "))
		if ctx.Violations() == 0 {
			return core.Infra("%s", msg)
		}
		ctx.Logf("note: %s", msg)
		ctx.Ev.Set("unreproduced_signals", len(unreproduced))
	}
	nm := len(mismatches)
	if nm > 0 {
		var shown []string
		for _, m := range mismatches {
			if m != "" {
				shown = append(shown, m)
			}
		}
		msg := fmt.Sprintf("Walk.tla and the code disagree on %d guarded calls (the model is not a description of this tree):\n  %s", nm, strings.Join(shown, "\n  "))
		if ctx.Violations() == 0 && ctx.Ev.KnownFindingHits == 0 {
			return core.Infra("%s", msg)
		}
		ctx.Logf("note: %s", msg)
		ctx.Ev.Set("model_code_disagreements", nm)
	}
	return nil
}

func slimOf(r *Rec) slimRec {
	call := r.Call
	if i := strings.Index(call, "/"); i > 0 {
		call = call[:i]
	}
	return slimRec{call, r.Outcome, clamp(r.WallUs), clamp(r.CpuUs), clamp(r.Len), clamp(r.AllocKB), r.G0, r.G1, r.Prod}
}

// makeReplay builds the self-contained replay case of a record.
func makeReplay(pool *Pool, info *caseInfo, res *Result, r *Rec, clause string) (*replayCase, error) {
	rc := &replayCase{Kind: "file", Name: info.name, Call: r.Call, Arg: r.Arg, Clause: clause, Pass: info.req.Pass}
	switch {
	case info.req.Pipe != nil:
		rc.Kind, rc.Pipe = "pipe", info.req.Pipe
	case info.req.Calib != nil:
		rc.Kind, rc.Calib = "calib", info.req.Calib.Kind
	case info.req.Data != nil:
		rc.Data = info.req.Data
	default:
		data, err := info.req.input()
		if err != nil {
			return nil, core.Infra("cannot rebuild case %s: %v", info.name, err)
		}
		rc.Data = data
		rc.Wiring, rc.Var = info.req.Wiring, info.req.Variant
	}
	return rc, nil
}

// confirm re-executes a case alone in a fresh worker (long watchdog, long
// grace period) and reports whether the same call is rejected again for the
// same clause.
func confirm(ctx *core.Ctx, pool *Pool, rc *replayCase) (bool, *Rec, error) {
	req := rc.req()
	w, res := pool.runCase(nil, req)
	w.kill()
	if res.Infra != nil {
		return false, nil, res.Infra
	}
	bad, why, err := judge(ctx, res.Recs)
	if err != nil {
		return false, nil, err
	}
	for j, i := range bad {
		r := &res.Recs[i]
		if r.Call == rc.Call && r.Arg == rc.Arg && why[j] == rc.Clause {
			return true, r, nil
		}
	}
	return false, nil, nil
}

// callClass is the public entry point a harness call stands for: "seq/pages"
// (the same walk on the reader made by MakeReader) and "probe/pages" (the
// guarded call of a wiring) are both "pages".
func callClass(call string) string {
	call = strings.TrimPrefix(call, "seq/")
	if strings.HasPrefix(call, "probe/") {
		switch w := strings.TrimPrefix(call, "probe/"); w {
		case "length":
			return "get"
		case "xref":
			return "open"
		case "filters":
			return "decode"
		case "nametree", "outline", "pages", "resolve":
			return w
		}
	}
	if i := strings.Index(call, "/"); i > 0 && (strings.HasPrefix(call, "open/") || strings.HasPrefix(call, "makereader/")) {
		return call[:i]
	}
	return call
}
