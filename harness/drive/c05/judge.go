package c05

// Judging the call records with TLC (Trace_Envelope), confirmation of every
// rejected record in a fresh worker, violation keys, evidence.

import (
	"fmt"
	"os"
	"path/filepath"
	"regexp"
	"sort"
	"strings"
	"sync"

	"verif/harness/core"
)

// Envelope constants.  Calibrated on the unchanged tree (see the evidence
// fields "calibration", "top_cpu", "top_alloc"): at least twenty times the
// worst observation of the thorough tier - except for the one outlier named
// below, which the CPU floor exceeds 4.5 times - with absolute floors that a
// heavily loaded machine does not reach (CPU time, not wall time, is judged;
// the wall clock only drives the watchdog).
//
//	worst observations (quick and thorough tiers, seeds 1..5, load average > 100)
//	  CPU    3.3 s for one call: DecodeStream of a 1 kB JBIG2 text region from the
//	         repository's fuzz corpus and its mutants (2.0 s on a quieter machine;
//	         the work is bounded by the 8 MiB stream budget, not by the input);
//	         everything else stays below 0.5 s; 5 ms per KiB for inputs > 8 KiB
//	  heap   70 MiB for one call (SequentialScan of a 4 MB file with 20000
//	         objects: 17 KiB per KiB), 7.7 MiB for inputs of a few kB
const (
	cpuFloorUs    = 15_000_000 // 15 s of CPU for any call (4.5 x the JBIG2 outlier, 30 x the rest; below the watchdog)
	cpuPerKiBUs   = 100_000    // + 100 ms per KiB of input (20 x)
	allocFloorKiB = 160 << 10  // 160 MiB for any call (20 x limits.StreamBudgetBase, 20 x the worst small input)
	openFloorKiB  = 16 << 10   // 16 MiB for NewReader / MakeReader (27 x the worst observation of 0.6 MiB; limits.MaxXRefEntries allows 8192 entries before the input counts)
	allocPerKiB   = 4096       // + 4 MiB per KiB of input (4 x limits.StreamBudgetMultiplier; 240 x the worst large input)
	maxLenKiB     = 16384      // beyond 16 MiB of input the bounds stop growing (32 bit arithmetic in TLC)
)

func envelopeCfg() string {
	return fmt.Sprintf("SPECIFICATION Spec\nCONSTANTS CpuFloorUs = %d\n  CpuPerKiBUs = %d\n  AllocFloorKiB = %d\n  OpenAllocFloorKiB = %d\n  AllocPerKiB = %d\n  MaxLenKiB = %d\nCHECK_DEADLOCK FALSE\n",
		cpuFloorUs, cpuPerKiBUs, allocFloorKiB, openFloorKiB, allocPerKiB, maxLenKiB)
}

// slimRec is what TLC sees of a record (integers and short strings only).
type slimRec struct {
	Call    string `json:"call"`
	Outcome string `json:"outcome"`
	WallUs  int    `json:"wall_us"`
	CpuUs   int    `json:"cpu_us"`
	Len     int    `json:"len"`
	AllocKB int    `json:"alloc_kb"`
	G0      int    `json:"g0"`
	G1      int    `json:"g1"`
	Prod    int    `json:"prod"`
}

func clamp(v int) int {
	if v > 2_000_000_000 {
		return 2_000_000_000
	}
	if v < -1 {
		return -1
	}
	return v
}

// judge lets TLC evaluate Envelope!CallOK on every record.  It returns the
// indices of the rejected records and the clause each of them breaks.
func judge(ctx *core.Ctx, recs []Rec) (bad []int, why []string, err error) {
	if len(recs) == 0 {
		return nil, nil, nil
	}
	// one TLC process judges about 30000 records per second: one process per
	// call (the collector runs several calls side by side)
	batch := 150000
	type out struct {
		Bad []int    `json:"bad"`
		Why []string `json:"why"`
	}
	type job struct{ lo, hi int }
	var jobs []job
	for lo := 0; lo < len(recs); lo += batch {
		jobs = append(jobs, job{lo, min(lo+batch, len(recs))})
	}
	var mu sync.Mutex
	var first error
	whyAt := map[int]string{}
	sem := make(chan struct{}, 10)
	var wg sync.WaitGroup
	for _, j := range jobs {
		wg.Add(1)
		sem <- struct{}{}
		go func(j job) {
			defer wg.Done()
			defer func() { <-sem }()
			slim := make([]slimRec, 0, j.hi-j.lo)
			for _, r := range recs[j.lo:j.hi] {
				slim = append(slim, slimOf(&r))
			}
			data, e := core.NDJSON(slim)
			if e != nil {
				mu.Lock()
				first = core.Infra("encode records: %v", e)
				mu.Unlock()
				return
			}
			res, e := ctx.TLC(core.TLCOpts{Dir: "robust", Module: "Trace_Envelope", CfgText: envelopeCfg(), Mode: "trace", Workers: 1, Quiet: true,
				Files: map[string][]byte{"cases.ndjson": data}, Env: map[string]string{"CASES": "cases.ndjson", "OUT": "out.ndjson"}, XmxMB: 3000})
			if e == nil && !res.OK() {
				e = core.Infra("Trace_Envelope failed unexpectedly: %s", tailStr(res.Output, 1500))
			}
			var got []out
			if e == nil {
				raw, e2 := os.ReadFile(filepath.Join(res.RunDir, "out.ndjson"))
				if e2 != nil {
					e = core.Infra("Trace_Envelope wrote no verdict: %v", e2)
				} else if got, e2 = core.ReadNDJSON[out](raw); e2 != nil || len(got) != 1 || len(got[0].Bad) != len(got[0].Why) {
					e = core.Infra("Trace_Envelope: malformed verdict")
				} else if res.Distinct < int64(j.hi-j.lo) {
					e = core.Infra("Trace_Envelope consumed %d of %d records", res.Distinct, j.hi-j.lo)
				}
			}
			if res != nil {
				os.RemoveAll(res.RunDir)
			}
			mu.Lock()
			defer mu.Unlock()
			if e != nil {
				if first == nil {
					first = e
				}
				return
			}
			for i, b := range got[0].Bad {
				whyAt[j.lo+b-1] = got[0].Why[i]
			}
		}(j)
	}
	wg.Wait()
	if first != nil {
		return nil, nil, first
	}
	for i := range whyAt {
		bad = append(bad, i)
	}
	sort.Ints(bad)
	for _, i := range bad {
		why = append(why, whyAt[i])
	}
	ctx.Ev.Traces(len(recs), len(recs))
	return bad, why, nil
}

var (
	digits  = regexp.MustCompile(`[0-9]+`)
	hexAddr = regexp.MustCompile(`0x[0-9a-f]+`)
)

func norm(s string) string {
	s = strings.Map(func(r rune) rune {
		if r == ' ' || r == '\t' || r == '\n' {
			return '_'
		}
		return r
	}, s)
	if len(s) > 120 {
		s = s[:120]
	}
	return s
}

// normMsg removes what varies between runs from a message.
func normMsg(s string) string {
	s = hexAddr.ReplaceAllString(s, "X")
	return digits.ReplaceAllString(s, "N")
}

// violationKey is stable and specific.  For a crash, a hang or a panic it is
// the failure's signature in the library (not the harness call that happened
// to reach it); for a leak the function that started the goroutine; for the
// quantitative clauses the call and the class of the input.
func violationKey(r *Rec, clause, name string) string {
	detail := r.Detail
	switch clause {
	case "outcome":
		sig := detail
		switch r.Outcome {
		case "hang", "fatal":
			// hang: the public entry point that did not come back (where the
			// signal happened to land does not matter); fatal: the smallest
			// function among the innermost frames (independent of where the
			// stack ended)
			parts := strings.Split(detail, " | ")
			sigText := parts[len(parts)-1]
			field := func(name string) string {
				i := strings.Index(sigText, name+"=")
				if i < 0 {
					return "?"
				}
				v := sigText[i+len(name)+1:]
				if j := strings.Index(v, " "); j > 0 {
					v = v[:j]
				}
				return v
			}
			if r.Outcome == "hang" {
				// where the signal happened to land does not matter (and with
				// iterators inlined into the caller not even the entry point is
				// stable): the harness call that did not come back names the
				// public entry point
				sig = "no-answer/" + callClass(r.Call)
			} else {
				what := normMsg(strings.TrimPrefix(parts[0], "fatal error: "))
				cyc := strings.Trim(field("cycle"), "{}")
				sig = what + "/" + strings.SplitN(cyc, ",", 2)[0]
			}
		case "noresult":
			sig = callClass(r.Call)
		case "panic":
			// "pkg.func: message"
			parts := strings.SplitN(detail, ": ", 2)
			sig = parts[0]
			if len(parts) > 1 {
				msg := normMsg(parts[1])
				if len(msg) > 48 {
					msg = msg[:48]
				}
				sig += "/" + msg
			}
		}
		return norm(r.Outcome + "/" + sig)
	case "goroutines":
		sig := "?"
		if i := strings.Index(detail, "leak: "); i >= 0 {
			sig = strings.SplitN(detail[i+len("leak: "):], " |", 2)[0]
			sig = strings.SplitN(sig, ",", 2)[0]
			if j := strings.Index(sig, "["); j > 0 {
				sig = sig[:j]
			}
		}
		return norm("leak/" + sig)
	}
	cls := name
	if i := strings.Index(cls, "/"); i > 0 {
		cls = cls[:i]
	}
	return norm(clause + "/" + callClass(r.Call) + "/" + cls)
}

func describe(r *Rec) string {
	return fmt.Sprintf("call %s %s on %d input bytes: outcome=%s cpu=%dus wall=%dus alloc=%dKiB goroutines %d->%d prod=%d %s",
		r.Call, r.Arg, r.Len, r.Outcome, r.CpuUs, r.WallUs, r.AllocKB, r.G0, r.G1, r.Prod, r.Detail)
}

func slimOf(r *Rec) slimRec {
	call := r.Call
	if i := strings.Index(call, "/"); i > 0 {
		call = call[:i]
	}
	return slimRec{call, r.Outcome, clamp(r.WallUs), clamp(r.CpuUs), clamp(r.Len), clamp(r.AllocKB), r.G0, r.G1, r.Prod}
}

// makeReplay builds the self-contained replay case of a record.
func makeReplay(req *Req, r *Rec, clause string) (*replayCase, error) {
	info := req.info
	rc := &replayCase{Kind: "file", Name: info.name, Call: r.Call, Arg: r.Arg, Clause: clause, Pass: req.Pass}
	switch {
	case req.Pipe != nil:
		rc.Kind, rc.Pipe = "pipe", req.Pipe
	case req.Calib != nil:
		rc.Kind, rc.Calib = "calib", req.Calib.Kind
	case req.Data != nil || req.Raw:
		rc.Data = req.Data
	default:
		data, err := req.input()
		if err != nil {
			return nil, core.Infra("cannot rebuild case %s: %v", info.name, err)
		}
		rc.Data = data
		rc.Wiring, rc.Var = req.Wiring, req.Variant
	}
	return rc, nil
}

// confirm re-executes a case alone in a fresh worker (long watchdog, long
// grace period) and reports whether the same call is rejected again for the
// same clause.
func confirm(ctx *core.Ctx, pool *Pool, rc *replayCase) (bool, *Rec, error) {
	req := rc.req()
	req.Only = rc.Call // the failing call (and what it needs) is enough
	w, res := pool.runCase(nil, req)
	w.kill()
	if res.Infra != nil {
		return false, nil, res.Infra
	}
	bad, why, err := judge(ctx, res.Recs)
	if err != nil {
		return false, nil, err
	}
	for j, i := range bad {
		r := &res.Recs[i]
		if r.Call == rc.Call && r.Arg == rc.Arg && why[j] == rc.Clause {
			return true, r, nil
		}
	}
	return false, nil, nil
}

// callClass is the public entry point a harness call stands for: "seq/pages"
// (the same walk on the reader made by MakeReader) and "probe/pages" (the
// guarded call of a wiring) are both "pages".
func callClass(call string) string {
	call = strings.TrimPrefix(call, "seq/")
	if strings.HasPrefix(call, "probe/") {
		switch w := strings.TrimPrefix(call, "probe/"); w {
		case "length":
			return "get"
		case "xref":
			return "open"
		case "filters":
			return "decode"
		default:
			return w
		}
	}
	if i := strings.Index(call, "/"); i > 0 && (strings.HasPrefix(call, "open/") || strings.HasPrefix(call, "makereader/")) {
		return call[:i]
	}
	return call
}
