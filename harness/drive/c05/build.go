package c05

// A small assembler of PDF files that are allowed to be wrong: objects are
// placed as given, cross-reference sections say what they are told to say,
// and /Prev, /XRefStm, /Length, object-stream membership may point anywhere.
// It is the materialisation map from wirings of spec/robust/Walk.tla to
// bytes.  Nothing of go-pdf is used.

import (
	"bytes"
	"compress/zlib"
	"fmt"
	"regexp"
	"sort"
	"strconv"
	"strings"
)

// xent is one cross-reference entry.
type xent struct {
	num  int
	typ  int // 0 free, 1 in use (off), 2 compressed (stm, idx)
	off  int64
	gen  int
	stm  int
	idx  int
	self bool // offset of the section's own stream object (filled in late)
}

type asm struct {
	buf  bytes.Buffer
	offs map[int]int64 // object number -> offset of its last definition
}

func newAsm(version string) *asm {
	a := &asm{offs: map[int]int64{}}
	fmt.Fprintf(&a.buf, "%%PDF-%s\n%%\xe2\xe3\xcf\xd3\n", version)
	return a
}

func (a *asm) pos() int64 { return int64(a.buf.Len()) }

// obj writes `num 0 obj body endobj`.
func (a *asm) obj(num int, body string) {
	a.offs[num] = a.pos()
	fmt.Fprintf(&a.buf, "%d 0 obj\n%s\nendobj\n", num, body)
}

// stream writes a stream object; dict must not contain /Length, length is the
// text of the /Length value ("" = the true length).
func (a *asm) stream(num int, dict string, length string, data []byte) {
	a.offs[num] = a.pos()
	if length == "" {
		length = fmt.Sprint(len(data))
	}
	fmt.Fprintf(&a.buf, "%d 0 obj\n<< %s /Length %s >>\nstream\n", num, dict, length)
	a.buf.Write(data)
	a.buf.WriteString("\nendstream\nendobj\n")
}

// raw writes arbitrary bytes and returns their offset.
func (a *asm) raw(s string) int64 {
	p := a.pos()
	a.buf.WriteString(s)
	return p
}

// offPlaceholder is a ten digit integer that is patched once offsets are known.
func offPlaceholder(tag int) string { return fmt.Sprintf("9%08d9", tag) }

var placeholderPat = regexp.MustCompile(`9[0-9]{8}9`)

// patchOffsets replaces every placeholder by the ten digit offset (one pass).
func patchOffsets(data []byte, vals map[int]int64) []byte {
	return placeholderPat.ReplaceAllFunc(data, func(m []byte) []byte {
		tag, err := strconv.Atoi(string(m[1:9]))
		if err != nil {
			return m
		}
		v, ok := vals[tag]
		if !ok {
			return m
		}
		return []byte(fmt.Sprintf("%010d", v))
	})
}

// table writes a classic cross-reference table with one subsection per run
// and the trailer dictionary; it returns the offset of the keyword xref.
func (a *asm) table(ents []xent, trailer string) int64 {
	sort.Slice(ents, func(i, j int) bool { return ents[i].num < ents[j].num })
	p := a.pos()
	a.buf.WriteString("xref\n")
	for i := 0; i < len(ents); {
		j := i
		for j+1 < len(ents) && ents[j+1].num == ents[j].num+1 {
			j++
		}
		fmt.Fprintf(&a.buf, "%d %d\n", ents[i].num, j-i+1)
		for _, e := range ents[i : j+1] {
			if e.typ == 1 {
				fmt.Fprintf(&a.buf, "%010d %05d n \n", e.off, e.gen)
			} else {
				fmt.Fprintf(&a.buf, "%010d %05d f \n", 0, 65535)
			}
		}
		i = j + 1
	}
	fmt.Fprintf(&a.buf, "trailer\n<< %s >>\n", trailer)
	return p
}

// xrefStream writes a cross-reference stream object num with the given
// entries (an entry for num itself is added) and extra dictionary text.
func (a *asm) xrefStream(num int, ents []xent, extra string, flate bool) int64 {
	p := a.pos()
	ents = append(append([]xent{}, ents...), xent{num: num, typ: 1, off: p})
	sort.Slice(ents, func(i, j int) bool { return ents[i].num < ents[j].num })
	var body bytes.Buffer
	var index []string
	size := 0
	for i := 0; i < len(ents); {
		j := i
		for j+1 < len(ents) && ents[j+1].num == ents[j].num+1 {
			j++
		}
		index = append(index, fmt.Sprintf("%d %d", ents[i].num, j-i+1))
		for _, e := range ents[i : j+1] {
			var f2, f3 int64
			switch e.typ {
			case 0:
				f2, f3 = 0, 65535
			case 1:
				f2, f3 = e.off, int64(e.gen)
			case 2:
				f2, f3 = int64(e.stm), int64(e.idx)
			}
			body.WriteByte(byte(e.typ))
			body.Write([]byte{byte(f2 >> 24), byte(f2 >> 16), byte(f2 >> 8), byte(f2)})
			body.Write([]byte{byte(f3 >> 8), byte(f3)})
			if e.num+1 > size {
				size = e.num + 1
			}
		}
		i = j + 1
	}
	data := body.Bytes()
	filter := ""
	if flate {
		data = deflate(data)
		filter = "/Filter /FlateDecode "
	}
	a.stream(num, fmt.Sprintf("/Type /XRef /Size %d /W [1 4 2] /Index [%s] %s%s", size, strings.Join(index, " "), filter, extra), "", data)
	return p
}

func (a *asm) finish(startxref int64) []byte {
	fmt.Fprintf(&a.buf, "startxref\n%d\n%%%%EOF\n", startxref)
	return a.buf.Bytes()
}

// objStmData renders the body of an object stream holding the given members
// (number -> text) and returns it with /N and /First.
func objStmData(nums []int, bodies map[int]string) (data []byte, n, first int) {
	var head, body bytes.Buffer
	for _, m := range nums {
		fmt.Fprintf(&head, "%d %d ", m, body.Len())
		body.WriteString(bodies[m])
		body.WriteString("\n")
	}
	return append(head.Bytes(), body.Bytes()...), len(nums), head.Len()
}

func ref(n int) string { return fmt.Sprintf("%d 0 R", n) }

func hexN(data []byte, times int) []byte {
	for i := 0; i < times; i++ {
		out := make([]byte, 0, 2*len(data)+1)
		for _, c := range data {
			out = append(out, "0123456789ABCDEF"[c>>4], "0123456789abcdef"[c&15])
		}
		data = append(out, '>')
	}
	return data
}

var zpool *zlib.Writer

// deflate compresses with a reused compressor (a fresh one costs half a
// millisecond, and a million files are made).  Not safe for concurrent use:
// files are built by the worker's only goroutine or by the driver's main one.
func deflate(data []byte) []byte {
	var z bytes.Buffer
	if zpool == nil {
		zpool = zlib.NewWriter(&z)
	} else {
		zpool.Reset(&z)
	}
	zpool.Write(data)
	zpool.Close()
	return z.Bytes()
}
