// Package c05 binds spec/robust/{Walk,Pipe,Envelope}.tla to go-pdf's reading
// side: property C05, "opening and walking arbitrary bytes never crashes,
// hangs, leaks or explodes".
//
//	design   MC_Walk: every wiring of N <= 3 objects x <= 3 slots, one model per
//	         guard mechanism (resolve / indirect Length + object streams / Prev
//	         chain / page tree / outline / name tree / filter chain), terminates
//	         with a bounded number of fetches; MC_Pipe: the producer goroutine
//	         ends once the consumer has returned and closed.  Negative controls
//	         (a guard removed; the consumer not closing = finding F2) fail.
//	P-A      every terminal state of the exhaustive Walk run (Gen_Walk) is
//	         materialised as real files (up to four renderings) and the real
//	         code is driven through the guarded call and through the whole
//	         public walk; every row of Gen_Pipe is realised on
//	         type1glyphs.FromStream and on pdf.DecodeStream of a DCT image
//	P-B      every call is logged by a worker process and judged by TLC with
//	         Trace_Envelope (outcome class, CPU time and heap affine in the
//	         input length, goroutines back to the count before the call)
//	explore  beyond the model: long chains / cycles / ladders of the same
//	         slots, seeded structure-aware mutation of valid files and the
//	         repository's fuzz corpora, under the same envelope
//
// Verdicts come from records of the real code rejected by Trace_Envelope and
// reproduced in a fresh worker.  The real code runs in child processes
// because the failures in question (endless loop, stack exhaustion) cannot be
// survived in-process.
package c05

import (
	"encoding/json"
	"fmt"
	"os"
	"regexp"
	"runtime"
	"sort"
	"strconv"
	"strings"
	"sync"
	"time"

	"verif/harness/core"
)

var Driver = core.Driver{ID: "C05", Level: "exploration", Run: run, Replay: replay, SelfTest: selfTest}

var walkers = []string{"resolve", "length", "xref", "pages", "outline", "nametree", "filters", "decode", "fields", "parents", "objwalk", "navnode"}

// holdConfigs are the design models that must hold: Termination (liveness)
// and the safety invariants for every walker at N = 2 (one run: the walker is
// picked in the initial state), for the small walkers at N = 3, the two
// depth-cap models, the Pipe models.  The safety properties at N = 3 of all
// walkers are checked by the thorough generator run (Gen_Walk is the same
// exhaustive run with the invariants NoOverflow and WorkBounded).
func holdConfigs(ctx *core.Ctx) (pipe []string, walk []string) {
	pipe = []string{"MC_Pipe_close.cfg", "MC_Pipe_close_srcerr.cfg", "MC_Pipe_fwd.cfg"}
	walk = []string{"MC_Walk_q.cfg", "MC_Walk_small3.cfg", "MC_Walk_depth_outline.cfg", "MC_Walk_depth_nametree.cfg", "MC_Walk_filters_globals_capped.cfg", "MC_Walk_objwalk_capped.cfg"}
	return
}

func parallelism() int {
	p := runtime.NumCPU() - 2
	if p > 12 {
		p = 12
	}
	if p < 2 {
		p = 2
	}
	return p
}

func runModels(ctx *core.Ctx) error {
	pipe, walk := holdConfigs(ctx)
	type job struct {
		mod, cfg string
		workers  int
	}
	var jobs []job
	for _, c := range pipe {
		jobs = append(jobs, job{"MC_Pipe", c, 1})
	}
	for _, c := range walk {
		jobs = append(jobs, job{"MC_Walk", c, 3})
	}
	var mu sync.Mutex
	var first error
	sem := make(chan struct{}, 6)
	var wg sync.WaitGroup
	for _, j := range jobs {
		wg.Add(1)
		sem <- struct{}{}
		go func(j job) {
			defer wg.Done()
			defer func() { <-sem }()
			_, err := ctx.MustHold(core.TLCOpts{Dir: "robust", Module: j.mod, Cfg: j.cfg, Mode: "exhaustive", Workers: j.workers,
				Timeout: ctx.Dur(4, 12), Constants: j.cfg})
			mu.Lock()
			if err != nil && first == nil {
				first = err
			}
			mu.Unlock()
		}(j)
	}
	wg.Wait()
	return first
}

var caseLine = regexp.MustCompile(`(?m)^"<<\\"C05CASE\\".*$`)

func toInts(v any) ([]int, bool) {
	s, ok := v.([]any)
	if !ok {
		return nil, false
	}
	out := make([]int, len(s))
	for i, x := range s {
		n, ok := x.(int)
		if !ok {
			return nil, false
		}
		out[i] = n
	}
	return out, true
}

func toStrs(v any) ([]string, bool) {
	s, ok := v.([]any)
	if !ok {
		return nil, false
	}
	out := make([]string, len(s))
	for i, x := range s {
		switch t := x.(type) {
		case string:
			out[i] = t
		case int:
			out[i] = strconv.Itoa(t)
		default:
			return nil, false
		}
	}
	return out, true
}

// genWirings runs one Gen_Walk configuration and parses the cases.
func genWirings(ctx *core.Ctx, cfg string, n int) ([]*Wiring, error) {
	res, err := ctx.TLC(core.TLCOpts{Dir: "robust", Module: "Gen_Walk", Cfg: cfg,
		Mode: "exhaustive", Workers: ctx.Pick(4, 10), Timeout: ctx.Dur(4, 14), XmxMB: 10000, Constants: cfg + " (generator = exhaustive run)"})
	if err != nil {
		return nil, err
	}
	if !res.OK() {
		return nil, core.Infra("Gen_Walk %s does not hold: %q\n%s", cfg, res.Invariant, tailStr(res.Output, 1500))
	}
	lines := caseLine.FindAllString(res.Output, -1)
	out := make([]*Wiring, len(lines))
	var perr error
	var pmu sync.Mutex
	var pwg sync.WaitGroup
	const nparse = 8
	for p := 0; p < nparse; p++ {
		pwg.Add(1)
		go func(p int) {
			defer pwg.Done()
			for i := p; i < len(lines); i += nparse {
				w, err := parseCase(lines[i], n)
				if err != nil {
					pmu.Lock()
					perr = err
					pmu.Unlock()
					return
				}
				out[i] = w
			}
		}(p)
	}
	pwg.Wait()
	if perr != nil {
		return nil, perr
	}
	if len(out) == 0 {
		return nil, core.Infra("Gen_Walk %s produced no cases", cfg)
	}
	return out, nil
}

func parseCase(line string, n int) (*Wiring, error) {
	txt, err := strconv.Unquote(strings.TrimSpace(line))
	if err != nil {
		return nil, core.Infra("Gen_Walk: cannot unquote %q: %v", line, err)
	}
	v, err := core.ParseTLA(txt)
	if err != nil {
		return nil, core.Infra("Gen_Walk: cannot parse %q: %v", txt, err)
	}
	t, ok := v.([]any)
	if !ok || len(t) != 11 {
		return nil, core.Infra("Gen_Walk: unexpected case %q", txt)
	}
	w := &Wiring{}
	w.Walker, _ = t[1].(string)
	w.N, _ = t[2].(int)
	var ok1, ok2, ok3, ok4 bool
	w.Kind, ok1 = toStrs(t[3])
	w.A, ok2 = toInts(t[4])
	w.B, ok3 = toInts(t[5])
	w.Start, _ = t[6].(int)
	w.Phase, _ = t[7].(string)
	w.Out, ok4 = toStrs(t[8])
	w.Work, _ = t[9].(int)
	w.Bound, _ = t[10].(int)
	if !(ok1 && ok2 && ok3 && ok4) || w.Walker == "" || w.N != n || len(w.Kind) != n {
		return nil, core.Infra("Gen_Walk: malformed case %q", txt)
	}
	return w, nil
}

func genPipeRows(ctx *core.Ctx) ([]PipeCase, error) {
	rows, _, err := core.GenCases[PipeCase](ctx, core.TLCOpts{Dir: "robust", Module: "Gen_Pipe", Cfg: "Gen_Pipe.cfg", Mode: "evaluate", Timeout: 2 * time.Minute})
	return rows, err
}

// caseInfo is what the parent remembers about a request.
type caseInfo struct {
	class string // wiring:<walker> family:<name> pipe:<site> seed:<class> mut:<class>
	slots []Mutation
	name  string
}

// plan holds the cases that are kept in memory (pipe rows, exploration); the
// wiring cases are produced one by one while the pool runs.
type plan struct {
	reqs []*Req
	n    int
}

func (p *plan) id() string {
	p.n++
	return fmt.Sprintf("c%07d", p.n)
}

func (p *plan) add(r *Req, class, name string, slots []Mutation) {
	r.ID = p.id()
	r.info = &caseInfo{class: class, slots: slots, name: name}
	p.reqs = append(p.reqs, r)
}

// wiringCases yields the requests of the model's wirings.
//
// The guarded call runs on every rendering of every wiring (for the "decode"
// walker: on one rendering, rotating, of every structure that can play it).
// The whole public walk runs, quick: on one rendering (picked by index and
// seed) of every N = 2 wiring; thorough: on every rendering of the N = 2
// wirings and on one rendering of every second N = 3 wiring (alternating with
// VERIF_SEED: two runs cover all).  The N = 3 wirings of the two largest
// walkers are taken in shards of 1/8 that rotate with VERIF_SEED, so that
// eight runs with consecutive seeds cover everything.
func wiringCases(ctx *core.Ctx, pl *plan, wirings []*Wiring, count *[3]int) func() *Req {
	shard := int(ctx.Seed % 8)
	seed := int(ctx.Seed)
	i, v, inst := 0, 0, 0
	var queue []*Req
	emit := func(w *Wiring, v int, full bool) {
		r := &Req{ID: pl.id(), Wiring: w, Variant: v, Probe: !full}
		r.info = &caseInfo{class: "wiring:" + w.Walker, name: w.key() + fmt.Sprintf("/v%d", v)}
		queue = append(queue, r)
		count[1]++
		if full {
			count[2]++
		}
	}
	_ = v
	_ = inst
	return func() *Req {
		for len(queue) == 0 {
			if i >= len(wirings) {
				return nil
			}
			w := wirings[i]
			idx := i
			i++
			if w.N == 3 && (w.Walker == "length" || w.Walker == "decode") && idx%8 != shard {
				continue
			}
			count[0]++
			pickV := (idx + seed) % 4
			// N = 3: the whole public walk on every second wiring, alternating with the seed
			fullOK := w.N <= 2 || ctx.Thorough() && (idx+seed)%2 == 0
			switch w.Walker {
			case "decode":
				// one file per structure; renderings rotate
				for j, di := range DecodeInsts {
					if !di.applies(w) {
						continue
					}
					wi := *w
					wi.Inst, wi.k = di.Name, ""
					vv := (idx + j + seed) % 4
					emit(&wi, vv, fullOK && (w.N <= 2 || (idx/8+j+seed)%4 == 0))
					if w.N <= 2 && ctx.Thorough() {
						emit(&wi, (vv+1)%4, false)
					}
				}
			default:
				insts := []string{""}
				if w.Walker == "nametree" {
					insts = append(insts, "num")
				}
				for _, in := range insts {
					wi := w
					if in != "" {
						c := *w
						c.Inst, c.k = in, ""
						wi = &c
					}
					for v := 0; v < 4; v++ {
						if w.Walker == "length" && v&1 == 0 && hasCompressed(w) {
							continue // same file as v|1
						}
						pv := pickV
						if w.Walker == "length" && hasCompressed(w) {
							pv |= 1
						}
						full := fullOK && (v == pv || w.N <= 2 && ctx.Thorough())
						emit(wi, v, full)
					}
				}
			}
		}
		r := queue[0]
		queue = queue[1:]
		return r
	}
}

func run(ctx *core.Ctx) error {
	ctx.Ev.Rule = "evaluations = calls of the public reading API executed on the real code in worker processes (one logged record may aggregate the Get calls of a file); " +
		"distinct_nontrivial = distinct (model wiring, structure, rendering) triples whose file made the guarded call do at least one fetch, plus distinct generated structures, " +
		"pipe scenario rows per site, and for the exploration distinct (call, outcome class, mutated slot) triples"
	ctx.Ev.Assume("TLC; Go's runtime accounting (runtime/metrics heap allocs, getrusage CPU time, runtime.NumGoroutine); the envelope constants are calibrated, not derived")
	ctx.Ev.Assume("beyond the enumerated wirings (N <= 3, <= 3 slots per object) and the generated chains/ladders, totality over arbitrary bytes is explored by seeded mutation, not decided")
	ctx.Ev.Assume("worker processes run under a 16 MiB Go stack cap (screening) and a 6 GiB address space; a stack overflow is a violation only if it happens again under 128 MiB with the generated structure made 8 times longer (a recursion that grows with the input, or an endless one); an overflow of a bounded recursion (go-pdf allows 256 references x 256 direct levels) is printed as NOTE extension=bounded-recursion")
	ctx.Ev.Assume("package walker is outside the entry points C05 names: its deviations are printed as NOTE extension=walker and counted in extension_findings, never as violations")

	if err := runModels(ctx); err != nil {
		return err
	}

	pl := &plan{}

	// ---- P-A: wirings of the model ----
	type gen struct {
		cfg string
		n   int
	}
	gens := []gen{{"Gen_Walk_2.cfg", 2}}
	if ctx.Thorough() {
		gens = append(gens, gen{"Gen_Walk_3.cfg", 3})
	} else {
		gens = append(gens, gen{"Gen_Walk_3small.cfg", 3})
	}
	var wirings []*Wiring
	{
		var mu sync.Mutex
		var first error
		var wg sync.WaitGroup
		for _, g := range gens {
			wg.Add(1)
			go func(g gen) {
				defer wg.Done()
				ws, err := genWirings(ctx, g.cfg, g.n)
				mu.Lock()
				defer mu.Unlock()
				if err != nil {
					if first == nil {
						first = err
					}
					return
				}
				wirings = append(wirings, ws...)
			}(g)
		}
		wg.Wait()
		if first != nil {
			return first
		}
	}
	for _, w := range wirings {
		w.key()
	}
	sort.Slice(wirings, func(i, j int) bool { return wirings[i].k < wirings[j].k })
	ctx.Logf("model wirings: %d terminal states generated by TLC", len(wirings))

	// ---- repetition: nothing survives a call ----
	if err := repeatPhase(ctx); err != nil {
		return err
	}

	// ---- P-A: Pipe rows ----
	rows, err := genPipeRows(ctx)
	if err != nil {
		return err
	}
	for _, row := range rows {
		row := row
		// type1: the consumer is inside the library; rows it can realise
		if row.Reason != "close" {
			dmg := []string{""}
			if row.Reason == "error" {
				dmg = []string{"garble", "cut", "zero"}
			}
			for _, d := range dmg {
				pc := row
				pc.Site, pc.Damage = "type1", d
				pl.add(&Req{Pipe: &pc}, "pipe:type1", pc.key(), nil)
			}
		}
		// dct: the harness is the consumer; it closes
		if row.Reason == "close" || row.Reason == "eof" {
			chains := []string{"", "hex-over"}
			if ctx.Thorough() || row.K == 1 {
				chains = append(chains, "dct-under-hex", "dct-under-rl", "dct-under-flate")
			}
			for _, ch := range chains {
				pc := row
				pc.Site, pc.Chain = "dct", ch
				pl.add(&Req{Pipe: &pc}, "pipe:dct", pc.key(), nil)
			}
		}
	}
	nPipe := len(pl.reqs)
	ctx.Logf("pipe scenarios: %d rows from Gen_Pipe, %d cases", len(rows), nPipe)

	// ---- exploration ----
	if err := addExploration(ctx, pl); err != nil {
		return err
	}
	ctx.Logf("cases kept in memory: %d pipe, %d exploration; the wiring files are made while the workers run", nPipe, len(pl.reqs)-nPipe)

	// development aid: C05_ONLY=pipe,family:chain runs only the cases whose class has one of the prefixes
	only := strings.Split(os.Getenv("C05_ONLY"), ",")
	if os.Getenv("C05_ONLY") == "" {
		only = nil
	} else {
		ctx.Logf("C05_ONLY=%s (evidence of this run is partial)", os.Getenv("C05_ONLY"))
	}
	wanted := func(r *Req) bool {
		if only == nil {
			return true
		}
		for _, p := range only {
			if strings.HasPrefix(r.info.class, p) {
				return true
			}
		}
		return false
	}

	// ---- execute, judging the records while the workers run ----
	pool, err := newPool()
	if err != nil {
		return err
	}
	col := newCollector(ctx, pool)
	var counts [3]int
	wnext := wiringCases(ctx, pl, wirings, &counts)
	rest := iterReqs(pl.reqs)
	next := func() *Req {
		for {
			// the slow exploration cases first, so that they do not end up alone at the tail
			r := rest()
			if r == nil {
				r = wnext()
			}
			if r == nil || wanted(r) {
				return r
			}
		}
	}
	t0 := time.Now()
	// circuit breaker: once a class of cases has killed or hung a worker six
	// times the verdict on it is settled; its remaining cases are left out
	// (each would cost a watchdog period) and counted in the evidence
	const tripAfter = 6
	deaths := map[string]int{}
	skippedByClass := map[string]int{}
	err = pool.Run(next, parallelism(), func(r *Result) {
		col.add(r)
		for _, rec := range r.Recs {
			if rec.Outcome == "hang" || rec.Outcome == "fatal" {
				deaths[r.Req.info.class]++
				break
			}
		}
	}, func(r *Req) bool {
		cls := r.info.class
		if deaths[cls] >= tripAfter {
			skippedByClass[cls]++
			return true
		}
		return false
	})
	if err != nil {
		return err
	}
	if len(skippedByClass) > 0 {
		ctx.Ev.Set("cases_left_out_after_repeated_worker_deaths", skippedByClass)
		ctx.Logf("left out after %d worker deaths of the same class: %v", tripAfter, skippedByClass)
	}
	ctx.Ev.Set("wirings", map[string]int{"terminal_states_from_tlc": len(wirings), "taken_this_run": counts[0], "files": counts[1], "files_with_whole_public_walk": counts[2]})
	ctx.Logf("executed %d cases on the real code (%d wirings taken, %d wiring files, %d of them with the whole public walk): %d call records, %d worker starts, %.1fs",
		col.cases, counts[0], counts[1], counts[2], col.nrecs, pool.restarts, time.Since(t0).Seconds())
	return col.finish()
}

func hasCompressed(w *Wiring) bool {
	for _, b := range w.B {
		if b >= 1 && b <= w.N {
			return true
		}
	}
	return false
}

// addExploration appends the generated structures, the seeds and their mutations.
func addExploration(ctx *core.Ctx, pl *plan) error {
	// generated structures
	sizes := []int{1, 2, 3, 4, 5, 6, 7, 8, 30, 300}
	if ctx.Thorough() {
		sizes = append(sizes, 1000, 20000)
	}
	// large wirings of the model's walkers (every structure that plays "decode")
	for _, name := range WiringFamilies() {
		lsizes := []int{8, 40}
		if !strings.Contains(name, ":ladder") {
			lsizes = []int{300}
			if ctx.Thorough() {
				lsizes = append(lsizes, 20000)
				if strings.Contains(name, "objwalk") || strings.Contains(name, "fields") || strings.Contains(name, "parents") {
					lsizes = append(lsizes, 100000)
				}
			}
		}
		for _, n := range lsizes {
			for _, alt := range []bool{false, true} {
				for _, xs := range []bool{false, true} {
					if (xs || alt) && n > 300 {
						continue
					}
					f := &Family{Name: name, Size: n, Cyc: alt, XS: xs}
					pl.add(&Req{Family: f}, "family:"+name, f.key(), nil)
				}
			}
		}
	}
	// rho shapes for every list-shaped walker: a tail of 0..3 nodes that runs
	// into a loop of 1..3 nodes (the loop need not pass through the head)
	for _, name := range RhoFamilies() {
		for _, xs := range []bool{false, true} {
			f := &Family{Name: name, Size: 1, XS: xs}
			pl.add(&Req{Family: f}, "family:"+name[:strings.LastIndex(name, ":")], f.key(), nil)
		}
	}
	for _, name := range FamilyNames {
		for _, n := range sizes {
			if name == "cmap-wide" && n > 4 {
				continue // four structures, selected by n%4
			}
			if name == "q-flood" && n > 300 {
				continue // 300 000 operators show it; millions only cost time
			}
			if name == "objstm-offsets" && n == 300 {
				// (one extreme value per file: sizes 1..13 name them all)
				for _, m := range []int{9, 10, 11, 12, 13, 31, 32, 33, 34, 35} {
					for _, cyc := range []bool{false, true} {
						f := &Family{Name: name, Size: m, Cyc: cyc}
						pl.add(&Req{Family: f}, "family:"+name, f.key(), nil)
					}
				}
			}
			if n >= 1000 && (strings.HasPrefix(name, "ladder") || strings.HasPrefix(name, "wide") && n > 1000) {
				continue
			}
			if strings.HasPrefix(name, "ladder") && n > 60 {
				n = 60
			}
			for _, cyc := range []bool{false, true} {
				for _, xs := range []bool{false, true} {
					if xs && n > 3 && !ctx.Thorough() {
						continue
					}
					if name == "cmap-wide" && n%4 == 3 && cyc && !xs && !ctx.Thorough() {
						// the 100-line 4-byte ToUnicode on a composite font costs ~10-16 s
						// of CPU (known finding alloc/glyphnames/cmap-wide); the one-line
						// variant already shows it in the quick tier
						continue
					}
					f := &Family{Name: name, Size: n, Cyc: cyc, XS: xs}
					pl.add(&Req{Family: f}, "family:"+name, f.key(), nil)
				}
			}
		}
	}

	// typed-number mutants of the resource zoo: every numeric entry of every
	// dictionary the page decode reaches, every value of typedValues
	zoo := zooFile()
	pl.add(&Req{Data: zoo}, "seed:zoo", "zoo", nil)
	sites := typedSites(zoo)
	for si, site := range sites {
		for _, val := range typedValues {
			name := val
			if name == "" {
				name = "missing"
			}
			pl.add(&Req{Data: applyTyped(zoo, site, val), Raw: true, PageOnly: true}, "typed:zoo",
				fmt.Sprintf("zoo/%d/%s=%s", si, site.key, name), []Mutation{{Op: "typed-" + name, Slot: site.key}})
		}
	}
	ctx.Ev.Set("typed_number_mutants", map[string]int{"numeric_entries_of_the_resource_zoo": len(sites), "values_per_entry": len(typedValues)})

	// seeds
	rng := ctx.Rand("seeds")
	var seeds []Seed
	dg, err := docgenSeeds(rng, ctx.Pick(3, 6))
	if err != nil {
		return core.Infra("%v", err)
	}
	seeds = append(seeds, dg...)
	seeds = append(seeds, serSeeds(rng, ctx.Pick(12, 60))...)
	fs, skipped := fontSeeds()
	if len(fs) < 8 {
		return core.Infra("only %d font seeds could be written: %v", len(fs), skipped)
	}
	seeds = append(seeds, fs...)
	seeds = append(seeds, imageSeeds()...)
	seeds = append(seeds, embedSeeds()...)
	cs, nfiles := corpusSeeds(ctx.RepoDir)
	seeds = append(seeds, cs...)
	ctx.Ev.Set("seed_files", map[string]int{"docgen": len(dg), "fonts": len(fs), "corpus_values": len(cs), "corpus_files": nfiles, "total": len(seeds)})
	ctx.Logf("seeds: %d (docgen %d, fonts %d, corpus values %d from %d files)", len(seeds), len(dg), len(fs), len(cs), nfiles)
	for _, s := range seeds {
		r := &Req{Data: s.Data}
		if s.Encrypted {
			r.Pass = "user"
		}
		pl.add(r, "seed:"+s.Class, s.Name, nil)
	}

	// offset classes of the embedded font / image
	for _, c := range embedDamage() {
		pl.add(&Req{Data: c.data}, "embed:"+c.class, c.name, []Mutation{{Op: "embed", Slot: c.slot}})
	}

	// mutations
	mrng := ctx.Rand("mutate")
	per := ctx.Pick(36, 90)
	for _, s := range seeds {
		n := per
		if s.Class == "corpus" {
			n = per / 3
		}
		if len(s.Data) > 200_000 {
			n = n / 4
		}
		for i := 0; i < n; i++ {
			other := seeds[mrng.Intn(len(seeds))].Data
			data, ms := mutate(mrng, s.Data, other)
			r := &Req{Data: data, Raw: true}
			if s.Encrypted {
				r.Pass = "user"
			}
			pl.add(r, "mut:"+s.Class, fmt.Sprintf("%s~%d", s.Name, i), ms)
		}
	}
	return nil
}

// ---- replay cases ----

type replayCase struct {
	Kind   string    `json:"kind"` // file pipe calib
	Name   string    `json:"name"`
	Call   string    `json:"call"`
	Arg    string    `json:"arg,omitempty"`
	Clause string    `json:"clause"`
	Data   []byte    `json:"data,omitempty"`
	Pass   string    `json:"pass,omitempty"`
	Pipe   *PipeCase `json:"pipe,omitempty"`
	Wiring *Wiring   `json:"wiring,omitempty"`
	Var    int       `json:"variant,omitempty"`
	Calib  string    `json:"calib,omitempty"`
}

func (rc *replayCase) req() *Req {
	// a wiring case carries its bytes and the wiring: the bytes are the input, the wiring selects the guarded call
	r := &Req{ID: "replay", Data: rc.Data, Raw: rc.Kind == "file", Pass: rc.Pass, Pipe: rc.Pipe, GraceMs: 3000, Wiring: rc.Wiring, Variant: rc.Var}
	if rc.Calib != "" {
		r.Calib = &CalibSpec{Kind: rc.Calib}
	}
	return r
}

func replay(ctx *core.Ctx, raw json.RawMessage) error {
	var rc replayCase
	if err := json.Unmarshal(raw, &rc); err != nil {
		return core.Infra("replay: %v", err)
	}
	if rc.Kind == "repeat" {
		return repeatOne(ctx, rc.Name, rc.Data, 600)
	}
	if rc.Kind == "repeat-many" {
		return repeatMany(ctx, rc.Data, 4000)
	}
	pool, err := newPool()
	if err != nil {
		return err
	}
	pool.confirming = true
	pool.Watchdog = pool.Watchdog * 3 / 2
	w, res := pool.runCase(nil, rc.req())
	w.kill()
	if res.Infra != nil {
		return res.Infra
	}
	if res.Err != "" {
		return core.Infra("replay: %s", res.Err)
	}
	bad, why, err := judge(ctx, res.Recs)
	if err != nil {
		return err
	}
	hit := false
	for j, i := range bad {
		r := res.Recs[i]
		fmt.Printf("  rejected by Trace_Envelope (%s): %s\n", why[j], describe(&r))
		if r.Call == rc.Call && (rc.Arg == "" || r.Arg == rc.Arg) && why[j] == rc.Clause {
			hit = true
			ctx.Violation(violationKey(&r, why[j], rc.Name), describe(&r), rc)
		}
	}
	if !hit && len(bad) > 0 {
		// a different call of the same input fails now: still a violation of the property
		r := res.Recs[bad[0]]
		ctx.Violation(violationKey(&r, why[0], rc.Name), describe(&r), rc)
	}
	fmt.Printf("  %d calls executed, %d rejected\n", len(res.Recs), len(bad))
	return nil
}
