package c05

// Parent side of the worker protocol: a pool of child processes, a watchdog
// per call, and the conversion of "no answer" / "worker died" into records.

import (
	"bufio"
	"bytes"
	"encoding/json"
	"fmt"
	"io"
	"os"
	"os/exec"
	"regexp"
	"sort"
	"strconv"
	"strings"
	"sync"
	"syscall"
	"time"

	"verif/harness/core"
)

// Result is what came back for one case.
type Result struct {
	Req   *Req
	Recs  []Rec
	Data  []byte // echoed input (Req.Echo)
	Err   string // the worker could not build the case
	Infra error  // the machinery failed (worker could not be started, ...)
}

type worker struct {
	cmd    *exec.Cmd
	in     io.WriteCloser
	lines  chan []byte
	stderr *lockedBuf
	dead   chan struct{}
}

type lockedBuf struct {
	mu sync.Mutex
	b  bytes.Buffer
}

func (l *lockedBuf) Write(p []byte) (int, error) {
	l.mu.Lock()
	defer l.mu.Unlock()
	if l.b.Len() < 4<<20 {
		l.b.Write(p)
	}
	return len(p), nil
}
func (l *lockedBuf) String() string {
	l.mu.Lock()
	defer l.mu.Unlock()
	return l.b.String()
}

// Pool runs cases on worker processes.
type Pool struct {
	exe        string
	confirming bool          // confirmation / replay runs: no shortened watchdog
	stackMB    int           // Go stack cap of the workers in MiB (0: the screening cap of 16 MiB)
	Watchdog   time.Duration // per call, for inputs of a few kB
	PerKiB     time.Duration // ... plus this much per KiB of input
	mu         sync.Mutex
	restarts   int
	hangs      int // calls that did not come back so far
}

func newPool() (*Pool, error) {
	exe, err := os.Executable()
	if err != nil {
		return nil, core.Infra("cannot find own executable: %v", err)
	}
	// twice what the envelope allows in CPU time (judge.go): a call that the
	// CPU clause would accept is never declared hanging
	return &Pool{exe: exe, Watchdog: 2 * cpuFloorUs * time.Microsecond, PerKiB: 2 * cpuPerKiBUs * time.Microsecond}, nil
}

func (p *Pool) start() (*worker, error) {
	cmd := exec.Command(p.exe)
	cmd.Env = append(os.Environ(), "C05_WORKER=1", "GOTRACEBACK=all", "GOMAXPROCS=2")
	if p.stackMB > 0 {
		cmd.Env = append(cmd.Env, fmt.Sprintf("C05_STACK_MB=%d", p.stackMB))
	}
	in, err := cmd.StdinPipe()
	if err != nil {
		return nil, err
	}
	out, err := cmd.StdoutPipe()
	if err != nil {
		return nil, err
	}
	w := &worker{cmd: cmd, in: in, lines: make(chan []byte, 64), stderr: &lockedBuf{}, dead: make(chan struct{})}
	cmd.Stderr = w.stderr
	if err := cmd.Start(); err != nil {
		return nil, err
	}
	go func() {
		rd := bufio.NewReaderSize(out, 1<<20)
		for {
			line, err := rd.ReadBytes('\n')
			if len(line) > 0 {
				w.lines <- line
			}
			if err != nil {
				break
			}
		}
		cmd.Wait()
		close(w.dead)
		close(w.lines)
	}()
	p.mu.Lock()
	p.restarts++
	p.mu.Unlock()
	return w, nil
}

func (w *worker) kill() {
	if w == nil {
		return
	}
	w.in.Close()
	if w.cmd.Process != nil {
		w.cmd.Process.Kill()
	}
	<-w.dead
}

// dumpAndKill asks the Go runtime of the worker for all goroutine stacks
// (SIGQUIT) and then makes sure it is gone.
func (w *worker) dumpAndKill() string {
	if w.cmd.Process != nil {
		w.cmd.Process.Signal(syscall.SIGQUIT)
	}
	select {
	case <-w.dead:
	case <-time.After(5 * time.Second):
		w.cmd.Process.Kill()
		<-w.dead
	}
	return w.stderr.String()
}

// budget is the watchdog period of one call.  Once six calls have not come
// back the verdict of the run is settled (every report is confirmed with the
// full period anyway); further cases get a quarter of it so that a tree with
// a systematic hang is not waited for case by case.
func (p *Pool) budget(req *Req, n int) time.Duration {
	w := p.Watchdog
	p.mu.Lock()
	if p.hangs >= 6 && !p.confirming {
		w /= 4
	}
	p.mu.Unlock()
	return w + time.Duration(min(n/1024, maxLenKiB))*p.PerKiB
}

var fatalPat = regexp.MustCompile(`(?m)^(fatal error: [^\n]*|runtime: [^\n]*out of memory[^\n]*|panic: [^\n]*|signal: [^\n]*)`)

// stackSignature describes the stack of the goroutine that ran the call, for
// stable violation keys: "inner=<innermost library function> cycle={the
// distinct library functions among the 60 innermost frames, without the
// object reader, sorted: for a recursion this is the set of functions of the
// cycle, wherever the stack happened to end} entry=<outermost library
// function>".
func stackSignature(dump string, running bool) string {
	blocks := strings.Split(dump, "\n\n")
	best := ""
	for _, b := range blocks {
		if !strings.HasPrefix(strings.TrimSpace(b), "goroutine ") {
			continue
		}
		if !strings.Contains(b, "c05.(*wk).") && !strings.Contains(b, "seehuhn.de/go/") {
			continue
		}
		if strings.Contains(b, "c05.(*wk).measure") {
			best = b
			break
		}
		if best == "" {
			best = b
		}
	}
	if best == "" {
		return "inner=? cycle={} entry=?"
	}
	seen := map[string]bool{}
	var fns []string
	n := 0
	entry, inner := "?", ""
	count := map[string]int{}
	for _, line := range strings.Split(best, "\n") {
		if strings.HasPrefix(line, "\t") || !strings.Contains(line, "seehuhn.de/go/") || strings.Contains(line, "verif/harness") {
			continue
		}
		if i := strings.LastIndex(line, "("); i > 0 {
			line = line[:i]
		}
		fn := strings.TrimPrefix(strings.TrimSpace(line), "seehuhn.de/go/")
		if strings.HasPrefix(fn, "created by ") {
			continue
		}
		entry = fn
		if inner == "" {
			inner = fn
		}
		if n++; n > 60 {
			continue
		}
		// the object reader is at the bottom of every stack: it says nothing about the cycle
		// (so is the generic Decode trampoline between any two decoders)
		if strings.HasPrefix(fn, "pdf.(*scanner).") || fn == "pdf.(*Reader).Get" || fn == "pdf.(*Reader).get" || strings.HasPrefix(fn, "pdf.Decode[") {
			continue
		}
		count[fn]++
		if !seen[fn] {
			seen[fn] = true
			fns = append(fns, fn)
		}
	}
	// a function of the cycle recurs; whatever the innermost call happened to
	// be when the stack ended does not
	var recurring []string
	for _, fn := range fns {
		if count[fn] >= 3 {
			recurring = append(recurring, fn)
		}
	}
	if len(recurring) > 0 {
		fns = recurring
	}
	if inner == "" {
		return "inner=? cycle={} entry=?"
	}
	sort.Strings(fns)
	if len(fns) > 4 {
		fns = fns[:4]
	}
	return "inner=" + inner + " cycle={" + strings.Join(fns, ",") + "} entry=" + entry
}

// runCase sends one case to the worker (starting one if needed) and collects
// its records.  The returned worker is nil when it had to be killed.
func (p *Pool) runCase(w *worker, req *Req) (*worker, *Result) {
	res := &Result{Req: req}
	attempts := 0
	skip := append([]string{}, req.Skip...)
	for {
		attempts++
		if w == nil {
			var err error
			w, err = p.start()
			if err != nil {
				res.Infra = core.Infra("cannot start worker: %v", err)
				return nil, res
			}
		}
		// a retry repeats the case without the calls that killed the worker;
		// only their records are kept from the earlier attempt
		kept := res.Recs[:0]
		for _, r := range res.Recs {
			if r.Outcome == "fatal" || r.Outcome == "hang" {
				kept = append(kept, r)
			}
		}
		res.Recs = kept
		r2 := *req
		r2.Skip = skip
		line, _ := json.Marshal(&r2)
		line = append(line, '\n')
		if _, err := w.in.Write(line); err != nil {
			w.kill()
			w = nil
			if attempts > 3 {
				res.Infra = core.Infra("cannot talk to worker: %v", err)
				return nil, res
			}
			continue
		}
		inputLen := len(req.Data)
		cur, curArg := "", ""
		var t0 time.Time
		var beginCPU, lastCPU time.Duration
		idle := 0
		finished := false
		// Outside a call only the harness runs (building the case, JSON): no
		// verdict hangs on that period, it only has to outlast a machine
		// that is starving the worker.
		const outside = 5 * time.Minute
		timer := time.NewTimer(outside)
		for !finished {
			select {
			case raw, ok := <-w.lines:
				if !ok {
					// the worker died
					dump := w.stderr.String()
					what := "worker exited"
					if m := fatalPat.FindString(dump); m != "" {
						what = m
					}
					if cur == "" {
						res.Infra = core.Infra("worker died outside a call (case %s): %s\n%s", req.ID, what, tailStr(dump, 1500))
						return nil, res
					}
					res.Recs = append(res.Recs, Rec{Case: req.ID, Call: cur, Arg: curArg, Outcome: "fatal", N: 1, Len: inputLen, Gets: -1, Prod: -1,
						WallUs: int(time.Since(t0) / time.Microsecond),
						Detail: fmt.Sprintf("%s | %s", what, stackSignature(dump, true))})
					w = nil
					skip = append(skip, strings.TrimSpace(cur+" "+curArg))
					finished = true
					continue
				}
				var msg struct {
					B    string `json:"b"`
					A    string `json:"a"`
					CPU  int64  `json:"cpu"`
					R    *Rec   `json:"r"`
					Done string `json:"done"`
					Err  string `json:"err"`
					Data []byte `json:"data"`
				}
				if err := json.Unmarshal(raw, &msg); err != nil {
					continue // stray output of the library
				}
				switch {
				case msg.B != "":
					cur, curArg, t0 = msg.B, msg.A, time.Now()
					beginCPU = time.Duration(msg.CPU) * time.Microsecond
					lastCPU, idle = -1, 0
					timer.Reset(p.budget(req, inputLen))
				case msg.R != nil:
					if inputLen == 0 {
						inputLen = msg.R.Len
					}
					res.Recs = append(res.Recs, *msg.R)
					cur = ""
					timer.Reset(outside)
				case msg.Done != "":
					res.Err = msg.Err
					res.Data = msg.Data
					timer.Stop()
					for _, r := range res.Recs {
						if r.G1 > r.G0 {
							// leaked goroutines stay: the next case gets a clean process
							w.kill()
							return nil, res
						}
					}
					return w, res
				}
			case <-timer.C:
				// The period is over.  A call that is still burning CPU but has
				// had little of it so far is being starved by the machine's load,
				// not hanging: it gets more time (up to eight periods).  A call
				// that has burnt most of a period, or makes no progress at all
				// (blocked), is declared hanging.
				if cur != "" {
					budget := p.budget(req, inputLen)
					now := procCPU(w.cmd.Process.Pid)
					used := now - beginCPU
					// blocked: no CPU used between two looks AND no thread waiting
					// for a processor (a starved process uses no CPU either)
					blocked := false
					if lastCPU >= 0 && now-lastCPU < 30*time.Millisecond && !anyThreadRunnable(w.cmd.Process.Pid) {
						idle++
						blocked = idle >= 2
					} else if lastCPU >= 0 {
						idle = 0
					}
					lastCPU = now
					if now > 0 && used < budget*6/10 && !blocked && time.Since(t0) < 8*budget {
						timer.Reset(budget / 8)
						continue
					}
				}
				dump := w.dumpAndKill()
				p.mu.Lock()
				p.hangs++
				p.mu.Unlock()
				if f := os.Getenv("C05_STACKS"); f != "" {
					_ = os.WriteFile(f, []byte(dump), 0o644) // development aid
				}
				if cur == "" {
					res.Infra = core.Infra("worker silent outside a call (case %s %s)\n%s", req.ID, req.describe(), tailStr(dump, 1500))
					return nil, res
				}
				res.Recs = append(res.Recs, Rec{Case: req.ID, Call: cur, Arg: curArg, Outcome: "hang", N: 1, Len: inputLen, Gets: -1, Prod: -1,
					WallUs: int(time.Since(t0) / time.Microsecond),
					Detail: "no answer within " + p.budget(req, inputLen).String() + " | " + stackSignature(dump, false)})
				w = nil
				skip = append(skip, strings.TrimSpace(cur+" "+curArg))
				finished = true
			}
		}
		timer.Stop()
		// the case goes on without the call that killed the worker; when the
		// guarded call of a wiring did it, the rest of the walk would only
		// run into the same thing
		if attempts >= 6 || req.NoRetry || strings.HasPrefix(cur, "probe/") {
			return w, res
		}
	}
}

func tailStr(s string, n int) string {
	if len(s) <= n {
		return s
	}
	return s[len(s)-n:]
}

// Run executes the cases on `par` workers and calls sink for every result
// (serialised).  skip, if not nil, is asked (under the same lock) before a
// case is handed out.
func (p *Pool) Run(next func() *Req, par int, sink func(*Result), skip func(*Req) bool) error {
	if par < 1 {
		par = 1
	}
	jobs := make(chan *Req)
	var mu sync.Mutex
	var first error
	var wg sync.WaitGroup
	for i := 0; i < par; i++ {
		wg.Add(1)
		go func() {
			defer wg.Done()
			var w *worker
			defer func() { w.kill() }()
			for req := range jobs {
				var res *Result
				w, res = p.runCase(w, req)
				mu.Lock()
				if res.Infra != nil && first == nil {
					first = res.Infra
				}
				sink(res)
				mu.Unlock()
			}
		}()
	}
	for r := next(); r != nil; r = next() {
		mu.Lock()
		stop := first != nil
		skipped := !stop && skip != nil && skip(r)
		mu.Unlock()
		if stop {
			break
		}
		if skipped {
			continue
		}
		jobs <- r
	}
	close(jobs)
	wg.Wait()
	return first
}

func (r *Req) describe() string {
	switch {
	case r.Wiring != nil:
		return fmt.Sprintf("wiring %s/v%d", r.Wiring.key(), r.Variant)
	case r.Family != nil:
		return "family " + r.Family.key()
	case r.Pipe != nil:
		return "pipe " + r.Pipe.key()
	case r.Calib != nil:
		return "calib " + r.Calib.Kind
	}
	return fmt.Sprintf("%d bytes", len(r.Data))
}

// procCPU returns the CPU time (user + system) a process has used, from
// /proc/<pid>/stat; 0 if it cannot be read.
func procCPU(pid int) time.Duration {
	raw, err := os.ReadFile(fmt.Sprintf("/proc/%d/stat", pid))
	if err != nil {
		return 0
	}
	// the command name (field 2) may contain spaces: fields are counted after the last ')'
	i := bytes.LastIndexByte(raw, ')')
	if i < 0 {
		return 0
	}
	f := strings.Fields(string(raw[i+1:]))
	if len(f) < 13 {
		return 0
	}
	ut, err1 := strconv.ParseInt(f[11], 10, 64)
	st, err2 := strconv.ParseInt(f[12], 10, 64)
	if err1 != nil || err2 != nil {
		return 0
	}
	return time.Duration(ut+st) * 10 * time.Millisecond // USER_HZ = 100
}

// anyThreadRunnable reports whether some thread of the process is running or
// waiting for a processor (state R in /proc/<pid>/task/*/stat).
func anyThreadRunnable(pid int) bool {
	ents, err := os.ReadDir(fmt.Sprintf("/proc/%d/task", pid))
	if err != nil {
		return false
	}
	for _, e := range ents {
		raw, err := os.ReadFile(fmt.Sprintf("/proc/%d/task/%s/stat", pid, e.Name()))
		if err != nil {
			continue
		}
		if i := bytes.LastIndexByte(raw, ')'); i >= 0 && i+2 < len(raw) && raw[i+2] == 'R' {
			return true
		}
	}
	return false
}

// iterReqs turns a slice into the iterator Run wants.
func iterReqs(reqs []*Req) func() *Req {
	i := 0
	return func() *Req {
		if i >= len(reqs) {
			return nil
		}
		i++
		return reqs[i-1]
	}
}
