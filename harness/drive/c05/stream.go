package c05

// The collector takes the results as the workers deliver them: it keeps the
// statistics, compares the guarded calls with the model, hands the call
// records to TLC in batches while the workers are still running, and keeps
// only what TLC rejects.  At the end the rejected records are confirmed and
// reported.

import (
	"encoding/json"
	"fmt"
	"os"
	"sort"
	"strings"
	"sync"

	"verif/harness/core"
)

type suspect struct {
	rec    Rec
	clause string
	req    *Req
}

type topEntry struct {
	rec  Rec
	name string
}

type collector struct {
	ctx  *core.Ctx
	pool *Pool

	cases, nrecs, calls     int
	byOutcome, byCall       map[string]int
	worstCpu, worstAlloc    float64
	worstCpuPerK, worstAlPK float64
	topCpu, topAlloc        []topEntry
	replayed, agree, cmp    int
	mismatches              []string
	nMismatch               int
	buildErr                string
	sampled                 map[string]bool
	dump                    *os.File

	batch    []Rec
	batchReq []*Req
	wg       sync.WaitGroup
	sem      chan struct{}
	mu       sync.Mutex // guards suspects, judgeErr, judged
	suspects []suspect
	judgeErr error
	judged   int
}

const judgeBatch = 120000

func newCollector(ctx *core.Ctx, pool *Pool) *collector {
	c := &collector{ctx: ctx, pool: pool, byOutcome: map[string]int{}, byCall: map[string]int{}, sampled: map[string]bool{}, sem: make(chan struct{}, 6)}
	if p := os.Getenv("C05_DUMP"); p != "" {
		c.dump, _ = os.Create(p)
	}
	return c
}

func insertTop(top []topEntry, e topEntry, less func(a, b *Rec) bool) []topEntry {
	top = append(top, e)
	sort.SliceStable(top, func(i, j int) bool { return less(&top[i].rec, &top[j].rec) })
	if len(top) > 5 {
		top = top[:5]
	}
	return top
}

// add is called (serialised) for every finished case.
func (c *collector) add(res *Result) {
	c.cases++
	info := res.Req.info
	if res.Err != "" && c.buildErr == "" {
		c.buildErr = fmt.Sprintf("case %s (%s) could not be built: %s", res.Req.ID, info.name, res.Err)
	}
	for i := range res.Recs {
		r := &res.Recs[i]
		c.nrecs++
		c.calls += max(r.N, 1)
		c.byOutcome[r.Outcome]++
		cc := r.Call
		if j := strings.Index(cc, "/"); j > 0 && !strings.HasPrefix(cc, "probe") && !strings.HasPrefix(cc, "pipe") {
			cc = cc[:j]
		}
		c.byCall[cc]++
		if c.dump != nil {
			if b, err := json.Marshal(r); err == nil {
				c.dump.Write(append(b, '\n'))
			}
		}
		if r.Outcome != "hang" && r.Outcome != "fatal" {
			k := float64(r.Len/1024 + 1)
			c.worstCpu = max(c.worstCpu, float64(r.CpuUs))
			c.worstAlloc = max(c.worstAlloc, float64(r.AllocKB))
			if r.Len > 8192 {
				c.worstCpuPerK = max(c.worstCpuPerK, float64(r.CpuUs)/k)
				c.worstAlPK = max(c.worstAlPK, float64(r.AllocKB)/k)
			}
			if len(c.topCpu) < 5 || r.CpuUs > c.topCpu[len(c.topCpu)-1].rec.CpuUs {
				c.topCpu = insertTop(c.topCpu, topEntry{*r, info.class + " " + info.name}, func(a, b *Rec) bool { return a.CpuUs > b.CpuUs })
			}
			if len(c.topAlloc) < 5 || r.AllocKB > c.topAlloc[len(c.topAlloc)-1].rec.AllocKB {
				c.topAlloc = insertTop(c.topAlloc, topEntry{*r, info.class + " " + info.name}, func(a, b *Rec) bool { return a.AllocKB > b.AllocKB })
			}
		}
		switch {
		case strings.HasPrefix(info.class, "mut:") || strings.HasPrefix(info.class, "embed:") || strings.HasPrefix(info.class, "typed:"):
			for _, m := range info.slots {
				c.ctx.Ev.Distinct("explore|" + cc + "|" + r.Outcome + "|" + m.String())
			}
		case strings.HasPrefix(info.class, "seed:"):
			c.ctx.Ev.Distinct("seed|" + info.name)
		}
		c.batch = append(c.batch, *r)
		c.batchReq = append(c.batchReq, res.Req)
	}

	// P-A: the model's answer against the real answer of the guarded call
	req := res.Req
	switch {
	case req.Pipe != nil || req.Family != nil:
		c.ctx.Ev.Distinct(info.class + "|" + info.name)
		if req.Pipe != nil {
			c.replayed++
			if !c.sampled["p"] && req.Pipe.Stuck && len(res.Recs) > 0 {
				c.sampled["p"] = true
				c.ctx.Ev.Sample(map[string]any{"kind": "Gen_Pipe row realised", "row": req.Pipe, "record": slimOf(&res.Recs[0]), "detail": res.Recs[0].Detail})
			}
		}
	case req.Wiring != nil:
		w := req.Wiring
		c.replayed++
		for i := range res.Recs {
			r := &res.Recs[i]
			if !strings.HasPrefix(r.Call, "probe/") {
				continue
			}
			if r.Gets != 0 || w.Work > 0 {
				c.ctx.Ev.Distinct("wiring|" + info.name)
			}
			if r.Outcome == "hang" || r.Outcome == "fatal" || r.Outcome == "panic" {
				continue // the verdict comes from the envelope
			}
			if !c.sampled["w:"+w.Walker+w.Inst] && w.Work >= 2 && len(r.Proj) > 0 {
				c.sampled["w:"+w.Walker+w.Inst] = true
				if len(c.sampled) < 6 {
					c.ctx.Ev.Sample(map[string]any{"kind": "model wiring materialised and walked", "walker": w.Walker, "structure": w.Inst, "kind_of_object": w.Kind, "slot_a": w.A, "slot_b": w.B,
						"rendering": req.Variant, "model_answer": w.Out, "model_fetches": w.Work, "code_answer": r.Proj, "code_fetches": r.Gets, "calls_logged": len(res.Recs)})
				}
			}
			want, cmp := w.expectedProj()
			if cmp {
				c.cmp++
				if fmt.Sprint(want) == fmt.Sprint(r.Proj) || len(want) == 0 && len(r.Proj) == 0 {
					c.agree++
				} else {
					c.nMismatch++
					if len(c.mismatches) < 14 {
						c.mismatches = append(c.mismatches, fmt.Sprintf("%s: model %v (work %d), code %v (gets %d, %s)", info.name, want, w.Work, r.Proj, r.Gets, r.Detail))
					}
				}
			}
			allow := 2*w.Bound + 2
			if w.Walker == "objwalk" {
				allow += 8 // the walker also visits the page tree of the file
			}
			if r.Gets > allow {
				c.nMismatch++
				if len(c.mismatches) < 14 {
					c.mismatches = append(c.mismatches, fmt.Sprintf("%s: %d fetches on the real code, the model bounds them by %d", info.name, r.Gets, w.Bound))
				}
			}
		}
	}
	if len(c.batch) >= judgeBatch {
		c.flush()
	}
}

// flush hands the current batch to TLC (in the background).
func (c *collector) flush() {
	if len(c.batch) == 0 {
		return
	}
	recs, reqs := c.batch, c.batchReq
	c.batch, c.batchReq = nil, nil
	c.wg.Add(1)
	c.sem <- struct{}{}
	go func() {
		defer c.wg.Done()
		defer func() { <-c.sem }()
		bad, why, err := judge(c.ctx, recs)
		c.mu.Lock()
		defer c.mu.Unlock()
		if err != nil {
			if c.judgeErr == nil {
				c.judgeErr = err
			}
			return
		}
		c.judged += len(recs)
		for j, i := range bad {
			c.suspects = append(c.suspects, suspect{recs[i], why[j], reqs[i]})
		}
	}()
}

// finish waits for TLC, confirms what it rejected, reports and writes the evidence.
func (c *collector) finish() error {
	ctx := c.ctx
	c.flush()
	c.wg.Wait()
	if c.dump != nil {
		c.dump.Close()
	}
	if c.judgeErr != nil {
		return c.judgeErr
	}
	if c.buildErr != "" {
		return core.Infra("%s", c.buildErr)
	}
	ctx.Logf("tlc robust/Trace_Envelope judged %d call records of the real code, %d rejected", c.judged, len(c.suspects))

	ctx.Ev.Eval(c.calls)
	tops := func(top []topEntry) []map[string]any {
		var out []map[string]any
		for _, e := range top {
			r := e.rec
			out = append(out, map[string]any{"case": e.name, "call": r.Call + " " + r.Arg, "len": r.Len, "cpu_us": r.CpuUs, "alloc_kib": r.AllocKB, "outcome": r.Outcome, "detail": r.Detail})
		}
		return out
	}
	ctx.Ev.Set("top_cpu", tops(c.topCpu))
	ctx.Ev.Set("top_alloc", tops(c.topAlloc))
	ctx.Ev.Set("calibration", map[string]any{
		"worst_cpu_us": c.worstCpu, "worst_alloc_kib": c.worstAlloc, "worst_cpu_us_per_kib(len>8k)": c.worstCpuPerK, "worst_alloc_kib_per_kib(len>8k)": c.worstAlPK,
		"envelope": map[string]int{"cpu_floor_us": cpuFloorUs, "cpu_per_kib_us": cpuPerKiBUs, "alloc_floor_kib": allocFloorKiB, "open_alloc_floor_kib": openFloorKiB, "alloc_per_kib": allocPerKiB},
		"watchdog": c.pool.Watchdog.String(),
	})
	ctx.Ev.Set("records_by_outcome", c.byOutcome)
	ctx.Ev.Set("records_by_call", c.byCall)
	ctx.Ev.Set("cases", c.cases)
	ctx.Ev.AddReplayed(c.replayed)
	ctx.Ev.Set("probe_answers_equal_to_model", c.agree)
	ctx.Ev.Set("probe_answers_compared", c.cmp)

	// ---- confirm and report ----
	byKey := map[string][]suspect{}
	var keys []string
	for _, s := range c.suspects {
		k := violationKey(&s.rec, s.clause, s.req.info.name)
		if _, ok := byKey[k]; !ok {
			keys = append(keys, k)
		}
		byKey[k] = append(byKey[k], s)
	}
	sort.Strings(keys)
	var unreproduced []string
	confirmPool, err := newPool()
	if err != nil {
		return err
	}
	confirmPool.confirming = true
	confirmPool.Watchdog = c.pool.Watchdog * 3 / 2
	notes := map[string]int{}
	note := func(ext, k, what string) {
		if notes[ext+"|"+k] == 0 {
			fmt.Printf("NOTE extension=%s key=%s %s\n", ext, k, what)
		}
		notes[ext+"|"+k]++
	}
	for _, k := range keys {
		ss := byKey[k]
		sort.Slice(ss, func(i, j int) bool { return ss[i].rec.Len < ss[j].rec.Len }) // the smallest input first
		confirmed := false
		for t := 0; t < len(ss) && t < 3; t++ {
			s := ss[t]
			rc, err := makeReplay(s.req, &s.rec, s.clause)
			if err != nil {
				return err
			}
			ok, rec2, err := confirm(ctx, confirmPool, rc)
			if err != nil {
				return err
			}
			if !ok {
				continue
			}
			confirmed = true
			info := s.req.info
			what := fmt.Sprintf("%s [%s; %d records of this class] %s", info.class, info.name, len(ss), describe(rec2))
			switch {
			case callClass(rec2.Call) == "objwalk":
				// package walker is not among the entry points property C05 names
				note("walker", k, what)
			case rec2.Outcome == "fatal" && strings.Contains(rec2.Detail, "stack overflow"):
				// the 16 MiB cap is the harness's screening device, not a promise of
				// the property: only a recursion that grows with the input counts
				grows, err := c.confirmStack(s.req, rc)
				if err != nil {
					return err
				}
				if grows {
					ctx.Violation(k, what+" | still overflows a 128 MiB stack when the structure is made 8 times longer: the depth grows with the input", rc)
				} else {
					note("bounded-recursion", k, what+" | fits into 128 MiB also when the structure is made 8 times longer: a bounded recursion deeper than the 16 MiB screening cap")
				}
			default:
				ctx.Violation(k, what, rc)
				ctx.Ev.Sample(map[string]any{"kind": "rejected record (reproduced)", "key": k, "clause": s.clause, "case": info.name, "record": slimOf(rec2), "detail": rec2.Detail})
			}
			break
		}
		if !confirmed {
			unreproduced = append(unreproduced, fmt.Sprintf("%s: %s", k, describe(&ss[0].rec)))
		}
	}
	if len(notes) > 0 {
		ctx.Ev.Set("extension_findings", notes)
	}
	if len(unreproduced) > 0 {
		sort.Strings(unreproduced)
		msg := fmt.Sprintf("%d rejected record classes did not reproduce in a fresh worker (not counted as violations):\n  %s", len(unreproduced), strings.Join(unreproduced, "\n  "))
		if ctx.Violations() == 0 {
			return core.Infra("%s", msg)
		}
		ctx.Logf("note: %s", msg)
		ctx.Ev.Set("unreproduced_signals", len(unreproduced))
	}
	if c.nMismatch > 0 {
		msg := fmt.Sprintf("Walk.tla and the code disagree on %d guarded calls (the model is not a description of this tree):\n  %s", c.nMismatch, strings.Join(c.mismatches, "\n  "))
		if ctx.Violations() == 0 && ctx.Ev.KnownFindingHits == 0 {
			return core.Infra("%s", msg)
		}
		ctx.Logf("note: %s", msg)
		ctx.Ev.Set("model_code_disagreements", c.nMismatch)
	}
	return nil
}

// confirmStack decides whether a stack overflow under the screening cap is a
// recursion that grows with the input: the case is run again under a cap of
// 128 MiB - twice what go-pdf's own bounds (256 references times 256 levels
// of direct nesting) can need - and, if it is a generated structure, made 8
// times longer.  An endless recursion and one that follows the length
// of a chain overflow again; a bounded one does not.
func (c *collector) confirmStack(req *Req, rc *replayCase) (bool, error) {
	pool, err := newPool()
	if err != nil {
		return false, err
	}
	pool.confirming = true
	pool.stackMB = 128
	pool.Watchdog = c.pool.Watchdog * 3 / 2
	r := rc.req()
	if req.Family != nil {
		f := *req.Family
		f.Size *= 8
		r = &Req{ID: "scaled", Family: &f, GraceMs: 3000}
	}
	r.Only = rc.Call
	r.NoRetry = true
	w, res := pool.runCase(nil, r)
	w.kill()
	if res.Infra != nil {
		return false, res.Infra
	}
	if res.Err != "" {
		return false, core.Infra("scaled case: %s", res.Err)
	}
	for i := range res.Recs {
		if res.Recs[i].Outcome == "fatal" && strings.Contains(res.Recs[i].Detail, "stack overflow") {
			return true, nil
		}
	}
	return false, nil
}
