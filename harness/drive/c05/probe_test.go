//go:build verif

package c05

import (
	"bytes"
	"compress/zlib"
	"fmt"
	"testing"
	"time"

	"seehuhn.de/go/pdf"
)

func buildObjStmLen() []byte {
	var b bytes.Buffer
	offs := map[int]int{}
	b.WriteString("%PDF-1.7\n")
	offs[1] = b.Len()
	b.WriteString("1 0 obj\n<< /Type /Catalog /Pages 2 0 R >>\nendobj\n")
	offs[2] = b.Len()
	b.WriteString("2 0 obj\n<< /Type /Pages /Kids [] /Count 0 >>\nendobj\n")
	// object stream 3 containing object 4: << /Length 4 0 R >> stream
	member := "<< /Length 4 0 R >>\nstream\nabc\nendstream\n"
	hdr := "4 0 "
	body := hdr + member
	offs[3] = b.Len()
	fmt.Fprintf(&b, "3 0 obj\n<< /Type /ObjStm /N 1 /First %d /Length %d >>\nstream\n%s\nendstream\nendobj\n", len(hdr), len(body), body)
	// xref stream 5
	var xr bytes.Buffer
	ent := func(t, a, c int) { xr.Write([]byte{byte(t), byte(a >> 8), byte(a), byte(c)}) }
	ent(0, 0, 255)
	ent(1, offs[1], 0)
	ent(1, offs[2], 0)
	ent(1, offs[3], 0)
	ent(2, 3, 0)
	offs[5] = b.Len()
	ent(1, offs[5], 0)
	var z bytes.Buffer
	zw := zlib.NewWriter(&z)
	zw.Write(xr.Bytes())
	zw.Close()
	fmt.Fprintf(&b, "5 0 obj\n<< /Type /XRef /Size 6 /W [1 2 1] /Root 1 0 R /Filter /FlateDecode /Length %d >>\nstream\n", z.Len())
	b.Write(z.Bytes())
	b.WriteString("\nendstream\nendobj\n")
	fmt.Fprintf(&b, "startxref\n%d\n%%%%EOF\n", offs[5])
	return b.Bytes()
}

func TestProbeObjStmLen(t *testing.T) {
	data := buildObjStmLen()
	r, err := pdf.NewReader(bytes.NewReader(data), int64(len(data)), nil)
	if err != nil {
		t.Fatal(err)
	}
	done := make(chan struct{})
	go func() {
		defer close(done)
		defer func() {
			if x := recover(); x != nil {
				fmt.Println("panic", x)
			}
		}()
		o, err := r.Get(pdf.NewReference(4, 0), true)
		fmt.Println("get 4:", o, err)
	}()
	select {
	case <-done:
	case <-time.After(100 * time.Second):
		t.Fatal("hang")
	}
}
