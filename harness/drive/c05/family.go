package c05

// Scaled-up relatives of the model's wirings (exploration, beyond N <= 3):
// the same slots, wired into long chains, cycles of any length and ladders
// (two nodes per level, each pointing to both nodes of the next level).  A
// walker that lost its seen-set needs 2^levels steps on a ladder, one that
// lost its depth cap recurses as deep as the chain is long.

import (
	"bytes"
	"fmt"
	"strings"
)

// Family describes a generated structure.
type Family struct {
	Name string `json:"name"`
	Size int    `json:"size"`
	Cyc  bool   `json:"cyc,omitempty"` // close the chain into a cycle
	XS   bool   `json:"xs,omitempty"`  // cross-reference stream + object stream rendering
}

func (f *Family) key() string { return fmt.Sprintf("%s/%d/%v/%v", f.Name, f.Size, f.Cyc, f.XS) }

// FamilyNames lists the structures build understands.
var FamilyNames = []string{
	"ladder-pages", "ladder-names", "ladder-outline",
	"chain-ref", "chain-first", "chain-next", "chain-kids", "chain-namekids",
	"chain-prev", "chain-globals", "chain-length", "chain-objstm",
	"self", "wide-kids", "wide-filters", "deep-array", "deep-dict", "deep-content", "q-flood", "inline-dct",
	"acroform-loop", "xobject-loop", "type3-loop", "action-chain", "pattern-loop",
	"parent-loop", "contents-array", "colorspace-chain", "huge-offsets",
	"nest-function", "nest-action", "nest-colorspace", "presteps-chain", "objstm-filter", "objstm-offsets", "xref-dct", "objstm-dct", "xref-index-sum", "cmap-wide", "catalog-pages",
}

// wiringFamily builds a large wiring of one of the model's walkers and
// renders it with Materialise: name "wire:<walker>[:<structure>]:<shape>",
// shapes ladder (two nodes per level, each pointing to both nodes of the next
// level; leaves at the bottom), ladderbad (the bottom points to a number
// without object: for strict decoders nothing on the way is ever cached),
// laddercyc (the bottom points back to the top), chain, chaincyc, chainbad.
func (fam *Family) wiringFamily() ([]byte, error) {
	parts := strings.Split(fam.Name, ":")
	if len(parts) < 3 {
		return nil, fmt.Errorf("bad family %q", fam.Name)
	}
	walker, inst, shape := parts[1], "", parts[len(parts)-1]
	if len(parts) == 4 {
		inst = parts[2]
	}
	inner, leaf := "", "leaf"
	useB := false // the list runs through slot b
	switch walker {
	case "navnode":
		inner = "node"
	case "outline":
		inner, useB = "item", inst == "" // /Next; "outline:first" descends through /First
		inst = ""
	case "filters":
		inner = "jbig2"
	case "resolve":
		inner = "ref"
	case "xref":
		inner = "table"
	case "decode":
		inner = "perm"
		if di := decodeInst(inst); di != nil {
			inner = di.Sem
		} else {
			return nil, fmt.Errorf("bad family %q", fam.Name)
		}
	case "fields":
		inner, leaf = "field", "widget"
	case "parents":
		inner, leaf = "field", "field"
	case "objwalk":
		inner = "dict"
	case "pages":
		inner, leaf = "Pages", "Page"
	case "nametree":
		inner = "inner"
	default:
		return nil, fmt.Errorf("bad family %q", fam.Name)
	}
	L := max(fam.Size, 1)
	w := &Wiring{Walker: walker, Inst: inst, Start: 1}
	add := func(kind string, a, b int) {
		w.Kind = append(w.Kind, kind)
		w.A = append(w.A, a)
		w.B = append(w.B, b)
	}
	switch shape {
	case "ladder", "ladderbad", "laddercyc":
		w.N = 2 * L
		for lv := 0; lv < L; lv++ {
			for j := 0; j < 2; j++ {
				switch {
				case lv < L-1:
					add(inner, 2*(lv+1)+1, 2*(lv+1)+2)
				case shape == "ladder":
					add(leaf, 0, 0)
				case shape == "ladderbad":
					add(inner, w.N+1, 0)
				default:
					add(inner, 1, 2)
				}
			}
		}
	case "chain", "chaincyc", "chainbad":
		w.N = L
		for i := 1; i <= L; i++ {
			switch {
			case i < L:
				add(inner, i+1, 0)
			case shape == "chain":
				add(leaf, 0, 0)
			case shape == "chainbad":
				add(inner, L+1, 0) // a number without object: every decoder on the chain fails
			default:
				add(inner, 1, 0)
			}
		}
	default:
		// rho-T-L: a tail of T nodes, then a loop of L nodes
		var T, Lp int
		if _, err := fmt.Sscanf(shape, "rho-%d-%d", &T, &Lp); err != nil || Lp < 1 {
			return nil, fmt.Errorf("bad family %q", fam.Name)
		}
		w.N = T + Lp
		for i := 1; i <= w.N; i++ {
			next := i + 1
			if i == w.N {
				next = T + 1
			}
			if useB {
				add(inner, 0, next)
			} else {
				add(inner, next, 0)
			}
		}
	}
	if walker == "xref" {
		for i := range w.B {
			w.B[i] = 0
		}
	}
	variant := 0
	if fam.XS {
		variant |= 1
	}
	if fam.Cyc {
		variant |= 2
	}
	data, ok := Materialise(w, variant)
	if !ok {
		return nil, fmt.Errorf("family %q cannot be rendered", fam.Name)
	}
	return data, nil
}

// RhoFamilies lists the rho-shaped lists: every list-shaped walker x tail 0..3 x loop 1..3.
func RhoFamilies() []string {
	lists := []string{"navnode", "outline", "outline:first", "resolve", "filters", "xref", "parents", "objwalk", "fields", "nametree:num", "pages"}
	for _, di := range DecodeInsts {
		lists = append(lists, "decode:"+di.Name)
	}
	var out []string
	for _, l := range lists {
		for t := 0; t <= 3; t++ {
			for lp := 1; lp <= 3; lp++ {
				out = append(out, fmt.Sprintf("wire:%s:rho-%d-%d", l, t, lp))
			}
		}
	}
	return out
}

// WiringFamilies lists the large wirings the exploration adds.
func WiringFamilies() []string {
	var out []string
	shapes := []string{"ladder", "ladderbad", "laddercyc", "chain", "chaincyc", "chainbad"}
	for _, di := range DecodeInsts {
		for _, sh := range shapes {
			if di.OneSlot && strings.HasPrefix(sh, "ladder") {
				continue
			}
			out = append(out, "wire:decode:"+di.Name+":"+sh)
		}
	}
	for _, wk := range []string{"fields", "objwalk"} {
		for _, sh := range shapes {
			out = append(out, "wire:"+wk+":"+sh)
		}
	}
	out = append(out, "wire:parents:chain", "wire:parents:chaincyc", "wire:nametree:num:ladder", "wire:nametree:num:chain", "wire:nametree:num:chaincyc")
	return out
}

func (fam *Family) build() ([]byte, error) {
	if strings.HasPrefix(fam.Name, "wire:") {
		return fam.wiringFamily()
	}
	n := fam.Size
	if n < 1 {
		n = 1
	}
	f := newFileSpec()
	// object numbers: 1 catalog, 2 pages root, 3 page, 4 content, nodes from 10
	const cat, pages, pg, cont, base = 1, 2, 3, 4, 10
	catExtra := ""
	pagesRoot := pages
	pageExtra := ""
	content := "q 1 0 0 1 0 0 cm Q"
	l := layout{n: 0, helperStm: 6, xrefObj: 7}
	last := func(i int) int { // next node of a chain, or where it ends
		if i+1 < n {
			return base + i + 1
		}
		if fam.Cyc {
			return base
		}
		return 0
	}
	switch fam.Name {
	case "ladder-pages":
		pagesRoot = base
		for i := 0; i < n; i++ {
			kids := fmt.Sprintf("%s %s", ref(base+2*(i+1)), ref(base+2*(i+1)+1))
			if i == n-1 {
				kids = ref(pg)
			}
			for j := 0; j < 2; j++ {
				f.obj(base+2*i+j, fmt.Sprintf("<< /Type /Pages /Kids [%s] /Count 1 >>", kids), true)
			}
		}
		f.obj(pages, "<< /Type /Pages /Kids [] /Count 0 >>", true)
	case "ladder-names":
		catExtra = fmt.Sprintf("/Names << /Dests %s >> ", ref(base))
		for i := 0; i < n; i++ {
			kids := fmt.Sprintf("%s %s", ref(base+2*(i+1)), ref(base+2*(i+1)+1))
			for j := 0; j < 2; j++ {
				if i == n-1 {
					f.obj(base+2*i+j, fmt.Sprintf("<< /Limits [(k%d) (k%d)] /Names [(k%d) 1] >>", j, j, j), true)
				} else {
					f.obj(base+2*i+j, fmt.Sprintf("<< /Limits [(a) (z)] /Kids [%s] >>", kids), true)
				}
			}
		}
	case "ladder-outline":
		catExtra = fmt.Sprintf("/Outlines %s ", ref(5))
		f.obj(5, fmt.Sprintf("<< /Type /Outlines /First %s /Last %s >>", ref(base), ref(base)), true)
		for i := 0; i < n; i++ {
			first := ""
			if i < n-1 {
				first = "/First " + ref(base+2*(i+1)) + " "
			}
			f.obj(base+2*i, fmt.Sprintf("<< /Title (a%d) /Parent %s %s/Next %s >>", i, ref(5), first, ref(base+2*i+1)), true)
			f.obj(base+2*i+1, fmt.Sprintf("<< /Title (b%d) /Parent %s %s>>", i, ref(5), first), true)
		}
	case "chain-ref":
		catExtra = fmt.Sprintf("/OpenAction %s /Lang %s ", ref(base), ref(base))
		for i := 0; i < n; i++ {
			if t := last(i); t != 0 {
				f.obj(base+i, ref(t), true)
			} else {
				f.obj(base+i, "(en)", true)
			}
		}
	case "chain-first", "chain-next":
		catExtra = fmt.Sprintf("/Outlines %s ", ref(5))
		f.obj(5, fmt.Sprintf("<< /Type /Outlines /First %s /Last %s >>", ref(base), ref(base)), true)
		key := "First"
		if fam.Name == "chain-next" {
			key = "Next"
		}
		for i := 0; i < n; i++ {
			link := ""
			if t := last(i); t != 0 {
				link = fmt.Sprintf("/%s %s ", key, ref(t))
			}
			f.obj(base+i, fmt.Sprintf("<< /Title (t%d) /Parent %s %s>>", i, ref(5), link), true)
		}
	case "chain-kids":
		pagesRoot = base
		for i := 0; i < n; i++ {
			kid := ref(pg)
			if t := last(i); t != 0 {
				kid = ref(t) + " " + ref(pg)
			}
			f.obj(base+i, fmt.Sprintf("<< /Type /Pages /Kids [%s] /Count 1 /Rotate 90 >>", kid), true)
		}
		f.obj(pages, "<< /Type /Pages /Kids [] /Count 0 >>", true)
	case "chain-namekids":
		catExtra = fmt.Sprintf("/Names << /Dests %s >> /PageLabels %s ", ref(base), ref(base))
		for i := 0; i < n; i++ {
			if t := last(i); t != 0 {
				f.obj(base+i, fmt.Sprintf("<< /Limits [(a) (z)] /Kids [%s] >>", ref(t)), true)
			} else {
				f.obj(base+i, "<< /Limits [(k) (k)] /Names [(k) 1] /Nums [0 << /S /D >>] >>", true)
			}
		}
	case "chain-globals":
		for i := 0; i < n; i++ {
			parms := ""
			if t := last(i); t != 0 {
				parms = fmt.Sprintf("/DecodeParms << /JBIG2Globals %s >> ", ref(t))
			}
			f.stm(base+i, "/Filter /JBIG2Decode "+parms, "", jbig2Page)
		}
	case "chain-length":
		f.stm(base, "", ref(base+1), []byte("stream data"))
		for i := 1; i <= n; i++ {
			t := base + i + 1
			if i == n {
				if fam.Cyc {
					f.obj(base+i, ref(base+1), false)
				} else {
					f.obj(base+i, "11", false)
				}
			} else {
				f.obj(base+i, ref(t), false)
			}
		}
	case "self":
		// one object that is everything and points to itself from every slot
		s := ref(base)
		pagesRoot = base
		catExtra = fmt.Sprintf("/Outlines %s /Names << /Dests %s >> /PageLabels %s /AcroForm %s /OpenAction %s /Dests %s ", s, s, s, s, s, s)
		f.stm(base, fmt.Sprintf("/Type /Pages /Kids [%s %s] /Count 2 /Parent %s /First %s /Last %s /Next %s /Prev %s /Title (self) "+
			"/Names [(k) %s] /Nums [0 %s] /Limits [(a) (z)] /Resources %s /Contents %s /Font << /F %s >> /XObject << /X %s >> "+
			"/Fields [%s] /Annots [%s] /A %s /Dest %s /S /GoTo /D %s /Filter %s /DecodeParms %s /MediaBox [0 0 9 9] /P %s /Subtype /Form /BBox [0 0 1 1]",
			s, s, s, s, s, s, s, s, s, s, s, s, s, s, s, s, s, s, s, s, s), s, []byte("/X Do /F 1 Tf (x) Tj"))
		f.obj(pages, "<< /Type /Pages /Kids [] /Count 0 >>", true)
	case "wide-kids":
		pagesRoot = base
		f.obj(base, fmt.Sprintf("<< /Type /Pages /Kids [%s] /Count %d >>", strings.Repeat(ref(base+1)+" ", n), n), false)
		f.obj(base+1, fmt.Sprintf("<< /Type /Pages /Kids [%s] /Count %d >>", strings.Repeat(ref(base)+" "+ref(pg)+" ", n), n), false)
		f.obj(pages, "<< /Type /Pages /Kids [] /Count 0 >>", true)
		catExtra = fmt.Sprintf("/Names << /Dests %s >> ", ref(base+2))
		f.obj(base+2, fmt.Sprintf("<< /Kids [%s] >>", strings.Repeat(ref(base+2)+" "+ref(base+3)+" ", n)), false)
		f.obj(base+3, "<< /Limits [(k) (k)] /Names [(k) 1] >>", false)
	case "wide-filters":
		f.stm(base, "/Filter ["+strings.Repeat("/ASCIIHexDecode ", n)+"]", "", hexN([]byte("x"), 3))
		f.stm(base+1, "/Filter ["+strings.Repeat(ref(base+2)+" ", n)+"] /DecodeParms ["+strings.Repeat(ref(base+3)+" ", n)+"]", "", hexN([]byte("x"), 3))
		f.obj(base+2, "/ASCIIHexDecode", true)
		f.obj(base+3, "<< >>", true)
	case "deep-array", "deep-dict":
		open, cl := "[", "]"
		if fam.Name == "deep-dict" {
			open, cl = "<< /K ", " >>"
		}
		f.obj(base, strings.Repeat(open, n)+"1"+strings.Repeat(cl, n), false)
		catExtra = fmt.Sprintf("/OpenAction %s ", ref(base))
	case "deep-content":
		content = strings.Repeat("[", n) + "1" + strings.Repeat("]", n) + " TJ " + strings.Repeat("q ", n) + strings.Repeat("BT ", 5) +
			strings.Repeat("<< /K ", n) + "1" + strings.Repeat(" >>", n) + " /P BDC " + strings.Repeat("/T BMC ", n)
	case "inline-dct":
		// inline images whose filter chain starts with DCTDecode (a decoder
		// with a goroutine of its own) and cannot be completed, is abandoned
		// by the size limit, or fails late
		jp := string(testJPEG(16+8*(n%3), 16, n%2 == 0))
		switch n % 4 {
		case 0:
			content = "BI /W 16 /H 16 /BPC 8 /CS /G /F [/DCT /NoSuchFilter] /L " + fmt.Sprint(len(jp)) + " ID " + jp + " EI Q"
		case 1:
			content = "BI /W 16 /H 16 /BPC 8 /CS /G /F [/DCT /Fl] /L " + fmt.Sprint(len(jp)) + " ID " + jp + " EI Q"
		case 2:
			content = "BI /W 1 /H 1 /BPC 8 /CS /G /F /DCT /L " + fmt.Sprint(len(jp)) + " ID " + jp + " EI Q"
		default:
			content = "BI /W 16 /H 16 /BPC 8 /CS /G /F [/DCT /LZW] /DP [null << /EarlyChange 7 >>] /L " + fmt.Sprint(len(jp)) + " ID " + jp + " EI Q"
		}
		if fam.Cyc {
			content = strings.Repeat(content+" ", 3)
		}
	case "q-flood":
		// nothing but q operators, deflated (thousands of them per byte of the
		// file): every saved graphics state is a copy of its own
		content = strings.Repeat("q ", 1000*n)
		if fam.Cyc {
			content = strings.Repeat("q BT ET ", 500*n)
		}
	case "acroform-loop":
		// AcroForm -> field/widget -> /P page -> /Annots -> the same widget
		catExtra = fmt.Sprintf("/AcroForm %s ", ref(base))
		kid := ref(base + 1)
		f.obj(base, fmt.Sprintf("<< /Fields [%s %s] /DR << >> /DA (/F 1 Tf) >>", kid, ref(base)), true)
		for i := 0; i < n; i++ {
			next := base + 1 + (i+1)%n
			f.obj(base+1+i, fmt.Sprintf("<< /Type /Annot /Subtype /Widget /FT /Tx /T (f%d) /Rect [0 0 9 9] /P %s /Parent %s /Kids [%s] >>",
				i, ref(pg), ref(next), ref(next)), true)
		}
		pageExtra = fmt.Sprintf("/Annots [%s] ", kid)
	case "xobject-loop":
		pageExtra = ""
		content = "/X0 Do"
		for i := 0; i < n; i++ {
			next := (i + 1) % n
			if !fam.Cyc && i == n-1 {
				next = i
			}
			f.stm(base+i, fmt.Sprintf("/Type /XObject /Subtype /Form /BBox [0 0 9 9] /Resources << /XObject << /X%d %s /X%d %s >> >>", next, ref(base+next), i, ref(base+i)),
				"", []byte(fmt.Sprintf("/X%d Do /X%d Do", next, i)))
		}
		pageExtra = fmt.Sprintf("/XO %s ", ref(base))
	case "type3-loop":
		content = "BT /F0 9 Tf (a) Tj ET"
		f.obj(base, fmt.Sprintf("<< /Type /Font /Subtype /Type3 /FontBBox [0 0 9 9] /FontMatrix [.1 0 0 .1 0 0] /CharProcs << /a %s >> "+
			"/Encoding << /Type /Encoding /Differences [97 /a] >> /FirstChar 97 /LastChar 97 /Widths [9] /Resources << /Font << /F0 %s >> >> >>", ref(base+1), ref(base)), true)
		f.stm(base+1, "", "", []byte("9 0 d0 BT /F0 9 Tf (a) Tj ET"))
	case "pattern-loop":
		content = "/Pattern cs /P0 scn 0 0 9 9 re f"
		f.stm(base, fmt.Sprintf("/Type /Pattern /PatternType 1 /PaintType 1 /TilingType 1 /BBox [0 0 9 9] /XStep 9 /YStep 9 /Resources << /Pattern << /P0 %s >> >>", ref(base)),
			"", []byte("/Pattern cs /P0 scn 0 0 9 9 re f"))
	case "action-chain":
		catExtra = fmt.Sprintf("/OpenAction %s /Outlines %s ", ref(base), ref(5))
		f.obj(5, fmt.Sprintf("<< /Type /Outlines /First %s /Last %s >>", ref(6), ref(6)), true)
		f.obj(6, fmt.Sprintf("<< /Title (t) /Parent %s /A %s >>", ref(5), ref(base)), true)
		l.helperStm, l.xrefObj = 8, 9
		for i := 0; i < n; i++ {
			next := ""
			if t := last(i); t != 0 {
				next = "/Next " + ref(t) + " "
			}
			f.obj(base+i, fmt.Sprintf("<< /Type /Action /S /URI /URI (http://x) %s>>", next), true)
		}
		pageExtra = fmt.Sprintf("/AA << /O %s >> ", ref(base))
	case "parent-loop":
		// page whose inherited attributes come from a cyclic /Parent chain
		pagesRoot = base
		for i := 0; i < n; i++ {
			f.obj(base+i, fmt.Sprintf("<< /Type /Pages /Parent %s /Kids [%s %s] /Count 1 >>", ref(base+(i+1)%n), ref(base+(i+1)%n), ref(pg)), true)
		}
		f.obj(pages, "<< /Type /Pages /Kids [] /Count 0 >>", true)
	case "contents-array":
		pageExtra = fmt.Sprintf("/CA [%s] ", strings.Repeat(ref(cont)+" "+ref(base)+" ", n))
		f.obj(base, fmt.Sprintf("[%s %s]", ref(base), ref(cont)), true)
	case "colorspace-chain":
		content = "/CS0 cs 1 scn 0 0 9 9 re f"
		for i := 0; i < n; i++ {
			alt := "/DeviceGray"
			if t := last(i); t != 0 {
				alt = ref(t)
			}
			f.obj(base+i, fmt.Sprintf("[/Separation /Ink%d %s << /FunctionType 2 /Domain [0 1] /C0 [0] /C1 [1] /N 1 >>]", i, alt), true)
		}
		pageExtra = fmt.Sprintf("/CSX %s ", ref(base))
	case "nest-function", "nest-action", "nest-colorspace":
		// direct nesting inside every object times a chain of references:
		// the scanner allows 256 levels per object, Decode 256 references
		depth := 200
		if n < depth {
			depth = n
		}
		links := min(n, 300)
		for i := 0; i < links; i++ {
			end := "<< /FunctionType 2 /Domain [0 1] /C0 [0] /C1 [1] /N 1 >>"
			if fam.Name == "nest-action" {
				end = "<< /S /Named /N /NextPage >>"
			} else if fam.Name == "nest-colorspace" {
				end = "/DeviceGray"
			}
			if t := last(i); t != 0 {
				end = ref(t)
			}
			var open, cl string
			switch fam.Name {
			case "nest-function":
				open, cl = "<< /FunctionType 3 /Domain [0 1] /Bounds [] /Encode [0 1] /Functions [", "] >>"
			case "nest-action":
				open, cl = "<< /S /URI /URI (u) /Next ", " >>"
			default:
				open, cl = "[/Pattern ", "]"
			}
			f.obj(base+i, strings.Repeat(open, depth)+end+strings.Repeat(cl, depth), false)
		}
		switch fam.Name {
		case "nest-function":
			pageExtra = fmt.Sprintf("/CSX [/Separation /Ink /DeviceGray %s] ", ref(base))
		case "nest-action":
			catExtra = fmt.Sprintf("/OpenAction %s ", ref(base))
			pageExtra = fmt.Sprintf("/AA << /O %s >> ", ref(base))
		}
	case "presteps-chain":
		for i := 0; i < n; i++ {
			next := ""
			if t := last(i); t != 0 {
				next = "/Next " + ref(t) + " "
			}
			f.obj(base+i, fmt.Sprintf("<< /Type /NavNode %s/Dur 1 >>", next), true)
		}
		pageExtra = fmt.Sprintf("/PresSteps %s ", ref(base))
	case "chain-prev", "chain-objstm":
		return fam.buildSections(n)
	case "objstm-filter":
		return fam.buildObjStmFilter(n), nil
	case "objstm-offsets":
		return fam.buildObjStmOffsets(n), nil
	case "xref-dct":
		return fam.buildXRefDCT(n), nil
	case "objstm-dct":
		return fam.buildObjStmDCT(n), nil
	case "xref-index-sum":
		return fam.buildXRefIndexSum(n), nil
	case "cmap-wide":
		return fam.buildCMapWide(n), nil
	case "catalog-pages":
		// the catalog's /Pages is not a reference to a page tree
		vals := []string{"7", "(str)", "[2 0 R]", "/Name", "true", "<< /Type /Pages /Kids [] /Count 0 >>", "0 0 R", "2 1 R"}
		f.obj(cat, fmt.Sprintf("<< /Type /Catalog /Pages %s >>", vals[n%len(vals)]), true)
		f.obj(pages, "<< /Type /Pages /Kids [] /Count 0 >>", true)
		return f.render(l, cat, fam.XS, nil, nil), nil
	case "huge-offsets":
		return fam.buildHugeOffsets(n), nil
	default:
		return nil, fmt.Errorf("unknown family %q", fam.Name)
	}
	res := "<< >>"
	switch fam.Name {
	case "xobject-loop":
		res = fmt.Sprintf("<< /XObject << /X0 %s >> >>", ref(base))
	case "type3-loop":
		res = fmt.Sprintf("<< /Font << /F0 %s >> >>", ref(base))
	case "pattern-loop":
		res = fmt.Sprintf("<< /Pattern << /P0 %s >> >>", ref(base))
	case "colorspace-chain", "nest-colorspace":
		res = fmt.Sprintf("<< /ColorSpace << /CS0 %s >> >>", ref(base))
	case "nest-function":
		res = fmt.Sprintf("<< /ColorSpace << /CS0 [/Separation /Ink /DeviceGray %s] >> >>", ref(base))
	}
	contents := ref(cont)
	if fam.Name == "contents-array" {
		contents = fmt.Sprintf("[%s]", strings.Repeat(ref(cont)+" "+ref(base)+" ", n))
	}
	f.obj(cat, fmt.Sprintf("<< /Type /Catalog /Pages %s %s>>", ref(pagesRoot), catExtra), true)
	if _, ok := f.objs[pages]; !ok {
		f.obj(pages, fmt.Sprintf("<< /Type /Pages /Kids [%s] /Count 1 >>", ref(pg)), true)
	}
	f.obj(pg, fmt.Sprintf("<< /Type /Page /Parent %s /MediaBox [0 0 100 100] /Resources %s /Contents %s %s>>", ref(pagesRoot), res, contents, pageExtra), true)
	if fam.Name == "q-flood" {
		f.stm(cont, "/Filter /FlateDecode", "", deflate([]byte(content)))
	} else {
		f.stm(cont, "", "", []byte(content))
	}
	return f.render(l, cat, fam.XS, nil, nil), nil
}

// buildSections makes files whose structure lives in the cross-reference
// layer: a /Prev chain (or cycle) of n sections, or object streams whose
// containers are themselves compressed.
func (fam *Family) buildSections(n int) ([]byte, error) {
	a := newAsm("1.7")
	a.obj(1, "<< /Type /Catalog /Pages 2 0 R >>")
	a.obj(2, "<< /Type /Pages /Kids [3 0 R] /Count 1 >>")
	a.obj(3, "<< /Type /Page /Parent 2 0 R /MediaBox [0 0 100 100] /Resources << >> >>")
	baseEnts := []xent{{num: 0, typ: 0}, {num: 1, typ: 1, off: a.offs[1]}, {num: 2, typ: 1, off: a.offs[2]}, {num: 3, typ: 1, off: a.offs[3]}}
	offs := map[int]int64{}
	if fam.Name == "chain-prev" {
		for i := 1; i <= n; i++ {
			prev := ""
			switch {
			case i < n:
				prev = fmt.Sprintf("/Prev %s ", offPlaceholder(i+1))
			case fam.Cyc:
				prev = fmt.Sprintf("/Prev %s ", offPlaceholder(1))
			}
			extra := "/Root 1 0 R " + prev
			if fam.XS && i%2 == 0 {
				offs[i] = a.xrefStream(100+i, baseEnts, extra, false)
			} else {
				if fam.XS {
					extra += fmt.Sprintf("/XRefStm %s ", offPlaceholder((i%n)+1))
				}
				offs[i] = a.table(append([]xent{}, baseEnts...), fmt.Sprintf("/Size %d %s", 101+n, extra))
			}
		}
		return patchOffsets(a.finish(offs[1]), offs), nil
	}
	// chain-objstm: object 10+i lives in object stream 10+i+1, ..., the last
	// one in the first (cyc) or at top level
	ents := append([]xent{}, baseEnts...)
	for i := 0; i < n; i++ {
		num := 10 + i
		container := 10 + i + 1
		if i == n-1 {
			if !fam.Cyc {
				data, cnt, first := objStmData([]int{10}, map[int]string{10: "<< /V 1 >>"})
				a.stream(num, fmt.Sprintf("/Type /ObjStm /N %d /First %d", cnt, first), "", data)
				ents = append(ents, xent{num: num, typ: 1, off: a.offs[num]})
				continue
			}
			container = 10
		}
		ents = append(ents, xent{num: num, typ: 2, stm: container, idx: 0})
	}
	var buf bytes.Buffer
	_ = buf
	sx := a.xrefStream(9, ents, "/Root 1 0 R", true)
	return a.finish(sx), nil
}

// buildHugeOffsets: bytes before the header (so that offsets are shifted) and
// a cross-reference stream with eight byte fields holding offsets, object
// stream numbers and indices at the edge of int64.
func (fam *Family) buildHugeOffsets(n int) []byte {
	var buf bytes.Buffer
	buf.WriteString(strings.Repeat("junk before the header\n", 1+n%3))
	shift := int64(buf.Len())
	a := newAsm("1.7")
	a.obj(1, "<< /Type /Catalog /Pages 2 0 R >>")
	a.obj(2, "<< /Type /Pages /Kids [3 0 R] /Count 1 >>")
	a.obj(3, "<< /Type /Page /Parent 2 0 R /MediaBox [0 0 100 100] /Resources << >> >>")
	data, cnt, first := objStmData([]int{20}, map[int]string{20: "<< /V 1 >>"})
	a.stream(4, fmt.Sprintf("/Type /ObjStm /N %d /First %d", cnt, first), "", data)
	const maxI = int64(1<<63 - 1)
	type e struct {
		num int
		typ byte
		f2  uint64
		f3  uint64
	}
	ents := []e{{0, 0, 0, 65535}, {1, 1, uint64(a.offs[1]), 0}, {2, 1, uint64(a.offs[2]), 0}, {3, 1, uint64(a.offs[3]), 0}, {4, 1, uint64(a.offs[4]), 0},
		{10, 1, uint64(maxI), 0}, {11, 1, uint64(maxI - shift), 0}, {12, 1, uint64(maxI - shift + 1), 0}, {13, 1, 1 << 62, 0}, {14, 1, 1 << 40, 65535},
		{15, 1, uint64(maxI) + 1, 0}, {16, 1, ^uint64(0), 0},
		{20, 2, 4, 0}, {21, 2, 4, uint64(maxI)}, {22, 2, 1<<24 - 1, 0}, {23, 2, uint64(maxI), uint64(maxI)}, {24, 2, 24, 0}, {25, 3, 7, 7}}
	var body bytes.Buffer
	var index []string
	be := func(v uint64) {
		body.Write([]byte{byte(v >> 56), byte(v >> 48), byte(v >> 40), byte(v >> 32), byte(v >> 24), byte(v >> 16), byte(v >> 8), byte(v)})
	}
	p := a.pos()
	ents = append(ents, e{9, 1, uint64(p), 0})
	for _, x := range ents {
		index = append(index, fmt.Sprintf("%d 1", x.num))
		body.WriteByte(x.typ)
		be(x.f2)
		be(x.f3)
	}
	prev := ""
	if fam.Cyc {
		prev = fmt.Sprintf("/Prev %d /XRefStm %d ", maxI-int64(n), maxI)
	}
	a.stream(9, fmt.Sprintf("/Type /XRef /Size 30 /W [1 8 8] /Index [%s] /Root 1 0 R %s", strings.Join(index, " "), prev), "", body.Bytes())
	buf.Write(a.finish(p))
	return buf.Bytes()
}

// buildObjStmFilter: the description of an object stream's own filter is an
// indirect object that lives in an object stream - its own, or (two
// containers) each other's.  Variants by size: 1 /Filter, 2 /DecodeParms,
// 3 an element of the /Filter array, 4 an element of the /DecodeParms array,
// 5, 6 two containers crossing, 7 a DCTDecode container whose decoding fails late.  GetFilters must not look into object streams
// for these (canObjStm = false), or opening the container never ends.
func (fam *Family) buildObjStmFilter(n int) []byte {
	a := newAsm("1.7")
	a.obj(1, "<< /Type /Catalog /Pages 2 0 R >>")
	a.obj(2, "<< /Type /Pages /Kids [3 0 R] /Count 1 >>")
	a.obj(3, "<< /Type /Page /Parent 2 0 R /MediaBox [0 0 100 100] /Resources << >> >>")
	ents := []xent{{num: 0, typ: 0}, {num: 1, typ: 1, off: a.offs[1]}, {num: 2, typ: 1, off: a.offs[2]}, {num: 3, typ: 1, off: a.offs[3]}}
	// members: 20 name, 21 parms dictionary, 22 a plain value (in container 10); 30, 31, 32 likewise (in container 11)
	member := map[int]string{20: "/ASCIIHexDecode", 21: "<< /Columns 1 >>", 22: "<< /V 1 >>", 30: "/ASCIIHexDecode", 31: "<< /Columns 1 >>", 32: "<< /V 2 >>"}
	container := func(num int, members []int, dict string) {
		data, cnt, first := objStmData(members, member)
		enc := data
		if fam.Cyc {
			enc = hexN(data, 1) // as if the filter were found
		}
		a.stream(num, fmt.Sprintf("/Type /ObjStm /N %d /First %d %s", cnt, first, dict), "", enc)
		ents = append(ents, xent{num: num, typ: 1, off: a.offs[num]})
		for i, m := range members {
			ents = append(ents, xent{num: m, typ: 2, stm: num, idx: i})
		}
	}
	switch n % 8 {
	case 7:
		// an object stream behind DCTDecode: the decoded "pixels" are no index,
		// getObjStm fails - after the decoder (and its goroutine) was started
		a.stream(10, "/Type /ObjStm /N 1 /First 4 /Filter /DCTDecode", "", testJPEG(64, 64, false))
		ents = append(ents, xent{num: 10, typ: 1, off: a.offs[10]}, xent{num: 20, typ: 2, stm: 10, idx: 0})
	case 1:
		container(10, []int{20, 21, 22}, "/Filter 20 0 R")
	case 2:
		container(10, []int{20, 21, 22}, "/Filter /ASCIIHexDecode /DecodeParms 21 0 R")
	case 3:
		container(10, []int{20, 21, 22}, "/Filter [20 0 R]")
	case 4:
		container(10, []int{20, 21, 22}, "/Filter [/ASCIIHexDecode] /DecodeParms [21 0 R]")
	case 5:
		container(10, []int{20, 21, 22}, "/Filter 30 0 R")
		container(11, []int{30, 31, 32}, "/Filter 20 0 R")
	default:
		container(10, []int{20, 21, 22}, "/Filter [/ASCIIHexDecode 30 0 R] /DecodeParms [null 31 0 R]")
		container(11, []int{30, 31, 32}, "/DecodeParms 21 0 R /Filter /ASCIIHexDecode")
	}
	sx := a.xrefStream(9, ents, "/Root 1 0 R", fam.XS)
	return a.finish(sx)
}

// buildXRefDCT: a cross-reference stream behind /Filter /DCTDecode (alone or
// below ASCIIHexDecode): the "pixels" of a JPEG are read as entries, only as
// many as /Size asks for.  Whatever becomes of the entries, the decoder (a
// goroutine of its own) must be gone when NewReader returns.
func (fam *Family) buildXRefDCT(n int) []byte {
	a := newAsm("1.7")
	a.obj(1, "<< /Type /Catalog /Pages 2 0 R >>")
	a.obj(2, "<< /Type /Pages /Kids [3 0 R] /Count 1 >>")
	a.obj(3, "<< /Type /Page /Parent 2 0 R /MediaBox [0 0 100 100] /Resources << >> >>")
	p := a.pos()
	jp := testJPEG(64+8*(n%5), 64, n%2 == 1)
	filter := "/Filter /DCTDecode"
	if fam.Cyc {
		jp = hexN(jp, 1)
		filter = "/Filter [/ASCIIHexDecode /DCTDecode]"
	}
	size := []int{5, 1, 40, 1000}[n%4]
	a.stream(9, fmt.Sprintf("/Type /XRef /Size %d /W [1 2 1] /Root 1 0 R %s", size, filter), "", jp)
	return a.finish(p)
}

// buildObjStmDCT: an object stream behind /DCTDecode that claims no members
// (/N 0): opening the container succeeds, the member the cross-reference
// stream promises is not found.  The decoder (a goroutine of its own, with
// most of the image still to deliver) must be gone when Get returns.
func (fam *Family) buildObjStmDCT(n int) []byte {
	a := newAsm("1.7")
	a.obj(1, "<< /Type /Catalog /Pages 2 0 R >>")
	a.obj(2, "<< /Type /Pages /Kids [3 0 R] /Count 1 >>")
	a.obj(3, "<< /Type /Page /Parent 2 0 R /MediaBox [0 0 100 100] /Resources << >> >>")
	ents := []xent{{num: 0, typ: 0}, {num: 1, typ: 1, off: a.offs[1]}, {num: 2, typ: 1, off: a.offs[2]}, {num: 3, typ: 1, off: a.offs[3]}}
	jp := testJPEG(64+8*(n%5), 64, n%2 == 1)
	filter := "/Filter /DCTDecode"
	if fam.Cyc {
		jp = hexN(jp, 1)
		filter = "/Filter [/ASCIIHexDecode /DCTDecode]"
	}
	a.stream(10, fmt.Sprintf("/Type /ObjStm /N 0 /First %d %s", []int{0, 1, 100}[n%3], filter), "", jp)
	ents = append(ents, xent{num: 10, typ: 1, off: a.offs[10]}, xent{num: 20, typ: 2, stm: 10, idx: 0}, xent{num: 21, typ: 2, stm: 10, idx: 1})
	sx := a.xrefStream(9, ents, "/Root 1 0 R", fam.XS)
	return a.finish(sx)
}

// buildObjStmOffsets: an object stream whose header pairs give offsets at
// the ends of the integer ranges (alone and so that /First + offset wraps),
// out of order, equal, or beyond the data; variants by size: /First right,
// huge, zero, negative.  Every member is fetched.
func (fam *Family) buildObjStmOffsets(n int) []byte {
	a := newAsm("1.7")
	a.obj(1, "<< /Type /Catalog /Pages 2 0 R >>")
	a.obj(2, "<< /Type /Pages /Kids [3 0 R] /Count 1 >>")
	a.obj(3, "<< /Type /Page /Parent 2 0 R /MediaBox [0 0 100 100] /Resources << >> >>")
	ents := []xent{{num: 0, typ: 0}, {num: 1, typ: 1, off: a.offs[1]}, {num: 2, typ: 1, off: a.offs[2]}, {num: 3, typ: 1, off: a.offs[3]}}
	extremes := []string{"9223372036854775807", "9223372036854775806", "9223372036854775000", "4611686018427387904", "18446744073709551615",
		"9223372036854775808", "2147483647", "4294967296", "100000", "-1", "-9223372036854775808", "9223372036854775797", "9223372036854775790"}
	// one extreme offset per container (one bad number may make the reader
	// refuse the whole container), next to ordinary ones; Cyc: two of them
	offs := []string{"0", extremes[n%len(extremes)], "11"}
	if fam.Cyc {
		offs = []string{"0", extremes[n%len(extremes)], extremes[(n+5)%len(extremes)], "11", "11"}
	}
	var head bytes.Buffer
	for i, o := range offs {
		fmt.Fprintf(&head, "%d %s ", 20+i, o)
	}
	body := "<< /V 1 >>\n<< /V 2 >> (three) 4 [5] /six\n"
	first := fmt.Sprint(head.Len())
	if n >= 30 {
		first = []string{"9223372036854775807", "0", "-5", fmt.Sprint(head.Len() - 1), "9223372036854775000", "1"}[n%6]
	}
	a.stream(10, fmt.Sprintf("/Type /ObjStm /N %d /First %s", len(offs), first), "", append(head.Bytes(), body...))
	ents = append(ents, xent{num: 10, typ: 1, off: a.offs[10]})
	for i := range offs {
		ents = append(ents, xent{num: 20 + i, typ: 2, stm: 10, idx: i})
	}
	sx := a.xrefStream(9, ents, "/Root 1 0 R", fam.XS)
	return a.finish(sx)
}

// buildXRefIndexSum: a cross-reference stream whose /Index has many
// subsections, each within /Size, whose sizes add up past 2^31 or 2^32 (the
// sum is what the entry budget 8192 + 32 per raw byte is checked against: a
// sum kept in 32 bits wraps to a small number), with a narrow /W and a body of
// zeros that flate shrinks a thousandfold: one entry would be made per decoded
// byte.  Variants by size: repetitions and remainders; Cyc: a body of 16 MiB
// instead of 1 MiB; XS: /W [0 1 0] (every entry in use) instead of [1 0 0].
func (fam *Family) buildXRefIndexSum(n int) []byte {
	const size = 1 << 24
	type sub struct{ start, n int }
	var subs []sub
	rep := func(k int, s sub) {
		for i := 0; i < k; i++ {
			subs = append(subs, s)
		}
	}
	switch n % 8 {
	case 0:
		rep(256, sub{0, size}) // 2^32
	case 1:
		rep(512, sub{0, size}) // 2^33
	case 2:
		rep(128, sub{0, size}) // 2^31
	case 3:
		rep(256, sub{0, size})
		subs = append(subs, sub{0, 7}) // 2^32 + 7
	case 4:
		rep(255, sub{0, size})
		rep(2, sub{size / 2, size / 2}) // 2^32 from unequal parts
	case 5:
		rep(1024, sub{1, size - 1}) // 2^34 - 1024
	case 6:
		rep(2, sub{0, size}) // 2^25: over the budget without any wrap
	default:
		rep(4096, sub{size - 1<<20, 1 << 20}) // 2^32 from small subsections at the top
	}
	decoded := 1 << 20
	if fam.Cyc {
		decoded = 1 << 24
	}
	w := "[1 0 0]"
	if fam.XS {
		w = "[0 1 0]"
	}
	a := newAsm("1.7")
	a.obj(1, "<< /Type /Catalog /Pages 2 0 R >>")
	a.obj(2, "<< /Type /Pages /Kids [] /Count 0 >>")
	var idx strings.Builder
	for _, s := range subs {
		fmt.Fprintf(&idx, "%d %d ", s.start, s.n)
	}
	p := a.pos()
	a.stream(3, fmt.Sprintf("/Type /XRef /Size %d /W %s /Index [%s] /Root 1 0 R /Filter /FlateDecode", size, w, idx.String()), "", deflate(make([]byte, decoded)))
	return a.finish(p)
}

// buildCMapWide: fonts whose embedded CMap / ToUnicode CMap has ranges over
// the whole 4-byte (XS: 2-byte) code space - wider than the code space of the
// font - once or (Cyc) a hundred times.  Variants by size: 0 simple Type 1
// font with a wide ToUnicode bfrange, 1 the same with a one-byte codespace
// declared, 2 composite font with an embedded encoding CMap (cidrange and
// notdefrange over everything), 3 composite Identity-H font with a wide
// ToUnicode.  Enumerating such a range code by code takes 2^32 steps.
func (fam *Family) buildCMapWide(n int) []byte {
	lo, hi := "<00000000>", "<FFFFFFFF>"
	if fam.XS {
		lo, hi = "<0000>", "<FFFF>"
	}
	lines := 1
	if fam.Cyc {
		lines = 100
	}
	head := "/CIDInit /ProcSet findresource begin\n12 dict begin\nbegincmap\n/CIDSystemInfo << /Registry (Adobe) /Ordering (UCS) /Supplement 0 >> def\n/CMapName /Wide def\n"
	tail := "endcmap\nCMapName currentdict /CMap defineresource pop\nend\nend\n"
	ranges := func(op, val string) string {
		var b strings.Builder
		fmt.Fprintf(&b, "%d begin%s\n", lines, op)
		for i := 0; i < lines; i++ {
			fmt.Fprintf(&b, "%s %s %s\n", lo, hi, val)
		}
		fmt.Fprintf(&b, "end%s\n", op)
		return b.String()
	}
	space := fmt.Sprintf("1 begincodespacerange\n%s %s\nendcodespacerange\n", lo, hi)
	if n%4 == 1 {
		space = "1 begincodespacerange\n<00> <FF>\nendcodespacerange\n"
	}
	tu := head + "/CMapType 2 def\n" + space + ranges("bfrange", "<0041>") + ranges("bfchar", "")[:0] + tail
	enc := head + "/CMapType 1 def\n" + space + ranges("cidrange", "0") + ranges("notdefrange", "1") + tail

	f := newFileSpec()
	l := layout{helperStm: 30, xrefObj: 31}
	f.obj(1, "<< /Type /Catalog /Pages 2 0 R >>", false)
	f.obj(2, "<< /Type /Pages /Kids [3 0 R] /Count 1 >>", false)
	f.obj(3, "<< /Type /Page /Parent 2 0 R /MediaBox [0 0 100 100] /Resources << /Font << /F1 5 0 R >> >> /Contents 4 0 R >>", false)
	widths := strings.TrimSpace(strings.Repeat("500 ", 95))
	fd := "<< /Type /FontDescriptor /FontName /Wide /Flags 32 /FontBBox [0 -200 1000 800] /ItalicAngle 0 /Ascent 800 /Descent -200 /CapHeight 700 /StemV 80 >>"
	text := "(AB) Tj"
	switch n % 4 {
	case 0, 1:
		f.obj(5, fmt.Sprintf("<< /Type /Font /Subtype /Type1 /BaseFont /Wide /FirstChar 32 /LastChar 126 /Widths [%s] /FontDescriptor %s /ToUnicode 6 0 R >>", widths, fd), false)
		f.stm(6, "/Type /CMap /CMapName /Wide", "", []byte(tu))
	case 2:
		f.obj(5, "<< /Type /Font /Subtype /Type0 /BaseFont /Wide /Encoding 6 0 R /DescendantFonts [7 0 R] /ToUnicode 8 0 R >>", false)
		f.stm(6, "/Type /CMap /CMapName /Wide /CIDSystemInfo << /Registry (Adobe) /Ordering (Identity) /Supplement 0 >> /WMode 0", "", []byte(enc))
		f.stm(8, "/Type /CMap /CMapName /WideTU", "", []byte(tu))
		text = "<00000041> Tj"
	default:
		f.obj(5, "<< /Type /Font /Subtype /Type0 /BaseFont /Wide /Encoding /Identity-H /DescendantFonts [7 0 R] /ToUnicode 8 0 R >>", false)
		f.stm(8, "/Type /CMap /CMapName /WideTU", "", []byte(tu))
		text = "<0041> Tj"
	}
	if n%4 >= 2 {
		f.obj(7, fmt.Sprintf("<< /Type /Font /Subtype /CIDFontType2 /BaseFont /Wide /CIDSystemInfo << /Registry (Adobe) /Ordering (Identity) /Supplement 0 >> /FontDescriptor %s /DW 1000 /W [0 [500 600]] /CIDToGIDMap /Identity >>", fd), false)
	}
	f.stm(4, "", "", []byte("BT /F1 9 Tf "+text+" ET"))
	return f.render(l, 1, false, nil, nil)
}
