package c05

// Materialisation of wirings of spec/robust/Walk.tla as real files.
//
// Model node i is object number i.  Slot values: 0 absent, 1..N that object,
// N+1 a number without object ("dangling"), N+2 the separate root object.
// The variant chooses among renderings that are equivalent for the model:
//
//	bit 0   cross-reference stream (+ helper objects in an object stream)
//	        instead of a classic table
//	bit 1   alternative typing of "other"/"val" objects, of the ignored
//	        /Parent slot and of the dangling number (free entry inside
//	        /Size instead of a number beyond it)

import (
	"fmt"
	"strings"
)

// Wiring is one terminal state of the model (see Gen_Walk.tla).
type Wiring struct {
	Walker string   `json:"w"`
	N      int      `json:"n"`
	Kind   []string `json:"k"`
	A      []int    `json:"a"`
	B      []int    `json:"b"`
	Start  int      `json:"s"`
	Phase  string   `json:"ph"`             // model: done / overflow
	Out    []string `json:"out"`            // model: what the caller sees
	Work   int      `json:"wk"`             // model: fetches
	Bound  int      `json:"bd"`             // model: bound on fetches for this wiring
	Inst   string   `json:"inst,omitempty"` // which real structure plays the model's nodes (walkers with several)

	k string
}

func (w *Wiring) key() string {
	if w.k == "" {
		wk := w.Walker
		if w.Inst != "" {
			wk += ":" + w.Inst
		}
		w.k = fmt.Sprintf("%s/%d/%s/%v/%v/%d", wk, w.N, strings.Join(w.Kind, ","), w.A, w.B, w.Start)
	}
	return w.k
}

type layout struct {
	n                                  int
	dangling, root, cat, pages, page   int
	content, helperStm, xrefObj, extra int
}

func layoutFor(n int, alt bool) layout {
	l := layout{n: n, root: n + 2, cat: n + 3, pages: n + 4, page: n + 5, content: n + 6, helperStm: n + 7, xrefObj: n + 8, extra: n + 10}
	if alt {
		l.dangling = n + 1 // listed as a free entry
	} else {
		l.dangling = 70 // beyond /Size
	}
	return l
}

// tgt renders a slot value as a reference.
func (l layout) tgt(v int) string {
	switch {
	case v == l.n+1:
		return ref(l.dangling)
	case v == l.n+2:
		return ref(l.root)
	}
	return ref(v)
}

// fileSpec collects the objects of a file before it is laid out.
type fileSpec struct {
	objs     map[int]string // plain objects
	streams  map[int]stmSpec
	order    []int
	compress map[int]bool // may go into the helper object stream
}

type stmSpec struct {
	dict, length string
	data         []byte
}

func newFileSpec() *fileSpec {
	return &fileSpec{objs: map[int]string{}, streams: map[int]stmSpec{}, compress: map[int]bool{}}
}
func (f *fileSpec) obj(num int, body string, compressible bool) {
	if _, ok := f.objs[num]; !ok {
		f.order = append(f.order, num)
	}
	f.objs[num] = body
	f.compress[num] = compressible
}
func (f *fileSpec) stm(num int, dict, length string, data []byte) {
	f.order = append(f.order, num)
	f.streams[num] = stmSpec{dict, length, data}
}

// render lays the file out with one cross-reference section.
func (f *fileSpec) render(l layout, rootRef int, xrefStm bool, freeNums []int, extraEnts []xent) []byte {
	a := newAsm("1.7")
	var ents []xent
	ents = append(ents, xent{num: 0, typ: 0})
	var members []int
	for _, num := range f.order {
		if s, ok := f.streams[num]; ok {
			a.stream(num, s.dict, s.length, s.data)
			ents = append(ents, xent{num: num, typ: 1, off: a.offs[num]})
			continue
		}
		if xrefStm && f.compress[num] {
			members = append(members, num)
			continue
		}
		a.obj(num, f.objs[num])
		ents = append(ents, xent{num: num, typ: 1, off: a.offs[num]})
	}
	if len(members) > 0 {
		data, n, first := objStmData(members, f.objs)
		a.stream(l.helperStm, fmt.Sprintf("/Type /ObjStm /N %d /First %d", n, first), "", data)
		ents = append(ents, xent{num: l.helperStm, typ: 1, off: a.offs[l.helperStm]})
		for i, m := range members {
			ents = append(ents, xent{num: m, typ: 2, stm: l.helperStm, idx: i})
		}
	}
	for _, n := range freeNums {
		ents = append(ents, xent{num: n, typ: 0})
	}
	ents = append(ents, extraEnts...)
	var sx int64
	if xrefStm {
		sx = a.xrefStream(l.xrefObj, ents, fmt.Sprintf("/Root %s", ref(rootRef)), true)
	} else {
		size := 0
		for _, e := range ents {
			if e.num+1 > size {
				size = e.num + 1
			}
		}
		sx = a.table(ents, fmt.Sprintf("/Size %d /Root %s", size, ref(rootRef)))
	}
	return a.finish(sx)
}

// Materialise renders the wiring.  ok is false when the variant does not
// apply to the wiring (the caller skips it).
func Materialise(w *Wiring, variant int) (data []byte, ok bool) {
	xs := variant&1 != 0
	alt := variant&2 != 0
	l := layoutFor(w.N, alt)
	if w.Walker == "xref" {
		return materialiseXref(w, l, xs, alt), true
	}
	f := newFileSpec()
	var free []int
	if alt {
		free = append(free, l.dangling)
	}
	// helper objects: catalog, page tree with one page, its content
	catExtra := ""
	pagesRoot := l.pages
	pageRes, pageExtra, contentText := "<< >>", "", "q 1 0 0 1 0 0 cm Q"
	addHelpers := func() {
		f.obj(l.cat, fmt.Sprintf("<< /Type /Catalog /Pages %s %s>>", ref(pagesRoot), catExtra), true)
		if pagesRoot == l.pages {
			f.obj(l.pages, fmt.Sprintf("<< /Type /Pages /Kids [%s] /Count 1 >>", ref(l.page)), true)
			f.obj(l.page, fmt.Sprintf("<< /Type /Page /Parent %s /MediaBox [0 0 100 100] /Resources %s /Contents %s %s>>", ref(l.pages), pageRes, ref(l.content), pageExtra), true)
		}
		f.stm(l.content, "", "", []byte(contentText))
	}
	k := func(i int) string { return w.Kind[i-1] }
	av := func(i int) int { return w.A[i-1] }
	bv := func(i int) int { return w.B[i-1] }

	switch w.Walker {
	case "resolve":
		for i := 1; i <= w.N; i++ {
			if k(i) == "ref" {
				f.obj(i, l.tgt(av(i)), false) // a bare reference cannot live in an object stream
			} else if alt {
				f.obj(i, fmt.Sprint(100+i), true)
			} else {
				f.obj(i, fmt.Sprintf("<< /V %d >>", i), true)
			}
		}
		addHelpers()

	case "length":
		var members []int
		for i := 1; i <= w.N; i++ {
			if bv(i) >= 1 && bv(i) <= w.N {
				members = append(members, i)
			}
		}
		if len(members) > 0 {
			xs = true
		}
		body := map[int]string{}
		for i := 1; i <= w.N; i++ {
			switch k(i) {
			case "int":
				body[i] = fmt.Sprint(100 + i)
			case "ref":
				body[i] = l.tgt(av(i))
			case "dict":
				body[i] = fmt.Sprintf("<< /V %d >>", i)
			case "name":
				body[i] = "/ASCIIHexDecode"
			}
		}
		lenText := func(i int) string {
			if av(i) == 0 || k(i) == "fstream" {
				return ""
			}
			return l.tgt(av(i))
		}
		// does the reference chain from the /Filter of i end in a number without object?
		resolvesNull := func(i int) bool {
			t := av(i)
			for step := 0; step <= w.N; step++ {
				if t < 1 || t > w.N || bv(t) == w.N+1 {
					return true
				}
				if bv(t) != 0 || k(t) != "ref" {
					return false
				}
				t = av(t)
			}
			return false
		}
		// the /Filter entry of an "fstream": a reference, or (alternative
		// rendering) an array whose only element is the reference
		filterText := func(i int) string {
			if k(i) != "fstream" || av(i) == 0 {
				return ""
			}
			// (an array element that resolves to null is an error, a null /Filter
			// is no filter: the array form is used where the model's answer holds)
			if alt && !resolvesNull(i) {
				return fmt.Sprintf("/Filter [%s] ", l.tgt(av(i)))
			}
			return fmt.Sprintf("/Filter %s ", l.tgt(av(i)))
		}
		// does the reader find the name of a filter there?  (references are
		// followed at top level only: GetFilters does not look into object
		// streams.)  If so the data must be encoded accordingly.
		filtered := func(i int) bool {
			if k(i) != "fstream" || av(i) == 0 {
				return false
			}
			t := av(i)
			for step := 0; step <= w.N; step++ {
				if t < 1 || t > w.N || bv(t) != 0 {
					return false
				}
				switch k(t) {
				case "name":
					return true
				case "ref":
					t = av(t)
				default:
					return false
				}
			}
			return false
		}
		enc := func(i int, data []byte) []byte {
			if filtered(i) {
				return hexN(data, 1)
			}
			return data
		}
		memberText := map[int]string{}
		for _, m := range members {
			switch k(m) {
			case "stream", "fstream":
				lt := lenText(m)
				if lt == "" {
					lt = "2"
				}
				// no EOL before the keyword: the enclosing stream's extent stays unambiguous when its own /Length is unusable
				memberText[m] = fmt.Sprintf("<< /Length %s %s>>\nstream\nxy endstream", lt, filterText(m))
			default:
				memberText[m] = body[m]
			}
		}
		var extra []xent
		for i := 1; i <= w.N; i++ {
			switch {
			case bv(i) == w.N+1:
				free = append(free, i)
			case bv(i) >= 1:
				idx := 0
				for j, m := range members {
					if m == i {
						idx = j
					}
				}
				extra = append(extra, xent{num: i, typ: 2, stm: bv(i), idx: idx})
			case k(i) == "stream" || k(i) == "fstream":
				if len(members) > 0 {
					data, n, first := objStmData(members, memberText)
					f.stm(i, fmt.Sprintf("/Type /ObjStm /N %d /First %d %s", n, first, filterText(i)), lenText(i), enc(i, data))
				} else {
					f.stm(i, filterText(i), lenText(i), enc(i, []byte("xyz")))
				}
			default:
				f.obj(i, body[i], false)
			}
		}
		addHelpers()
		for n := range f.compress {
			f.compress[n] = false // the walker decides what is compressed
		}
		return f.render(l, l.cat, xs, free, extra), true

	case "pages":
		pagesRoot = 1
		for i := 1; i <= w.N; i++ {
			parent := ref(1)
			if alt {
				parent = ref(i)
			}
			switch k(i) {
			case "Pages", "PagesInh":
				var kids []string
				for _, v := range []int{av(i), bv(i)} {
					if v != 0 {
						kids = append(kids, l.tgt(v))
					}
				}
				inh := ""
				if k(i) == "PagesInh" {
					inh = "/Rotate 90 "
				}
				f.obj(i, fmt.Sprintf("<< /Type /Pages /Parent %s /Kids [%s] /Count %d %s>>", parent, strings.Join(kids, " "), len(kids), inh), true)
			case "Page":
				f.obj(i, fmt.Sprintf("<< /Type /Page /Parent %s /MediaBox [0 0 100 100] /Resources << >> /Contents %s >>", parent, ref(l.content)), true)
			default:
				if alt {
					f.obj(i, "17", true)
				} else {
					f.obj(i, fmt.Sprintf("<< /Type /Foo /Kids [%s] >>", ref(1)), true)
				}
			}
		}
		addHelpers()

	case "outline":
		catExtra = fmt.Sprintf("/Outlines %s ", ref(l.root))
		f.obj(l.root, fmt.Sprintf("<< /Type /Outlines /First %s /Last %s /Count 1 >>", ref(1), ref(1)), true)
		for i := 1; i <= w.N; i++ {
			if k(i) != "item" {
				if alt {
					f.obj(i, "[1 2]", true)
				} else {
					f.obj(i, "12", true)
				}
				continue
			}
			parent := ref(l.root)
			if alt {
				parent = ref(i)
			}
			s := fmt.Sprintf("<< /Title (n%d) /Parent %s /Count 1 ", i, parent)
			if av(i) != 0 {
				s += "/First " + l.tgt(av(i)) + " /Last " + l.tgt(av(i)) + " "
			}
			if bv(i) != 0 {
				s += "/Next " + l.tgt(bv(i)) + " "
			}
			f.obj(i, s+">>", true)
		}
		addHelpers()

	case "decode", "fields", "parents", "objwalk", "navnode":
		h := materialiseExt(w, l, f, alt)
		if h == nil {
			return nil, false
		}
		catExtra, pageRes, pageExtra, contentText = h.catExtra, h.pageRes, h.pageExtra, h.content
		addHelpers()

	case "nametree":
		if w.Inst == "num" {
			// the same walker code with integer keys: the page label number tree
			catExtra = fmt.Sprintf("/PageLabels %s ", ref(1))
			for i := 1; i <= w.N; i++ {
				switch k(i) {
				case "inner":
					var kids []string
					for _, v := range []int{av(i), bv(i)} {
						if v != 0 {
							kids = append(kids, l.tgt(v))
						}
					}
					lim := "/Limits [0 99] "
					if alt {
						lim = ""
					}
					f.obj(i, fmt.Sprintf("<< %s/Kids [%s] >>", lim, strings.Join(kids, " ")), true)
				case "leaf":
					f.obj(i, fmt.Sprintf("<< /Limits [%d %d] /Nums [%d << /S /D /St %d >>] >>", i, i, i, i+1), true)
				default:
					if alt {
						f.obj(i, "(str)", true)
					} else {
						f.obj(i, "5", true)
					}
				}
			}
			addHelpers()
			break
		}
		catExtra = fmt.Sprintf("/Names << /Dests %s /EmbeddedFiles %s >> ", ref(1), ref(1))
		for i := 1; i <= w.N; i++ {
			switch k(i) {
			case "inner":
				var kids []string
				for _, v := range []int{av(i), bv(i)} {
					if v != 0 {
						kids = append(kids, l.tgt(v))
					}
				}
				lim := "/Limits [(a) (z)] "
				if alt {
					lim = ""
				}
				f.obj(i, fmt.Sprintf("<< %s/Kids [%s] >>", lim, strings.Join(kids, " ")), true)
			case "leaf":
				f.obj(i, fmt.Sprintf("<< /Limits [(n%d) (n%d)] /Names [(n%d) [%s /Fit]] >>", i, i, i, ref(l.page)), true)
			default:
				if alt {
					f.obj(i, "(str)", true)
				} else {
					f.obj(i, "5", true)
				}
			}
		}
		addHelpers()

	case "filters":
		names := func(n int) string { return "[" + strings.Repeat("/ASCIIHexDecode ", n) + "]" }
		for i := 1; i <= w.N; i++ {
			switch k(i) {
			case "plain":
				f.stm(i, "", "", nil) // zero bytes: valid (empty) JBIG2 globals
			case "jbig2":
				parms := ""
				if av(i) != 0 {
					parms = fmt.Sprintf("/DecodeParms << /JBIG2Globals %s >> ", l.tgt(av(i)))
				}
				f.stm(i, "/Filter /JBIG2Decode "+parms, "", jbig2Page)
			case "max":
				f.stm(i, "/Filter "+names(8), "", hexN(nil, 8))
			case "long":
				f.stm(i, "/Filter "+names(9), "", hexN(nil, 9))
			default:
				// GetFilters resolves with canObjStm=false: the target stays at top level
				if alt {
					f.obj(i, "3", false)
				} else {
					f.obj(i, "<< /V 1 >>", false)
				}
			}
		}
		addHelpers()
	default:
		return nil, false
	}
	return f.render(l, l.cat, xs, free, nil), true
}

// materialiseXref renders the sections of an "xref" wiring.  Every section
// lists all objects, so the file opens whichever sections are read; section 1
// is the one startxref names.
func materialiseXref(w *Wiring, l layout, flate, alt bool) []byte {
	a := newAsm("1.7")
	a.obj(l.cat, fmt.Sprintf("<< /Type /Catalog /Pages %s >>", ref(l.pages)))
	a.obj(l.pages, fmt.Sprintf("<< /Type /Pages /Kids [%s] /Count 1 >>", ref(l.page)))
	a.obj(l.page, fmt.Sprintf("<< /Type /Page /Parent %s /MediaBox [0 0 100 100] /Resources << >> >>", ref(l.pages)))
	base := []xent{{num: 0, typ: 0}}
	for _, n := range []int{l.cat, l.pages, l.page} {
		base = append(base, xent{num: n, typ: 1, off: a.offs[n]})
	}
	offs := map[int]int64{}
	slot := func(v int, key string, isPrev bool) string {
		switch {
		case v == 0:
			return ""
		case v == w.N+1:
			bad := "0"
			if alt == isPrev {
				bad = "0000999999" // beyond the end of the file
			}
			return fmt.Sprintf("/%s %s ", key, bad)
		}
		return fmt.Sprintf("/%s %s ", key, offPlaceholder(v))
	}
	for i := 1; i <= w.N; i++ {
		extra := fmt.Sprintf("/Root %s ", ref(l.cat)) + slot(w.A[i-1], "Prev", true)
		switch w.Kind[i-1] {
		case "table":
			extra += slot(w.B[i-1], "XRefStm", false)
			offs[i] = a.table(append([]xent{}, base...), fmt.Sprintf("/Size %d %s", l.extra+20, extra))
		case "stream":
			offs[i] = a.xrefStream(l.extra+i, base, extra, false)
		default:
			offs[i] = a.pos()
			if alt {
				a.raw("this is not a cross-reference section\n")
			} else {
				a.obj(l.extra+10+i, "<< /Foo 1 >>")
			}
		}
	}
	return patchOffsets(a.finish(offs[1]), offs)
}

// jbig2Page is a complete embedded JBIG2 page: page information (8x8) and end of page.
var jbig2Page = []byte{
	0, 0, 0, 0, 0x30, 0, 1, 0, 0, 0, 19, 0, 0, 0, 8, 0, 0, 0, 8, 0, 0, 0, 0, 0, 0, 0, 0, 0, 0, 0,
	0, 0, 0, 1, 0x31, 0, 1, 0, 0, 0, 0,
}
