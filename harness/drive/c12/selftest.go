package c12

import (
	"verif/harness/core"
)

// selfTest: the machinery must notice (i) a corrupted record, (ii) the model
// of the descriptor without gaps failing, (iii) a wrong table line.
func selfTest(ctx *core.Ctx) error {
	// (i) corrupt one field of one record
	rs := predefined["utf8"]
	good := observe(rs, boundaryProbes([][]rng{rs}, 300, func(int) int { return 0 }), "selftest")
	badRec := observe(rs, boundaryProbes([][]rng{rs}, 300, func(int) int { return 0 }), "selftest")
	badRec.Probes[3].Consumed++
	badCSR := observe(rs, boundaryProbes([][]rng{rs}, 300, func(int) int { return 0 }), "selftest")
	badCSR.CSR[0].Hi[0]++
	bad, err := core.JudgeCases(ctx, core.TLCOpts{Dir: "font", Module: "Trace_Charcode", Cfg: "Trace_Charcode.cfg", XssMB: 512},
		[]record{good, badRec, good, badCSR}, 10, 1)
	if err != nil {
		return err
	}
	if len(bad) != 2 || bad[0] != 1 || bad[1] != 3 {
		return core.Infra("self-test: corrupted records not singled out: %v", bad)
	}
	ctx.Logf("self-test (i): corrupted records rejected, intact ones accepted")

	// (ii) the as-coded descriptor must violate DecodeOK in the model
	res, err := ctx.TLC(core.TLCOpts{Dir: "font", Module: "MC_Charcode", Cfg: "MC_Charcode_ascoded.cfg", Workers: 8, Mode: "negative-control"})
	if err != nil {
		return err
	}
	if res.Invariant != "DecodeOK" {
		return core.Infra("self-test: model without gap descriptors should violate DecodeOK, got %q", res.Invariant)
	}
	ctx.Logf("self-test (ii): descriptor without gaps violates DecodeOK in the model")

	// (iii) wrong expectation in a table line
	gc := genCase{Ranges: []rng{{[]int{0}, []int{1}}}, Builds: true, Probes: []genProbe{{S: []int{0}, Valid: true, Consumed: 2, Complete: true}}}
	if checkTable([]rng{{[]int{0}, []int{0x7f}}}, gc, maps3[0]) == "" {
		return core.Infra("self-test: wrong table expectation not noticed")
	}
	ctx.Logf("self-test (iii): wrong table expectation noticed")
	return nil
}
