package c12

import (
	"math/rand"

	"verif/harness/core"
)

// predefined code spaces (ISO 32000 / Adobe CMap resources), written out here
var predefined = map[string][]rng{
	"simple": {{[]int{0}, []int{0xff}}},
	"ucs2":   {{[]int{0, 0}, []int{0xff, 0xff}}},
	"utf8": {{[]int{0}, []int{0x7f}}, {[]int{0xc2, 0x80}, []int{0xdf, 0xbf}},
		{[]int{0xe0, 0x80, 0x80}, []int{0xef, 0xbf, 0xbf}}, {[]int{0xf0, 0x80, 0x80, 0x80}, []int{0xf4, 0xbf, 0xbf, 0xbf}}},
	"90ms-RKSJ": {{[]int{0}, []int{0x80}}, {[]int{0x81, 0x40}, []int{0x9f, 0xfc}}, {[]int{0xa0}, []int{0xdf}},
		{[]int{0xe0, 0x40}, []int{0xfc, 0xfc}}},
	"83pv-RKSJ": {{[]int{0}, []int{0x80}}, {[]int{0x81, 0x40}, []int{0x9f, 0xfc}}, {[]int{0xa0}, []int{0xdf}},
		{[]int{0xe0, 0x40}, []int{0xfc, 0xfc}}, {[]int{0xfd}, []int{0xff}}},
	"EUC-H": {{[]int{0}, []int{0x80}}, {[]int{0x8e, 0xa0}, []int{0x8e, 0xdf}}, {[]int{0xa1, 0xa1}, []int{0xfe, 0xfe}}},
	"GBK":   {{[]int{0}, []int{0x80}}, {[]int{0x81, 0x40}, []int{0xfe, 0xfe}}},
	"CNS-EUC": {{[]int{0}, []int{0x80}}, {[]int{0xa1, 0xa1}, []int{0xfe, 0xfe}},
		{[]int{0x8e, 0xa1, 0xa1, 0xa1}, []int{0x8e, 0xa2, 0xfe, 0xfe}}},
	"GB18030": {{[]int{0}, []int{0x80}}, {[]int{0x81, 0x40}, []int{0xfe, 0xfe}},
		{[]int{0x81, 0x30, 0x81, 0x30}, []int{0xfe, 0x39, 0xfe, 0x39}}},
	"HKscs":      {{[]int{0}, []int{0x80}}, {[]int{0x81, 0x40}, []int{0xfe, 0xfe}}},
	"UniJIS-UTF16": {{[]int{0, 0}, []int{0xd7, 0xff}}, {[]int{0xd8, 0, 0xdc, 0}, []int{0xdb, 0xff, 0xdf, 0xff}}, {[]int{0xe0, 0}, []int{0xff, 0xff}}},
	// the shape of finding F5: equal sub-tree descriptors up to gaps
	"gap-sharing": {{[]int{0, 0}, []int{0, 0x7f}}, {[]int{1, 0x10}, []int{1, 0x7f}}},
}

func randByte(r *rand.Rand) int {
	switch r.Intn(4) {
	case 0:
		return []int{0, 1, 0x0f, 0x10, 0x7f, 0x80, 0x81, 0xfe, 0xff}[r.Intn(9)]
	default:
		return r.Intn(256)
	}
}

func randRange(r *rand.Rand, n int) rng {
	x := rng{make([]int, n), make([]int, n)}
	for i := 0; i < n; i++ {
		a, b := randByte(r), randByte(r)
		if r.Intn(4) == 0 {
			b = a
		}
		if r.Intn(5) == 0 {
			a, b = 0, 255
		}
		if a > b {
			a, b = b, a
		}
		x.Lo[i], x.Hi[i] = a, b
	}
	return x
}

// randomSet draws a range set.  Mode 0: disjoint first bytes (always prefix
// free, mixed lengths); mode 1: several ranges below common first bytes
// (sub-trees, shared and nearly shared); mode 2: unconstrained (often with
// prefix conflicts or overlaps).
func randomSet(r *rand.Rand) []rng {
	n := 1 + r.Intn(8)
	var out []rng
	switch r.Intn(3) {
	case 0:
		cuts := map[int]bool{}
		for len(cuts) < n {
			cuts[r.Intn(256)] = true
		}
		lo := 0
		for c := 0; c < 256; c++ {
			if !cuts[c] {
				continue
			}
			if r.Intn(4) != 0 {
				x := randRange(r, 1+r.Intn(4))
				x.Lo[0], x.Hi[0] = lo, c
				if r.Intn(3) == 0 && c > lo {
					x.Lo[0] = lo + r.Intn(c-lo)
				}
				out = append(out, x)
			}
			lo = c + 1
		}
		if len(out) == 0 {
			out = append(out, randRange(r, 1))
		}
	case 1:
		l := 2 + r.Intn(3)
		base := randRange(r, l)
		for i := 0; i < n; i++ {
			x := rng{append([]int(nil), base.Lo...), append([]int(nil), base.Hi...)}
			// vary first byte among few values, and one later position
			fb := []int{0, 1, 2, 0x80}[r.Intn(4)]
			x.Lo[0], x.Hi[0] = fb, fb
			p := 1 + r.Intn(l-1)
			a, b := randByte(r), randByte(r)
			if a > b {
				a, b = b, a
			}
			x.Lo[p], x.Hi[p] = a, b
			out = append(out, x)
		}
	default:
		for i := 0; i < n; i++ {
			out = append(out, randRange(r, 1+r.Intn(4)))
		}
	}
	return out
}

func randomRecords(ctx *core.Ctx) []record {
	r := ctx.Rand("random-sets")
	var recs []record
	for _, name := range core.SortedKeys(predefined) {
		rs := predefined[name]
		recs = append(recs, observe(rs, boundaryProbes([][]rng{rs}, 800, r.Intn), "predefined:"+name))
	}
	n := ctx.Pick(1200, 12000)
	for i := 0; i < n; i++ {
		rs := randomSet(r)
		// probes induced by the set itself and by what the codec reports
		rec0 := observe(rs, nil, "")
		probes := boundaryProbes([][]rng{rs, rec0.CSR}, 300, r.Intn)
		recs = append(recs, observe(rs, probes, "random"))
	}
	return recs
}
