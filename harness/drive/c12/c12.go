// Package c12 binds spec/font/Charcode.tla to font/charcode.
//
//	P-C  Gen_Charcode (reference semantics) -> case table -> real codec
//	P-B  real codec on random / predefined range sets -> records -> Trace_Charcode
//
// A mismatch found by the table is never reported by itself: the concrete
// range set is turned into a record of what the real code answered and TLC
// judges that record with the reference operators.
package c12

import (
	"encoding/json"
	"fmt"
	"sort"
	"strings"
	"sync"

	"seehuhn.de/go/pdf/font/charcode"

	"verif/harness/core"
)

var Driver = core.Driver{ID: "C12", Level: "model_checking", Run: run, Replay: replay, SelfTest: selfTest}

type rng struct {
	Lo []int `json:"lo"`
	Hi []int `json:"hi"`
}

type genProbe struct {
	S        []int `json:"s"`
	Valid    bool  `json:"valid"`
	Consumed int   `json:"consumed"`
	Complete bool  `json:"complete"`
}

type genCase struct {
	Ranges []rng      `json:"ranges"`
	Builds bool       `json:"builds"`
	Probes []genProbe `json:"probes"`
}

// record of the real code's answers, judged by Trace_Charcode
type probeRec struct {
	S         []int `json:"s"`
	Valid     bool  `json:"valid"`
	Consumed  int   `json:"consumed"`
	Code      []int `json:"code"`
	Reenc     []int `json:"reenc"`
	Valid2    bool  `json:"valid2"`
	Consumed2 int   `json:"consumed2"`
	Code2     []int `json:"code2"`
}

type record struct {
	Ranges []rng      `json:"ranges"`
	Built  bool       `json:"built"`
	Probes []probeRec `json:"probes"`
	CSR    []rng      `json:"csr"`
	Origin string     `json:"origin,omitempty"`
}

func le4(c uint32) []int {
	return []int{int(c & 0xff), int(c >> 8 & 0xff), int(c >> 16 & 0xff), int(c >> 24)}
}

func toBytes(v []int) []byte {
	b := make([]byte, len(v))
	for i, x := range v {
		b[i] = byte(x)
	}
	return b
}

func toInts(b []byte) []int {
	v := make([]int, len(b))
	for i, x := range b {
		v[i] = int(x)
	}
	return v
}

func toCSR(rs []rng) charcode.CodeSpaceRange {
	var csr charcode.CodeSpaceRange
	if rs != nil && len(rs) == 0 {
		csr = charcode.CodeSpaceRange{}
	}
	for _, r := range rs {
		csr = append(csr, charcode.Range{Low: toBytes(r.Lo), High: toBytes(r.Hi)})
	}
	return csr
}

// observe runs the real codec on a concrete range set and probes.
func observe(rs []rng, probes [][]int, origin string) (rec record) {
	rec = record{Ranges: rs, Origin: origin, Probes: []probeRec{}, CSR: []rng{}}
	codec, err := charcode.NewCodec(toCSR(rs))
	if err != nil {
		return rec
	}
	rec.Built = true
	for _, r := range codec.CodeSpaceRange() {
		rec.CSR = append(rec.CSR, rng{toInts(r.Low), toInts(r.High)})
	}
	for _, s := range probes {
		code, consumed, valid := codec.Decode(toBytes(s))
		re := codec.AppendCode(nil, code)
		code2, consumed2, valid2 := codec.Decode(re)
		rec.Probes = append(rec.Probes, probeRec{S: s, Valid: valid, Consumed: consumed, Code: le4(uint32(code)),
			Reenc: toInts(re), Valid2: valid2, Consumed2: consumed2, Code2: le4(uint32(code2))})
	}
	return rec
}

// emptyCodeSpace is an extension beyond C12's statement: a code space
// without ranges (nil and empty), where go-pdf documents that every byte is
// consumed as an invalid one-byte code.  Charcode.RefDecode({}, s) says the
// same, so the records are judged by Trace_Charcode like all others, but a
// rejection is printed as NOTE only.
func emptyCodeSpace() []record {
	var probes [][]int
	vals := []int{0x00, 0x01, 0x7f, 0x80, 0xff}
	for n := 1; n <= 5; n++ {
		for _, a := range vals {
			for _, b := range vals {
				s := make([]int, n)
				for i := range s {
					if i%2 == 0 {
						s[i] = a
					} else {
						s[i] = b
					}
				}
				probes = append(probes, s)
			}
		}
	}
	var out []record
	for _, origin := range []string{"empty-code-space/nil", "empty-code-space/empty"} {
		var rs []rng
		if strings.HasSuffix(origin, "/empty") {
			rs = []rng{}
		}
		rec := observe(rs, probes, origin)
		rec.Ranges = []rng{}
		out = append(out, rec)
	}
	return out
}

func canon(rs []rng) string {
	var parts []string
	for _, r := range rs {
		parts = append(parts, fmt.Sprintf("%x-%x", toBytes(r.Lo), toBytes(r.Hi)))
	}
	sort.Strings(parts)
	return strings.Join(parts, ",")
}

// order preserving concretisations of the abstract bytes 0..2
var maps3 = [][]int{
	{0x00, 0x7f, 0xff},
	{0x00, 0x01, 0x02},
	{0x10, 0x80, 0xfe},
	{0x01, 0x0f, 0x10},
	{0x7f, 0x80, 0x81},
	{0xfd, 0xfe, 0xff},
}

func concretise(v []int, m []int) []int {
	out := make([]int, len(v))
	for i, x := range v {
		out[i] = m[x]
	}
	return out
}

// boundaryProbes builds the probes induced by the range bounds: per byte
// position every lo, hi, lo-1, hi+1 plus 0 and 255; the cartesian product up
// to four positions, thinned deterministically to at most limit probes.
func boundaryProbes(sets [][]rng, limit int, pick func(n int) int) [][]int {
	var vals [4]map[int]bool
	for i := range vals {
		vals[i] = map[int]bool{0: true, 255: true}
	}
	maxLen := 1
	for _, rs := range sets {
		for _, r := range rs {
			if len(r.Lo) != len(r.Hi) || len(r.Lo) > 4 {
				continue
			}
			if len(r.Lo) > maxLen {
				maxLen = len(r.Lo)
			}
			for i := range r.Lo {
				for _, x := range []int{r.Lo[i], r.Hi[i], r.Lo[i] - 1, r.Hi[i] + 1} {
					if x >= 0 && x <= 255 {
						vals[i][x] = true
					}
				}
			}
		}
	}
	var lists [4][]int
	for i := range vals {
		for x := range vals[i] {
			lists[i] = append(lists[i], x)
		}
		sort.Ints(lists[i])
	}
	n := maxLen + 1
	if n > 4 {
		n = 4
	}
	var out [][]int
	var rec func(prefix []int)
	rec = func(prefix []int) {
		if len(prefix) > 0 {
			out = append(out, append([]int(nil), prefix...))
		}
		if len(prefix) == n {
			return
		}
		for _, x := range lists[len(prefix)] {
			rec(append(prefix, x))
		}
	}
	total := 1
	for i := 0; i < n; i++ {
		total *= len(lists[i])
	}
	if total <= limit {
		rec(nil)
		return out
	}
	// too many: all probes of length <= 2, and a sample of the longer ones
	for _, a := range lists[0] {
		out = append(out, []int{a})
		for _, b := range lists[1] {
			if len(out) < limit/2 {
				out = append(out, []int{a, b})
			}
		}
	}
	for len(out) < limit {
		s := make([]int, n)
		for i := range s {
			s[i] = lists[i][pick(len(lists[i]))]
		}
		out = append(out, s[:1+pick(n)])
	}
	return out
}

func run(ctx *core.Ctx) error {
	ctx.Ev.Rule = "cases = (range set, probe) pairs executed on font/charcode; a range set is non-trivial when the codec is built, " +
		"has at least one valid and one invalid probe; distinct = distinct concrete range sets (canonical hex form)"
	ctx.Ev.Assume("TLC evaluates Charcode.tla faithfully; the reference operators (RefDecode, PrefixFree, SameOn) state ISO 32000-2 9.7.6.2/9.7.6.3")

	// 1. exhaustive design model: implementation-shaped operators = reference
	cfg := "MC_Charcode_q.cfg"
	if ctx.Thorough() {
		cfg = "MC_Charcode_t.cfg"
	}
	if _, err := ctx.MustHold(core.TLCOpts{Dir: "font", Module: "MC_Charcode", Cfg: cfg, Workers: 16,
		Constants: "B=3; see " + cfg, Timeout: ctx.Dur(5, 25)}); err != nil {
		return err
	}

	if ctx.Thorough() {
		if _, err := ctx.MustHold(core.TLCOpts{Dir: "font", Module: "MC_Charcode", Cfg: "MC_Charcode_t4.cfg", Workers: 16,
			Constants: "B=2, four-byte ranges; see MC_Charcode_t4.cfg", Timeout: ctx.Dur(5, 25)}); err != nil {
			return err
		}
	}

	// 2. P-C: case table from the reference semantics, executed on the real codec
	cases, err := generate(ctx)
	if err != nil {
		return err
	}
	suspects := map[string][]rng{}
	nmaps := ctx.Pick(3, len(maps3))
	var mu sync.Mutex
	var wg sync.WaitGroup
	sem := make(chan struct{}, 16)
	for ci, gc := range cases {
		wg.Add(1)
		sem <- struct{}{}
		go func(ci int, gc genCase) {
			defer wg.Done()
			defer func() { <-sem }()
			for k := 0; k < nmaps; k++ {
				m := maps3[(ci+k*7+int(ctx.Seed))%len(maps3)]
				if k == 0 {
					m = maps3[0]
				}
				var rs []rng
				for _, r := range gc.Ranges {
					rs = append(rs, rng{concretise(r.Lo, m), concretise(r.Hi, m)})
				}
				bad := checkTable(rs, gc, m)
				ctx.Ev.Eval(1 + len(gc.Probes))
				if gc.Builds {
					ctx.Ev.Distinct(canon(rs))
				}
				if bad != "" {
					mu.Lock()
					suspects[canon(rs)] = rs
					mu.Unlock()
				}
			}
		}(ci, gc)
	}
	wg.Wait()
	ctx.Ev.AddReplayed(len(cases) * nmaps)
	if len(cases) > 0 {
		ctx.Ev.Sample(map[string]any{"kind": "spec case replayed on charcode.Codec", "case": cases[len(cases)/2]})
	}
	ctx.Logf("case table: %d abstract range sets x %d concretisations executed, %d suspects", len(cases), nmaps, len(suspects))

	// 3. P-B: the real codec on real-byte range sets, judged by TLC
	var recs []record
	for _, k := range core.SortedKeys(suspects) {
		rs := suspects[k]
		recs = append(recs, observe(rs, boundaryProbes([][]rng{rs}, 600, func(n int) int { return 0 }), "table-suspect"))
	}
	nsus := len(recs)
	recs = append(recs, randomRecords(ctx)...)
	recs = append(recs, emptyCodeSpace()...)
	bad, err := core.JudgeCases(ctx, core.TLCOpts{Dir: "font", Module: "Trace_Charcode", Cfg: "Trace_Charcode.cfg", XssMB: 512,
		Timeout: ctx.Dur(10, 30)}, recs, 100, 16)
	if err != nil {
		return err
	}
	isBad := map[int]bool{}
	for _, b := range bad {
		isBad[b] = true
		if len(recs[b].Ranges) == 0 {
			// extension: ISO 32000-2 9.7.6.3 prescribes nothing for a code
			// space without ranges and C12 quantifies over non-empty sets
			fmt.Printf("NOTE extension=empty-code-space key=codec/n=0/%s font/charcode on a code space without ranges departs from the documented behaviour (every byte is an invalid one-byte code, no ranges reported)\n", recs[b].Origin)
			ctx.Ev.Add("extension_findings", 1)
			continue
		}
		report(ctx, recs[b])
	}
	for i := 0; i < nsus; i++ {
		if !isBad[i] {
			return core.Infra("harness and specification disagree: table mismatch for %s is accepted by Trace_Charcode", canon(recs[i].Ranges))
		}
	}
	for _, r := range recs {
		ctx.Ev.Eval(1 + len(r.Probes))
		v, iv := 0, 0
		for _, p := range r.Probes {
			if p.Valid {
				v++
			} else {
				iv++
			}
		}
		if r.Built && v > 0 && iv > 0 {
			ctx.Ev.Distinct(canon(r.Ranges))
		}
	}
	if len(recs) > nsus {
		r := recs[nsus]
		if len(r.Probes) > 6 {
			r.Probes = r.Probes[:6]
		}
		ctx.Ev.Sample(map[string]any{"kind": "record of real codec judged by Trace_Charcode", "record": r})
	}
	ctx.Ev.Exhaustive = true
	ctx.Ev.Set("exhaustive_scope", "all range sets of the bounded model ("+cfg+") in TLC and on the real codec; random range sets beyond")
	return nil
}

// checkTable executes one table line on the real codec.
func checkTable(rs []rng, gc genCase, m []int) string {
	codec, err := charcode.NewCodec(toCSR(rs))
	if (err == nil) != gc.Builds {
		return "builds"
	}
	if err != nil {
		return ""
	}
	for _, p := range gc.Probes {
		s := toBytes(concretise(p.S, m))
		code, consumed, valid := codec.Decode(s)
		if valid != p.Valid || consumed != p.Consumed {
			return "decode"
		}
		if p.Complete {
			re := codec.AppendCode(nil, code)
			if string(re) != string(s[:consumed]) {
				return "reencode"
			}
		}
	}
	if !codec.CodeSpaceRange().Equivalent(toCSR(rs)) {
		return "csr"
	}
	return ""
}

func report(ctx *core.Ctx, r record) {
	// classify by what differs, using only coarse, stable features
	lens := map[int]bool{}
	for _, x := range r.Ranges {
		lens[len(x.Lo)] = true
	}
	var ls []string
	for l := 1; l <= 4; l++ {
		if lens[l] {
			ls = append(ls, fmt.Sprint(l))
		}
	}
	key := fmt.Sprintf("codec/n=%d/lens=%s/%s", len(r.Ranges), strings.Join(ls, "+"), canon(r.Ranges))
	ctx.Violation(key, fmt.Sprintf("font/charcode answers for code space ranges {%s} are rejected by the reference semantics (Trace_Charcode)", canon(r.Ranges)),
		map[string]any{"ranges": r.Ranges})
}

func generate(ctx *core.Ctx) ([]genCase, error) {
	all, err := generateB(ctx, 3, ctx.Pick(2, 3), ctx.Pick(1, 16))
	if err != nil || !ctx.Thorough() {
		return all, err
	}
	// four-byte ranges over two abstract bytes (concretised through the first
	// two letters of the 3-letter maps)
	more, err := generateB(ctx, 2, 4, 8)
	return append(all, more...), err
}

func generateB(ctx *core.Ctx, b, maxLen, shards int) ([]genCase, error) {
	var all []genCase
	var mu sync.Mutex
	var wg sync.WaitGroup
	var first error
	for sh := 0; sh < shards; sh++ {
		wg.Add(1)
		go func(sh int) {
			defer wg.Done()
			cfg := fmt.Sprintf("INIT Init\nNEXT Next\nCONSTANTS B = %d\n WITH_GAPS = TRUE\n MaxLen = %d\n MaxRanges = 3\n Lens3 = {1, 2}\n Shard = %d\n Shards = %d\n", b, maxLen, sh, shards)
			cs, _, err := core.GenCases[genCase](ctx, core.TLCOpts{Dir: "font", Module: "Gen_Charcode", CfgText: cfg, Mode: "evaluate",
				XssMB: 512, Timeout: ctx.Dur(5, 25), Quiet: sh > 0})
			mu.Lock()
			defer mu.Unlock()
			if err != nil && first == nil {
				first = err
			}
			all = append(all, cs...)
		}(sh)
	}
	wg.Wait()
	if first != nil {
		return nil, first
	}
	if len(all) == 0 {
		return nil, core.Infra("Gen_Charcode produced no cases")
	}
	sort.Slice(all, func(i, j int) bool { return canon(all[i].Ranges) < canon(all[j].Ranges) })
	return all, nil
}

func replay(ctx *core.Ctx, raw json.RawMessage) error {
	var c struct {
		Ranges []rng `json:"ranges"`
	}
	if err := json.Unmarshal(raw, &c); err != nil {
		return core.Infra("replay: %v", err)
	}
	rec := observe(c.Ranges, boundaryProbes([][]rng{c.Ranges}, 600, func(n int) int { return 0 }), "replay")
	bad, err := core.JudgeCases(ctx, core.TLCOpts{Dir: "font", Module: "Trace_Charcode", Cfg: "Trace_Charcode.cfg", XssMB: 512}, []record{rec}, 1, 1)
	if err != nil {
		return err
	}
	if len(bad) > 0 {
		for _, p := range rec.Probes {
			fmt.Printf("  probe %x -> valid=%v consumed=%d reenc=%x\n", toBytes(p.S), p.Valid, p.Consumed, toBytes(p.Reenc))
			if len(rec.Probes) > 40 {
				break
			}
		}
		fmt.Printf("  reported code space: %s\n", canon(rec.CSR))
		report(ctx, rec)
	}
	return nil
}
