package ser_test

import (
	"bytes"
	"fmt"
	"math/rand"
	"os"
	"testing"

	"verif/harness/indep/obj"
	"verif/harness/indep/ser"
	"verif/harness/indep/strict"
)

func stripLength(v obj.Value) obj.Value {
	if s, ok := v.(*obj.Stream); ok {
		d := obj.Dict{}
		for k, e := range s.Dict {
			if k != "Length" {
				d[k] = e
			}
		}
		return &obj.Stream{Dict: d, Raw: s.Raw}
	}
	return v
}

// check compares the abstract history the strict parser extracts with the
// one the serialiser was given.
func check(doc *ser.Doc, res *ser.Result, wrongLengths bool) error {
	f, err := strict.Parse(res.Bytes)
	if err != nil {
		return err
	}
	if f.HeaderOffset != int64(res.HeaderOffset) {
		return fmt.Errorf("header offset %d, want %d", f.HeaderOffset, res.HeaderOffset)
	}
	for _, p := range strict.WellFormed(f) {
		if p.Clause == "length" && wrongLengths {
			continue
		}
		if p.Clause == "endstream-eol" && res.Choices.EndstreamNoEOL {
			continue
		}
		return fmt.Errorf("not well formed: %s", p)
	}
	if len(f.Sections) != len(doc.Revisions) {
		return fmt.Errorf("%d sections for %d revisions", len(f.Sections), len(doc.Revisions))
	}
	n := len(f.Sections)
	for k := 1; k <= n; k++ {
		sec := f.Sections[n-k]
		rev := doc.Revisions[k-1]
		if sec.Kind.String() != rev.Kind.String() {
			return fmt.Errorf("revision %d: kind %s, want %s", k, sec.Kind, rev.Kind)
		}
		if sec.Offset != res.SectionOffsets[k-1] {
			return fmt.Errorf("revision %d: section at %d, want %d", k, sec.Offset, res.SectionOffsets[k-1])
		}
		if sec.Size != int64(res.Sizes[k-1]) {
			return fmt.Errorf("revision %d: /Size %d, want %d", k, sec.Size, res.Sizes[k-1])
		}
		for key, want := range rev.Trailer {
			if !obj.Equal(sec.Trailer[key], want) {
				return fmt.Errorf("revision %d: trailer /%s = %s, want %s", k, key, obj.String(sec.Trailer[key]), obj.String(want))
			}
		}
		for key := range sec.Trailer {
			switch key {
			case "Size", "Prev", "XRefStm", "Type", "W", "Index", "Length", "Filter", "DecodeParms":
			default:
				if _, ok := rev.Trailer[key]; !ok {
					return fmt.Errorf("revision %d: unexpected trailer key /%s", k, key)
				}
			}
		}
		t := f.TableAt(k)
		states := res.States[k-1]
		if len(t) != len(states) {
			return fmt.Errorf("revision %d: %d entries in force, want %d", k, len(t), len(states))
		}
		for num, st := range states {
			e, ok := t[num]
			if !ok {
				return fmt.Errorf("revision %d: object %d has no entry", k, num)
			}
			switch st.Status {
			case ser.IsFree:
				if e.Type != strict.Free || e.Gen != st.Gen {
					return fmt.Errorf("revision %d: object %d: entry %+v, want free generation %d", k, num, e, st.Gen)
				}
				if _, found := f.LookupAt(k, obj.Ref{Num: num, Gen: st.Gen}); found {
					return fmt.Errorf("revision %d: free object %d resolves", k, num)
				}
			case ser.InUse:
				if st.Compressed != (e.Type == strict.Compressed) {
					return fmt.Errorf("revision %d: object %d: entry type %s", k, num, e.Type)
				}
				v, found := f.LookupAt(k, obj.Ref{Num: num, Gen: st.Gen})
				if !found {
					return fmt.Errorf("revision %d: object %d %d does not resolve", k, num, st.Gen)
				}
				if st.Value != nil && !obj.Equal(stripLength(v), stripLength(st.Value)) {
					return fmt.Errorf("revision %d: object %d = %s, want %s", k, num, obj.String(v), obj.String(st.Value))
				}
				for _, g := range []uint16{st.Gen + 1, st.Gen + 7, 65535} {
					if _, found := f.LookupAt(k, obj.Ref{Num: num, Gen: g}); found && g != st.Gen {
						return fmt.Errorf("revision %d: stale reference %d %d resolves", k, num, g)
					}
				}
			}
		}
		if _, found := f.LookupAt(k, obj.Ref{Num: res.Sizes[k-1]}); found {
			return fmt.Errorf("revision %d: number = /Size resolves", k)
		}
	}
	// the free list of the final table is a chain from object 0 through all
	// free entries that are not retired
	t := f.Table()
	seen := map[uint32]bool{}
	for n := t[0].NextFree; n != 0; n = t[n].NextFree {
		if seen[n] || t[n].Type != strict.Free {
			return fmt.Errorf("free list broken at object %d", n)
		}
		seen[n] = true
	}
	for num, e := range t {
		if num != 0 && e.Type == strict.Free && e.Gen != 65535 && !seen[num] {
			return fmt.Errorf("free object %d (generation %d) is not in the free list", num, e.Gen)
		}
		if e.Type == strict.Free && e.Gen == 65535 && num != 0 && e.NextFree != 0 {
			return fmt.Errorf("retired object %d has next %d", num, e.NextFree)
		}
	}
	// declared lengths
	for _, rev := range doc.Revisions {
		for _, op := range rev.Ops {
			st, ok := op.Value.(*obj.Stream)
			if !ok {
				continue
			}
			for _, o := range f.Objects {
				if o.Ref.Num != op.Num || o.Stream == nil || !bytes.Equal(o.Stream.Raw, st.Raw) {
					continue
				}
				want := map[ser.LengthMode]string{ser.LenDirect: "direct", ser.LenIndirect: "indirect", ser.LenMissing: "missing",
					ser.LenWrong: "direct", ser.LenUnresolvable: "invalid", ser.LenNegative: "invalid"}[op.Length]
				if o.Stream.LengthKind == want {
					goto found
				}
			}
			return fmt.Errorf("stream %d: no physical object with length kind of mode %s", op.Num, op.Length)
		found:
		}
	}
	return nil
}

func TestRoundTrip(t *testing.T) {
	n := 4000
	if testing.Short() {
		n = 300
	}
	kinds := map[string]int{}
	for seed := int64(1); seed <= int64(n); seed++ {
		r := rand.New(rand.NewSource(seed))
		wrong := seed%3 == 0
		doc := ser.RandomDoc(r, 4, 4, wrong)
		for variant := int64(0); variant < 3; variant++ {
			res, err := ser.RenderResult(doc, &ser.Options{Seed: seed*10 + variant})
			if err != nil {
				t.Fatalf("seed %d: %v", seed, err)
			}
			if err := check(doc, res, wrong); err != nil {
				os.WriteFile(fmt.Sprintf("/tmp/c04-fail-%d-%d.pdf", seed, variant), res.Bytes, 0o644)
				t.Fatalf("seed %d variant %d: %v", seed, variant, err)
			}
		}
		for _, rev := range doc.Revisions {
			kinds[rev.Kind.String()]++
		}
	}
	t.Logf("revisions by kind: %v", kinds)
	if kinds["hybrid"] == 0 || kinds["stream"] == 0 || kinds["table"] == 0 {
		t.Errorf("a kind was never generated: %v", kinds)
	}
}

// every single choice value is exercised on one document
func TestChoices(t *testing.T) {
	r := rand.New(rand.NewSource(99))
	for i := 0; i < 200; i++ {
		doc := ser.RandomDoc(r, 3, 3, false)
		c := ser.PickChoices(int64(i))
		c.Prefix = []int{0, 1, 1000, 1019}[i%4]
		c.XRefFilter = i % 6
		c.WPad = [3]int{i % 2, []int{0, 1, 3, 7}[i%4], i % 3 % 2}
		res, err := ser.RenderResult(doc, &ser.Options{Seed: int64(i), Choices: &c})
		if err != nil {
			t.Fatal(err)
		}
		if err := check(doc, res, false); err != nil {
			os.WriteFile(fmt.Sprintf("/tmp/c04-fail-choice-%d.pdf", i), res.Bytes, 0o644)
			t.Fatalf("case %d: %v", i, err)
		}
	}
}

// the encryption hooks of both libraries fit together (a XOR "cipher" stands
// in for indep/secure)
func TestEncryptHook(t *testing.T) {
	xor := func(ref obj.Ref, data []byte) []byte {
		out := make([]byte, len(data))
		for i, c := range data {
			out[i] = c ^ byte(0x40+ref.Num)
		}
		return out
	}
	doc := &ser.Doc{EncryptRef: obj.Ref{Num: 5}, Revisions: []ser.Revision{{Kind: ser.Stream, Ops: []ser.Op{
		{Num: 1, Kind: ser.Define, Value: obj.Dict{"Type": obj.Name("Catalog"), "Pages": obj.Ref{Num: 2}, "S": obj.Str("secret")}},
		{Num: 2, Kind: ser.Define, Value: obj.Dict{"Type": obj.Name("Pages"), "Kids": obj.Array{}, "Count": obj.Int(0)}},
		{Num: 3, Kind: ser.Define, Value: &obj.Stream{Dict: obj.Dict{"T": obj.Str("in dict")}, Raw: []byte("stream data")}, Length: ser.LenIndirect},
		{Num: 4, Kind: ser.Define, Value: obj.Array{obj.Str("compressed"), obj.Int(7)}, InObjStm: true},
		{Num: 5, Kind: ser.Define, Value: obj.Dict{"Filter": obj.Name("Standard"), "O": obj.Str("not encrypted")}},
	}, Trailer: obj.Dict{"Root": obj.Ref{Num: 1}, "Encrypt": obj.Ref{Num: 5}, "ID": obj.Array{obj.Str("id-a"), obj.Str("id-b")}}}}}
	for seed := int64(0); seed < 40; seed++ {
		res, err := ser.RenderResult(doc, &ser.Options{Seed: seed, Encrypt: func(ref obj.Ref, isStream bool, data []byte) []byte { return xor(ref, data) }})
		if err != nil {
			t.Fatal(err)
		}
		if bytes.Contains(res.Bytes, []byte("secret")) || bytes.Contains(res.Bytes, []byte("stream data")) {
			t.Fatalf("seed %d: plaintext in the file", seed)
		}
		f, err := strict.ParseOpts(res.Bytes, &strict.Options{Decrypt: func(ref obj.Ref, isStream bool, data []byte) ([]byte, error) { return xor(ref, data), nil }})
		if err != nil {
			t.Fatalf("seed %d: %v", seed, err)
		}
		if !f.Encrypted {
			t.Fatal("not recognised as encrypted")
		}
		for _, p := range strict.WellFormed(f) {
			t.Errorf("seed %d: %s", seed, p)
		}
		for _, op := range doc.Revisions[0].Ops {
			ref := obj.Ref{Num: op.Num}
			v, ok := f.Lookup(ref)
			if !ok {
				t.Fatalf("seed %d: object %d not found", seed, op.Num)
			}
			if o, idx := f.LookupObject(ref); idx < 0 && o != nil && ref != doc.EncryptRef {
				v, err = f.DecryptValue(ref, v)
				if err != nil {
					t.Fatal(err)
				}
			}
			if !obj.Equal(stripLength(v), op.Value) {
				t.Errorf("seed %d: object %d = %s, want %s", seed, op.Num, obj.String(v), obj.String(op.Value))
			}
		}
	}
}

// a number below the serialiser's own objects that is first defined by a later
// revision is listed as free with generation 0 (not retired) until then
func TestLateDefinition(t *testing.T) {
	cat := obj.Dict{"Type": obj.Name("Catalog"), "Pages": obj.Ref{Num: 2}}
	pages := obj.Dict{"Type": obj.Name("Pages"), "Kids": obj.Array{}, "Count": obj.Int(0)}
	for _, kind := range []ser.Kind{ser.Table, ser.Stream} {
		doc := &ser.Doc{Revisions: []ser.Revision{
			{Kind: kind, Ops: []ser.Op{{Num: 1, Kind: ser.Define, Value: cat}, {Num: 2, Kind: ser.Define, Value: pages}, {Num: 7, Kind: ser.Define, Value: obj.Int(7)}},
				Trailer: obj.Dict{"Root": obj.Ref{Num: 1}}},
			{Kind: kind, Ops: []ser.Op{{Num: 4, Kind: ser.Define, Value: obj.Str("late")}, {Num: 5, Kind: ser.Free, Style: ser.Linked}},
				Trailer: obj.Dict{"Root": obj.Ref{Num: 1}}},
		}}
		for seed := int64(0); seed < 60; seed++ {
			c := ser.PickChoices(seed)
			c.AutoFreeRetired = true
			res, err := ser.RenderResult(doc, &ser.Options{Seed: seed, Choices: &c})
			if err != nil {
				t.Fatal(err)
			}
			if err := check(doc, res, false); err != nil {
				t.Fatalf("seed %d: %v", seed, err)
			}
			f, _ := strict.Parse(res.Bytes)
			if v, ok := f.Lookup(obj.Ref{Num: 4}); !ok || !obj.Equal(v, obj.Str("late")) {
				t.Fatalf("seed %d: 4 0 R = %v %v", seed, v, ok)
			}
			if st := res.States[0][3]; st.Gen != 65535 || res.States[0][4].Gen != 0 {
				t.Fatalf("seed %d: auto-free generations %d / %d", seed, st.Gen, res.States[0][4].Gen)
			}
		}
	}
}

// tight object streams: /First equals the length of the offset table when the
// first member starts with a delimiter
func TestTightObjStm(t *testing.T) {
	cat := obj.Dict{"Type": obj.Name("Catalog"), "Pages": obj.Ref{Num: 2}}
	pages := obj.Dict{"Type": obj.Name("Pages"), "Kids": obj.Array{}, "Count": obj.Int(0)}
	firsts := []obj.Value{obj.Dict{"A": obj.Int(1)}, obj.Array{obj.Int(1)}, obj.Str("s"), obj.Name("N"), obj.Int(5), obj.Bool(true)}
	touching := 0
	for i, fv := range firsts {
		doc := &ser.Doc{Revisions: []ser.Revision{{Kind: ser.Stream, Ops: []ser.Op{
			{Num: 1, Kind: ser.Define, Value: cat}, {Num: 2, Kind: ser.Define, Value: pages},
			{Num: 3, Kind: ser.Define, Value: fv, InObjStm: true}, {Num: 4, Kind: ser.Define, Value: obj.Int(9), InObjStm: true},
			{Num: 5, Kind: ser.Define, Value: obj.Name("x"), InObjStm: true},
		}, Trailer: obj.Dict{"Root": obj.Ref{Num: 1}}}}}
		for seed := int64(0); seed < 30; seed++ {
			c := ser.PickChoices(seed)
			c.ObjStmTight, c.ObjStmGroup, c.Order, c.Comments = true, 0, 0, 0
			res, err := ser.RenderResult(doc, &ser.Options{Seed: seed, Choices: &c})
			if err != nil {
				t.Fatal(err)
			}
			if err := check(doc, res, false); err != nil {
				t.Fatalf("first %d seed %d: %v", i, seed, err)
			}
			f, _ := strict.Parse(res.Bytes)
			for _, o := range f.Objects {
				if o.ObjStm == nil {
					continue
				}
				dec := o.ObjStm.Decoded
				gap := dec[o.ObjStm.First-1] == ' '
				if gap != (i >= 4) || o.ObjStm.Pairs[0].Off != 0 {
					t.Fatalf("first %d seed %d: table %q", i, seed, dec[:o.ObjStm.First+2])
				}
				if !gap {
					touching++
				}
			}
		}
	}
	if touching == 0 {
		t.Error("no object stream with the first member touching the table")
	}
}

// no end-of-line marker before endstream where /Length is right
func TestNoEOLBeforeEndstream(t *testing.T) {
	for seed := int64(1); seed <= 300; seed++ {
		r := rand.New(rand.NewSource(seed))
		wrong := seed%2 == 0
		doc := ser.RandomDoc(r, 3, 4, wrong)
		c := ser.PickChoices(seed)
		c.EndstreamNoEOL = true
		res, err := ser.RenderResult(doc, &ser.Options{Seed: seed, Choices: &c})
		if err != nil {
			t.Fatal(err)
		}
		if err := check(doc, res, wrong); err != nil {
			t.Fatalf("seed %d: %v", seed, err)
		}
		f, _ := strict.Parse(res.Bytes)
		for _, o := range f.Objects {
			if o.Stream != nil && (o.Stream.EOLBefore == "") != o.Stream.LengthOK {
				t.Fatalf("seed %d: stream %s: EOL %q, length ok %v", seed, o.Ref, o.Stream.EOLBefore, o.Stream.LengthOK)
			}
		}
	}
}
