package ser

import (
	"bytes"
	"fmt"
	"math/rand"
	"sort"
	"strconv"

	"verif/harness/indep/obj"
)

// Syntax holds the choices that govern how tokens are spelled.
type Syntax struct {
	// EOL is the end-of-line marker used wherever any of the three is legal.
	EOL string
	// WS selects the white space between tokens: 0 single spaces / EOLs,
	// 1 mixed runs of SP, HT, LF, CR, FF (and NUL if NulWS), 2 minimal (none
	// where a delimiter separates the tokens).
	WS int
	// NulWS allows NUL (0x00) as white space between tokens.
	NulWS bool
	// Comments inserts comments between tokens (probability in percent).
	Comments int
	// Strings: 0 literal, 1 hexadecimal, 2 mixed.
	Strings int
	// StrEscapes: 0 minimal, 1 octal for non-printable, 2 heavy (named
	// escapes, octal with fewer than three digits, line continuations,
	// raw line feeds, balanced parentheses left alone, useless backslashes).
	StrEscapes int
	// NameEscapes: 0 only where required, 1 some regular characters too,
	// 2 every character.
	NameEscapes int
	// HexLower writes hexadecimal digits in lower case.
	HexLower bool
	// IntPlus writes some non-negative integers with a leading '+' or zeros.
	IntPlus bool
}

type writer struct {
	buf bytes.Buffer
	rng *rand.Rand
	sx  Syntax
	// last byte class written: true if the last byte was a regular character
	// (so that white space is required before another regular token)
}

func (w *writer) lastRegular() bool {
	b := w.buf.Bytes()
	if len(b) == 0 {
		return false
	}
	c := b[len(b)-1]
	// a '/' at the end is the empty name: a regular character written next
	// would become part of it
	return c == '/' || (!isWhite(c) && !isDelim(c))
}

func isWhite(c byte) bool { return c == 0 || c == 9 || c == 10 || c == 12 || c == 13 || c == 32 }
func isDelim(c byte) bool {
	switch c {
	case '(', ')', '<', '>', '[', ']', '{', '}', '/', '%':
		return true
	}
	return false
}

// comment writes a comment (ended by an end-of-line marker).
func (w *writer) comment() {
	texts := []string{"", " c", "%x", " endobj", " 1 0 obj", " stream", "(", " <<", "/N", " endstream xref", " trailer << /Size 0 >>", " startxref", "\x00\xfe"}
	w.buf.WriteByte('%')
	w.buf.WriteString(texts[w.rng.Intn(len(texts))])
	w.buf.WriteString(w.sx.EOL)
}

// sep writes white space between two tokens.  need says that the tokens
// would otherwise run together.
func (w *writer) sep(need bool) {
	if w.sx.Comments > 0 && w.rng.Intn(100) < w.sx.Comments {
		if w.rng.Intn(2) == 0 {
			w.buf.WriteByte(' ')
		}
		w.comment()
		return
	}
	switch w.sx.WS {
	case 2:
		if need {
			w.buf.WriteByte(' ')
		}
	case 1:
		n := w.rng.Intn(3)
		if need && n == 0 {
			n = 1
		}
		set := []string{" ", "\t", "\n", "\r", "\f", "\r\n", "  "}
		if w.sx.NulWS {
			set = append(set, "\x00")
		}
		for i := 0; i < n; i++ {
			w.buf.WriteString(set[w.rng.Intn(len(set))])
		}
	default:
		w.buf.WriteByte(' ')
	}
}

// tokSep separates the next token from the previous one; regular tells
// whether the next token starts with a regular character.
func (w *writer) tokSep(regular bool) { w.sep(regular && w.lastRegular()) }

// line ends a line (used between objects and in fixed-format places).
func (w *writer) line() { w.buf.WriteString(w.sx.EOL) }

func (w *writer) hexDigits(b byte) {
	const up, lo = "0123456789ABCDEF", "0123456789abcdef"
	d := up
	if w.sx.HexLower {
		d = lo
	}
	if w.sx.NameEscapes == 2 && w.rng.Intn(2) == 0 { // mixed case is legal too
		d = lo
	}
	w.buf.WriteByte(d[b>>4])
	w.buf.WriteByte(d[b&15])
}

func (w *writer) name(n obj.Name) {
	w.buf.WriteByte('/')
	for i := 0; i < len(n); i++ {
		c := n[i]
		must := c < 33 || c > 126 || isDelim(c) || c == '#'
		esc := must
		if !must {
			switch w.sx.NameEscapes {
			case 1:
				esc = w.rng.Intn(4) == 0
			case 2:
				esc = true
			}
		}
		if esc {
			w.buf.WriteByte('#')
			w.hexDigits(c)
		} else {
			w.buf.WriteByte(c)
		}
	}
}

func (w *writer) str(s obj.Str) {
	hex := w.sx.Strings == 1 || (w.sx.Strings == 2 && w.rng.Intn(2) == 0)
	if hex {
		w.buf.WriteByte('<')
		for i, c := range s {
			if w.sx.WS == 1 && w.rng.Intn(6) == 0 {
				w.buf.WriteString([]string{" ", "\n", "\r\n", "\t"}[w.rng.Intn(4)])
			}
			if i == len(s)-1 && c&15 == 0 && w.sx.StrEscapes == 2 && w.rng.Intn(2) == 0 {
				// a missing final digit is read as 0
				w.hexDigits(c)
				w.buf.Truncate(w.buf.Len() - 1)
				continue
			}
			w.hexDigits(c)
		}
		w.buf.WriteByte('>')
		return
	}
	// are the parentheses balanced (then they need no escape)?
	depth, balanced := 0, true
	for _, c := range s {
		if c == '(' {
			depth++
		} else if c == ')' {
			depth--
			if depth < 0 {
				balanced = false
				break
			}
		}
	}
	balanced = balanced && depth == 0
	// balanced parentheses need no escape; all or none are escaped
	rawParens := balanced && w.sx.StrEscapes >= 1 && w.rng.Intn(2) == 0
	w.buf.WriteByte('(')
	for i := 0; i < len(s); i++ {
		c := s[i]
		nextDigit := i+1 < len(s) && s[i+1] >= '0' && s[i+1] <= '9'
		octal := func() {
			if w.sx.StrEscapes == 2 && !nextDigit && w.rng.Intn(2) == 0 {
				fmt.Fprintf(&w.buf, "\\%o", c) // fewer than three digits
			} else {
				fmt.Fprintf(&w.buf, "\\%03o", c)
			}
		}
		if w.sx.StrEscapes == 2 && w.rng.Intn(12) == 0 {
			// a line continuation contributes nothing
			w.buf.WriteByte('\\')
			// (a lone CR only where no raw LF can follow it: the two would form CR LF)
			if c != '\n' && w.rng.Intn(3) == 0 {
				w.buf.WriteString("\r")
			} else {
				w.buf.WriteString([]string{"\n", "\r\n"}[w.rng.Intn(2)])
			}
		}
		switch {
		case c == '(' || c == ')':
			if !rawParens {
				w.buf.WriteByte('\\')
			}
			w.buf.WriteByte(c)
		case c == '\\':
			if w.sx.StrEscapes >= 1 && w.rng.Intn(3) == 0 {
				octal()
			} else {
				w.buf.WriteString("\\\\")
			}
		case c == '\r':
			// a raw CR would be read as LF
			if w.sx.StrEscapes >= 1 && w.rng.Intn(2) == 0 {
				octal()
			} else {
				w.buf.WriteString("\\r")
			}
		case c == '\n':
			switch {
			case w.sx.StrEscapes == 2 && w.rng.Intn(3) == 0:
				// a raw end-of-line marker is read as LF (a lone CR only where
				// the next byte of the value is not an LF, which could be
				// written raw and would join it to CR LF)
				if (i+1 >= len(s) || s[i+1] != '\n') && w.rng.Intn(3) == 0 {
					w.buf.WriteString("\r")
				} else {
					w.buf.WriteString([]string{"\n", "\r\n"}[w.rng.Intn(2)])
				}
			case w.sx.StrEscapes >= 1 && w.rng.Intn(2) == 0:
				octal()
			default:
				w.buf.WriteString("\\n")
			}
		case c == '\t' || c == '\b' || c == '\f':
			if w.sx.StrEscapes == 2 && w.rng.Intn(2) == 0 {
				w.buf.WriteByte('\\')
				w.buf.WriteByte(map[byte]byte{'\t': 't', '\b': 'b', '\f': 'f'}[c])
			} else if w.sx.StrEscapes >= 1 {
				octal()
			} else {
				w.buf.WriteByte(c)
			}
		case c < 32 || c > 126:
			if w.sx.StrEscapes >= 1 {
				octal()
			} else {
				w.buf.WriteByte(c)
			}
		default:
			if w.sx.StrEscapes == 2 && w.rng.Intn(10) == 0 {
				if w.rng.Intn(2) == 0 {
					octal()
				} else if c != 'n' && c != 'r' && c != 't' && c != 'b' && c != 'f' && (c < '0' || c > '7') {
					// a backslash before any other character is ignored
					w.buf.WriteByte('\\')
					w.buf.WriteByte(c)
				} else {
					w.buf.WriteByte(c)
				}
			} else {
				w.buf.WriteByte(c)
			}
		}
	}
	w.buf.WriteByte(')')
}

func (w *writer) integer(v int64) {
	if w.sx.IntPlus && v >= 0 && w.rng.Intn(5) == 0 {
		if w.rng.Intn(2) == 0 {
			w.buf.WriteByte('+')
		} else {
			w.buf.WriteString("00")
		}
	}
	w.buf.WriteString(strconv.FormatInt(v, 10))
}

// uinteger writes a non-negative integer in the plain form required where
// the grammar fixes it (object headers, references).
func (w *writer) uinteger(v int64) { w.buf.WriteString(strconv.FormatInt(v, 10)) }

func (w *writer) real(r obj.Real) {
	s := r.Lit
	if s == "" {
		s = strconv.FormatFloat(r.F, 'f', -1, 64)
		if !bytes.ContainsRune([]byte(s), '.') {
			s += ".0"
		}
	}
	w.buf.WriteString(s)
}

// value writes a direct object or a reference.
func (w *writer) value(v obj.Value) {
	switch x := v.(type) {
	case nil, obj.Null:
		w.tokSep(true)
		w.buf.WriteString("null")
	case obj.Bool:
		w.tokSep(true)
		w.buf.WriteString(strconv.FormatBool(bool(x)))
	case obj.Int:
		w.tokSep(true)
		w.integer(int64(x))
	case obj.Real:
		w.tokSep(true)
		w.real(x)
	case obj.Name:
		w.tokSep(false)
		w.name(x)
	case obj.Str:
		w.tokSep(false)
		w.str(x)
	case obj.Ref:
		w.tokSep(true)
		w.uinteger(int64(x.Num))
		w.sep(true)
		w.uinteger(int64(x.Gen))
		w.sep(true)
		w.buf.WriteByte('R')
	case obj.Array:
		w.tokSep(false)
		w.buf.WriteByte('[')
		for _, e := range x {
			w.value(e)
		}
		w.tokSep(false)
		w.buf.WriteByte(']')
	case obj.Dict:
		w.dict(x, nil)
	default:
		panic(fmt.Sprintf("ser: cannot write %T as a direct object", v))
	}
}

// dict writes a dictionary; first lists keys to be written first (in that
// order), the remaining keys follow in a seeded order.
func (w *writer) dict(d obj.Dict, first []obj.Name) {
	w.tokSep(false)
	w.buf.WriteString("<<")
	done := map[obj.Name]bool{}
	var keys []obj.Name
	for _, k := range first {
		if _, ok := d[k]; ok && !done[k] {
			keys = append(keys, k)
			done[k] = true
		}
	}
	var rest []obj.Name
	for k := range d {
		if !done[k] {
			rest = append(rest, k)
		}
	}
	sort.Slice(rest, func(i, j int) bool { return rest[i] < rest[j] })
	w.rng.Shuffle(len(rest), func(i, j int) { rest[i], rest[j] = rest[j], rest[i] })
	keys = append(keys, rest...)
	for _, k := range keys {
		w.tokSep(false)
		w.name(k)
		w.value(d[k])
	}
	w.tokSep(false)
	w.buf.WriteString(">>")
}
