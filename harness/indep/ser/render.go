package ser

import (
	"bytes"
	"compress/zlib"
	"fmt"
	"math/rand"
	"sort"

	"verif/harness/indep/obj"
)

// Choices are the rendering dimensions of DESIGN.md C04.  Every combination
// yields a conforming file.
type Choices struct {
	Syntax
	// Prefix is the number of bytes before "%PDF-" (at most 1019).
	Prefix int
	// BinaryMarker writes the comment line with four bytes >= 128.
	BinaryMarker bool
	// Subsections of the tables of update revisions: 0 one contiguous
	// subsection (unchanged entries in between are listed again), 1 one
	// subsection per object, 2 maximal runs.  The first revision always has a
	// single subsection starting at 0 (§7.5.4).
	Subsections int
	// Index is the same choice for the /Index of cross-reference streams; in
	// the first revision 0 means no /Index, 1 an explicit [0 Size], 2 a split
	// into two subsections.
	Index int
	// EntryEOL: 0 SP LF, 1 SP CR, 2 CR LF, 3 mixed.
	EntryEOL int
	// WPad adds bytes to the minimal field widths of /W (capped at 8).
	WPad [3]int
	// W0Zero uses W[0] = 0 when every entry has type 1; W2Zero uses W[2] = 0
	// when every third field is 0.
	W0Zero, W2Zero bool
	// XRefFilter: 0 none, 1 Flate, 2 Flate + PNG predictors (row tags chosen
	// by seed), 3 Flate + TIFF predictor, 4 ASCIIHex, 5 Flate + PNG Up only.
	XRefFilter int
	// ObjStmFilter: 0 none, 1 Flate.
	ObjStmFilter int
	// ObjStmGroup: 0 one object stream per revision, 1 one per object, 2 two.
	ObjStmGroup int
	// ObjStmPad adds white space inside object streams (before /First and
	// between the objects).
	ObjStmPad bool
	// ObjStmTight writes object streams with the least white space: single
	// spaces in the offset table and between the objects, and *nothing*
	// between the table and the first object when that object starts with a
	// delimiter (<<, [, (, <, /): /First equals the length of the table and
	// the first offset is 0.  Overrides ObjStmPad.
	ObjStmTight bool
	// StreamKwEOL: 0 LF, 1 CR LF after the stream keyword.
	StreamKwEOL int
	// EndstreamEOL: 0 LF, 1 CR, 2 CR LF before endstream.
	EndstreamEOL int
	// EndstreamNoEOL writes no end-of-line marker before endstream (the
	// marker is only recommended, ISO 32000-1 7.3.8.1) - but only for streams
	// whose /Length is right (direct or indirect): without the marker only
	// the length delimits the data.  Not drawn by PickChoices (strict's
	// WellFormed reports such streams under "endstream-eol"): set it yourself.
	EndstreamNoEOL bool
	// Order of the objects of a revision: 0 ascending, 1 descending, 2 shuffled.
	Order int
	// XRefStmFirst writes the /XRefStm stream of a hybrid revision before the
	// other objects of the revision.
	XRefStmFirst bool
	// LengthObjFirst writes the object holding an indirect /Length before the
	// stream (else after it).
	LengthObjFirst bool
	// AutoFreeRetired marks numbers that were never used with generation
	// 65535 (else generation 0 in the linked list).
	AutoFreeRetired bool
	// FreeHead puts newly freed objects at the head of the free list (else
	// the list is kept in increasing order).
	FreeHead bool
	// FinalEOL writes an end-of-line marker after the last %%EOF.
	FinalEOL bool
}

// Options for Render.
type Options struct {
	// Seed selects the Choices (unless given) and all the small decisions.
	Seed int64
	// Choices, if not nil, fixes the dimensions.
	Choices *Choices
	// Encrypt, if not nil, encrypts strings and stream data (the hook for
	// indep/secure).  Cross-reference streams, trailer strings and the object
	// Doc.EncryptRef are left alone.
	Encrypt func(ref obj.Ref, isStream bool, data []byte) []byte
}

// PickChoices derives the dimensions from a seed.
func PickChoices(seed int64) Choices {
	r := rand.New(rand.NewSource(seed*7919 + 17))
	var c Choices
	c.EOL = []string{"\n", "\r", "\r\n"}[r.Intn(3)]
	c.WS = r.Intn(3)
	c.NulWS = r.Intn(4) == 0
	c.Comments = []int{0, 0, 10, 30}[r.Intn(4)]
	c.Strings = r.Intn(3)
	c.StrEscapes = r.Intn(3)
	c.NameEscapes = r.Intn(3)
	c.HexLower = r.Intn(2) == 0
	c.IntPlus = r.Intn(3) == 0
	c.Prefix = []int{0, 0, 1, 1000, 17}[r.Intn(5)]
	c.BinaryMarker = r.Intn(2) == 0
	c.Subsections = r.Intn(3)
	c.Index = r.Intn(3)
	c.EntryEOL = r.Intn(4)
	c.WPad = [3]int{[]int{0, 0, 1}[r.Intn(3)], []int{0, 0, 1, 2, 6}[r.Intn(5)], []int{0, 0, 1}[r.Intn(3)]}
	c.W0Zero = r.Intn(2) == 0
	c.W2Zero = r.Intn(2) == 0
	c.XRefFilter = r.Intn(6)
	c.ObjStmFilter = r.Intn(2)
	c.ObjStmGroup = r.Intn(3)
	c.ObjStmPad = r.Intn(2) == 0
	c.StreamKwEOL = r.Intn(2)
	c.EndstreamEOL = r.Intn(3)
	c.Order = r.Intn(3)
	c.XRefStmFirst = r.Intn(2) == 0
	c.LengthObjFirst = r.Intn(2) == 0
	c.AutoFreeRetired = r.Intn(2) == 0
	c.FreeHead = r.Intn(2) == 0
	c.FinalEOL = r.Intn(4) != 0
	c.ObjStmTight = r.Intn(3) == 0 // (drawn last: the choices above are as before)
	return c
}

// Placed tells where an object was written.
type Placed struct {
	Ref      obj.Ref
	Revision int   // 1-based
	Offset   int64 // absolute offset of the `N G obj` header; -1 if compressed
	Stm      uint32
	Idx      int
	// DataOffset is the absolute offset of the first data byte of a stream
	// (-1 otherwise); Declared the /Length as written or as the indirect
	// object says (-1: missing, negative or unresolvable).
	DataOffset int64
	Declared   int64
	// LengthKind: "int" (an integer, directly or through an object written by
	// the serialiser), "null" (a reference to an object that does not exist:
	// the null object), "none" (no /Length, or a reference to something that
	// is not an integer).
	LengthKind string
}

// Result is a rendered history.
type Result struct {
	Bytes        []byte
	HeaderOffset int
	Choices      Choices
	// States[k] is the state of every object number that has an entry after
	// revision k+1 (objects added by the serialiser included, marked Aux).
	States []map[uint32]ObjState
	// Sizes[k] is the /Size of revision k+1.
	Sizes []uint32
	// SectionOffsets[k] is the absolute offset of the section of revision k+1.
	SectionOffsets []int64
	// Placed lists every object written, in file order.
	Placed []Placed
	// Trailers[k] holds the trailer entries of revision k+1 as given.
	Trailers []obj.Dict
}

// Render renders the history; it panics if the history is not one the
// standard allows (see RenderResult for the error).
func Render(doc *Doc, opt *Options) []byte {
	res, err := RenderResult(doc, opt)
	if err != nil {
		panic(err)
	}
	return res.Bytes
}

type slot struct {
	ObjState
	off  int64 // relative offset (in-use, not compressed)
	stm  uint32
	idx  int
	next uint32 // free entries
}

type entry struct {
	num   uint32
	typ   int // 0 free, 1 in use, 2 compressed
	f2    uint64
	f3    uint64
	isNew bool
}

type renderer struct {
	w     *writer
	c     Choices
	rng   *rand.Rand
	opt   *Options
	doc   *Doc
	base  int // length of the prefix
	cur   map[uint32]*slot
	free  []uint32 // linked free list, in list order
	size  uint32
	aux   uint32
	prev  int64
	res   *Result
	revNo int
	// lastOp[n] is the last revision (1-based) with an operation on n
	lastOp map[uint32]int
}

func (r *renderer) pos() int64 { return int64(r.w.buf.Len() - r.base) }

// RenderResult renders the history and reports what was written where.
func RenderResult(doc *Doc, opt *Options) (*Result, error) {
	if opt == nil {
		opt = &Options{}
	}
	if err := validate(doc); err != nil {
		return nil, err
	}
	if len(doc.Revisions) == 0 {
		return nil, fmt.Errorf("no revisions")
	}
	c := PickChoices(opt.Seed)
	if opt.Choices != nil {
		c = *opt.Choices
	}
	if c.EOL == "" {
		c.EOL = "\n"
	}
	if c.Prefix > 1019 {
		return nil, fmt.Errorf("prefix too long for the header to be found")
	}
	rng := rand.New(rand.NewSource(opt.Seed))
	r := &renderer{w: &writer{rng: rng, sx: c.Syntax}, c: c, rng: rng, opt: opt, doc: doc,
		cur: map[uint32]*slot{}, prev: -1, res: &Result{Choices: c}}
	// numbers for the serialiser's own objects lie above every number used
	r.lastOp = map[uint32]int{}
	for k, rev := range doc.Revisions {
		for _, op := range rev.Ops {
			if op.Num >= r.aux {
				r.aux = op.Num + 1
			}
			r.lastOp[op.Num] = k + 1
		}
	}
	if r.aux == 0 {
		r.aux = 1
	}

	// bytes before the header: anything that does not contain "%PDF-"
	for i := 0; i < c.Prefix; i++ {
		b := byte(rng.Intn(256))
		if b == '%' {
			b = '#'
		}
		r.w.buf.WriteByte(b)
	}
	r.base = c.Prefix
	r.res.HeaderOffset = c.Prefix
	v := doc.Version
	if v == "" {
		v = "1.5"
	}
	r.w.buf.WriteString("%PDF-" + v)
	r.w.line()
	if c.BinaryMarker {
		r.w.buf.WriteString("%\xe2\xe3\xcf\xd3")
		r.w.line()
	}
	for k := range doc.Revisions {
		r.revNo = k + 1
		if err := r.revision(&doc.Revisions[k]); err != nil {
			return nil, fmt.Errorf("revision %d: %w", k+1, err)
		}
	}
	if !c.FinalEOL {
		// drop the end-of-line marker after the final %%EOF
		b := r.w.buf.Bytes()
		n := len(b)
		for n > 0 && (b[n-1] == '\n' || b[n-1] == '\r') {
			n--
		}
		r.w.buf.Truncate(n)
	}
	r.res.Bytes = append([]byte(nil), r.w.buf.Bytes()...)
	return r.res, nil
}

type phys struct {
	ref    obj.Ref
	value  obj.Value
	op     *Op
	lenRef obj.Ref // indirect /Length
	raw    []byte  // pre-rendered stream (containers, cross-reference streams)
	dict   obj.Dict
}

func (r *renderer) encStrings(ref obj.Ref, v obj.Value) obj.Value {
	if r.opt.Encrypt == nil || ref == r.doc.EncryptRef {
		return v
	}
	switch x := v.(type) {
	case obj.Str:
		return obj.Str(r.opt.Encrypt(ref, false, x))
	case obj.Array:
		out := make(obj.Array, len(x))
		for i, e := range x {
			out[i] = r.encStrings(ref, e)
		}
		return out
	case obj.Dict:
		out := obj.Dict{}
		for k, e := range x {
			out[k] = r.encStrings(ref, e)
		}
		return out
	}
	return v
}

// header writes `N G obj` and returns the absolute offset of N.
func (r *renderer) header(ref obj.Ref) int64 {
	w := r.w
	if w.buf.Len() > 0 && !isWhite(w.buf.Bytes()[w.buf.Len()-1]) {
		w.line()
	}
	at := int64(w.buf.Len())
	w.uinteger(int64(ref.Num))
	w.sep(true)
	w.uinteger(int64(ref.Gen))
	w.sep(true)
	w.buf.WriteString("obj")
	return at
}

func (r *renderer) footer() {
	r.w.tokSep(true)
	r.w.buf.WriteString("endobj")
	r.w.line()
}

// writeStream writes dict, stream keyword, data, endstream.
func (r *renderer) writeStream(d obj.Dict, raw []byte, lengthRight bool) {
	w := r.w
	w.dict(d, nil)
	w.tokSep(true)
	w.buf.WriteString("stream")
	w.buf.WriteString([]string{"\n", "\r\n"}[r.c.StreamKwEOL])
	if n := len(r.res.Placed); n > 0 {
		p := &r.res.Placed[n-1]
		p.DataOffset = int64(w.buf.Len())
		p.Declared = -1
		p.LengthKind = "none"
		switch l := d["Length"].(type) {
		case obj.Int:
			p.LengthKind = "int"
			if l >= 0 {
				p.Declared = int64(l)
			}
		case obj.Ref:
			s := r.cur[l.Num]
			switch {
			case s == nil || s.Status != InUse:
				p.LengthKind = "null"
			case s.Aux:
				if v, ok := s.Value.(obj.Int); ok {
					p.Declared = int64(v)
					p.LengthKind = "int"
				}
			}
		}
	}
	w.buf.Write(raw)
	if !(r.c.EndstreamNoEOL && lengthRight) {
		w.buf.WriteString([]string{"\n", "\r", "\r\n"}[r.c.EndstreamEOL])
	}
	w.buf.WriteString("endstream")
}

func (r *renderer) writePhys(p *phys) {
	at := r.header(p.ref)
	r.res.Placed = append(r.res.Placed, Placed{Ref: p.ref, Revision: r.revNo, Offset: at, Idx: -1, DataOffset: -1})
	r.cur[p.ref.Num].off = at - int64(r.base)
	switch {
	case p.raw != nil:
		r.writeStream(p.dict, p.raw, true)
	default:
		if st, ok := p.value.(*obj.Stream); ok {
			d := obj.Dict{}
			for k, v := range st.Dict {
				d[k] = v
			}
			d = r.encStrings(p.ref, d).(obj.Dict)
			raw := st.Raw
			if r.opt.Encrypt != nil && p.ref != r.doc.EncryptRef {
				raw = r.opt.Encrypt(p.ref, true, raw)
			}
			mode, delta := LenDirect, 0
			if p.op != nil {
				mode, delta = p.op.Length, p.op.LengthDelta
			}
			switch mode {
			case LenDirect:
				d["Length"] = obj.Int(len(raw))
			case LenIndirect, LenUnresolvable:
				d["Length"] = p.lenRef
			case LenWrong:
				// a length that ends inside the end-of-line marker before
				// endstream is not wrong but ambiguous (the marker could be
				// data): move it past the marker
				if eol := len([]string{"\n", "\r", "\r\n"}[r.c.EndstreamEOL]); delta > 0 && delta <= eol {
					delta += eol
				}
				d["Length"] = obj.Int(len(raw) + delta)
			case LenNegative:
				d["Length"] = obj.Int(-1 - r.rng.Intn(40))
			}
			r.writeStream(d, raw, mode == LenDirect || mode == LenIndirect)
		} else {
			r.w.value(r.encStrings(p.ref, p.value))
		}
	}
	r.footer()
}

func deflate(b []byte) []byte {
	var z bytes.Buffer
	zw := zlib.NewWriter(&z)
	zw.Write(b)
	zw.Close()
	return z.Bytes()
}

// objStm renders one object stream.
func (r *renderer) objStm(num uint32, ops []*Op) *phys {
	sub := &writer{rng: r.rng, sx: r.c.Syntax}
	var offs []int
	tight := r.c.ObjStmTight
	for i, op := range ops {
		if tight {
			if i > 0 {
				sub.buf.WriteByte(' ')
			}
		} else if i > 0 || r.c.ObjStmPad {
			n := 1
			if r.c.ObjStmPad {
				n += r.rng.Intn(3)
			}
			for j := 0; j < n; j++ {
				sub.buf.WriteString([]string{" ", "\n", "\r\n", "\t"}[r.rng.Intn(4)])
			}
		}
		// the value writer may emit leading white space / comments: the
		// offset must point at the token
		var one writer
		one = writer{rng: r.rng, sx: r.c.Syntax}
		one.value(op.Value)
		b := one.buf.Bytes()
		lead := 0
		for {
			for lead < len(b) && isWhite(b[lead]) {
				lead++
			}
			if lead < len(b) && b[lead] == '%' {
				for lead < len(b) && b[lead] != '\n' && b[lead] != '\r' {
					lead++
				}
				continue
			}
			break
		}
		if !tight {
			sub.buf.Write(b[:lead])
		}
		offs = append(offs, sub.buf.Len())
		sub.buf.Write(b[lead:])
	}
	if r.c.ObjStmPad && !tight && r.rng.Intn(2) == 0 {
		sub.buf.WriteString("\n")
	}
	// objects start at offset 0 relative to /First only if nothing precedes
	// them; shift so that the first offset may be positive
	var hdr bytes.Buffer
	for i, op := range ops {
		if i > 0 {
			if tight {
				hdr.WriteByte(' ')
			} else {
				hdr.WriteString([]string{" ", "\n", " ", "\r\n"}[r.rng.Intn(4)])
			}
		}
		fmt.Fprintf(&hdr, "%d", op.Num)
		if tight {
			hdr.WriteByte(' ')
		} else {
			hdr.WriteString([]string{" ", "  ", "\t"}[r.rng.Intn(3)])
		}
		fmt.Fprintf(&hdr, "%d", offs[i])
	}
	switch {
	case tight:
		// the table may run into the first object if that starts with a
		// delimiter; a regular character would extend the last offset
		if sb := sub.buf.Bytes(); len(sb) == 0 || !isDelim(sb[0]) {
			hdr.WriteByte(' ')
		}
	default:
		hdr.WriteString([]string{" ", "\n", "\r\n"}[r.rng.Intn(3)])
		if r.c.ObjStmPad {
			hdr.WriteString("   "[:r.rng.Intn(3)])
		}
	}
	first := hdr.Len()
	data := append(hdr.Bytes(), sub.buf.Bytes()...)
	d := obj.Dict{"Type": obj.Name("ObjStm"), "N": obj.Int(len(ops)), "First": obj.Int(first)}
	if r.c.ObjStmFilter == 1 {
		data = deflate(data)
		d["Filter"] = obj.Name("FlateDecode")
	}
	ref := obj.Ref{Num: num}
	if r.opt.Encrypt != nil {
		data = r.opt.Encrypt(ref, true, data)
	}
	d["Length"] = obj.Int(len(data))
	return &phys{ref: ref, raw: data, dict: d}
}

func bytesFor(v uint64) int {
	n := 0
	for v > 0 {
		n++
		v >>= 8
	}
	return n
}

// runs splits sorted numbers into subsections per the style.
func runs(nums []uint32, style int) [][2]uint32 {
	var out [][2]uint32
	switch style {
	case 1:
		for _, n := range nums {
			out = append(out, [2]uint32{n, 1})
		}
	default:
		for _, n := range nums {
			if k := len(out) - 1; k >= 0 && out[k][0]+out[k][1] == n {
				out[k][1]++
			} else {
				out = append(out, [2]uint32{n, 1})
			}
		}
	}
	return out
}

func (r *renderer) entryOf(n uint32) entry {
	s := r.cur[n]
	switch {
	case s.Status == IsFree:
		return entry{num: n, typ: 0, f2: uint64(s.next), f3: uint64(s.Gen)}
	case s.Compressed:
		return entry{num: n, typ: 2, f2: uint64(s.stm), f3: uint64(s.idx)}
	}
	return entry{num: n, typ: 1, f2: uint64(s.off), f3: uint64(s.Gen)}
}

// xrefStream renders a cross-reference stream for the given numbers.
func (r *renderer) xrefStream(nums []uint32, first bool, extra obj.Dict) (obj.Dict, []byte) {
	var subs [][2]uint32
	d := obj.Dict{"Type": obj.Name("XRef")}
	for k, v := range extra {
		d[k] = v
	}
	full := first && len(nums) > 0 && nums[0] == 0 && int(nums[len(nums)-1]) == len(nums)-1
	switch {
	case full && r.c.Index == 0:
		subs = [][2]uint32{{0, uint32(len(nums))}}
	case full && r.c.Index == 1:
		subs = [][2]uint32{{0, uint32(len(nums))}}
		d["Index"] = obj.Array{obj.Int(0), obj.Int(len(nums))}
	case full:
		k := uint32(1 + r.rng.Intn(len(nums)))
		subs = [][2]uint32{{0, k}}
		if int(k) < len(nums) {
			subs = append(subs, [2]uint32{k, uint32(len(nums)) - k})
		}
	default:
		subs = runs(nums, r.c.Index)
	}
	if !(full && r.c.Index == 0) {
		idx := obj.Array{}
		for _, s := range subs {
			idx = append(idx, obj.Int(s[0]), obj.Int(s[1]))
		}
		d["Index"] = idx
	}
	var ents []entry
	for _, s := range subs {
		for i := uint32(0); i < s[1]; i++ {
			ents = append(ents, r.entryOf(s[0]+i))
		}
	}
	allType1, allF3zero := true, true
	var m2, m3 uint64
	for _, e := range ents {
		if e.typ != 1 {
			allType1 = false
		}
		if e.f3 != 0 {
			allF3zero = false
		}
		if e.f2 > m2 {
			m2 = e.f2
		}
		if e.f3 > m3 {
			m3 = e.f3
		}
	}
	w := [3]int{1, bytesFor(m2), bytesFor(m3)}
	if w[1] == 0 {
		w[1] = 1
	}
	if w[2] == 0 && !(allF3zero && r.c.W2Zero) {
		w[2] = 1
	}
	if allType1 && r.c.W0Zero && len(ents) > 0 {
		w[0] = 0
	}
	for i := range w {
		if w[i] > 0 {
			w[i] += r.c.WPad[i]
		}
		if w[i] > 8 {
			w[i] = 8
		}
	}
	d["W"] = obj.Array{obj.Int(w[0]), obj.Int(w[1]), obj.Int(w[2])}
	row := w[0] + w[1] + w[2]
	var data []byte
	put := func(v uint64, n int) {
		for i := n - 1; i >= 0; i-- {
			data = append(data, byte(v>>(8*uint(i))))
		}
	}
	for _, e := range ents {
		put(uint64(e.typ), w[0])
		put(e.f2, w[1])
		put(e.f3, w[2])
	}
	switch r.c.XRefFilter {
	case 1:
		data = deflate(data)
		d["Filter"] = obj.Name("FlateDecode")
	case 2, 5:
		var out []byte
		prev := make([]byte, row)
		for i := 0; i+row <= len(data); i += row {
			cur := data[i : i+row]
			tag := 2
			if r.c.XRefFilter == 2 {
				tag = r.rng.Intn(5)
			}
			out = append(out, byte(tag))
			for j := range cur {
				var a, b, c int
				if j >= 1 {
					a, c = int(cur[j-1]), int(prev[j-1])
				}
				b = int(prev[j])
				var p int
				switch tag {
				case 1:
					p = a
				case 2:
					p = b
				case 3:
					p = (a + b) / 2
				case 4:
					pp := a + b - c
					pa, pb, pc := iabs(pp-a), iabs(pp-b), iabs(pp-c)
					switch {
					case pa <= pb && pa <= pc:
						p = a
					case pb <= pc:
						p = b
					default:
						p = c
					}
				}
				out = append(out, cur[j]-byte(p))
			}
			prev = cur
		}
		data = deflate(out)
		d["Filter"] = obj.Name("FlateDecode")
		pred := 12
		if r.c.XRefFilter == 2 {
			pred = 10 + r.rng.Intn(6)
		}
		d["DecodeParms"] = obj.Dict{"Predictor": obj.Int(pred), "Columns": obj.Int(row)}
	case 3:
		out := append([]byte(nil), data...)
		for i := 0; i+row <= len(out); i += row {
			for j := row - 1; j >= 1; j-- {
				out[i+j] -= out[i+j-1]
			}
		}
		data = deflate(out)
		d["Filter"] = obj.Array{obj.Name("FlateDecode")}
		d["DecodeParms"] = obj.Array{obj.Dict{"Predictor": obj.Int(2), "Columns": obj.Int(row), "Colors": obj.Int(1), "BitsPerComponent": obj.Int(8)}}
	case 4:
		var out bytes.Buffer
		for i, b := range data {
			fmt.Fprintf(&out, "%02X", b)
			if i%row == row-1 {
				out.WriteByte('\n')
			}
		}
		out.WriteByte('>')
		data = out.Bytes()
		d["Filter"] = obj.Name("ASCIIHexDecode")
	}
	d["Length"] = obj.Int(len(data))
	return d, data
}

func iabs(x int) int {
	if x < 0 {
		return -x
	}
	return x
}

// tableSection writes `xref`, the subsections and the trailer.
func (r *renderer) tableSection(nums []uint32, first bool, trailer obj.Dict) int64 {
	w := r.w
	if w.buf.Len() > 0 && !isWhite(w.buf.Bytes()[w.buf.Len()-1]) {
		w.line()
	}
	at := r.pos()
	w.buf.WriteString("xref")
	w.line()
	var subs [][2]uint32
	if first {
		subs = [][2]uint32{{nums[0], uint32(len(nums))}}
	} else {
		subs = runs(nums, r.c.Subsections)
	}
	eols := []string{" \n", " \r", "\r\n"}
	for _, s := range subs {
		fmt.Fprintf(&w.buf, "%d %d", s[0], s[1])
		w.line()
		for i := uint32(0); i < s[1]; i++ {
			e := r.entryOf(s[0] + i)
			eol := r.c.EntryEOL
			if eol == 3 {
				eol = r.rng.Intn(3)
			}
			t := byte('n')
			if e.typ == 0 {
				t = 'f'
			}
			fmt.Fprintf(&w.buf, "%010d %05d %c%s", e.f2, e.f3, t, eols[eol])
		}
	}
	w.buf.WriteString("trailer")
	if r.c.WS == 2 && r.rng.Intn(2) == 0 {
		// "trailer<<" is delimited by the dictionary opener
	} else {
		w.buf.WriteString([]string{" ", r.c.EOL}[r.rng.Intn(2)])
	}
	w.dict(trailer, nil)
	w.line()
	return at
}

func (r *renderer) startxref(at int64) {
	w := r.w
	w.buf.WriteString("startxref")
	w.line()
	fmt.Fprintf(&w.buf, "%d", at)
	w.line()
	w.buf.WriteString("%%EOF")
	w.line()
}

func (r *renderer) revision(rev *Revision) error {
	changed := map[uint32]bool{}
	hidden := map[uint32]bool{}
	var plains []*phys
	var stmOps []*Op
	get := func(n uint32) *slot {
		s := r.cur[n]
		if s == nil {
			s = &slot{}
			r.cur[n] = s
		}
		return s
	}
	first := r.revNo == 1
	if first {
		s := get(0)
		s.ObjState = ObjState{Status: IsFree, Gen: 65535, Aux: true}
		changed[0] = true
	}
	newAux := func() uint32 {
		n := r.aux
		r.aux++
		s := get(n)
		s.ObjState = ObjState{Status: InUse, Aux: true}
		changed[n] = true
		return n
	}
	var newlyFreed []uint32
	for i := range rev.Ops {
		op := &rev.Ops[i]
		s := get(op.Num)
		changed[op.Num] = true
		switch op.Kind {
		case Free:
			ns := ObjState{Status: IsFree}
			switch {
			case op.Style == Retired:
				ns.Gen, ns.Retired = 65535, true
			case s.Status == InUse:
				ns.Gen = s.Gen + 1
			}
			s.ObjState = ns
			s.next = 0
			if !ns.Retired {
				newlyFreed = append(newlyFreed, op.Num)
			}
		case Define:
			isHidden := op.Hidden || (op.InObjStm && rev.Kind == Hybrid)
			gen := s.Gen
			if s.Status == Absent || isHidden {
				gen = 0
			}
			val := op.Value
			if st, ok := val.(*obj.Stream); ok {
				d := obj.Dict{}
				for k, v := range st.Dict {
					d[k] = v
				}
				val = &obj.Stream{Dict: d, Raw: st.Raw}
			}
			s.ObjState = ObjState{Status: InUse, Gen: gen, Value: val, Compressed: op.InObjStm, Hidden: isHidden}
			if isHidden {
				hidden[op.Num] = true
			}
			if op.InObjStm {
				stmOps = append(stmOps, op)
			} else {
				plains = append(plains, &phys{ref: obj.Ref{Num: op.Num, Gen: gen}, value: op.Value, op: op})
			}
		}
	}
	// object streams
	var groups [][]*Op
	switch {
	case len(stmOps) == 0:
	case r.c.ObjStmGroup == 1:
		for _, op := range stmOps {
			groups = append(groups, []*Op{op})
		}
	case r.c.ObjStmGroup == 2 && len(stmOps) > 1:
		k := 1 + r.rng.Intn(len(stmOps)-1)
		groups = [][]*Op{stmOps[:k], stmOps[k:]}
	default:
		groups = [][]*Op{stmOps}
	}
	for _, g := range groups {
		if r.c.Order != 0 {
			r.rng.Shuffle(len(g), func(i, j int) { g[i], g[j] = g[j], g[i] })
		}
		num := newAux()
		for i, op := range g {
			r.cur[op.Num].stm, r.cur[op.Num].idx = num, i
			r.res.Placed = append(r.res.Placed, Placed{Ref: obj.Ref{Num: op.Num}, Revision: r.revNo, Offset: -1, Stm: num, Idx: i, DataOffset: -1})
		}
		plains = append(plains, r.objStm(num, g))
	}
	// indirect lengths
	var withLen []*phys
	for _, p := range plains {
		if p.op == nil {
			continue
		}
		st, ok := p.value.(*obj.Stream)
		if !ok {
			continue
		}
		switch p.op.Length {
		case LenIndirect:
			n := newAux()
			p.lenRef = obj.Ref{Num: n}
			l := len(st.Raw)
			if r.opt.Encrypt != nil {
				l = len(r.opt.Encrypt(p.ref, true, st.Raw))
			}
			withLen = append(withLen, &phys{ref: p.lenRef, value: obj.Int(l)})
			r.cur[n].Value = obj.Int(l)
		case LenUnresolvable:
			if r.rng.Intn(2) == 0 {
				// an object number beyond every /Size: the reference is null
				p.lenRef = obj.Ref{Num: 100000 + uint32(r.rng.Intn(1000))}
			} else if root, ok := rev.Trailer["Root"].(obj.Ref); ok {
				// a dictionary is not a length
				p.lenRef = root
			} else {
				p.lenRef = obj.Ref{Num: 100000}
			}
		}
	}
	// order of the objects
	sort.SliceStable(plains, func(i, j int) bool { return plains[i].ref.Num < plains[j].ref.Num })
	switch r.c.Order {
	case 1:
		for i, j := 0, len(plains)-1; i < j; i, j = i+1, j-1 {
			plains[i], plains[j] = plains[j], plains[i]
		}
	case 2:
		r.rng.Shuffle(len(plains), func(i, j int) { plains[i], plains[j] = plains[j], plains[i] })
	}
	var order []*phys
	for _, p := range plains {
		var lp *phys
		for _, q := range withLen {
			if q.ref == p.lenRef && p.op != nil && p.op.Length == LenIndirect {
				lp = q
			}
		}
		if lp != nil && r.c.LengthObjFirst {
			order = append(order, lp)
		}
		order = append(order, p)
		if lp != nil && !r.c.LengthObjFirst {
			order = append(order, lp)
		}
	}

	// the cross-reference stream needs an object number too
	var xsNum uint32
	if rev.Kind != Table {
		xsNum = newAux()
	}
	newSize := r.size
	for n := range changed {
		if n+1 > newSize {
			newSize = n + 1
		}
	}
	// numbers never used below the new /Size are recorded as free
	for n := uint32(1); n < newSize; n++ {
		if s := get(n); s.Status == Absent {
			s.ObjState = ObjState{Status: IsFree, Aux: true}
			// a number that a later revision defines (or frees) must stay
			// usable: generation 65535 would retire it for good (7.5.4)
			if r.c.AutoFreeRetired && r.lastOp[n] <= r.revNo {
				s.Gen, s.Retired = 65535, true
			} else {
				newlyFreed = append(newlyFreed, n)
			}
			changed[n] = true
		}
	}

	// the free list
	isLinked := func(n uint32) bool { s := r.cur[n]; return s != nil && s.Status == IsFree && !s.Retired }
	var list []uint32
	for _, n := range r.free {
		if isLinked(n) && !contains(newlyFreed, n) {
			list = append(list, n)
		}
	}
	if r.c.FreeHead {
		list = append(append([]uint32(nil), newlyFreed...), list...)
	} else {
		list = append(list, newlyFreed...)
		sort.Slice(list, func(i, j int) bool { return list[i] < list[j] })
	}
	setNext := func(n, next uint32) {
		s := r.cur[n]
		if s.next != next {
			s.next = next
			changed[n] = true
		}
	}
	if len(list) > 0 {
		setNext(0, list[0])
	} else {
		setNext(0, 0)
	}
	for i, n := range list {
		if i+1 < len(list) {
			setNext(n, list[i+1])
		} else {
			setNext(n, 0)
		}
	}
	r.free = list

	// a table needs at least one entry: an update that changes nothing lists
	// the head of the free list again
	if rev.Kind == Table && len(changed) == 0 {
		changed[0] = true
	}

	trailer := obj.Dict{}
	for k, v := range rev.Trailer {
		trailer[k] = v
	}
	trailer["Size"] = obj.Int(newSize)
	if r.prev >= 0 {
		trailer["Prev"] = obj.Int(r.prev)
	}
	sortedChanged := func(filter func(uint32) bool) []uint32 {
		var out []uint32
		for n := range changed {
			if filter(n) {
				out = append(out, n)
			}
		}
		sort.Slice(out, func(i, j int) bool { return out[i] < out[j] })
		return out
	}
	// fill: for the "one contiguous subsection" style the entries of the
	// unchanged objects in between are listed again.  A table cannot list
	// compressed objects and must not list hidden ones; then the subsections
	// stay split.
	fill := func(nums []uint32, style int, inTable bool) []uint32 {
		if first || style != 0 || len(nums) == 0 {
			return nums
		}
		var out []uint32
		for n := nums[0]; n <= nums[len(nums)-1]; n++ {
			if contains(nums, n) {
				out = append(out, n)
				continue
			}
			s := r.cur[n]
			if s == nil || s.Status == Absent || (inTable && s.Status == InUse && (s.Compressed || s.Hidden)) {
				return nums
			}
			out = append(out, n)
		}
		return out
	}

	var secAt int64
	writeXS := func(nums []uint32, extra obj.Dict) int64 {
		ref := obj.Ref{Num: xsNum}
		at := r.header(ref)
		r.cur[xsNum].off = at - int64(r.base)
		r.res.Placed = append(r.res.Placed, Placed{Ref: ref, Revision: r.revNo, Offset: at, Idx: -1, DataOffset: -1})
		d, data := r.xrefStream(nums, first, extra)
		r.cur[xsNum].Value = &obj.Stream{Dict: withoutLength(d), Raw: data}
		r.writeStream(d, data, true)
		r.footer()
		return at - int64(r.base)
	}
	switch rev.Kind {
	case Table:
		for _, p := range order {
			r.writePhys(p)
		}
		nums := fill(sortedChanged(func(uint32) bool { return true }), r.c.Subsections, true)
		secAt = r.tableSection(nums, first, trailer)
	case Stream:
		for _, p := range order {
			r.writePhys(p)
		}
		nums := fill(sortedChanged(func(uint32) bool { return true }), r.c.Index, false)
		secAt = writeXS(nums, trailer)
	case Hybrid:
		hnums := sortedChanged(func(n uint32) bool { return hidden[n] })
		if len(hnums) == 0 {
			return fmt.Errorf("hybrid revision without hidden object")
		}
		// the stream lists the hidden objects, so these (and the object
		// streams that hold them) are written before it
		var before, after []*phys
		for _, p := range order {
			if hidden[p.ref.Num] || p.raw != nil || !r.c.XRefStmFirst {
				before = append(before, p)
			} else {
				after = append(after, p)
			}
		}
		for _, p := range before {
			r.writePhys(p)
		}
		xsAt := writeXS(hnums, obj.Dict{"Size": obj.Int(newSize)})
		for _, p := range after {
			r.writePhys(p)
		}
		trailer["XRefStm"] = obj.Int(xsAt)
		nums := fill(sortedChanged(func(n uint32) bool { return !hidden[n] }), r.c.Subsections, true)
		secAt = r.tableSection(nums, first, trailer)
	}
	r.startxref(secAt)
	r.prev = secAt
	r.size = newSize

	// record the state
	st := map[uint32]ObjState{}
	for n, s := range r.cur {
		if s.Status != Absent {
			st[n] = s.ObjState
		}
	}
	r.res.States = append(r.res.States, st)
	r.res.Sizes = append(r.res.Sizes, newSize)
	r.res.SectionOffsets = append(r.res.SectionOffsets, secAt+int64(r.base))
	r.res.Trailers = append(r.res.Trailers, rev.Trailer)
	return nil
}

func withoutLength(d obj.Dict) obj.Dict {
	out := obj.Dict{}
	for k, v := range d {
		if k != "Length" {
			out[k] = v
		}
	}
	return out
}

func contains(s []uint32, n uint32) bool {
	for _, x := range s {
		if x == n {
			return true
		}
	}
	return false
}
