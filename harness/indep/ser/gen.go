package ser

import (
	"fmt"
	"math/rand"

	"verif/harness/indep/obj"
)

// RandomValue builds a random direct value (no streams; references only if
// refs is non-empty).
func RandomValue(r *rand.Rand, depth int, refs []obj.Ref) obj.Value {
	k := r.Intn(11)
	if depth <= 0 && k >= 8 {
		k = r.Intn(8)
	}
	switch k {
	case 0:
		return obj.Int(r.Intn(2000) - 1000)
	case 1:
		return obj.Int(r.Int63n(1 << 40))
	case 2:
		lits := []string{"0.5", "-.25", "3.", "12.125", "+7.0", "-0.0", "00.50"}
		l := lits[r.Intn(len(lits))]
		var f float64
		fmt.Sscanf(l, "%g", &f)
		return obj.Real{F: f, Lit: l}
	case 3:
		return obj.Bool(r.Intn(2) == 0)
	case 4:
		return RandomName(r)
	case 5, 6:
		return RandomString(r)
	case 7:
		if len(refs) > 0 {
			return refs[r.Intn(len(refs))]
		}
		return obj.Null{}
	case 8, 9:
		n := r.Intn(4)
		a := make(obj.Array, n)
		for i := range a {
			a[i] = RandomValue(r, depth-1, refs)
		}
		return a
	default:
		n := r.Intn(4)
		d := obj.Dict{}
		for i := 0; i < n; i++ {
			v := RandomValue(r, depth-1, refs)
			if _, isNull := v.(obj.Null); isNull {
				continue // a null entry is the same as no entry
			}
			d[RandomName(r)] = v
		}
		return d
	}
}

// RandomName builds a name from an alphabet with delimiters, '#', white
// space and bytes >= 128 (never NUL).
func RandomName(r *rand.Rand) obj.Name {
	alpha := []byte("AbZ09._-#/ ()<>[]{}%\t\n\r\x7f\x80\xff+*")
	n := r.Intn(6)
	if r.Intn(8) != 0 && n == 0 {
		n = 1
	}
	b := make([]byte, n)
	for i := range b {
		if r.Intn(3) == 0 {
			b[i] = alpha[r.Intn(len(alpha))]
		} else {
			b[i] = byte('A' + r.Intn(26))
		}
	}
	return obj.Name(b)
}

// RandomString builds a string from an alphabet rich in the characters that
// need care.
func RandomString(r *rand.Rand) obj.Str {
	alpha := []byte("ab(()))\\\r\n\t\b\f\x00\x01\x7f\x80\xfe\xff 0179<>%/nrtbf")
	if r.Intn(8) == 0 {
		// several lines of text: every LF may be spelled as a raw LF, CR or CR LF
		alpha = []byte("ab\n\n\nc d")
	}
	n := r.Intn(9)
	b := make([]byte, n)
	for i := range b {
		b[i] = alpha[r.Intn(len(alpha))]
	}
	return obj.Str(b)
}

// RandomBody builds stream data.  With admissible set, the data neither end
// in CR/LF nor contain an end-of-line marker followed by "endstream" (the
// set property C04 quantifies over for wrong lengths).
func RandomBody(r *rand.Rand, admissible bool) []byte {
	pieces := []string{"x", "abc", " ", "\n", "\r\n", "\r", "endstream", "endobj", "\x00", "stream", "\t", "%", "12 0 obj", "q 1 0 0 1 0 0 cm Q"}
	for {
		var b []byte
		n := r.Intn(7)
		for i := 0; i < n; i++ {
			b = append(b, pieces[r.Intn(len(pieces))]...)
		}
		if !admissible || AdmissibleBody(b) {
			return b
		}
	}
}

// AdmissibleBody reports whether data neither end in CR/LF nor contain an
// end-of-line marker directly followed by "endstream".
func AdmissibleBody(b []byte) bool {
	if n := len(b); n > 0 && (b[n-1] == '\n' || b[n-1] == '\r') {
		return false
	}
	for i := 0; i+10 <= len(b); i++ {
		if (b[i] == '\n' || b[i] == '\r') && string(b[i+1:i+10]) == "endstream" {
			return false
		}
	}
	return true
}

// RandomDoc builds a random history that the standard allows: up to maxRevs
// revisions over the object numbers 1..nObj, plus a catalog and a page tree
// root (numbers nObj+1, nObj+2).  Wrong /Length variants are used only if
// lengths is true.
func RandomDoc(r *rand.Rand, maxRevs, nObj int, lengths bool) *Doc {
	doc := &Doc{Version: []string{"1.5", "1.7", "2.0"}[r.Intn(3)]}
	cat, pages := uint32(nObj+1), uint32(nObj+2)
	type st struct {
		status  Status
		gen     uint16
		retired bool
		hidden  bool
	}
	cur := map[uint32]*st{}
	for n := uint32(1); n <= uint32(nObj)+2; n++ {
		cur[n] = &st{}
	}
	nrev := 1 + r.Intn(maxRevs)
	refs := []obj.Ref{{Num: cat}, {Num: pages}, {Num: 1}, {Num: 2, Gen: 1}, {Num: 77}}
	for k := 0; k < nrev; k++ {
		rev := Revision{Kind: Kind(r.Intn(3))}
		// a hybrid revision needs a hidden object, i.e. a retired number
		if rev.Kind == Hybrid {
			ok := false
			for n := uint32(1); n <= uint32(nObj); n++ {
				if cur[n].status == IsFree && cur[n].retired {
					ok = true
				}
			}
			if !ok {
				rev.Kind = Kind(r.Intn(2))
			}
		}
		needHidden := rev.Kind == Hybrid
		for n := uint32(1); n <= uint32(nObj)+2; n++ {
			s := cur[n]
			fixed := n == cat || n == pages
			var choice int // 0 keep, 1 define, 2 free
			switch {
			case fixed && k == 0:
				choice = 1
			case fixed:
				choice = []int{0, 0, 1}[r.Intn(3)]
			case k == 0:
				choice = 1 + r.Intn(2)
			default:
				choice = r.Intn(3)
			}
			if s.status == IsFree && s.retired {
				// only a hidden definition can follow
				if rev.Kind == Hybrid && (needHidden || r.Intn(2) == 0) {
					op := Op{Num: n, Kind: Define, Hidden: true, Value: RandomValue(r, 2, refs)}
					if r.Intn(2) == 0 {
						if _, isRef := op.Value.(obj.Ref); !isRef {
							op.InObjStm = true
						}
					}
					rev.Ops = append(rev.Ops, op)
					*s = st{status: InUse, gen: 0, hidden: true}
					needHidden = false
				}
				continue
			}
			switch choice {
			case 1:
				op := Op{Num: n, Kind: Define}
				switch {
				case n == cat:
					op.Value = obj.Dict{"Type": obj.Name("Catalog"), "Pages": obj.Ref{Num: pages}}
				case n == pages:
					op.Value = obj.Dict{"Type": obj.Name("Pages"), "Kids": obj.Array{}, "Count": obj.Int(0)}
				case r.Intn(4) == 0:
					d := obj.Dict{}
					if r.Intn(2) == 0 {
						d["K"] = RandomValue(r, 1, refs)
					}
					op.Value = &obj.Stream{Dict: d, Raw: RandomBody(r, lengths)}
					op.Length = LengthMode(r.Intn(2))
					if lengths {
						op.Length = LengthMode(r.Intn(6))
						if op.Length == LenWrong {
							for op.LengthDelta == 0 || len(op.Value.(*obj.Stream).Raw)+op.LengthDelta < 0 {
								op.LengthDelta = r.Intn(9) - 4
							}
						}
					}
				default:
					op.Value = RandomValue(r, 2, refs)
				}
				gen := s.gen
				if s.status == Absent {
					gen = 0
				}
				_, isStream := op.Value.(*obj.Stream)
				_, isRef := op.Value.(obj.Ref)
				if rev.Kind == Stream && gen == 0 && !isStream && !isRef && r.Intn(2) == 0 {
					op.InObjStm = true
				}
				rev.Ops = append(rev.Ops, op)
				*s = st{status: InUse, gen: gen}
			case 2:
				if s.status == IsFree || fixed {
					continue
				}
				op := Op{Num: n, Kind: Free, Style: FreeStyle(r.Intn(2))}
				ns := st{status: IsFree}
				switch {
				case op.Style == Retired:
					ns.gen, ns.retired = 65535, true
				case s.status == InUse:
					ns.gen = s.gen + 1
				}
				rev.Ops = append(rev.Ops, op)
				*s = ns
			}
		}
		rev.Trailer = obj.Dict{
			"Root": obj.Ref{Num: cat},
			"ID":   obj.Array{obj.Str("0123456789abcdef"), obj.Str(fmt.Sprintf("revision-%07d", k+1))},
		}
		if r.Intn(2) == 0 {
			rev.Trailer["XX_Rev"] = obj.Int(k + 1)
		}
		doc.Revisions = append(doc.Revisions, rev)
	}
	return doc
}
