// Package ser is an independent serialiser of PDF *revision histories*: it
// renders a document given as a sequence of revisions (original file plus
// incremental updates) to bytes, choosing among the many specification-
// conforming spellings by seed.  It imports nothing from go-pdf (whose writer
// can produce neither incremental updates nor hybrid files) and only ever
// emits conforming files — except for the deliberate /Length variants, which
// property C04 itself quantifies over.
package ser

import (
	"fmt"

	"verif/harness/indep/obj"
)

// Kind is the kind of the cross-reference section a revision ends with.
type Kind int

const (
	// Table: classic cross-reference table and trailer (§7.5.4, §7.5.5).
	Table Kind = iota
	// Stream: cross-reference stream (§7.5.8).
	Stream
	// Hybrid: table whose trailer has /XRefStm (§7.5.8.4).
	Hybrid
)

func (k Kind) String() string { return [...]string{"table", "stream", "hybrid"}[k] }

// OpKind says what a revision does to an object number.
type OpKind int

const (
	// Define gives the object a (new) value.
	Define OpKind = iota
	// Free deletes the object (or, for a number never used, records it as free).
	Free
)

// FreeStyle says how a freed object is marked.
type FreeStyle int

const (
	// Linked: generation+1 (0 for a number never used), member of the linked
	// list of free entries that starts at object 0 (§7.5.4).
	Linked FreeStyle = iota
	// Retired: generation 65535, next free object 0, not in the list: the
	// number can never be used again (§7.5.4; also what §7.5.8.4 prescribes
	// for the table entry of a hidden object).
	Retired
)

// LengthMode says how the /Length of a stream is written.
type LengthMode int

const (
	LenDirect       LengthMode = iota // correct, direct
	LenIndirect                       // correct, in an indirect object of its own
	LenMissing                        // no /Length
	LenWrong                          // direct, off by Op.LengthDelta (non-zero)
	LenUnresolvable                   // reference that does not resolve to an integer
	LenNegative                       // direct, negative
)

func (m LengthMode) String() string {
	return [...]string{"direct", "indirect", "missing", "wrong", "unresolvable", "negative"}[m]
}

// Op is what one revision does to one object number.
type Op struct {
	Num  uint32
	Kind OpKind
	// Value (Define) is a direct value or a *obj.Stream whose dictionary has
	// no /Length (Raw is written as it is; /Filter etc. are the caller's).
	Value obj.Value
	// InObjStm (Define) stores the object in an object stream.  Only in
	// Stream and Hybrid revisions; in Hybrid revisions it implies Hidden.
	InObjStm bool
	// Hidden (Define, Hybrid revisions): the entry goes to the /XRefStm
	// stream instead of the table.  The number must currently be free with
	// generation 65535 (§7.5.8.4).
	Hidden bool
	// Style (Free) is the way the entry is marked.
	Style FreeStyle
	// Length and LengthDelta (Define of a stream).
	Length      LengthMode
	LengthDelta int
}

// Revision is the original file (first element) or one incremental update.
type Revision struct {
	Kind Kind
	Ops  []Op
	// Trailer holds the trailer entries other than /Size, /Prev, /XRefStm
	// (and, for streams, the stream's own keys).  /Root is required.
	Trailer obj.Dict
}

// Doc is a revision history.
type Doc struct {
	Version   string // "1.5" if empty
	Revisions []Revision
	// EncryptRef names the object holding the encryption dictionary (it is
	// never encrypted).  Only used with Options.Encrypt.
	EncryptRef obj.Ref
}

// Status of an object number after some revisions.
type Status int

const (
	Absent Status = iota // no entry in any section so far
	IsFree
	InUse
)

// ObjState is the state of one object number after a revision.
type ObjState struct {
	Status Status
	Gen    uint16
	// Value of an in-use object.  Streams carry the dictionary without
	// /Length and the raw data.
	Value obj.Value
	// Compressed tells that the object lives in an object stream; Hidden that
	// its entry is in an /XRefStm stream.
	Compressed, Hidden bool
	// Retired free entries (generation 65535) are never reused.
	Retired bool
	// Aux marks objects added by the serialiser (containers, length objects,
	// cross-reference streams).
	Aux bool
}

// validate checks that the history is one the standard allows and returns
// the state after each revision (objects named by ops only).
func validate(doc *Doc) error {
	cur := map[uint32]ObjState{}
	for k, rev := range doc.Revisions {
		if rev.Trailer == nil || rev.Trailer["Root"] == nil {
			return fmt.Errorf("revision %d: trailer without /Root", k+1)
		}
		seen := map[uint32]bool{}
		for _, op := range rev.Ops {
			if op.Num == 0 {
				return fmt.Errorf("revision %d: operation on object 0", k+1)
			}
			if seen[op.Num] {
				return fmt.Errorf("revision %d: two operations on object %d", k+1, op.Num)
			}
			seen[op.Num] = true
			st := cur[op.Num]
			switch op.Kind {
			case Free:
				if st.Status == IsFree {
					return fmt.Errorf("revision %d: object %d is already free", k+1, op.Num)
				}
				ns := ObjState{Status: IsFree}
				switch {
				case op.Style == Retired:
					ns.Gen, ns.Retired = 65535, true
				case st.Status == InUse:
					if st.Gen >= 65534 {
						return fmt.Errorf("revision %d: generation of object %d would overflow", k+1, op.Num)
					}
					ns.Gen = st.Gen + 1
				}
				cur[op.Num] = ns
			case Define:
				hidden := op.Hidden || (op.InObjStm && rev.Kind == Hybrid)
				if hidden && rev.Kind != Hybrid {
					return fmt.Errorf("revision %d: hidden object %d in a %s revision", k+1, op.Num, rev.Kind)
				}
				if op.InObjStm && rev.Kind == Table {
					return fmt.Errorf("revision %d: object %d in an object stream of a table revision", k+1, op.Num)
				}
				gen := st.Gen
				if st.Status == Absent {
					gen = 0
				}
				if hidden {
					if !(st.Status == IsFree && st.Retired) {
						return fmt.Errorf("revision %d: hidden object %d is not free with generation 65535 in an older section", k+1, op.Num)
					}
					gen = 0
				} else if st.Status == IsFree && st.Retired {
					return fmt.Errorf("revision %d: object %d was retired (generation 65535) and cannot be reused", k+1, op.Num)
				}
				_, isStream := op.Value.(*obj.Stream)
				_, isRef := op.Value.(obj.Ref)
				if op.Value == nil {
					return fmt.Errorf("revision %d: object %d defined without value", k+1, op.Num)
				}
				if op.InObjStm && (isStream || isRef || gen != 0) {
					return fmt.Errorf("revision %d: object %d cannot be stored in an object stream", k+1, op.Num)
				}
				if isStream {
					if _, has := op.Value.(*obj.Stream).Dict["Length"]; has {
						return fmt.Errorf("revision %d: stream %d comes with a /Length", k+1, op.Num)
					}
					if op.Length == LenWrong && (op.LengthDelta == 0 || len(op.Value.(*obj.Stream).Raw)+op.LengthDelta < 0) {
						return fmt.Errorf("revision %d: stream %d: bad LengthDelta", k+1, op.Num)
					}
				}
				cur[op.Num] = ObjState{Status: InUse, Gen: gen, Value: op.Value, Compressed: op.InObjStm, Hidden: hidden}
			}
		}
	}
	return nil
}
