// Package obj is the harness's own model of PDF values.  It imports nothing
// from go-pdf; the strict parser, the serialiser and the security handler in
// harness/indep are built on it, and drivers convert go-pdf values to and from
// it to compare meanings.
package obj

import (
	"bytes"
	"fmt"
	"sort"
	"strconv"
)

// Value is one of Null, Bool, Int, Real, Name, Str, Array, Dict, Ref, *Stream.
type Value interface{ isValue() }

type (
	// Null is the null object.
	Null struct{}
	// Bool is a boolean.
	Bool bool
	// Int is an integer.
	Int int64
	// Real is a real number.  Lit, if non-empty, is the literal spelling.
	Real struct {
		F   float64
		Lit string
	}
	// Name is a name, as decoded bytes (without the slash).
	Name string
	// Str is a string, as decoded bytes.
	Str []byte
	// Array is an array.
	Array []Value
	// Dict is a dictionary.
	Dict map[Name]Value
	// Ref is an indirect reference.
	Ref struct {
		Num uint32
		Gen uint16
	}
	// Stream is a stream: dictionary and raw (encoded, possibly encrypted) data.
	Stream struct {
		Dict Dict
		Raw  []byte
	}
)

func (Null) isValue()    {}
func (Bool) isValue()    {}
func (Int) isValue()     {}
func (Real) isValue()    {}
func (Name) isValue()    {}
func (Str) isValue()     {}
func (Array) isValue()   {}
func (Dict) isValue()    {}
func (Ref) isValue()     {}
func (*Stream) isValue() {}

func (r Ref) String() string { return fmt.Sprintf("%d %d R", r.Num, r.Gen) }

// Keys returns the keys of d in bytewise order.
func (d Dict) Keys() []Name {
	keys := make([]Name, 0, len(d))
	for k := range d {
		keys = append(keys, k)
	}
	sort.Slice(keys, func(i, j int) bool { return keys[i] < keys[j] })
	return keys
}

// Norm normalises a value the way the properties do: nil/Null dictionary
// entries are absent.
func Norm(v Value) Value {
	switch x := v.(type) {
	case nil:
		return Null{}
	case Array:
		if x == nil {
			return Null{}
		}
		out := make(Array, len(x))
		for i, e := range x {
			out[i] = Norm(e)
		}
		return out
	case Dict:
		if x == nil {
			return Null{}
		}
		out := Dict{}
		for k, e := range x {
			n := Norm(e)
			if _, isNull := n.(Null); isNull {
				continue
			}
			out[k] = n
		}
		return out
	case *Stream:
		d, _ := Norm(x.Dict).(Dict)
		if d == nil {
			d = Dict{}
		}
		return &Stream{Dict: d, Raw: x.Raw}
	}
	return v
}

// Equal compares two values structurally (after Norm).  Reals compare by
// numeric value, Int and Real are different types.
func Equal(a, b Value) bool {
	a, b = Norm(a), Norm(b)
	switch x := a.(type) {
	case Null:
		_, ok := b.(Null)
		return ok
	case Bool:
		y, ok := b.(Bool)
		return ok && x == y
	case Int:
		y, ok := b.(Int)
		return ok && x == y
	case Real:
		y, ok := b.(Real)
		return ok && x.F == y.F
	case Name:
		y, ok := b.(Name)
		return ok && x == y
	case Str:
		y, ok := b.(Str)
		return ok && bytes.Equal(x, y)
	case Ref:
		y, ok := b.(Ref)
		return ok && x == y
	case Array:
		y, ok := b.(Array)
		if !ok || len(x) != len(y) {
			return false
		}
		for i := range x {
			if !Equal(x[i], y[i]) {
				return false
			}
		}
		return true
	case Dict:
		y, ok := b.(Dict)
		if !ok || len(x) != len(y) {
			return false
		}
		for k, v := range x {
			w, ok := y[k]
			if !ok || !Equal(v, w) {
				return false
			}
		}
		return true
	case *Stream:
		y, ok := b.(*Stream)
		return ok && Equal(x.Dict, y.Dict) && bytes.Equal(x.Raw, y.Raw)
	}
	return false
}

// JSON converts a value to a tree of maps/slices that encoding/json renders in
// the form the TLA+ modules expect:
//
//	{"t":"null"} {"t":"bool","b":true} {"t":"int","s":"-12"} {"t":"real","s":"1.5"}
//	{"t":"name","v":[97,98]} {"t":"str","v":[0,255]} {"t":"arr","e":[...]}
//	{"t":"dict","k":[[97],[98]],"e":[...]} (keys sorted) {"t":"ref","n":1,"g":0}
//	{"t":"stream","d":{dict},"len":N}
//
// Integers are rendered as decimal strings because TLC integers are 32-bit.
func JSON(v Value) any {
	switch x := Norm(v).(type) {
	case Null:
		return map[string]any{"t": "null"}
	case Bool:
		return map[string]any{"t": "bool", "b": bool(x)}
	case Int:
		return map[string]any{"t": "int", "s": strconv.FormatInt(int64(x), 10)}
	case Real:
		s := x.Lit
		if s == "" {
			s = strconv.FormatFloat(x.F, 'f', -1, 64)
		}
		return map[string]any{"t": "real", "s": s}
	case Name:
		return map[string]any{"t": "name", "v": ints([]byte(x))}
	case Str:
		return map[string]any{"t": "str", "v": ints(x)}
	case Ref:
		return map[string]any{"t": "ref", "n": int(x.Num), "g": int(x.Gen)}
	case Array:
		e := make([]any, len(x))
		for i := range x {
			e[i] = JSON(x[i])
		}
		return map[string]any{"t": "arr", "e": e}
	case Dict:
		keys := x.Keys()
		k := make([]any, len(keys))
		e := make([]any, len(keys))
		for i, key := range keys {
			k[i] = ints([]byte(key))
			e[i] = JSON(x[key])
		}
		return map[string]any{"t": "dict", "k": k, "e": e}
	case *Stream:
		return map[string]any{"t": "stream", "d": JSON(x.Dict), "len": len(x.Raw)}
	}
	return nil
}

func ints(b []byte) []int {
	out := make([]int, len(b))
	for i, c := range b {
		out[i] = int(c)
	}
	return out
}

// String renders a value for diagnostics (not valid PDF).
func String(v Value) string {
	switch x := v.(type) {
	case nil, Null:
		return "null"
	case Bool:
		return strconv.FormatBool(bool(x))
	case Int:
		return strconv.FormatInt(int64(x), 10)
	case Real:
		if x.Lit != "" {
			return x.Lit
		}
		return strconv.FormatFloat(x.F, 'f', -1, 64)
	case Name:
		return "/" + strconv.Quote(string(x))
	case Str:
		return "(" + strconv.Quote(string(x)) + ")"
	case Ref:
		return x.String()
	case Array:
		var b bytes.Buffer
		b.WriteString("[")
		for i, e := range x {
			if i > 0 {
				b.WriteString(" ")
			}
			b.WriteString(String(e))
		}
		b.WriteString("]")
		return b.String()
	case Dict:
		var b bytes.Buffer
		b.WriteString("<<")
		for _, k := range x.Keys() {
			b.WriteString(String(k) + " " + String(x[k]) + " ")
		}
		b.WriteString(">>")
		return b.String()
	case *Stream:
		return String(x.Dict) + fmt.Sprintf("stream[%d bytes]", len(x.Raw))
	}
	return "?"
}
