package strict

import (
	"bytes"
	"compress/zlib"
	"fmt"
	"io"

	"verif/harness/indep/obj"
)

// Resolver resolves an indirect reference (used for /Length, /Filter,
// /DecodeParms values given indirectly).  It may be nil.
type Resolver func(obj.Ref) (obj.Value, bool)

func resolve(v obj.Value, res Resolver) obj.Value {
	for i := 0; i < 8; i++ {
		r, ok := v.(obj.Ref)
		if !ok {
			return v
		}
		if res == nil {
			return obj.Null{}
		}
		w, ok := res(r)
		if !ok {
			return obj.Null{}
		}
		v = w
	}
	return obj.Null{}
}

// FilterSpec is one element of a stream's filter chain.
type FilterSpec struct {
	Name  obj.Name
	Parms obj.Dict // nil if none
}

// Filters returns the filter chain of a stream dictionary (§7.3.8.2).
func Filters(d obj.Dict, res Resolver) ([]FilterSpec, error) {
	f := resolve(d["Filter"], res)
	p := resolve(d["DecodeParms"], res)
	var out []FilterSpec
	switch x := f.(type) {
	case nil, obj.Null:
		if _, isNull := obj.Norm(p).(obj.Null); !isNull {
			return nil, fmt.Errorf("/DecodeParms without /Filter")
		}
		return nil, nil
	case obj.Name:
		fs := FilterSpec{Name: x}
		switch y := p.(type) {
		case nil, obj.Null:
		case obj.Dict:
			fs.Parms = y
		default:
			return nil, fmt.Errorf("/DecodeParms of a single filter must be a dictionary")
		}
		return []FilterSpec{fs}, nil
	case obj.Array:
		var parr obj.Array
		switch y := p.(type) {
		case nil, obj.Null:
		case obj.Array:
			if len(y) != len(x) {
				return nil, fmt.Errorf("/DecodeParms has %d elements for %d filters", len(y), len(x))
			}
			parr = y
		case obj.Dict:
			if len(x) != 1 {
				return nil, fmt.Errorf("/DecodeParms dictionary for a filter array of length %d", len(x))
			}
			parr = obj.Array{y}
		default:
			return nil, fmt.Errorf("/DecodeParms has the wrong type")
		}
		for i, e := range x {
			n, ok := resolve(e, res).(obj.Name)
			if !ok {
				return nil, fmt.Errorf("/Filter element %d is not a name", i)
			}
			fs := FilterSpec{Name: n}
			if parr != nil {
				switch y := resolve(parr[i], res).(type) {
				case nil, obj.Null:
				case obj.Dict:
					fs.Parms = y
				default:
					return nil, fmt.Errorf("/DecodeParms element %d is not a dictionary", i)
				}
			}
			out = append(out, fs)
		}
		return out, nil
	}
	return nil, fmt.Errorf("/Filter has the wrong type")
}

// Decode applies the filter chain of d to raw.  Supported: FlateDecode and
// LZWDecode (with TIFF and PNG predictors), ASCIIHexDecode, ASCII85Decode,
// RunLengthDecode.  /Crypt with /Name /Identity is passed through.
func Decode(d obj.Dict, raw []byte, res Resolver) ([]byte, error) {
	fs, err := Filters(d, res)
	if err != nil {
		return nil, err
	}
	data := raw
	for _, f := range fs {
		switch f.Name {
		case "FlateDecode", "Fl":
			data, err = Inflate(data)
			if err == nil {
				data, err = Unpredict(data, f.Parms)
			}
		case "LZWDecode", "LZW":
			early := 1
			if v, ok := f.Parms["EarlyChange"].(obj.Int); ok {
				early = int(v)
			}
			data, err = LZWDecode(data, early)
			if err == nil {
				data, err = Unpredict(data, f.Parms)
			}
		case "ASCIIHexDecode", "AHx":
			data, err = ASCIIHexDecode(data)
		case "ASCII85Decode", "A85":
			data, err = ASCII85Decode(data)
		case "RunLengthDecode", "RL":
			data, err = RunLengthDecode(data)
		case "Crypt":
			if n, ok := f.Parms["Name"].(obj.Name); ok && n != "Identity" {
				err = fmt.Errorf("crypt filter /%s not supported", string(n))
			}
		default:
			err = fmt.Errorf("filter /%s not supported", string(f.Name))
		}
		if err != nil {
			return nil, fmt.Errorf("%s: %w", string(f.Name), err)
		}
	}
	return data, nil
}

// Inflate decodes zlib/deflate data (RFC 1950) with the standard library.
func Inflate(data []byte) ([]byte, error) {
	zr, err := zlib.NewReader(bytes.NewReader(data))
	if err != nil {
		return nil, err
	}
	defer zr.Close()
	return io.ReadAll(zr)
}

func intParm(p obj.Dict, key obj.Name, def int) (int, error) {
	v, ok := p[key]
	if !ok {
		return def, nil
	}
	if _, isNull := v.(obj.Null); isNull {
		return def, nil
	}
	i, ok := v.(obj.Int)
	if !ok {
		return 0, fmt.Errorf("/%s is not an integer", string(key))
	}
	return int(i), nil
}

// PredictorParams are the parameters of the predictor functions (§7.4.4.4).
type PredictorParams struct{ Predictor, Colors, BPC, Columns int }

// GetPredictorParams extracts the predictor parameters with their defaults.
func GetPredictorParams(p obj.Dict) (PredictorParams, error) {
	var pp PredictorParams
	var err error
	if pp.Predictor, err = intParm(p, "Predictor", 1); err != nil {
		return pp, err
	}
	if pp.Colors, err = intParm(p, "Colors", 1); err != nil {
		return pp, err
	}
	if pp.BPC, err = intParm(p, "BitsPerComponent", 8); err != nil {
		return pp, err
	}
	if pp.Columns, err = intParm(p, "Columns", 1); err != nil {
		return pp, err
	}
	if pp.Colors < 1 || pp.Columns < 1 {
		return pp, fmt.Errorf("invalid /Colors or /Columns")
	}
	switch pp.BPC {
	case 1, 2, 4, 8, 16:
	default:
		return pp, fmt.Errorf("invalid /BitsPerComponent %d", pp.BPC)
	}
	switch {
	case pp.Predictor == 1, pp.Predictor == 2, pp.Predictor >= 10 && pp.Predictor <= 15:
	default:
		return pp, fmt.Errorf("invalid /Predictor %d", pp.Predictor)
	}
	return pp, nil
}

// RowBytes is the number of bytes of one row of samples.
func (pp PredictorParams) RowBytes() int { return (pp.Colors*pp.BPC*pp.Columns + 7) / 8 }

// Unpredict undoes the TIFF (2) or PNG (10–15) predictor.  The data must
// consist of whole rows; anything else is an error.
func Unpredict(data []byte, parms obj.Dict) ([]byte, error) {
	pp, err := GetPredictorParams(parms)
	if err != nil {
		return nil, err
	}
	if pp.Predictor == 1 {
		return data, nil
	}
	row := pp.RowBytes()
	bpp := (pp.Colors*pp.BPC + 7) / 8
	if pp.Predictor == 2 {
		if len(data)%row != 0 {
			return nil, fmt.Errorf("predictor 2: %d bytes are not a multiple of the row length %d", len(data), row)
		}
		if pp.BPC != 8 {
			return nil, fmt.Errorf("predictor 2 with %d bits per component not supported", pp.BPC)
		}
		out := append([]byte(nil), data...)
		for r := 0; r+row <= len(out); r += row {
			for i := pp.Colors; i < row; i++ {
				out[r+i] += out[r+i-pp.Colors]
			}
		}
		return out, nil
	}
	if len(data)%(row+1) != 0 {
		return nil, fmt.Errorf("PNG predictor: %d bytes are not a multiple of the row length %d+1", len(data), row)
	}
	n := len(data) / (row + 1)
	out := make([]byte, 0, n*row)
	prev := make([]byte, row)
	for r := 0; r < n; r++ {
		tag := data[r*(row+1)]
		cur := append([]byte(nil), data[r*(row+1)+1:(r+1)*(row+1)]...)
		for i := range cur {
			var a, b, c int
			if i >= bpp {
				a = int(cur[i-bpp])
				c = int(prev[i-bpp])
			}
			b = int(prev[i])
			switch tag {
			case 0:
			case 1:
				cur[i] += byte(a)
			case 2:
				cur[i] += byte(b)
			case 3:
				cur[i] += byte((a + b) / 2)
			case 4:
				p := a + b - c
				pa, pb, pc := abs(p-a), abs(p-b), abs(p-c)
				switch {
				case pa <= pb && pa <= pc:
					cur[i] += byte(a)
				case pb <= pc:
					cur[i] += byte(b)
				default:
					cur[i] += byte(c)
				}
			default:
				return nil, fmt.Errorf("PNG predictor: row %d has filter type %d", r, tag)
			}
		}
		out = append(out, cur...)
		prev = cur
	}
	return out, nil
}

func abs(x int) int {
	if x < 0 {
		return -x
	}
	return x
}

// ASCIIHexDecode decodes §7.4.2 data.
func ASCIIHexDecode(data []byte) ([]byte, error) {
	var out []byte
	nib, have := 0, false
	for i, c := range data {
		if c == '>' {
			if have {
				out = append(out, byte(nib<<4))
			}
			return out, nil
		}
		if IsWhite(c) {
			continue
		}
		h := hexVal(c)
		if h < 0 {
			return nil, fmt.Errorf("byte %d: character %q", i, c)
		}
		if have {
			out = append(out, byte(nib<<4|h))
			have = false
		} else {
			nib, have = h, true
		}
	}
	return nil, fmt.Errorf("missing EOD marker '>'")
}

// ASCII85Decode decodes §7.4.3 data.
func ASCII85Decode(data []byte) ([]byte, error) {
	var out []byte
	var grp [5]byte
	n := 0
	flush := func(k int) error { // k = number of input characters in the group
		if k == 1 {
			return fmt.Errorf("final group of one character")
		}
		for i := k; i < 5; i++ {
			grp[i] = 84
		}
		var v uint64
		for i := 0; i < 5; i++ {
			v = v*85 + uint64(grp[i])
		}
		if v > 0xFFFFFFFF {
			return fmt.Errorf("group value out of range")
		}
		b := []byte{byte(v >> 24), byte(v >> 16), byte(v >> 8), byte(v)}
		out = append(out, b[:k-1]...)
		return nil
	}
	for i := 0; i < len(data); i++ {
		c := data[i]
		switch {
		case IsWhite(c):
		case c == '~':
			j := i + 1
			for j < len(data) && IsWhite(data[j]) {
				j++
			}
			if j >= len(data) || data[j] != '>' {
				return nil, fmt.Errorf("byte %d: '~' not followed by '>'", i)
			}
			if n > 0 {
				if err := flush(n); err != nil {
					return nil, err
				}
			}
			return out, nil
		case c == 'z':
			if n != 0 {
				return nil, fmt.Errorf("byte %d: 'z' inside a group", i)
			}
			out = append(out, 0, 0, 0, 0)
		case c >= '!' && c <= 'u':
			grp[n] = c - '!'
			n++
			if n == 5 {
				if err := flush(5); err != nil {
					return nil, err
				}
				n = 0
			}
		default:
			return nil, fmt.Errorf("byte %d: character %q", i, c)
		}
	}
	return nil, fmt.Errorf("missing EOD marker '~>'")
}

// RunLengthDecode decodes §7.4.5 data.
func RunLengthDecode(data []byte) ([]byte, error) {
	var out []byte
	i := 0
	for i < len(data) {
		l := int(data[i])
		i++
		switch {
		case l == 128:
			return out, nil
		case l < 128:
			if i+l+1 > len(data) {
				return nil, fmt.Errorf("literal run exceeds the data")
			}
			out = append(out, data[i:i+l+1]...)
			i += l + 1
		default:
			if i >= len(data) {
				return nil, fmt.Errorf("repeat run exceeds the data")
			}
			out = append(out, bytes.Repeat(data[i:i+1], 257-l)...)
			i++
		}
	}
	return nil, fmt.Errorf("missing EOD marker 128")
}

// LZWDecode decodes §7.4.4 LZW data (MSB first, 9–12 bit codes, 256 = clear,
// 257 = EOD).
func LZWDecode(data []byte, earlyChange int) ([]byte, error) {
	type entry struct {
		prefix int
		b      byte
		first  byte
		n      int
	}
	table := make([]entry, 258, 4096)
	for i := 0; i < 256; i++ {
		table[i] = entry{prefix: -1, b: byte(i), first: byte(i), n: 1}
	}
	expand := func(code int) []byte {
		e := table[code]
		buf := make([]byte, e.n)
		for k := e.n - 1; k >= 0; k-- {
			buf[k] = table[code].b
			code = table[code].prefix
		}
		return buf
	}
	var out []byte
	width := 9
	var acc uint32
	nbits := 0
	prev := -1
	pos := 0
	for {
		for nbits < width {
			if pos >= len(data) {
				return nil, fmt.Errorf("missing EOD code")
			}
			acc = acc<<8 | uint32(data[pos])
			pos++
			nbits += 8
		}
		code := int(acc>>(uint(nbits-width))) & (1<<uint(width) - 1)
		nbits -= width
		switch {
		case code == 256:
			table = table[:258]
			width = 9
			prev = -1
			continue
		case code == 257:
			return out, nil
		}
		if prev < 0 {
			if code >= 256 {
				return nil, fmt.Errorf("code %d after clear", code)
			}
			out = append(out, byte(code))
			prev = code
			continue
		}
		switch {
		case code < len(table):
			s := expand(code)
			out = append(out, s...)
			table = append(table, entry{prefix: prev, b: s[0], first: table[prev].first, n: table[prev].n + 1})
		case code == len(table):
			f := table[prev].first
			table = append(table, entry{prefix: prev, b: f, first: table[prev].first, n: table[prev].n + 1})
			out = append(out, expand(code)...)
		default:
			return nil, fmt.Errorf("code %d beyond the table (%d entries)", code, len(table))
		}
		prev = code
		if len(table) > 4096 {
			return nil, fmt.Errorf("table overflow without clear code")
		}
		switch len(table) + earlyChange {
		case 512:
			width = 10
		case 1024:
			width = 11
		case 2048:
			width = 12
		}
	}
}
