package strict

import (
	"bytes"
	"compress/lzw"
	"compress/zlib"
	"encoding/json"
	"fmt"
	"strings"
	"testing"

	"verif/harness/indep/obj"
)

// builder assembles a file and remembers offsets.
type builder struct {
	buf  bytes.Buffer
	offs map[int]int
}

func (b *builder) obj(n int, body string) {
	if b.offs == nil {
		b.offs = map[int]int{}
	}
	b.offs[n] = b.buf.Len()
	fmt.Fprintf(&b.buf, "%d 0 obj\n%s\nendobj\n", n, body)
}

func (b *builder) table(size int, extra string) {
	x := b.buf.Len()
	fmt.Fprintf(&b.buf, "xref\n0 %d\n0000000000 65535 f \n", size)
	for i := 1; i < size; i++ {
		fmt.Fprintf(&b.buf, "%010d 00000 n \n", b.offs[i])
	}
	fmt.Fprintf(&b.buf, "trailer\n<< /Size %d /Root 1 0 R %s>>\nstartxref\n%d\n%%%%EOF\n", size, extra, x)
}

func simple() *builder {
	b := &builder{}
	b.buf.WriteString("%PDF-1.7\n%\xe2\xe3\xcf\xd3\n")
	b.obj(1, "<< /Type /Catalog /Pages 2 0 R >>")
	b.obj(2, "<< /Type /Pages /Kids [] /Count 0 >>")
	b.obj(3, "<< /Length 5 >>\nstream\nhello\nendstream")
	b.obj(4, "[ 1 2.50 -3 (a\\(b\\)\\101\\\nc) <48 65 6C6> /A#20B true false null 3 0 R ]")
	return b
}

func TestHandWritten(t *testing.T) {
	b := simple()
	b.table(5, "")
	f, err := Parse(b.buf.Bytes())
	if err != nil {
		t.Fatal(err)
	}
	if f.Version != "1.7" || f.HeaderOffset != 0 || !f.BinaryMarker {
		t.Errorf("header: %+v", f)
	}
	if ps := WellFormed(f); len(ps) != 0 {
		t.Errorf("problems: %v", ps)
	}
	if len(f.Sections) != 1 || f.Sections[0].Kind != Table || len(f.Sections[0].Entries) != 5 {
		t.Fatalf("sections: %+v", f.Sections)
	}
	v, ok := f.Lookup(obj.Ref{Num: 4})
	if !ok {
		t.Fatal("object 4 not found")
	}
	want := obj.Array{obj.Int(1), obj.Real{F: 2.5}, obj.Int(-3), obj.Str("a(b)Ac"), obj.Str("Hel`"), obj.Name("A B"),
		obj.Bool(true), obj.Bool(false), obj.Null{}, obj.Ref{Num: 3}}
	if !obj.Equal(v, want) {
		t.Errorf("object 4 = %s", obj.String(v))
	}
	if _, ok := f.Lookup(obj.Ref{Num: 4, Gen: 1}); ok {
		t.Error("stale generation resolved")
	}
	if _, ok := f.Lookup(obj.Ref{Num: 9}); ok {
		t.Error("number beyond /Size resolved")
	}
	s, _ := f.Lookup(obj.Ref{Num: 3})
	if st, ok := s.(*obj.Stream); !ok || string(st.Raw) != "hello" {
		t.Errorf("stream: %v", obj.String(s))
	}
	if o := f.ObjectAt(int64(b.offs[3])); o == nil || !o.Stream.LengthOK || o.Stream.EOLBefore != "\n" {
		t.Errorf("stream info: %+v", o)
	}
	if _, err := json.Marshal(ToJSON(f)); err != nil {
		t.Error(err)
	}
}

func TestRefusals(t *testing.T) {
	good := func() []byte { b := simple(); b.table(5, ""); return b.buf.Bytes() }
	cases := []struct {
		name string
		edit func([]byte) []byte
		want string
	}{
		{"19-byte line", func(d []byte) []byte { return bytes.Replace(d, []byte("65535 f \n"), []byte("65535 f\n"), 1) }, "20-byte"},
		{"no header", func(d []byte) []byte { return d[5:] }, "header"},
		{"no eof", func(d []byte) []byte { return d[:len(d)-6] }, "EOF"},
		{"bad name escape", func(d []byte) []byte { return bytes.Replace(d, []byte("/A#20B"), []byte("/A#2xB"), 1) }, "hexadecimal"},
		{"junk between objects", func(d []byte) []byte {
			return bytes.Replace(d, []byte("/Count 0 >>\nendobj"), []byte("/Count 0 >>\nfoobar"), 1)
		}, "endobj"},
		{"stream CR only", func(d []byte) []byte { return bytes.Replace(d, []byte("stream\nhello"), []byte("stream\rhello"), 1) }, "CR LF or LF"},
		{"dup key", func(d []byte) []byte {
			return bytes.Replace(d, []byte("/Kids [] /Count 0"), []byte("/Kids [] /Kids 00"), 1)
		}, "duplicate"},
	}
	if _, err := Parse(good()); err != nil {
		t.Fatal(err)
	}
	for _, c := range cases {
		_, err := Parse(c.edit(good()))
		if err == nil || !strings.Contains(err.Error(), c.want) {
			t.Errorf("%s: got %v, want error containing %q", c.name, err, c.want)
		}
	}
}

func clauses(ps []Problem) string {
	m := map[string]bool{}
	for _, p := range ps {
		m[p.Clause] = true
	}
	var out []string
	for _, c := range []string{"startxref", "entry", "coverage", "length", "objstm", "xrefstm", "object0"} {
		if m[c] {
			out = append(out, c)
		}
	}
	return strings.Join(out, ",")
}

func TestProblems(t *testing.T) {
	// wrong /Length
	b := simple()
	b.table(5, "")
	d := bytes.Replace(b.buf.Bytes(), []byte("/Length 5"), []byte("/Length 4"), 1)
	f, err := Parse(d)
	if err != nil {
		t.Fatal(err)
	}
	if c := clauses(WellFormed(f)); c != "length" {
		t.Errorf("wrong length: %s", c)
	}
	s, _ := f.Lookup(obj.Ref{Num: 3})
	if string(s.(*obj.Stream).Raw) != "hello" {
		t.Errorf("extent not recovered")
	}
	// entry off by one
	b = simple()
	b.offs[2]++
	b.table(5, "")
	f, err = Parse(b.buf.Bytes())
	if err != nil {
		t.Fatal(err)
	}
	if c := clauses(WellFormed(f)); c != "entry" {
		t.Errorf("offset+1: %s %v", c, WellFormed(f))
	}
	// /Size too large
	b = simple()
	b.table(5, "")
	d = bytes.Replace(b.buf.Bytes(), []byte("/Size 5"), []byte("/Size 6"), 1)
	f, err = Parse(d)
	if err != nil {
		t.Fatal(err)
	}
	if c := clauses(WellFormed(f)); c != "coverage" {
		t.Errorf("size: %s", c)
	}
	// startxref off
	b = simple()
	b.table(5, "")
	d = b.buf.Bytes()
	i := bytes.LastIndex(d, []byte("startxref\n"))
	d2 := append([]byte{}, d[:i]...)
	d2 = append(d2, []byte(fmt.Sprintf("startxref\n%d\n%%%%EOF\n", 3))...)
	if _, err = Parse(d2); err == nil {
		t.Errorf("startxref pointing nowhere accepted")
	}
}

func deflate(b []byte) []byte {
	var z bytes.Buffer
	w := zlib.NewWriter(&z)
	w.Write(b)
	w.Close()
	return z.Bytes()
}

func TestXRefStreamAndObjStm(t *testing.T) {
	var b builder
	b.buf.WriteString("%PDF-1.5\n")
	b.obj(1, "<< /Type /Catalog /Pages 2 0 R >>")
	// object stream 4 holding objects 2 and 3
	members := "<< /Type /Pages /Kids [] /Count 0 >> (three)"
	hdr := "2 0 3 37 "
	body := deflate([]byte(hdr + members))
	b.offs[4] = b.buf.Len()
	fmt.Fprintf(&b.buf, "4 0 obj\n<< /Type /ObjStm /N 2 /First %d /Filter /FlateDecode /Length %d >>\nstream\r\n", len(hdr), len(body))
	b.buf.Write(body)
	b.buf.WriteString("\r\nendstream\nendobj\n")
	// xref stream 5 with W [1 2 1], PNG up predictor
	x := b.buf.Len()
	rows := [][]byte{
		{0, 0, 0, 255},
		{1, byte(b.offs[1] >> 8), byte(b.offs[1]), 0},
		{2, 0, 4, 0},
		{2, 0, 4, 1},
		{1, byte(b.offs[4] >> 8), byte(b.offs[4]), 0},
		{1, byte(x >> 8), byte(x), 0},
	}
	var pred []byte
	prev := make([]byte, 4)
	for _, r := range rows {
		pred = append(pred, 2)
		for i := range r {
			pred = append(pred, r[i]-prev[i])
		}
		prev = r
	}
	xs := deflate(pred)
	fmt.Fprintf(&b.buf, "5 0 obj\n<< /Type /XRef /Size 6 /W [1 2 1] /Root 1 0 R /Filter /FlateDecode /DecodeParms << /Predictor 12 /Columns 4 >> /Length %d >>\nstream\n", len(xs))
	b.buf.Write(xs)
	fmt.Fprintf(&b.buf, "\nendstream\nendobj\nstartxref\n%d\n%%%%EOF\n", x)
	f, err := Parse(b.buf.Bytes())
	if err != nil {
		t.Fatal(err)
	}
	if ps := WellFormed(f); clauses(ps) != "object0" { // generation 255 for object 0: W[2] = 1
		t.Errorf("problems: %v", ps)
	}
	v, ok := f.Lookup(obj.Ref{Num: 3})
	if !ok || !obj.Equal(v, obj.Str("three")) {
		t.Errorf("object 3: %v %v", ok, v)
	}
	v, ok = f.Lookup(obj.Ref{Num: 2})
	if !ok || kindOf(v) != "dict" {
		t.Errorf("object 2: %v %v", ok, v)
	}
	if _, ok := f.Lookup(obj.Ref{Num: 2, Gen: 1}); ok {
		t.Errorf("compressed object with generation 1 resolved")
	}
	// wrong /Columns is noticed
	d := bytes.Replace(b.buf.Bytes(), []byte("/Columns 4"), []byte("/Columns 5"), 1)
	if _, err := Parse(d); err == nil {
		t.Errorf("wrong /Columns accepted")
	}
	// wrong /N is a problem
	d = bytes.Replace(b.buf.Bytes(), []byte("/N 2"), []byte("/N 3"), 1)
	f, err = Parse(d)
	if err != nil {
		t.Fatal(err)
	}
	if !strings.Contains(clauses(WellFormed(f)), "objstm") {
		t.Errorf("wrong /N not reported: %v", WellFormed(f))
	}
}

func TestIncrementalAndHybrid(t *testing.T) {
	b := simple()
	b.table(5, "")
	// update: free 4 (generation 1), redefine 2, /Prev
	first := bytes.Index(b.buf.Bytes(), []byte("xref\n0 5"))
	o2 := b.buf.Len()
	b.buf.WriteString("2 0 obj\n<< /Type /Pages /Kids [] /Count 0 /New true >>\nendobj\n")
	x := b.buf.Len()
	fmt.Fprintf(&b.buf, "xref\n0 1\n0000000004 65535 f\r\n2 1\n%010d 00000 n\r\n4 1\n0000000000 00001 f\r\n", o2)
	fmt.Fprintf(&b.buf, "trailer\n<< /Size 5 /Root 1 0 R /Prev %d >>\nstartxref\n%d\n%%%%EOF\n", first, x)
	f, err := Parse(b.buf.Bytes())
	if err != nil {
		t.Fatal(err)
	}
	if ps := WellFormed(f); len(ps) != 0 {
		t.Errorf("problems: %v", ps)
	}
	if len(f.Sections) != 2 || len(f.Sections[0].Subsections) != 3 {
		t.Fatalf("sections: %d", len(f.Sections))
	}
	if _, ok := f.Lookup(obj.Ref{Num: 4}); ok {
		t.Error("freed object resolved")
	}
	v, _ := f.Lookup(obj.Ref{Num: 2})
	if _, ok := v.(obj.Dict)["New"]; !ok {
		t.Error("old definition of object 2 returned")
	}
	if len(f.Objects) != 5 {
		t.Errorf("%d physical objects", len(f.Objects))
	}
}

func TestFiltersLZW(t *testing.T) {
	src := bytes.Repeat([]byte("abcabcabd-"), 700)
	var z bytes.Buffer
	w := lzw.NewWriter(&z, lzw.MSB, 8)
	w.Write(src)
	w.Close()
	got, err := LZWDecode(z.Bytes(), 0)
	if err != nil || !bytes.Equal(got, src) {
		t.Errorf("LZW: %v (%d bytes)", err, len(got))
	}
	got, err = ASCII85Decode([]byte("87cURD]i,\"Ebo80~>"))
	if err != nil || string(got) != "Hello World!" {
		t.Errorf("A85: %q %v", got, err)
	}
	got, err = ASCIIHexDecode([]byte("48 656c6C 6f7>"))
	if err != nil || string(got) != "Hellop" {
		t.Errorf("AHx: %q %v", got, err)
	}
	got, err = RunLengthDecode([]byte{2, 'a', 'b', 'c', 254, 'x', 128})
	if err != nil || string(got) != "abcxxx" {
		t.Errorf("RL: %q %v", got, err)
	}
}
