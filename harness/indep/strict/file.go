package strict

import (
	"bytes"
	"fmt"
	"sort"

	"verif/harness/indep/obj"
)

// SectionKind tells how a cross-reference section is stored.
type SectionKind int

const (
	// Table is a classic cross-reference table followed by a trailer (§7.5.4).
	Table SectionKind = iota
	// XRefStream is a cross-reference stream (§7.5.8).
	XRefStream
	// Hybrid is a table whose trailer names a cross-reference stream with
	// /XRefStm (§7.5.8.4).
	Hybrid
)

func (k SectionKind) String() string {
	return [...]string{"table", "stream", "hybrid"}[k]
}

// EntryType is the type of a cross-reference entry.
type EntryType int

const (
	Free       EntryType = iota // 'f' / type 0
	InUse                       // 'n' / type 1
	Compressed                  // type 2
)

func (t EntryType) String() string { return [...]string{"free", "inuse", "compressed"}[t] }

// Entry is one cross-reference entry.
type Entry struct {
	Num  uint32
	Type EntryType
	// Offset is the byte offset as written in the file (relative to the '%'
	// of the header), for InUse entries.
	Offset int64
	// Gen is the generation (Free: the generation to use next; InUse: the
	// object's generation; Compressed: always 0).
	Gen uint16
	// NextFree is the number of the next free object (Free entries).
	NextFree uint32
	// Stm and Idx locate a compressed object: number of the object stream and
	// index within it.
	Stm uint32
	Idx int
	// Pos is the absolute offset of the 20-byte line (tables only, else -1).
	Pos int64
	// EOL is the two-byte end-of-line of a table line.
	EOL string
}

// Subsection is a run of consecutive object numbers of a section (a table
// subsection or one /Index pair).
type Subsection struct {
	First, Count uint32
}

// Section is one cross-reference section with its trailer.
type Section struct {
	Kind SectionKind
	// Offset is the absolute offset of the `xref` keyword or of the `N G obj`
	// header of the cross-reference stream.
	Offset      int64
	Subsections []Subsection
	Entries     []Entry // in file order
	// Trailer is the trailer dictionary (for streams: the stream dictionary).
	Trailer obj.Dict
	Size    int64
	// Prev is the /Prev value (relative offset), HasPrev tells if present.
	Prev    int64
	HasPrev bool
	// XRefStm is the cross-reference stream of a hybrid section (Kind ==
	// Hybrid), XRefStmOffset the value of the /XRefStm entry.
	XRefStm       *Section
	XRefStmOffset int64
	// W and the stream object (Kind == XRefStream).
	W      [3]int
	Object *Object
	// HasIndex tells whether /Index was present.
	HasIndex bool
	// End is the absolute offset just after the trailer dictionary (tables)
	// or after endobj (streams).
	End int64
}

// StreamInfo describes the stream part of an indirect object.
type StreamInfo struct {
	// KeywordEOL is the end-of-line after the `stream` keyword ("\n" or "\r\n").
	KeywordEOL string
	// DataOffset is the absolute offset of the first data byte.
	DataOffset int64
	// Raw is the data between the stream EOL and the EOL before endstream.
	Raw []byte
	// EOLBefore is the end-of-line marker before `endstream` ("" if none).
	EOLBefore string
	// LengthKind is "direct", "indirect", "missing" or "invalid" (not an
	// integer, negative, or an indirect reference that does not resolve to a
	// non-negative integer).
	LengthKind string
	// Declared is the declared length (-1 if missing or invalid).
	Declared int64
	// LengthOK reports that the declared length equals len(Raw).
	LengthOK bool
}

// Pair is one entry of the offset table of an object stream.
type Pair struct {
	Num uint32
	Off int
}

// Member is one object held in an object stream.
type Member struct {
	Num   uint32
	Off   int // offset relative to /First
	Value obj.Value
	End   int // offset (in the decoded data) after the object
}

// ObjStm is an expanded object stream (§7.5.7).
type ObjStm struct {
	N, First int
	Extends  obj.Value
	Decoded  []byte
	Pairs    []Pair
	Members  []Member
	// Problems lists consistency violations (wrong /N, bad offsets, members
	// that are streams or bare references, ...).
	Problems []string
}

// Object is an indirect object as it physically stands in the file.
type Object struct {
	Ref obj.Ref
	// Offset is the absolute offset of the first digit of `N G obj`, End the
	// absolute offset just after `endobj`.
	Offset, End int64
	Value       obj.Value
	Stream      *StreamInfo // nil unless Value is a *obj.Stream
	ObjStm      *ObjStm     // non-nil for /Type /ObjStm streams (after expansion)
}

// Problem is one violation of the well-formedness clauses.
type Problem struct {
	Clause string // header, eof, startxref, entry, coverage, length, objstm, xrefstm, table
	Off    int64  // absolute offset where applicable, else -1
	Msg    string
}

func (p Problem) String() string {
	if p.Off >= 0 {
		return fmt.Sprintf("[%s] byte %d: %s", p.Clause, p.Off, p.Msg)
	}
	return fmt.Sprintf("[%s] %s", p.Clause, p.Msg)
}

// DecryptFunc decrypts the data of a string or stream of the object ref.
type DecryptFunc func(ref obj.Ref, isStream bool, data []byte) ([]byte, error)

// Options control Parse.
type Options struct {
	// Decrypt is used for encrypted files (strings when asked through
	// File.DecryptValue, streams when decoding object streams).
	Decrypt DecryptFunc
}

// File is the abstract file extracted from the bytes.
type File struct {
	Data []byte
	// HeaderOffset is the absolute offset of the '%' of "%PDF-"; all offsets
	// written in the file (entries, startxref, /Prev, /XRefStm) are relative
	// to it (ISO 32000-2 §7.5.2).
	HeaderOffset int64
	Version      string // e.g. "1.7"
	// HeaderEnd is the absolute offset after the header line and the optional
	// binary-marker comment line.
	HeaderEnd    int64
	BinaryMarker bool
	// StartXRef is the value after the last `startxref` keyword,
	// StartXRefPos the absolute offset of that keyword, EOFPos the absolute
	// offset of the last "%%EOF".
	StartXRef    int64
	StartXRefPos int64
	EOFPos       int64
	// Sections lists the sections reached from startxref through /Prev,
	// newest first.
	Sections []*Section
	// AllSections lists every section found physically in the file, in file
	// order (cross-reference streams named by /XRefStm appear here too).
	AllSections []*Section
	// Objects lists every indirect object found in the file, in file order.
	Objects []*Object
	// Trailers lists every startxref/%%EOF block in file order.
	Blocks []Block
	// Problems found while parsing that do not prevent a strict parse but
	// violate a clause of well-formedness.
	Problems []Problem
	// Encrypted tells that the newest trailer has /Encrypt.  Object streams
	// are then expanded only once a Decrypt function is known.
	Encrypted bool

	decrypt  DecryptFunc
	byOffset map[int64]*Object // top-level objects by absolute offset
	expanded bool
	table    map[uint32]Entry // lookup table (see Lookup)
}

// Block is one `startxref N %%EOF` block.
type Block struct {
	Pos    int64 // absolute offset of the keyword
	Value  int64
	EOFPos int64
}

// Abs converts an offset written in the file to an absolute offset.
func (f *File) Abs(off int64) int64 { return off + f.HeaderOffset }

// Parse parses a PDF file strictly.
func Parse(data []byte) (*File, error) { return ParseOpts(data, nil) }

// ParseOpts is Parse with options.
func ParseOpts(data []byte, opt *Options) (*File, error) {
	p := &parser{f: &File{Data: data, byOffset: map[int64]*Object{}}, lexer: lexer{data: data}}
	if opt != nil {
		p.f.decrypt = opt.Decrypt
	}
	if err := p.parse(); err != nil {
		return nil, err
	}
	return p.f, nil
}

type parser struct {
	lexer
	f *File
	// objects being parsed (cycle guard for indirect /Length)
	busy map[int64]bool
	// tables found so far, by absolute offset
	tables map[int64]*Section
	// objects parsed so far, by absolute offset (top-level or not yet known)
	memo map[int64]*Object
	// cross-reference streams decoded so far
	streamSecs map[*Object]*Section
}

func (p *parser) parse() error {
	f := p.f
	data := p.data
	// --- header (§7.5.2): "%PDF-M.m" within the first 1024 bytes
	lim := len(data)
	if lim > 1024 {
		lim = 1024
	}
	h := bytes.Index(data[:lim], []byte("%PDF-"))
	if h < 0 {
		return p.errf(0, "no %%PDF- header within the first 1024 bytes")
	}
	f.HeaderOffset = int64(h)
	q := h + 5
	if q+3 > len(data) || data[q] < '0' || data[q] > '9' || data[q+1] != '.' || data[q+2] < '0' || data[q+2] > '9' {
		return p.errf(q, "header version is not of the form M.m")
	}
	f.Version = string(data[q : q+3])
	q += 3
	if q >= len(data) || !isEOLByte(data[q]) {
		return p.errf(q, "header line is not ended by an end-of-line marker")
	}
	q = skipEOL(data, q)
	// optional comment line with at least four bytes >= 128 (§7.5.2 NOTE)
	if q < len(data) && data[q] == '%' {
		e := q
		for e < len(data) && !isEOLByte(data[e]) {
			e++
		}
		hi := 0
		for _, c := range data[q+1 : e] {
			if c >= 128 {
				hi++
			}
		}
		if hi >= 4 {
			f.BinaryMarker = true
			q = skipEOL(data, e)
		}
	}
	f.HeaderEnd = int64(q)
	p.busy = map[int64]bool{}
	p.tables = map[int64]*Section{}
	p.memo = map[int64]*Object{}
	p.streamSecs = map[*Object]*Section{}

	// --- last startxref / %%EOF (§7.5.5), found from the end
	if err := p.findTail(); err != nil {
		return err
	}

	// --- the chain of sections from startxref (needed first: indirect
	// /Length values are resolved through it)
	if err := p.readChain(); err != nil {
		return err
	}

	// --- the body, sequentially: objects, tables+trailers, startxref blocks
	p.pos = q
	for {
		p.skipWS()
		if p.eof() {
			break
		}
		switch {
		case p.atKeyword("xref"):
			sec, err := p.tableAt(p.pos)
			if err != nil {
				return err
			}
			f.AllSections = append(f.AllSections, sec)
			p.pos = int(sec.End)
		case p.atKeyword("startxref"):
			b, end, err := p.parseBlock(p.pos)
			if err != nil {
				return err
			}
			f.Blocks = append(f.Blocks, b)
			p.pos = end
		case p.data[p.pos] >= '0' && p.data[p.pos] <= '9':
			o, err := p.objectAt(int64(p.pos))
			if err != nil {
				return err
			}
			f.Objects = append(f.Objects, o)
			f.byOffset[o.Offset] = o
			if s, ok := o.Value.(*obj.Stream); ok {
				if t, _ := s.Dict["Type"].(obj.Name); t == "XRef" {
					sec, err := p.streamSection(o)
					if err != nil {
						return err
					}
					f.AllSections = append(f.AllSections, sec)
				}
			}
			p.pos = int(o.End)
		default:
			return p.errf(p.pos, "expected an indirect object, xref or startxref, found %s", p.excerpt())
		}
	}
	if len(f.Blocks) == 0 || f.Blocks[len(f.Blocks)-1].Pos != f.StartXRefPos {
		return p.errf(int(f.StartXRefPos), "the last startxref found from the end is not the last block of the file")
	}
	for _, s := range f.Sections {
		if s.Kind == XRefStream || s.Kind == Hybrid {
			// streams in the chain must be objects met by the sequential walk
			so := s.Object
			if s.Kind == Hybrid {
				so = s.XRefStm.Object
			}
			if so != nil && f.byOffset[so.Offset] != so {
				return p.errf(int(so.Offset), "cross-reference stream is not a top-level object of the file")
			}
		}
	}
	if enc, ok := f.Sections[0].Trailer["Encrypt"]; ok {
		if _, isNull := enc.(obj.Null); !isNull {
			f.Encrypted = true
		}
	}
	if !f.Encrypted || f.decrypt != nil {
		if err := f.expandObjStms(); err != nil {
			return err
		}
	}
	return nil
}

// SetDecrypt installs the decryption function of an encrypted file and
// expands the object streams.
func (f *File) SetDecrypt(fn DecryptFunc) error {
	f.decrypt = fn
	f.expanded = false
	return f.expandObjStms()
}

func skipEOL(data []byte, q int) int {
	if q < len(data) && data[q] == '\r' {
		q++
		if q < len(data) && data[q] == '\n' {
			q++
		}
		return q
	}
	if q < len(data) && data[q] == '\n' {
		q++
	}
	return q
}

// eolAt returns the end-of-line marker at q ("" if none).
func eolAt(data []byte, q int) string {
	if q < len(data) && data[q] == '\r' {
		if q+1 < len(data) && data[q+1] == '\n' {
			return "\r\n"
		}
		return "\r"
	}
	if q < len(data) && data[q] == '\n' {
		return "\n"
	}
	return ""
}

// findTail locates the last "startxref" and "%%EOF".
func (p *parser) findTail() error {
	data := p.data
	i := bytes.LastIndex(data, []byte("startxref"))
	if i < 0 {
		return p.errf(len(data), "no startxref keyword")
	}
	b, end, err := p.parseBlock(i)
	if err != nil {
		return err
	}
	p.f.StartXRef, p.f.StartXRefPos, p.f.EOFPos = b.Value, b.Pos, b.EOFPos
	// after %%EOF only an optional end-of-line marker
	rest := data[end:]
	if len(rest) > 0 {
		return p.errf(end, "%d bytes after the final %%%%EOF line", len(rest))
	}
	return nil
}

// parseBlock parses "startxref" EOL number EOL "%%EOF" [EOL] at pos.
func (p *parser) parseBlock(pos int) (Block, int, error) {
	data := p.data
	q := pos + len("startxref")
	if eolAt(data, q) == "" {
		// white space before the end-of-line marker is tolerated by nobody
		return Block{}, 0, p.errf(q, "startxref is not followed by an end-of-line marker")
	}
	q = skipEOL(data, q)
	s := q
	var v int64
	for q < len(data) && data[q] >= '0' && data[q] <= '9' {
		v = v*10 + int64(data[q]-'0')
		q++
		if q-s > 15 {
			return Block{}, 0, p.errf(s, "startxref value too long")
		}
	}
	if q == s {
		return Block{}, 0, p.errf(s, "startxref is not followed by a byte offset")
	}
	if eolAt(data, q) == "" {
		return Block{}, 0, p.errf(q, "startxref value is not followed by an end-of-line marker")
	}
	q = skipEOL(data, q)
	if q+5 > len(data) || string(data[q:q+5]) != "%%EOF" {
		return Block{}, 0, p.errf(q, "%%%%EOF expected after the startxref value")
	}
	b := Block{Pos: int64(pos), Value: v, EOFPos: int64(q)}
	q += 5
	if q < len(data) {
		if eolAt(data, q) == "" {
			return Block{}, 0, p.errf(q, "%%%%EOF is not followed by an end-of-line marker")
		}
		q = skipEOL(data, q)
	}
	return b, q, nil
}

// readChain follows startxref and /Prev.
func (p *parser) readChain() error {
	f := p.f
	seen := map[int64]bool{}
	off := f.StartXRef
	where := "startxref"
	for {
		abs := f.Abs(off)
		if abs < f.HeaderEnd || abs >= int64(len(p.data)) {
			return p.errf(int(f.StartXRefPos), "%s value %d lies outside the file body", where, off)
		}
		if seen[abs] {
			return p.errf(int(abs), "/Prev chain is cyclic")
		}
		seen[abs] = true
		sec, err := p.sectionAt(abs, where)
		if err != nil {
			return err
		}
		f.Sections = append(f.Sections, sec)
		if !sec.HasPrev {
			return nil
		}
		off = sec.Prev
		where = "/Prev"
	}
}

// sectionAt parses the section whose first byte is at abs.
func (p *parser) sectionAt(abs int64, where string) (*Section, error) {
	save := p.pos
	defer func() { p.pos = save }()
	p.pos = int(abs)
	if p.atKeyword("xref") {
		sec, err := p.tableAt(int(abs))
		if err != nil {
			return nil, err
		}
		if v, ok := sec.Trailer["XRefStm"]; ok {
			n, isInt := v.(obj.Int)
			if !isInt || n <= 0 {
				return nil, p.errf(int(abs), "/XRefStm is not a positive integer")
			}
			sec.Kind = Hybrid
			sec.XRefStmOffset = int64(n)
			o, err := p.objectAt(p.f.Abs(int64(n)))
			if err != nil {
				return nil, fmt.Errorf("/XRefStm of the table at byte %d: %w", abs, err)
			}
			xs, err := p.streamSection(o)
			if err != nil {
				return nil, err
			}
			sec.XRefStm = xs
		}
		return sec, nil
	}
	if abs < int64(len(p.data)) && p.data[abs] >= '0' && p.data[abs] <= '9' {
		o, err := p.objectAt(abs)
		if err != nil {
			return nil, fmt.Errorf("%s points at byte %d: %w", where, abs, err)
		}
		return p.streamSection(o)
	}
	return nil, p.errf(int(abs), "%s does not point at a cross-reference section (found %s)", where, p.excerpt())
}

// tableAt parses a cross-reference table and its trailer (§7.5.4, §7.5.5).
func (p *parser) tableAt(pos int) (*Section, error) {
	if s, ok := p.tables[int64(pos)]; ok {
		return s, nil
	}
	data := p.data
	sec := &Section{Kind: Table, Offset: int64(pos)}
	q := pos + 4
	if eolAt(data, q) == "" {
		return nil, p.errf(q, "xref keyword is not followed by an end-of-line marker")
	}
	q = skipEOL(data, q)
	seenNum := map[uint32]bool{}
	for q < len(data) && data[q] >= '0' && data[q] <= '9' {
		// subsection header: two numbers separated by one space
		readNum := func() (int64, error) {
			s := q
			var v int64
			for q < len(data) && data[q] >= '0' && data[q] <= '9' {
				v = v*10 + int64(data[q]-'0')
				q++
				if q-s > 10 {
					return 0, p.errf(s, "number in subsection header too long")
				}
			}
			if q == s {
				return 0, p.errf(s, "number expected in subsection header")
			}
			return v, nil
		}
		hdr := q
		first, err := readNum()
		if err != nil {
			return nil, err
		}
		if q >= len(data) || data[q] != ' ' {
			return nil, p.errf(q, "subsection header: a single space expected between the two numbers")
		}
		q++
		count, err := readNum()
		if err != nil {
			return nil, err
		}
		if eolAt(data, q) == "" {
			return nil, p.errf(q, "subsection header is not followed by an end-of-line marker")
		}
		q = skipEOL(data, q)
		if first+count > 1<<32 {
			return nil, p.errf(hdr, "subsection %d %d exceeds the object number range", first, count)
		}
		sec.Subsections = append(sec.Subsections, Subsection{First: uint32(first), Count: uint32(count)})
		for i := int64(0); i < count; i++ {
			if q+20 > len(data) {
				return nil, p.errf(q, "cross-reference entry cut short by the end of the file")
			}
			line := data[q : q+20]
			ok := line[10] == ' ' && line[16] == ' ' && (line[17] == 'n' || line[17] == 'f')
			for k := 0; k < 10 && ok; k++ {
				ok = line[k] >= '0' && line[k] <= '9'
			}
			for k := 11; k < 16 && ok; k++ {
				ok = line[k] >= '0' && line[k] <= '9'
			}
			eol := string(line[18:20])
			if ok && eol != " \r" && eol != " \n" && eol != "\r\n" {
				ok = false
			}
			if !ok {
				return nil, p.errf(q, "cross-reference entry is not of the 20-byte form 'nnnnnnnnnn ggggg n|f' + two-byte EOL: %q", string(line))
			}
			var a, g int64
			for k := 0; k < 10; k++ {
				a = a*10 + int64(line[k]-'0')
			}
			for k := 11; k < 16; k++ {
				g = g*10 + int64(line[k]-'0')
			}
			if g > 65535 {
				return nil, p.errf(q, "generation %d exceeds 65535", g)
			}
			num := uint32(first + i)
			if seenNum[num] {
				return nil, p.errf(q, "object %d has two entries in one table", num)
			}
			seenNum[num] = true
			e := Entry{Num: num, Gen: uint16(g), Pos: int64(q), EOL: eol}
			if line[17] == 'n' {
				e.Type = InUse
				e.Offset = a
			} else {
				e.Type = Free
				if a > 1<<32-1 {
					return nil, p.errf(q, "next free object number %d out of range", a)
				}
				e.NextFree = uint32(a)
			}
			sec.Entries = append(sec.Entries, e)
			q += 20
		}
	}
	if len(sec.Subsections) == 0 {
		return nil, p.errf(q, "cross-reference table has no subsection")
	}
	p.pos = q
	p.skipWS()
	if err := p.expectKeyword("trailer"); err != nil {
		return nil, err
	}
	p.skipWS()
	if !p.hasPrefix("<<") {
		return nil, p.errf(p.pos, "trailer keyword is not followed by a dictionary")
	}
	d, err := p.parseDict(0)
	if err != nil {
		return nil, err
	}
	sec.Trailer = d
	sec.End = int64(p.pos)
	if err := p.trailerFields(sec, d, pos); err != nil {
		return nil, err
	}
	p.tables[int64(pos)] = sec
	return sec, nil
}

func (p *parser) trailerFields(sec *Section, d obj.Dict, pos int) error {
	size, ok := d["Size"].(obj.Int)
	if !ok || size < 0 {
		return p.errf(pos, "trailer /Size is missing or not a non-negative integer")
	}
	sec.Size = int64(size)
	if v, ok := d["Prev"]; ok {
		n, isInt := v.(obj.Int)
		if !isInt || n < 0 {
			return p.errf(pos, "/Prev is not a non-negative integer (it must be direct)")
		}
		sec.Prev, sec.HasPrev = int64(n), true
	}
	return nil
}

// objectAt parses the indirect object whose header starts at abs (memoised).
func (p *parser) objectAt(abs int64) (*Object, error) {
	if o, ok := p.memo[abs]; ok {
		return o, nil
	}
	if p.busy[abs] {
		return nil, p.errf(int(abs), "object needs itself to determine a stream length")
	}
	p.busy[abs] = true
	defer delete(p.busy, abs)
	save := p.pos
	defer func() { p.pos = save }()

	if abs < 0 || abs >= int64(len(p.data)) {
		return nil, p.errf(int(abs), "offset outside the file")
	}
	if abs > 0 && isRegular(p.data[abs-1]) {
		return nil, p.errf(int(abs), "object header does not start at a token boundary")
	}
	p.pos = int(abs)
	n, ok := p.parseUint()
	if !ok {
		return nil, p.errf(int(abs), "object number expected, found %s", p.excerpt())
	}
	p.skipWS()
	g, ok := p.parseUint()
	if !ok {
		return nil, p.errf(p.pos, "generation number expected, found %s", p.excerpt())
	}
	p.skipWS()
	if err := p.expectKeyword("obj"); err != nil {
		return nil, err
	}
	if n == 0 || n > 1<<32-1 || g > 65535 {
		return nil, p.errf(int(abs), "object header %d %d out of range", n, g)
	}
	o := &Object{Ref: obj.Ref{Num: uint32(n), Gen: uint16(g)}, Offset: abs}
	v, err := p.parseObject(0)
	if err != nil {
		return nil, err
	}
	p.skipWS()
	if d, isDict := v.(obj.Dict); isDict && p.atKeyword("stream") {
		si, err := p.streamBody(d)
		if err != nil {
			return nil, err
		}
		o.Stream = si
		v = &obj.Stream{Dict: d, Raw: si.Raw}
		p.skipWS()
	}
	if err := p.expectKeyword("endobj"); err != nil {
		return nil, err
	}
	o.Value = v
	o.End = int64(p.pos)
	p.memo[abs] = o
	return o, nil
}

// streamBody parses from the `stream` keyword through `endstream` (§7.3.8).
func (p *parser) streamBody(d obj.Dict) (*StreamInfo, error) {
	data := p.data
	kw := p.pos
	p.pos += len("stream")
	si := &StreamInfo{Declared: -1}
	switch eolAt(data, p.pos) {
	case "\r\n":
		si.KeywordEOL = "\r\n"
	case "\n":
		si.KeywordEOL = "\n"
	default:
		return nil, p.errf(p.pos, "stream keyword must be followed by CR LF or LF")
	}
	p.pos += len(si.KeywordEOL)
	start := p.pos
	si.DataOffset = int64(start)

	// declared length
	lv, has := d["Length"]
	switch x := lv.(type) {
	case nil:
		if has {
			si.LengthKind = "invalid"
		} else {
			si.LengthKind = "missing"
		}
	case obj.Int:
		si.LengthKind = "direct"
		if x >= 0 {
			si.Declared = int64(x)
		} else {
			si.LengthKind = "invalid"
		}
	case obj.Ref:
		si.LengthKind = "invalid"
		if w, ok := p.resolveEarly(x); ok {
			if n, isInt := w.(obj.Int); isInt && n >= 0 {
				si.LengthKind = "indirect"
				si.Declared = int64(n)
			}
		}
	default:
		si.LengthKind = "invalid"
	}

	matchEnd := func(q int) (string, bool) {
		e := eolAt(data, q)
		r := q + len(e)
		if r+9 <= len(data) && string(data[r:r+9]) == "endstream" && (r+9 == len(data) || !isRegular(data[r+9])) {
			return e, true
		}
		return "", false
	}
	if si.Declared >= 0 && int64(start)+si.Declared <= int64(len(data)) {
		q := start + int(si.Declared)
		if e, ok := matchEnd(q); ok {
			si.Raw = data[start:q]
			si.EOLBefore = e
			si.LengthOK = true
			p.pos = q + len(e) + 9
			return si, nil
		}
	}
	// the declared length is absent or wrong: the data extends to the first
	// end-of-line marker that is followed by endstream
	for q := start; q < len(data); q++ {
		if !isEOLByte(data[q]) {
			continue
		}
		if e, ok := matchEnd(q); ok {
			si.Raw = data[start:q]
			si.EOLBefore = e
			p.pos = q + len(e) + 9
			return si, nil
		}
	}
	return nil, p.errf(kw, "stream has no 'endstream' preceded by an end-of-line marker")
}

// resolveEarly finds the value of an indirect object through the chain of
// sections, while the body is still being parsed (for indirect /Length).
func (p *parser) resolveEarly(r obj.Ref) (obj.Value, bool) {
	for _, sec := range p.f.Sections {
		for _, part := range sec.parts() {
			for _, e := range part.Entries {
				if e.Num != r.Num {
					continue
				}
				if e.Type != InUse || e.Gen != r.Gen {
					return nil, false // free, compressed (not needed early) or stale
				}
				o, err := p.objectAt(p.f.Abs(e.Offset))
				if err != nil || o.Ref != r {
					return nil, false
				}
				return o.Value, true
			}
		}
	}
	return nil, false
}

// parts returns the entry lists of a section in the order a reader consults
// them: the table (or the stream), then the /XRefStm stream.
func (s *Section) parts() []*Section {
	if s.Kind == Hybrid && s.XRefStm != nil {
		return []*Section{s, s.XRefStm}
	}
	return []*Section{s}
}

// streamSection decodes a cross-reference stream (§7.5.8).
func (p *parser) streamSection(o *Object) (*Section, error) {
	if s, ok := p.streamSecs[o]; ok {
		return s, nil
	}
	st, ok := o.Value.(*obj.Stream)
	at := int(o.Offset)
	if !ok {
		return nil, p.errf(at, "object %s is not a stream, cross-reference stream expected", o.Ref)
	}
	d := st.Dict
	if t, _ := d["Type"].(obj.Name); t != "XRef" {
		return nil, p.errf(at, "stream %s has no /Type /XRef", o.Ref)
	}
	sec := &Section{Kind: XRefStream, Offset: o.Offset, Object: o, Trailer: d, End: o.End}
	if err := p.trailerFields(sec, d, at); err != nil {
		return nil, err
	}
	w, ok := d["W"].(obj.Array)
	if !ok || len(w) != 3 {
		return nil, p.errf(at, "/W is not an array of three integers")
	}
	for i, e := range w {
		n, isInt := e.(obj.Int)
		if !isInt || n < 0 || n > 8 {
			return nil, p.errf(at, "/W element %d is not an integer in 0..8", i)
		}
		sec.W[i] = int(n)
	}
	switch idx := d["Index"].(type) {
	case nil:
		sec.Subsections = []Subsection{{0, uint32(sec.Size)}}
	case obj.Array:
		sec.HasIndex = true
		if len(idx)%2 != 0 {
			return nil, p.errf(at, "/Index has an odd number of elements")
		}
		for i := 0; i < len(idx); i += 2 {
			a, ok1 := idx[i].(obj.Int)
			c, ok2 := idx[i+1].(obj.Int)
			if !ok1 || !ok2 || a < 0 || c < 0 || int64(a)+int64(c) > 1<<32 {
				return nil, p.errf(at, "/Index pair %d is not a pair of non-negative integers", i/2)
			}
			sec.Subsections = append(sec.Subsections, Subsection{uint32(a), uint32(c)})
		}
	default:
		return nil, p.errf(at, "/Index is not an array")
	}
	if _, bad := d["Length"].(obj.Ref); bad && !o.Stream.LengthOK {
		return nil, p.errf(at, "cross-reference stream with an unresolvable /Length")
	}
	// predictor parameters must match the row length (a writer that records
	// the wrong /Columns produces garbage for every other reader)
	fs, err := Filters(d, nil)
	if err != nil {
		return nil, p.errf(at, "cross-reference stream: %v", err)
	}
	row := sec.W[0] + sec.W[1] + sec.W[2]
	if row == 0 {
		return nil, p.errf(at, "/W is [0 0 0]")
	}
	for _, fsp := range fs {
		if fsp.Name == "Crypt" {
			return nil, p.errf(at, "cross-reference stream uses a /Crypt filter")
		}
		if fsp.Parms != nil {
			pp, err := GetPredictorParams(fsp.Parms)
			if err != nil {
				return nil, p.errf(at, "cross-reference stream: %v", err)
			}
			if pp.Predictor != 1 && pp.RowBytes() != row {
				p.f.Problems = append(p.f.Problems, Problem{"xrefstm", o.Offset,
					fmt.Sprintf("predictor row length %d differs from the entry length %d given by /W", pp.RowBytes(), row)})
			}
		}
	}
	dec, err := Decode(d, st.Raw, nil)
	if err != nil {
		return nil, p.errf(at, "cross-reference stream cannot be decoded: %v", err)
	}
	total := 0
	for _, ss := range sec.Subsections {
		total += int(ss.Count)
	}
	if len(dec) != total*row {
		return nil, p.errf(at, "cross-reference stream holds %d bytes, but /Index and /W call for %d entries of %d bytes", len(dec), total, row)
	}
	field := func(b []byte) uint64 {
		var v uint64
		for _, c := range b {
			v = v<<8 | uint64(c)
		}
		return v
	}
	k := 0
	seenNum := map[uint32]bool{}
	for _, ss := range sec.Subsections {
		for i := uint32(0); i < ss.Count; i++ {
			rec := dec[k*row : (k+1)*row]
			k++
			num := ss.First + i
			if seenNum[num] {
				return nil, p.errf(at, "object %d has two entries in one cross-reference stream", num)
			}
			seenNum[num] = true
			tp := uint64(1)
			if sec.W[0] > 0 {
				tp = field(rec[:sec.W[0]])
			}
			f2 := field(rec[sec.W[0] : sec.W[0]+sec.W[1]])
			f3 := field(rec[sec.W[0]+sec.W[1]:])
			e := Entry{Num: num, Pos: -1}
			switch tp {
			case 0:
				if f2 > 1<<32-1 || f3 > 65535 {
					return nil, p.errf(at, "free entry of object %d out of range", num)
				}
				e.Type, e.NextFree, e.Gen = Free, uint32(f2), uint16(f3)
			case 1:
				if f2 > 1<<62 || f3 > 65535 {
					return nil, p.errf(at, "in-use entry of object %d out of range", num)
				}
				e.Type, e.Offset, e.Gen = InUse, int64(f2), uint16(f3)
			case 2:
				if f2 > 1<<32-1 || f3 > 1<<31 {
					return nil, p.errf(at, "compressed entry of object %d out of range", num)
				}
				e.Type, e.Stm, e.Idx = Compressed, uint32(f2), int(f3)
			default:
				return nil, p.errf(at, "entry of object %d has type %d", num, tp)
			}
			sec.Entries = append(sec.Entries, e)
		}
	}
	p.streamSecs[o] = sec
	return sec, nil
}

// expandObjStms expands every /Type /ObjStm stream.
func (f *File) expandObjStms() error {
	if f.expanded {
		return nil
	}
	f.expanded = true
	for _, o := range f.Objects {
		st, ok := o.Value.(*obj.Stream)
		if !ok {
			continue
		}
		if t, _ := st.Dict["Type"].(obj.Name); t != "ObjStm" {
			continue
		}
		os, err := f.expandOne(o, st)
		if err != nil {
			return err
		}
		o.ObjStm = os
	}
	return nil
}

func (f *File) expandOne(o *Object, st *obj.Stream) (*ObjStm, error) {
	in := fmt.Sprintf("object stream %d %d", o.Ref.Num, o.Ref.Gen)
	fail := func(off int, format string, a ...any) error {
		return &Error{Off: int64(off), In: in, Msg: fmt.Sprintf(format, a...)}
	}
	d := st.Dict
	res := func(r obj.Ref) (obj.Value, bool) { return f.Lookup(r) }
	n, ok1 := resolve(d["N"], res).(obj.Int)
	first, ok2 := resolve(d["First"], res).(obj.Int)
	if !ok1 || !ok2 || n < 0 || first < 0 {
		return nil, &Error{Off: o.Offset, Msg: "object stream without valid /N and /First"}
	}
	raw := st.Raw
	if f.Encrypted {
		if f.decrypt == nil {
			return nil, &Error{Off: o.Offset, Msg: "encrypted object stream and no Decrypt function"}
		}
		var err error
		raw, err = f.decrypt(o.Ref, true, raw)
		if err != nil {
			return nil, &Error{Off: o.Offset, Msg: "decrypting object stream: " + err.Error()}
		}
	}
	dec, err := Decode(d, raw, res)
	if err != nil {
		return nil, &Error{Off: o.Offset, Msg: "object stream cannot be decoded: " + err.Error()}
	}
	os := &ObjStm{N: int(n), First: int(first), Extends: d["Extends"], Decoded: dec}
	bad := func(format string, a ...any) { os.Problems = append(os.Problems, fmt.Sprintf(format, a...)) }
	if o.Ref.Gen != 0 {
		bad("object stream has generation %d", o.Ref.Gen)
	}
	if int(first) > len(dec) {
		return nil, fail(0, "/First %d exceeds the decoded length %d", first, len(dec))
	}
	// the pair table: N pairs of integers separated by white space
	l := &lexer{data: dec[:first], in: in}
	for {
		l.skipWS()
		if l.eof() {
			break
		}
		a, ok := l.parseUint()
		if !ok {
			return nil, fail(l.pos, "object number expected in the offset table, found %s", l.excerpt())
		}
		l.skipWS()
		b, ok := l.parseUint()
		if !ok {
			return nil, fail(l.pos, "offset expected in the offset table, found %s", l.excerpt())
		}
		if a > 1<<32-1 || b > 1<<31 {
			return nil, fail(l.pos, "offset table entry out of range")
		}
		os.Pairs = append(os.Pairs, Pair{Num: uint32(a), Off: int(b)})
	}
	if len(os.Pairs) != int(n) {
		bad("/N is %d but the offset table before /First holds %d pairs", n, len(os.Pairs))
	}
	seen := map[uint32]bool{}
	prevEnd := int(first)
	for i, pr := range os.Pairs {
		if seen[pr.Num] {
			bad("object %d appears twice in the offset table", pr.Num)
		}
		seen[pr.Num] = true
		if pr.Num == 0 {
			bad("object number 0 in the offset table")
		}
		if i > 0 && pr.Off <= os.Pairs[i-1].Off {
			bad("offset of object %d (%d) does not increase", pr.Num, pr.Off)
		}
		at := int(first) + pr.Off
		if at > len(dec) {
			return nil, fail(at, "offset of object %d lies outside the stream", pr.Num)
		}
		if at < prevEnd {
			bad("object %d at offset %d overlaps the preceding object (ends at %d)", pr.Num, pr.Off, prevEnd-int(first))
		}
		// only white space (or comments) may lie between objects
		gap := &lexer{data: dec[:at], pos: min(prevEnd, at), in: in}
		gap.skipWS()
		if !gap.eof() {
			bad("bytes between objects before object %d are not white space", pr.Num)
		}
		if at < len(dec) && IsWhite(dec[at]) {
			bad("offset of object %d does not point at the start of a token", pr.Num)
		}
		if at > int(first) && isRegular(dec[at-1]) && at < len(dec) && isRegular(dec[at]) {
			bad("offset of object %d points into the middle of a token", pr.Num)
		}
		ml := &lexer{data: dec, pos: at, in: in}
		if ml.atKeyword("stream") {
			return nil, fail(at, "stream keyword inside an object stream")
		}
		v, err := ml.parseObject(0)
		if err != nil {
			return nil, err
		}
		if _, isRef := v.(obj.Ref); isRef {
			bad("object %d is a bare indirect reference", pr.Num)
		}
		ml2 := &lexer{data: dec, pos: ml.pos, in: in}
		ml2.skipWS()
		if ml2.atKeyword("stream") {
			bad("object %d is a stream", pr.Num)
		}
		if ml2.atKeyword("endobj") || ml2.atKeyword("obj") {
			bad("obj/endobj keyword inside an object stream")
		}
		os.Members = append(os.Members, Member{Num: pr.Num, Off: pr.Off, Value: v, End: ml.pos})
		prevEnd = ml.pos
	}
	tail := &lexer{data: dec, pos: prevEnd, in: in}
	tail.skipWS()
	if !tail.eof() {
		bad("data after the last object of the object stream")
	}
	if e, ok := d["Extends"]; ok {
		if _, isRef := e.(obj.Ref); !isRef {
			bad("/Extends is not an indirect reference")
		}
	}
	return os, nil
}

// ObjectAt returns the top-level object whose `N G obj` header starts at the
// absolute offset abs, or nil.
func (f *File) ObjectAt(abs int64) *Object { return f.byOffset[abs] }

// sortedNums returns the keys of a table in increasing order.
func sortedNums(m map[uint32]Entry) []uint32 {
	out := make([]uint32, 0, len(m))
	for k := range m {
		out = append(out, k)
	}
	sort.Slice(out, func(i, j int) bool { return out[i] < out[j] })
	return out
}
