// Package strict is an independent, strict parser of PDF files written from
// ISO 32000 (§7.2 lexical conventions, §7.3 objects, §7.5 file structure).
// It imports nothing from go-pdf.  Anything it cannot parse strictly is
// refused with a diagnostic carrying the byte offset and the reason.
//
// The package is the projection function from file bytes to the abstract file
// of spec/file/PdfFile.tla: sections (newest first), entries, objects with
// their exact offsets, stream extents, expanded object streams.
package strict

import (
	"fmt"
	"math"
	"strconv"

	"verif/harness/indep/obj"
)

// Error is a refusal: the file cannot be parsed strictly.
type Error struct {
	Off int64  // absolute byte offset in the file (or in a decoded stream, see In)
	In  string // "" for the file itself, otherwise e.g. "object stream 7 0"
	Msg string
}

func (e *Error) Error() string {
	if e.In != "" {
		return fmt.Sprintf("strict: %s, byte %d: %s", e.In, e.Off, e.Msg)
	}
	return fmt.Sprintf("strict: byte %d: %s", e.Off, e.Msg)
}

// lexer walks a byte slice.  All positions are indices into data.
type lexer struct {
	data []byte
	pos  int
	in   string
}

func (l *lexer) errf(off int, format string, a ...any) error {
	return &Error{Off: int64(off), In: l.in, Msg: fmt.Sprintf(format, a...)}
}

// IsWhite reports whether c is a white-space character (ISO 32000-1 Table 1).
func IsWhite(c byte) bool {
	return c == 0 || c == 9 || c == 10 || c == 12 || c == 13 || c == 32
}

// IsDelim reports whether c is a delimiter character (ISO 32000-1 Table 2).
func IsDelim(c byte) bool {
	switch c {
	case '(', ')', '<', '>', '[', ']', '{', '}', '/', '%':
		return true
	}
	return false
}

func isRegular(c byte) bool { return !IsWhite(c) && !IsDelim(c) }

func isEOLByte(c byte) bool { return c == '\n' || c == '\r' }

// skipWS skips white space and comments (a comment counts as white space,
// §7.2.3).
func (l *lexer) skipWS() {
	for l.pos < len(l.data) {
		c := l.data[l.pos]
		if IsWhite(c) {
			l.pos++
		} else if c == '%' {
			for l.pos < len(l.data) && !isEOLByte(l.data[l.pos]) {
				l.pos++
			}
		} else {
			return
		}
	}
}

// skipPlainWS skips white space only (no comments).
func (l *lexer) skipPlainWS() {
	for l.pos < len(l.data) && IsWhite(l.data[l.pos]) {
		l.pos++
	}
}

func (l *lexer) eof() bool { return l.pos >= len(l.data) }

func (l *lexer) hasPrefix(s string) bool {
	return l.pos+len(s) <= len(l.data) && string(l.data[l.pos:l.pos+len(s)]) == s
}

// atKeyword reports whether the keyword kw stands at the current position,
// followed by white space, a delimiter or the end of data.
func (l *lexer) atKeyword(kw string) bool {
	if !l.hasPrefix(kw) {
		return false
	}
	e := l.pos + len(kw)
	return e == len(l.data) || !isRegular(l.data[e])
}

func (l *lexer) expectKeyword(kw string) error {
	if !l.atKeyword(kw) {
		return l.errf(l.pos, "expected keyword %q, found %s", kw, l.excerpt())
	}
	l.pos += len(kw)
	return nil
}

func (l *lexer) excerpt() string {
	e := l.pos + 16
	if e > len(l.data) {
		e = len(l.data)
	}
	if l.pos >= len(l.data) {
		return "end of data"
	}
	return strconv.Quote(string(l.data[l.pos:e]))
}

// regularRun returns the end of the run of regular characters starting at p.
func (l *lexer) regularRun(p int) int {
	for p < len(l.data) && isRegular(l.data[p]) {
		p++
	}
	return p
}

// parseUint parses an unsigned decimal integer token (digits only) at the
// current position.  ok is false (and nothing consumed) if the token is not
// of that form.
func (l *lexer) parseUint() (v int64, ok bool) {
	e := l.regularRun(l.pos)
	if e == l.pos || e-l.pos > 18 {
		return 0, false
	}
	for _, c := range l.data[l.pos:e] {
		if c < '0' || c > '9' {
			return 0, false
		}
		v = v*10 + int64(c-'0')
	}
	l.pos = e
	return v, true
}

// parseNumber parses an integer or real token (§7.3.3).
func (l *lexer) parseNumber() (obj.Value, error) {
	start := l.pos
	e := l.regularRun(start)
	tok := string(l.data[start:e])
	if tok == "" {
		return nil, l.errf(start, "number expected")
	}
	body := tok
	if body[0] == '+' || body[0] == '-' {
		body = body[1:]
	}
	digits, dots := 0, 0
	for i := 0; i < len(body); i++ {
		switch {
		case body[i] >= '0' && body[i] <= '9':
			digits++
		case body[i] == '.':
			dots++
		default:
			return nil, l.errf(start, "malformed number %q", tok)
		}
	}
	if digits == 0 || dots > 1 {
		return nil, l.errf(start, "malformed number %q", tok)
	}
	l.pos = e
	if dots == 0 {
		v, err := strconv.ParseInt(tok, 10, 64)
		if err != nil {
			return nil, l.errf(start, "integer out of range %q", tok)
		}
		return obj.Int(v), nil
	}
	f, err := strconv.ParseFloat(tok, 64)
	if err != nil || math.IsInf(f, 0) || math.IsNaN(f) {
		return nil, l.errf(start, "real out of range %q", tok)
	}
	return obj.Real{F: f, Lit: tok}, nil
}

func hexVal(c byte) int {
	switch {
	case c >= '0' && c <= '9':
		return int(c - '0')
	case c >= 'a' && c <= 'f':
		return int(c-'a') + 10
	case c >= 'A' && c <= 'F':
		return int(c-'A') + 10
	}
	return -1
}

// parseName parses a name (§7.3.5); the current byte is '/'.
func (l *lexer) parseName() (obj.Name, error) {
	start := l.pos
	l.pos++
	var out []byte
	for l.pos < len(l.data) && isRegular(l.data[l.pos]) {
		c := l.data[l.pos]
		if c == '#' {
			if l.pos+2 >= len(l.data) || hexVal(l.data[l.pos+1]) < 0 || hexVal(l.data[l.pos+2]) < 0 {
				return "", l.errf(l.pos, "'#' in a name is not followed by two hexadecimal digits")
			}
			b := byte(hexVal(l.data[l.pos+1])<<4 | hexVal(l.data[l.pos+2]))
			if b == 0 {
				return "", l.errf(l.pos, "name contains #00")
			}
			out = append(out, b)
			l.pos += 3
			continue
		}
		out = append(out, c)
		l.pos++
	}
	_ = start
	return obj.Name(out), nil
}

// parseLiteralString parses a literal string (§7.3.4.2); the current byte is '('.
func (l *lexer) parseLiteralString() (obj.Str, error) {
	start := l.pos
	l.pos++
	depth := 1
	out := []byte{}
	for {
		if l.pos >= len(l.data) {
			return nil, l.errf(start, "unterminated literal string")
		}
		c := l.data[l.pos]
		l.pos++
		switch c {
		case '(':
			depth++
			out = append(out, c)
		case ')':
			depth--
			if depth == 0 {
				return out, nil
			}
			out = append(out, c)
		case '\r':
			// an end-of-line marker within a string is read as LF
			if l.pos < len(l.data) && l.data[l.pos] == '\n' {
				l.pos++
			}
			out = append(out, '\n')
		case '\\':
			if l.pos >= len(l.data) {
				return nil, l.errf(start, "unterminated literal string")
			}
			e := l.data[l.pos]
			l.pos++
			switch e {
			case 'n':
				out = append(out, '\n')
			case 'r':
				out = append(out, '\r')
			case 't':
				out = append(out, '\t')
			case 'b':
				out = append(out, '\b')
			case 'f':
				out = append(out, '\f')
			case '(', ')', '\\':
				out = append(out, e)
			case '\n':
				// line continuation
			case '\r':
				if l.pos < len(l.data) && l.data[l.pos] == '\n' {
					l.pos++
				}
			case '0', '1', '2', '3', '4', '5', '6', '7':
				v := int(e - '0')
				for k := 0; k < 2 && l.pos < len(l.data) && l.data[l.pos] >= '0' && l.data[l.pos] <= '7'; k++ {
					v = v*8 + int(l.data[l.pos]-'0')
					l.pos++
				}
				out = append(out, byte(v)) // high-order overflow ignored
			default:
				// the REVERSE SOLIDUS is ignored
				out = append(out, e)
			}
		default:
			out = append(out, c)
		}
	}
}

// parseHexString parses a hexadecimal string (§7.3.4.3); the current byte is '<'.
func (l *lexer) parseHexString() (obj.Str, error) {
	start := l.pos
	l.pos++
	out := []byte{}
	nib, have := 0, false
	for {
		if l.pos >= len(l.data) {
			return nil, l.errf(start, "unterminated hexadecimal string")
		}
		c := l.data[l.pos]
		l.pos++
		if c == '>' {
			if have {
				out = append(out, byte(nib<<4))
			}
			return out, nil
		}
		if IsWhite(c) {
			continue
		}
		h := hexVal(c)
		if h < 0 {
			return nil, l.errf(l.pos-1, "character %q in hexadecimal string", c)
		}
		if have {
			out = append(out, byte(nib<<4|h))
			have = false
		} else {
			nib, have = h, true
		}
	}
}

const maxDepth = 200

// parseObject parses one direct object or an indirect reference (§7.3).
// Streams are not handled here (see parseIndirect).
func (l *lexer) parseObject(depth int) (obj.Value, error) {
	if depth > maxDepth {
		return nil, l.errf(l.pos, "objects nested too deeply")
	}
	l.skipWS()
	if l.eof() {
		return nil, l.errf(l.pos, "object expected, found end of data")
	}
	c := l.data[l.pos]
	switch {
	case c == '/':
		return l.parseName()
	case c == '(':
		return l.parseLiteralString()
	case c == '<':
		if l.hasPrefix("<<") {
			return l.parseDict(depth)
		}
		return l.parseHexString()
	case c == '[':
		l.pos++
		arr := obj.Array{}
		for {
			l.skipWS()
			if l.eof() {
				return nil, l.errf(l.pos, "unterminated array")
			}
			if l.data[l.pos] == ']' {
				l.pos++
				return arr, nil
			}
			v, err := l.parseObject(depth + 1)
			if err != nil {
				return nil, err
			}
			arr = append(arr, v)
		}
	case c >= '0' && c <= '9':
		// integer, real, or the start of "N G R"
		save := l.pos
		if n, ok := l.parseUint(); ok {
			after := l.pos
			l.skipWS()
			if g, ok := l.parseUint(); ok {
				l.skipWS()
				if l.atKeyword("R") {
					l.pos++
					if n > math.MaxUint32 || g > 65535 {
						return nil, l.errf(save, "reference %d %d out of range", n, g)
					}
					return obj.Ref{Num: uint32(n), Gen: uint16(g)}, nil
				}
			}
			l.pos = after
			return obj.Int(n), nil
		}
		l.pos = save
		return l.parseNumber()
	case c == '+' || c == '-' || c == '.':
		return l.parseNumber()
	case l.atKeyword("true"):
		l.pos += 4
		return obj.Bool(true), nil
	case l.atKeyword("false"):
		l.pos += 5
		return obj.Bool(false), nil
	case l.atKeyword("null"):
		l.pos += 4
		return obj.Null{}, nil
	}
	return nil, l.errf(l.pos, "object expected, found %s", l.excerpt())
}

func (l *lexer) parseDict(depth int) (obj.Dict, error) {
	start := l.pos
	l.pos += 2
	d := obj.Dict{}
	for {
		l.skipWS()
		if l.eof() {
			return nil, l.errf(start, "unterminated dictionary")
		}
		if l.hasPrefix(">>") {
			l.pos += 2
			return d, nil
		}
		if l.data[l.pos] != '/' {
			return nil, l.errf(l.pos, "dictionary key must be a name, found %s", l.excerpt())
		}
		kpos := l.pos
		k, err := l.parseName()
		if err != nil {
			return nil, err
		}
		if _, dup := d[k]; dup {
			return nil, l.errf(kpos, "duplicate dictionary key /%s", string(k))
		}
		l.skipWS()
		if l.hasPrefix(">>") {
			return nil, l.errf(l.pos, "dictionary key /%s has no value", string(k))
		}
		v, err := l.parseObject(depth + 1)
		if err != nil {
			return nil, err
		}
		d[k] = v
	}
}

// ParseValue parses a single direct object (or reference) from data, which
// must contain nothing else but white space and comments.
func ParseValue(data []byte) (obj.Value, error) {
	l := &lexer{data: data, in: "value"}
	v, err := l.parseObject(0)
	if err != nil {
		return nil, err
	}
	l.skipWS()
	if !l.eof() {
		return nil, l.errf(l.pos, "trailing data after object: %s", l.excerpt())
	}
	return v, nil
}
