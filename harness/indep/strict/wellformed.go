package strict

import (
	"fmt"

	"verif/harness/indep/obj"
)

// TableAt returns the cross-reference table in force after the k oldest
// sections of the chain have been applied (k = len(f.Sections) gives the
// current table).  Sections are applied oldest first; inside a hybrid section
// the /XRefStm entries are applied before the table entries, because a reader
// consults the table first (§7.5.8.4).
func (f *File) TableAt(k int) map[uint32]Entry {
	t := map[uint32]Entry{}
	n := len(f.Sections)
	for i := n - 1; i >= n-k && i >= 0; i-- {
		parts := f.Sections[i].parts()
		for j := len(parts) - 1; j >= 0; j-- {
			for _, e := range parts[j].Entries {
				t[e.Num] = e
			}
		}
	}
	return t
}

// Table returns the current cross-reference table (newest entry per number).
func (f *File) Table() map[uint32]Entry {
	if f.table == nil {
		f.table = f.TableAt(len(f.Sections))
	}
	return f.table
}

// Size is the /Size of the newest trailer.
func (f *File) Size() int64 { return f.Sections[0].Size }

// Trailer is the newest trailer dictionary.
func (f *File) Trailer() obj.Dict { return f.Sections[0].Trailer }

// Lookup resolves an indirect reference as ISO 32000 §7.3.10 and §7.5.4–7.5.8
// prescribe: the newest section that has an entry for the number decides; the
// reference resolves only if that entry is in use and the generation matches.
// ok is false for free, absent, stale and out-of-range references (their
// value is the null object).
func (f *File) Lookup(r obj.Ref) (obj.Value, bool) {
	return f.lookupIn(f.Table(), f.Size(), r)
}

// LookupAt resolves a reference as a reader of the file as it was after the
// k oldest sections (revisions) would: LookupAt(len(f.Sections), r) is
// Lookup(r).
func (f *File) LookupAt(k int, r obj.Ref) (obj.Value, bool) {
	if k < 1 || k > len(f.Sections) {
		return obj.Null{}, false
	}
	return f.lookupIn(f.TableAt(k), f.Sections[len(f.Sections)-k].Size, r)
}

func (f *File) lookupIn(t map[uint32]Entry, size int64, r obj.Ref) (obj.Value, bool) {
	if int64(r.Num) >= size {
		return obj.Null{}, false
	}
	e, ok := t[r.Num]
	if !ok {
		return obj.Null{}, false
	}
	switch e.Type {
	case InUse:
		if e.Gen != r.Gen {
			return obj.Null{}, false
		}
		o := f.byOffset[f.Abs(e.Offset)]
		if o == nil || o.Ref != r {
			return obj.Null{}, false
		}
		return o.Value, true
	case Compressed:
		if r.Gen != 0 {
			return obj.Null{}, false
		}
		c, ok := t[e.Stm]
		if !ok || c.Type != InUse || c.Gen != 0 {
			return obj.Null{}, false
		}
		o := f.byOffset[f.Abs(c.Offset)]
		if o == nil || o.Ref != (obj.Ref{Num: e.Stm}) || o.ObjStm == nil {
			return obj.Null{}, false
		}
		if e.Idx >= len(o.ObjStm.Members) || o.ObjStm.Members[e.Idx].Num != r.Num {
			return obj.Null{}, false
		}
		return o.ObjStm.Members[e.Idx].Value, true
	}
	return obj.Null{}, false
}

// LookupObject returns the physical object a reference resolves to (the
// container for compressed objects) together with the member index (-1 for
// objects that are not compressed).
func (f *File) LookupObject(r obj.Ref) (*Object, int) {
	e, ok := f.Table()[r.Num]
	if !ok || int64(r.Num) >= f.Size() {
		return nil, -1
	}
	switch e.Type {
	case InUse:
		if o := f.byOffset[f.Abs(e.Offset)]; o != nil && o.Ref == r {
			return o, -1
		}
	case Compressed:
		if _, ok := f.Lookup(r); ok {
			c := f.Table()[e.Stm]
			return f.byOffset[f.Abs(c.Offset)], e.Idx
		}
	}
	return nil, -1
}

// DecryptValue applies the Decrypt function to every string of v (an object
// stored outside object streams under the reference ref).
func (f *File) DecryptValue(ref obj.Ref, v obj.Value) (obj.Value, error) {
	if f.decrypt == nil {
		return v, nil
	}
	switch x := v.(type) {
	case obj.Str:
		d, err := f.decrypt(ref, false, x)
		return obj.Str(d), err
	case obj.Array:
		out := make(obj.Array, len(x))
		for i, e := range x {
			w, err := f.DecryptValue(ref, e)
			if err != nil {
				return nil, err
			}
			out[i] = w
		}
		return out, nil
	case obj.Dict:
		out := obj.Dict{}
		for k, e := range x {
			w, err := f.DecryptValue(ref, e)
			if err != nil {
				return nil, err
			}
			out[k] = w
		}
		return out, nil
	case *obj.Stream:
		d, err := f.DecryptValue(ref, x.Dict)
		if err != nil {
			return nil, err
		}
		raw, err := f.decrypt(ref, true, x.Raw)
		if err != nil {
			return nil, err
		}
		return &obj.Stream{Dict: d.(obj.Dict), Raw: raw}, nil
	}
	return v, nil
}

// DecodeStream returns the decoded data of a stream object (decrypting first
// if a Decrypt function is installed and the file is encrypted).
func (f *File) DecodeStream(o *Object) ([]byte, error) {
	st, ok := o.Value.(*obj.Stream)
	if !ok {
		return nil, fmt.Errorf("object %s is not a stream", o.Ref)
	}
	raw := st.Raw
	if f.Encrypted && f.decrypt != nil {
		if t, _ := st.Dict["Type"].(obj.Name); t != "XRef" {
			var err error
			raw, err = f.decrypt(o.Ref, true, raw)
			if err != nil {
				return nil, err
			}
		}
	}
	return Decode(st.Dict, raw, func(r obj.Ref) (obj.Value, bool) { return f.Lookup(r) })
}

// WellFormed lists the violations of the clauses of property C03:
//
//	header     %PDF-M.m present                       (guaranteed by Parse)
//	eof        startxref / %%EOF present               (guaranteed by Parse)
//	startxref  startxref = offset of the last cross-reference section
//	entry      every in-use entry points exactly at the `N G obj` header of
//	           an object with that N and G; compressed entries name an object
//	           stream and the index of that object in it
//	coverage   every object number below /Size has exactly one entry (per
//	           section chain, newest wins), none at or above /Size
//	length     every stream's /Length equals the number of bytes between the
//	           stream EOL and the EOL before endstream
//	endstream-eol  that end-of-line marker is present (recommended only)
//	objstm     /N, /First, offset table, members (generation 0, no streams,
//	           no bare references), containers not compressed themselves
//	xrefstm    /W, /Index, /Size, predictor parameters consistent
//	table      20-byte lines                            (guaranteed by Parse)
//	object0    (beyond C03) object 0 is free with generation 65535
func WellFormed(f *File) []Problem {
	ps := append([]Problem(nil), f.Problems...)
	add := func(clause string, off int64, format string, a ...any) {
		ps = append(ps, Problem{clause, off, fmt.Sprintf(format, a...)})
	}

	// startxref: the chain starts at the physically last section (the
	// /XRefStm stream of a hybrid section is not a section of its own)
	isXRefStm := map[*Section]bool{}
	for _, s := range f.Sections {
		if s.XRefStm != nil {
			isXRefStm[s.XRefStm] = true
		}
	}
	var last *Section
	for _, s := range f.AllSections {
		if !isXRefStm[s] {
			last = s
		}
	}
	if last == nil || last.Offset != f.Sections[0].Offset {
		at := int64(-1)
		if last != nil {
			at = last.Offset
		}
		add("startxref", f.StartXRefPos, "startxref names byte %d, the last cross-reference section starts at byte %d", f.Abs(f.StartXRef), at)
	}
	inChain := map[*Section]bool{}
	for _, s := range f.Sections {
		inChain[s] = true
	}
	for _, s := range f.AllSections {
		if !isXRefStm[s] && !inChain[s] {
			add("startxref", s.Offset, "cross-reference section at byte %d is not reachable from startxref through /Prev", s.Offset)
		}
	}

	// entries, section by section, against the table in force at that time
	n := len(f.Sections)
	for i := n - 1; i >= 0; i-- {
		sec := f.Sections[i]
		t := f.TableAt(n - i)
		seen := map[uint32]bool{}
		for _, part := range sec.parts() {
			for _, e := range part.Entries {
				if seen[e.Num] {
					add("coverage", part.Offset, "object %d has an entry in the table and in the /XRefStm stream of the same section", e.Num)
				}
				seen[e.Num] = true
				if int64(e.Num) >= sec.Size {
					add("coverage", part.Offset, "entry for object %d, but /Size is %d", e.Num, sec.Size)
				}
				switch e.Type {
				case InUse:
					o := f.byOffset[f.Abs(e.Offset)]
					switch {
					case e.Num == 0:
						add("entry", part.Offset, "object 0 is marked in use")
					case o == nil:
						add("entry", part.Offset, "entry of object %d %d points at byte %d where no object header starts", e.Num, e.Gen, f.Abs(e.Offset))
					case o.Ref != (obj.Ref{Num: e.Num, Gen: e.Gen}):
						add("entry", part.Offset, "entry of object %d %d points at the header of object %s", e.Num, e.Gen, o.Ref)
					}
				case Compressed:
					c, ok := t[e.Stm]
					var o *Object
					if ok && c.Type == InUse {
						o = f.byOffset[f.Abs(c.Offset)]
					}
					switch {
					case !ok || c.Type != InUse:
						add("objstm", part.Offset, "object %d is said to be in object stream %d, which is not an uncompressed in-use object", e.Num, e.Stm)
					case c.Gen != 0:
						add("objstm", part.Offset, "object stream %d has generation %d", e.Stm, c.Gen)
					case o == nil || o.Ref.Num != e.Stm:
						// reported by the entry clause of the container
					case o.ObjStm == nil:
						if !f.Encrypted || f.decrypt != nil {
							add("objstm", part.Offset, "object %d is said to be in object %d, which is not an object stream", e.Num, e.Stm)
						}
					case e.Idx >= len(o.ObjStm.Members):
						add("objstm", part.Offset, "object %d: index %d exceeds the %d objects of stream %d", e.Num, e.Idx, len(o.ObjStm.Members), e.Stm)
					case o.ObjStm.Members[e.Idx].Num != e.Num:
						add("objstm", part.Offset, "object %d: index %d of stream %d holds object %d", e.Num, e.Idx, e.Stm, o.ObjStm.Members[e.Idx].Num)
					}
				}
			}
		}
		if part := sec; part.Kind != Table {
			xs := part
			if part.Kind == Hybrid {
				xs = part.XRefStm
			}
			for _, ss := range xs.Subsections {
				if int64(ss.First)+int64(ss.Count) > xs.Size {
					add("xrefstm", xs.Offset, "/Index subsection %d %d exceeds /Size %d", ss.First, ss.Count, xs.Size)
				}
			}
		}
	}

	// coverage of the merged table
	t := f.Table()
	size := f.Size()
	for num := int64(0); num < size; num++ {
		if _, ok := t[uint32(num)]; !ok {
			add("coverage", f.Sections[0].Offset, "object %d is below /Size %d but has no entry", num, size)
		}
	}
	for _, num := range sortedNums(t) {
		if int64(num) >= size {
			add("coverage", f.Sections[0].Offset, "object %d has an entry but /Size is %d", num, size)
		}
	}
	for i := 0; i+1 < n; i++ {
		if f.Sections[i].Size < f.Sections[i+1].Size {
			add("coverage", f.Sections[i].Offset, "/Size %d is smaller than the /Size %d of the previous section", f.Sections[i].Size, f.Sections[i+1].Size)
		}
	}
	if e, ok := t[0]; !ok || e.Type != Free || e.Gen != 65535 {
		add("object0", f.Sections[0].Offset, "object 0 is not free with generation 65535")
	}

	// streams and object streams
	for _, o := range f.Objects {
		if si := o.Stream; si != nil {
			switch {
			case si.LengthKind == "missing":
				add("length", o.Offset, "stream %s has no /Length (the data are %d bytes)", o.Ref, len(si.Raw))
			case si.LengthKind == "invalid":
				add("length", o.Offset, "stream %s: /Length is not (a reference to) a non-negative integer", o.Ref)
			case !si.LengthOK:
				add("length", o.Offset, "stream %s declares /Length %d, the data between the stream EOL and the EOL before endstream are %d bytes", o.Ref, si.Declared, len(si.Raw))
			case si.EOLBefore == "":
				// (only recommended by 7.3.8.1; C03 asks for it)
				add("endstream-eol", o.Offset, "stream %s: no end-of-line marker before endstream", o.Ref)
			}
		}
		if os := o.ObjStm; os != nil {
			for _, m := range os.Problems {
				add("objstm", o.Offset, "object stream %s: %s", o.Ref, m)
			}
			if e, ok := t[o.Ref.Num]; ok && e.Type == Compressed {
				add("objstm", o.Offset, "object stream %s is itself stored in an object stream", o.Ref)
			}
		}
	}
	return ps
}
