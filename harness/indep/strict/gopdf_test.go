//go:build verif

package strict_test

import (
	"bytes"
	"fmt"
	"testing"

	"seehuhn.de/go/pdf"

	"verif/harness/indep/obj"
	"verif/harness/indep/strict"
)

// writeSample writes a small document with go-pdf's Writer: plain objects,
// a compressed stream, an uncompressed stream, and (where the version allows)
// objects in an object stream.
func writeSample(t *testing.T, v pdf.Version, human bool) []byte {
	t.Helper()
	var buf bytes.Buffer
	w, err := pdf.NewWriter(&buf, v, &pdf.WriterOptions{HumanReadable: human})
	if err != nil {
		t.Fatal(err)
	}
	pages := w.Alloc()
	w.GetMeta().Catalog.Pages = pages
	if err := w.Put(pages, pdf.Dict{"Type": pdf.Name("Pages"), "Kids": pdf.Array{}, "Count": pdf.Integer(0)}); err != nil {
		t.Fatal(err)
	}
	a := w.Alloc()
	if err := w.Put(a, pdf.Array{pdf.Integer(1), pdf.Real(2.5), pdf.String("a(b)\\\r\n\x00\xff"), pdf.Name("A B#/"), nil, pdf.Boolean(true), pages}); err != nil {
		t.Fatal(err)
	}
	s1 := w.Alloc()
	st, err := w.OpenStream(s1, pdf.Dict{"K": pdf.Integer(7)}, pdf.FilterFlate{})
	if err != nil {
		t.Fatal(err)
	}
	st.Write(bytes.Repeat([]byte("hello world\n"), 300))
	if err := st.Close(); err != nil {
		t.Fatal(err)
	}
	s2 := w.Alloc()
	st, err = w.OpenStream(s2, pdf.Dict{})
	if err != nil {
		t.Fatal(err)
	}
	st.Write([]byte("raw\nendstream\nmore\r\n"))
	if err := st.Close(); err != nil {
		t.Fatal(err)
	}
	c1, c2 := w.Alloc(), w.Alloc()
	if err := w.WriteCompressed([]pdf.Reference{c1, c2}, pdf.Dict{"X": pdf.String("in objstm")}, pdf.Integer(42)); err != nil {
		t.Fatal(err)
	}
	_ = w.Alloc() // an allocated but unwritten number
	if err := w.Close(); err != nil {
		t.Fatal(err)
	}
	return buf.Bytes()
}

func TestGoPDFWriterOutput(t *testing.T) {
	for _, v := range []pdf.Version{pdf.V1_2, pdf.V1_4, pdf.V1_5, pdf.V1_7, pdf.V2_0} {
		for _, human := range []bool{false, true} {
			name := fmt.Sprintf("%s/human=%v", v, human)
			data := writeSample(t, v, human)
			f, err := strict.Parse(data)
			if err != nil {
				t.Errorf("%s: %v", name, err)
				continue
			}
			for _, p := range strict.WellFormed(f) {
				if p.Clause == "object0" {
					continue // reported separately, not a clause of C03
				}
				t.Errorf("%s: %s", name, p)
			}
			// every reference below /Size: compare with go-pdf's own reader
			r, err := pdf.NewReader(bytes.NewReader(data), int64(len(data)), nil)
			if err != nil {
				t.Fatalf("%s: %v", name, err)
			}
			found := 0
			for n := uint32(1); int64(n) < f.Size(); n++ {
				want, err := r.Get(pdf.NewReference(n, 0), true)
				if err != nil {
					t.Fatalf("%s: %v", name, err)
				}
				got, ok := f.Lookup(obj.Ref{Num: n})
				if ok != (want != nil) {
					// the cross-reference stream itself is recorded as free by the writer
					if s, isStm := got.(*obj.Stream); ok && isStm && s.Dict["Type"] == obj.Name("XRef") {
						continue
					}
					t.Errorf("%s: object %d: strict found=%v, go-pdf %v", name, n, ok, want)
					continue
				}
				if ok {
					found++
				}
			}
			if found < 7 {
				t.Errorf("%s: only %d objects found", name, found)
			}
			// the tricky values
			for _, o := range f.Objects {
				if arr, ok := o.Value.(obj.Array); ok && len(arr) == 7 {
					if !obj.Equal(arr[2], obj.Str("a(b)\\\r\n\x00\xff")) || !obj.Equal(arr[3], obj.Name("A B#/")) {
						t.Errorf("%s: array read as %s", name, obj.String(arr))
					}
				}
				if o.Stream != nil && bytes.Contains(o.Stream.Raw, []byte("raw\nendstream")) {
					if string(o.Stream.Raw) != "raw\nendstream\nmore\r\n" || !o.Stream.LengthOK {
						t.Errorf("%s: raw stream read as %q", name, o.Stream.Raw)
					}
				}
			}
		}
	}
}
