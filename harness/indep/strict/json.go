package strict

import (
	"crypto/sha256"
	"encoding/hex"

	"verif/harness/indep/obj"
)

func intsOf(s string) []int {
	out := make([]int, len(s))
	for i := 0; i < len(s); i++ {
		out[i] = int(s[i])
	}
	return out
}

func sha(b []byte) string {
	h := sha256.Sum256(b)
	return hex.EncodeToString(h[:])
}

func kindOf(v obj.Value) string {
	switch v.(type) {
	case obj.Null, nil:
		return "null"
	case obj.Bool:
		return "bool"
	case obj.Int:
		return "int"
	case obj.Real:
		return "real"
	case obj.Name:
		return "name"
	case obj.Str:
		return "str"
	case obj.Array:
		return "arr"
	case obj.Dict:
		return "dict"
	case obj.Ref:
		return "ref"
	case *obj.Stream:
		return "stream"
	}
	return "?"
}

func entryJSON(e Entry) map[string]any {
	switch e.Type {
	case InUse:
		return map[string]any{"n": int(e.Num), "t": "n", "off": e.Offset, "g": int(e.Gen)}
	case Compressed:
		return map[string]any{"n": int(e.Num), "t": "c", "stm": int(e.Stm), "idx": e.Idx}
	}
	return map[string]any{"n": int(e.Num), "t": "f", "next": int(e.NextFree), "g": int(e.Gen)}
}

func (f *File) sectionJSON(s *Section) map[string]any {
	subs := make([]any, len(s.Subsections))
	for i, ss := range s.Subsections {
		subs[i] = []int{int(ss.First), int(ss.Count)}
	}
	ents := make([]any, len(s.Entries))
	for i, e := range s.Entries {
		ents[i] = entryJSON(e)
	}
	m := map[string]any{
		"kind":    s.Kind.String(),
		"off":     s.Offset - f.HeaderOffset,
		"abs":     s.Offset,
		"size":    s.Size,
		"hasprev": s.HasPrev,
		"prev":    s.Prev,
		"subs":    subs,
		"entries": ents,
		"trailer": obj.JSON(s.Trailer),
		"w":       []int{s.W[0], s.W[1], s.W[2]},
		"index":   s.HasIndex,
	}
	if s.XRefStm != nil {
		m["xrefstm"] = f.sectionJSON(s.XRefStm)
		m["xrefstm_off"] = s.XRefStmOffset
	}
	if s.Object != nil {
		m["num"] = int(s.Object.Ref.Num)
	}
	return m
}

// ToJSON projects the abstract file to a tree that encoding/json renders in
// the form spec/file/PdfFile.tla expects.  Offsets named "off" are relative
// to the header (as written in the file); "abs" are absolute.  Sections are
// listed newest first.  Integers that may exceed 31 bits do not occur for the
// files the harness handles (offsets are below 2^31).
func ToJSON(f *File) map[string]any {
	secs := make([]any, len(f.Sections))
	for i, s := range f.Sections {
		secs[i] = f.sectionJSON(s)
	}
	objs := make([]any, len(f.Objects))
	for i, o := range f.Objects {
		m := map[string]any{
			"n":    int(o.Ref.Num),
			"g":    int(o.Ref.Gen),
			"off":  o.Offset - f.HeaderOffset,
			"abs":  o.Offset,
			"end":  o.End,
			"kind": kindOf(o.Value),
			"v":    obj.JSON(o.Value),
		}
		if si := o.Stream; si != nil {
			sm := map[string]any{
				"len":       len(si.Raw),
				"declared":  si.Declared,
				"lenkind":   si.LengthKind,
				"lenok":     si.LengthOK,
				"eolbefore": intsOf(si.EOLBefore),
				"kweol":     intsOf(si.KeywordEOL),
				"dataoff":   si.DataOffset - f.HeaderOffset,
				"sha_raw":   sha(si.Raw),
			}
			if dec, err := f.DecodeStream(o); err == nil {
				sm["sha_dec"] = sha(dec)
				sm["declen"] = len(dec)
			} else {
				sm["sha_dec"] = ""
				sm["declen"] = -1
			}
			m["stream"] = sm
		}
		if os := o.ObjStm; os != nil {
			pairs := make([]any, len(os.Pairs))
			for k, p := range os.Pairs {
				pairs[k] = []int{int(p.Num), p.Off}
			}
			mem := make([]any, len(os.Members))
			for k, x := range os.Members {
				mem[k] = map[string]any{"n": int(x.Num), "off": x.Off, "kind": kindOf(x.Value), "v": obj.JSON(x.Value)}
			}
			probs := make([]any, len(os.Problems))
			for k, s := range os.Problems {
				probs[k] = s
			}
			m["objstm"] = map[string]any{"n": os.N, "first": os.First, "pairs": pairs, "members": mem, "problems": probs}
		}
		objs[i] = m
	}
	wf := WellFormed(f)
	probs := make([]any, len(wf))
	for i, p := range wf {
		probs[i] = map[string]any{"clause": p.Clause, "off": p.Off, "msg": p.Msg}
	}
	// the physically last section that is not the /XRefStm part of a hybrid one
	isXS := map[*Section]bool{}
	for _, s := range f.Sections {
		if s.XRefStm != nil {
			isXS[s.XRefStm] = true
		}
	}
	last := int64(-1)
	for _, s := range f.AllSections {
		if !isXS[s] {
			last = s.Offset - f.HeaderOffset
		}
	}
	return map[string]any{
		"lastsection":  last,
		"header":       map[string]any{"off": f.HeaderOffset, "version": f.Version, "binary": f.BinaryMarker},
		"startxref":    f.StartXRef,
		"startxrefpos": f.StartXRefPos,
		"eof":          f.EOFPos,
		"filelen":      len(f.Data),
		"size":         f.Size(),
		"sections":     secs,
		"objects":      objs,
		"problems":     probs,
		"encrypted":    f.Encrypted,
	}
}
