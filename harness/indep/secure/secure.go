// Package secure is an independent implementation of the PDF standard security
// handler, written from ISO 32000-2:2020 section 7.6 (Algorithms 1, 1.A, 2,
// 2.A, 2.B, 3-13).  It imports nothing from go-pdf: only hash and cipher
// primitives of the Go standard library and the harness's own value model.
//
// It is an observer for the verification harness, not a product: it favours
// a direct transcription of the standard's steps over speed.
//
// Two deliberate choices where the standard is silent or at odds with
// practice:
//
//   - Algorithm 3 step (c) does not say that the 50 re-hashes use only the first
//     n bytes of the previous digest, Algorithm 2 step (h) does.  Every
//     widespread implementation (Acrobat, qpdf, PDFBox) truncates in both; so
//     does this package.  The two readings differ only for R >= 3 with keys
//     shorter than 128 bits.  [Alg3WholeDigest] selects the literal reading.
//   - /Length inside a crypt filter dictionary is given in bytes by Table 25
//     and in bits by most writers; both are accepted (values < 40 are bytes).
package secure

import (
	"bytes"
	"crypto/aes"
	"crypto/cipher"
	"crypto/md5"
	"crypto/rc4"
	"crypto/sha256"
	"crypto/sha512"
	"errors"
	"fmt"
	"hash"
	"io"

	"verif/harness/indep/obj"
)

var (
	// ErrWrongPassword is returned when a password is neither the user nor
	// the owner password.
	ErrWrongPassword = errors.New("secure: password does not authenticate")
	// ErrPassword is returned when a password cannot be prepared (not
	// representable in PDFDocEncoding / prohibited by SASLprep).
	ErrPassword = errors.New("secure: password cannot be prepared")
	// ErrCiphertext is returned for ciphertext that cannot have been
	// produced by the standard's encryption (length, padding).
	ErrCiphertext = errors.New("secure: malformed ciphertext")
)

// Alg3WholeDigest selects the literal reading of Algorithm 3 step (c).
var Alg3WholeDigest = false

// Method is the encryption method of a crypt filter.
type Method int

const (
	// MethodNone leaves data as it is (Identity).
	MethodNone Method = iota
	// MethodRC4 is RC4 with a per-object key (V 1, 2 and CFM /V2).
	MethodRC4
	// MethodAESV2 is AES-128-CBC with a per-object key.
	MethodAESV2
	// MethodAESV3 is AES-256-CBC with the file key.
	MethodAESV3
)

func (m Method) String() string {
	switch m {
	case MethodNone:
		return "None"
	case MethodRC4:
		return "RC4"
	case MethodAESV2:
		return "AESV2"
	case MethodAESV3:
		return "AESV3"
	}
	return fmt.Sprintf("Method(%d)", int(m))
}

// AES reports whether the method is one of the AES methods.
func (m Method) AES() bool { return m == MethodAESV2 || m == MethodAESV3 }

// Handler is a parsed encryption dictionary (Tables 20, 21, 25).
type Handler struct {
	V, R            int
	KeyLen          int // length of the file encryption key in bytes
	O, U            []byte
	OE, UE, Perms   []byte // R = 6 only
	P               uint32
	EncryptMetadata bool
	ID0             []byte // first element of the trailer's /ID

	StrM, StmM, EffM Method // methods for strings, streams, embedded files
}

// the 32 byte padding string of Algorithm 2 step (a)
var padding = [32]byte{
	0x28, 0xBF, 0x4E, 0x5E, 0x4E, 0x75, 0x8A, 0x41, 0x64, 0x00, 0x4E, 0x56, 0xFF, 0xFA, 0x01, 0x08,
	0x2E, 0x2E, 0x00, 0xB6, 0xD0, 0x68, 0x3E, 0x80, 0x2F, 0x0C, 0xA9, 0xFE, 0x64, 0x53, 0x69, 0x7A,
}

func str(v obj.Value) ([]byte, bool) {
	s, ok := v.(obj.Str)
	return []byte(s), ok
}

func integer(v obj.Value) (int64, bool) {
	switch x := v.(type) {
	case obj.Int:
		return int64(x), true
	case obj.Real:
		if x.F == float64(int64(x.F)) {
			return int64(x.F), true
		}
	}
	return 0, false
}

// Parse reads an encryption dictionary.  id0 is the first element of the
// file identifier.  Indirect references inside the dictionary must have
// been resolved by the caller.
func Parse(enc obj.Dict, id0 []byte) (*Handler, error) {
	if f, _ := enc["Filter"].(obj.Name); f != "Standard" {
		return nil, fmt.Errorf("secure: /Filter %q is not the standard security handler", string(f))
	}
	h := &Handler{EncryptMetadata: true, ID0: append([]byte(nil), id0...)}
	v, ok := integer(enc["V"])
	if !ok {
		v = 0 // Table 20: default 0 (undocumented algorithm)
	}
	r, ok := integer(enc["R"])
	if !ok {
		return nil, errors.New("secure: /R missing")
	}
	h.V, h.R = int(v), int(r)
	p, ok := integer(enc["P"])
	if !ok {
		return nil, errors.New("secure: /P missing")
	}
	h.P = uint32(p) // two's complement; also accepts the unsigned spelling
	if h.O, ok = str(enc["O"]); !ok {
		return nil, errors.New("secure: /O missing")
	}
	if h.U, ok = str(enc["U"]); !ok {
		return nil, errors.New("secure: /U missing")
	}
	if b, ok := enc["EncryptMetadata"].(obj.Bool); ok && h.V >= 4 {
		h.EncryptMetadata = bool(b)
	}

	switch h.V {
	case 1:
		h.KeyLen = 5
		h.StrM, h.StmM, h.EffM = MethodRC4, MethodRC4, MethodRC4
	case 2, 3:
		bits := int64(40)
		if l, ok := integer(enc["Length"]); ok {
			bits = l
		}
		if bits < 40 || bits > 128 || bits%8 != 0 {
			return nil, fmt.Errorf("secure: /Length %d", bits)
		}
		if h.V == 3 {
			return nil, errors.New("secure: /V 3 is an unpublished algorithm")
		}
		h.KeyLen = int(bits / 8)
		h.StrM, h.StmM, h.EffM = MethodRC4, MethodRC4, MethodRC4
	case 4, 5:
		if h.V == 4 {
			h.KeyLen = 16
		} else {
			h.KeyLen = 32
		}
		cf, _ := enc["CF"].(obj.Dict)
		method := func(key obj.Name, def Method) (Method, error) {
			name, ok := enc[key].(obj.Name)
			if !ok {
				return def, nil
			}
			if name == "Identity" {
				return MethodNone, nil
			}
			fd, ok := cf[name].(obj.Dict)
			if !ok {
				return 0, fmt.Errorf("secure: crypt filter /%s not in /CF", string(name))
			}
			switch cfm, _ := fd["CFM"].(obj.Name); cfm {
			case "None", "":
				return MethodNone, nil
			case "V2":
				return MethodRC4, nil
			case "AESV2":
				return MethodAESV2, nil
			case "AESV3":
				return MethodAESV3, nil
			default:
				return 0, fmt.Errorf("secure: /CFM /%s", string(cfm))
			}
		}
		var err error
		if h.StmM, err = method("StmF", MethodNone); err != nil {
			return nil, err
		}
		if h.StrM, err = method("StrF", MethodNone); err != nil {
			return nil, err
		}
		if h.EffM, err = method("EFF", h.StmM); err != nil {
			return nil, err
		}
	default:
		return nil, fmt.Errorf("secure: /V %d", h.V)
	}

	switch {
	case h.R >= 2 && h.R <= 4:
		if h.V == 5 {
			return nil, errors.New("secure: /V 5 needs /R 6")
		}
		if len(h.O) != 32 || len(h.U) != 32 {
			return nil, fmt.Errorf("secure: /O, /U have %d, %d bytes, want 32", len(h.O), len(h.U))
		}
	case h.R == 6 || h.R == 5:
		if h.V != 5 {
			return nil, errors.New("secure: /R 6 needs /V 5")
		}
		if h.R == 5 {
			return nil, errors.New("secure: /R 5 is a deprecated extension, not in ISO 32000-2")
		}
		// Table 21: 48 bytes; longer strings padded with zeros occur
		if len(h.O) < 48 || len(h.U) < 48 {
			return nil, fmt.Errorf("secure: /O, /U have %d, %d bytes, want 48", len(h.O), len(h.U))
		}
		h.O, h.U = h.O[:48], h.U[:48]
		if h.OE, ok = str(enc["OE"]); !ok || len(h.OE) != 32 {
			return nil, errors.New("secure: /OE missing or not 32 bytes")
		}
		if h.UE, ok = str(enc["UE"]); !ok || len(h.UE) != 32 {
			return nil, errors.New("secure: /UE missing or not 32 bytes")
		}
		if h.Perms, ok = str(enc["Perms"]); !ok || len(h.Perms) != 16 {
			return nil, errors.New("secure: /Perms missing or not 16 bytes")
		}
	default:
		return nil, fmt.Errorf("secure: /R %d", h.R)
	}
	return h, nil
}

// Authenticate parses the encryption dictionary and tries password as owner
// and as user password (in this order).  It returns the file encryption
// key, whether owner access was obtained, and the /P value.
func Authenticate(enc obj.Dict, id0 []byte, password string) (fileKey []byte, isOwner bool, perms uint32, err error) {
	h, err := Parse(enc, id0)
	if err != nil {
		return nil, false, 0, err
	}
	fileKey, isOwner, err = h.Authenticate(password)
	return fileKey, isOwner, h.P, err
}

// Authenticate prepares the password as the revision demands and
// authenticates it.
func (h *Handler) Authenticate(password string) (fileKey []byte, isOwner bool, err error) {
	var prepared []byte
	if h.R <= 4 {
		prepared, err = PrepareLegacy(password)
	} else {
		prepared, err = PrepareR6(password)
	}
	if err != nil {
		return nil, false, err
	}
	return h.AuthenticatePrepared(prepared)
}

// AuthenticatePrepared authenticates an already prepared password: the 32
// padded bytes for R <= 4, the SASLprep'd UTF-8 bytes (at most 127) for R 6.
func (h *Handler) AuthenticatePrepared(pw []byte) (fileKey []byte, isOwner bool, err error) {
	if h.R <= 4 {
		if len(pw) != 32 {
			return nil, false, ErrPassword
		}
		if key, ok := h.alg7(pw); ok {
			return key, true, nil
		}
		if key, ok := h.alg6(pw); ok {
			return key, false, nil
		}
		return nil, false, ErrWrongPassword
	}
	if len(pw) > 127 {
		pw = pw[:127]
	}
	return h.alg2A(pw)
}

// ---------------------------------------------------------------------------
// revisions 2-4

// alg2 computes the file encryption key from a padded password.
func (h *Handler) alg2(padded []byte) []byte {
	d := md5.New()
	d.Write(padded)                                                              // (a), (b)
	d.Write(h.O)                                                                 // (c)
	d.Write([]byte{byte(h.P), byte(h.P >> 8), byte(h.P >> 16), byte(h.P >> 24)}) // (d)
	d.Write(h.ID0)                                                               // (e)
	if h.R >= 4 && !h.EncryptMetadata {
		d.Write([]byte{0xff, 0xff, 0xff, 0xff}) // (f)
	}
	sum := d.Sum(nil) // (g)
	n := h.KeyLen
	if h.R == 2 {
		n = 5
	}
	if h.R >= 3 {
		for i := 0; i < 50; i++ { // (h)
			s := md5.Sum(sum[:n])
			sum = s[:]
		}
	}
	return append([]byte(nil), sum[:n]...) // (i)
}

// alg3Key is steps (a)-(d) of Algorithm 3: the RC4 key made from the owner
// password.
func (h *Handler) alg3Key(paddedOwner []byte) []byte {
	n := h.KeyLen
	if h.R == 2 {
		n = 5
	}
	s := md5.Sum(paddedOwner)
	sum := s[:]
	if h.R >= 3 {
		for i := 0; i < 50; i++ {
			in := sum[:n]
			if Alg3WholeDigest {
				in = sum
			}
			s := md5.Sum(in)
			sum = s[:]
		}
	}
	return append([]byte(nil), sum[:n]...)
}

func rc4Crypt(key, data []byte) []byte {
	c, err := rc4.NewCipher(key)
	if err != nil {
		panic(err)
	}
	out := make([]byte, len(data))
	c.XORKeyStream(out, data)
	return out
}

func xorKey(key []byte, x byte) []byte {
	out := make([]byte, len(key))
	for i, b := range key {
		out[i] = b ^ x
	}
	return out
}

// alg3 computes /O.
func (h *Handler) alg3(paddedOwner, paddedUser []byte) []byte {
	key := h.alg3Key(paddedOwner)
	out := rc4Crypt(key, paddedUser) // (e), (f)
	if h.R >= 3 {
		for i := 1; i <= 19; i++ { // (g)
			out = rc4Crypt(xorKey(key, byte(i)), out)
		}
	}
	return out
}

// uValue is Algorithm 4 resp. 5 without the final padding step: 32 bytes
// for R 2, 16 bytes for R 3 and 4.
func (h *Handler) uValue(fileKey []byte) []byte {
	if h.R == 2 {
		return rc4Crypt(fileKey, padding[:]) // Algorithm 4 (b)
	}
	d := md5.New()
	d.Write(padding[:]) // Algorithm 5 (b)
	d.Write(h.ID0)      // (c)
	out := rc4Crypt(fileKey, d.Sum(nil))
	for i := 1; i <= 19; i++ { // (e)
		out = rc4Crypt(xorKey(fileKey, byte(i)), out)
	}
	return out
}

// alg6 authenticates the user password.
func (h *Handler) alg6(paddedUser []byte) ([]byte, bool) {
	key := h.alg2(paddedUser)
	u := h.uValue(key)
	if !bytes.Equal(u, h.U[:len(u)]) {
		return nil, false
	}
	return key, true
}

// alg7 authenticates the owner password.
func (h *Handler) alg7(paddedOwner []byte) ([]byte, bool) {
	key := h.alg3Key(paddedOwner) // (a)
	var user []byte
	if h.R == 2 {
		user = rc4Crypt(key, h.O) // (b)
	} else {
		user = append([]byte(nil), h.O...)
		for i := 19; i >= 0; i-- {
			user = rc4Crypt(xorKey(key, byte(i)), user)
		}
	}
	return h.alg6(user) // (c)
}

// ---------------------------------------------------------------------------
// revision 6

// alg2B is the hash of Algorithm 2.B.  udata is empty or the 48 bytes of /U.
func alg2B(pw, salt, udata []byte) []byte {
	first := sha256.New()
	first.Write(pw)
	first.Write(salt)
	first.Write(udata)
	k := first.Sum(nil)
	for round := 0; ; round++ {
		// (a)
		unit := make([]byte, 0, len(pw)+len(k)+len(udata))
		unit = append(unit, pw...)
		unit = append(unit, k...)
		unit = append(unit, udata...)
		k1 := bytes.Repeat(unit, 64)
		// (b)
		blk, err := aes.NewCipher(k[:16])
		if err != nil {
			panic(err)
		}
		e := make([]byte, len(k1))
		cipher.NewCBCEncrypter(blk, k[16:32]).CryptBlocks(e, k1)
		// (c) first 16 bytes as a big-endian number modulo 3
		rem := 0
		for _, b := range e[:16] {
			rem = (rem*256 + int(b)) % 3
		}
		// (d)
		var hh hash.Hash
		switch rem {
		case 0:
			hh = sha256.New()
		case 1:
			hh = sha512.New384()
		default:
			hh = sha512.New()
		}
		hh.Write(e)
		k = hh.Sum(nil)
		// (e), (f): 64 rounds at least; then until the last byte of E is
		// at most (number of the next round) - 32
		if round >= 63 && int(e[len(e)-1]) <= (round+1)-32 {
			break
		}
	}
	return k[:32]
}

func aes256CBCNoPad(key, in []byte, decrypt bool) []byte {
	blk, err := aes.NewCipher(key)
	if err != nil {
		panic(err)
	}
	iv := make([]byte, 16)
	out := make([]byte, len(in))
	if decrypt {
		cipher.NewCBCDecrypter(blk, iv).CryptBlocks(out, in)
	} else {
		cipher.NewCBCEncrypter(blk, iv).CryptBlocks(out, in)
	}
	return out
}

// alg2A retrieves the file encryption key (with Algorithms 11, 12, 13).
func (h *Handler) alg2A(pw []byte) ([]byte, bool, error) {
	var fileKey []byte
	owner := false
	switch {
	case bytes.Equal(alg2B(pw, h.O[32:40], h.U), h.O[:32]): // (b), Algorithm 12
		owner = true
		ik := alg2B(pw, h.O[40:48], h.U) // (d)
		fileKey = aes256CBCNoPad(ik, h.OE, true)
	case bytes.Equal(alg2B(pw, h.U[32:40], nil), h.U[:32]): // (c), Algorithm 11
		ik := alg2B(pw, h.U[40:48], nil) // (e)
		fileKey = aes256CBCNoPad(ik, h.UE, true)
	default:
		return nil, false, ErrWrongPassword
	}
	// (f), Algorithm 13
	blk, err := aes.NewCipher(fileKey)
	if err != nil {
		panic(err)
	}
	dec := make([]byte, 16)
	blk.Decrypt(dec, h.Perms)
	if dec[9] != 'a' || dec[10] != 'd' || dec[11] != 'b' {
		return nil, false, fmt.Errorf("secure: /Perms does not decrypt to ...adb (%w)", ErrWrongPassword)
	}
	p := uint32(dec[0]) | uint32(dec[1])<<8 | uint32(dec[2])<<16 | uint32(dec[3])<<24
	if p != h.P {
		return nil, false, fmt.Errorf("secure: /Perms holds P=%#x, dictionary has %#x", p, h.P)
	}
	if (dec[8] == 'T') != h.EncryptMetadata || (dec[8] != 'T' && dec[8] != 'F') {
		return nil, false, fmt.Errorf("secure: /Perms EncryptMetadata byte %q disagrees with the dictionary", dec[8])
	}
	return fileKey, owner, nil
}

// ---------------------------------------------------------------------------
// Algorithm 1 / 1.A and the ciphers

// ObjectKey derives the key for the strings and streams of one indirect
// object.  A 32 byte file key (AES-256) is used as it is (Algorithm 1.A).
func ObjectKey(fileKey []byte, num uint32, gen uint16, aes bool) []byte {
	if len(fileKey) == 32 {
		return fileKey
	}
	d := md5.New()
	d.Write(fileKey)
	d.Write([]byte{byte(num), byte(num >> 8), byte(num >> 16), byte(gen), byte(gen >> 8)})
	if aes {
		d.Write([]byte("sAlT"))
	}
	n := len(fileKey) + 5
	if n > 16 {
		n = 16
	}
	return d.Sum(nil)[:n]
}

// Encrypt encrypts the bytes of a string or stream with an object key.  For
// AES iv must hold 16 bytes; it is written in front of the ciphertext and the
// data is padded as the standard prescribes (1 to 16 bytes of the pad length).
func Encrypt(key []byte, aesMethod bool, iv, plain []byte) ([]byte, error) {
	if !aesMethod {
		return rc4Crypt(key, plain), nil
	}
	if len(iv) != 16 {
		return nil, errors.New("secure: AES needs a 16 byte initialisation vector")
	}
	blk, err := aes.NewCipher(key)
	if err != nil {
		return nil, err
	}
	pad := 16 - len(plain)%16
	buf := make([]byte, 0, len(plain)+pad)
	buf = append(buf, plain...)
	for i := 0; i < pad; i++ {
		buf = append(buf, byte(pad))
	}
	out := make([]byte, 16+len(buf))
	copy(out, iv)
	cipher.NewCBCEncrypter(blk, iv).CryptBlocks(out[16:], buf)
	return out, nil
}

// Decrypt is the inverse of Encrypt.
func Decrypt(key []byte, aesMethod bool, data []byte) ([]byte, error) {
	if !aesMethod {
		return rc4Crypt(key, data), nil
	}
	if len(data) < 32 || len(data)%16 != 0 {
		return nil, ErrCiphertext
	}
	blk, err := aes.NewCipher(key)
	if err != nil {
		return nil, err
	}
	out := make([]byte, len(data)-16)
	cipher.NewCBCDecrypter(blk, data[:16]).CryptBlocks(out, data[16:])
	pad := int(out[len(out)-1])
	if pad < 1 || pad > 16 {
		return nil, ErrCiphertext
	}
	for _, b := range out[len(out)-pad:] {
		if int(b) != pad {
			return nil, ErrCiphertext
		}
	}
	return out[:len(out)-pad], nil
}

// EncryptString encrypts a string of object (num, gen).
func EncryptString(key []byte, aesMethod bool, iv, plain []byte) ([]byte, error) {
	return Encrypt(key, aesMethod, iv, plain)
}

// DecryptString decrypts a string.
func DecryptString(key []byte, aesMethod bool, data []byte) ([]byte, error) {
	return Decrypt(key, aesMethod, data)
}

// EncryptStream encrypts a stream body (after its filters were applied).
func EncryptStream(key []byte, aesMethod bool, iv, plain []byte) ([]byte, error) {
	return Encrypt(key, aesMethod, iv, plain)
}

// DecryptStream decrypts a stream body.
func DecryptStream(key []byte, aesMethod bool, data []byte) ([]byte, error) {
	return Decrypt(key, aesMethod, data)
}

// KeyFor returns the key and cipher for the strings (stream == false) or
// stream bodies of object (num, gen).  ok is false when the item is not
// encrypted (Identity).
func (h *Handler) KeyFor(fileKey []byte, num uint32, gen uint16, stream bool) (key []byte, aesMethod, ok bool) {
	m := h.StrM
	if stream {
		m = h.StmM
	}
	if m == MethodNone {
		return nil, false, false
	}
	return ObjectKey(fileKey, num, gen, m.AES()), m.AES(), true
}

// ---------------------------------------------------------------------------
// building encryption dictionaries

// Params describes an encryption dictionary to build.
type Params struct {
	R       int    // 2, 3, 4 or 6
	KeyBits int    // R 3: 40 ... 128 (default 128); ignored otherwise
	V       int    // 0 = the usual one for R (1, 2, 4, 5); R 3 also admits 1
	RC4     bool   // R 4: crypt filter method /V2 instead of /AESV2
	User    string // user password (may be empty)
	Owner   string // owner password; empty = same as user (Algorithm 3 (a))
	P       uint32 // permission bits as they go into /P
	// EncryptMetadata false writes /EncryptMetadata false (R >= 4).
	PlainMetadata bool
	ID0           []byte
	// Rand supplies salts, the R 6 file key and the /Perms filler.
	Rand io.Reader
	// PUnsigned writes /P as a number above 2^31 instead of a negative one
	// (seen in the wild; not conforming).
	PUnsigned bool
	// CFLengthBytes writes the crypt filter /Length in bytes (Table 25)
	// instead of bits.
	CFLengthBytes bool
}

// NewEncryptDict builds a complete encryption dictionary and returns it with
// the file encryption key.
func NewEncryptDict(p Params) (obj.Dict, []byte, error) {
	h := &Handler{R: p.R, P: p.P, EncryptMetadata: !p.PlainMetadata, ID0: append([]byte(nil), p.ID0...)}
	enc := obj.Dict{"Filter": obj.Name("Standard"), "R": obj.Int(p.R)}
	if p.PUnsigned {
		enc["P"] = obj.Int(int64(p.P))
	} else {
		enc["P"] = obj.Int(int64(int32(p.P)))
	}
	switch p.R {
	case 2:
		h.V, h.KeyLen = 1, 5
	case 3:
		bits := p.KeyBits
		if bits == 0 {
			bits = 128
		}
		if bits < 40 || bits > 128 || bits%8 != 0 {
			return nil, nil, fmt.Errorf("secure: key length %d", bits)
		}
		h.V, h.KeyLen = 2, bits/8
		if p.V == 1 {
			if bits != 40 {
				return nil, nil, errors.New("secure: /V 1 implies 40 bits")
			}
			h.V = 1
		}
	case 4:
		h.V, h.KeyLen = 4, 16
	case 6:
		h.V, h.KeyLen = 5, 32
	default:
		return nil, nil, fmt.Errorf("secure: cannot build revision %d", p.R)
	}
	enc["V"] = obj.Int(h.V)
	switch h.V {
	case 2:
		enc["Length"] = obj.Int(h.KeyLen * 8)
	case 4, 5:
		cfm, bits := obj.Name("AESV2"), 128
		if h.V == 5 {
			cfm, bits = "AESV3", 256
		} else if p.RC4 {
			cfm = "V2"
		}
		l := bits
		if p.CFLengthBytes {
			l = bits / 8
		}
		enc["CF"] = obj.Dict{"StdCF": obj.Dict{"Type": obj.Name("CryptFilter"), "CFM": cfm,
			"AuthEvent": obj.Name("DocOpen"), "Length": obj.Int(l)}}
		enc["StmF"] = obj.Name("StdCF")
		enc["StrF"] = obj.Name("StdCF")
		if h.V == 5 {
			enc["Length"] = obj.Int(256)
		} else {
			enc["Length"] = obj.Int(128)
		}
		if p.PlainMetadata {
			enc["EncryptMetadata"] = obj.Bool(false)
		}
	}
	owner := p.Owner
	if owner == "" {
		owner = p.User
	}

	if p.R <= 4 {
		pu, err := PrepareLegacy(p.User)
		if err != nil {
			return nil, nil, err
		}
		po, err := PrepareLegacy(owner)
		if err != nil {
			return nil, nil, err
		}
		h.O = h.alg3(po, pu)
		key := h.alg2(pu)
		u := h.uValue(key)
		if p.R >= 3 {
			// Algorithm 5 (f): 16 bytes of arbitrary padding
			fill := make([]byte, 16)
			if p.Rand != nil {
				if _, err := io.ReadFull(p.Rand, fill); err != nil {
					return nil, nil, err
				}
			}
			u = append(u, fill...)
		}
		h.U = u
		enc["O"], enc["U"] = obj.Str(h.O), obj.Str(h.U)
		return enc, key, nil
	}

	if p.Rand == nil {
		return nil, nil, errors.New("secure: revision 6 needs a source of randomness")
	}
	pu, err := PrepareR6(p.User)
	if err != nil {
		return nil, nil, err
	}
	po, err := PrepareR6(owner)
	if err != nil {
		return nil, nil, err
	}
	rnd := make([]byte, 32+16+16+4)
	if _, err := io.ReadFull(p.Rand, rnd); err != nil {
		return nil, nil, err
	}
	fileKey, usalt, osalt, fill := rnd[:32], rnd[32:48], rnd[48:64], rnd[64:68]
	// Algorithm 8
	h.U = append(append(alg2B(pu, usalt[:8], nil), usalt[:8]...), usalt[8:]...)
	h.UE = aes256CBCNoPad(alg2B(pu, usalt[8:], nil), fileKey, false)
	// Algorithm 9
	h.O = append(append(alg2B(po, osalt[:8], h.U), osalt[:8]...), osalt[8:]...)
	h.OE = aes256CBCNoPad(alg2B(po, osalt[8:], h.U), fileKey, false)
	// Algorithm 10
	blockIn := []byte{byte(p.P), byte(p.P >> 8), byte(p.P >> 16), byte(p.P >> 24), 0xff, 0xff, 0xff, 0xff,
		'T', 'a', 'd', 'b', fill[0], fill[1], fill[2], fill[3]}
	if p.PlainMetadata {
		blockIn[8] = 'F'
	}
	blk, err := aes.NewCipher(fileKey)
	if err != nil {
		return nil, nil, err
	}
	h.Perms = make([]byte, 16)
	blk.Encrypt(h.Perms, blockIn)
	enc["O"], enc["U"] = obj.Str(h.O), obj.Str(h.U)
	enc["OE"], enc["UE"] = obj.Str(h.OE), obj.Str(h.UE)
	enc["Perms"] = obj.Str(h.Perms)
	return enc, append([]byte(nil), fileKey...), nil
}

// ---------------------------------------------------------------------------
// Table 22

// Access lists what a /P value permits.
type Access struct {
	PrintLowRes bool // bit 3
	Print       bool // bit 3 and (R 2 or bit 12)
	Modify      bool // bit 4
	Copy        bool // bit 5
	Annotate    bool // bit 6
	Forms       bool // bit 6 or bit 9
	Assemble    bool // bit 4 or bit 11
}

// AccessFromP reads /P as Table 22 prescribes for revision R.
func AccessFromP(R int, P uint32) Access {
	bit := func(n uint) bool { return P&(1<<(n-1)) != 0 }
	if R == 2 {
		return Access{PrintLowRes: bit(3), Print: bit(3), Modify: bit(4), Copy: bit(5),
			Annotate: bit(6), Forms: bit(6), Assemble: bit(4)}
	}
	return Access{PrintLowRes: bit(3), Print: bit(3) && bit(12), Modify: bit(4), Copy: bit(5),
		Annotate: bit(6), Forms: bit(6) || bit(9), Assemble: bit(4) || bit(11)}
}
