package secure

import (
	"unicode"
	"unicode/utf8"
)

// PrepareLegacy prepares a password for revisions 2-4 (Algorithm 2 step (a)):
// PDFDocEncoding, truncated to 32 bytes or padded with the padding string.
func PrepareLegacy(password string) ([]byte, error) {
	enc, ok := PDFDocEncode(password)
	if !ok {
		return nil, ErrPassword
	}
	out := make([]byte, 32)
	n := copy(out, enc)
	copy(out[n:], padding[:])
	return out, nil
}

// PrepareR6 prepares a password for revision 6 (Algorithm 2.A step (a)):
// SASLprep, UTF-8, truncated to 127 bytes.
func PrepareR6(password string) ([]byte, error) {
	s, err := SASLprep(password)
	if err != nil {
		return nil, err
	}
	b := []byte(s)
	if len(b) > 127 {
		b = b[:127]
	}
	return b, nil
}

// pdfDocHigh lists the code points of PDFDocEncoding that differ from
// ISO 8859-1 (ISO 32000-2 Table D.2); 0 marks an undefined code.
var pdfDocHigh = map[byte]rune{
	0x18: 0x02D8, 0x19: 0x02C7, 0x1A: 0x02C6, 0x1B: 0x02D9, 0x1C: 0x02DD, 0x1D: 0x02DB, 0x1E: 0x02DA, 0x1F: 0x02DC,
	0x80: 0x2022, 0x81: 0x2020, 0x82: 0x2021, 0x83: 0x2026, 0x84: 0x2014, 0x85: 0x2013, 0x86: 0x0192, 0x87: 0x2044,
	0x88: 0x2039, 0x89: 0x203A, 0x8A: 0x2212, 0x8B: 0x2030, 0x8C: 0x201E, 0x8D: 0x201C, 0x8E: 0x201D, 0x8F: 0x2018,
	0x90: 0x2019, 0x91: 0x201A, 0x92: 0x2122, 0x93: 0xFB01, 0x94: 0xFB02, 0x95: 0x0141, 0x96: 0x0152, 0x97: 0x0160,
	0x98: 0x0178, 0x99: 0x017D, 0x9A: 0x0131, 0x9B: 0x0142, 0x9C: 0x0153, 0x9D: 0x0161, 0x9E: 0x017E,
	0xA0: 0x20AC,
}

var pdfDocFromRune = func() map[rune]byte {
	m := map[rune]byte{}
	for c := 0; c < 256; c++ {
		b := byte(c)
		if r, ok := pdfDocHigh[b]; ok {
			m[r] = b
			continue
		}
		switch {
		case b == 0x09 || b == 0x0A || b == 0x0D: // the defined controls
			m[rune(b)] = b
		case b < 0x20 || b == 0x7F || b == 0x9F || b == 0xAD: // undefined
		case b >= 0x80 && b < 0xA1: // all listed in pdfDocHigh or undefined
		default:
			m[rune(b)] = b
		}
	}
	return m
}()

// PDFDocEncode converts text to PDFDocEncoding.
func PDFDocEncode(s string) ([]byte, bool) {
	out := make([]byte, 0, len(s))
	for _, r := range s {
		b, ok := pdfDocFromRune[r]
		if !ok || (r == utf8.RuneError) {
			return nil, false
		}
		out = append(out, b)
	}
	return out, true
}

// NFKC normalises a string to Unicode normalisation form KC.  The standard
// library has no normalisation tables, so the built-in function knows a small
// repertoire only (see nfkcSmall) and reports ok = false beyond it; callers
// that may import golang.org/x/text install norm.NFKC.String here.
var NFKC = nfkcSmall

// SASLprep is the SASLprep profile (RFC 4013) of stringprep (RFC 3454) for
// query strings: map, normalise (KC), prohibit, check bidi.  Unassigned code
// points are not rejected (the Unicode 3.2 repertoire table is not part of
// this package); the bidi classes are taken from the script tables of the
// standard library.
func SASLprep(s string) (string, error) {
	if !utf8.ValidString(s) {
		return "", ErrPassword
	}
	// 2.1 mapping
	mapped := make([]rune, 0, len(s))
	for _, r := range s {
		switch {
		case isNonASCIISpace(r):
			mapped = append(mapped, ' ')
		case isMappedToNothing(r):
		default:
			mapped = append(mapped, r)
		}
	}
	// 2.2 normalisation
	out, ok := NFKC(string(mapped))
	if !ok {
		return "", ErrPassword
	}
	// 2.3 prohibited output, 2.4 bidi
	var randAL, lcat bool
	rs := []rune(out)
	for _, r := range rs {
		if isProhibited(r) {
			return "", ErrPassword
		}
		if isRandAL(r) {
			randAL = true
		} else if isLCat(r) {
			lcat = true
		}
	}
	if randAL {
		if lcat || !isRandAL(rs[0]) || !isRandAL(rs[len(rs)-1]) {
			return "", ErrPassword
		}
	}
	return out, nil
}

// RFC 3454 C.1.2
func isNonASCIISpace(r rune) bool {
	switch {
	case r == 0x00A0, r == 0x1680, r >= 0x2000 && r <= 0x200A, r == 0x202F, r == 0x205F, r == 0x3000:
		return true
	}
	// U+200B is in C.1.2 and in B.1; "mapped to nothing" wins here as in the
	// common implementations (the order is not fixed by RFC 4013)
	return false
}

// RFC 3454 B.1
func isMappedToNothing(r rune) bool {
	switch {
	case r == 0x00AD, r == 0x034F, r == 0x1806, r >= 0x180B && r <= 0x180D,
		r >= 0x200B && r <= 0x200D, r == 0x2060, r >= 0xFE00 && r <= 0xFE0F, r == 0xFEFF:
		return true
	}
	return false
}

// RFC 3454 C.1.2, C.2.1, C.2.2, C.3, C.4, C.5, C.6, C.7, C.8, C.9
func isProhibited(r rune) bool {
	switch {
	case isNonASCIISpace(r) || r == 0x200B:
		return true
	case r <= 0x1F || r == 0x7F: // C.2.1
		return true
	case r >= 0x80 && r <= 0x9F, r == 0x06DD, r == 0x070F, r == 0x180E, r == 0x200C, r == 0x200D,
		r == 0x2028, r == 0x2029, r >= 0x2060 && r <= 0x2063, r >= 0x206A && r <= 0x206F,
		r == 0xFEFF, r >= 0xFFF9 && r <= 0xFFFC, r >= 0x1D173 && r <= 0x1D17A: // C.2.2
		return true
	case r >= 0xE000 && r <= 0xF8FF, r >= 0xF0000 && r <= 0xFFFFD, r >= 0x100000 && r <= 0x10FFFD: // C.3
		return true
	case r >= 0xFDD0 && r <= 0xFDEF, r&0xFFFE == 0xFFFE: // C.4
		return true
	case r >= 0xD800 && r <= 0xDFFF: // C.5
		return true
	case r >= 0xFFF9 && r <= 0xFFFD: // C.6
		return true
	case r >= 0x2FF0 && r <= 0x2FFB: // C.7
		return true
	case r == 0x0340, r == 0x0341, r == 0x200E, r == 0x200F, r >= 0x202A && r <= 0x202E: // C.8
		return true
	case r == 0xE0001, r >= 0xE0020 && r <= 0xE007F: // C.9
		return true
	}
	return false
}

// D.1, approximated by the right-to-left scripts
func isRandAL(r rune) bool {
	return unicode.In(r, unicode.Hebrew, unicode.Arabic, unicode.Syriac, unicode.Thaana) && unicode.IsLetter(r) ||
		r == 0x05BE || r == 0x05C0 || r == 0x05C3 || r == 0x061B || r == 0x061F || r == 0x200F
}

// D.2, approximated by the letters of all other scripts
func isLCat(r rune) bool {
	return unicode.IsLetter(r) && !isRandAL(r)
}

// nfkcSmall handles: ASCII; the fullwidth forms U+FF01-FF5E; the Latin
// ligatures; superscript digits and ordinal indicators of Latin-1; circled
// digits and Roman numerals; base letter + combining grave, acute,
// circumflex, tilde, diaeresis for the Latin-1 letters; and passes through
// code points of blocks in which every assigned character is inert under
// NFKC (precomposed Latin-1/Extended-A letters, Greek and Cyrillic basic
// letters, Hebrew and Arabic basic letters, kana, CJK unified ideographs).
func nfkcSmall(s string) (string, bool) {
	rs := []rune(s)
	out := make([]rune, 0, len(rs))
	for _, r := range rs {
		switch {
		case r < 0x80:
			out = append(out, r)
		case r >= 0xFF01 && r <= 0xFF5E:
			out = append(out, r-0xFF01+0x21)
		case r >= 0x0300 && r <= 0x0308: // combining mark: compose with the previous letter
			if len(out) == 0 {
				return "", false
			}
			c, ok := compose[[2]rune{out[len(out)-1], r}]
			if !ok {
				return "", false
			}
			out[len(out)-1] = c
		default:
			if rep, ok := compat[r]; ok {
				out = append(out, []rune(rep)...)
			} else if inert(r) {
				out = append(out, r)
			} else {
				return "", false
			}
		}
	}
	return string(out), true
}

var compat = map[rune]string{
	0xFB00: "ff", 0xFB01: "fi", 0xFB02: "fl", 0xFB03: "ffi", 0xFB04: "ffl", 0xFB05: "st", 0xFB06: "st",
	0x00AA: "a", 0x00BA: "o", 0x00B9: "1", 0x00B2: "2", 0x00B3: "3",
	0x2460: "1", 0x2461: "2", 0x2462: "3", 0x2463: "4", 0x2464: "5", 0x2465: "6", 0x2466: "7", 0x2467: "8", 0x2468: "9",
	0x2160: "I", 0x2161: "II", 0x2162: "III", 0x2163: "IV", 0x2164: "V", 0x2165: "VI", 0x2166: "VII", 0x2167: "VIII",
	0x2168: "IX", 0x2169: "X", 0x216A: "XI", 0x216B: "XII",
	0x2170: "i", 0x2171: "ii", 0x2172: "iii", 0x2173: "iv", 0x2174: "v", 0x2175: "vi", 0x2176: "vii", 0x2177: "viii",
	0x2178: "ix", 0x2179: "x", 0x217A: "xi", 0x217B: "xii",
	0x212A: "K", 0x2126: "Ω", 0x00B5: "μ",
}

var compose = func() map[[2]rune]rune {
	m := map[[2]rune]rune{}
	add := func(mark rune, pairs string) {
		rs := []rune(pairs)
		for i := 0; i+1 < len(rs); i += 2 {
			m[[2]rune{rs[i], mark}] = rs[i+1]
		}
	}
	add(0x0300, "AÀEÈIÌOÒUÙaàeèiìoòuù")
	add(0x0301, "AÁEÉIÍOÓUÚYÝaáeéiíoóuúyý")
	add(0x0302, "AÂEÊIÎOÔUÛaâeêiîoôuû")
	add(0x0303, "AÃNÑOÕaãnñoõ")
	add(0x0308, "AÄEËIÏOÖUÜaäeëiïoöuüyÿ")
	return m
}()

func inert(r rune) bool {
	switch {
	case r >= 0x00C0 && r <= 0x00FF, r == 0x00A1, r == 0x00A3, r == 0x00A7, r == 0x00BF:
		return true
	case r >= 0x0100 && r <= 0x017E && r != 0x0132 && r != 0x0133 && r != 0x013F && r != 0x0140 && r != 0x0149:
		return true
	case r >= 0x0391 && r <= 0x03A9 && r != 0x03A2, r >= 0x03B1 && r <= 0x03C9:
		return true
	case r >= 0x0410 && r <= 0x044F:
		return true
	case r >= 0x05D0 && r <= 0x05EA, r >= 0x0621 && r <= 0x063A, r >= 0x0641 && r <= 0x064A:
		return true
	case r >= 0x3041 && r <= 0x3093, r >= 0x30A1 && r <= 0x30F6:
		return true
	case r >= 0x4E00 && r <= 0x9FA5:
		return true
	case r == 0x20AC, r == 0x2022, r == 0x2020, r == 0x2021, r == 0x2013, r == 0x2014:
		return true
	}
	return false
}
