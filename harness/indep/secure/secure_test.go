package secure

import (
	"bytes"
	"encoding/hex"
	"errors"
	"fmt"
	"math/rand"
	"testing"

	"verif/harness/indep/obj"
)

func unhex(t *testing.T, s string) []byte {
	t.Helper()
	b, err := hex.DecodeString(s)
	if err != nil {
		t.Fatal(err)
	}
	return b
}

// The padding string is the one value Algorithm 2 prints in full.
func TestPaddingString(t *testing.T) {
	want := "28BF4E5E4E758A4164004E56FFFA01082E2E00B6D0683E802F0CA9FE6453697A"
	if got := fmt.Sprintf("%X", padding[:]); got != want {
		t.Fatalf("padding string %s", got)
	}
	p, err := PrepareLegacy("")
	if err != nil || !bytes.Equal(p, padding[:]) {
		t.Fatalf("empty password must prepare to the padding string: %x %v", p, err)
	}
	p, _ = PrepareLegacy("ab")
	if !bytes.Equal(p[:2], []byte("ab")) || !bytes.Equal(p[2:], padding[:30]) {
		t.Fatalf("short password: %x", p)
	}
	long := "0123456789012345678901234567890123456789"
	p, _ = PrepareLegacy(long)
	if string(p) != long[:32] {
		t.Fatalf("long password: %q", p)
	}
}

// Known answer (R 4, 128 bit, password "test" for both, P = -4): the /O and
// /U values of a third-party file, also used as a vector by go-pdf's
// TestComputeOU.
func TestKnownAnswerR4(t *testing.T) {
	h := &Handler{V: 4, R: 4, KeyLen: 16, P: 0xFFFFFFFC, EncryptMetadata: true,
		ID0: unhex(t, "acac29b4192fd923c24fe6042479b2a9")}
	pw, _ := PrepareLegacy("test")
	h.O = h.alg3(pw, pw)
	if got := hex.EncodeToString(h.O); got != "badad1e86442699427116d3e5d5271bc80a27814fc5e80f815efeef839354c5f" {
		t.Fatalf("O = %s", got)
	}
	u := h.uValue(h.alg2(pw))
	if got := hex.EncodeToString(u); got != "a5b5fc1fcc399c6845fedcdfac82027c" {
		t.Fatalf("U = %s", got)
	}
}

// MD5 based per-object key: hand computed layout check (Algorithm 1).
func TestObjectKeyLayout(t *testing.T) {
	fk := []byte{1, 2, 3, 4, 5}
	k := ObjectKey(fk, 0x030201, 0x0504, false)
	if len(k) != 10 {
		t.Fatalf("40 bit key gives %d byte object key, want 10", len(k))
	}
	k16 := ObjectKey(bytes.Repeat([]byte{7}, 16), 1, 0, true)
	if len(k16) != 16 {
		t.Fatalf("128 bit key gives %d byte object key", len(k16))
	}
	if bytes.Equal(k16, ObjectKey(bytes.Repeat([]byte{7}, 16), 1, 0, false)) {
		t.Fatal("sAlT must change the key")
	}
	if bytes.Equal(ObjectKey(fk, 1, 0, false), ObjectKey(fk, 1, 1, false)) ||
		bytes.Equal(ObjectKey(fk, 1, 0, false), ObjectKey(fk, 2, 0, false)) ||
		bytes.Equal(ObjectKey(fk, 1, 0, false), ObjectKey(fk, 1+1<<16, 0, false)) ||
		bytes.Equal(ObjectKey(fk, 1, 0, false), ObjectKey(fk, 1, 1<<8, false)) {
		t.Fatal("object and generation number bytes must all enter the key")
	}
	if !bytes.Equal(ObjectKey(fk, 1, 0, false), ObjectKey(fk, 1+1<<24, 0, false)) {
		t.Fatal("only the low three bytes of the object number enter the key")
	}
	k32 := bytes.Repeat([]byte{9}, 32)
	if !bytes.Equal(ObjectKey(k32, 5, 6, true), k32) {
		t.Fatal("AES-256 uses the file key directly")
	}
}

type variant struct {
	name string
	p    Params
}

func variants() []variant {
	return []variant{
		{"R2", Params{R: 2}},
		{"R3-40-V1", Params{R: 3, KeyBits: 40, V: 1}},
		{"R3-40", Params{R: 3, KeyBits: 40}},
		{"R3-56", Params{R: 3, KeyBits: 56}},
		{"R3-128", Params{R: 3}},
		{"R4-AES", Params{R: 4}},
		{"R4-RC4", Params{R: 4, RC4: true}},
		{"R4-AES-plainmeta", Params{R: 4, PlainMetadata: true}},
		{"R6", Params{R: 6}},
		{"R6-plainmeta", Params{R: 6, PlainMetadata: true}},
		{"R6-Punsigned-CFbytes", Params{R: 6, PUnsigned: true, CFLengthBytes: true}},
	}
}

func TestBuildAndAuthenticate(t *testing.T) {
	rnd := rand.New(rand.NewSource(1))
	pws := []struct{ user, owner string }{
		{"user", "owner"}, {"", "owner"}, {"user", ""}, {"same", "same"},
		{"pässwörd", "Œuvre"}, {"0123456789012345678901234567890123456789", "x"},
	}
	for _, v := range variants() {
		for _, pw := range pws {
			p := v.p
			p.User, p.Owner = pw.user, pw.owner
			p.P = 0xFFFFF0C0 | uint32(rnd.Intn(64))<<2
			p.ID0 = make([]byte, 16)
			rnd.Read(p.ID0)
			p.Rand = rnd
			enc, key, err := NewEncryptDict(p)
			if err != nil {
				t.Fatalf("%s: %v", v.name, err)
			}
			name := fmt.Sprintf("%s user=%q owner=%q", v.name, pw.user, pw.owner)
			effOwner := pw.owner
			if effOwner == "" {
				effOwner = pw.user
			}
			// owner password
			k, isOwner, perms, err := Authenticate(enc, p.ID0, effOwner)
			if err != nil || !isOwner || !bytes.Equal(k, key) || perms != p.P {
				t.Errorf("%s: owner password: key ok=%v owner=%v perms=%#x err=%v", name, bytes.Equal(k, key), isOwner, perms, err)
			}
			// user password
			k, isOwner, _, err = Authenticate(enc, p.ID0, pw.user)
			if err != nil || !bytes.Equal(k, key) || isOwner != (pw.user == effOwner) {
				t.Errorf("%s: user password: key ok=%v owner=%v err=%v", name, bytes.Equal(k, key), isOwner, err)
			}
			// wrong password
			_, _, _, err = Authenticate(enc, p.ID0, "wrong")
			if !errors.Is(err, ErrWrongPassword) {
				t.Errorf("%s: wrong password: %v", name, err)
			}
			// wrong ID must matter for R <= 4 user check only through the key; flip P instead
			enc2 := obj.Dict{}
			for kk, vv := range enc {
				enc2[kk] = vv
			}
			enc2["P"] = obj.Int(int64(int32(p.P ^ 4)))
			if _, _, _, err = Authenticate(enc2, p.ID0, pw.user); err == nil {
				t.Errorf("%s: a changed /P must invalidate the user password", name)
			}
			if p.R >= 4 {
				enc3 := obj.Dict{}
				for kk, vv := range enc {
					enc3[kk] = vv
				}
				enc3["EncryptMetadata"] = obj.Bool(p.PlainMetadata)
				if _, _, _, err = Authenticate(enc3, p.ID0, pw.user); err == nil {
					t.Errorf("%s: a flipped /EncryptMetadata must invalidate the user password", name)
				}
			}
		}
	}
}

func TestTruncation(t *testing.T) {
	rnd := rand.New(rand.NewSource(2))
	id := []byte("0123456789abcdef")
	p32 := "abcdefghijklmnopqrstuvwxyz012345"
	// R <= 4: only the first 32 bytes count
	enc, _, err := NewEncryptDict(Params{R: 3, User: p32 + "X", Owner: "o", P: 0xFFFFFFFC, ID0: id})
	if err != nil {
		t.Fatal(err)
	}
	if _, _, _, err := Authenticate(enc, id, p32+"Y"); err != nil {
		t.Errorf("R3: passwords equal in 32 bytes must be equal: %v", err)
	}
	if _, _, _, err := Authenticate(enc, id, p32[:31]); err == nil {
		t.Errorf("R3: 31 byte prefix must differ")
	}
	// a 31 byte password followed by the first padding byte is the same password
	enc, _, _ = NewEncryptDict(Params{R: 3, User: p32[:31], Owner: "o", P: 0xFFFFFFFC, ID0: id})
	if _, _, _, err := Authenticate(enc, id, p32[:31]+"("); err != nil {
		t.Errorf("R3: padding ambiguity: %v", err)
	}
	// R 6: 127 bytes count
	p127 := ""
	for len(p127) < 127 {
		p127 += "0123456789"
	}
	p127 = p127[:127]
	enc, _, err = NewEncryptDict(Params{R: 6, User: p127 + "X", Owner: "o", P: 0xFFFFFFFC, ID0: id, Rand: rnd})
	if err != nil {
		t.Fatal(err)
	}
	if _, _, _, err := Authenticate(enc, id, p127+"Y"); err != nil {
		t.Errorf("R6: passwords equal in 127 bytes must be equal: %v", err)
	}
	if _, _, _, err := Authenticate(enc, id, p127[:126]); err == nil {
		t.Errorf("R6: 126 byte prefix must differ")
	}
	if _, _, _, err := Authenticate(enc, id, p32+"Y"); err == nil {
		t.Errorf("R6: 33 byte passwords differing in the last byte must differ")
	}
}

func TestCiphers(t *testing.T) {
	rnd := rand.New(rand.NewSource(3))
	for _, aesM := range []bool{false, true} {
		for _, klen := range []int{10, 16, 32} {
			if !aesM && klen == 32 {
				continue
			}
			if aesM && klen == 10 {
				continue
			}
			key := make([]byte, klen)
			rnd.Read(key)
			for _, n := range []int{0, 1, 15, 16, 17, 31, 32, 33, 1000} {
				plain := make([]byte, n)
				rnd.Read(plain)
				iv := make([]byte, 16)
				rnd.Read(iv)
				ct, err := EncryptString(key, aesM, iv, plain)
				if err != nil {
					t.Fatal(err)
				}
				if aesM {
					if want := 16 + (n/16+1)*16; len(ct) != want {
						t.Errorf("AES: %d plaintext bytes give %d ciphertext bytes, want %d", n, len(ct), want)
					}
					if !bytes.Equal(ct[:16], iv) {
						t.Errorf("AES: IV not in front")
					}
				} else if len(ct) != n {
					t.Errorf("RC4 changes the length")
				}
				back, err := DecryptStream(key, aesM, ct)
				if err != nil || !bytes.Equal(back, plain) {
					t.Errorf("aes=%v n=%d: round trip failed: %v", aesM, n, err)
				}
				if aesM {
					bad := append([]byte(nil), ct...)
					bad[len(bad)-1] ^= 0x55
					if b2, err := Decrypt(key, true, bad); err == nil && bytes.Equal(b2, plain) {
						t.Errorf("corrupted last block decrypts to the plaintext")
					}
					if _, err := Decrypt(key, true, ct[:len(ct)-1]); err == nil {
						t.Errorf("truncated AES ciphertext accepted")
					}
				}
			}
		}
	}
}

// AES-CBC known answer (NIST SP 800-38A F.2.1, first block) through Encrypt:
// the plaintext block is followed by a full padding block.
func TestAESKnownAnswer(t *testing.T) {
	key := unhex(t, "2b7e151628aed2a6abf7158809cf4f3c")
	iv := unhex(t, "000102030405060708090a0b0c0d0e0f")
	pt := unhex(t, "6bc1bee22e409f96e93d7e117393172a")
	ct, err := Encrypt(key, true, iv, pt)
	if err != nil {
		t.Fatal(err)
	}
	if got := hex.EncodeToString(ct[16:32]); got != "7649abac8119b246cee98e9b12e9197d" {
		t.Fatalf("first ciphertext block %s", got)
	}
	if len(ct) != 48 {
		t.Fatalf("length %d", len(ct))
	}
}

func TestHash2BTermination(t *testing.T) {
	// the hash must depend on every input and be 32 bytes
	a := alg2B([]byte("pw"), []byte("12345678"), nil)
	if len(a) != 32 {
		t.Fatal(len(a))
	}
	u := bytes.Repeat([]byte{1}, 48)
	for _, b := range [][]byte{alg2B([]byte("pW"), []byte("12345678"), nil), alg2B([]byte("pw"), []byte("12345679"), nil),
		alg2B([]byte("pw"), []byte("12345678"), u), alg2B(nil, []byte("12345678"), nil)} {
		if bytes.Equal(a, b) {
			t.Fatal("hash ignores an input")
		}
	}
}

func TestPDFDocEncoding(t *testing.T) {
	cases := map[string]string{"pässwörd": "70e47373 77f67264", "€": "a0", "•†Œž": "80819 69e", "\t\n\r": "090a0d", "ﬁ": "93"}
	for in, want := range cases {
		got, ok := PDFDocEncode(in)
		w, _ := hex.DecodeString(removeSpaces(want))
		if !ok || !bytes.Equal(got, w) {
			t.Errorf("PDFDocEncode(%q) = %x %v, want %x", in, got, ok, w)
		}
	}
	for _, in := range []string{"пароль", "\x00", "\x7f", "\u00ad", "日本", "\u009f"} {
		if _, ok := PDFDocEncode(in); ok {
			t.Errorf("PDFDocEncode(%q) must fail", in)
		}
	}
}

func removeSpaces(s string) string {
	out := ""
	for _, c := range s {
		if c != ' ' {
			out += string(c)
		}
	}
	return out
}

func TestSASLprep(t *testing.T) {
	// RFC 4013 section 3 examples
	ex := []struct {
		in, out string
		ok      bool
	}{
		{"I\u00adX", "IX", true},
		{"user", "user", true},
		{"USER", "USER", true},
		{"\u00aa", "a", true},
		{"\u2168", "IX", true},
		{"\u0007", "", false},
		{"\u06271", "", false},
		// more
		{"\uff41\uff42\uff43", "abc", true},
		{"a\u00a0b", "a b", true},
		{"a\u3000b", "a b", true},
		{"a\u0308", "\u00e4", true},
		{"\u00e4", "\u00e4", true},
		{"пароль", "пароль", true},
		{"\ue000", "", false},
		{"\u200e", "", false},
		{"\u05d0b", "", false},
		{"\u05d0\u05d1", "\u05d0\u05d1", true},
		{"", "", true},
	}
	for _, e := range ex {
		got, err := SASLprep(e.in)
		if (err == nil) != e.ok || got != e.out {
			t.Errorf("SASLprep(%q) = %q, %v; want %q ok=%v", e.in, got, err, e.out, e.ok)
		}
	}
}

func TestAccessFromP(t *testing.T) {
	a := AccessFromP(3, 0xFFFFFFFC)
	if a != (Access{true, true, true, true, true, true, true}) {
		t.Errorf("all bits set: %+v", a)
	}
	a = AccessFromP(3, 0xFFFFF0C0) // bits 3-6, 9-12 clear
	if a != (Access{}) {
		t.Errorf("no bits set: %+v", a)
	}
	a = AccessFromP(3, 0xFFFFF0C0|1<<10) // bit 11: assemble even if bit 4 is clear
	if a != (Access{Assemble: true}) {
		t.Errorf("bit 11: %+v", a)
	}
	a = AccessFromP(3, 0xFFFFF0C0|1<<11) // bit 12 without bit 3 prints nothing
	if a != (Access{}) {
		t.Errorf("bit 12 alone: %+v", a)
	}
	a = AccessFromP(2, 0xFFFFFFC0|1<<2)
	if a != (Access{PrintLowRes: true, Print: true}) {
		t.Errorf("R2 bit 3: %+v", a)
	}
}
