// Package codecs holds small, independent implementations of the stream
// formats of ISO 32000-1 7.4 that fit on a page: RunLength, ASCIIHex, ASCII85,
// LZW (both EarlyChange settings) and the PNG / TIFF predictors.  They are
// written from the standard (not from go-pdf, from which this package imports
// nothing), are validated against the TLA+ modules in spec/filter on small
// cases by the C07 driver, and serve as observers for bulk volume.
package codecs

import (
	"errors"
)

// ErrFormat is returned for data that is not an encoding.
var ErrFormat = errors.New("codecs: malformed data")

// ---------------------------------------------------------------------------
// RunLength

// RunLengthDecode decodes until EOD (128); missing EOD is an error.
func RunLengthDecode(s []byte) ([]byte, error) {
	var out []byte
	i := 0
	for {
		if i >= len(s) {
			return out, ErrFormat
		}
		l := int(s[i])
		i++
		switch {
		case l == 128:
			return out, nil
		case l < 128:
			if i+l+1 > len(s) {
				return out, ErrFormat
			}
			out = append(out, s[i:i+l+1]...)
			i += l + 1
		default:
			if i >= len(s) {
				return out, ErrFormat
			}
			for k := 0; k < 257-l; k++ {
				out = append(out, s[i])
			}
			i++
		}
	}
}

// RunLengthEncode uses repeat runs for every run of two or more equal bytes
// and literal runs otherwise (a different strategy from go-pdf's writer).
func RunLengthEncode(d []byte) []byte {
	var out []byte
	var lit []byte
	flush := func() {
		for len(lit) > 0 {
			n := len(lit)
			if n > 128 {
				n = 128
			}
			out = append(out, byte(n-1))
			out = append(out, lit[:n]...)
			lit = lit[n:]
		}
	}
	for i := 0; i < len(d); {
		j := i
		for j < len(d) && d[j] == d[i] && j-i < 128 {
			j++
		}
		if j-i >= 2 {
			flush()
			out = append(out, byte(257-(j-i)), d[i])
		} else {
			lit = append(lit, d[i])
		}
		i = j
	}
	flush()
	return append(out, 128)
}

// ---------------------------------------------------------------------------
// ASCIIHex

func isWhite(c byte) bool { return c == 0 || c == 9 || c == 10 || c == 12 || c == 13 || c == 32 }

// ASCIIHexDecode decodes until '>'.
func ASCIIHexDecode(s []byte) ([]byte, error) {
	var out []byte
	hi := -1
	for _, c := range s {
		var v int
		switch {
		case isWhite(c):
			continue
		case c == '>':
			if hi >= 0 {
				out = append(out, byte(hi<<4))
			}
			return out, nil
		case c >= '0' && c <= '9':
			v = int(c - '0')
		case c >= 'A' && c <= 'F':
			v = int(c-'A') + 10
		case c >= 'a' && c <= 'f':
			v = int(c-'a') + 10
		default:
			return out, ErrFormat
		}
		if hi < 0 {
			hi = v
		} else {
			out = append(out, byte(hi<<4|v))
			hi = -1
		}
	}
	return out, ErrFormat
}

// ASCIIHexEncode writes upper case digits, a space after every byte and a
// CR LF after every 16 bytes.
func ASCIIHexEncode(d []byte) []byte {
	const hex = "0123456789ABCDEF"
	var out []byte
	for i, b := range d {
		out = append(out, hex[b>>4], hex[b&15], ' ')
		if i%16 == 15 {
			out = append(out, '\r', '\n')
		}
	}
	return append(out, '>')
}

// ---------------------------------------------------------------------------
// ASCII85

// ASCII85Decode decodes until "~>".
func ASCII85Decode(s []byte) ([]byte, error) {
	var out []byte
	var v uint64
	k := 0
	for i := 0; i < len(s); i++ {
		c := s[i]
		switch {
		case isWhite(c):
		case c >= '!' && c <= 'u':
			v = v*85 + uint64(c-'!')
			k++
			if k == 5 {
				if v > 0xffffffff {
					return out, ErrFormat
				}
				out = append(out, byte(v>>24), byte(v>>16), byte(v>>8), byte(v))
				v, k = 0, 0
			}
		case c == 'z' && k == 0:
			out = append(out, 0, 0, 0, 0)
		case c == '~':
			if i+1 >= len(s) || s[i+1] != '>' {
				return out, ErrFormat
			}
			if k == 1 {
				return out, ErrFormat
			}
			if k > 1 {
				for j := k; j < 5; j++ {
					v = v*85 + 84
				}
				if v > 0xffffffff {
					return out, ErrFormat
				}
				b := []byte{byte(v >> 24), byte(v >> 16), byte(v >> 8), byte(v)}
				out = append(out, b[:k-1]...)
			}
			return out, nil
		default:
			return out, ErrFormat
		}
	}
	return out, ErrFormat
}

// ASCII85Encode never uses 'z' and breaks lines with CR LF inside groups.
func ASCII85Encode(d []byte) []byte {
	var out []byte
	col := 0
	put := func(c byte) {
		out = append(out, c)
		col++
		if col == 61 {
			out = append(out, '\r', '\n')
			col = 0
		}
	}
	for i := 0; i < len(d); i += 4 {
		n := len(d) - i
		if n > 4 {
			n = 4
		}
		var v uint32
		for j := 0; j < 4; j++ {
			v <<= 8
			if j < n {
				v |= uint32(d[i+j])
			}
		}
		var c [5]byte
		for j := 4; j >= 0; j-- {
			c[j] = byte(v%85) + '!'
			v /= 85
		}
		for j := 0; j < n+1; j++ {
			put(c[j])
		}
	}
	return append(out, '~', '>')
}

// ---------------------------------------------------------------------------
// LZW

type bitReader struct {
	s   []byte
	pos int // bit position
}

func (b *bitReader) read(w int) (int, bool) {
	if b.pos+w > 8*len(b.s) {
		return 0, false
	}
	v := 0
	for i := 0; i < w; i++ {
		bit := (b.s[b.pos/8] >> (7 - uint(b.pos%8))) & 1
		v = v<<1 | int(bit)
		b.pos++
	}
	return v, true
}

func lzwWidth(next, early int) int {
	switch {
	case next+early < 512:
		return 9
	case next+early < 1024:
		return 10
	case next+early < 2048:
		return 11
	}
	return 12
}

// LZWDecode decodes a PDF LZW stream; early is the EarlyChange parameter.
func LZWDecode(s []byte, early int) ([]byte, error) {
	br := &bitReader{s: s}
	var out []byte
	var table [][]byte // table[i] is code 258+i
	var prev []byte
	for {
		next := 258 + len(table)
		w := lzwWidth(next, early)
		if prev == nil {
			w = lzwWidth(next-1, early)
		}
		c, ok := br.read(w)
		if !ok {
			return out, ErrFormat
		}
		switch {
		case c == 257:
			return out, nil
		case c == 256:
			table, prev = nil, nil
		case prev == nil:
			if c > 255 {
				return out, ErrFormat
			}
			prev = []byte{byte(c)}
			out = append(out, prev...)
		default:
			var str []byte
			switch {
			case c < 256:
				str = []byte{byte(c)}
			case c < next:
				str = table[c-258]
			case c == next && next < 4096:
				str = append(append([]byte(nil), prev...), prev[0])
			default:
				return out, ErrFormat
			}
			if next < 4096 {
				table = append(table, append(append([]byte(nil), prev...), str[0]))
			}
			out = append(out, str...)
			prev = str
		}
	}
}

type bitWriter struct {
	out []byte
	cur uint32
	n   uint
}

func (b *bitWriter) write(c, w int) {
	b.cur = b.cur<<uint(w) | uint32(c)
	b.n += uint(w)
	for b.n >= 8 {
		b.out = append(b.out, byte(b.cur>>(b.n-8)))
		b.n -= 8
	}
	b.cur &= 1<<b.n - 1
}

func (b *bitWriter) flush() []byte {
	if b.n > 0 {
		b.out = append(b.out, byte(b.cur<<(8-b.n)))
		b.n = 0
	}
	return b.out
}

// LZWEncode is a greedy LZW encoder with a map as table.  clearEvery > 0
// sends a clear code after that many codes (an early clear, legal at any
// point); the table is always cleared before it is full.
func LZWEncode(d []byte, early, clearEvery int) []byte {
	bw := &bitWriter{}
	bw.write(256, 9)
	table := map[string]int{}
	next := 258     // next code to assign (the decoder is one behind)
	emitted := 0    // codes since the last clear
	width := func() int { return lzwWidth(257+emitted, early) }
	var cur []byte
	emit := func(code int) {
		bw.write(code, width())
		emitted++
	}
	codeOf := func(s []byte) int {
		if len(s) == 1 {
			return int(s[0])
		}
		return table[string(s)]
	}
	for _, b := range d {
		ext := append(append([]byte(nil), cur...), b)
		if len(cur) == 0 {
			cur = ext
			continue
		}
		if _, ok := table[string(ext)]; ok {
			cur = ext
			continue
		}
		emit(codeOf(cur))
		table[string(ext)] = next
		next++
		cur = []byte{b}
		if next >= 4093 || (clearEvery > 0 && emitted >= clearEvery) {
			bw.write(256, width())
			table = map[string]int{}
			next = 258
			emitted = 0
		}
	}
	if len(cur) > 0 {
		emit(codeOf(cur))
	}
	bw.write(257, width())
	return bw.flush()
}

// ---------------------------------------------------------------------------
// predictors

// PredParams are the predictor parameters with the defaults applied.
type PredParams struct {
	Predictor, Colors, BPC, Columns int
}

func (p PredParams) RowBytes() int { return (p.Colors*p.BPC*p.Columns + 7) / 8 }

func (p PredParams) bpp() int {
	b := (p.Colors*p.BPC + 7) / 8
	if b < 1 {
		b = 1
	}
	return b
}

func paeth(a, b, c int) int {
	pp := a + b - c
	pa, pb, pc := abs(pp-a), abs(pp-b), abs(pp-c)
	if pa <= pb && pa <= pc {
		return a
	}
	if pb <= pc {
		return b
	}
	return c
}

func abs(x int) int {
	if x < 0 {
		return -x
	}
	return x
}

func pngPred(tag, a, b, c int) int {
	switch tag {
	case 1:
		return a
	case 2:
		return b
	case 3:
		return (a + b) / 2
	case 4:
		return paeth(a, b, c)
	}
	return 0
}

// PNGDecode undoes PNG filtering (rows of 1+RowBytes bytes).
func PNGDecode(p PredParams, s []byte) ([]byte, error) {
	n, bpp := p.RowBytes(), p.bpp()
	prior := make([]byte, n)
	var out []byte
	for i := 0; i < len(s); i += n + 1 {
		if i+n+1 > len(s) || s[i] > 4 {
			return out, ErrFormat
		}
		tag := int(s[i])
		row := make([]byte, n)
		for j := 0; j < n; j++ {
			a, c := 0, 0
			if j >= bpp {
				a, c = int(row[j-bpp]), int(prior[j-bpp])
			}
			row[j] = byte(int(s[i+1+j]) + pngPred(tag, a, int(prior[j]), c))
		}
		out = append(out, row...)
		prior = row
	}
	return out, nil
}

// PNGEncode filters whole rows; tagOf chooses the filter type of row r.
func PNGEncode(p PredParams, d []byte, tagOf func(r int) int) []byte {
	n, bpp := p.RowBytes(), p.bpp()
	prior := make([]byte, n)
	var out []byte
	for r := 0; (r+1)*n <= len(d); r++ {
		row := d[r*n : (r+1)*n]
		tag := tagOf(r)
		out = append(out, byte(tag))
		for j := 0; j < n; j++ {
			a, c := 0, 0
			if j >= bpp {
				a, c = int(row[j-bpp]), int(prior[j-bpp])
			}
			out = append(out, byte(int(row[j])-pngPred(tag, a, int(prior[j]), c)))
		}
		prior = row
	}
	return out
}

func getSample(p PredParams, row []byte, j int) int {
	switch p.BPC {
	case 16:
		return int(row[2*j])<<8 | int(row[2*j+1])
	case 8:
		return int(row[j])
	}
	bit := j * p.BPC
	return int(row[bit/8]>>(8-p.BPC-bit%8)) & (1<<p.BPC - 1)
}

func setSample(p PredParams, row []byte, j, v int) {
	switch p.BPC {
	case 16:
		row[2*j], row[2*j+1] = byte(v>>8), byte(v)
		return
	case 8:
		row[j] = byte(v)
		return
	}
	bit := j * p.BPC
	sh := uint(8 - p.BPC - bit%8)
	mask := byte(1<<p.BPC-1) << sh
	row[bit/8] = row[bit/8]&^mask | byte(v)<<sh
}

// TIFFDecode undoes horizontal differencing (TIFF predictor 2).
func TIFFDecode(p PredParams, s []byte) ([]byte, error) {
	n := p.RowBytes()
	if len(s)%n != 0 {
		return nil, ErrFormat
	}
	out := append([]byte(nil), s...)
	mod := 1 << p.BPC
	for r := 0; r*n < len(s); r++ {
		row := out[r*n : (r+1)*n]
		for j := p.Colors; j < p.Colors*p.Columns; j++ {
			setSample(p, row, j, (getSample(p, row, j)+getSample(p, row, j-p.Colors))%mod)
		}
	}
	return out, nil
}

// TIFFEncode applies horizontal differencing to whole rows.
func TIFFEncode(p PredParams, d []byte) []byte {
	n := p.RowBytes()
	out := append([]byte(nil), d...)
	mod := 1 << p.BPC
	for r := 0; (r+1)*n <= len(d); r++ {
		row := out[r*n : (r+1)*n]
		orig := d[r*n : (r+1)*n]
		for j := p.Colors*p.Columns - 1; j >= p.Colors; j-- {
			setSample(p, row, j, (getSample(p, orig, j)-getSample(p, orig, j-p.Colors)+mod)%mod)
		}
	}
	return out
}

// PredDecode dispatches on the predictor.
func PredDecode(p PredParams, s []byte) ([]byte, error) {
	switch {
	case p.Predictor == 2:
		return TIFFDecode(p, s)
	case p.Predictor >= 10:
		return PNGDecode(p, s)
	}
	return s, nil
}

// LZWEncodeDeferredClear is an LZW encoder which, unlike most, does not send
// the clear code when its table is full: it goes on for n more codes with the
// frozen table (ISO 32000-1 7.4.4.2 lets the encoder choose when to clear; a
// full table simply stays as it is and every code keeps its meaning), then
// clears and encodes tail normally.  Any sequence of defined codes is a legal
// code stream while the table is frozen, so the encoder picks those n codes
// itself -- pick(i, top) returns a code in 0..top except 256, 257; top is the
// last table entry -- and the data follow from the codes.  The table is
// limited to 4096 - early entries (with EarlyChange = 1 the code 4095 is never
// used, as in TIFF).  It returns the encoding and the data it stands for.
func LZWEncodeDeferredClear(prefix []byte, early, n int, pick func(i, top int) int, tail []byte) (enc, data []byte) {
	bw := &bitWriter{}
	bw.write(256, 9)
	limit := 4096 - early
	table := map[string]int{}
	strs := map[int][]byte{}
	next, emitted := 258, 0
	width := func() int { return lzwWidth(257+emitted, early) }
	emit := func(code int) {
		bw.write(code, width())
		emitted++
	}
	codeOf := func(s []byte) int {
		if len(s) == 1 {
			return int(s[0])
		}
		return table[string(s)]
	}
	str := func(c int) []byte {
		if c < 256 {
			return []byte{byte(c)}
		}
		return strs[c]
	}
	// phase 1: greedy, until the table is full (a longer prefix is cut there)
	var cur []byte
	full := false
	for _, b := range prefix {
		if full {
			break
		}
		ext := append(append([]byte(nil), cur...), b)
		if len(cur) == 0 {
			cur = ext
			data = append(data, b)
			continue
		}
		data = append(data, b)
		if _, ok := table[string(ext)]; ok {
			cur = ext
			continue
		}
		emit(codeOf(cur))
		table[string(ext)] = next
		strs[next] = ext
		next++
		cur = []byte{b}
		if next == limit {
			full = true
		}
	}
	if len(cur) > 0 {
		emit(codeOf(cur)) // the decoder completes its last entry with this code
	}
	if full {
		// phase 2: n codes with the frozen table
		for i := 0; i < n; i++ {
			c := pick(i, next-1)
			if c == 256 || c == 257 || c < 0 || c >= next {
				c = next - 1
			}
			emit(c)
			data = append(data, str(c)...)
		}
		// phase 3: clear, then the tail
		bw.write(256, width())
		rest := LZWEncode(tail, early, 0)
		// splice: rest starts with its own clear code (9 bits) which we replace by
		// re-encoding through the bit writer
		br := &bitReader{s: rest}
		br.read(9)
		emitted = 0
		for {
			w := lzwWidth(257+emitted, early)
			c, ok := br.read(w)
			if !ok {
				break
			}
			bw.write(c, w)
			emitted++
			if c == 257 {
				break
			}
		}
		data = append(data, tail...)
		return bw.flush(), data
	}
	bw.write(257, width())
	return bw.flush(), data
}

// ASCIIHexEncodeWrapped writes the digits without regard to byte pairs and
// breaks the line with ws after every width characters (at an odd width the
// two digits of every other byte end up on different lines); lower selects
// the case.
func ASCIIHexEncodeWrapped(d []byte, width int, ws string, lower bool) []byte {
	hex := "0123456789ABCDEF"
	if lower {
		hex = "0123456789abcdef"
	}
	var out []byte
	n := 0
	put := func(c byte) {
		out = append(out, c)
		n++
		if n%width == 0 {
			out = append(out, ws...)
		}
	}
	for _, b := range d {
		put(hex[b>>4])
		put(hex[b&15])
	}
	return append(out, '>')
}
