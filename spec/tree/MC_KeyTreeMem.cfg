\* in-memory value edited between uses: F=2, initial maps of 0..5 keys, up to 3 edits (replace / change value / add / remove, at lo/mid/hi), uses in between
SPECIFICATION Spec
CONSTANTS F = 2
  Variant = "asCoded"
  Sizes = {0, 1, 2, 3, 4, 5}
  MaxSteps = 3
  Sel = {"lo", "mid", "hi"}
INVARIANTS MemEnumerates MemLookup MemWrite
CHECK_DEADLOCK FALSE
