---------------------------- MODULE MC_KeyTree ----------------------------
(* Exhaustive design model of KeyTree for a small fan-out F: every input    *)
(* the caller's iterator can produce (up to order isomorphism) is fed to    *)
(* the writer state machine, one action per code path of write.go.          *)
(*                                                                          *)
(* Keys: accepted keys are even.  After the key k the iterator may produce  *)
(* a greater key (k + d, d in Steps), the same key again (duplicate), a key *)
(* just below it (k - 1), or the very first key (2): all order types of an  *)
(* offending key relative to lastKey, which is the only thing addEntry      *)
(* looks at.  Odd numbers are never accepted, so they serve as absent       *)
(* probes between neighbours, below the least and above the greatest key.   *)
EXTENDS KeyTree
CONSTANTS MaxN,    \* longest accepted input
          Steps    \* distances between consecutive accepted keys: {2}, or {2, 4} to
                   \* have several absent keys between neighbours (all gap patterns)

NextKeys == IF ~hasEntries THEN {2}
            ELSE {lastKey + d : d \in Steps} \cup {lastKey, lastKey - 1, 2}

Next == \/ /\ Len(fed) < MaxN
           /\ \E k \in NextKeys : AddEntry(k)
        \/ CompleteLeaf \/ MergeStep \/ MergeDone
        \/ FinishRootWithEntries \/ FinishCompletePending \/ FinishNoPending
        \/ FinishEmpty \/ FinishSingleLeaf \/ FinishCollapse
        \/ CollapseStep \/ FinishRoot
Spec == Init /\ [][Next]_vars /\ WF_vars(Next)

\* collapse (and every other loop of the writer) terminates
Terminates == <>(pc \in Final)
\* the bound of the model, not of the writer
Bounded == Len(fed) <= MaxN
\* side results about write.go: the cap "end-start > maxChildren" in collapse and
\* the branch "root.depth == 0" after collapse are never taken
CapIsDead == (pc = "collapse" /\ Len(tail) > 1) =>
                Len(tail) - RunStart(tail, Len(tail), tail[Len(tail)].depth) + 1 <= F
RootDepthPositive == (pc = "collapse" /\ Len(tail) = 1) => tail[1].depth > 0
=============================================================================
