SPECIFICATION Spec
VIEW View
CONSTANTS D = 2
  MaxPages = 3
  MaxWriters = 3
  MaxCbs = 1
  MVals = {"A"}
  CVals = {"-"}
  RVals = {"-", "90"}
  SVals = {"-"}
  PendVals = {TRUE}
  Variant = "ok"
INVARIANTS NoPanic TailInv DepthBound EffectiveSoFar RootDone PageNumbers NoLostCallback FutInv
CHECK_DEADLOCK FALSE
