---------------------------- MODULE Gen_PageTree ----------------------------
(* Behaviour generator for the conformance harness (pattern P-A).  It runs  *)
(* PageTree with a history variable and, once the root has been closed,     *)
(* appends one line to IOEnv.OUT: the calls made, what the model says the   *)
(* resulting document order is, when (after which call) each callback has   *)
(* fired and with which value.  Used both exhaustively (small constants:    *)
(* every complete behaviour is a distinct state, so each is written once)   *)
(* and with -simulate (long random behaviours).  The harness replays the    *)
(* calls on the real pagetree.Writer, scaling every model page to a block   *)
(* of real pages (the code's fan-out is 16, the model's is D).              *)
EXTENDS PageTree, Json, IOUtils, CSV
CONSTANTS MinSteps      \* the root is not closed before this many calls (long behaviours)
VARIABLES hist, emitted
gvars == <<vars, hist, emitted>>

NFired == [c \in 1..MaxCbs |-> Len(fired[c])]
Log(e) == hist' = Append(hist, e @@ [nf |-> NFired'])

GenInit == Init /\ hist = <<>> /\ emitted = FALSE
GenNext ==
  \/ /\ \E w \in W :
          \/ \E at \in Attrs, pend \in PendVals :
                AppendPage(w, at, pend) /\ Log([op |-> "page", w |-> w, id |-> <<w, cnt[w] + 1>>, a |-> at, pend |-> pend])
          \/ NewRange(w) /\ Log([op |-> "range", w |-> w, sub |-> nw'])
          \/ Close(w) /\ (w = 1 => Len(hist) >= MinSteps) /\ Log([op |-> "close", w |-> w])
          \/ NextPageNumber(w) /\ Log([op |-> "cb", w |-> w, c |-> ncb + 1])
     /\ UNCHANGED emitted
  \/ /\ closed[1] /\ ~emitted
     /\ emitted' = TRUE
     /\ CSVWrite("%1$s", <<ToJson([hist |-> hist,
                                   order |-> [i \in 1..Len(ExpOrder(1)) |-> ExpOrder(1)[i].id],
                                   fired |-> fired,
                                   ncb |-> ncb,
                                   d |-> D])>>, IOEnv.OUT)
     /\ UNCHANGED <<vars, hist>>
GenSpec == GenInit /\ [][GenNext]_gvars

\* the model's own bookkeeping of the document order agrees with the
\* reference reading of the program (PageTreeRef!RefOrder)
HistOrder == LET o == RefOrder(hist, 1) IN [i \in 1..Len(o) |-> o[i].id]
OrderAgrees == LET e == ExpOrder(1) IN HistOrder = [i \in 1..Len(e) |-> e[i].id]
\* ... and of the callback targets
TargetsAgree ==
  \A i \in 1..Len(hist) : hist[i].op = "cb" =>
     LET c == hist[i].c IN
       /\ (target[c] # NoPage) => (RefHasTarget(hist, i) /\ RefTarget(hist, i) = target[c])
       /\ (closed[hist[i].w] /\ target[c] = NoPage) => ~RefHasTarget(hist, i)
=============================================================================
