\* every complete behaviour within these bounds (exhaustive; hist is part of the state)
SPECIFICATION GenSpec
CONSTANTS D = 2
  MaxPages = 5
  MaxWriters = 3
  MaxCbs = 0
  MVals = {"A"}
  CVals = {"-"}
  RVals = {"-"}
  SVals = {"-"}
  PendVals = {FALSE}
  Variant = "ok"
  MinSteps = 0
INVARIANTS NoPanic RootDone PageNumbers OrderAgrees TargetsAgree
CHECK_DEADLOCK FALSE
