---------------------------- MODULE PageTreeRef ----------------------------
(* Reference semantics of a PDF page tree (ISO 32000-2, 7.7.3.2-7.7.3.4)    *)
(* and of the user-visible contract of pagetree.Writer, written without     *)
(* any reference to how the writer balances its tree.  These operators are  *)
(* the acceptance oracle: PageTree.tla (the implementation-shaped model)    *)
(* is checked against them by TLC, and Trace_PageTree.tla judges what the   *)
(* real code wrote with them.                                               *)
(*                                                                          *)
(* A *program* is the sequence of successful user calls:                    *)
(*   [op |-> "page",  w, id, a]   AppendPage*/AppendPageDict on writer w of *)
(*                                a page named id with attributes a         *)
(*   [op |-> "range", w, sub]     sub := w.NewRange()                       *)
(*   [op |-> "close", w]          w.Close()                                 *)
(*   [op |-> "cb",    w, c]       w.NextPageNumber(callback c)              *)
(* Writer ids and page ids are any values of one type each.                 *)
(*                                                                          *)
(* Attributes: a = [m, c, r, s] for MediaBox, CropBox, Rotate, Resources;   *)
(* values are strings, "-" = the key is absent.                             *)
(*                                                                          *)
(* A *tree table* is a function  ref -> node  with                          *)
(*   node = [t  : "Page" | "Pages" | anything else,                         *)
(*           k  : sequence of refs (/Kids),   n : /Count,                   *)
(*           p  : ref of /Parent or the value `none`,                       *)
(*           a  : attributes found in that dictionary,                      *)
(*           id : page id (leaves)]                                         *)
EXTENDS Integers, Sequences, FiniteSets

Absent == "-"
AttrKeys == {"m", "c", "r", "s"}

---------------------------------------------------------------------------
(* Document order of a program: the pages of a range sit where NewRange    *)
(* was called.                                                             *)

IsItem(e, w) == e.w = w /\ e.op \in {"page", "range"}
RefItems(prog, w) == SelectSeq(prog, LAMBDA e : IsItem(e, w))

MinOf(S) == CHOOSE x \in S : \A y \in S : x <= y

\* flatten items[from..]: runs of pages are taken whole, ranges are expanded
RECURSIVE RefOrderOf(_, _)
RECURSIVE RefFlat(_, _, _)
RefFlat(prog, items, from) ==
  IF from > Len(items) THEN <<>>
  ELSE LET rs == {i \in from..Len(items) : items[i].op = "range"}
       IN IF rs = {} THEN SubSeq(items, from, Len(items))
          ELSE LET i == MinOf(rs)
               IN SubSeq(items, from, i - 1) \o RefOrderOf(prog, items[i].sub) \o RefFlat(prog, items, i + 1)
RefOrderOf(prog, w) == RefFlat(prog, RefItems(prog, w), 1)

\* the expected list: page entries (each has .id and .a) in document order
RefOrder(prog, root) == RefOrderOf(prog, root)

(* The page a callback registered by prog[i] refers to: the next page      *)
(* appended to the same writer; FALSE-branch: there is none.               *)
LaterPages(prog, i) == {j \in (i + 1)..Len(prog) : prog[j].op = "page" /\ prog[j].w = prog[i].w}
RefHasTarget(prog, i) == LaterPages(prog, i) # {}
RefTarget(prog, i) == prog[MinOf(LaterPages(prog, i))].id

\* 0-based position of page id in an expected list, -1 if it has no target
PosOf(order, id) == (CHOOSE i \in 1..Len(order) : order[i].id = id) - 1
RefPageNumber(prog, order, i) ==
  IF RefHasTarget(prog, i) THEN PosOf(order, RefTarget(prog, i)) ELSE 0 - 1

(* firings: sequence of [c, v] (callback c was called with v).  Every       *)
(* registered callback fires exactly once, with the final 0-based index.    *)
RefPageNumbersOK(prog, order, firings) ==
  /\ \A i \in 1..Len(prog) : prog[i].op = "cb" =>
        LET mine == SelectSeq(firings, LAMBDA f : f.c = prog[i].c)
        IN Len(mine) = 1 /\ mine[1].v = RefPageNumber(prog, order, i)
  /\ \A j \in 1..Len(firings) : \E i \in 1..Len(prog) : prog[i].op = "cb" /\ prog[i].c = firings[j].c

---------------------------------------------------------------------------
(* Attribute meaning: PDF defaults.  /Rotate absent = 0.  A page given no   *)
(* resources may carry an empty resource dictionary ("E").                  *)

NormAttr(key, v) == IF key = "r" /\ v = Absent THEN "0" ELSE v
SameAttr(key, given, eff) ==
  \/ NormAttr(key, given) = NormAttr(key, eff)
  \/ key = "s" /\ given = Absent /\ eff = "E"
SameAttrs(given, eff) == \A key \in AttrKeys : SameAttr(key, given[key], eff[key])

NoAttrs == [m |-> Absent, c |-> Absent, r |-> Absent, s |-> Absent]
Over(own, inh) == [key \in AttrKeys |-> IF own[key] # Absent THEN own[key] ELSE inh[key]]

---------------------------------------------------------------------------
(* Well-formedness of a written tree.                                      *)

\* finite depth (protects the recursive walks against cycles) and known refs
RECURSIVE TreeFinite(_, _, _)
TreeFinite(tbl, r, fuel) ==
  /\ fuel > 0
  /\ r \in DOMAIN tbl
  /\ \A i \in 1..Len(tbl[r].k) : TreeFinite(tbl, tbl[r].k[i], fuel - 1)

IsLeaf(tbl, r) == tbl[r].t # "Pages"

\* leaves below r, left to right
RECURSIVE Leaves(_, _)
RECURSIVE LeavesOfKids(_, _, _)
Leaves(tbl, r) == IF IsLeaf(tbl, r) THEN <<r>> ELSE LeavesOfKids(tbl, tbl[r].k, 1)
LeavesOfKids(tbl, ks, i) == IF i > Len(ks) THEN <<>> ELSE Leaves(tbl, ks[i]) \o LeavesOfKids(tbl, ks, i + 1)

\* all refs reachable from r (as a sequence, pre-order)
RECURSIVE Reach(_, _)
RECURSIVE ReachKids(_, _, _)
Reach(tbl, r) == <<r>> \o ReachKids(tbl, tbl[r].k, 1)
ReachKids(tbl, ks, i) == IF i > Len(ks) THEN <<>> ELSE Reach(tbl, ks[i]) \o ReachKids(tbl, ks, i + 1)

TypesOK(tbl, root) ==
  LET rs == Reach(tbl, root)
  IN /\ tbl[root].t = "Pages"                       \* the root is never a page object
     /\ \A i \in 1..Len(rs) : tbl[rs[i]].t \in {"Page", "Pages"}
     /\ \A i \in 1..Len(rs) : tbl[rs[i]].t = "Page" => tbl[rs[i]].k = <<>>

OrderOK(tbl, root, order) ==
  LET ls == Leaves(tbl, root)
  IN /\ Len(ls) = Len(order)
     /\ \A i \in 1..Len(ls) : tbl[ls[i]].id = order[i].id

\* /Count = number of leaf pages below the node
RECURSIVE CountsOK(_, _)
CountsOK(tbl, r) ==
  IF IsLeaf(tbl, r) THEN TRUE
  ELSE /\ tbl[r].n = Len(Leaves(tbl, r))
       /\ \A i \in 1..Len(tbl[r].k) : CountsOK(tbl, tbl[r].k[i])

\* /Parent of every listed kid is the node that lists it; the root has none
RECURSIVE ParentsBelow(_, _)
ParentsBelow(tbl, r) == \A i \in 1..Len(tbl[r].k) : tbl[tbl[r].k[i]].p = r /\ ParentsBelow(tbl, tbl[r].k[i])
ParentsOK(tbl, root, none) == tbl[root].p = none /\ ParentsBelow(tbl, root)

RECURSIVE FanoutOK(_, _, _)
FanoutOK(tbl, r, fan) ==
  /\ Len(tbl[r].k) <= fan
  /\ \A i \in 1..Len(tbl[r].k) : FanoutOK(tbl, tbl[r].k[i], fan)

\* effective attributes of the leaves below r (same order as Leaves)
RECURSIVE EffLeaves(_, _, _)
RECURSIVE EffKids(_, _, _, _)
EffLeaves(tbl, r, inh) ==
  IF IsLeaf(tbl, r) THEN <<Over(tbl[r].a, inh)>> ELSE EffKids(tbl, tbl[r].k, 1, Over(tbl[r].a, inh))
EffKids(tbl, ks, i, inh) == IF i > Len(ks) THEN <<>> ELSE EffLeaves(tbl, ks[i], inh) \o EffKids(tbl, ks, i + 1, inh)

EffectiveKeyOK(tbl, root, order, key) ==
  LET eff == EffLeaves(tbl, root, NoAttrs)
  IN /\ Len(eff) = Len(order)
     /\ \A i \in 1..Len(eff) : SameAttr(key, order[i].a[key], eff[i][key])
EffectiveOK(tbl, root, order) == \A key \in AttrKeys : EffectiveKeyOK(tbl, root, order, key)

MaxTreeDepth == 40
TreeOK(tbl, root, none, order, fan) ==
  /\ TreeFinite(tbl, root, MaxTreeDepth)
  /\ TypesOK(tbl, root)
  /\ OrderOK(tbl, root, order)
  /\ CountsOK(tbl, root)
  /\ ParentsOK(tbl, root, none)
  /\ FanoutOK(tbl, root, fan)
  /\ EffectiveOK(tbl, root, order)

---------------------------------------------------------------------------
(* Reading a tree that somebody else wrote.  A conforming tree (7.7.3.2,   *)
(* 7.7.3.3): finite, /Type Pages or Page, /Count = leaves below, /Parent   *)
(* = the listing node, root without /Parent.  Nothing is said about        *)
(* balance: any fan-out, /Pages nodes with one kid or with none.           *)
ConformingTree(tbl, root, none) ==
  /\ TreeFinite(tbl, root, MaxTreeDepth)
  /\ TypesOK(tbl, root)
  /\ CountsOK(tbl, root)
  /\ ParentsOK(tbl, root, none)

\* what a reader must report: the leaves in document order, each with its
\* effective attributes (7.7.3.4: nearest value on the path from the page up)
RefPages(tbl, root) ==
  LET ls == Leaves(tbl, root)
      eff == EffLeaves(tbl, root, NoAttrs)
  IN [i \in 1..Len(ls) |-> [id |-> tbl[ls[i]].id, a |-> eff[i]]]

\* /Rotate as a typed reader reports it: a multiple of 90 modulo 360
RotCanon(v) ==
  CASE v \in {"-", "0", "360", "-360", "720"} -> "0"
    [] v \in {"90", "450", "-270"} -> "90"
    [] v \in {"180", "-180", "540"} -> "180"
    [] v \in {"270", "-90", "630"} -> "270"
    [] OTHER -> v
\* decoded pages (page.Decode of what the reader returned): boxes and
\* resources as given, rotation canonical
DecodedSame(given, dec) ==
  /\ dec.m = given.m /\ dec.c = given.c
  /\ RotCanon(dec.r) = RotCanon(given.r)
  /\ SameAttr("s", given.s, dec.s)
DecodedOK(dec, order) ==
  /\ Len(dec) = Len(order)
  /\ \A i \in 1..Len(dec) : dec[i].id = order[i].id /\ DecodedSame(order[i].a, dec[i].a)

---------------------------------------------------------------------------
(* Answers of a page-tree reader, judged against the same expected list.   *)
(* seen: sequence of [id, a] as yielded by an iterator;                    *)
(* got:  sequence of [i, id, a] answers of GetPage(i) (0-based i).         *)
IterOK(seen, order) ==
  /\ Len(seen) = Len(order)
  /\ \A i \in 1..Len(seen) : seen[i].id = order[i].id /\ SameAttrs(order[i].a, seen[i].a)
GetPageOK(got, order) ==
  \A j \in 1..Len(got) :
     /\ got[j].i >= 0 /\ got[j].i < Len(order)
     /\ got[j].id = order[got[j].i + 1].id
     /\ SameAttrs(order[got[j].i + 1].a, got[j].a)
NumPagesOK(n, order) == n = Len(order)
=============================================================================
