SPECIFICATION Spec
VIEW View
CONSTANTS D = 4
  MaxPages = 13
  MaxWriters = 4
  MaxCbs = 0
  MVals = {"-"}
  CVals = {"-"}
  RVals = {"-"}
  SVals = {"-"}
  PendVals = {FALSE}
  Variant = "ok"
INVARIANTS NoPanic TailInv DepthBound EffectiveSoFar RootDone PageNumbers NoLostCallback FutInv
CHECK_DEADLOCK FALSE
