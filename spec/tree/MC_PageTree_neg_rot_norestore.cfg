\* negative control: the seeded defect "rot_norestore" of the model must violate a property
SPECIFICATION Spec
VIEW View
CONSTANTS D = 3
  MaxPages = 4
  MaxWriters = 2
  MaxCbs = 0
  MVals = {"-"}
  CVals = {"-"}
  RVals = {"-", "90"}
  SVals = {"-"}
  PendVals = {FALSE}
  Variant = "rot_norestore"
INVARIANTS NoPanic TailInv DepthBound EffectiveSoFar RootDone PageNumbers NoLostCallback FutInv
CHECK_DEADLOCK FALSE
