\* negative control: seeded defect "limitsMaxOff" must violate the properties (self-test only)
SPECIFICATION Spec
CONSTANTS F = 3
  Variant = "limitsMaxOff"
  Steps = {2}
  MaxN = 41
INVARIANTS Valid Faithful FaithfulAnyReader Enumerates EarlyExit Reentrant ReadersAgree EmptyNoTree RejectsExactly
CHECK_DEADLOCK FALSE
