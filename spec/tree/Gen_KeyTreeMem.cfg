\* stand-alone run (the driver passes Sizes / MaxSteps itself)
INIT GInit
NEXT GNext
CONSTANTS F = 64
  Variant = "asCoded"
  Sizes = {1, 2, 3, 65}
  MaxSteps = 2
  Sel = {"lo", "mid", "hi"}
