-------------------------- MODULE Gen_PageTreeShape --------------------------
(* Every ordered page-tree shape within small bounds, for the reader side   *)
(* of C16: trees the Writer would never produce (unbalanced, /Pages nodes   *)
(* with one kid or none, attributes at any level).  A tree is built in      *)
(* pre-order: a new node may only be hung below a node of the rightmost     *)
(* path, so every shape is reached by exactly one behaviour and written     *)
(* once (one line per tree on IOEnv.OUT).  Each node carries one value of   *)
(* an attribute layer (AVals, "-" = absent); the harness maps the layer to  *)
(* MediaBox, CropBox, Rotate or Resources, fills the other keys, scales     *)
(* fan-out and depth, and renders the tree with the independent serialiser. *)
(* The enumeration also cross-checks the reference walk of PageTreeRef      *)
(* (top-down EffLeaves) against the bottom-up reading of 7.7.3.4.           *)
EXTENDS PageTreeRef, Json, IOUtils, CSV, TLC
CONSTANTS MaxNodes, MaxDepth, AVals
VARIABLE tree        \* sequence of [p: parent index (0: root), t, v], pre-order

RECURSIVE DepthOf(_, _)
DepthOf(tr, i) == IF tr[i].p = 0 THEN 0 ELSE 1 + DepthOf(tr, tr[i].p)
RECURSIVE PathUp(_, _)
PathUp(tr, i) == IF i = 0 THEN {} ELSE {i} \cup PathUp(tr, tr[i].p)
RightPath(tr) == PathUp(tr, Len(tr))

Init == \E v \in AVals : tree = <<[p |-> 0, t |-> "Pages", v |-> v]>>
Add(par, t, v) ==
  /\ Len(tree) < MaxNodes
  /\ par \in RightPath(tree) /\ tree[par].t = "Pages"
  /\ DepthOf(tree, par) + 1 <= MaxDepth
  /\ tree' = Append(tree, [p |-> par, t |-> t, v |-> v])
  /\ CSVWrite("%1$s", <<ToJson([tree |-> tree'])>>, IOEnv.OUT)
Next == \E par \in 1..MaxNodes, t \in {"Page", "Pages"}, v \in AVals : Add(par, t, v)
Spec == Init /\ [][Next]_tree

\* the tree as a table of PageTreeRef (the layer sits in attribute "r")
KidsOf(tr, i) == SelectSeq([j \in 1..Len(tr) |-> j], LAMBDA j : tr[j].p = i)
RECURSIVE PagesBelow(_, _)
PagesBelow(tr, i) ==
  IF tr[i].t = "Page" THEN 1
  ELSE LET ks == KidsOf(tr, i)
           RECURSIVE Sum(_)
           Sum(n) == IF n = 0 THEN 0 ELSE PagesBelow(tr, ks[n]) + Sum(n - 1)
       IN Sum(Len(ks))
Table(tr) == [i \in 1..Len(tr) |->
   [t |-> tr[i].t, k |-> KidsOf(tr, i), n |-> PagesBelow(tr, i), p |-> tr[i].p,
    a |-> [NoAttrs EXCEPT !.r = tr[i].v], id |-> i]]

\* 7.7.3.4 read bottom-up: the value at the page, else at the nearest ancestor
RECURSIVE UpValue(_, _)
UpValue(tr, i) == IF tr[i].v # Absent \/ tr[i].p = 0 THEN tr[i].v ELSE UpValue(tr, tr[i].p)
PreorderPages(tr) == SelectSeq([j \in 1..Len(tr) |-> j], LAMBDA j : tr[j].t = "Page")

WalkAgrees ==
  LET tbl == Table(tree)
      pages == RefPages(tbl, 1)
      pre == PreorderPages(tree)
  IN /\ ConformingTree(tbl, 1, 0)
     /\ Len(pages) = Len(pre)
     /\ \A i \in 1..Len(pre) : pages[i].id = pre[i] /\ pages[i].a.r = UpValue(tree, pre[i])
=============================================================================
