-------------------------- MODULE Trace_KeyTree --------------------------
(* Judges records of the real code (nametree / numtree over                *)
(* internal/pdftree) against the reference semantics of KeyTree.  One      *)
(* record = one call of Write / WriteMap on a concrete key sequence, the   *)
(* tree found in the re-opened file (every node dictionary, extracted with *)
(* the generic object API), and the answers of the real readers:           *)
(*                                                                         *)
(*  kind     "name" | "num"                                                *)
(*  api      "Write" | "WriteMap" | "InMemory" (Write(w, t.All()) for an   *)
(*           in-memory tree value t whose map is val at that moment)       *)
(*           | "Foreign" (a conforming tree for val rendered by the        *)
(*           harness as other producers write it; only the readers are     *)
(*           go-pdf's)                                                     *)
(*  ord      the concrete keys occurring anywhere in the record (written,  *)
(*           found in the tree, probed), ascending, as byte sequences      *)
(*           (names: their bytes; integers: 8 bytes, big-endian, offset    *)
(*           2^63).  A key is referred to by its rank = index in ord.      *)
(*  val      val[r] = id of the value written for rank r, -1 if r is not a *)
(*           key of the written map (this is the map m)                    *)
(*  input    ranks in the order the caller's iterator produced them        *)
(*  accepted the call returned no error;  rootnull: it returned reference 0*)
(*  root     index of the root in nodes (0: no tree)                       *)
(*  nodes    [k: "leaf"|"inner"|"bad", e: ranks, v: value ids, c: indices  *)
(*           of the kids, l: <<>> or <<lo, hi>> (ranks)]                   *)
(*  lk, ml   answers of ExtractFromFile(..).Lookup / ExtractInMemory(..)   *)
(*           .Lookup for every rank: value id, -1 = ErrKeyNotFound, -9 =   *)
(*           not asked (only if sampled = TRUE: quick tier, big trees),    *)
(*           other negative numbers = any other outcome                    *)
(*  allk/allv, mallk/mallv   what the two All() iterators yielded          *)
(*  size     nametree.Size / numtree.Size (-1: error)                      *)
(*  nest, mnest   nested use of the streaming / in-memory reader: All()    *)
(*           consumed completely (ok/ov: keys, values as yielded) by a     *)
(*           consumer that at some entries calls Lookup on the same reader *)
(*           (lk: ranks asked, la: answers) and starts a second All() it   *)
(*           leaves after three entries (ak/av: what those yielded, ac:    *)
(*           how many were started, ap: how many of them panicked)         *)
(*  exits    early exits: [k, sk, sv, mk, mv, sp, mp] - All() of the        *)
(*           streaming (s) / in-memory (m) reader consumed by a function   *)
(*           that returns false from its k-th call on: everything it was   *)
(*           called with (keys, values), incl. calls after the stop;       *)
(*           sp/mp = 1 if a "for range" loop that breaks at its k-th       *)
(*           iteration panicked                                            *)
(*  mem      TRUE for api "InMemory"; then vallk/vallv = what t.All()      *)
(*           yielded and vl = t.Lookup for every rank, just before the     *)
(*           write (after the owner's edits of t.Data)                     *)
(*  seq      number of the record (names the file of reasons)              *)
(*                                                                         *)
(* Acceptance refers to Ref... operators only.                             *)
EXTENDS KeyTreeDefs, TraceLib

Cases == Records

\* reference order of the concrete keys: bytewise lexicographic, a proper
\* prefix first (7.9.6: "sorted lexically"); for the 8-byte integer encoding
\* this is the numeric order
RECURSIVE LexLessFrom(_, _, _)
LexLessFrom(a, b, i) ==
  IF i > Len(a) THEN i <= Len(b)
  ELSE IF i > Len(b) THEN FALSE
  ELSE IF a[i] # b[i] THEN a[i] < b[i]
  ELSE LexLessFrom(a, b, i + 1)
RefKeyLess(a, b) == LexLessFrom(a, b, 1)
OrdOK(c) == /\ \A i \in 1..Len(c.ord) - 1 : RefKeyLess(c.ord[i], c.ord[i + 1])
            /\ c.kind = "num" => \A i \in 1..Len(c.ord) : Len(c.ord[i]) = 8
            /\ \A i \in 1..Len(c.ord) : \A j \in 1..Len(c.ord[i]) : c.ord[i][j] \in 0..255

\* the written map
MapOf(c) == [r \in {r \in 1..Len(c.val) : c.val[r] >= 0} |-> c.val[r]]
Zip(ks, vs) == [i \in 1..Len(ks) |-> <<ks[i], vs[i]>>]

\* the file objects form a tree: node 1 is the root, every other node is the
\* kid of exactly one node
RECURSIVE KidList(_, _)
KidList(nodes, i) == IF i > Len(nodes) THEN <<>> ELSE nodes[i].c \o KidList(nodes, i + 1)
IsTree(c) == LET ks == KidList(c.nodes, 1)
             IN /\ c.root = 1
                /\ Len(ks) = Len(c.nodes) - 1
                /\ ToSet(ks) = 2..Len(c.nodes)
RECURSIVE Build(_, _)
Build(nodes, i) ==
  LET nd == nodes[i]
  IN [kind |-> IF nd.k \in {"leaf", "inner"} THEN nd.k ELSE "bad",
      ents |-> IF Len(nd.e) = Len(nd.v) THEN Zip(nd.e, nd.v) ELSE <<>>,
      kids |-> [j \in 1..Len(nd.c) |-> Build(nodes, nd.c[j])],
      lim |-> nd.l]

\* answers of a reader against the written map
Answers(c, ans) == /\ Len(ans) = Len(c.val)
                   /\ \A r \in 1..Len(ans) : ans[r] = c.val[r] \/ (c.sampled /\ ans[r] = -9)

\* the ascending enumeration of the written map, and the early exits against it
RefAllOf(c) == LET ks == SelectSeq([r \in 1..Len(c.val) |-> r], LAMBDA r : c.val[r] >= 0)
               IN [i \in 1..Len(ks) |-> <<ks[i], c.val[ks[i]]>>]
ExitOK(all, k, ks, vs, panicked) ==
  /\ panicked = 0
  /\ Len(ks) = Len(vs)
  /\ Zip(ks, vs) = RefPrefix(all, k)       \* exactly the first k entries, nothing after the stop
ExitParts(c) ==
  LET all == RefAllOf(c)
  IN (IF \A i \in 1..Len(c.exits) : LET e == c.exits[i] IN e.k >= 1 /\ ExitOK(all, e.k, e.sk, e.sv, e.sp)
      THEN <<>> ELSE <<"EarlyExit">>)
     \o (IF \A i \in 1..Len(c.exits) : LET e == c.exits[i] IN ExitOK(all, e.k, e.mk, e.mv, e.mp)
         THEN <<>> ELSE <<"EarlyExitInMemory">>)

\* nested use: the outer enumeration is complete and ascending, every nested answer is right
ReentrantOK(c, all, x) ==
  LET p == IF Len(all) < 3 THEN Len(all) ELSE 3
  IN /\ Len(x.ok) = Len(x.ov) /\ Zip(x.ok, x.ov) = all
     /\ Len(x.lk) = Len(x.la)
     /\ \A i \in 1..Len(x.lk) : x.la[i] = c.val[x.lk[i]]      \* RefLookup: the value id, -1 for an absent key
     /\ x.ap = 0                                                \* no nested range loop panicked on break
     /\ Len(x.ak) = x.ac * p /\ Len(x.av) = Len(x.ak)
     /\ \A j \in 1..Len(x.ak) : <<x.ak[j], x.av[j]>> = all[((j - 1) % p) + 1]
NestParts(c) ==
  LET all == RefAllOf(c)
  IN (IF ReentrantOK(c, all, c.nest) THEN <<>> ELSE <<"Reentrant">>)
     \o (IF ReentrantOK(c, all, c.mnest) THEN <<>> ELSE <<"ReentrantInMemory">>)

\* the in-memory value itself shows the map
ValueParts(c, mm) ==
  IF ~c.mem THEN <<>>
  ELSE (IF Len(c.vallk) = Len(c.vallv) /\ IsRefAll(mm, Zip(c.vallk, c.vallv)) THEN <<>> ELSE <<"ValueEnumerates">>)
       \o (IF c.vl = c.val THEN <<>> ELSE <<"ValueLookup">>)

\* the parts of the verdict, by name
Parts(c) ==
  LET mm == MapOf(c)
      n == Cardinality(DOMAIN mm)
      tree == Build(c.nodes, 1)
      U == Len(c.ord)
  IN IF ~OrdOK(c) THEN <<"HarnessOrder">>     \* the harness's ranks are not the reference order
     ELSE IF c.accepted # (c.api \in {"WriteMap", "InMemory", "Foreign"} \/ RefAccepts(c.input)) THEN <<"RejectsExactly">>
     ELSE IF ~c.accepted THEN <<>>
     ELSE IF n = 0 THEN
        ValueParts(c, mm)
        \o (IF c.rootnull /\ c.root = 0 THEN <<>> ELSE <<"EmptyNoTree">>)
        \o (IF Len(c.lk) = U /\ Len(c.ml) = U /\ \A r \in 1..U : c.lk[r] = -1 /\ c.ml[r] = -1 THEN <<>> ELSE <<"Faithful">>)
        \o (IF c.allk = <<>> /\ c.mallk = <<>> /\ c.size = 0 THEN <<>> ELSE <<"Enumerates">>)
        \o ExitParts(c)
        \o NestParts(c)
     ELSE IF c.rootnull \/ c.root = 0 THEN ValueParts(c, mm) \o <<"EmptyNoTree">>
     ELSE IF ~IsTree(c) THEN <<"Valid">>
     ELSE
        ValueParts(c, mm)
        \o (IF RefValid(tree, TRUE) THEN <<>> ELSE <<"Valid">>)
        \o (IF IsRefAll(mm, Entries(tree)) THEN <<>> ELSE <<"TreeContent">>)
        \o (IF \A r \in 1..U : RefTreeLookup(tree, r) = RefLookup(mm, r) THEN <<>> ELSE <<"TreeLookup">>)
        \o (IF Answers(c, c.lk) THEN <<>> ELSE <<"Faithful">>)
        \o (IF Answers(c, c.ml) THEN <<>> ELSE <<"FaithfulInMemory">>)
        \o (IF Len(c.allk) = Len(c.allv) /\ IsRefAll(mm, Zip(c.allk, c.allv)) THEN <<>> ELSE <<"Enumerates">>)
        \o (IF Len(c.mallk) = Len(c.mallv) /\ IsRefAll(mm, Zip(c.mallk, c.mallv)) THEN <<>> ELSE <<"EnumeratesInMemory">>)
        \o (IF /\ Len(c.lk) = U /\ Len(c.ml) = U
               /\ \A r \in 1..U : c.lk[r] = c.ml[r] \/ c.lk[r] = -9 \/ c.ml[r] = -9
               /\ c.allk = c.mallk /\ c.allv = c.mallv THEN <<>> ELSE <<"ReadersAgree">>)
        \o (IF c.size = n THEN <<>> ELSE <<"Size">>)
        \o ExitParts(c)
        \o NestParts(c)
CaseOK(c) == Parts(c) = <<>>

VARIABLES i, bad, why, done
vars == <<i, bad, why, done>>
Init == i = 1 /\ bad = <<>> /\ why = <<>> /\ done = FALSE
Step == /\ i <= Len(Cases)
        /\ i' = i + 1
        /\ LET p == Parts(Cases[i])
           IN /\ bad' = IF p = <<>> THEN bad ELSE Append(bad, i)
              /\ why' = IF p = <<>> THEN why ELSE Append(why, [seq |-> Cases[i].seq, parts |-> p])
        /\ UNCHANGED done
Finish == /\ i = Len(Cases) + 1 /\ ~done
          /\ done' = TRUE
          /\ WriteVerdict(bad)
          \* the reasons, for the harness's violation keys: one file per batch in the directory WHY
          /\ IF "WHY" \in DOMAIN IOEnv /\ Len(Cases) > 0
             THEN ndJsonSerialize(IOEnv.WHY \o "/why-" \o ToString(Cases[1].seq) \o ".ndjson", why)
             ELSE TRUE
          /\ UNCHANGED <<i, bad, why>>
Next == Step \/ Finish
Spec == Init /\ [][Next]_vars
=============================================================================
