-------------------------- MODULE Trace_PageTree --------------------------
(* Judges what the real pagetree.Writer / pagetree reader did, using only   *)
(* the reference operators of PageTreeRef (no Impl-shaped operator).  One   *)
(* record per real execution:                                               *)
(*   [fan    : the fan-out limit (16),                                      *)
(*    prog   : the successful calls, in order (see PageTreeRef),            *)
(*    root   : index of the root /Pages node in nodes (0: no tree written),  *)
(*    nodes  : the raw /Pages and /Page dictionaries found in the file by   *)
(*             following /Kids generically; /Parent as index, 0 = absent    *)
(*             (a /Parent naming an object outside the tree: -1),           *)
(*    iter   : what pagetree.Iterator.All yielded: [id, a],                 *)
(*    getpage: answers of pagetree.GetPage(i): [i, id, a],                  *)
(*    numpages: answer of pagetree.NumPages (-1: not asked),                *)
(*    fired  : the NextPageNumber callback invocations [c, v], in order]    *)
(* IOEnv.CLAUSE, or the field "clause" of a record, selects one clause of   *)
(* the property ("all", the default: every clause).                         *)
EXTENDS PageTreeRef, TraceLib

Cases == Records
Clause == IF "CLAUSE" \in DOMAIN IOEnv THEN IOEnv.CLAUSE ELSE "all"

Order(c) == RefOrder(c.prog, 1)
HasTree(c) == c.root # 0
Finite(c) == HasTree(c) /\ TreeFinite(c.nodes, c.root, MaxTreeDepth)

ClauseOK(c, order, name) ==
  CASE name = "tree"     -> HasTree(c) \/ Len(order) = 0
    [] name = "finite"   -> HasTree(c) => Finite(c)
    [] name = "types"    -> HasTree(c) => Finite(c) /\ TypesOK(c.nodes, c.root)
    [] name = "order"    -> HasTree(c) => Finite(c) /\ OrderOK(c.nodes, c.root, order)
    [] name = "counts"   -> HasTree(c) => Finite(c) /\ CountsOK(c.nodes, c.root)
    [] name = "parents"  -> HasTree(c) => Finite(c) /\ ParentsOK(c.nodes, c.root, 0)
    [] name = "fanout"   -> HasTree(c) => Finite(c) /\ FanoutOK(c.nodes, c.root, c.fan)
    [] name = "eff_m"    -> HasTree(c) => Finite(c) /\ EffectiveKeyOK(c.nodes, c.root, order, "m")
    [] name = "eff_c"    -> HasTree(c) => Finite(c) /\ EffectiveKeyOK(c.nodes, c.root, order, "c")
    [] name = "eff_r"    -> HasTree(c) => Finite(c) /\ EffectiveKeyOK(c.nodes, c.root, order, "r")
    [] name = "eff_s"    -> HasTree(c) => Finite(c) /\ EffectiveKeyOK(c.nodes, c.root, order, "s")
    [] name = "iter"     -> HasTree(c) => IterOK(c.iter, order)
    [] name = "getpage"  -> HasTree(c) => GetPageOK(c.getpage, order)
    [] name = "numpages" -> (HasTree(c) /\ c.numpages >= 0) => NumPagesOK(c.numpages, order)
    [] name = "callbacks" -> RefPageNumbersOK(c.prog, order, c.fired)

AllClauses == <<"tree", "finite", "types", "order", "counts", "parents", "fanout",
                "eff_m", "eff_c", "eff_r", "eff_s", "iter", "getpage", "numpages", "callbacks">>
(* Records of kind "reader": a foreign conforming tree (nodes/root: the     *)
(* tree as it was handed to the independent serialiser, in the file's      *)
(* final revision) and what the real reader answered for the rendered      *)
(* file: iter, getpage, numpages as above, dec: page.Decode of each page   *)
(* the iterator yielded ([id, a]).  The expectation is RefPages of the     *)
(* given tree.                                                             *)
IsReader(c) == "kind" \in DOMAIN c /\ c.kind = "reader"
ReaderClauses == <<"premise", "r_iter", "r_getpage", "r_numpages", "r_decode">>
ReaderClauseOK(c, name) ==
  LET pages == RefPages(c.nodes, c.root) IN
  CASE name = "premise"    -> ConformingTree(c.nodes, c.root, 0)
    [] name = "r_iter"     -> IterOK(c.iter, pages)
    [] name = "r_getpage"  -> GetPageOK(c.getpage, pages)
    [] name = "r_numpages" -> NumPagesOK(c.numpages, pages)
    [] name = "r_decode"   -> DecodedOK(c.dec, pages)
    [] OTHER -> TRUE
ReaderOK(c, cl) ==
  IF cl = "all" THEN ConformingTree(c.nodes, c.root, 0) /\ \A j \in 1..Len(ReaderClauses) : ReaderClauseOK(c, ReaderClauses[j])
  ELSE ReaderClauseOK(c, cl)

\* a record may name the clause it is to be judged by (field "clause")
ClauseOf(c) == IF "clause" \in DOMAIN c THEN c.clause ELSE Clause
CaseOK(c) ==
  IF IsReader(c) THEN ReaderOK(c, ClauseOf(c)) ELSE
  LET order == Order(c)
  IN IF ClauseOf(c) = "all" THEN \A j \in 1..Len(AllClauses) : ClauseOK(c, order, AllClauses[j])
     ELSE ClauseOK(c, order, ClauseOf(c))

VARIABLES i, bad, done
vars == <<i, bad, done>>
Init == i = 1 /\ bad = <<>> /\ done = FALSE
Step == /\ i <= Len(Cases)
        /\ i' = i + 1
        /\ bad' = IF CaseOK(Cases[i]) THEN bad ELSE Append(bad, i)
        /\ UNCHANGED done
Finish == /\ i = Len(Cases) + 1 /\ ~done
          /\ done' = TRUE
          /\ WriteVerdict(bad)
          /\ UNCHANGED <<i, bad>>
Next == Step \/ Finish
Spec == Init /\ [][Next]_vars
=============================================================================
