\* thorough: F=2, all gap patterns (steps 2 or 4), inputs of 0..14 keys
SPECIFICATION Spec
CONSTANTS F = 2
  Variant = "asCoded"
  Steps = {2, 4}
  MaxN = 14
INVARIANTS Valid Faithful FaithfulAnyReader Enumerates EarlyExit ReadersAgree EmptyNoTree RejectsExactly MachineIsFunction TailShape NothingLost TailValid Bounded CapIsDead RootDepthPositive
CHECK_DEADLOCK FALSE
