SPECIFICATION Spec
VIEW View
CONSTANTS D = 2
  MaxPages = 6
  MaxWriters = 5
  MaxCbs = 0
  MVals = {"-"}
  CVals = {"-"}
  RVals = {"-"}
  SVals = {"-"}
  PendVals = {FALSE}
  Variant = "ok"
INVARIANTS NoPanic TailInv DepthBound EffectiveSoFar RootDone PageNumbers NoLostCallback FutInv
CHECK_DEADLOCK FALSE
