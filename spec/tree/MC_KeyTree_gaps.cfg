\* F=2, all gap patterns: consecutive accepted keys differ by 2 or 4, inputs of 0..11 keys
SPECIFICATION Spec
CONSTANTS F = 2
  Variant = "asCoded"
  Steps = {2, 4}
  MaxN = 11
INVARIANTS Valid Faithful FaithfulAnyReader Enumerates EarlyExit Reentrant ReadersAgree EmptyNoTree RejectsExactly MachineIsFunction TailShape NothingLost TailValid Bounded CapIsDead RootDepthPositive
CHECK_DEADLOCK FALSE
