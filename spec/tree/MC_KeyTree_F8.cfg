\* thorough: F=8, inputs of 0..586 keys (Reentrant is checked for F = 2, 3, 4 and the gap models only: its cost grows with N^2)
SPECIFICATION Spec
CONSTANTS F = 8
  Variant = "asCoded"
  Steps = {2}
  MaxN = 586
INVARIANTS Valid Faithful FaithfulAnyReader Enumerates EarlyExit ReadersAgree EmptyNoTree RejectsExactly MachineIsFunction TailShape NothingLost TailValid Bounded CapIsDead RootDepthPositive
PROPERTIES Terminates
CHECK_DEADLOCK FALSE
