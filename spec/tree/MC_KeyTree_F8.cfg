\* thorough: F=8, inputs of 0..586 keys
SPECIFICATION Spec
CONSTANTS F = 8
  Variant = "asCoded"
  Steps = {2}
  MaxN = 586
INVARIANTS Valid Faithful FaithfulAnyReader Enumerates EarlyExit Reentrant ReadersAgree EmptyNoTree RejectsExactly MachineIsFunction TailShape NothingLost TailValid Bounded CapIsDead RootDepthPositive
PROPERTIES Terminates
CHECK_DEADLOCK FALSE
