---------------------------- MODULE MC_PageTree ----------------------------
(* Bounded exhaustive check of PageTree: all interleavings of AppendPage,   *)
(* NewRange, Close and NextPageNumber within the constants of the .cfg.     *)
(* The configurations split the attribute space by key (inherit treats the  *)
(* keys independently and the tree shape does not depend on attributes):    *)
(*   *_struct  shape only (all attributes absent), most pages                *)
(*   *_box     MediaBox over {-, A, B} (inheritKey; CropBox is the same code)*)
(*   *_rot     Rotate over {-, 0, 90} (inheritRotate)                        *)
(*   *_mix     MediaBox x Rotate x pending/encoded pages, fewer pages        *)
(*   *_cb      NextPageNumber callbacks and the futureInt chains             *)
EXTENDS PageTree
=============================================================================
