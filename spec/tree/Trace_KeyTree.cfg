SPECIFICATION Spec
CONSTANTS F = 64
  Variant = "asCoded"
CHECK_DEADLOCK FALSE
