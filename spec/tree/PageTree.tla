------------------------------ MODULE PageTree ------------------------------
(* Implementation-shaped model of pagetree.Writer (go-pdf, pagetree/         *)
(* writer.go, subtree.go, future.go) with fan-out D (maxDegree; 16 in the   *)
(* code).  One action per code path:                                         *)
(*   AppendPage(w, at, pend)  AppendPageDict (pend = FALSE) and              *)
(*                            AppendPage/AppendPageRef (pend = TRUE: the     *)
(*                            page.Page is encoded when its parent is known) *)
(*   NewRange(w)              incl. the internal `before` writer             *)
(*   Close(w)                 closes open children, subtree.go:merge,        *)
(*                            root: collapse + wrapIfLeaf                    *)
(*   NextPageNumber(w)        open writer: queued; closed writer: cb(-1)     *)
(* mergeNodes / inherit / inheritKey / inheritRotate are transcribed;        *)
(* which of several equally good values inheritKey hoists depends on Go's    *)
(* map iteration order, so all helpers are set valued (every outcome).       *)
(* The futureInt objects behind NextPageNumber are modelled one to one.      *)
(*                                                                           *)
(* The properties are stated with the reference operators of PageTreeRef.    *)
(*                                                                           *)
(* Abstractions: object numbers are replaced by canonical node names         *)
(* (leftmost page, page count); errors of the underlying pdf.Writer and the  *)
(* flushing of finished objects are not modelled; /AA (hoisted only below    *)
(* PDF 1.3) is a further instance of InheritKey and not modelled separately. *)
EXTENDS PageTreeRef, TLC

CONSTANTS D,            \* fan-out (maxDegree)
          MaxPages,     \* pages per behaviour
          MaxWriters,   \* writer objects, including internal `before` writers
          MaxCbs,       \* NextPageNumber calls per behaviour
          MVals, CVals, RVals, SVals,   \* attribute values offered to AppendPage
          PendVals,     \* subset of BOOLEAN: which append flavours are offered
          Variant       \* "ok": the code as it is; other values: seeded defects of the
                        \* model (negative controls showing that the properties bite)

ASSUME D \in Nat /\ D >= 2

W == 1..MaxWriters
Max(a, b) == IF a > b THEN a ELSE b

\* length of the textual form of a value, as used by inheritKey's cost estimate
Size(v) == CASE v = "0" -> 1 [] v = "90" -> 2 [] v = "180" -> 3 [] v = "270" -> 3
             [] v = "B2" -> 14 [] OTHER -> 13
KeyLen == [m |-> 11, c |-> 10, r |-> 9]        \* len("/" + key + " " + ... + "\n")

---------------------------------------------------------------------------
(* Nodes.  ref/par name objects: a page is [f |-> page id, c |-> 0], a      *)
(* /Pages node [f |-> its leftmost page, c |-> its page count] (unique,     *)
(* because every merge joins at least two nodes).                           *)
NoPage == <<0, 0>>
NoRef == [f |-> NoPage, c |-> 0 - 1]
PageNode(pid, at, pend) ==
  [t |-> "Page", ref |-> [f |-> pid, c |-> 0], par |-> NoRef, d |-> 0, c |-> 1, k |-> <<>>, a |-> at, pend |-> pend]
BAD == [t |-> "BAD", ref |-> NoRef, par |-> NoRef, d |-> 0 - 1, c |-> 0, k |-> <<>>, a |-> NoAttrs, pend |-> FALSE]
HasBad(s) == \E i \in 1..Len(s) : s[i].t = "BAD"
At(s, i) == s[i + 1]                       \* 0-based access, as in the Go code

RECURSIVE SumC(_)
SumC(s) == IF s = <<>> THEN 0 ELSE Head(s).c + SumC(Tail(s))
RECURSIVE MaxD(_)
MaxD(s) == IF s = <<>> THEN 0 ELSE Max(Head(s).d, MaxD(Tail(s)))
Idx(s) == 1..Len(s)

---------------------------------------------------------------------------
(* subtree.go: inherit.  Each operator returns the set of possible          *)
(* [pv |-> value for the parent ("-" = none), ch |-> children afterwards].  *)

InheritKeyS(key, ch) ==
  IF \/ (\E i \in Idx(ch) : ch[i].a[key] = Absent) /\ Variant # "key_skipabsent"
     \/ \A i \in Idx(ch) : ch[i].a[key] = Absent
  THEN {[pv |-> Absent, ch |-> ch]}       \* "there is no way to override an inherited value with unset"
  ELSE LET V == {ch[i].a[key] : i \in Idx(ch)}
           cnt(v) == Cardinality({i \in Idx(ch) : ch[i].a[key] = v})
           diff(v) == (1 - cnt(v)) * (KeyLen[key] + Size(v))
           best == {v \in V \ {Absent} : \A u \in V : diff(v) <= diff(u)}   \* first minimum in map order
       IN {[pv |-> v,
            ch |-> [i \in Idx(ch) |-> IF ch[i].a[key] = v THEN [ch[i] EXCEPT !.a[key] = Absent] ELSE ch[i]]]
           : v \in best}

InheritRotateS(ch) ==
  LET repr(i) == IF ch[i].a.r = Absent THEN "0" ELSE ch[i].a.r
      numDefault == Cardinality({i \in Idx(ch) : repr(i) = "0"})
      \* an explicit default is deleted from the child straight away
      ch1 == [i \in Idx(ch) |-> IF ch[i].a.r = "0" THEN [ch[i] EXCEPT !.a.r = Absent] ELSE ch[i]]
      NonDef == {repr(i) : i \in Idx(ch)} \ {"0"}
      cnt(v) == Cardinality({i \in Idx(ch) : repr(i) = v})
      diff(v) == (KeyLen.r + Size(v)) - cnt(v) * (KeyLen.r + Size(v)) + numDefault * (KeyLen.r + 1)
      cand == {v \in NonDef : diff(v) <= 0}
      best == {v \in cand : \A u \in cand : diff(v) <= diff(u)}   \* "<=": last minimum in map order
  IN IF best = {}
     THEN {[pv |-> IF numDefault # 0 THEN "0" ELSE Absent, ch |-> ch1]}
     ELSE {[pv |-> v,
            ch |-> [i \in Idx(ch) |-> IF repr(i) = v THEN [ch1[i] EXCEPT !.a.r = Absent]
                                      ELSE IF repr(i) = "0" /\ Variant # "rot_norestore" THEN [ch1[i] EXCEPT !.a.r = "0"]
                                      ELSE ch1[i]]]
           : v \in best}

\* inherit: MediaBox, CropBox, Rotate; /Resources is never hoisted
InheritS(ch) ==
  UNION {UNION {{[a |-> [m |-> x.pv, c |-> y.pv, r |-> z.pv, s |-> Absent], ch |-> z.ch]
                 : z \in InheritRotateS(y.ch)}
                : y \in InheritKeyS("c", x.ch)}
         : x \in InheritKeyS("m", ch)}

---------------------------------------------------------------------------
(* subtree.go: mergeNodes(nodes, a, b) -- a, b as in the Go code (0-based,  *)
(* half open).  <<BAD>> marks the panic.                                    *)
Encode(n, pref) ==
  \* pending page.Page: Parent is set, nil Resources become an empty dictionary
  [n EXCEPT !.par = pref,
            !.a.s = IF n.pend /\ @ = Absent THEN "E" ELSE @,
            !.pend = FALSE]

MergeNodesS(nodes, a, b) ==
  IF a < 0 \/ b > Len(nodes) \/ b - a < 2 \/ b - a > D THEN {<<BAD>>}
  ELSE LET ch0 == SubSeq(nodes, a + 1, b)
           cnt == IF Variant = "count_kids" THEN Len(ch0) ELSE SumC(ch0)
           pref == [f |-> ch0[1].ref.f, c |-> cnt]
           ch1 == [i \in Idx(ch0) |-> Encode(ch0[i], pref)]
       IN {SubSeq(nodes, 1, a)
             \o <<[t |-> "Pages", ref |-> pref, par |-> NoRef, d |-> MaxD(ch0) + 1, c |-> cnt,
                   k |-> h.ch, a |-> h.a, pend |-> FALSE]>>
             \o SubSeq(nodes, b + 1, Len(nodes))
           : h \in InheritS(ch1)}

\* "start := max(len-D, 0); for start > 0 && a[start-1].depth == a[start].depth { start++ }"
RECURSIVE SkipRun(_, _)
SkipRun(a, start) ==
  IF start > 0 /\ start < Len(a) /\ At(a, start - 1).d = At(a, start).d THEN SkipRun(a, start + 1) ELSE start

\* subtree.go: mergeLast -- the step shared by collapse and by the first loop
\* of merge: "merge the last (up to D) nodes, but do not split a run of equal
\* depth".  When the last node stands alone behind a full run of D nodes of
\* equal depth (merge can leave such a tail, e.g. depths <<2 x 16, 0>>), that
\* run is merged first.  Variant "pre_fix_lone" is the code before commit
\* 85b29fa: there the start index ran up to the last node and mergeNodes was
\* called with a single node -- its panic.  TLC found this in the model
\* (NoPanic, D = 2, 12 pages); it is kept as a negative control.
MergeLastS(t) ==
  LET n == Len(t)
      start == SkipRun(t, Max(n - D, 0))
  IN IF Variant # "pre_fix_lone" /\ n - start < 2 THEN MergeNodesS(t, n - 1 - D, n - 1)
     ELSE MergeNodesS(t, start, n)

\* writer.go: the loop at the end of AppendPage*/AppendPageDict
RECURSIVE AppendLoopS(_)
AppendLoopS(t) ==
  LET n == Len(t)
  IN IF ~HasBad(t) /\ n >= D /\ t[n].d = At(t, n - D).d
     THEN UNION {AppendLoopS(t2) : t2 \in MergeNodesS(t, n - D, n)}
     ELSE {t}

\* writer.go: collapse ("for len(w.tail) > 1 { w.tail = w.mergeLast(w.tail) }")
RECURSIVE CollapseS(_)
CollapseS(t) ==
  IF Len(t) > 1 /\ ~HasBad(t)
  THEN UNION {CollapseS(t2) : t2 \in MergeLastS(t)}
  ELSE {t}

\* subtree.go: merge(a, b)
RECURSIVE MergePhase1S(_, _)
MergePhase1S(a, nextDepth) ==
  IF HasBad(a) THEN {a}
  ELSE IF Len(a) > 1 /\ a[Len(a)].d < nextDepth
  THEN UNION {MergePhase1S(a2, nextDepth) : a2 \in MergeLastS(a)}
  ELSE {a}

RECURSIVE Back(_, _, _)
Back(a, start, depth) == IF start > 0 /\ At(a, start - 1).d = depth THEN Back(a, start - 1, depth) ELSE start
RECURSIVE Fwd(_, _, _)
Fwd(a, end, depth) == IF end < Len(a) /\ At(a, end).d = depth THEN Fwd(a, end + 1, depth) ELSE end

\* "for end >= start+maxDegree": set of <<a, start, end, changed>>
RECURSIVE InnerS(_, _, _, _)
InnerS(a, start, end, changed) ==
  IF ~HasBad(a) /\ end >= start + D
  THEN UNION {InnerS(a2, start + 1, end - (D - 1), TRUE) : a2 \in MergeNodesS(a, start, start + D)}
  ELSE {<<a, start, end, changed>>}

\* "for depth := nextDepth; ; depth++"
RECURSIVE OuterS(_, _, _, _, _)
OuterS(a, start, end, depth, prevDepth) ==
  UNION {LET a2 == r[1]  s2 == r[2]  ch == r[4]
         IN IF HasBad(a2) \/ (depth >= prevDepth /\ ~ch) \/ s2 = 0 THEN {a2}
            ELSE OuterS(a2, Back(a2, s2, depth + 1), s2, depth + 1, prevDepth)
         : r \in InnerS(a, start, end, FALSE)}

MergeS(a0, b) ==
  IF a0 = <<>> THEN {b} ELSE IF b = <<>> THEN {a0} ELSE
  LET nextDepth == b[1].d
  IN UNION {IF HasBad(a1) THEN {a1} ELSE
            LET a2 == IF Len(a1) = 1 /\ a1[1].d < nextDepth THEN <<[a1[1] EXCEPT !.d = nextDepth]>> ELSE a1
                prevDepth == a2[Len(a2)].d
                pos == Len(a2)
                a3 == a2 \o b
                start == Back(a3, pos, prevDepth)
                end == Fwd(a3, pos + 1, nextDepth)
            IN OuterS(a3, start, end, nextDepth, prevDepth)
            : a1 \in MergePhase1S(a0, nextDepth)}

\* writer.go: wrapIfLeaf
WrapIfLeaf(n) ==
  IF n.t = "Pages" THEN n
  ELSE LET wref == [f |-> n.ref.f, c |-> 1]
       IN [t |-> "Pages", ref |-> wref, par |-> NoRef, d |-> 1, c |-> 1,
           k |-> <<Encode(n, wref)>>, a |-> NoAttrs, pend |-> FALSE]

---------------------------------------------------------------------------
(* future.go.  fut: sequence of [val, miss, cb]; a callback is              *)
(* [k |-> "u", i |-> user callback id] or [k |-> "f", i |-> future whose    *)
(* Update is to be called].  st = [fut, fired].                             *)
RECURSIVE Call(_, _, _)
RECURSIVE CallAll(_, _, _)
RECURSIVE Update(_, _, _)
Call(st, cb, v) ==
  IF cb.k = "u" THEN [st EXCEPT !.fired[cb.i] = Append(@, v)] ELSE Update(st, cb.i, v)
CallAll(st, cbs, v) == IF cbs = <<>> THEN st ELSE CallAll(Call(st, Head(cbs), v), Tail(cbs), v)
Update(st, f, n) ==
  LET F == st.fut[f]
      miss2 == F.miss - 1
      val2 == IF n < 0 \/ F.val < 0 THEN 0 - 1 ELSE F.val + n
      st1 == [st EXCEPT !.fut[f].miss = miss2, !.fut[f].val = val2]
  IN IF miss2 = 0 \/ val2 < 0
     THEN LET st2 == CallAll(st1, F.cb, val2) IN [st2 EXCEPT !.fut[f].cb = <<>>]
     ELSE st1
WhenAvailable(st, f, cb) ==
  IF st.fut[f].miss = 0 THEN Call(st, cb, st.fut[f].val)
  ELSE [st EXCEPT !.fut[f].cb = Append(@, cb)]
RECURSIVE WhenAvailableAll(_, _, _)
WhenAvailableAll(st, f, cs) ==
  IF cs = <<>> THEN st ELSE WhenAvailableAll(WhenAvailable(st, f, [k |-> "u", i |-> Head(cs)]), f, Tail(cs))
\* Inc: in place when nobody waits, else a new future that waits for the old one
Inc(st, f) ==
  IF st.fut[f].cb = <<>> \/ Variant = "inc_inplace" THEN [st |-> [st EXCEPT !.fut[f].val = @ + 1], id |-> f]
  ELSE LET g == Len(st.fut) + 1
           st1 == [st EXCEPT !.fut = Append(@, [val |-> 1, miss |-> 1, cb |-> <<>>])]
       IN [st |-> WhenAvailable(st1, f, [k |-> "f", i |-> g]), id |-> g]

---------------------------------------------------------------------------
VARIABLES
  nw,        \* number of writer objects created
  tail,      \* writer -> sequence of finished subtrees
  children,  \* writer -> sequence of sub-writers (page order)
  closed,    \* writer -> isClosed
  parent,    \* writer -> parent writer (0: root)
  hidden,    \* the internal `before` writers: the caller has no handle on them
  pos, cnt,  \* sub-range s is item pos[s] of its parent; cnt[w] items so far
  npn,       \* writer -> its nextPageNumber future (0: nil)
  cbs,       \* writer -> queued NextPageNumber callbacks (ids)
  npcb,      \* writer -> futures to Update with the page count at Close (numPagesCb)
  fut,       \* the futureInt objects
  fired,     \* user callback -> sequence of values it was called with
  target,    \* user callback -> page it refers to (NoPage: none)   [specification variable]
  ncb,       \* callbacks registered
  npages,    \* pages appended
  given      \* page id -> attributes it was given                  [ghost, hidden by View]
vars == <<nw, tail, children, closed, parent, hidden, pos, cnt, npn, cbs, npcb, fut, fired, target, ncb, npages, given>>
\* `given` is determined by the rest of the state as long as EffectiveSoFar
\* holds (the written dictionaries still carry every value, up to /Rotate
\* absent = 0), so hiding it loses no behaviour.
View == <<nw, tail, children, closed, parent, hidden, pos, cnt, npn, cbs, npcb, fut, fired, target, ncb, npages>>

Attrs == [m : MVals, c : CVals, r : RVals, s : SVals]

Init ==
  /\ nw = 1
  /\ tail = [w \in W |-> <<>>] /\ children = [w \in W |-> <<>>]
  /\ closed = [w \in W |-> FALSE] /\ parent = [w \in W |-> 0]
  /\ hidden = {} /\ pos = [w \in W |-> 0] /\ cnt = [w \in W |-> 0]
  /\ npn = [w \in W |-> IF w = 1 THEN 1 ELSE 0]
  /\ cbs = [w \in W |-> <<>>] /\ npcb = [w \in W |-> <<>>]
  /\ fut = <<[val |-> 0, miss |-> 0, cb |-> <<>>]>>
  /\ fired = [c \in 1..MaxCbs |-> <<>>] /\ target = [c \in 1..MaxCbs |-> NoPage]
  /\ ncb = 0 /\ npages = 0 /\ given = <<>>

Handle(w) == w <= nw /\ w \notin hidden          \* the caller can name this writer
Live(w) == Handle(w) /\ ~closed[w]
InSeq(x, s) == \E i \in Idx(s) : s[i] = x

AppendPage(w, at, pend) ==
  /\ Live(w) /\ npages < MaxPages
  /\ LET pid == <<w, cnt[w] + 1>>
         st1 == WhenAvailableAll([fut |-> fut, fired |-> fired], npn[w], cbs[w])
         inc == Inc(st1, npn[w])
     IN /\ \E t2 \in AppendLoopS(Append(tail[w], PageNode(pid, at, pend))) : tail' = [tail EXCEPT ![w] = t2]
        /\ fut' = inc.st.fut /\ fired' = inc.st.fired
        /\ npn' = [npn EXCEPT ![w] = inc.id]
        /\ target' = [c \in DOMAIN target |-> IF InSeq(c, cbs[w]) THEN pid ELSE target[c]]
        /\ given' = given @@ (pid :> at)
  /\ cbs' = [cbs EXCEPT ![w] = <<>>]
  /\ cnt' = [cnt EXCEPT ![w] = @ + 1]
  /\ npages' = npages + 1
  /\ UNCHANGED <<nw, children, closed, parent, hidden, pos, npcb, ncb>>

NewRange(w) ==
  /\ Live(w)
  /\ LET hasBefore == tail[w] # <<>>
         b == nw + 1                               \* the `before` writer, if any
         s == IF hasBefore THEN nw + 2 ELSE nw + 1 \* the new sub-range
         g == Len(fut) + 1                         \* &futureInt{numMissing: 2}
         st0 == [fut |-> Append(fut, [val |-> 0, miss |-> 2, cb |-> <<>>]), fired |-> fired]
         st1 == WhenAvailable(st0, npn[w], [k |-> "f", i |-> g])
     IN /\ s <= MaxWriters
        /\ nw' = s
        /\ tail' = IF hasBefore THEN [tail EXCEPT ![w] = <<>>, ![b] = tail[w]] ELSE tail
        /\ hidden' = IF hasBefore THEN hidden \cup {b} ELSE hidden
        /\ children' = [children EXCEPT ![w] = IF hasBefore THEN @ \o <<b, s>> ELSE Append(@, s)]
        /\ parent' = [x \in W |-> IF x = s \/ (hasBefore /\ x = b) THEN w ELSE parent[x]]
        /\ npn' = [npn EXCEPT ![s] = npn[w], ![w] = g]
        /\ npcb' = [npcb EXCEPT ![s] = <<g>>]
        /\ fut' = st1.fut /\ fired' = st1.fired
        /\ pos' = [pos EXCEPT ![s] = cnt[w] + 1]
        /\ cnt' = [cnt EXCEPT ![w] = @ + 1]
  /\ UNCHANGED <<closed, cbs, target, ncb, npages, given>>

\* writers closed by Close(w): w and everything below that is still open
RECURSIVE Desc(_)
Desc(w) == {w} \cup UNION {Desc(children[w][i]) : i \in Idx(children[w])}

RECURSIVE PagesOf(_)
RECURSIVE PagesOfAll(_)
PagesOf(w) == SumC(tail[w]) + PagesOfAll(children[w])
PagesOfAll(cs) == IF cs = <<>> THEN 0 ELSE PagesOf(Head(cs)) + PagesOfAll(Tail(cs))

\* the possible tails of w after Close(w)
RECURSIVE ClosedTailS(_)
RECURSIVE FoldChildrenS(_, _)
FoldChildrenS(cs, nodes) ==
  IF cs = <<>> THEN {nodes}
  ELSE UNION {UNION {FoldChildrenS(Tail(cs), m) : m \in (IF Variant = "merge_swapped" THEN MergeS(ct, nodes) ELSE MergeS(nodes, ct))}
              : ct \in (IF closed[Head(cs)] THEN {tail[Head(cs)]} ELSE ClosedTailS(Head(cs)))}
ClosedTailS(w) == UNION {MergeS(nodes, tail[w]) : nodes \in FoldChildrenS(children[w], <<>>)}

\* the callbacks run by Close(w), in the order of the code
RECURSIVE CloseFx(_, _)
RECURSIVE CloseFxAll(_, _)
CloseFxAll(st, cs) ==
  IF cs = <<>> THEN st
  ELSE CloseFxAll(IF closed[Head(cs)] THEN st ELSE CloseFx(st, Head(cs)), Tail(cs))
RECURSIVE FireUsers(_, _, _)
FireUsers(st, cs, v) == IF cs = <<>> THEN st ELSE FireUsers(Call(st, [k |-> "u", i |-> Head(cs)], v), Tail(cs), v)
CloseFx(st, w) ==
  LET st1 == CloseFxAll(st, children[w])
      st2 == CallAll(st1, [i \in Idx(npcb[w]) |-> [k |-> "f", i |-> npcb[w][i]]], PagesOf(w))
  IN FireUsers(st2, cbs[w], 0 - 1)

Close(w) ==
  /\ Live(w)
  /\ LET ds == Desc(w)
         st == CloseFx([fut |-> fut, fired |-> fired], w)
     IN /\ \E t \in ClosedTailS(w) :
             \E t2 \in (IF w = 1 THEN CollapseS(t) ELSE {t}) :
                LET t3 == IF w = 1 /\ t2 # <<>> /\ ~HasBad(t2) THEN <<WrapIfLeaf(t2[1])>> ELSE t2
                IN tail' = [x \in W |-> IF x = w THEN t3 ELSE IF x \in ds THEN <<>> ELSE tail[x]]
        /\ closed' = [x \in W |-> closed[x] \/ x \in ds]
        /\ children' = [x \in W |-> IF x \in ds THEN <<>> ELSE children[x]]
        /\ cbs' = [x \in W |-> IF x \in ds THEN <<>> ELSE cbs[x]]
        /\ fut' = st.fut /\ fired' = st.fired
  /\ UNCHANGED <<nw, parent, hidden, pos, cnt, npn, npcb, target, ncb, npages, given>>

NextPageNumber(w) ==
  /\ Handle(w) /\ ncb < MaxCbs
  /\ ncb' = ncb + 1
  /\ IF closed[w]
     THEN /\ fired' = [fired EXCEPT ![ncb + 1] = Append(@, 0 - 1)]     \* "there will be no next page"
          /\ UNCHANGED cbs
     ELSE /\ cbs' = [cbs EXCEPT ![w] = Append(@, ncb + 1)]
          /\ UNCHANGED fired
  /\ UNCHANGED <<nw, tail, children, closed, parent, hidden, pos, cnt, npn, npcb, fut, target, npages, given>>

Next ==
  \E w \in W : \/ \E at \in Attrs, pend \in PendVals : AppendPage(w, at, pend)
               \/ NewRange(w)
               \/ Close(w)
               \/ NextPageNumber(w)
Spec == Init /\ [][Next]_vars

---------------------------------------------------------------------------
(* Properties.                                                              *)

\* the document order the caller asked for: item k of writer w is either the
\* sub-range opened at that position or the page <<w, k>>
RECURSIVE ExpOrder(_)
RECURSIVE ExpItems(_, _)
SubAt(w, k) == {s \in 1..nw : parent[s] = w /\ s \notin hidden /\ pos[s] = k}
ExpItems(w, k) ==
  IF k > cnt[w] THEN <<>>
  ELSE (IF SubAt(w, k) # {} THEN ExpOrder(CHOOSE s \in SubAt(w, k) : TRUE)
        ELSE <<[id |-> <<w, k>>, a |-> given[<<w, k>>]]>>) \o ExpItems(w, k + 1)
ExpOrder(w) == ExpItems(w, 1)

\* a (nested) subtree as a tree table of PageTreeRef
RECURSIVE Flat(_)
RECURSIVE FlatAll(_)
Flat(n) ==
  (n.ref :> [t |-> n.t, k |-> [i \in Idx(n.k) |-> n.k[i].ref], n |-> n.c, p |-> n.par, a |-> n.a, id |-> n.ref.f])
  @@ FlatAll(n.k)
FlatAll(s) == IF s = <<>> THEN <<>> ELSE Flat(Head(s)) @@ FlatAll(Tail(s))

\* mergeNodes never panics
NoPanic == \A w \in W : ~HasBad(tail[w])

\* the code's own checkInvariants: depths weakly decreasing, at most D per depth
TailInv ==
  \A w \in W : /\ \A i \in 1..Len(tail[w]) - 1 : tail[w][i].d >= tail[w][i + 1].d
               /\ \A i \in Idx(tail[w]) : Cardinality({j \in Idx(tail[w]) : tail[w][j].d = tail[w][i].d}) <= D
\* the field comment's stronger claim ("at most maxDegree-1 subtrees of this depth");
\* not an invariant: TLC finds tails of a closed sub-range with D nodes of one
\* depth (D = 2: depths <<2, 2>> after merge), which checkInvariants allows and
\* which is harmless (collapse/merge cope).  Kept for documentation, not checked.
TailInvStrict ==
  \A w \in W : \A i \in Idx(tail[w]) : Cardinality({j \in Idx(tail[w]) : tail[w][j].d = tail[w][i].d}) < D
\* depth is an upper bound of the real height
RECURSIVE Height(_)
RECURSIVE MaxHeight(_)
Height(n) == IF n.k = <<>> THEN 0 ELSE 1 + MaxHeight(n.k)
MaxHeight(s) == IF s = <<>> THEN 0 ELSE Max(Height(Head(s)), MaxHeight(Tail(s)))
DepthBound == \A w \in W : \A i \in Idx(tail[w]) : tail[w][i].t # "BAD" => Height(tail[w][i]) <= tail[w][i].d

\* every finished subtree is a well-formed piece of the final tree, and the
\* pages in it still mean what they were given (this also justifies View)
SubtreeOK(n) ==
  LET tbl == Flat(n)
      ls == Leaves(tbl, n.ref)
      order == [i \in Idx(ls) |-> [id |-> tbl[ls[i]].id, a |-> given[tbl[ls[i]].id]]]
  IN /\ TreeFinite(tbl, n.ref, MaxTreeDepth)
     /\ CountsOK(tbl, n.ref)
     /\ ParentsOK(tbl, n.ref, NoRef)
     /\ FanoutOK(tbl, n.ref, D)
     /\ EffectiveOK(tbl, n.ref, order)
EffectiveSoFar == \A w \in W : \A i \in Idx(tail[w]) : tail[w][i].t # "BAD" => SubtreeOK(tail[w][i])

\* at root close: Order, Counts, Parents, Fanout, Effective
RootClosed == closed[1]
RootDone ==
  RootClosed =>
    IF npages = 0 THEN tail[1] = <<>>            \* "no pages in document"
    ELSE /\ Len(tail[1]) = 1
         /\ TreeOK(Flat(tail[1][1]), tail[1][1].ref, NoRef, ExpOrder(1), D)
         /\ \A w \in W : w # 1 => tail[w] = <<>>
         /\ \A w \in 1..nw : closed[w]

\* callbacks: never twice; once fired the value is already the final index;
\* after root close every callback has fired
PageNumberOf(c) == IF target[c] = NoPage THEN 0 - 1 ELSE PosOf(ExpOrder(1), target[c])
PageNumbers ==
  \A c \in 1..ncb :
     /\ Len(fired[c]) <= 1
     /\ Len(fired[c]) = 1 => fired[c][1] = PageNumberOf(c)
     /\ RootClosed => Len(fired[c]) = 1
\* a callback that has not fired is still queued somewhere (none is lost)
Queued(c) == \/ \E w \in W : InSeq(c, cbs[w])
             \/ \E f \in Idx(fut) : InSeq([k |-> "u", i |-> c], fut[f].cb)
NoLostCallback == \A c \in 1..ncb : fired[c] = <<>> => Queued(c)
\* futures: never more updates than announced
FutInv == \A f \in Idx(fut) : fut[f].miss >= 0 /\ (fut[f].miss = 0 => fut[f].cb = <<>>)
=============================================================================
