\* long random behaviours (-simulate)
SPECIFICATION GenSpec
CONSTANTS D = 3
  MaxPages = 9
  MaxWriters = 7
  MaxCbs = 4
  MVals = {"A", "B"}
  CVals = {"-"}
  RVals = {"-", "90"}
  SVals = {"-"}
  PendVals = {FALSE}
  Variant = "ok"
  MinSteps = 8
INVARIANTS NoPanic TailInv RootDone PageNumbers OrderAgrees TargetsAgree
CHECK_DEADLOCK FALSE
