SPECIFICATION Spec
VIEW View
CONSTANTS D = 3
  MaxPages = 5
  MaxWriters = 3
  MaxCbs = 0
  MVals = {"-", "A", "B"}
  CVals = {"-"}
  RVals = {"-"}
  SVals = {"-"}
  PendVals = {FALSE}
  Variant = "ok"
INVARIANTS NoPanic TailInv DepthBound EffectiveSoFar RootDone PageNumbers NoLostCallback FutInv
CHECK_DEADLOCK FALSE
