---------------------------- MODULE Gen_KeyTree ----------------------------
(* Case table for the real fan-out: for every size in Sizes the input of    *)
(* n ascending keys, and the same input with one offending key (duplicate   *)
(* of / smaller than the preceding key, or the first key again) inserted    *)
(* at the positions where leaves fill up.  Keys are in the doubled space of *)
(* MC_KeyTree: the i-th key is 2*i, odd numbers are absent keys; the        *)
(* harness concretises them as names and integers.                          *)
(*                                                                          *)
(*   accept  from the reference contract of Write (RefAccepts)              *)
(*   root, shape  what the code-shaped writer builds (ImplWrite): not       *)
(*           demanded by the property, used to measure how closely the      *)
(*           model follows write.go                                         *)
(*   every plain case is to be probed with all keys 1..2n+1: Lookup must    *)
(*   find exactly the even ones (RefLookup)                                 *)
EXTENDS KeyTreeDefs, Json, IOUtils, SequencesExt
CONSTANTS Sizes, Shard, Shards

Base(n) == [i \in 1..n |-> 2 * i]
PutAfter(q, p, k) == SubSeq(q, 1, p) \o <<k>> \o SubSeq(q, p + 1, Len(q))   \* k follows the p-th key
Positions(n) == {p \in {1, 2, F - 1, F, F + 1, 2 * F, F * F, F * F + 1, n - 1, n} : p >= 1 /\ p <= n}
Offending(p) == {<<"dup", 2 * p>>, <<"less", 2 * p - 1>>, <<"first", 2>>}

Plain(n) ==
  LET tree == ImplWrite([i \in 1..n |-> <<2 * i, i>>])
  IN [n |-> n, bad |-> "", at |-> 0, key |-> 0, accept |-> RefAccepts(Base(n)),
      root |-> tree.kind, shape |-> IF tree.kind = "none" THEN <<>> ELSE Skeleton(tree, 0)]
Defect(n, p, o) ==
  LET q == PutAfter(Base(n), p, o[2])
  IN [n |-> n, bad |-> o[1], at |-> p, key |-> o[2], accept |-> RefAccepts(q), root |-> "", shape |-> <<>>]

Mine == {n \in Sizes : n % Shards = Shard}
\* offending inputs (the key o[2] follows the p-th key) only for the smaller sizes: the
\* check does not depend on what follows
DefectCases == UNION {UNION {{<<n, p, o>> : o \in Offending(p)} : p \in Positions(n)} :
                         n \in {k \in Mine : k <= 2 * F + 1 \/ k = F * F + 1}}
Table == [i \in 1..Cardinality(Mine) |-> Plain(SetToSeq(Mine)[i])]
         \o [i \in 1..Cardinality(DefectCases) |->
               LET d == SetToSeq(DefectCases)[i] IN Defect(d[1], d[2], d[3])]
ASSUME ndJsonSerialize(IOEnv.OUT, Table)
VARIABLE x
Init == x = 0
Next == UNCHANGED x
=============================================================================
