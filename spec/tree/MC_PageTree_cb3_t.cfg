SPECIFICATION Spec
VIEW View
CONSTANTS D = 3
  MaxPages = 4
  MaxWriters = 3
  MaxCbs = 3
  MVals = {"-"}
  CVals = {"-"}
  RVals = {"-"}
  SVals = {"-"}
  PendVals = {FALSE}
  Variant = "ok"
INVARIANTS NoPanic TailInv DepthBound EffectiveSoFar RootDone PageNumbers NoLostCallback FutInv
CHECK_DEADLOCK FALSE
