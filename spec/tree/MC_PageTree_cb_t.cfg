SPECIFICATION Spec
VIEW View
CONSTANTS D = 2
  MaxPages = 4
  MaxWriters = 4
  MaxCbs = 2
  MVals = {"-"}
  CVals = {"-"}
  RVals = {"-"}
  SVals = {"-"}
  PendVals = {FALSE}
  Variant = "ok"
INVARIANTS NoPanic TailInv DepthBound EffectiveSoFar RootDone PageNumbers NoLostCallback FutInv
CHECK_DEADLOCK FALSE
