SPECIFICATION Spec
CONSTANTS MaxNodes = 5
  MaxDepth = 3
  AVals = {"-", "x", "y"}
INVARIANT WalkAgrees
CHECK_DEADLOCK FALSE
