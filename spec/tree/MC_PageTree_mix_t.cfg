SPECIFICATION Spec
VIEW View
CONSTANTS D = 3
  MaxPages = 4
  MaxWriters = 2
  MaxCbs = 0
  MVals = {"A", "B"}
  CVals = {"-"}
  RVals = {"-", "90"}
  SVals = {"-"}
  PendVals = {TRUE, FALSE}
  Variant = "ok"
INVARIANTS NoPanic TailInv DepthBound EffectiveSoFar RootDone PageNumbers NoLostCallback FutInv
CHECK_DEADLOCK FALSE
