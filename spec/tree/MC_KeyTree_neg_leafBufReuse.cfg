\* negative control: seeded defect "leafBufReuse" must violate the properties (self-test only)
SPECIFICATION Spec
CONSTANTS F = 3
  Variant = "leafBufReuse"
  Steps = {2}
  MaxN = 41
INVARIANTS Valid Faithful FaithfulAnyReader Enumerates EarlyExit Reentrant ReadersAgree EmptyNoTree RejectsExactly
CHECK_DEADLOCK FALSE
