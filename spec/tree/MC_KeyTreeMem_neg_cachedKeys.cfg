\* negative control: sorted keys kept while their number equals len(Data) (self-test only)
SPECIFICATION Spec
CONSTANTS F = 2
  Variant = "cachedKeys"
  Sizes = {0, 1, 2, 3}
  MaxSteps = 3
  Sel = {"lo", "mid", "hi"}
INVARIANTS MemEnumerates MemLookup MemWrite
CHECK_DEADLOCK FALSE
