\* negative control: the code before commit 85b29fa ("pre_fix_lone") violates NoPanic
\* within these bounds (a tail <<3, 3, 0>> reaches collapse); with the repair
\* (MC_PageTree_struct_d2_t.cfg, same bounds) everything holds
SPECIFICATION Spec
VIEW View
CONSTANTS D = 2
  MaxPages = 12
  MaxWriters = 4
  MaxCbs = 0
  MVals = {"-"}
  CVals = {"-"}
  RVals = {"-"}
  SVals = {"-"}
  PendVals = {FALSE}
  Variant = "pre_fix_lone"
INVARIANTS NoPanic TailInv DepthBound EffectiveSoFar RootDone PageNumbers NoLostCallback FutInv
CHECK_DEADLOCK FALSE
