\* thorough: F=6, inputs of 0..260 keys (Reentrant is checked for F = 2, 3, 4 and the gap models only: its cost grows with N^2)
SPECIFICATION Spec
CONSTANTS F = 6
  Variant = "asCoded"
  Steps = {2}
  MaxN = 260
INVARIANTS Valid Faithful FaithfulAnyReader Enumerates EarlyExit ReadersAgree EmptyNoTree RejectsExactly MachineIsFunction TailShape NothingLost TailValid Bounded CapIsDead RootDepthPositive
PROPERTIES Terminates
CHECK_DEADLOCK FALSE
