\* thorough: F=6, inputs of 0..260 keys
SPECIFICATION Spec
CONSTANTS F = 6
  Variant = "asCoded"
  Steps = {2}
  MaxN = 260
INVARIANTS Valid Faithful FaithfulAnyReader Enumerates EarlyExit Reentrant ReadersAgree EmptyNoTree RejectsExactly MachineIsFunction TailShape NothingLost TailValid Bounded CapIsDead RootDepthPositive
PROPERTIES Terminates
CHECK_DEADLOCK FALSE
