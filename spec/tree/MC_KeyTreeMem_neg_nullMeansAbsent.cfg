\* negative control: in-memory Lookup treats a stored null object as "not found" (self-test only)
SPECIFICATION Spec
CONSTANTS F = 2
  Variant = "nullMeansAbsent"
  Sizes = {0, 1, 2, 3}
  MaxSteps = 3
  Sel = {"lo", "mid", "hi"}
INVARIANTS MemEnumerates MemLookup MemWrite
CHECK_DEADLOCK FALSE
