SPECIFICATION Spec
VIEW View
CONSTANTS D = 2
  MaxPages = 5
  MaxWriters = 2
  MaxCbs = 0
  MVals = {"-", "A", "B2"}
  CVals = {"-"}
  RVals = {"-"}
  SVals = {"-"}
  PendVals = {FALSE}
  Variant = "ok"
INVARIANTS NoPanic TailInv DepthBound EffectiveSoFar RootDone PageNumbers NoLostCallback FutInv
CHECK_DEADLOCK FALSE
