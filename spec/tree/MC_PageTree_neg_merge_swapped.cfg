\* negative control: the seeded defect "merge_swapped" of the model must violate a property
SPECIFICATION Spec
VIEW View
CONSTANTS D = 2
  MaxPages = 4
  MaxWriters = 3
  MaxCbs = 1
  MVals = {"-", "A", "B"}
  CVals = {"-"}
  RVals = {"-", "90"}
  SVals = {"-"}
  PendVals = {FALSE}
  Variant = "merge_swapped"
INVARIANTS NoPanic TailInv DepthBound EffectiveSoFar RootDone PageNumbers NoLostCallback FutInv
CHECK_DEADLOCK FALSE
