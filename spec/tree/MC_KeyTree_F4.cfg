\* F=4, all accepted inputs of 0..86 keys (crossing F, F^2, F^3), offending keys at every position
SPECIFICATION Spec
CONSTANTS F = 4
  Variant = "asCoded"
  Steps = {2}
  MaxN = 86
INVARIANTS Valid Faithful FaithfulAnyReader Enumerates EarlyExit Reentrant ReadersAgree EmptyNoTree RejectsExactly MachineIsFunction TailShape NothingLost TailValid Bounded CapIsDead RootDepthPositive
PROPERTIES Terminates
CHECK_DEADLOCK FALSE
