\* negative control: the seeded defect "inc_inplace" of the model must violate a property
SPECIFICATION Spec
VIEW View
CONSTANTS D = 2
  MaxPages = 4
  MaxWriters = 3
  MaxCbs = 1
  MVals = {"-", "A", "B"}
  CVals = {"-"}
  RVals = {"-", "90"}
  SVals = {"-"}
  PendVals = {FALSE}
  Variant = "inc_inplace"
INVARIANTS NoPanic TailInv DepthBound EffectiveSoFar RootDone PageNumbers NoLostCallback FutInv
CHECK_DEADLOCK FALSE
