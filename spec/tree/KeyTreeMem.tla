----------------------------- MODULE KeyTreeMem -----------------------------
(* C17, second shape: ONE in-memory tree value (memory.go: InMemory with    *)
(* the exported map Data) that its owner edits between uses.  Every use     *)
(* (All, Lookup, Write(w, t.All()) / Embed) has to reflect the map as it is *)
(* at that moment: the map at the time of the write is the oracle.          *)
(*                                                                          *)
(* Keys are integers as in KeyTreeDefs.  Initial keys are multiples of 8 so *)
(* that a few keys can be inserted between any two neighbours; the harness  *)
(* concretises them order-isomorphically as names and integers.             *)
EXTENDS KeyTreeDefs, SequencesExt
CONSTANTS Sizes,      \* sizes of the initial map
          MaxSteps,   \* edits per behaviour
          Sel         \* selectors used by the edits, e.g. {"lo", "mid", "hi"}

Null == -1            \* t.Data[k] for a key that is not in the map: the nil object
NullVal == 0          \* the PDF null object stored as a value: the key is present like any other

\* the elements of a finite set of integers in ascending order
SortSet(S) == SortSeq(SetToSeq(S), LAMBDA a, b : a < b)
RefAll(d) == LET ks == SortSet(DOMAIN d) IN [i \in 1..Len(ks) |-> <<ks[i], d[ks[i]]>>]

InitMap(n) == [k \in {8 * i : i \in 1..n} |-> (k \div 8) - 1]    \* the least key carries the null object

----------------------------------------------------------------------------
(* Edits of the exported map, by position.  del selects a present key, add  *)
(* an absent one: below the least key, above the greatest, or between the   *)
(* two middle neighbours.                                                   *)
Present(d, s) == LET ks == SortSet(DOMAIN d)
                 IN IF s = "lo" THEN ks[1] ELSE IF s = "hi" THEN ks[Len(ks)] ELSE ks[(Len(ks) + 1) \div 2]
Absent(d, s) == LET ks == SortSet(DOMAIN d)
                    j == (Len(ks) + 1) \div 2
                IN IF ks = <<>> THEN 8
                   ELSE IF s = "lo" THEN ks[1] - 4
                   ELSE IF s = "hi" \/ Len(ks) < 2 THEN ks[Len(ks)] + 4
                   ELSE (ks[j] + ks[j + 1]) \div 2
\* is there room for the absent key (only "mid" can run out of room)
Room(d, s) == LET ks == SortSet(DOMAIN d)
                  j == (Len(ks) + 1) \div 2
              IN (s = "mid" /\ Len(ks) >= 2) => ks[j + 1] - ks[j] >= 2
Ops == [op : {"R"}, del : Sel, add : Sel] \cup [op : {"V", "D"}, del : Sel, add : {"-"}]
       \cup [op : {"A"}, del : {"-"}, add : Sel]
OpEnabled(d, o) == /\ o.op \in {"R", "V", "D"} => DOMAIN d # {}
                   /\ o.op \in {"R", "A"} => Room(d, o.add)
NewVal == 3
Apply(d, o) ==
  LET k1 == Present(d, o.del)
      k2 == Absent(d, o.add)
  IN CASE o.op = "R" -> [k \in (DOMAIN d \ {k1}) \cup {k2} |-> IF k = k2 THEN NewVal ELSE d[k]]   \* delete one key, insert another
       [] o.op = "V" -> [d EXCEPT ![k1] = d[k1] + 1]                                               \* change a value
       [] o.op = "A" -> [k \in DOMAIN d \cup {k2} |-> IF k = k2 THEN NewVal ELSE d[k]]             \* add a key
       [] o.op = "D" -> [k \in DOMAIN d \ {k1} |-> d[k]]                                           \* remove a key

----------------------------------------------------------------------------
(* Impl: memory.go.  All() collects the keys of Data, sorts them and yields *)
(* (key, Data[key]); Lookup is a map access.  Variant "cachedKeys" (a       *)
(* seeded defect, negative control) keeps the sorted keys and rebuilds them *)
(* only when their number differs from len(Data).                           *)
ImplMemKeys(d, cache) == IF Variant = "cachedKeys" /\ Len(cache) = Cardinality(DOMAIN d) THEN cache
                         ELSE SortSet(DOMAIN d)
ImplMemAll(d, cache) == LET ks == ImplMemKeys(d, cache)
                        IN [i \in 1..Len(ks) |-> <<ks[i], IF ks[i] \in DOMAIN d THEN d[ks[i]] ELSE Null>>]
\* Variant "nullMeansAbsent" (a seeded defect, negative control): "if value := Data[key]; value != nil"
ImplMemLookup(d, k) == IF k \in DOMAIN d /\ ~(Variant = "nullMeansAbsent" /\ d[k] = NullVal)
                       THEN <<TRUE, d[k]>> ELSE NotFound
\* Write(w, t.All()): the writer of KeyTreeDefs on what All yields
Rejected == [kind |-> "rejected", ents |-> <<>>, kids |-> <<>>, lim |-> <<>>]
ImplMemWrite(d, cache) == LET all == ImplMemAll(d, cache)
                          IN IF ImplAccepts([i \in 1..Len(all) |-> all[i][1]]) THEN ImplWrite(all) ELSE Rejected

VARIABLES d,       \* InMemory.Data
          cache,   \* the kept key slice (variant "cachedKeys" only)
          steps
mvars == <<d, cache, steps>>

Init == /\ d \in {InitMap(n) : n \in Sizes} /\ cache = <<>> /\ steps = 0
\* the owner edits the exported map (the tree value does not see it happen)
Edit(o) == /\ steps < MaxSteps /\ OpEnabled(d, o)
           /\ d' = Apply(d, o) /\ steps' = steps + 1 /\ UNCHANGED cache
\* any use of the value: All, Write(w, t.All()), Embed
Use == /\ cache' = IF Variant = "cachedKeys" THEN ImplMemKeys(d, cache) ELSE cache
       /\ UNCHANGED <<d, steps>>
Next == (\E o \in Ops : Edit(o)) \/ Use
Spec == Init /\ [][Next]_mvars

\* whatever was done before, the value's readers and a tree written from it show the map
MemEnumerates == ImplMemAll(d, cache) = RefAll(d)
MemLookup == \A k \in (DOMAIN d \cup {k + 1 : k \in DOMAIN d} \cup {k - 1 : k \in DOMAIN d} \cup {0}) :
                ImplMemLookup(d, k) = RefLookup(d, k)
MemWrite == LET t == ImplMemWrite(d, cache)
            IN /\ t # Rejected
               /\ (DOMAIN d = {}) <=> (t = NoTree)
               /\ DOMAIN d # {} => /\ RefValid(t, TRUE)
                                   /\ Entries(t) = RefAll(d)
                                   /\ \A k \in DOMAIN d : ImplLookup(t, k) = RefLookup(d, k)
                                   /\ \A k \in DOMAIN d : ImplLookup(t, k + 1) = RefLookup(d, k + 1)
                                                       /\ ImplLookup(t, k - 1) = RefLookup(d, k - 1)
=============================================================================
