---------------------------- MODULE KeyTreeDefs ----------------------------
(* C17: name trees and number trees (ISO 32000-2, 7.9.6 / 7.9.7) as written *)
(* by internal/pdftree/write.go and read by streaming.go / memory.go.       *)
(*                                                                          *)
(* Keys are integers: an abstract totally ordered set.  The writer and the  *)
(* readers use keys only through comparisons (key <= lastKey, key >= min,   *)
(* key <= max, k = key), so every statement proved for ranks carries over   *)
(* to names ordered bytewise and to PDF integers by any order isomorphism   *)
(* (the harness concretises ranks; Trace_KeyTree re-checks the order of the *)
(* concrete keys).                                                          *)
(*                                                                          *)
(*   Ref...  : what ISO 32000-2 and the property demand (finite maps,       *)
(*             structural validity of a tree, the content of a tree)        *)
(*   Impl... : the shape of the code (treeWriter state machine, collapse,   *)
(*             lookupInNode, yieldFromNode)                                 *)
EXTENDS Integers, Sequences, FiniteSets, TLC

CONSTANTS F,        \* maxChildren (64 in write.go; small in exhaustive models)
          Variant   \* "asCoded", or a seeded defect (negative controls only)

----------------------------------------------------------------------------
(* File objects.  A node dictionary has /Kids or the leaf array (/Names or  *)
(* /Nums) and possibly /Limits.  ents: sequence of <<key, value>>;          *)
(* lim: <<>> (absent) or <<least, greatest>>.                               *)
LeafNode(ents, lim) == [kind |-> "leaf", ents |-> ents, kids |-> <<>>, lim |-> lim]
InnerNode(kids, lim) == [kind |-> "inner", ents |-> <<>>, kids |-> kids, lim |-> lim]
NoTree == [kind |-> "none", ents |-> <<>>, kids |-> <<>>, lim |-> <<>>]   \* the null reference
NotFound == <<FALSE, -1>>                                                  \* ErrKeyNotFound

----------------------------------------------------------------------------
(* Ref: finite maps.  m is a function from a finite set of keys to values.  *)
RefLookup(m, k) == IF k \in DOMAIN m THEN <<TRUE, m[k]>> ELSE NotFound
\* RefAll(m) is the ascending sequence of <<key, value>>; it is characterised
\* rather than constructed (no sorting in TLC):
IsRefAll(m, s) ==
  /\ Len(s) = Cardinality(DOMAIN m)
  /\ \A i \in 1..Len(s) : s[i][1] \in DOMAIN m /\ s[i][2] = m[s[i][1]]
  /\ \A i \in 1..Len(s) - 1 : s[i][1] < s[i + 1][1]
StrictlyIncreasing(q) == \A i \in 1..Len(q) - 1 : q[i] < q[i + 1]
\* input sequences the writer has to accept (Write's contract: sorted, no duplicates)
RefAccepts(keysFed) == StrictlyIncreasing(keysFed)

(* Ref: the content of a tree = the entries of its leaves, left to right.   *)
RECURSIVE Entries(_)
RECURSIVE EntriesOfKids(_, _)
Entries(node) == IF node.kind = "leaf" THEN node.ents
                 ELSE IF node.kind = "inner" THEN EntriesOfKids(node.kids, 1)
                 ELSE <<>>
EntriesOfKids(kids, i) == IF i > Len(kids) THEN <<>> ELSE Entries(kids[i]) \o EntriesOfKids(kids, i + 1)

\* least / greatest key anywhere below a node (a fold, not "first"/"last":
\* the definition must not presuppose that the tree is sorted)
RECURSIVE FoldMin(_, _, _)
FoldMin(q, i, acc) == IF i > Len(q) THEN acc ELSE FoldMin(q, i + 1, IF q[i] < acc THEN q[i] ELSE acc)
RECURSIVE FoldMax(_, _, _)
FoldMax(q, i, acc) == IF i > Len(q) THEN acc ELSE FoldMax(q, i + 1, IF q[i] > acc THEN q[i] ELSE acc)
SeqMin(q) == FoldMin(q, 2, q[1])
SeqMax(q) == FoldMax(q, 2, q[1])
RECURSIVE Least(_)
RECURSIVE Greatest(_)
Least(node) == IF node.kind = "leaf" THEN SeqMin([i \in 1..Len(node.ents) |-> node.ents[i][1]])
               ELSE SeqMin([i \in 1..Len(node.kids) |-> Least(node.kids[i])])
Greatest(node) == IF node.kind = "leaf" THEN SeqMax([i \in 1..Len(node.ents) |-> node.ents[i][1]])
                  ELSE SeqMax([i \in 1..Len(node.kids) |-> Greatest(node.kids[i])])

(* Ref: structural validity (7.9.6, Table 36; the property's wording).      *)
(*  - a node has either kids or entries                                     *)
(*  - the root has no /Limits; every other node has /Limits = [least key,   *)
(*    greatest key] of the subtree                                          *)
(*  - keys strictly ascending within a leaf, kids' key ranges ascending     *)
(*  - every leaf non-empty, every node has 1..F children / entries          *)
RECURSIVE RefValid(_, _)
RefValid(node, isRoot) ==
  /\ node.kind \in {"leaf", "inner"}
  /\ IF isRoot THEN node.lim = <<>> ELSE Len(node.lim) = 2
  /\ IF node.kind = "leaf"
     THEN /\ Len(node.ents) >= 1 /\ Len(node.ents) <= F
          /\ \A i \in 1..Len(node.ents) - 1 : node.ents[i][1] < node.ents[i + 1][1]
     ELSE /\ Len(node.kids) >= 1 /\ Len(node.kids) <= F
          /\ \A i \in 1..Len(node.kids) : RefValid(node.kids[i], FALSE)
          /\ \A i \in 1..Len(node.kids) - 1 : Greatest(node.kids[i]) < Least(node.kids[i + 1])
  /\ ~isRoot => node.lim = <<Least(node), Greatest(node)>>

(* Ref: how any conforming reader finds a key (7.9.6): in a leaf by         *)
(* comparing keys, in an intermediate node through the kid whose /Limits    *)
(* enclose the key.  Used to judge written trees independently of go-pdf's  *)
(* own readers.                                                             *)
RECURSIVE RefTreeLookup(_, _)
RefTreeLookup(node, key) ==
  IF node.kind = "leaf"
  THEN LET hit == {i \in 1..Len(node.ents) : node.ents[i][1] = key}
       IN IF hit = {} THEN NotFound ELSE <<TRUE, node.ents[CHOOSE i \in hit : TRUE][2]>>
  ELSE IF node.kind = "inner"
  THEN LET cand == {j \in 1..Len(node.kids) : /\ Len(node.kids[j].lim) = 2
                                               /\ node.kids[j].lim[1] <= key
                                               /\ key <= node.kids[j].lim[2]}
           found == {RefTreeLookup(node.kids[j], key) : j \in cand} \ {NotFound}
       IN IF found = {} THEN NotFound ELSE CHOOSE a \in found : TRUE
  ELSE NotFound

----------------------------------------------------------------------------
(* Impl: write.go.  nodeInfo = [node, depth, minKey, maxKey]; the node is   *)
(* the dictionary that was Put (it cannot be changed afterwards).           *)
Info(node, depth, lo, hi) == [node |-> node, depth |-> depth, minKey |-> lo, maxKey |-> hi]

\* completePendingLeaf: leaf dictionary with /Limits from the first and last pending entry
ImplLeafInfo(pending) ==
  LET n == Len(pending)
      hiIdx == IF Variant = "limitsMaxOff" /\ n > 1 THEN n - 1 ELSE n      \* seeded defect
  IN Info(LeafNode(pending, <<pending[1][1], pending[hiIdx][1]>>), 0, pending[1][1], pending[n][1])

\* mergeNodes(start, end) on 1-based, inclusive positions
ImplMergeNodes(tail, start, end) ==
  LET ch == SubSeq(tail, start, end)
      lo == ch[1].minKey
      hi == ch[Len(ch)].maxKey
      limLo == IF Variant = "limitsMinOff" /\ Len(ch) > 1 THEN ch[2].minKey ELSE lo   \* seeded defect
      merged == Info(InnerNode([i \in 1..Len(ch) |-> ch[i].node], <<limLo, hi>>), ch[1].depth + 1, lo, hi)
  IN SubSeq(tail, 1, start - 1) \o <<merged>> \o SubSeq(tail, end + 1, Len(tail))

\* mergeTail's loop condition
ImplMergeEnabled(tail) == LET n == Len(tail) IN n >= F /\ tail[n].depth = tail[n - F + 1].depth
ImplMergeOnce(tail) == ImplMergeNodes(tail, Len(tail) - F + 1, Len(tail))

\* one iteration of collapse's loop
RECURSIVE RunStart(_, _, _)
RunStart(tail, start, depth) ==
  IF start > 1 /\ tail[start - 1].depth = depth THEN RunStart(tail, start - 1, depth) ELSE start
ImplCollapseOnce(tail) ==
  LET end == Len(tail)
      s0 == RunStart(tail, end, tail[end].depth)
      start == IF end - s0 + 1 > F THEN end - F + 1 ELSE s0
  IN IF Variant = "collapseAll" THEN ImplMergeNodes(tail, 1, end)          \* seeded defect
     ELSE ImplMergeNodes(tail, start, end)

\* the three ways finish() writes a root
ImplRootWithEntries(pending) == LeafNode(pending, <<>>)
ImplRootOverKid(info) == InnerNode(<<info.node>>, <<>>)

(* Impl: streaming.go lookupInNode.  A leaf is searched entry by entry; in  *)
(* an intermediate node the first kid whose /Limits enclose the key is      *)
(* entered and its answer is final (no backtracking); kids without a        *)
(* well-formed /Limits are skipped.                                         *)
RECURSIVE ImplLookup(_, _)
ImplLookup(node, key) ==
  IF node.kind = "leaf"
  THEN LET hit == {i \in 1..Len(node.ents) : node.ents[i][1] = key}
       IN IF hit = {} THEN NotFound
          ELSE <<TRUE, node.ents[CHOOSE i \in hit : \A j \in hit : i <= j][2]>>
  ELSE IF node.kind = "inner"
  THEN LET In(c) == IF Variant = "lookupStrict" THEN key > c.lim[1] /\ key <= c.lim[2]   \* seeded defect
                    ELSE key >= c.lim[1] /\ key <= c.lim[2]
           cand == {j \in 1..Len(node.kids) : Len(node.kids[j].lim) = 2 /\ In(node.kids[j])}
       IN IF cand = {} THEN NotFound
          ELSE ImplLookup(node.kids[CHOOSE j \in cand : \A i \in cand : j <= i], key)
  ELSE NotFound

\* streaming.go yieldFromNode: leaves left to right (same traversal as Entries,
\* written separately because it is the code's)
RECURSIVE ImplAll(_)
RECURSIVE ImplAllKids(_, _)
ImplAll(node) == IF node.kind = "leaf" THEN node.ents
                 ELSE IF node.kind = "inner" THEN ImplAllKids(node.kids, 1) ELSE <<>>
ImplAllKids(kids, i) == IF i > Len(kids) THEN <<>> ELSE ImplAll(kids[i]) \o ImplAllKids(kids, i + 1)

(* streaming.go yieldFromNode with a consumer that stops: the consumer's    *)
(* yield function returns FALSE from its k-th call on (k >= 1); a leaf      *)
(* hands that on at once, an intermediate node returns FALSE as soon as a   *)
(* kid did.  The operators return <<everything yield was called with,       *)
(* result of yieldFromNode>>; calls after the stop show up as a sequence    *)
(* longer than k.                                                           *)
RECURSIVE ImplYieldNode(_, _, _)
RECURSIVE ImplYieldEnts(_, _, _, _)
RECURSIVE ImplYieldKids(_, _, _, _)
ImplYieldNode(node, out, k) ==
  IF node.kind = "leaf" THEN ImplYieldEnts(node.ents, 1, out, k)
  ELSE IF node.kind = "inner" THEN ImplYieldKids(node.kids, 1, out, k)
  ELSE <<out, TRUE>>
ImplYieldEnts(ents, i, out, k) ==
  IF i > Len(ents) THEN <<out, TRUE>>
  ELSE LET out2 == Append(out, ents[i])
       IN IF Len(out2) >= k THEN <<out2, FALSE>>            \* yield returned false
          ELSE ImplYieldEnts(ents, i + 1, out2, k)
ImplYieldKids(kids, i, out, k) ==
  IF i > Len(kids) THEN <<out, TRUE>>
  ELSE LET r == ImplYieldNode(kids[i], out, k)
       IN IF r[2] THEN ImplYieldKids(kids, i + 1, r[1], k)
          ELSE IF Variant = "yieldBreak" THEN <<r[1], TRUE>>  \* seeded defect: "break", then "return true"
          ELSE <<r[1], FALSE>>
\* All() consumed by a loop that stops at its k-th entry
ImplAllStop(node, k) == ImplYieldNode(node, <<>>, k)[1]
\* Ref: such a consumer sees exactly the first k entries (all of them if there are fewer)
RefPrefix(all, k) == SubSeq(all, 1, IF k < Len(all) THEN k ELSE Len(all))

(* The cycle guard of streaming.go: every walk (one Lookup, one All) owns a *)
(* set "seen" of the kid references it has scanned and skips a kid that is  *)
(* already in it.  Nodes are identified by their path from the root.  A     *)
(* Lookup made by the consumer of All() while the enumeration is under way  *)
(* is a walk of its own and leaves the enumeration's set alone.  Variant    *)
(* "sharedSeen" (a seeded defect, negative control) keeps one set per       *)
(* reader, cleared at the start of every walk.                              *)
RECURSIVE ImplLookupMarks(_, _, _, _)
RECURSIVE ImplLookupScan(_, _, _, _, _)
\* the set after lookupInNode searched key below node (at path), starting with seen
ImplLookupMarks(node, path, key, seen) ==
  IF node.kind = "inner" THEN ImplLookupScan(node, path, 1, key, seen) ELSE seen
ImplLookupScan(node, path, i, key, seen) ==
  IF i > Len(node.kids) THEN seen
  ELSE LET p == Append(path, i)
           c == node.kids[i]
       IN IF p \in seen THEN ImplLookupScan(node, path, i + 1, key, seen)
          ELSE IF Len(c.lim) = 2 /\ key >= c.lim[1] /\ key <= c.lim[2]
          THEN ImplLookupMarks(c, p, key, seen \cup {p})
          ELSE ImplLookupScan(node, path, i + 1, key, seen \cup {p})
\* All(), whose consumer calls Lookup(key) when it receives its at-th entry;
\* st = [out: what was yielded, seen: the enumeration's set]
RECURSIVE ImplNestNode(_, _, _, _, _, _)
RECURSIVE ImplNestEnts(_, _, _, _, _, _)
RECURSIVE ImplNestKids(_, _, _, _, _, _, _)
ImplNestNode(node, path, st, at, key, root) ==
  IF node.kind = "leaf" THEN ImplNestEnts(node.ents, 1, st, at, key, root)
  ELSE IF node.kind = "inner" THEN ImplNestKids(node, path, 1, st, at, key, root)
  ELSE st
ImplNestEnts(ents, i, st, at, key, root) ==
  IF i > Len(ents) THEN st
  ELSE LET out2 == Append(st.out, ents[i])
           seen2 == IF Len(out2) = at /\ Variant = "sharedSeen"
                    THEN ImplLookupMarks(root, <<>>, key, {})   \* the nested walk cleared and refilled the shared set
                    ELSE st.seen
       IN ImplNestEnts(ents, i + 1, [out |-> out2, seen |-> seen2], at, key, root)
ImplNestKids(node, path, i, st, at, key, root) ==
  IF i > Len(node.kids) THEN st
  ELSE LET p == Append(path, i)
       IN IF p \in st.seen THEN ImplNestKids(node, path, i + 1, st, at, key, root)
          ELSE ImplNestKids(node, path, i + 1,
                            ImplNestNode(node.kids[i], p, [out |-> st.out, seen |-> st.seen \cup {p}], at, key, root),
                            at, key, root)
ImplAllNested(tree, at, key) == ImplNestNode(tree, <<>>, [out |-> <<>>, seen |-> {}], at, key, tree).out

(* pdf.Writer.Put serialises an object at once - unless a stream is open on *)
(* the writer: then the object is queued and serialised when the stream is  *)
(* closed.  The tree writer never touches a dictionary after Put, so the    *)
(* file shows the same nodes either way.  Variant "leafBufReuse" (a seeded  *)
(* defect, negative control) builds every leaf array in one scratch buffer: *)
(* queued leaves then all show the buffer's final contents.                 *)
RECURSIVE LeavesOf(_)
RECURSIVE LeavesOfKids(_, _)
LeavesOf(node) == IF node.kind = "leaf" THEN <<node>>
                  ELSE IF node.kind = "inner" THEN LeavesOfKids(node.kids, 1) ELSE <<>>
LeavesOfKids(kids, i) == IF i > Len(kids) THEN <<>> ELSE LeavesOf(kids[i]) \o LeavesOfKids(kids, i + 1)
RECURSIVE FinalBuf(_, _, _)
FinalBuf(leaves, i, buf) ==
  IF i > Len(leaves) THEN buf
  ELSE LET e == leaves[i].ents
       IN FinalBuf(leaves, i + 1, e \o SubSeq(buf, Len(e) + 1, Len(buf)))
RECURSIVE Aliased(_, _)
Aliased(node, buf) ==
  IF node.kind = "leaf" THEN [node EXCEPT !.ents = SubSeq(buf, 1, Len(node.ents))]
  ELSE IF node.kind = "inner" THEN [node EXCEPT !.kids = [i \in 1..Len(node.kids) |-> Aliased(node.kids[i], buf)]]
  ELSE node
\* what the file holds for a tree that was Put while streamOpen
FileView(tree, streamOpen) ==
  IF streamOpen /\ Variant = "leafBufReuse" /\ tree.kind = "inner"
  THEN Aliased(tree, FinalBuf(LeavesOf(tree), 1, <<>>))
  ELSE tree

\* memory.go: extractFromNode fills a map (later entries overwrite), All sorts it
RECURSIVE MapOfSeq(_, _)
MapOfSeq(s, i) == IF i > Len(s) THEN << >> ELSE (s[i][1] :> s[i][2]) @@ MapOfSeq(s, i + 1)
ImplInMemory(node) == LET s == ImplAll(node) IN [k \in {s[i][1] : i \in 1..Len(s)} |->
                         s[CHOOSE i \in 1..Len(s) : s[i][1] = k /\ \A j \in 1..Len(s) : s[j][1] = k => j <= i][2]]

----------------------------------------------------------------------------
(* The writer as a function (the loops of write.go run to completion); the  *)
(* state machine below takes the same steps one at a time, and MC_KeyTree   *)
(* checks that both agree.  Gen_KeyTree and the F=64 evaluations use it.    *)
RECURSIVE ImplMergeTail(_)
ImplMergeTail(tail) == IF ImplMergeEnabled(tail) THEN ImplMergeTail(ImplMergeOnce(tail)) ELSE tail
RECURSIVE ImplCollapse(_)
ImplCollapse(tail) == IF Len(tail) > 1 THEN ImplCollapse(ImplCollapseOnce(tail)) ELSE tail
ImplCompleteLeaf(tail, pending) == ImplMergeTail(Append(tail, ImplLeafInfo(pending)))
\* addEntry for the accepted entries ents[k..], a leaf at a time: F calls of addEntry
\* fill the pending leaf and complete it; fewer stay pending
RECURSIVE ImplFeed(_, _, _)
ImplFeed(ents, k, tail) ==
  IF Len(ents) - k + 1 >= F
  THEN ImplFeed(ents, k + F, ImplCompleteLeaf(tail, SubSeq(ents, k, k + F - 1)))
  ELSE <<tail, SubSeq(ents, k, Len(ents))>>
ImplFinish(tail, pending) ==
  IF pending # <<>> /\ tail = <<>> THEN ImplRootWithEntries(pending)
  ELSE LET t2 == IF pending # <<>> THEN ImplCompleteLeaf(tail, pending) ELSE tail
       IN IF t2 = <<>> THEN NoTree
          ELSE IF Len(t2) = 1 /\ t2[1].depth = 0 THEN ImplRootOverKid(t2[1])
          ELSE LET c == ImplCollapse(t2)
               IN IF c[1].depth > 0 THEN ImplRootOverKid(c[1]) ELSE c[1].node
\* Write for a strictly increasing sequence of entries
ImplWrite(ents) == LET r == ImplFeed(ents, 1, <<>>) IN ImplFinish(r[1], r[2])
\* addEntry's check over a whole input: "hasEntries && key <= lastKey" never fires
ImplAccepts(keysFed) == ~\E i \in 2..Len(keysFed) : keysFed[i] <= keysFed[i - 1]

\* the shape of a tree: pre-order list of <<level, 0 (leaf) | 1 (inner), number of
\* entries / kids, 1 if /Limits present>>
RECURSIVE Skeleton(_, _)
RECURSIVE SkeletonKids(_, _, _)
Skeleton(node, level) ==
  <<<<level, IF node.kind = "leaf" THEN 0 ELSE 1,
      IF node.kind = "leaf" THEN Len(node.ents) ELSE Len(node.kids),
      IF node.lim = <<>> THEN 0 ELSE 1>>>> \o SkeletonKids(node.kids, 1, level + 1)
SkeletonKids(kids, i, level) ==
  IF i > Len(kids) THEN <<>> ELSE Skeleton(kids[i], level) \o SkeletonKids(kids, i + 1, level)
=============================================================================
