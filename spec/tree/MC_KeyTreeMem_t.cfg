\* thorough: F=3, initial maps up to 12 keys (crossing F, F^2), up to 3 edits
SPECIFICATION Spec
CONSTANTS F = 3
  Variant = "asCoded"
  Sizes = {0, 1, 2, 3, 4, 8, 9, 10, 12}
  MaxSteps = 3
  Sel = {"lo", "mid", "hi"}
INVARIANTS MemEnumerates MemLookup MemWrite
CHECK_DEADLOCK FALSE
