--------------------------- MODULE Gen_KeyTreeMem ---------------------------
(* Scripts for the second shape of C17: an initial map of n keys, a first   *)
(* use, then MaxSteps edits of the exported map (every sequence of enabled  *)
(* edits), with the map the reference semantics expects after every edit.   *)
(* The harness replays each script on ONE nametree / numtree InMemory value *)
(* and, after every edit, reads the value and writes a tree from it.        *)
EXTENDS KeyTreeMem, Json, IOUtils

RECURSIVE Runs(_, _)
\* all enabled edit sequences of length 1..k from map m: <<ops, maps after each op>>
Runs(m, k) ==
  IF k = 0 THEN {}
  ELSE UNION {LET m2 == Apply(m, o)
              IN {<<<<o>>, <<m2>>>>} \cup {<<<<o>>  \o r[1], <<m2>> \o r[2]>> : r \in Runs(m2, k - 1)}
              : o \in {o \in Ops : OpEnabled(m, o)}}
Script(n, r) == [n |-> n, ops |-> r[1],
                 after |-> [i \in 1..Len(r[2]) |->
                              LET all == RefAll(r[2][i])
                              IN [keys |-> [j \in 1..Len(all) |-> all[j][1]], vals |-> [j \in 1..Len(all) |-> all[j][2]]]]]
Table == UNION {{Script(n, r) : r \in Runs(InitMap(n), MaxSteps)} : n \in Sizes}
ASSUME ndJsonSerialize(IOEnv.OUT, SetToSeq(Table))
VARIABLE x
GInit == x = 0 /\ d = << >> /\ cache = <<>> /\ steps = 0
GNext == UNCHANGED <<x, d, cache, steps>>
=============================================================================
