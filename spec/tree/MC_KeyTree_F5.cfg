\* thorough: F=5, all accepted inputs of 0..157 keys (crossing F, F^2, F^3), offending keys at every position (Reentrant is checked for F = 2, 3, 4 and the gap models only: its cost grows with N^2)
SPECIFICATION Spec
CONSTANTS F = 5
  Variant = "asCoded"
  Steps = {2}
  MaxN = 157
INVARIANTS Valid Faithful FaithfulAnyReader Enumerates EarlyExit ReadersAgree EmptyNoTree RejectsExactly MachineIsFunction TailShape NothingLost TailValid Bounded CapIsDead RootDepthPositive
PROPERTIES Terminates
CHECK_DEADLOCK FALSE
