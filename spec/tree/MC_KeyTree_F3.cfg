\* F=3, all accepted inputs of 0..41 keys (crossing F, F^2, F^3), offending keys at every position
SPECIFICATION Spec
CONSTANTS F = 3
  Variant = "asCoded"
  Steps = {2}
  MaxN = 41
INVARIANTS Valid Faithful FaithfulAnyReader Enumerates EarlyExit Reentrant ReadersAgree EmptyNoTree RejectsExactly MachineIsFunction TailShape NothingLost TailValid Bounded CapIsDead RootDepthPositive
PROPERTIES Terminates
CHECK_DEADLOCK FALSE
