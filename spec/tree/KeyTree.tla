------------------------------ MODULE KeyTree ------------------------------
(* C17: the writer of internal/pdftree/write.go as a state machine, and the *)
(* property "name and number trees are faithful, ordered dictionaries" as   *)
(* invariants of a finished write.  The node model, the reference           *)
(* semantics (Ref...) and the code-shaped operators (Impl...: single steps  *)
(* of mergeTail / collapse, lookupInNode, yieldFromNode) are in             *)
(* KeyTreeDefs, which Trace_KeyTree and Gen_KeyTree share.                  *)
EXTENDS KeyTreeDefs

----------------------------------------------------------------------------
(* The writer as a state machine: one action per code path of write.go.     *)
VARIABLES pc,          \* control point
          pending,     \* treeWriter.pendingLeaf
          tail,        \* treeWriter.tail
          lastKey,     \* treeWriter.lastKey
          hasEntries,  \* treeWriter.hasEntries
          result,      \* the tree behind the returned reference
          streamOpen,  \* a stream is open on the pdf.Writer: every Put is queued until it is closed
          fed,         \* every key the caller's iterator produced (history)
          m            \* the map the accepted entries describe (history, kept apart from the tree)
vars == <<pc, pending, tail, lastKey, hasEntries, result, streamOpen, fed, m>>

\* the value stored with key k (opaque to the writer and the readers); some keys
\* carry the PDF null object: such a key is present like any other
NullVal == 0
ValOf(k) == IF k % 10 = 0 THEN NullVal ELSE 1000 + 7 * k

Init == /\ pc = "add" /\ pending = <<>> /\ tail = <<>> /\ lastKey = 0 /\ hasEntries = FALSE
        /\ result = NoTree /\ fed = <<>> /\ m = << >>
        /\ streamOpen \in BOOLEAN

\* addEntry: the unsorted / duplicate check, then append to the pending leaf
AddEntry(k) ==
  /\ pc = "add"
  /\ fed' = Append(fed, k)
  /\ IF hasEntries /\ k <= lastKey
     THEN /\ pc' = "rejected"                        \* errors.New("keys must be in sorted order")
          /\ UNCHANGED <<pending, tail, lastKey, hasEntries, result, streamOpen, m>>
     ELSE /\ lastKey' = k /\ hasEntries' = TRUE
          /\ pending' = Append(pending, <<k, ValOf(k)>>)
          /\ m' = (k :> ValOf(k)) @@ m
          /\ pc' = IF Len(pending') >= F THEN "complete" ELSE "add"
          /\ UNCHANGED <<tail, result, streamOpen>>

\* completePendingLeaf (called from addEntry: "complete", from finish: "fcomplete")
CompleteLeaf ==
  /\ pc \in {"complete", "fcomplete"}
  /\ tail' = Append(tail, ImplLeafInfo(pending))
  /\ pending' = <<>>
  /\ pc' = IF pc = "complete" THEN "merge" ELSE "fmerge"
  /\ UNCHANGED <<lastKey, hasEntries, result, streamOpen, fed, m>>

\* mergeTail: one iteration of the loop / leaving the loop
MergeStep ==
  /\ pc \in {"merge", "fmerge"} /\ ImplMergeEnabled(tail)
  /\ tail' = ImplMergeOnce(tail)
  /\ UNCHANGED <<pc, pending, lastKey, hasEntries, result, streamOpen, fed, m>>
MergeDone ==
  /\ pc \in {"merge", "fmerge"} /\ ~ImplMergeEnabled(tail)
  /\ pc' = IF pc = "merge" THEN "add" ELSE "finish"
  /\ UNCHANGED <<pending, tail, lastKey, hasEntries, result, streamOpen, fed, m>>

\* finish, first part: the pending leaf
FinishRootWithEntries ==                     \* exit 1: only a pending leaf
  /\ pc = "add" /\ pending # <<>> /\ tail = <<>>
  /\ result' = ImplRootWithEntries(pending)
  /\ pc' = "done"
  /\ UNCHANGED <<pending, tail, lastKey, hasEntries, streamOpen, fed, m>>
FinishCompletePending ==
  /\ pc = "add" /\ pending # <<>> /\ tail # <<>>
  /\ pc' = "fcomplete"
  /\ UNCHANGED <<pending, tail, lastKey, hasEntries, result, streamOpen, fed, m>>
FinishNoPending ==
  /\ pc = "add" /\ pending = <<>>
  /\ pc' = "finish"
  /\ UNCHANGED <<pending, tail, lastKey, hasEntries, result, streamOpen, fed, m>>
\* finish, second part
FinishEmpty ==                               \* exit 2: no entries, null reference
  /\ pc = "finish" /\ tail = <<>>
  /\ result' = NoTree /\ pc' = "done"
  /\ UNCHANGED <<pending, tail, lastKey, hasEntries, streamOpen, fed, m>>
FinishSingleLeaf ==                          \* exit 3: one completed leaf under a fresh root
  /\ pc = "finish" /\ Len(tail) = 1 /\ tail[1].depth = 0
  /\ result' = FileView(ImplRootOverKid(tail[1]), streamOpen) /\ pc' = "done"
  /\ UNCHANGED <<pending, tail, lastKey, hasEntries, streamOpen, fed, m>>
FinishCollapse ==
  /\ pc = "finish" /\ tail # <<>> /\ ~(Len(tail) = 1 /\ tail[1].depth = 0)
  /\ pc' = "collapse"
  /\ UNCHANGED <<pending, tail, lastKey, hasEntries, result, streamOpen, fed, m>>
\* collapse: one iteration (merges the trailing run, or lifts a lone trailing node)
CollapseStep ==
  /\ pc = "collapse" /\ Len(tail) > 1
  /\ tail' = ImplCollapseOnce(tail)
  /\ UNCHANGED <<pc, pending, lastKey, hasEntries, result, streamOpen, fed, m>>
FinishRoot ==                                \* exit 4: fresh root without /Limits over the collapsed node
  /\ pc = "collapse" /\ Len(tail) = 1
  /\ result' = FileView(IF tail[1].depth > 0 THEN ImplRootOverKid(tail[1]) ELSE tail[1].node, streamOpen)
  /\ pc' = "done"
  /\ UNCHANGED <<pending, tail, lastKey, hasEntries, streamOpen, fed, m>>

Final == {"done", "rejected"}

----------------------------------------------------------------------------
(* Properties of a finished write.                                          *)
Accepted == pc = "done"
\* the probes: every key, every gap between neighbours, below the least and
\* above the greatest key (accepted keys are even in the models, so every
\* odd number is an absent key)
Probes == IF DOMAIN m = {} THEN {1} ELSE (SeqMin(fed) - 1)..(SeqMax(fed) + 1)

Valid == (Accepted /\ DOMAIN m # {}) => RefValid(result, TRUE)
Faithful == Accepted => \A k \in Probes : ImplLookup(result, k) = RefLookup(m, k)
FaithfulAnyReader == Accepted => \A k \in Probes : RefTreeLookup(result, k) = RefLookup(m, k)
Enumerates == Accepted => /\ IsRefAll(m, ImplAll(result))
                          /\ IsRefAll(m, Entries(result))
\* a consumer of All() that stops at its k-th entry gets the first k entries and nothing more
EarlyExit == Accepted => LET all == [i \in 1..Len(fed) |-> <<fed[i], m[fed[i]]>>]
                         IN \A k \in 1..(Len(fed) + 1) : ImplAllStop(result, k) = RefPrefix(all, k)
\* a Lookup made from inside the consumer of All() (at any entry, for the current key, a key of
\* another leaf, the first and the last key, an absent key) does not disturb the enumeration
Reentrant == Accepted => LET all == [i \in 1..Len(fed) |-> <<fed[i], m[fed[i]]>>]
                             n == Len(fed)
                         IN \A at \in 1..n :
                              \A key \in {fed[at], fed[((at + F) % n) + 1], fed[1], fed[n], fed[at] + 1} :
                                 ImplAllNested(result, at, key) = all
ReadersAgree == Accepted => ImplInMemory(result) = m
EmptyNoTree == Accepted => ((DOMAIN m = {}) <=> (result = NoTree))
RejectsExactly == /\ (pc = "rejected") => ~RefAccepts(fed)
                  /\ (pc # "rejected") => RefAccepts(fed)
\* the state machine and the functional form of the writer agree
MachineIsFunction == /\ Accepted => result = FileView(ImplWrite([i \in 1..Len(fed) |-> <<fed[i], ValOf(fed[i])>>]), streamOpen)
                     /\ (pc = "rejected") = ~ImplAccepts(fed)

\* what collapse's comment assumes about the tail between calls: depths do not
\* increase from left to right and fewer than F nodes share a depth
TailShape == (pc = "add") => /\ \A i \in 1..Len(tail) - 1 : tail[i].depth >= tail[i + 1].depth
                             /\ \A i \in 1..Len(tail) : Cardinality({j \in 1..Len(tail) : tail[j].depth = tail[i].depth}) < F
\* nothing is lost on the way: the completed subtrees plus the pending leaf hold the accepted entries
RECURSIVE TailEntries(_, _)
TailEntries(t, i) == IF i > Len(t) THEN <<>> ELSE Entries(t[i].node) \o TailEntries(t, i + 1)
NothingLost == (pc \notin Final) => IsRefAll(m, TailEntries(tail, 1) \o pending)
\* every completed subtree is a valid non-root subtree with matching nodeInfo
TailValid == \A i \in 1..Len(tail) : /\ RefValid(tail[i].node, FALSE)
                                     /\ tail[i].node.lim = <<tail[i].minKey, tail[i].maxKey>>
=============================================================================
