\* stand-alone run (the driver passes Sizes / Shard / Shards itself)
INIT Init
NEXT Next
CONSTANTS F = 64
  Variant = "asCoded"
  Sizes = {0, 1, 2, 63, 64, 65, 127, 128, 129, 4095, 4096, 4097, 4160}
  Shard = 0
  Shards = 1
