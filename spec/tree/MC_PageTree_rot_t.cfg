SPECIFICATION Spec
VIEW View
CONSTANTS D = 3
  MaxPages = 5
  MaxWriters = 3
  MaxCbs = 0
  MVals = {"-"}
  CVals = {"-"}
  RVals = {"-", "0", "90", "180"}
  SVals = {"-"}
  PendVals = {FALSE}
  Variant = "ok"
INVARIANTS NoPanic TailInv DepthBound EffectiveSoFar RootDone PageNumbers NoLostCallback FutInv
CHECK_DEADLOCK FALSE
