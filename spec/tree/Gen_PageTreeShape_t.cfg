SPECIFICATION Spec
CONSTANTS MaxNodes = 6
  MaxDepth = 5
  AVals = {"-", "x", "y"}
INVARIANT WalkAgrees
CHECK_DEADLOCK FALSE
