---------------------------- MODULE MC_Envelope ----------------------------
EXTENDS Envelope
\* the budget as a function of the raw length (internal/limits.StreamBudget:
\* 8 MiB + min(1024 x raw length, 256 MiB)), in KB, at the lengths where its
\* shape shows: it grows by 1 KB per raw byte up to 256 KiB and is flat beyond
KiB == 1024
ASSUME /\ StreamBudgetKB(0) = 8192 + 1
       /\ StreamBudgetKB(1) = 8192 + 2
       /\ StreamBudgetKB(256 * KiB - 1) = 8192 + 262144
       /\ StreamBudgetKB(256 * KiB + 1) = 8192 + 262144
       /\ \A n \in {300 * KiB, 1024 * KiB, 16 * 1024 * KiB, 1024 * 1024 * KiB} : StreamBudgetKB(n) = 8192 + 262144
=============================================================================
