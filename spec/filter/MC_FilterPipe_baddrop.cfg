SPECIFICATION Spec
CONSTANTS
  MaxUnits = 4
  RowUnits = 1
  RowStage = 0
  Stages = 1
  MaxRead = 2
  MaxZero = 1
  BREAK = "dropflush"
INVARIANTS ConservationW ConservationR FIFO EOFLast FileComplete NoStuck SchedOK
CHECK_DEADLOCK FALSE
