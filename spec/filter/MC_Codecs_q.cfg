SPECIFICATION Spec
CONSTANTS
  Parts = {"rl", "ah", "a85", "pr", "lzw"}
  RLCounts = {1, 2, 3, 4, 127, 128, 129, 130}
  RLMaxRuns = 2
  SmallLen = 5
  LzwLens = {250, 253, 254, 255, 256, 257, 258, 260, 765, 766, 767, 768, 769}
  BREAK = "none"
INVARIANTS RLOK AHOK A85OK LZWOK PROK
CHECK_DEADLOCK FALSE
