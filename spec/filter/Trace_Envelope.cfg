SPECIFICATION TSpec
CONSTANTS
  MaxChain = 8
  Budget = 1
  MaxAsk = 1
  NStages = 1
  BREAK = "none"
CHECK_DEADLOCK FALSE
